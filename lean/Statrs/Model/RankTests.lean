/-
  Statrs.Model.RankTests — hand models of the rank-based code the translator does not cover
  (slice `sort_by`, closures over a generic `ContinuousCDF`, `nalgebra::DMatrix`):

    * `Data::ranks`                       src/statistics/slice_statistics.rs:201
    * `rankdata_mwu`, `mannwhitneyu`      src/stats_tests/mannwhitneyu.rs:61, :246
    * `ks_onesample`, `ks_twosample`      src/stats_tests/ks_test.rs:202, :382
    * `onesample_marsaglia_et_al_twosided_pvalue`           src/stats_tests/ks_test.rs:125
    * `twosample_schroer_and_trenkler_twosided_pvalue`      src/stats_tests/ks_test.rs:325

  Generic over the same carrier classes as the generated code; statement for statement with the
  Rust source (same float expressions, same association, same order of updates).  The helpers
  that ARE generated (`handle_rank_ties`, `calc_mwu_asymptotic_pvalue`, `calc_mwu_exact_pvalue`,
  `onesample_birnbaum_tingey_onesided_pvalue`, `onesample_kolmogorov_twosided_pvalue`,
  `twosample_hodge_equation_53_onesided_pvalue`) are called, not re-modelled.

  Conventions (as in the generated code): Rust `>`/`>=` are flipped to `<`/`≤`; `n as f64` is
  `RFun.ofInt n`; `x as u64`/`usize` is `RFun.toU64 x`; `i as i32` is `wrapI32 i`; `a.max(b)` on
  `f64` is `RFun.fmax a b`; `num_traits::clamp` is `ntClamp`; unsigned `-` is `usub`.

  Sorting.  `slice::sort_by(|a, b| a.partial_cmp(b).unwrap())` is a *stable* sort; on inputs whose
  elements are pairwise comparable its result is uniquely determined, and `sortBy` (a stable
  insertion sort, the same recursion as Mathlib's `List.insertionSort`) computes it.  If some
  element is uncomparable (`f64`: NaN) and the slice has at least two elements, every correct
  comparison sort compares that element at least once, `partial_cmp` returns `None` and the
  `unwrap`/`expect` panics: the models return `panicV` there and the companions `*_panics`
  tell the driver (convention of `Empirical.min_panics`).  A slice of length < 2 is never
  compared, so `[NaN]` does not panic.

  `data.len() as f64` followed by `n as usize` is the identity on lengths (< 2^53): the models
  keep the integer length where Rust casts it back.

  `onesample_marsaglia_et_al_twosided_pvalue` uses nalgebra's `&a * v` and `&a * &a`; their float
  result depends on the summation order nalgebra 0.33 picks (see `matVec`, `matMul`): for
  dimension ≤ 5 a column-axpy loop (plain `a*b + y`), for dimension > 5 `matrixmultiply::dgemm`,
  whose micro-kernel accumulates with a *fused* multiply-add on CPUs that have FMA.  The model is
  therefore parametrised by the multiply-add `madd a b c` (= `a*b + c` over ℝ; the driver passes
  the machine's fused operation for `Float`).  No Mathlib import.
-/
import Statrs.Basic
import Statrs.Gen.Types
import Statrs.Gen.SF
import Statrs.Gen.S_slice_statistics
import Statrs.Gen.T_mannwhitneyu
import Statrs.Gen.T_ks_test
set_option linter.unusedVariables false
namespace Statrs.Model
open Statrs Statrs.Gen

/-! ## stable sort on lists -/

section sorting
variable {β : Type}

/-- insert `a` before the first element `b` with `le a b` (Mathlib's `List.orderedInsert`) -/
def insertBy (le : β → β → Bool) (a : β) : List β → List β
  | [] => [a]
  | b :: l => if le a b = true then a :: b :: l else b :: insertBy le a l

/-- stable insertion sort (Mathlib's `List.insertionSort`): the model of `slice::sort_by` -/
def sortBy (le : β → β → Bool) : List β → List β
  | [] => []
  | a :: l => insertBy le a (sortBy le l)

/-- `slice[lo..hi].fill(v)` (never out of range where it is used) -/
def listFill (l : List β) (lo hi : Int) (v : β) : List β :=
  (rangeList lo hi).foldl (fun l i => listSet l i v) l

end sorting

section
variable {α : Type} [Add α] [Sub α] [Mul α] [Div α] [Neg α] [LT α] [LE α] [BEq α]
  [DecidableLT α] [DecidableLE α] [OfScientific α] [Inhabited α] [RFun α]

/-- core's `impl PartialOrd for f64`: `match (*self <= *other, *self >= *other)` with
    `(false,false) => None, (false,true) => Some(Greater), (true,false) => Some(Less),
    (true,true) => Some(Equal)` -/
def partialCmp (a b : α) : Option Ordering :=
  if a ≤ b then (if b ≤ a then some Ordering.eq else some Ordering.lt)
  else (if b ≤ a then some Ordering.gt else none)

/-- `v.sort_by(|a, b| a.partial_cmp(b).unwrap())` panics: at least two elements and one of them
    is not comparable with itself (`f64`: a NaN) -/
def sortPanics (l : List α) : Bool :=
  decide (2 ≤ l.length) && l.any (fun a => (partialCmp a a).isNone)

/-- `Vec::dedup` (`PartialEq`): drop every element equal to the last *kept* one -/
def dedupAux (last : α) : List α → List α
  | [] => []
  | b :: t => if (b == last) = true then dedupAux last t else b :: dedupAux b t

/-- `Vec::dedup` -/
def dedup : List α → List α
  | [] => []
  | a :: t => a :: dedupAux a t

/-! ## `Data::ranks` — src/statistics/slice_statistics.rs:201 -/

/-- src/statistics/slice_statistics.rs:204-205 —
    `let mut enumerated: Vec<_> = self.iter().enumerate().collect();
     enumerated.sort_by(|(_, el_a), (_, el_b)| el_a.partial_cmp(el_b).unwrap());`
    (stable, so equal values keep their index order: the key is `(value, original index)`) -/
def Data.ranks.enumerated (self : Data α) : List (Int × α) :=
  sortBy (fun a b => decide (a.2 ≤ b.2)) (listEnum self.f_0)

/-- src/statistics/slice_statistics.rs:217-233 — one iteration of
    `for (i, (idx, elt)) in enumerated.iter().cloned().enumerate()`;
    state `(ranks, (prev, (prev_idx, prev_elt)))` -/
def Data.ranks.step (enumerated : List (Int × α)) (tie_breaker : RankTieBreaker)
    (st : List α × (Int × (Int × α))) (x : Int × (Int × α)) : List α × (Int × (Int × α)) :=
  let ranks := st.1
  let prev := st.2.1
  let i := x.1
  let idx := x.2.1
  let elt := x.2.2
  -- if i == 0 { prev_idx = idx; prev_elt = *elt; }
  let prev_idx := if i = (0 : Int) then idx else st.2.2.1
  let prev_elt := if i = (0 : Int) then elt else st.2.2.2
  -- if *elt == prev_elt { continue; }
  if ((elt == prev_elt) = true) then (ranks, (prev, (prev_idx, prev_elt)))
  else
    -- if i == prev + 1 { ranks[prev_idx] = i as f64; } else { handle_rank_ties(…, prev, i, …); }
    let ranks :=
      if i = prev + (1 : Int) then listSet ranks prev_idx (RFun.ofInt i : α)
      else (S.slice_statistics.handle_rank_ties (α := α) ranks enumerated prev i tie_breaker).2
    -- prev = i; prev_idx = idx; prev_elt = *elt;
    (ranks, (i, (idx, elt)))

/-- src/statistics/slice_statistics.rs:201 — `Data::ranks` (`&mut self`, but the data is not
    modified).  `panicV` (= `[]`) where the sort's `unwrap` panics, see `Data.ranks_panics`. -/
def Data.ranks (self : Data α) (tie_breaker : RankTieBreaker) : List α :=
  -- let n = self.len(); let mut ranks: Vec<f64> = vec![0.0; n];
  let n := listLen self.f_0
  let ranks : List α := List.replicate self.f_0.length (0.0 : α)
  if sortPanics self.f_0 = true then panicV
  else
    let enumerated := Data.ranks.enumerated self
    match tie_breaker with
    | RankTieBreaker.First =>
      -- for (i, idx) in enumerated.into_iter().map(|(idx, _)| idx).enumerate() { ranks[idx] = (i + 1) as f64 }
      (listEnum (enumerated.map Prod.fst)).foldl
        (fun ranks p => listSet ranks p.2 (RFun.ofInt (p.1 + (1 : Int)) : α)) ranks
    | _ =>
      -- let mut prev = 0; let mut prev_idx = 0; let mut prev_elt = 0.0;
      let st := (listEnum enumerated).foldl (Data.ranks.step enumerated tie_breaker)
        (ranks, ((0 : Int), ((0 : Int), (0.0 : α))))
      -- handle_rank_ties(&mut ranks, &enumerated, prev, n, tie_breaker);
      (S.slice_statistics.handle_rank_ties (α := α) st.1 enumerated st.2.1 n tie_breaker).2

/-- `Data::ranks` panics (`partial_cmp(..).unwrap()` on `None` inside `sort_by`) -/
def Data.ranks_panics (self : Data α) : Bool := sortPanics self.f_0

/-! ## `rankdata_mwu`, `mannwhitneyu` — src/stats_tests/mannwhitneyu.rs -/

/-- src/stats_tests/mannwhitneyu.rs:65-71 — some pair `i < k` with
    `y[i].partial_cmp(&y[k]).is_none()` -/
def rankdata_mwu.uncomparable : List α → Bool
  | [] => false
  | a :: t => t.any (fun b => (partialCmp a b).isNone) || rankdata_mwu.uncomparable t

/-- src/stats_tests/mannwhitneyu.rs:89-105 — one iteration of `for i in 1..n`;
    state `(ranks_sorted, (t, (k, count)))` -/
def rankdata_mwu.step (y : List α) (st : List α × (List Int × (Int × Int))) (i : Int) :
    List α × (List Int × (Int × Int)) :=
  let ranks_sorted := st.1
  let t := st.2.1
  let k := st.2.2.1
  let count := st.2.2.2
  -- if y[i] != y[i - 1] {
  if ¬ (((listGet y i) == (listGet y (usub i (1 : Int)))) = true) then
    let ordinal_rank := k + (1 : Int)
    let rank := (RFun.ofInt ordinal_rank : α) + (((RFun.ofInt count : α) - (1.0 : α)) / (2.0 : α))
    let ranks_sorted := listFill ranks_sorted k i rank
    let t := listSet t k count
    let t := listFill t (k + (1 : Int)) i (0 : Int)
    -- k = i; count = 0; … count += 1;
    (ranks_sorted, (t, (i, (0 : Int) + (1 : Int))))
  else
    (ranks_sorted, (t, (k, count + (1 : Int))))

/-- src/stats_tests/mannwhitneyu.rs:61 — `rankdata_mwu::<f64>`.  On the empty vector Rust panics
    (`t[k] = count` with `k = 0`, index out of bounds): `rankdata_mwu_panics`. -/
def rankdata_mwu (y : List α) : Except MannWhitneyUError (List α × List Int) :=
  -- let mut j = (0..y.len()).collect::<Vec<usize>>();
  let j := rangeList (0 : Int) (listLen y)
  if rankdata_mwu.uncomparable y = true then .error MannWhitneyUError.UncomparableData
  else if y.isEmpty = true then panicV
  else
    -- zipped.sort_by(|(_, a), (_, b)| a.partial_cmp(b).expect(..)); (j, y) = zipped.into_iter().unzip();
    let zipped := sortBy (fun a b => decide (a.2 ≤ b.2)) (List.zip j y)
    let j := zipped.map Prod.fst
    let y := zipped.map Prod.snd
    let n := listLen y
    -- let mut ranks_sorted: Vec<f64> = vec![999.0; y.len()]; let mut t: Vec<usize> = vec![999; y.len()];
    let ranks_sorted : List α := List.replicate y.length (999.0 : α)
    let t : List Int := List.replicate y.length (999 : Int)
    -- let mut k = 0; let mut count = 1;
    let st := (rangeList (1 : Int) n).foldl (rankdata_mwu.step y) (ranks_sorted, (t, ((0 : Int), (1 : Int))))
    let ranks_sorted := st.1
    let t := st.2.1
    let k := st.2.2.1
    let count := st.2.2.2
    let ordinal_rank := k + (1 : Int)
    let rank := (RFun.ofInt ordinal_rank : α) + (((RFun.ofInt count : α) - (1.0 : α)) / (2.0 : α))
    let ranks_sorted := listFill ranks_sorted k n rank
    let t := listSet t k count
    let t := listFill t (k + (1 : Int)) n (0 : Int)
    -- zipped = j.zip(ranks); zipped.sort_by(|(i, _), (j, _)| i.partial_cmp(j).unwrap()); (_, ranks) = unzip
    let zipped := sortBy (fun (a b : Int × α) => decide (a.1 ≤ b.1)) (List.zip j ranks_sorted)
    let ranks := zipped.map Prod.snd
    .ok (ranks, t)

/-- `rankdata_mwu` panics exactly on the empty vector -/
def rankdata_mwu_panics (y : List α) : Bool := y.isEmpty

/-- src/stats_tests/mannwhitneyu.rs:246 — `mannwhitneyu::<f64>` -/
def mannwhitneyu [SF α] (x y : List α) (method : MannWhitneyUMethod) (alternative : Alternative) :
    Except MannWhitneyUError (α × α) :=
  let n1 := listLen x
  let n2 := listLen y
  if n1 = (0 : Int) ∨ n2 = (0 : Int) then .error MannWhitneyUError.SampleTooSmall
  else
    -- let mut x = x.to_vec(); let mut y = y.to_vec(); x.append(&mut y);
    match rankdata_mwu (x ++ y) with
    | .error e => .error e
    | .ok (ranks, t) =>
      -- let r1 = ranks[..n1].iter().sum::<f64>();
      let r1 := fsum (RFun.sumZero : α) (ranks.take (Int.toNat n1))
      let u1 := r1 - (RFun.ofInt (udiv (n1 * (n1 + (1 : Int))) (2 : Int)) : α)
      let u2 := (RFun.ofInt (n1 * n2) : α) - u1
      let uf : α × Int := match alternative with
        | Alternative.Greater => (u1, (1 : Int))
        | Alternative.Less => (u2, (1 : Int))
        | Alternative.TwoSided => (RFun.fmax u1 u2, (2 : Int))
      let u := uf.1
      let f := uf.2
      let ties : Bool := t.any (fun x => decide ((1 : Int) < x))
      let pvalue : Except MannWhitneyUError α := match method with
        | MannWhitneyUMethod.Automatic =>
          if ((8 : Int) < n1 ∧ (8 : Int) < n2) ∨ ties = true then
            .ok (T.mannwhitneyu.calc_mwu_asymptotic_pvalue (α := α) u n1 n2 t true)
          else .ok (T.mannwhitneyu.calc_mwu_exact_pvalue (α := α) u n1 n2)
        | MannWhitneyUMethod.Exact =>
          if ties = true then .error MannWhitneyUError.ExactMethodWithTiesInData
          else .ok (T.mannwhitneyu.calc_mwu_exact_pvalue (α := α) u n1 n2)
        | MannWhitneyUMethod.AsymptoticInclContinuityCorrection =>
          .ok (T.mannwhitneyu.calc_mwu_asymptotic_pvalue (α := α) u n1 n2 t true)
        | MannWhitneyUMethod.AsymptoticExclContinuityCorrection =>
          .ok (T.mannwhitneyu.calc_mwu_asymptotic_pvalue (α := α) u n1 n2 t false)
      match pvalue with
      | .error e => .error e
      | .ok pvalue =>
        -- pvalue *= f as f64; pvalue = clamp(pvalue, 0.0, 1.0);
        let pvalue := pvalue * (RFun.ofInt f : α)
        let pvalue := ntClamp pvalue (0.0 : α) (1.0 : α)
        .ok (u1, pvalue)

/-! ## Kolmogorov–Smirnov — src/stats_tests/ks_test.rs -/

/-- `&a * v` for `DMatrix`/`DVector` (nalgebra 0.33 `gemv`, α = 1, β = 0): `y = a[:,0]·x₀`, then
    `y = a[:,j]·x_j + y` for `j = 1..` — one row of it -/
def dotGemv : List α → List α → α
  | a :: as, b :: bs => (List.zip as bs).foldl (fun y p => (p.1 * p.2) + y) (a * b)
  | _, _ => (0.0 : α)

/-- `&a * v` -/
def matVec (a : List (List α)) (v : List α) : List α := a.map (fun row => dotGemv row v)

/-- one entry of `matrixmultiply::dgemm` (α = 1, β = 0, `KC = 256`): per `k`-block the
    micro-kernel accumulates `ab = madd(a_ik, b_kj, ab)` from `0.0` and stores
    `C = madd(1, ab, β·C)`; a second block (k ≥ 256) is added with β = 1.
    (The dimension is < 2·170, so there are at most two blocks.) -/
def dotDgemm (madd : α → α → α → α) (row col : List α) : α :=
  let ps := List.zip row col
  let blk := fun (l : List (α × α)) => l.foldl (fun acc p => madd p.1 p.2 acc) (0.0 : α)
  let c := madd (1.0 : α) (blk (ps.take 256)) (0.0 : α)
  if 256 < ps.length then madd (1.0 : α) (blk (ps.drop 256)) (c * (1.0 : α)) else c

/-- `&a * &a` for a square `DMatrix` of dimension `m`: nalgebra uses one `gemv` per column when
    `m ≤ 5` (`SMALL_DIM`) and `matrixmultiply::dgemm` otherwise -/
def matMul (madd : α → α → α → α) (a b : List (List α)) : List (List α) :=
  let m := listLen a
  let cols : List (List α) := (rangeList (0 : Int) m).map (fun j => b.map (fun row => listGet row j))
  if (5 : Int) < m then a.map (fun row => cols.map (fun col => dotDgemm madd row col))
  else a.map (fun row => cols.map (fun col => dotGemv row col))

/-- src/stats_tests/ks_test.rs:139-157 — entry `(i, j)` of `mm` (the double loop visits column 0
    first, so `mm[(m - j - 1, 0)]` is already final when it is copied) -/
def marsaglia.entry [SF α] (h : α) (m i j : Int) : α :=
  let col0 := fun (i : Int) =>
    if i = usub m (1 : Int) then
      ((((1.0 : α) - ((2.0 : α) * (RFun.powi h (wrapI32 m)))) +
          (RFun.fmax (RFun.powi (((2.0 : α) * h) - (1.0 : α)) (wrapI32 m)) (0.0 : α))) /
        (SF.factorial m : α))
    else
      (((1.0 : α) - (RFun.powi h ((wrapI32 i) + (1 : Int)))) / (SF.factorial (i + (1 : Int)) : α))
  if j = (0 : Int) then col0 i
  else if i = usub m (1 : Int) then col0 (usub (usub m j) (1 : Int))
  else if (0 : Int) ≤ (i - j) + (1 : Int) then (1.0 : α) / (SF.factorial ((i - j) + (1 : Int)) : α)
  else (0.0 : α)

/-- src/stats_tests/ks_test.rs:165-171 — `while nn > 0 { if nn % 2 != 0 { v = &a * v; } a = &a * &a; nn /= 2; }` -/
def marsaglia.loop (madd : α → α → α → α) : Nat → List α → List (List α) → Int → Option (List α)
  | 0, _, _, _ => none
  | fuel + 1, v, a, nn =>
    if (0 : Int) < nn then
      let v := if umod nn (2 : Int) ≠ (0 : Int) then matVec a v else v
      let a := matMul madd a a
      marsaglia.loop madd fuel v a (udiv nn (2 : Int))
    else some v

/-- src/stats_tests/ks_test.rs:125 — `onesample_marsaglia_et_al_twosided_pvalue` -/
def onesample_marsaglia_et_al_twosided_pvalue [SF α] (madd : α → α → α → α) (d n : α) :
    Except KSTestError α :=
  if (170 : Int) ≤ RFun.toU64 n then .error KSTestError.ExactAndTooLarge
  else
    let k := RFun.ceil (n * d)
    let m := usub ((2 : Int) * (RFun.toU64 k)) (1 : Int)
    let h := k - (n * d)
    let mm : List (List α) :=
      (rangeList (0 : Int) m).map (fun i => (rangeList (0 : Int) m).map (fun j => marsaglia.entry h m i j))
    let nn := RFun.toU64 n
    let k := usub (RFun.toU64 k) (1 : Int)
    -- let mut v = DVector::<f64>::zeros(m); v[k] = 1.0;
    let v : List α := listSet (List.replicate (Int.toNat m) (0.0 : α)) k (1.0 : α)
    match marsaglia.loop madd 64 v mm nn with
    | none => panicV
    | some v =>
      .ok (((listGet v k) * (SF.factorial (RFun.toU64 n) : α)) / (RFun.powi n (RFun.toI32 n)))

/-- the KS statistics `(d_plus, d_minus)` of `ks_onesample` (src/stats_tests/ks_test.rs:231-247)
    for NaN-free `data`:
    sort, `theoretical_cdf = data.map(cdf)`,
    `d_minus = max_o (o/n − e_o)` over `o = 1..=n`, `d_plus = max_o (e_o − o/n)` over `o = 0..n`,
    both folds starting from `f64::NEG_INFINITY` with `f64::max` -/
def ks_onesample.stats (data : List α) (cdf : α → α) : α × α :=
  let nI := listLen data
  let n := (RFun.ofInt nI : α)
  let data := sortBy (fun a b => decide (a ≤ b)) data
  let theoretical_cdf := data.map cdf
  let d_minus := ((List.zip theoretical_cdf (rangeList (1 : Int) (nI + (1 : Int)))).map
      (fun p => ((RFun.ofInt p.2 : α) / n) - p.1)).foldl (fun a b => RFun.fmax a b) (RFun.negInf : α)
  let d_plus := ((List.zip theoretical_cdf (rangeList (0 : Int) nI)).map
      (fun p => p.1 - ((RFun.ofInt p.2 : α) / n))).foldl (fun a b => RFun.fmax a b) (RFun.negInf : α)
  (d_plus, d_minus)

/-- src/stats_tests/ks_test.rs:202 — `ks_onesample(data, distribution, method, nan_policy)` with
    `distribution.cdf` passed as the function `cdf` -/
def ks_onesample [SF α] (madd : α → α → α → α) (data : List α) (cdf : α → α)
    (method : KSOneSampleAlternativeMethod) (nan_policy : NaNPolicy) : Except KSTestError (α × α) :=
  let has_nans := data.any (fun x => RFun.isNaN x)
  let go := fun (data : List α) =>
    let nI := listLen data
    let n := (RFun.ofInt nI : α)
    if nI < (1 : Int) then (.error KSTestError.SampleTooSmall : Except KSTestError (α × α))
    else
      let dd := ks_onesample.stats data cdf
      let d_plus := dd.1
      let d_minus := dd.2
      let sp : Except KSTestError (α × α) := match method with
        | KSOneSampleAlternativeMethod.Less =>
          .ok (d_plus, T.ks_test.onesample_birnbaum_tingey_onesided_pvalue (α := α) d_plus n)
        | KSOneSampleAlternativeMethod.Greater =>
          .ok (d_minus, T.ks_test.onesample_birnbaum_tingey_onesided_pvalue (α := α) d_minus n)
        | KSOneSampleAlternativeMethod.TwoSidedExact =>
          -- let mut duplicate_check = data.clone(); duplicate_check.dedup();
          let duplicate_check := dedup (sortBy (fun a b => decide (a ≤ b)) data)
          if listLen duplicate_check < nI then .error KSTestError.ExactAndTies
          else
            let statistic := RFun.fmax d_plus d_minus
            match onesample_marsaglia_et_al_twosided_pvalue madd statistic n with
            | .error e => .error e
            | .ok p => .ok (statistic, (1.0 : α) - p)
        | KSOneSampleAlternativeMethod.TwoSidedApproximate =>
          let statistic := RFun.fmax d_plus d_minus
          .ok (statistic, (T.ks_test.onesample_birnbaum_tingey_onesided_pvalue (α := α) statistic n) * (2.0 : α))
        | KSOneSampleAlternativeMethod.TwoSidedAsymptotic =>
          let statistic := RFun.fmax d_plus d_minus
          .ok (statistic, T.ks_test.onesample_kolmogorov_twosided_pvalue (α := α) statistic n)
      match sp with
      | .error e => .error e
      | .ok (statistic, pvalue) => .ok (statistic, ntClamp pvalue (0.0 : α) (1.0 : α))
  if has_nans = true then
    match nan_policy with
    | NaNPolicy.Propogate => .ok ((RFun.nan : α), (RFun.nan : α))
    | NaNPolicy.Error => .error KSTestError.SampleContainsNaN
    | NaNPolicy.Emit => go (data.filter (fun x => !(RFun.isNaN x)))
  else go data

/-- src/stats_tests/ks_test.rs:338-352 — one row `a[x][0..=n]` of the lattice-path table from the
    previous row (`none` for `x = 0`) -/
def schroer_trenkler.row (md nd d_scaled : α) (n : Int) (prev : Option (List α)) (x : Int) : List α :=
  ((rangeList (0 : Int) (n + (1 : Int))).foldl
    (fun (acc : List α × α) (y : Int) =>
      -- acc.2 is a[x][y-1]
      let v : α :=
        if x = (0 : Int) ∧ y = (0 : Int) then (1.0 : α)
        else if d_scaled < RFun.abs (((RFun.ofInt x : α) / md) - ((RFun.ofInt y : α) / nd)) then (0.0 : α)
        else
          (match prev with
            | some p => listGet p y
            | none => (0.0 : α)) +
          (if (0 : Int) < y then acc.2 else (0.0 : α))
      (acc.1 ++ [v], v))
    (([] : List α), (0.0 : α))).1

/-- src/stats_tests/ks_test.rs:325 — `twosample_schroer_and_trenkler_twosided_pvalue` -/
def twosample_schroer_and_trenkler_twosided_pvalue [SF α] (d : α) (m n : Int) : α :=
  let mn : Int × Int := if n < m then (n, m) else (m, n)
  let m := mn.1
  let n := mn.2
  let md := (RFun.ofInt m : α)
  let nd := (RFun.ofInt n : α)
  let d_scaled := ((0.5 : α) + (RFun.floor (((d * md) * nd) - (1e-7 : α)))) / (md * nd)
  let total_paths : α := SF.binomial (m + n) m
  let last : Option (List α) := (rangeList (0 : Int) (m + (1 : Int))).foldl
    (fun prev x => some (schroer_trenkler.row md nd d_scaled n prev x)) none
  let valid_paths : α := match last with
    | some r => listGet r n
    | none => panicV
  (1.0 : α) - (valid_paths / total_paths)

/-- src/stats_tests/ks_test.rs:453-458 — `while i < n1 && &data1[i] == x { i += 1; }` on the not yet consumed suffix
    `rest = data1[i..]`; `c` is the count `i` (since 5af6953: no running sum of `1/n`) -/
def ks_twosample.advance (x : α) : List α → Int → List α × Int
  | [], c => ([], c)
  | a :: rest, c =>
    if (a == x) = true then ks_twosample.advance x rest (c + (1 : Int)) else (a :: rest, c)

/-- src/stats_tests/ks_test.rs:452-466 — one iteration of `for x in data_all.iter()`;
    state `((rest1, i), ((rest2, j), (d_plus, d_minus)))`; `f1 = i as f64 / n1`, `f2 = j as f64 / n2` -/
def ks_twosample.step (n1 n2 : α) (st : (List α × Int) × ((List α × Int) × (α × α))) (x : α) :
    (List α × Int) × ((List α × Int) × (α × α)) :=
  let s1 := ks_twosample.advance x st.1.1 st.1.2
  let s2 := ks_twosample.advance x st.2.1.1 st.2.1.2
  let f1 := (RFun.ofInt s1.2 : α) / n1
  let f2 := (RFun.ofInt s2.2 : α) / n2
  let d_plus := RFun.fmax st.2.2.1 (f1 - f2)
  let d_minus := RFun.fmax st.2.2.2 (f2 - f1)
  (s1, (s2, (d_plus, d_minus)))

/-- the statistics `(d_plus, d_minus)` of `ks_twosample` (src/stats_tests/ks_test.rs:431-466) for
    NaN-free samples -/
def ks_twosample.stats (data1 data2 : List α) : α × α :=
  let n1 := (RFun.ofInt (listLen data1) : α)
  let n2 := (RFun.ofInt (listLen data2) : α)
  let data1 := sortBy (fun a b => decide (a ≤ b)) data1
  let data2 := sortBy (fun a b => decide (a ≤ b)) data2
  -- let mut data_all = [data1.clone(), data2.clone()].concat(); data_all.sort_by(..); data_all.dedup();
  let data_all := dedup (sortBy (fun a b => decide (a ≤ b)) (data1 ++ data2))
  (data_all.foldl (ks_twosample.step n1 n2)
    ((data1, (0 : Int)), ((data2, (0 : Int)), ((0.0 : α), (0.0 : α))))).2.2

/-- src/stats_tests/ks_test.rs:382 — `ks_twosample` -/
def ks_twosample [SF α] (data1 data2 : List α) (method : KSTwoSampleAlternativeMethod)
    (nan_policy : NaNPolicy) : Except KSTestError (α × α) :=
  let go2 := fun (data1 data2 : List α) =>
    let n1I := listLen data1
    let n2I := listLen data2
    if n1I < (1 : Int) ∨ n2I < (1 : Int) then (.error KSTestError.SampleTooSmall : Except KSTestError (α × α))
    else
      let n := Min.min n1I n2I
      let m := Max.max n1I n2I
      let dd := ks_twosample.stats data1 data2
      let d_plus := dd.1
      let d_minus := dd.2
      match method with
      | KSTwoSampleAlternativeMethod.LessAsymptotic =>
        .ok (d_minus, T.ks_test.twosample_hodge_equation_53_onesided_pvalue (α := α) d_minus (RFun.ofInt m : α) (RFun.ofInt n : α))
      | KSTwoSampleAlternativeMethod.GreaterAsymptotic =>
        .ok (d_plus, T.ks_test.twosample_hodge_equation_53_onesided_pvalue (α := α) d_plus (RFun.ofInt m : α) (RFun.ofInt n : α))
      | KSTwoSampleAlternativeMethod.TwoSidedExact =>
        if (10000 : Int) < m * n then .error KSTestError.ExactAndTooLarge
        else
          let statistic := RFun.fmax d_plus d_minus
          .ok (statistic, twosample_schroer_and_trenkler_twosided_pvalue (α := α) statistic m n)
      | KSTwoSampleAlternativeMethod.TwoSidedAsymptotic =>
        let statistic := RFun.fmax d_plus d_minus
        let en := ((RFun.ofInt m : α) * (RFun.ofInt n : α)) / ((RFun.ofInt m : α) + (RFun.ofInt n : α))
        .ok (statistic, T.ks_test.onesample_kolmogorov_twosided_pvalue (α := α) statistic en)
  -- first sample's NaN handling, then the second's (an early return for either)
  let nan1 := data1.any (fun x => RFun.isNaN x)
  let nan2 := data2.any (fun x => RFun.isNaN x)
  let strip := fun (l : List α) => l.filter (fun x => !(RFun.isNaN x))
  if nan1 = true then
    match nan_policy with
    | NaNPolicy.Propogate => .ok ((RFun.nan : α), (RFun.nan : α))
    | NaNPolicy.Error => .error KSTestError.SampleContainsNaN
    | NaNPolicy.Emit =>
      if nan2 = true then go2 (strip data1) (strip data2) else go2 (strip data1) data2
  else if nan2 = true then
    match nan_policy with
    | NaNPolicy.Propogate => .ok ((RFun.nan : α), (RFun.nan : α))
    | NaNPolicy.Error => .error KSTestError.SampleContainsNaN
    | NaNPolicy.Emit => go2 data1 (strip data2)
  else go2 data1 data2

end

end Statrs.Model
