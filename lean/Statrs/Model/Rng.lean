/-
  Statrs.Model.Rng — hand model of the random source used by the samplers (property C06).

  The RNG is an explicit stream of 64-bit words; the functions below are rand 0.8.8's
  conversions from words to variates, transcribed statement by statement from the vendored
  source (`rand-0.8.8/src/distributions/{float,uniform,bernoulli,integer}.rs`,
  `src/seq/mod.rs`, `src/rng.rs`).  Every function returns the value together with the
  remaining stream, so "how many words were consumed" is part of the result.

  Conventions
  * a word is an `Int` in `[0, 2^64)` (`Rng.WF`); `w >> k` is `w / 2^k`, `w & (2^k-1)` is `w % 2^k`;
  * `Rng.nextU64` returns `0` on an exhausted script and leaves the stream empty.  The harness
    never exhausts the script (it supplies more words than any single call consumes and
    compares the number of words consumed); the theorems that need a word say so (`ws = w :: t`);
  * `Rng.nextU32` is `next_u64() as u32` (low 32 bits, one word consumed).  This is what a
    scripted `RngCore` whose `next_u32` is `self.next_u64() as u32` does; it is used only by
    `SliceRandom::choose` (→ `Data::sample`);
  * `debug_assert!`s of rand are modelled as panics (the harness profile has
    `debug-assertions = true`);
  * a Rust panic is the carrier's `panicV` (`panicInt` for integers, `false` for `bool`);
  * rejection loops carry fuel (`loopFuel`) like the generated code; fuel exhaustion is `panicV`.

  Float constants are written as exact decimal expansions of the binary values, so that they
  denote the same number over `Float` (bit-exact) and over `ℝ`.

  No Mathlib import: the file evaluates at `Float` inside the driver executable.
-/
import Statrs.Basic
namespace Statrs.Model
open Statrs

/-- The scripted random source: the words still to be delivered. -/
structure Rng where
  ws : List Int
  deriving Repr, Inhabited, DecidableEq

/-- every remaining word is a `u64` -/
def Rng.WF (r : Rng) : Prop := ∀ w ∈ r.ws, 0 ≤ w ∧ w < 18446744073709551616

/-- `RngCore::next_u64` -/
def Rng.nextU64 (r : Rng) : Int × Rng :=
  match r.ws with
  | [] => (0, r)
  | w :: t => (w, ⟨t⟩)

/-- `RngCore::next_u32`, for a source that implements it as `self.next_u64() as u32` -/
def Rng.nextU32 (r : Rng) : Int × Rng :=
  let p := r.nextU64
  (p.1 % 4294967296, p.2)

/-- number of words consumed between two states of the same script -/
def Rng.consumed (before after : Rng) : Int := (before.ws.length : Int) - (after.ws.length : Int)

/-- The one operation of rand's float code that is not in `RFun`:
    `FloatSIMDUtils::decrease_masked` = `f64::from_bits(x.to_bits() - 1)` (next float towards
    zero for a positive finite `x`).  Over `ℝ` it is never reached on the paths the theorems
    cover (see `Lemmas/Sampling.lean`). -/
class RngFloat (α : Type) where
  decBits : α → α

instance : RngFloat Float := ⟨fun x => Float.ofBits (x.toBits - 1)⟩

section prim
variable {α : Type} [Add α] [Sub α] [Mul α] [Div α] [Neg α] [LT α] [LE α] [BEq α]
  [DecidableLT α] [DecidableLE α] [OfScientific α] [Inhabited α] [RFun α]

/-- `1.0 / ((1u64 << 53) as f64)` = 2⁻⁵³ (float.rs: `scale`) -/
def cScale53 : α := (0.00000000000000011102230246251565404236316680908203125 : α)
/-- 2⁻⁵² = `f64::EPSILON` (weight of the lowest fraction bit of a float in [1,2)) -/
def cEps52 : α := (0.0000000000000002220446049250313080847263336181640625 : α)
/-- `1.0 - EPSILON / 2.0` = 1 − 2⁻⁵³ (float.rs, `Open01`) -/
def cOneMinusHalfEps : α := (0.99999999999999988897769753748434595763683319091796875 : α)
/-- `(u64::MAX >> 12).into_float_with_exponent(0) - 1.0` = 1 − 2⁻⁵² (uniform.rs: `max_rand`) -/
def cMaxRand : α := (0.9999999999999997779553950749686919152736663818359375 : α)
/-- `2.0 * (1u64 << 63) as f64` = 2⁶⁴ (bernoulli.rs: `SCALE`) -/
def cTwo64 : α := (18446744073709551616.0 : α)

/-- `fraction.into_float_with_exponent(0)` for a 52-bit `fraction`:
    `f64::from_bits(fraction | 1023 << 52)` = `1 + fraction·2⁻⁵²` (every operation exact in `f64`). -/
def intoFloat12 (fraction : Int) : α :=
  (1.0 : α) + (RFun.ofInt fraction : α) * (cEps52 : α)

/-- `Standard: Distribution<f64>` = `rng.gen::<f64>()`:
    `value = next_u64() >> 11; scale * (value as f64)`; a multiple of 2⁻⁵³ in `[0, 1)`. -/
def genF64 (rng : Rng) : α × Rng :=
  let p := rng.nextU64
  let value := p.1 / 2048
  ((cScale53 : α) * (RFun.ofInt value : α), p.2)

/-- `OpenClosed01`: `scale * ((value + 1) as f64)`; a multiple of 2⁻⁵³ in `(0, 1]`. -/
def genOpenClosed01 (rng : Rng) : α × Rng :=
  let p := rng.nextU64
  let value := p.1 / 2048
  ((cScale53 : α) * (RFun.ofInt (value + 1) : α), p.2)

/-- `Open01`: `fraction = next_u64() >> 12;
    fraction.into_float_with_exponent(0) - (1.0 - EPSILON / 2.0)`; an odd multiple of 2⁻⁵³ in `(0,1)`. -/
def genOpen01 (rng : Rng) : α × Rng :=
  let p := rng.nextU64
  let fraction := p.1 / 4096
  ((intoFloat12 (α := α) fraction) - (cOneMinusHalfEps : α), p.2)

/-- `Rng::gen_bool(p)` = `Bernoulli::new(p).unwrap().sample(rng)`.
    `new`: outside `[0,1)` only `p == 1.0` is accepted (`p_int = u64::MAX`, "always true", NO word is
    consumed); otherwise `p_int = (p * 2⁶⁴) as u64` and the draw is `next_u64() < p_int`. -/
def genBool (p : α) (rng : Rng) : Bool × Rng :=
  if ¬ (((0.0 : α) ≤ p) ∧ (p < (1.0 : α))) then
    (if (p == (1.0 : α)) = true then (true, rng) else (panicV, rng))
  else
    let p_int := RFun.toU64 (p * (cTwo64 : α))
    if p_int = u64Max then (true, rng)
    else
      let q := rng.nextU64
      (decide (q.1 < p_int), q.2)

/-! ### `UniformInt` (uniform.rs, `uniform_int_impl!`) -/

/-- `x.leading_zeros()` of a `bits`-wide unsigned `x > 0` -/
def leadingZeros (bits : Nat) (x : Int) : Nat := bits - (x.toNat.log2 + 1)

/-- the rejection loop shared by `sample_single_inclusive` for every width:
    `loop { v = rng.gen(); (hi, lo) = v.wmul(range); if lo <= zone { return hi } }`.
    Returns `hi` and the stream. -/
def uniformIntLoop (next : Rng → Int × Rng) (modulus range zone : Int) :
    Nat → Rng → LoopR (Int × Rng) Unit
  | 0, _ => LoopR.hang
  | fuel + 1, rng =>
    let p := next rng
    let tmp := p.1 * range
    let hi := tmp / modulus
    let lo := tmp % modulus
    if lo ≤ zone then LoopR.ret (hi, p.2)
    else uniformIntLoop next modulus range zone fuel p.2

/-- `rng.gen_range(low..=high)` for `i64` = `UniformInt::<i64>::sample_single_inclusive`
    (after `Rng::gen_range`'s `assert!(!range.is_empty())`).
    `range = high.wrapping_sub(low).wrapping_add(1) as u64`; `range == 0` (full domain) returns
    `next_u64() as i64`; otherwise `zone = (range << range.leading_zeros()).wrapping_sub(1)` and the
    widening-multiply rejection loop; result `low.wrapping_add(hi as i64)`. -/
def genRangeI64Inclusive (low high : Int) (rng : Rng) : Int × Rng :=
  if ¬ (low ≤ high) then (panicInt, rng)
  else
    let range := wrapU64 (high - low + 1)
    if range = 0 then
      let p := rng.nextU64
      (wrapI64 p.1, p.2)
    else
      let zone := wrapU64 (wrapU64 (range * 2 ^ (leadingZeros 64 range)) - 1)
      match uniformIntLoop Rng.nextU64 18446744073709551616 range zone loopFuel rng with
      | LoopR.ret v => (wrapI64 (low + wrapI64 v.1), v.2)
      | LoopR.hang => (panicInt, rng)
      | LoopR.done _ => (panicInt, rng)

/-- `rng.gen_range(low..high)` for `u32` (`sample_single` → `sample_single_inclusive(low, high-1)`,
    32-bit words from `next_u32`). -/
def genRangeU32 (low high : Int) (rng : Rng) : Int × Rng :=
  if ¬ (low < high) then (panicInt, rng)
  else
    let range := wrapU32 ((high - 1) - low + 1)
    if range = 0 then rng.nextU32
    else
      let zone := wrapU32 (wrapU32 (range * 2 ^ (leadingZeros 32 range)) - 1)
      match uniformIntLoop Rng.nextU32 4294967296 range zone loopFuel rng with
      | LoopR.ret v => (wrapU32 (low + v.1), v.2)
      | LoopR.hang => (panicInt, rng)
      | LoopR.done _ => (panicInt, rng)

/-- `rng.gen_range(low..high)` for `usize` on a 64-bit target. -/
def genRangeUsize (low high : Int) (rng : Rng) : Int × Rng :=
  if ¬ (low < high) then (panicInt, rng)
  else
    let range := wrapU64 ((high - 1) - low + 1)
    if range = 0 then rng.nextU64
    else
      let zone := wrapU64 (wrapU64 (range * 2 ^ (leadingZeros 64 range)) - 1)
      match uniformIntLoop Rng.nextU64 18446744073709551616 range zone loopFuel rng with
      | LoopR.ret v => (wrapU64 (low + v.1), v.2)
      | LoopR.hang => (panicInt, rng)
      | LoopR.done _ => (panicInt, rng)

/-- `seq::gen_index(rng, ubound)` -/
def genIndex (ubound : Int) (rng : Rng) : Int × Rng :=
  if ubound ≤ 4294967295 then genRangeU32 0 ubound rng else genRangeUsize 0 ubound rng

/-- `SliceRandom::choose` for a slice: `None` (no word consumed) on an empty slice,
    otherwise `Some(&self[gen_index(rng, self.len())])`. -/
def sliceChoose {β : Type} [Inhabited β] (l : List β) (rng : Rng) : Option β × Rng :=
  if l.isEmpty then (none, rng)
  else
    let p := genIndex (listLen l) rng
    (some (listGet l p.1), p.2)

/-! ### `UniformFloat` (uniform.rs, `uniform_float_impl!`) -/

variable [RngFloat α]

/-- loop of `UniformFloat::sample_single` -/
def genRangeF64.loop (low high : α) : Nat → α → Rng → LoopR (α × Rng) Unit
  | 0, _, _ => LoopR.hang
  | fuel + 1, scale, rng =>
    let p := rng.nextU64
    -- Generate a value in the range [1, 2)
    let value1_2 := intoFloat12 (α := α) (p.1 / 4096)
    -- Get a value in the range [0, 1)
    let value0_1 := value1_2 - (1.0 : α)
    let res := value0_1 * scale + low
    -- debug_assert!(low.all_le(res) || !scale.all_finite());
    if ¬ ((low ≤ res) ∨ ¬ ((RFun.isFinite scale) = true)) then LoopR.ret (panicV, p.2)
    else if res < high then LoopR.ret (res, p.2)
    else
      -- let mask = !scale.finite_mask(); if mask.any() { assert!(low, high finite); scale = scale.decrease_masked(mask) }
      if ¬ ((RFun.isFinite scale) = true) then
        (if ¬ (((RFun.isFinite low) = true) ∧ ((RFun.isFinite high) = true)) then LoopR.ret (panicV, p.2)
         else genRangeF64.loop low high fuel (RngFloat.decBits scale) p.2)
      else genRangeF64.loop low high fuel scale p.2

/-- `rng.gen_range(low..high)` for `f64` = `UniformFloat::<f64>::sample_single`
    (after `Rng::gen_range`'s `assert!(!range.is_empty())`, i.e. `low < high`). -/
def genRangeF64 (low high : α) (rng : Rng) : α × Rng :=
  if ¬ (low < high) then (panicV, rng)
  else if ¬ ((RFun.isFinite low) = true) then (panicV, rng)      -- debug_assert!
  else if ¬ ((RFun.isFinite high) = true) then (panicV, rng)     -- debug_assert!
  else
    let scale := high - low
    if ¬ ((RFun.isFinite scale) = true) then (panicV, rng)       -- "range overflow"
    else
      match genRangeF64.loop low high loopFuel scale rng with
      | LoopR.ret v => v
      | LoopR.hang => (panicV, rng)
      | LoopR.done _ => (panicV, rng)

/-- `UniformFloat<f64> { low, scale }` -/
structure UniformFloat (α : Type) where
  low : α
  scale : α

/-- loop of `UniformFloat::new_inclusive`:
    `loop { let mask = (scale * max_rand + low).gt_mask(high); if mask.none() { break; }
            scale = scale.decrease_masked(mask); }` -/
def uniformNewInclusive.loop (low high max_rand : α) : Nat → α → LoopR (UniformFloat α) α
  | 0, _ => LoopR.hang
  | fuel + 1, scale =>
    if high < (scale * max_rand + low) then
      uniformNewInclusive.loop low high max_rand fuel (RngFloat.decBits scale)
    else LoopR.done scale

/-- `rand::distributions::Uniform::new_inclusive(low, high)` for `f64`; `none` = panic. -/
def uniformNewInclusive (low high : α) : Option (UniformFloat α) :=
  if ¬ ((RFun.isFinite low) = true) then none        -- debug_assert!
  else if ¬ ((RFun.isFinite high) = true) then none  -- debug_assert!
  else if ¬ (low ≤ high) then none                   -- assert!
  else
    let max_rand := (cMaxRand : α)
    let scale := (high - low) / max_rand
    if ¬ ((RFun.isFinite scale) = true) then none     -- "range overflow"
    else
      match uniformNewInclusive.loop low high max_rand loopFuel scale with
      | LoopR.ret v => some v
      | LoopR.hang => none
      | LoopR.done scale =>
        if ¬ ((0.0 : α) ≤ scale) then none            -- debug_assert!
        else some { low := low, scale := scale }

/-- `UniformFloat::<f64>::sample`: `value0_1 * self.scale + self.low` -/
def uniformSample (u : UniformFloat α) (rng : Rng) : α × Rng :=
  let p := rng.nextU64
  let value1_2 := intoFloat12 (α := α) (p.1 / 4096)
  let value0_1 := value1_2 - (1.0 : α)
  (value0_1 * u.scale + u.low, p.2)

end prim
end Statrs.Model
