/-
  Driver entries for the hand-written sampler models (scripted word streams).
  Generated once by a helper script from the sampler list; ids match harness/src/hand_samplers.rs.
-/
import Statrs.Driver.Proto
import Statrs.Gen.SFFloat
import Statrs.Gen.All
import Statrs.Model.Samplers
namespace Statrs.Model.SamplerDispatch
open Statrs Statrs.Driver Statrs.Gen

def wordsOf (l : List Int) : Statrs.Model.Rng := ⟨l⟩

def sampleTable : List (String × (List Arg → String)) := [
  ("sample::Bernoulli::bool", fun (a : List Arg) => match a with
    | [Arg.f a0, Arg.il ws] =>
      (match Bernoulli.new (α := Float) a0 with
       | .error e => ctorErr (variantStr e)
       | .ok d => (let r := Statrs.Model.Bernoulli.sample_bool (α := Float) d (wordsOf ws); reply (r.1, Statrs.Model.Rng.consumed (wordsOf ws) r.2)))
    | _ => "bad-args"),
  ("sample::Bernoulli::f64", fun (a : List Arg) => match a with
    | [Arg.f a0, Arg.il ws] =>
      (match Bernoulli.new (α := Float) a0 with
       | .error e => ctorErr (variantStr e)
       | .ok d => (let r := Statrs.Model.Bernoulli.sample_f64 (α := Float) d (wordsOf ws); reply (r.1, Statrs.Model.Rng.consumed (wordsOf ws) r.2)))
    | _ => "bad-args"),
  ("sample::Beta::f64", fun (a : List Arg) => match a with
    | [Arg.f a0, Arg.f a1, Arg.il ws] =>
      (match Beta.new (α := Float) a0 a1 with
       | .error e => ctorErr (variantStr e)
       | .ok d => (let r := Statrs.Model.Beta.sample_f64 (α := Float) d (wordsOf ws); reply (r.1, Statrs.Model.Rng.consumed (wordsOf ws) r.2)))
    | _ => "bad-args"),
  ("sample::Binomial::u64", fun (a : List Arg) => match a with
    | [Arg.f a0, Arg.i a1, Arg.il ws] =>
      (match Binomial.new (α := Float) a0 a1 with
       | .error e => ctorErr (variantStr e)
       | .ok d => (let r := Statrs.Model.Binomial.sample_u64 (α := Float) d (wordsOf ws); reply (r.1, Statrs.Model.Rng.consumed (wordsOf ws) r.2)))
    | _ => "bad-args"),
  ("sample::Binomial::f64", fun (a : List Arg) => match a with
    | [Arg.f a0, Arg.i a1, Arg.il ws] =>
      (match Binomial.new (α := Float) a0 a1 with
       | .error e => ctorErr (variantStr e)
       | .ok d => (let r := Statrs.Model.Binomial.sample_f64 (α := Float) d (wordsOf ws); reply (r.1, Statrs.Model.Rng.consumed (wordsOf ws) r.2)))
    | _ => "bad-args"),
  ("sample::Cauchy::f64", fun (a : List Arg) => match a with
    | [Arg.f a0, Arg.f a1, Arg.il ws] =>
      (match Cauchy.new (α := Float) a0 a1 with
       | .error e => ctorErr (variantStr e)
       | .ok d => (let r := Statrs.Model.Cauchy.sample_f64 (α := Float) d (wordsOf ws); reply (r.1, Statrs.Model.Rng.consumed (wordsOf ws) r.2)))
    | _ => "bad-args"),
  ("sample::Chi::f64", fun (a : List Arg) => match a with
    | [Arg.i a0, Arg.il ws] =>
      (match Chi.new (α := Float) a0 with
       | .error e => ctorErr (variantStr e)
       | .ok d => (let r := Statrs.Model.Chi.sample_f64 (α := Float) d (wordsOf ws); reply (r.1, Statrs.Model.Rng.consumed (wordsOf ws) r.2)))
    | _ => "bad-args"),
  ("sample::ChiSquared::f64", fun (a : List Arg) => match a with
    | [Arg.f a0, Arg.il ws] =>
      (match ChiSquared.new (α := Float) a0 with
       | .error e => ctorErr (variantStr e)
       | .ok d => (let r := Statrs.Model.ChiSquared.sample_f64 (α := Float) d (wordsOf ws); reply (r.1, Statrs.Model.Rng.consumed (wordsOf ws) r.2)))
    | _ => "bad-args"),
  ("sample::Dirac::f64", fun (a : List Arg) => match a with
    | [Arg.f a0, Arg.il ws] =>
      (match Dirac.new (α := Float) a0 with
       | .error e => ctorErr (variantStr e)
       | .ok d => (let r := Statrs.Model.Dirac.sample_f64 (α := Float) d (wordsOf ws); reply (r.1, Statrs.Model.Rng.consumed (wordsOf ws) r.2)))
    | _ => "bad-args"),
  ("sample::DiscreteUniform::i64", fun (a : List Arg) => match a with
    | [Arg.i a0, Arg.i a1, Arg.il ws] =>
      (match DiscreteUniform.new (α := Float) a0 a1 with
       | .error e => ctorErr (variantStr e)
       | .ok d => (let r := Statrs.Model.DiscreteUniform.sample_i64 d (wordsOf ws); reply (r.1, Statrs.Model.Rng.consumed (wordsOf ws) r.2)))
    | _ => "bad-args"),
  ("sample::DiscreteUniform::f64", fun (a : List Arg) => match a with
    | [Arg.i a0, Arg.i a1, Arg.il ws] =>
      (match DiscreteUniform.new (α := Float) a0 a1 with
       | .error e => ctorErr (variantStr e)
       | .ok d => (let r := Statrs.Model.DiscreteUniform.sample_f64 (α := Float) d (wordsOf ws); reply (r.1, Statrs.Model.Rng.consumed (wordsOf ws) r.2)))
    | _ => "bad-args"),
  ("sample::Erlang::f64", fun (a : List Arg) => match a with
    | [Arg.i a0, Arg.f a1, Arg.il ws] =>
      (match Erlang.new (α := Float) a0 a1 with
       | .error e => ctorErr (variantStr e)
       | .ok d => (let r := Statrs.Model.Erlang.sample_f64 (α := Float) d (wordsOf ws); reply (r.1, Statrs.Model.Rng.consumed (wordsOf ws) r.2)))
    | _ => "bad-args"),
  ("sample::Exp::f64", fun (a : List Arg) => match a with
    | [Arg.f a0, Arg.il ws] =>
      (match Exp.new (α := Float) a0 with
       | .error e => ctorErr (variantStr e)
       | .ok d => (let r := Statrs.Model.Exp.sample_f64 (α := Float) d (wordsOf ws); reply (r.1, Statrs.Model.Rng.consumed (wordsOf ws) r.2)))
    | _ => "bad-args"),
  ("sample::FisherSnedecor::f64", fun (a : List Arg) => match a with
    | [Arg.f a0, Arg.f a1, Arg.il ws] =>
      (match FisherSnedecor.new (α := Float) a0 a1 with
       | .error e => ctorErr (variantStr e)
       | .ok d => (let r := Statrs.Model.FisherSnedecor.sample_f64 (α := Float) d (wordsOf ws); reply (r.1, Statrs.Model.Rng.consumed (wordsOf ws) r.2)))
    | _ => "bad-args"),
  ("sample::Gamma::f64", fun (a : List Arg) => match a with
    | [Arg.f a0, Arg.f a1, Arg.il ws] =>
      (match Gamma.new (α := Float) a0 a1 with
       | .error e => ctorErr (variantStr e)
       | .ok d => (let r := Statrs.Model.Gamma.sample_f64 (α := Float) d (wordsOf ws); reply (r.1, Statrs.Model.Rng.consumed (wordsOf ws) r.2)))
    | _ => "bad-args"),
  ("sample::Geometric::u64", fun (a : List Arg) => match a with
    | [Arg.f a0, Arg.il ws] =>
      (match Geometric.new (α := Float) a0 with
       | .error e => ctorErr (variantStr e)
       | .ok d => (let r := Statrs.Model.Geometric.sample_u64 (α := Float) d (wordsOf ws); reply (r.1, Statrs.Model.Rng.consumed (wordsOf ws) r.2)))
    | _ => "bad-args"),
  ("sample::Geometric::f64", fun (a : List Arg) => match a with
    | [Arg.f a0, Arg.il ws] =>
      (match Geometric.new (α := Float) a0 with
       | .error e => ctorErr (variantStr e)
       | .ok d => (let r := Statrs.Model.Geometric.sample_f64 (α := Float) d (wordsOf ws); reply (r.1, Statrs.Model.Rng.consumed (wordsOf ws) r.2)))
    | _ => "bad-args"),
  ("sample::Gumbel::f64", fun (a : List Arg) => match a with
    | [Arg.f a0, Arg.f a1, Arg.il ws] =>
      (match Gumbel.new (α := Float) a0 a1 with
       | .error e => ctorErr (variantStr e)
       | .ok d => (let r := Statrs.Model.Gumbel.sample_f64 (α := Float) d (wordsOf ws); reply (r.1, Statrs.Model.Rng.consumed (wordsOf ws) r.2)))
    | _ => "bad-args"),
  ("sample::Hypergeometric::u64", fun (a : List Arg) => match a with
    | [Arg.i a0, Arg.i a1, Arg.i a2, Arg.il ws] =>
      (match Hypergeometric.new (α := Float) a0 a1 a2 with
       | .error e => ctorErr (variantStr e)
       | .ok d => (let r := Statrs.Model.Hypergeometric.sample_u64 (α := Float) d (wordsOf ws); reply (r.1, Statrs.Model.Rng.consumed (wordsOf ws) r.2)))
    | _ => "bad-args"),
  ("sample::Hypergeometric::f64", fun (a : List Arg) => match a with
    | [Arg.i a0, Arg.i a1, Arg.i a2, Arg.il ws] =>
      (match Hypergeometric.new (α := Float) a0 a1 a2 with
       | .error e => ctorErr (variantStr e)
       | .ok d => (let r := Statrs.Model.Hypergeometric.sample_f64 (α := Float) d (wordsOf ws); reply (r.1, Statrs.Model.Rng.consumed (wordsOf ws) r.2)))
    | _ => "bad-args"),
  ("sample::InverseGamma::f64", fun (a : List Arg) => match a with
    | [Arg.f a0, Arg.f a1, Arg.il ws] =>
      (match InverseGamma.new (α := Float) a0 a1 with
       | .error e => ctorErr (variantStr e)
       | .ok d => (let r := Statrs.Model.InverseGamma.sample_f64 (α := Float) d (wordsOf ws); reply (r.1, Statrs.Model.Rng.consumed (wordsOf ws) r.2)))
    | _ => "bad-args"),
  ("sample::Laplace::f64", fun (a : List Arg) => match a with
    | [Arg.f a0, Arg.f a1, Arg.il ws] =>
      (match Laplace.new (α := Float) a0 a1 with
       | .error e => ctorErr (variantStr e)
       | .ok d => (let r := Statrs.Model.Laplace.sample_f64 (α := Float) d (wordsOf ws); reply (r.1, Statrs.Model.Rng.consumed (wordsOf ws) r.2)))
    | _ => "bad-args"),
  ("sample::Levy::f64", fun (a : List Arg) => match a with
    | [Arg.f a0, Arg.f a1, Arg.il ws] =>
      (match Levy.new (α := Float) a0 a1 with
       | .error e => ctorErr (variantStr e)
       | .ok d => (let r := Statrs.Model.Levy.sample_f64 (α := Float) d (wordsOf ws); reply (r.1, Statrs.Model.Rng.consumed (wordsOf ws) r.2)))
    | _ => "bad-args"),
  ("sample::LogNormal::f64", fun (a : List Arg) => match a with
    | [Arg.f a0, Arg.f a1, Arg.il ws] =>
      (match LogNormal.new (α := Float) a0 a1 with
       | .error e => ctorErr (variantStr e)
       | .ok d => (let r := Statrs.Model.LogNormal.sample_f64 (α := Float) d (wordsOf ws); reply (r.1, Statrs.Model.Rng.consumed (wordsOf ws) r.2)))
    | _ => "bad-args"),
  ("sample::NegativeBinomial::u64", fun (a : List Arg) => match a with
    | [Arg.f a0, Arg.f a1, Arg.il ws] =>
      (match NegativeBinomial.new (α := Float) a0 a1 with
       | .error e => ctorErr (variantStr e)
       | .ok d => (let r := Statrs.Model.NegativeBinomial.sample_u64 (α := Float) d (wordsOf ws); reply (r.1, Statrs.Model.Rng.consumed (wordsOf ws) r.2)))
    | _ => "bad-args"),
  ("sample::Normal::f64", fun (a : List Arg) => match a with
    | [Arg.f a0, Arg.f a1, Arg.il ws] =>
      (match Normal.new (α := Float) a0 a1 with
       | .error e => ctorErr (variantStr e)
       | .ok d => (let r := Statrs.Model.Normal.sample_f64 (α := Float) d (wordsOf ws); reply (r.1, Statrs.Model.Rng.consumed (wordsOf ws) r.2)))
    | _ => "bad-args"),
  ("sample::Pareto::f64", fun (a : List Arg) => match a with
    | [Arg.f a0, Arg.f a1, Arg.il ws] =>
      (match Pareto.new (α := Float) a0 a1 with
       | .error e => ctorErr (variantStr e)
       | .ok d => (let r := Statrs.Model.Pareto.sample_f64 (α := Float) d (wordsOf ws); reply (r.1, Statrs.Model.Rng.consumed (wordsOf ws) r.2)))
    | _ => "bad-args"),
  ("sample::Poisson::u64", fun (a : List Arg) => match a with
    | [Arg.f a0, Arg.il ws] =>
      (match Poisson.new (α := Float) a0 with
       | .error e => ctorErr (variantStr e)
       | .ok d => (let r := Statrs.Model.Poisson.sample_u64 (α := Float) d (wordsOf ws); reply (r.1, Statrs.Model.Rng.consumed (wordsOf ws) r.2)))
    | _ => "bad-args"),
  ("sample::Poisson::f64", fun (a : List Arg) => match a with
    | [Arg.f a0, Arg.il ws] =>
      (match Poisson.new (α := Float) a0 with
       | .error e => ctorErr (variantStr e)
       | .ok d => (let r := Statrs.Model.Poisson.sample_f64 (α := Float) d (wordsOf ws); reply (r.1, Statrs.Model.Rng.consumed (wordsOf ws) r.2)))
    | _ => "bad-args"),
  ("sample::StudentsT::f64", fun (a : List Arg) => match a with
    | [Arg.f a0, Arg.f a1, Arg.f a2, Arg.il ws] =>
      (match StudentsT.new (α := Float) a0 a1 a2 with
       | .error e => ctorErr (variantStr e)
       | .ok d => (let r := Statrs.Model.StudentsT.sample_f64 (α := Float) d (wordsOf ws); reply (r.1, Statrs.Model.Rng.consumed (wordsOf ws) r.2)))
    | _ => "bad-args"),
  ("sample::Triangular::f64", fun (a : List Arg) => match a with
    | [Arg.f a0, Arg.f a1, Arg.f a2, Arg.il ws] =>
      (match Triangular.new (α := Float) a0 a1 a2 with
       | .error e => ctorErr (variantStr e)
       | .ok d => (let r := Statrs.Model.Triangular.sample_f64 (α := Float) d (wordsOf ws); reply (r.1, Statrs.Model.Rng.consumed (wordsOf ws) r.2)))
    | _ => "bad-args"),
  ("sample::Uniform::f64", fun (a : List Arg) => match a with
    | [Arg.f a0, Arg.f a1, Arg.il ws] =>
      (match Uniform.new (α := Float) a0 a1 with
       | .error e => ctorErr (variantStr e)
       | .ok d => (let r := Statrs.Model.Uniform.sample_f64 (α := Float) d (wordsOf ws); reply (r.1, Statrs.Model.Rng.consumed (wordsOf ws) r.2)))
    | _ => "bad-args"),
  ("sample::Weibull::f64", fun (a : List Arg) => match a with
    | [Arg.f a0, Arg.f a1, Arg.il ws] =>
      (match Weibull.new (α := Float) a0 a1 with
       | .error e => ctorErr (variantStr e)
       | .ok d => (let r := Statrs.Model.Weibull.sample_f64 (α := Float) d (wordsOf ws); reply (r.1, Statrs.Model.Rng.consumed (wordsOf ws) r.2)))
    | _ => "bad-args")]

end Statrs.Model.SamplerDispatch
