/-
  Statrs.Model.Samplers — hand models of every `impl rand::distributions::Distribution<_> for X`
  in /repo/src/distribution (univariate families), of `ziggurat.rs`, and of the
  `sample_unchecked` helpers (gamma, poisson, normal, triangular, categorical), plus
  `Data::sample` (statistics/slice_statistics.rs) and the Dirichlet / Multinomial samplers on
  lists.  The translator does not cover these functions (generic over the RNG); here the RNG is
  the explicit word stream of `Statrs.Model.Rng`.

  Each model mirrors the Rust body statement by statement: the same floating-point expressions
  with the same association, the same number of RNG calls in the same order.  A function
  `X.sample_T self rng` returns the variate and the remaining stream.  Loops carry fuel
  (`loopFuel`) as in the generated code; an exhausted fuel is `panicV` (the real loop would not
  have terminated within 20000 iterations).

  Rust `>`/`>=` are flipped to `<`/`≤` as in the generated code; `x.powf(y)` is `RFun.pow x y` (`powfLit2 x` for the literal exponent 2.0, compiled to `x * x`),
  `x.log(b)` is `RFun.logb x b`, `v as u64` is `RFun.toU64 v`, `n as f64` is `RFun.ofInt n`.
  No Mathlib import.
-/
import Statrs.Model.Rng
import Statrs.Gen.Types
import Statrs.Gen.SF
import Statrs.Gen.D_ziggurat_tables
import Statrs.Gen.D_bernoulli
import Statrs.Gen.D_chi
set_option linter.unusedVariables false
namespace Statrs.Model
open Statrs Statrs.Gen

section samplers
variable {α : Type} [Add α] [Sub α] [Mul α] [Div α] [Neg α] [LT α] [LE α] [BEq α]
  [DecidableLT α] [DecidableLE α] [OfScientific α] [Inhabited α] [RFun α]

/-! ## ziggurat.rs -/

/-- the `loop` of `ziggurat` (src/distribution/ziggurat.rs:62).
    `SCALE = (1u64 << 53) as f64`; `i = bits & 0xff`; `f = (bits >> 11) as f64 / SCALE`. -/
def ziggurat.loop (symmetric : Bool) (x_tab f_tab : List α) (pdf : α → α)
    (zero_case : Rng → α → α × Rng) : Nat → Rng → LoopR (α × Rng) Unit
  | 0, _ => LoopR.hang
  | fuel + 1, rng =>
    let (bits, rng) := rng.nextU64
    let i := bits % 256
    let f := (RFun.ofInt (bits / 2048) : α) / (9007199254740992.0 : α)
    let u := if symmetric then ((2.0 : α) * f) - (1.0 : α) else f
    let x := u * (listGet x_tab i)
    let test_x := if symmetric then RFun.abs x else x
    if test_x < (listGet x_tab (i + 1)) then LoopR.ret (x, rng)
    else if i = 0 then LoopR.ret (zero_case rng u)
    else
      let (r, rng) := genF64 (α := α) rng
      if ((listGet f_tab (i + 1)) + (((listGet f_tab i) - (listGet f_tab (i + 1))) * r)) < (pdf x) then
        LoopR.ret (x, rng)
      else ziggurat.loop symmetric x_tab f_tab pdf zero_case fuel rng

/-- `ziggurat` (src/distribution/ziggurat.rs:62) -/
def ziggurat (rng : Rng) (symmetric : Bool) (x_tab f_tab : List α) (pdf : α → α)
    (zero_case : Rng → α → α × Rng) : α × Rng :=
  match ziggurat.loop symmetric x_tab f_tab pdf zero_case loopFuel rng with
  | LoopR.ret v => v
  | LoopR.hang => (panicV, rng)
  | LoopR.done _ => (panicV, rng)

/-- `sample_std_normal::pdf`: `(-x * x / 2.0).exp()` -/
def sample_std_normal.pdf (x : α) : α := RFun.exp ((((-x) * x)) / (2.0 : α))

/-- `while -2.0 * y < x * x { x_ = Open01; y_ = Open01; x = x_.ln() / R; y = y_.ln(); }` -/
def sample_std_normal.zero_case.loop : Nat → α → α → Rng → LoopR (α × Rng) (α × α × Rng)
  | 0, _, _, _ => LoopR.hang
  | fuel + 1, x, y, rng =>
    if ((-(2.0 : α)) * y) < (x * x) then
      let (x_, rng) := genOpen01 (α := α) rng
      let (y_, rng) := genOpen01 (α := α) rng
      let x := (RFun.ln x_) / (D.ziggurat_tables.ZIG_NORM_R (α := α))
      let y := RFun.ln y_
      sample_std_normal.zero_case.loop fuel x y rng
    else LoopR.done (x, y, rng)

/-- `sample_std_normal::zero_case` -/
def sample_std_normal.zero_case (rng : Rng) (u : α) : α × Rng :=
  let x := (1.0 : α)
  let y := (0.0 : α)
  match sample_std_normal.zero_case.loop (α := α) loopFuel x y rng with
  | LoopR.ret v => v
  | LoopR.hang => (panicV, rng)
  | LoopR.done (x, y, rng) =>
    if u < (0.0 : α) then (x - (D.ziggurat_tables.ZIG_NORM_R (α := α)), rng)
    else ((D.ziggurat_tables.ZIG_NORM_R (α := α)) - x, rng)

/-- `ziggurat::sample_std_normal` -/
def sample_std_normal (rng : Rng) : α × Rng :=
  ziggurat (α := α) rng true (D.ziggurat_tables.ZIG_NORM_X (α := α)) (D.ziggurat_tables.ZIG_NORM_F (α := α))
    (sample_std_normal.pdf (α := α)) (sample_std_normal.zero_case (α := α))

/-- `sample_exp_1::pdf`: `(-x).exp()` -/
def sample_exp_1.pdf (x : α) : α := RFun.exp (-x)

/-- `sample_exp_1::zero_case`: `ZIG_EXP_R - rng.gen::<f64>().ln()` -/
def sample_exp_1.zero_case (rng : Rng) (_u : α) : α × Rng :=
  let (r, rng) := genF64 (α := α) rng
  ((D.ziggurat_tables.ZIG_EXP_R (α := α)) - (RFun.ln r), rng)

/-- `ziggurat::sample_exp_1` -/
def sample_exp_1 (rng : Rng) : α × Rng :=
  ziggurat (α := α) rng false (D.ziggurat_tables.ZIG_EXP_X (α := α)) (D.ziggurat_tables.ZIG_EXP_F (α := α))
    (sample_exp_1.pdf (α := α)) (sample_exp_1.zero_case (α := α))

/-! ## `sample_unchecked` helpers -/

/-- `normal::sample_unchecked`: `mean + std_dev * ziggurat::sample_std_normal(rng)` -/
def normal_sample_unchecked (rng : Rng) (mean std_dev : α) : α × Rng :=
  let (z, rng) := sample_std_normal (α := α) rng
  (mean + (std_dev * z), rng)

/-- inner `loop` of `gamma::sample_unchecked`:
    `loop { x = normal::sample_unchecked(rng, 0.0, 1.0); v = 1.0 + c * x; if v > 0.0 { break; } }` -/
def gamma_sample_unchecked.inner (c : α) : Nat → Rng → LoopR (α × Rng) (α × α × Rng)
  | 0, _ => LoopR.hang
  | fuel + 1, rng =>
    let (x, rng) := normal_sample_unchecked (α := α) rng (0.0 : α) (1.0 : α)
    let v := (1.0 : α) + (c * x)
    if (0.0 : α) < v then LoopR.done (x, v, rng)
    else gamma_sample_unchecked.inner c fuel rng

/-- outer `loop` of `gamma::sample_unchecked` -/
def gamma_sample_unchecked.outer (afix d c rate : α) : Nat → Rng → LoopR (α × Rng) Unit
  | 0, _ => LoopR.hang
  | fuel + 1, rng =>
    match gamma_sample_unchecked.inner (α := α) c loopFuel rng with
    | LoopR.ret v => LoopR.ret v
    | LoopR.hang => LoopR.hang
    | LoopR.done (x, v, rng) =>
      let v := (v * v) * v
      let x := x * x
      let (u, rng) := genF64 (α := α) rng
      if (u < ((1.0 : α) - (((0.0331 : α) * x) * x))) ∨
         ((RFun.ln u) < (((0.5 : α) * x) + (d * (((1.0 : α) - v) + (RFun.ln v))))) then
        LoopR.ret ((((afix * d) * v) / rate), rng)
      else gamma_sample_unchecked.outer afix d c rate fuel rng

/-- `gamma::sample_unchecked(rng, shape, rate)` (src/distribution/gamma.rs:407), Marsaglia–Tsang -/
def gamma_sample_unchecked (rng : Rng) (shape rate : α) : α × Rng :=
  let (a, afix, rng) :=
    if shape < (1.0 : α) then
      let (r, rng) := genF64 (α := α) rng
      (shape + (1.0 : α), RFun.pow r ((1.0 : α) / shape), rng)
    else (shape, (1.0 : α), rng)
  let d := a - ((1.0 : α) / (3.0 : α))
  let c := (1.0 : α) / (RFun.sqrt ((9.0 : α) * d))
  match gamma_sample_unchecked.outer (α := α) afix d c rate loopFuel rng with
  | LoopR.ret v => v
  | LoopR.hang => (panicV, rng)
  | LoopR.done _ => (panicV, rng)

/-- `while product >= limit { count += 1.0; product *= rng.gen::<f64>(); }` -/
def poisson_sample_unchecked.knuth (limit : α) : Nat → α → α → Rng → LoopR (α × Rng) (α × α × Rng)
  | 0, _, _, _ => LoopR.hang
  | fuel + 1, count, product, rng =>
    if limit ≤ product then
      let count := count + (1.0 : α)
      let (r, rng) := genF64 (α := α) rng
      let product := product * r
      poisson_sample_unchecked.knuth limit fuel count product rng
    else LoopR.done (count, product, rng)

/-- the rejection `loop` of `poisson::sample_unchecked` for `lambda >= 30` -/
def poisson_sample_unchecked.pa [SF α] (lambda alpha beta k : α) : Nat → Rng → LoopR (α × Rng) Unit
  | 0, _ => LoopR.hang
  | fuel + 1, rng =>
    let (u, rng) := genF64 (α := α) rng
    let x := (alpha - (RFun.ln (((1.0 : α) - u) / u))) / beta
    let n := RFun.floor (x + (0.5 : α))
    if n < (0.0 : α) then poisson_sample_unchecked.pa lambda alpha beta k fuel rng
    else
      let (v, rng) := genF64 (α := α) rng
      let y := alpha - (beta * x)
      let temp := (1.0 : α) + (RFun.exp y)
      let lhs := y + (RFun.ln (v / (temp * temp)))
      let rhs := (k + (n * (RFun.ln lambda))) - (SF.ln_factorial (RFun.toU64 n) : α)
      if lhs ≤ rhs then LoopR.ret (n, rng)
      else poisson_sample_unchecked.pa lambda alpha beta k fuel rng

/-- `poisson::sample_unchecked(rng, lambda)` (src/distribution/poisson.rs:304) -/
def poisson_sample_unchecked [SF α] (rng : Rng) (lambda : α) : α × Rng :=
  if lambda < (30.0 : α) then
    let limit := RFun.exp (-lambda)
    let count := (0.0 : α)
    let (product, rng) := genF64 (α := α) rng
    match poisson_sample_unchecked.knuth (α := α) limit loopFuel count product rng with
    | LoopR.ret v => v
    | LoopR.hang => (panicV, rng)
    | LoopR.done (count, product, rng) => (count, rng)
  else
    let c := (0.767 : α) - ((3.36 : α) / lambda)
    let beta := (RFun.pi : α) / (RFun.sqrt ((3.0 : α) * lambda))
    let alpha := beta * lambda
    let k := ((RFun.ln c) - lambda) - (RFun.ln beta)
    match poisson_sample_unchecked.pa (α := α) lambda alpha beta k loopFuel rng with
    | LoopR.ret v => v
    | LoopR.hang => (panicV, rng)
    | LoopR.done _ => (panicV, rng)

/-- `triangular::sample_unchecked(rng, min, max, mode)` (src/distribution/triangular.rs:427) -/
def triangular_sample_unchecked (rng : Rng) (min_ max_ mode : α) : α × Rng :=
  let (f, rng) := genF64 (α := α) rng
  if f < ((mode - min_) / (max_ - min_)) then
    (min_ + (RFun.sqrt ((f * (max_ - min_)) * (mode - min_))), rng)
  else
    (max_ - (RFun.sqrt ((((1.0 : α) - f) * (max_ - min_)) * (max_ - mode))), rng)

/-- `cdf.iter().position(|val| *val >= draw)`: index of the first entry with `draw ≤ val` -/
def positionGe (draw : α) : List α → Int → Option Int
  | [], _ => none
  | v :: t, i => if draw ≤ v then some i else positionGe draw t (i + 1)

/-- `categorical::sample_unchecked(rng, cdf)` (src/distribution/categorical.rs:345):
    `draw = rng.gen::<f64>() * cdf.last().unwrap(); cdf.iter().position(|val| *val >= draw).unwrap()` -/
def categorical_sample_unchecked (rng : Rng) (cdf : List α) : Int × Rng :=
  let (r, rng) := genF64 (α := α) rng
  let draw := r * (unwrapO cdf.getLast?)
  (unwrapO (positionGe draw cdf 0), rng)

/-! ## the `Distribution` impls -/

/-- bernoulli.rs:89 — `rng.gen_bool(self.p())` -/
def Bernoulli.sample_bool (self : Bernoulli α) (rng : Rng) : Bool × Rng :=
  genBool (α := α) (Statrs.Gen.Bernoulli.p (α := α) self) rng

/-- bernoulli.rs:97 — `rng.sample::<bool, _>(self) as u8 as f64` -/
def Bernoulli.sample_f64 (self : Bernoulli α) (rng : Rng) : α × Rng :=
  let (b, rng) := Bernoulli.sample_bool (α := α) self rng
  ((RFun.ofInt (if b then 1 else 0) : α), rng)

/-- beta.rs:118 -/
def Beta.sample_f64 (self : Beta α) (rng : Rng) : α × Rng :=
  let (x, rng) := gamma_sample_unchecked (α := α) rng self.f_shape_a (1.0 : α)
  let (y, rng) := gamma_sample_unchecked (α := α) rng self.f_shape_b (1.0 : α)
  (x / (x + y), rng)

/-- the fold body of binomial.rs:117: `let n: f64 = rng.gen(); if n < self.p { acc + 1 } else { acc }` -/
def Binomial.sample_u64.step (p : α) (st : Int × Rng) : Int × Rng :=
  let (n, rng) := genF64 (α := α) st.2
  if n < p then (st.1 + 1, rng) else (st.1, rng)

/-- `(0..n).fold(init, |acc, _| step acc)` with the RNG threaded through the accumulator -/
def foldTimes {σ : Type} (step : σ → σ) : Nat → σ → σ
  | 0, s => s
  | k + 1, s => foldTimes step k (step s)

/-- binomial.rs:115 — `(0..self.n).fold(0, |acc, _| …)` -/
def Binomial.sample_u64 (self : Binomial α) (rng : Rng) : Int × Rng :=
  foldTimes (Binomial.sample_u64.step (α := α) self.f_p) self.f_n.toNat (0, rng)

/-- binomial.rs:130 -/
def Binomial.sample_f64 (self : Binomial α) (rng : Rng) : α × Rng :=
  let (k, rng) := Binomial.sample_u64 (α := α) self rng
  ((RFun.ofInt k : α), rng)

/-- categorical.rs:129 -/
def Categorical.sample_usize (self : Categorical α) (rng : Rng) : Int × Rng :=
  categorical_sample_unchecked (α := α) rng self.f_cdf

/-- categorical.rs:137 -/
def Categorical.sample_u64 (self : Categorical α) (rng : Rng) : Int × Rng :=
  categorical_sample_unchecked (α := α) rng self.f_cdf

/-- categorical.rs:145 -/
def Categorical.sample_f64 (self : Categorical α) (rng : Rng) : α × Rng :=
  let (i, rng) := categorical_sample_unchecked (α := α) rng self.f_cdf
  ((RFun.ofInt i : α), rng)

/-- cauchy.rs:116 — `self.location + self.scale * (PI * (r.gen::<f64>() - 0.5)).tan()` -/
def Cauchy.sample_f64 (self : Cauchy α) (rng : Rng) : α × Rng :=
  let (r, rng) := genF64 (α := α) rng
  (self.f_location + (self.f_scale * (RFun.tan ((RFun.pi : α) * (r - (0.5 : α))))), rng)

/-- the fold body of chi.rs:101: `acc + normal::sample_unchecked(rng, 0.0, 1.0).powf(2.0)` -/
def Chi.sample_f64.step (st : α × Rng) : α × Rng :=
  let (z, rng) := normal_sample_unchecked (α := α) st.2 (0.0 : α) (1.0 : α)
  (st.1 + (powfLit2 z), rng)

/-- chi.rs:98 — `(0..self.freedom()).fold(0.0, …).sqrt()` -/
def Chi.sample_f64 (self : Chi) (rng : Rng) : α × Rng :=
  let (s, rng) := foldTimes (Chi.sample_f64.step (α := α)) (Statrs.Gen.Chi.freedom (α := α) self).toNat ((0.0 : α), rng)
  (RFun.sqrt s, rng)

/-- gamma.rs:127 -/
def Gamma.sample_f64 (self : Gamma α) (rng : Rng) : α × Rng :=
  gamma_sample_unchecked (α := α) rng self.f_shape self.f_rate

/-- chi_squared.rs:105 — delegates to `self.g` -/
def ChiSquared.sample_f64 (self : ChiSquared α) (rng : Rng) : α × Rng :=
  Gamma.sample_f64 (α := α) self.f_g rng

/-- dirac.rs:88 — `self.0`; the RNG is untouched -/
def Dirac.sample_f64 (self : Dirac α) (rng : Rng) : α × Rng :=
  (self.f_0, rng)

/-- discrete_uniform.rs:118 — `rng.gen_range(self.min..=self.max)` -/
def DiscreteUniform.sample_i64 (self : DiscreteUniform) (rng : Rng) : Int × Rng :=
  genRangeI64Inclusive self.f_min self.f_max rng

/-- discrete_uniform.rs:126 -/
def DiscreteUniform.sample_f64 (self : DiscreteUniform) (rng : Rng) : α × Rng :=
  let (k, rng) := DiscreteUniform.sample_i64 self rng
  ((RFun.ofInt k : α), rng)

/-- erlang.rs:87 — delegates to `self.g` -/
def Erlang.sample_f64 (self : Erlang α) (rng : Rng) : α × Rng :=
  Gamma.sample_f64 (α := α) self.f_g rng

/-- exponential.rs:96 — `ziggurat::sample_exp_1(r) / self.rate` -/
def Exp.sample_f64 (self : Exp α) (rng : Rng) : α × Rng :=
  let (e, rng) := sample_exp_1 (α := α) rng
  (e / self.f_rate, rng)

/-- fisher_snedecor.rs:129 -/
def FisherSnedecor.sample_f64 (self : FisherSnedecor α) (rng : Rng) : α × Rng :=
  let (g1, rng) := gamma_sample_unchecked (α := α) rng (self.f_freedom_1 / (2.0 : α)) (0.5 : α)
  let (g2, rng) := gamma_sample_unchecked (α := α) rng (self.f_freedom_2 / (2.0 : α)) (0.5 : α)
  ((g1 * self.f_freedom_2) / (g2 * self.f_freedom_1), rng)

/-- geometric.rs:96 — `if ulps_eq!(self.p, 1.0) { 1 } else { x = OpenClosed01; x.log(1.0 - self.p).ceil() as u64 }` -/
def Geometric.sample_u64 (self : Geometric α) (rng : Rng) : Int × Rng :=
  if (RFun.ulpsEq self.f_p (1.0 : α)) = true then (1, rng)
  else
    let (x, rng) := genOpenClosed01 (α := α) rng
    (RFun.toU64 (RFun.ceil (RFun.logb x ((1.0 : α) - self.f_p))), rng)

/-- geometric.rs:112 -/
def Geometric.sample_f64 (self : Geometric α) (rng : Rng) : α × Rng :=
  let (k, rng) := Geometric.sample_u64 (α := α) self rng
  ((RFun.ofInt k : α), rng)

/-- gumbel.rs:118 (current tree, commit 9156d3e) —
    `self.location - self.scale * (-(r.gen::<f64>().ln())).ln()` -/
def Gumbel.sample_f64 (self : Gumbel α) (rng : Rng) : α × Rng :=
  let (r, rng) := genF64 (α := α) rng
  (self.f_location - (self.f_scale * (RFun.ln (-(RFun.ln r)))), rng)

/-- gumbel.rs:118 as it was in the snapshot 042d43d (before the `fix:` commit 9156d3e) —
    `self.location - self.scale * ((-(r.gen::<f64>())).ln()).ln()`.
    Kept only for the counterexample theorems; NOT pinned to the current code. -/
def Gumbel.sample_f64_orig (self : Gumbel α) (rng : Rng) : α × Rng :=
  let (r, rng) := genF64 (α := α) rng
  (self.f_location - (self.f_scale * (RFun.ln (RFun.ln (-r)))), rng)

/-- the `loop` of hypergeometric.rs:169.  `draws -= 1` is a checked `u64` subtraction (`usub`):
    with `draws = 0` on entry it panics in the first iteration (after one word was consumed). -/
def Hypergeometric.sample_u64.loop : Nat → α → α → Int → Int → Rng → LoopR (Int × Rng) (α × α × Int × Int × Rng)
  | 0, _, _, _, _, _ => LoopR.hang
  | fuel + 1, population, successes, draws, x, rng =>
    let p := successes / population
    let (next, rng) := genF64 (α := α) rng
    let (x, successes) := if next < p then (x + 1, successes - (1.0 : α)) else (x, successes)
    let population := population - (1.0 : α)
    let draws := usub draws 1
    if draws = panicInt then LoopR.ret (panicInt, rng)   -- "attempt to subtract with overflow"
    else if draws = 0 then LoopR.done (population, successes, draws, x, rng)
    else Hypergeometric.sample_u64.loop fuel population successes draws x rng

/-- hypergeometric.rs:163 (current tree, commit 5adbc7f: `if draws == 0 { return x; }` before the
    loop).  The loop fuel is `draws + 1` when that exceeds `loopFuel` (the loop runs exactly `draws`
    times for `draws ≥ 1`). -/
def Hypergeometric.sample_u64 (self : Hypergeometric) (rng : Rng) : Int × Rng :=
  let population := (RFun.ofInt self.f_population : α)
  let successes := (RFun.ofInt self.f_successes : α)
  let draws := self.f_draws
  let x := (0 : Int)
  if draws = 0 then (x, rng)
  else
  match Hypergeometric.sample_u64.loop (α := α) (max loopFuel (self.f_draws.toNat + 1)) population successes draws x rng with
  | LoopR.ret v => v
  | LoopR.hang => (panicInt, rng)
  | LoopR.done (population, successes, draws, x, rng) => (x, rng)

/-- hypergeometric.rs:163 as it was in the snapshot 042d43d (no `draws == 0` guard).
    Kept only for the counterexample theorem; NOT pinned to the current code. -/
def Hypergeometric.sample_u64_orig (self : Hypergeometric) (rng : Rng) : Int × Rng :=
  let population := (RFun.ofInt self.f_population : α)
  let successes := (RFun.ofInt self.f_successes : α)
  let draws := self.f_draws
  let x := (0 : Int)
  match Hypergeometric.sample_u64.loop (α := α) (max loopFuel (self.f_draws.toNat + 1)) population successes draws x rng with
  | LoopR.ret v => v
  | LoopR.hang => (panicInt, rng)
  | LoopR.done (population, successes, draws, x, rng) => (x, rng)

/-- hypergeometric.rs:188 -/
def Hypergeometric.sample_f64 (self : Hypergeometric) (rng : Rng) : α × Rng :=
  let (k, rng) := Hypergeometric.sample_u64 (α := α) self rng
  ((RFun.ofInt k : α), rng)

/-- inverse_gamma.rs:124 -/
def InverseGamma.sample_f64 (self : InverseGamma α) (rng : Rng) : α × Rng :=
  let (g, rng) := gamma_sample_unchecked (α := α) rng self.f_shape self.f_rate
  ((1.0 : α) / g, rng)

/-- laplace.rs:116 — `x = rng.gen_range(-0.5..0.5);
    self.location - self.scale * x.signum() * (1. - 2. * x.abs()).ln()` -/
def Laplace.sample_f64 [RngFloat α] (self : Laplace α) (rng : Rng) : α × Rng :=
  let (x, rng) := genRangeF64 (α := α) (-(0.5 : α)) (0.5 : α) rng
  (self.f_location - ((self.f_scale * (RFun.signum x)) * (RFun.ln ((1.0 : α) - ((2.0 : α) * (RFun.abs x))))), rng)

/-- levy.rs:111 — `u = OpenClosed01; self.mu + (0.5 * self.c) / erfc_inv(u).powf(2.0)` -/
def Levy.sample_f64 [SF α] (self : Levy α) (rng : Rng) : α × Rng :=
  let (u, rng) := genOpenClosed01 (α := α) rng
  (self.f_mu + (((0.5 : α) * self.f_c) / (powfLit2 (SF.erfc_inv u))), rng)

/-- log_normal.rs:121 -/
def LogNormal.sample_f64 (self : LogNormal α) (rng : Rng) : α × Rng :=
  let (z, rng) := normal_sample_unchecked (α := α) rng self.f_location self.f_scale
  (RFun.exp z, rng)

/-- negative_binomial.rs:141 -/
def NegativeBinomial.sample_u64 [SF α] (self : NegativeBinomial α) (rng : Rng) : Int × Rng :=
  let (lambda, rng) := gamma_sample_unchecked (α := α) rng self.f_r (self.f_p / ((1.0 : α) - self.f_p))
  let (k, rng) := poisson_sample_unchecked (α := α) rng lambda
  (RFun.toU64 (RFun.floor k), rng)

/-- normal.rs:111 -/
def Normal.sample_f64 (self : Normal α) (rng : Rng) : α × Rng :=
  normal_sample_unchecked (α := α) rng self.f_mean self.f_std_dev

/-- pareto.rs:118 — `u = OpenClosed01; self.scale * u.powf(-1.0 / self.shape)` -/
def Pareto.sample_f64 (self : Pareto α) (rng : Rng) : α × Rng :=
  let (u, rng) := genOpenClosed01 (α := α) rng
  (self.f_scale * (RFun.pow u ((-(1.0 : α)) / self.f_shape)), rng)

/-- poisson.rs:95 — `sample_unchecked(rng, self.lambda) as u64` -/
def Poisson.sample_u64 [SF α] (self : Poisson α) (rng : Rng) : Int × Rng :=
  let (k, rng) := poisson_sample_unchecked (α := α) rng self.f_lambda
  (RFun.toU64 k, rng)

/-- poisson.rs:108 -/
def Poisson.sample_f64 [SF α] (self : Poisson α) (rng : Rng) : α × Rng :=
  poisson_sample_unchecked (α := α) rng self.f_lambda

/-- students_t.rs:148 -/
def StudentsT.sample_f64 (self : StudentsT α) (rng : Rng) : α × Rng :=
  -- if self.freedom.is_infinite() { return normal::sample_unchecked(r, self.location, self.scale); }
  if (RFun.isInf self.f_freedom) = true then
    normal_sample_unchecked (α := α) rng self.f_location self.f_scale
  else
  let (gamma, rng) := gamma_sample_unchecked (α := α) rng ((0.5 : α) * self.f_freedom) (0.5 : α)
  normal_sample_unchecked (α := α) rng self.f_location (self.f_scale * (RFun.sqrt (self.f_freedom / gamma)))

/-- triangular.rs:155 -/
def Triangular.sample_f64 (self : Triangular α) (rng : Rng) : α × Rng :=
  triangular_sample_unchecked (α := α) rng self.f_min self.f_max self.f_mode

/-- uniform.rs:154 — `d = rand::distributions::Uniform::new_inclusive(self.min, self.max); rng.sample(d)` -/
def Uniform.sample_f64 [RngFloat α] (self : Uniform α) (rng : Rng) : α × Rng :=
  match uniformNewInclusive (α := α) self.f_min self.f_max with
  | none => (panicV, rng)
  | some d => uniformSample (α := α) d rng

/-- weibull.rs:126 — `x = rng.gen(); self.scale * (-x.ln()).powf(1.0 / self.shape)` -/
def Weibull.sample_f64 (self : Weibull α) (rng : Rng) : α × Rng :=
  let (x, rng) := genF64 (α := α) rng
  (self.f_scale * (RFun.pow (-(RFun.ln x)) ((1.0 : α) / self.f_shape)), rng)

/-- slice_statistics.rs:136 — `*self.0.as_ref().choose(rng).unwrap()` -/
def Data.sample_f64 (self : Data α) (rng : Rng) : α × Rng :=
  let (o, rng) := sliceChoose self.f_0 rng
  (unwrapO o, rng)

/-! ## vector variates (on lists) -/

/-- the `from_iterator_generic(… map(|&a| { sample = gamma::sample_unchecked(rng, a, 1.0); sum += sample; sample }))`
    part of dirichlet.rs:202: returns `(sum, samples, rng)` -/
def dirichlet_sample.draws (alpha : List α) (rng : Rng) : α × List α × Rng :=
  alpha.foldl (fun (st : α × List α × Rng) a =>
    let (sample, rng) := gamma_sample_unchecked (α := α) st.2.2 a (1.0 : α)
    (st.1 + sample, st.2.1 ++ [sample], rng)) ((0.0 : α), [], rng)

/-- dirichlet.rs:202 (current tree, commit 9e91cab): the gamma draws, then
    `samples.unscale_mut(sum)` (each entry `/ sum`). -/
def dirichlet_sample (alpha : List α) (rng : Rng) : List α × Rng :=
  let st := dirichlet_sample.draws (α := α) alpha rng
  (st.2.1.map (fun e => e / st.1), st.2.2)

/-- dirichlet.rs:202 as it was in the snapshot 042d43d: `sum` is accumulated but never used, the
    returned vector is NOT normalised.  Kept only for the counterexample; NOT pinned. -/
def dirichlet_sample_orig (alpha : List α) (rng : Rng) : List α × Rng :=
  let st := dirichlet_sample.draws (α := α) alpha rng
  (st.2.1, st.2.2)

/-- `categorical::prob_mass_to_cdf` (running sums from `0.0`) -/
def prob_mass_to_cdf (prob_mass : List α) : List α :=
  (prob_mass.foldl (fun (st : α × List α) p => let sum := st.1 + p; (sum, st.2 ++ [sum])) ((0.0 : α), [])).2

/-- loop body of multinomial.rs:200: `i = categorical::sample_unchecked(rng, &p_cdf); res[i] += 1` -/
def multinomial_sample.step (p_cdf : List α) (st : List Int × Rng) : List Int × Rng :=
  let (i, rng) := categorical_sample_unchecked (α := α) st.2 p_cdf
  (listSet st.1 i ((listGet st.1 i) + 1), rng)

/-- multinomial.rs:189 `sample_generic` (the `u64` instance; the `f64` one is `RFun.ofInt` of it) -/
def multinomial_sample (p : List α) (n : Int) (rng : Rng) : List Int × Rng :=
  let p_cdf := prob_mass_to_cdf (α := α) p
  foldTimes (multinomial_sample.step (α := α) p_cdf) n.toNat (List.replicate p.length 0, rng)

end samplers
end Statrs.Model
