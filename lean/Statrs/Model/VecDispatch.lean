/-
  Driver entries for the second sampler / accessor suite (ids match harness/src/hand_vec.rs).
-/
import Statrs.Driver.Proto
import Statrs.Gen.SFFloat
import Statrs.Gen.All
import Statrs.Model.VecSamplers
import Statrs.Model.MVDispatch
import Statrs.Model.CatDispatch
import Statrs.Model.SamplerDispatch
namespace Statrs.Model.VecDispatch
open Statrs Statrs.Driver Statrs.Gen Statrs.Model.MVDispatch Statrs.Model.CatDispatch Statrs.Model.SamplerDispatch

def used (ws : List Int) (r : Statrs.Model.Rng) : Int := Statrs.Model.Rng.consumed (wordsOf ws) r

def empOf (vals : List Float) : Statrs.Model.Empirical Float := Statrs.Model.Empirical.from_iter (α := Float) vals

def vecTable : List (String × (List Arg → String)) := [
  ("vec::mvn::sample", fun a => match a with
    | [Arg.fl m, Arg.fl c, Arg.il ws] => withMVN m c (fun d =>
        let r := Statrs.Model.MultivariateNormal.sample (α := Float) d (wordsOf ws); reply (r.1, used ws r.2))
    | _ => "bad-args"),
  ("vec::mvn::chol", fun a => match a with
    | [Arg.fl m, Arg.fl c] => withMVN m c (fun d => reply (Statrs.Model.MultivariateNormal.clone_cov_chol_decomp d))
    | _ => "bad-args"),
  ("vec::mvn::acc", fun a => match a with
    | [Arg.fl m, Arg.fl c] => withMVN m c (fun d =>
        reply (Statrs.Model.MultivariateNormal.mu d, Statrs.Model.MultivariateNormal.cov d, Statrs.Model.MultivariateNormal.precision d))
    | _ => "bad-args"),
  ("vec::mvt::sample", fun a => match a with
    | [Arg.fl m, Arg.fl c, Arg.f nu, Arg.il ws] => withMVT m c nu (fun d =>
        match Statrs.Model.MultivariateStudent.sample (α := Float) d (wordsOf ws) with
        | none => "panic"
        | some r => reply (r.1, used ws r.2))
    | _ => "bad-args"),
  ("vec::mvt::chol", fun a => match a with
    | [Arg.fl m, Arg.fl c, Arg.f nu] => withMVT m c nu (fun d => reply (Statrs.Model.MultivariateStudent.scale_chol_decomp d))
    | _ => "bad-args"),
  ("vec::mvt::acc", fun a => match a with
    | [Arg.fl m, Arg.fl c, Arg.f nu] => withMVT m c nu (fun d =>
        reply (Statrs.Model.MultivariateStudent.location d, Statrs.Model.MultivariateStudent.scale d, Statrs.Model.MultivariateStudent.precision d))
    | _ => "bad-args"),
  ("vec::mvt::acc2", fun a => match a with
    | [Arg.fl m, Arg.fl c, Arg.f nu] => withMVT m c nu (fun d =>
        reply (Statrs.Model.MultivariateStudent.freedom d, Statrs.Model.MultivariateStudent.ln_pdf_const d, Statrs.Model.MultivariateStudent.dim d))
    | _ => "bad-args"),
  ("vec::dirichlet::sample", fun a => match a with
    | [Arg.fl al, Arg.il ws] => withDir al (fun d =>
        let r := Statrs.Model.dirichlet_sample (α := Float) d.f_alpha (wordsOf ws); reply (r.1, used ws r.2))
    | _ => "bad-args"),
  ("vec::dirichlet::acc", fun a => match a with
    | [Arg.fl al] => withDir al (fun d => reply (Statrs.Model.Dirichlet.alpha d))
    | _ => "bad-args"),
  ("vec::multinomial::sample_u64", fun a => match a with
    | [Arg.fl p, Arg.i n, Arg.il ws] => withMul p n (fun d =>
        let r := Statrs.Model.multinomial_sample (α := Float) d.f_p d.f_n (wordsOf ws); reply (r.1, used ws r.2))
    | _ => "bad-args"),
  ("vec::multinomial::sample_f64", fun a => match a with
    | [Arg.fl p, Arg.i n, Arg.il ws] => withMul p n (fun d =>
        let r := Statrs.Model.multinomial_sample_f64 (α := Float) d.f_p d.f_n (wordsOf ws); reply (r.1, used ws r.2))
    | _ => "bad-args"),
  ("vec::multinomial::n", fun a => match a with
    | [Arg.fl p, Arg.i n] => withMul p n (fun d => reply (Statrs.Model.Multinomial.n d))
    | _ => "bad-args"),
  ("vec::categorical::sample_usize", fun a => match a with
    | [Arg.fl p, Arg.il ws] => withCat p (fun d =>
        let r := Statrs.Model.Categorical.sample_usize (α := Float) d (wordsOf ws); reply (r.1, used ws r.2))
    | _ => "bad-args"),
  ("vec::categorical::sample_u64", fun a => match a with
    | [Arg.fl p, Arg.il ws] => withCat p (fun d =>
        let r := Statrs.Model.Categorical.sample_u64 (α := Float) d (wordsOf ws); reply (r.1, used ws r.2))
    | _ => "bad-args"),
  ("vec::categorical::sample_f64", fun a => match a with
    | [Arg.fl p, Arg.il ws] => withCat p (fun d =>
        let r := Statrs.Model.Categorical.sample_f64 (α := Float) d (wordsOf ws); reply (r.1, used ws r.2))
    | _ => "bad-args"),
  ("vec::data::sample", fun a => match a with
    | [Arg.fl l, Arg.il ws] =>
        let r := Statrs.Model.Data.sample_f64 (α := Float) ({ f_0 := l } : Data Float) (wordsOf ws); reply (r.1, used ws r.2)
    | _ => "bad-args"),
  ("vec::empirical::inverse_cdf", fun a => match a with
    | [Arg.fl vals, Arg.f p] => optReply (Statrs.Model.Empirical.inverse_cdf (empOf vals) p)
    | _ => "bad-args"),
  ("vec::empirical::sample", fun a => match a with
    | [Arg.fl vals, Arg.il ws] =>
        let r := Statrs.Model.Empirical.sample (α := Float) (empOf vals) (wordsOf ws)
        (match r.1 with
         | none => "hang"
         | some v => reply (v, used ws r.2))
    | _ => "bad-args"),
  ("vec::empirical::std_dev", fun a => match a with
    | [Arg.fl vals] => reply (Statrs.Model.Empirical.std_dev (empOf vals))
    | _ => "bad-args")]

end Statrs.Model.VecDispatch
