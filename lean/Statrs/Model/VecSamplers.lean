/-
  Statrs.Model.VecSamplers — hand models of the samplers and `Empirical` methods that the first
  sampler suite did not cover:

    * `MultivariateNormal::sample` (multivariate_normal.rs:319), `MultivariateStudent::sample`
      (multivariate_students_t.rs:221): normal draws in index order, one column `gemv`, one vector add;
    * `Multinomial::sample` as `OVector<f64>` (multinomial.rs:178);
    * `Empirical::__inverse_cdf` (empirical.rs:153: the private copy of the 16-step bisection),
      `Empirical::inverse_cdf`, `Empirical::sample` (empirical.rs:217) and the trait-default `std_dev`.

  Same conventions as `Model/Samplers.lean` (explicit word stream, fuelled loops, statement-by-statement
  association).  No Mathlib import.
-/
import Statrs.Model.Samplers
import Statrs.Model.Multivariate
import Statrs.Model.Empirical
import Statrs.Gen.D_chi_squared
set_option linter.unusedVariables false
namespace Statrs.Model
open Statrs Statrs.Gen

section vsamplers
variable {α : Type} [Add α] [Sub α] [Mul α] [Div α] [Neg α] [LT α] [LE α] [BEq α]
  [DecidableLT α] [DecidableLE α] [OfScientific α] [Inhabited α] [RFun α]

/-- `OVector::from_distribution_generic(n, 1, &Normal::new(0., 1.), rng)`: `n` draws of
    `normal::sample_unchecked(rng, 0.0, 1.0)` in index order -/
def stdNormalVec : Nat → Rng → List α × Rng
  | 0, rng => ([], rng)
  | n + 1, rng =>
    let (z, rng) := normal_sample_unchecked (α := α) rng (0.0 : α) (1.0 : α)
    let (zs, rng) := stdNormalVec n rng
    (z :: zs, rng)

/-- `a + &b` on vectors (entry-wise) -/
def vadd (x y : List α) : List α := List.zipWith (fun a b => a + b) x y

/-- multivariate_normal.rs:319 — `z = from_distribution(N(0,1)); (&self.cov_chol_decomp * z) + &self.mu` -/
def MultivariateNormal.sample (self : MultivariateNormal α) (rng : Rng) : List α × Rng :=
  let (z, rng) := stdNormalVec (α := α) self.f_mu.length rng
  (vadd (LA.matvec self.f_cov_chol_decomp z) self.f_mu, rng)

/-- multivariate_students_t.rs:221 —
    `s = ChiSquared::new(freedom).unwrap(); w = (freedom / s.sample(rng)).sqrt();
     z = from_distribution(N(0,1)); (w * &self.scale_chol_decomp * z) + &self.location`.
    `ChiSquared::new(ν)` is `Gamma::new(ν/2, 0.5)`; it fails (→ `unwrap` panic) exactly when the
    inner `Gamma::new` does.  `w * &M` scales every entry (`e * w`, commutative in IEEE). -/
def MultivariateStudent.sample (self : MultivariateStudent α) (rng : Rng) : Option (List α × Rng) :=
  if (RFun.isInf self.f_freedom) = true then
    -- since 864abd5: `freedom = inf` is the multivariate normal limit, mixing weight `w = 1.0`, no chi-squared draw
    let w := (1.0 : α)
    let (z, rng) := stdNormalVec (α := α) self.f_location.length rng
    let m := self.f_scale_chol_decomp.map (fun r => r.map (fun e => e * w))
    some (vadd (LA.matvec m z) self.f_location, rng)
  else
  match Statrs.Gen.ChiSquared.new (α := α) self.f_freedom with
  | .error _ => none
  | .ok s =>
    let (c, rng) := ChiSquared.sample_f64 (α := α) s rng
    let w := RFun.sqrt (self.f_freedom / c)
    let (z, rng) := stdNormalVec (α := α) self.f_location.length rng
    let m := self.f_scale_chol_decomp.map (fun r => r.map (fun e => e * w))
    some (vadd (LA.matvec m z) self.f_location, rng)

/-- multinomial.rs:178 (`OVector<f64>` instance of `sample_generic`): counts start at `0.0` and are
    incremented by `1.0` -/
def multinomial_sample_f64.step (p_cdf : List α) (st : List α × Rng) : List α × Rng :=
  let (i, rng) := categorical_sample_unchecked (α := α) st.2 p_cdf
  (listSet st.1 i ((listGet st.1 i) + (1.0 : α)), rng)

def multinomial_sample_f64 (p : List α) (n : Int) (rng : Rng) : List α × Rng :=
  let p_cdf := prob_mass_to_cdf (α := α) p
  foldTimes (multinomial_sample_f64.step (α := α) p_cdf) n.toNat (List.replicate p.length (0.0 : α), rng)

/-! ## Empirical -/

/-- `while self.cdf(low) >= p { low = low + low; }` -/
def Empirical.invLow (self : Empirical α) (p : α) : Nat → α → LoopR α α
  | 0, _ => LoopR.hang
  | fuel + 1, low => if p ≤ self.cdf low then Empirical.invLow self p fuel (low + low) else LoopR.done low

/-- `while self.cdf(high) < p { high = high + high; }` -/
def Empirical.invHigh (self : Empirical α) (p : α) : Nat → α → LoopR α α
  | 0, _ => LoopR.hang
  | fuel + 1, high => if self.cdf high < p then Empirical.invHigh self p fuel (high + high) else LoopR.done high

/-- `while i != 0 { mid = (high + low) / 2.0; if self.cdf(mid) >= p { high = mid } else { low = mid }; i -= 1 }` -/
def Empirical.invBisect (self : Empirical α) (p : α) : Nat → α → α → α × α
  | 0, high, low => (high, low)
  | i + 1, high, low =>
    let mid := (high + low) / (2.0 : α)
    if p ≤ self.cdf mid then Empirical.invBisect self p i mid low
    else Empirical.invBisect self p i high mid

/-- src/distribution/empirical.rs:153 `__inverse_cdf` (= `inverse_cdf`, empirical.rs:275).
    `none` = the real loop does not terminate within `loopFuel` doublings. -/
def Empirical.inverse_cdf (self : Empirical α) (p : α) : Option α :=
  if (p == (0.0 : α)) = true then some (Empirical.min self)
  else if (p == (1.0 : α)) = true then some (Empirical.max self)
  else
    let high := (2.0 : α)
    let low := -high
    match Empirical.invLow self p loopFuel low with
    | LoopR.done low =>
      (match Empirical.invHigh self p loopFuel high with
       | LoopR.done high =>
         let (high, low) := Empirical.invBisect self p 16 high low
         some ((high + low) / (2.0 : α))
       | _ => none)
    | _ => none

/-- empirical.rs:217 — `Uniform::new(0.0, 1.0).unwrap().sample(rng)` then `__inverse_cdf` -/
def Empirical.sample [RngFloat α] (self : Empirical α) (rng : Rng) : Option α × Rng :=
  let uniform : Uniform α := { f_min := (0.0 : α), f_max := (1.0 : α) }
  let (u, rng) := Uniform.sample_f64 (α := α) uniform rng
  (Empirical.inverse_cdf self u, rng)

/-- trait default `Distribution::std_dev`: `self.variance().map(|var| var.sqrt())` -/
def Empirical.std_dev (self : Empirical α) : Option α :=
  (Empirical.variance self).map (fun v => RFun.sqrt v)

end vsamplers
end Statrs.Model
