/-
  C01 — cdf is a distribution function — closed-form continuous families
  (Uniform, Exp, Cauchy, Laplace, Gumbel, Pareto, Triangular, Weibull, Dirac).

  For every family: under exactly the constructor's acceptance predicate (stated on the struct
  fields), over ℝ:  0 ≤ cdf ≤ 1, cdf monotone, cdf = 0 at/below the finite support minimum,
  cdf = 1 at/above the finite support maximum.  All theorems are full(ℝ); the last section
  restates the pure branch-logic facts for every carrier α (so they also hold for IEEE Float).
  (Values "at ±inf" are not stated: over ℝ `RFun.inf` is a junk value, see the brief.)
-/
import Statrs.Lemmas.ClosedCdf
namespace Statrs.Props.C01
open Statrs Statrs.Gen Statrs.Lemmas.ClosedCdf

/-! ### Uniform — `new` accepts iff min < max (finiteness is vacuous over ℝ) -/

theorem uniform_cdf_nonneg (d : Uniform ℝ) (x : ℝ) :
    0 ≤ Uniform.cdf d x := by
  rw [uniform_cdf_eq]
  split_ifs <;> first | (norm_num; done) | (apply div_nonneg <;> linarith)

theorem uniform_cdf_le_one (d : Uniform ℝ) (h : d.f_min < d.f_max) (x : ℝ) :
    Uniform.cdf d x ≤ 1 := by
  have hpos : 0 < d.f_max - d.f_min := by linarith
  rw [uniform_cdf_eq]
  split_ifs <;> first | (norm_num; done) | (rw [div_le_one hpos]; linarith)

theorem uniform_cdf_mono (d : Uniform ℝ) (h : d.f_min < d.f_max) {x y : ℝ} (hxy : x ≤ y) :
    Uniform.cdf d x ≤ Uniform.cdf d y := by
  have hpos : 0 < d.f_max - d.f_min := by linarith
  rw [uniform_cdf_eq, uniform_cdf_eq]
  split_ifs <;>
    first
    | (norm_num; done)
    | (exfalso; linarith)
    | (apply div_nonneg <;> linarith)
    | (rw [div_le_one hpos]; linarith)
    | (apply div_le_div_of_nonneg_right <;> linarith)

/-- cdf is 0 at and below the support minimum -/
theorem uniform_cdf_below_min (d : Uniform ℝ) {x : ℝ} (hx : x ≤ d.f_min) :
    Uniform.cdf d x = 0 := by
  rw [uniform_cdf_eq, if_pos hx]

/-- cdf is 1 at and above the support maximum -/
theorem uniform_cdf_above_max (d : Uniform ℝ) (h : d.f_min < d.f_max) {x : ℝ}
    (hx : d.f_max ≤ x) : Uniform.cdf d x = 1 := by
  rw [uniform_cdf_eq, if_neg (by linarith), if_pos hx]

example : ∃ d : Uniform ℝ, d.f_min < d.f_max := ⟨⟨0, 1⟩, by norm_num⟩

/-! ### Exp — `new` accepts iff 0 < rate -/

theorem exp_cdf_nonneg (d : Exp ℝ) (h : 0 < d.f_rate) (x : ℝ) : 0 ≤ Exp.cdf d x := by
  rw [exp_cdf_eq]
  split_ifs with hx
  · exact le_rfl
  · have : Real.exp (-d.f_rate * x) ≤ 1 := Real.exp_le_one_iff.mpr (by nlinarith)
    linarith

theorem exp_cdf_le_one (d : Exp ℝ) (x : ℝ) : Exp.cdf d x ≤ 1 := by
  rw [exp_cdf_eq]
  split_ifs with hx
  · norm_num
  · have := Real.exp_pos (-d.f_rate * x); linarith

theorem exp_cdf_mono (d : Exp ℝ) (h : 0 < d.f_rate) {x y : ℝ} (hxy : x ≤ y) :
    Exp.cdf d x ≤ Exp.cdf d y := by
  by_cases hx : x < 0
  · have : Exp.cdf d x = 0 := by rw [exp_cdf_eq, if_pos hx]
    rw [this]; exact exp_cdf_nonneg d h y
  · have hy : ¬ y < 0 := by linarith
    rw [exp_cdf_eq, exp_cdf_eq, if_neg hx, if_neg hy]
    have : Real.exp (-d.f_rate * y) ≤ Real.exp (-d.f_rate * x) :=
      Real.exp_le_exp.mpr (by nlinarith)
    linarith

/-- cdf is 0 at and below the support minimum 0 -/
theorem exp_cdf_below_min (d : Exp ℝ) {x : ℝ} (hx : x ≤ 0) : Exp.cdf d x = 0 := by
  rw [exp_cdf_eq]
  split_ifs with h0
  · rfl
  · have : x = 0 := by linarith
    subst this; simp

example : ∃ d : Exp ℝ, 0 < d.f_rate := ⟨⟨1⟩, by norm_num⟩

/-! ### Cauchy — `new` accepts iff 0 < scale (support is all of ℝ) -/

theorem cauchy_cdf_nonneg (d : Cauchy ℝ) (x : ℝ) : 0 ≤ Cauchy.cdf d x := by
  rw [cauchy_cdf_eq]; exact (cauchy_core_pos _).le

theorem cauchy_cdf_le_one (d : Cauchy ℝ) (x : ℝ) : Cauchy.cdf d x ≤ 1 := by
  rw [cauchy_cdf_eq]; exact (cauchy_core_lt_one _).le

theorem cauchy_cdf_mono (d : Cauchy ℝ) (h : 0 < d.f_scale) {x y : ℝ} (hxy : x ≤ y) :
    Cauchy.cdf d x ≤ Cauchy.cdf d y := by
  rw [cauchy_cdf_eq, cauchy_cdf_eq]
  apply cauchy_core_mono
  apply div_le_div_of_nonneg_right _ h.le
  linarith

example : ∃ d : Cauchy ℝ, 0 < d.f_scale := ⟨⟨0, 1⟩, by norm_num⟩

/-! ### Laplace — `new` accepts iff 0 < scale (support is all of ℝ) -/

theorem laplace_cdf_nonneg (d : Laplace ℝ) (h : 0 < d.f_scale) (x : ℝ) :
    0 ≤ Laplace.cdf d x := by
  rw [laplace_cdf_eq]
  have h1 : Real.exp (-|x - d.f_location| / d.f_scale) ≤ 1 :=
    Real.exp_le_one_iff.mpr (div_nonpos_of_nonpos_of_nonneg (by simp) h.le)
  have h2 := Real.exp_pos (-|x - d.f_location| / d.f_scale)
  split_ifs <;> linarith

theorem laplace_cdf_le_one (d : Laplace ℝ) (h : 0 < d.f_scale) (x : ℝ) :
    Laplace.cdf d x ≤ 1 := by
  rw [laplace_cdf_eq]
  have h1 : Real.exp (-|x - d.f_location| / d.f_scale) ≤ 1 :=
    Real.exp_le_one_iff.mpr (div_nonpos_of_nonpos_of_nonneg (by simp) h.le)
  have h2 := Real.exp_pos (-|x - d.f_location| / d.f_scale)
  split_ifs <;> linarith

theorem laplace_cdf_mono (d : Laplace ℝ) (h : 0 < d.f_scale) {x y : ℝ} (hxy : x ≤ y) :
    Laplace.cdf d x ≤ Laplace.cdf d y := by
  rw [laplace_cdf_eq, laplace_cdf_eq]
  have hx1 : Real.exp (-|x - d.f_location| / d.f_scale) ≤ 1 :=
    Real.exp_le_one_iff.mpr (div_nonpos_of_nonpos_of_nonneg (by simp) h.le)
  have hy1 : Real.exp (-|y - d.f_location| / d.f_scale) ≤ 1 :=
    Real.exp_le_one_iff.mpr (div_nonpos_of_nonpos_of_nonneg (by simp) h.le)
  split_ifs with hx hy hy
  · -- location ≤ x ≤ y
    have : Real.exp (-|y - d.f_location| / d.f_scale) ≤
        Real.exp (-|x - d.f_location| / d.f_scale) := by
      apply Real.exp_le_exp.mpr
      apply div_le_div_of_nonneg_right _ h.le
      rw [abs_of_nonneg (by linarith), abs_of_nonneg (by linarith)]; linarith
    linarith
  · exfalso; linarith
  · linarith
  · -- x ≤ y < location
    have : Real.exp (-|x - d.f_location| / d.f_scale) ≤
        Real.exp (-|y - d.f_location| / d.f_scale) := by
      apply Real.exp_le_exp.mpr
      apply div_le_div_of_nonneg_right _ h.le
      rw [abs_of_neg (by linarith), abs_of_neg (by linarith)]; linarith
    linarith

example : ∃ d : Laplace ℝ, 0 < d.f_scale := ⟨⟨0, 1⟩, by norm_num⟩

/-! ### Gumbel — `new` accepts iff 0 < scale (support is all of ℝ) -/

theorem gumbel_cdf_nonneg (d : Gumbel ℝ) (x : ℝ) : 0 ≤ Gumbel.cdf d x := by
  rw [gumbel_cdf_eq]; exact (Real.exp_pos _).le

theorem gumbel_cdf_le_one (d : Gumbel ℝ) (x : ℝ) : Gumbel.cdf d x ≤ 1 := by
  rw [gumbel_cdf_eq]
  exact Real.exp_le_one_iff.mpr (neg_nonpos.mpr (Real.exp_pos _).le)

theorem gumbel_cdf_mono (d : Gumbel ℝ) (h : 0 < d.f_scale) {x y : ℝ} (hxy : x ≤ y) :
    Gumbel.cdf d x ≤ Gumbel.cdf d y := by
  rw [gumbel_cdf_eq, gumbel_cdf_eq]
  apply Real.exp_le_exp.mpr
  apply neg_le_neg
  apply Real.exp_le_exp.mpr
  apply div_le_div_of_nonneg_right _ h.le
  linarith

example : ∃ d : Gumbel ℝ, 0 < d.f_scale := ⟨⟨0, 1⟩, by norm_num⟩

/-! ### Pareto — `new` accepts iff 0 < scale ∧ 0 < shape; support minimum is `scale` -/

theorem pareto_cdf_nonneg (d : Pareto ℝ) (hs : 0 < d.f_scale) (hk : 0 < d.f_shape) (x : ℝ) :
    0 ≤ Pareto.cdf d x := by
  rw [pareto_cdf_eq]
  split_ifs with hx
  · exact le_rfl
  · have := pareto_tail_le_one hs hk (not_lt.mp hx); linarith

theorem pareto_cdf_le_one (d : Pareto ℝ) (hs : 0 < d.f_scale) (x : ℝ) :
    Pareto.cdf d x ≤ 1 := by
  rw [pareto_cdf_eq]
  split_ifs with hx
  · norm_num
  · have := pareto_tail_nonneg (k := d.f_shape) hs (not_lt.mp hx); linarith

theorem pareto_cdf_mono (d : Pareto ℝ) (hs : 0 < d.f_scale) (hk : 0 < d.f_shape) {x y : ℝ}
    (hxy : x ≤ y) : Pareto.cdf d x ≤ Pareto.cdf d y := by
  by_cases hx : x < d.f_scale
  · have : Pareto.cdf d x = 0 := by rw [pareto_cdf_eq, if_pos hx]
    rw [this]; exact pareto_cdf_nonneg d hs hk y
  · have hy : ¬ y < d.f_scale := by linarith
    rw [pareto_cdf_eq, pareto_cdf_eq, if_neg hx, if_neg hy]
    have := pareto_tail_anti hs hk (not_lt.mp hx) hxy
    linarith

/-- cdf is 0 at and below the support minimum `scale` -/
theorem pareto_cdf_below_min (d : Pareto ℝ) (hs : 0 < d.f_scale) {x : ℝ}
    (hx : x ≤ d.f_scale) : Pareto.cdf d x = 0 := by
  rw [pareto_cdf_eq]
  split_ifs with h0
  · rfl
  · have : x = d.f_scale := by linarith
    rw [this, div_self hs.ne', Real.one_rpow]; norm_num

example : ∃ d : Pareto ℝ, 0 < d.f_scale ∧ 0 < d.f_shape := ⟨⟨1, 1⟩, by norm_num⟩

/-! ### Triangular — `new` accepts iff min ≤ mode ≤ max ∧ min ≠ max -/

theorem triangular_cdf_nonneg (d : Triangular ℝ) (h1 : d.f_min ≤ d.f_mode)
    (h2 : d.f_mode ≤ d.f_max) (h3 : d.f_min ≠ d.f_max) (x : ℝ) : 0 ≤ Triangular.cdf d x := by
  have hab : d.f_min < d.f_max := lt_of_le_of_ne (h1.trans h2) h3
  rw [triangular_cdf_eq]
  split_ifs with ha hc hb
  · exact le_rfl
  · apply div_nonneg (mul_self_nonneg _)
    apply mul_nonneg <;> linarith
  · have hpos : 0 < (d.f_max - d.f_min) * (d.f_max - d.f_mode) := by
      apply mul_pos <;> linarith
    rw [sub_nonneg, div_le_one hpos]
    nlinarith
  · norm_num

theorem triangular_cdf_le_one (d : Triangular ℝ) (h1 : d.f_min ≤ d.f_mode)
    (h2 : d.f_mode ≤ d.f_max) (h3 : d.f_min ≠ d.f_max) (x : ℝ) : Triangular.cdf d x ≤ 1 := by
  have hab : d.f_min < d.f_max := lt_of_le_of_ne (h1.trans h2) h3
  rw [triangular_cdf_eq]
  split_ifs with ha hc hb
  · norm_num
  · have hpos : 0 < (d.f_max - d.f_min) * (d.f_mode - d.f_min) := by
      apply mul_pos <;> linarith
    rw [div_le_one hpos]
    nlinarith
  · have : 0 ≤ (d.f_max - x) * (d.f_max - x) / ((d.f_max - d.f_min) * (d.f_max - d.f_mode)) := by
      apply div_nonneg (mul_self_nonneg _)
      apply mul_nonneg <;> linarith
    linarith
  · exact le_rfl

/-- cdf is 0 at and below the support minimum -/
theorem triangular_cdf_below_min (d : Triangular ℝ) {x : ℝ} (hx : x ≤ d.f_min) :
    Triangular.cdf d x = 0 := by
  rw [triangular_cdf_eq, if_pos hx]

/-- cdf is 1 at and above the support maximum -/
theorem triangular_cdf_above_max (d : Triangular ℝ) (h1 : d.f_min ≤ d.f_mode)
    (h2 : d.f_mode ≤ d.f_max) (h3 : d.f_min ≠ d.f_max) {x : ℝ} (hx : d.f_max ≤ x) :
    Triangular.cdf d x = 1 := by
  have hab : d.f_min < d.f_max := lt_of_le_of_ne (h1.trans h2) h3
  rw [triangular_cdf_eq, if_neg (by linarith)]
  by_cases hc : x ≤ d.f_mode
  · -- only possible when x = mode = max; then the rising branch is (max-min)²/(max-min)² = 1
    have hx' : x = d.f_max := by linarith
    have hm : d.f_mode = d.f_max := by linarith
    rw [if_pos hc, hx', hm]
    have : d.f_max - d.f_min ≠ 0 := by linarith
    field_simp
  · rw [if_neg hc, if_neg (by linarith)]

/-- the rising branch stays below its value at the mode, `(mode-min)/(max-min)` -/
private theorem tri_rise_le {a b c x : ℝ} (hab : a < b) (hax : a < x) (hxc : x ≤ c) :
    (x - a) * (x - a) / ((b - a) * (c - a)) ≤ (c - a) / (b - a) := by
  have hca : 0 < c - a := by linarith
  have hba : 0 < b - a := by linarith
  rw [div_le_div_iff₀ (by positivity) hba]
  have : (x - a) * (x - a) ≤ (c - a) * (c - a) := by nlinarith
  nlinarith

/-- the falling branch stays above `(mode-min)/(max-min)` -/
private theorem tri_fall_ge {a b c x : ℝ} (hab : a < b) (hac : a ≤ c) (hcx : c < x) (hxb : x < b) :
    (c - a) / (b - a) ≤ 1 - (b - x) * (b - x) / ((b - a) * (b - c)) := by
  have hbc : 0 < b - c := by linarith
  have hba : 0 < b - a := by linarith
  have h1 : (b - x) * (b - x) / ((b - a) * (b - c)) ≤ (b - c) / (b - a) := by
    rw [div_le_div_iff₀ (by positivity) hba]
    have : (b - x) * (b - x) ≤ (b - c) * (b - c) := by nlinarith
    nlinarith
  have h2 : (c - a) / (b - a) = 1 - (b - c) / (b - a) := by field_simp; ring
  linarith

theorem triangular_cdf_mono (d : Triangular ℝ) (h1 : d.f_min ≤ d.f_mode)
    (h2 : d.f_mode ≤ d.f_max) (h3 : d.f_min ≠ d.f_max) {x y : ℝ} (hxy : x ≤ y) :
    Triangular.cdf d x ≤ Triangular.cdf d y := by
  have hab : d.f_min < d.f_max := lt_of_le_of_ne (h1.trans h2) h3
  by_cases hxa : x ≤ d.f_min
  · have : Triangular.cdf d x = 0 := by rw [triangular_cdf_eq, if_pos hxa]
    rw [this]; exact triangular_cdf_nonneg d h1 h2 h3 y
  by_cases hyb : y < d.f_max
  swap
  · have : Triangular.cdf d y = 1 :=
      triangular_cdf_above_max d h1 h2 h3 (not_lt.mp hyb)
    rw [this]; exact triangular_cdf_le_one d h1 h2 h3 x
  have hya : ¬ y ≤ d.f_min := by linarith
  have hxb : x < d.f_max := by linarith
  have hxa' : d.f_min < x := not_le.mp hxa
  rw [triangular_cdf_eq, triangular_cdf_eq, if_neg hxa, if_neg hya]
  by_cases hxc : x ≤ d.f_mode <;> by_cases hyc : y ≤ d.f_mode
  · -- both rising
    rw [if_pos hxc, if_pos hyc]
    apply div_le_div_of_nonneg_right
    · nlinarith
    · apply mul_nonneg <;> linarith
  · -- x rising, y falling
    rw [if_pos hxc, if_neg hyc, if_pos hyb]
    exact (tri_rise_le hab hxa' hxc).trans (tri_fall_ge hab h1 (not_le.mp hyc) hyb)
  · exfalso; linarith
  · -- both falling
    rw [if_neg hxc, if_neg hyc, if_pos hxb, if_pos hyb]
    apply sub_le_sub_left
    apply div_le_div_of_nonneg_right
    · nlinarith
    · apply mul_nonneg <;> linarith

example : ∃ d : Triangular ℝ, d.f_min ≤ d.f_mode ∧ d.f_mode ≤ d.f_max ∧ d.f_min ≠ d.f_max :=
  ⟨⟨0, 1, 1⟩, by norm_num⟩

/-! ### Weibull — `new` accepts iff 0 < shape ∧ 0 < scale, and stores
`scale_pow_shape_inv = scale ^ (-shape)`; support minimum is 0 -/

private theorem weibull_inv_pos (d : Weibull ℝ) (hs : 0 < d.f_scale)
    (hi : d.f_scale_pow_shape_inv = d.f_scale ^ (-d.f_shape)) : 0 < d.f_scale_pow_shape_inv := by
  rw [hi]; exact Real.rpow_pos_of_pos hs _

theorem weibull_cdf_nonneg (d : Weibull ℝ) (hs : 0 < d.f_scale)
    (hi : d.f_scale_pow_shape_inv = d.f_scale ^ (-d.f_shape)) (x : ℝ) :
    0 ≤ Weibull.cdf d x := by
  have hinv := weibull_inv_pos d hs hi
  rw [weibull_cdf_eq]
  split_ifs with hx
  · exact le_rfl
  · have hp : 0 ≤ x ^ d.f_shape := Real.rpow_nonneg (not_lt.mp hx) _
    have : Real.exp (-(x ^ d.f_shape) * d.f_scale_pow_shape_inv) ≤ 1 :=
      Real.exp_le_one_iff.mpr (by nlinarith)
    linarith

theorem weibull_cdf_le_one (d : Weibull ℝ) (x : ℝ) :
    Weibull.cdf d x ≤ 1 := by
  rw [weibull_cdf_eq]
  split_ifs with hx
  · norm_num
  · have := Real.exp_pos (-(x ^ d.f_shape) * d.f_scale_pow_shape_inv); linarith

theorem weibull_cdf_mono (d : Weibull ℝ) (hk : 0 < d.f_shape) (hs : 0 < d.f_scale)
    (hi : d.f_scale_pow_shape_inv = d.f_scale ^ (-d.f_shape)) {x y : ℝ} (hxy : x ≤ y) :
    Weibull.cdf d x ≤ Weibull.cdf d y := by
  have hinv := weibull_inv_pos d hs hi
  by_cases hx : x < 0
  · have : Weibull.cdf d x = 0 := by rw [weibull_cdf_eq, if_pos hx]
    rw [this]; exact weibull_cdf_nonneg d hs hi y
  · have hy : ¬ y < 0 := by linarith
    rw [weibull_cdf_eq, weibull_cdf_eq, if_neg hx, if_neg hy]
    have hp : x ^ d.f_shape ≤ y ^ d.f_shape := Real.rpow_le_rpow (not_lt.mp hx) hxy hk.le
    have : Real.exp (-(y ^ d.f_shape) * d.f_scale_pow_shape_inv) ≤
        Real.exp (-(x ^ d.f_shape) * d.f_scale_pow_shape_inv) :=
      Real.exp_le_exp.mpr (by nlinarith)
    linarith

/-- cdf is 0 at and below the support minimum 0 -/
theorem weibull_cdf_below_min (d : Weibull ℝ) (hk : 0 < d.f_shape) {x : ℝ} (hx : x ≤ 0) :
    Weibull.cdf d x = 0 := by
  rw [weibull_cdf_eq]
  split_ifs with h0
  · rfl
  · have : x = 0 := by linarith
    rw [this, Real.zero_rpow hk.ne']; simp

example : ∃ d : Weibull ℝ, 0 < d.f_shape ∧ 0 < d.f_scale ∧
    d.f_scale_pow_shape_inv = d.f_scale ^ (-d.f_shape) := ⟨⟨1, 1, 1⟩, by norm_num⟩

/-! ### Dirac — `new` accepts every non-NaN value: no hypothesis over ℝ; support is `{v}` -/

theorem dirac_cdf_nonneg (d : Dirac ℝ) (x : ℝ) : 0 ≤ Dirac.cdf d x := by
  rw [dirac_cdf_eq]; split_ifs <;> norm_num

theorem dirac_cdf_le_one (d : Dirac ℝ) (x : ℝ) : Dirac.cdf d x ≤ 1 := by
  rw [dirac_cdf_eq]; split_ifs <;> norm_num

theorem dirac_cdf_mono (d : Dirac ℝ) {x y : ℝ} (hxy : x ≤ y) :
    Dirac.cdf d x ≤ Dirac.cdf d y := by
  rw [dirac_cdf_eq, dirac_cdf_eq]
  split_ifs <;> first | (norm_num; done) | (exfalso; linarith)

/-- cdf is 0 strictly below the atom -/
theorem dirac_cdf_below_min (d : Dirac ℝ) {x : ℝ} (hx : x < d.f_0) : Dirac.cdf d x = 0 := by
  rw [dirac_cdf_eq, if_pos hx]

/-- cdf is 1 at and above the atom -/
theorem dirac_cdf_above_max (d : Dirac ℝ) {x : ℝ} (hx : d.f_0 ≤ x) : Dirac.cdf d x = 1 := by
  rw [dirac_cdf_eq, if_neg (not_lt.mpr hx)]

/-! ### Branch-logic facts for every carrier α (hence also for IEEE `Float`)

The hypothesis is the literal guard of the generated code, so no order laws on α are needed. -/
section AllCarriers
variable {α : Type} [Add α] [Sub α] [Mul α] [Div α] [Neg α] [LT α] [LE α] [BEq α]
  [DecidableLT α] [DecidableLE α] [OfScientific α] [Inhabited α] [RFun α]

theorem uniform_cdf_below_min_all (d : Uniform α) {x : α} (hx : x ≤ d.f_min) :
    Uniform.cdf d x = (0.0 : α) := by
  unfold Uniform.cdf; rw [if_pos hx]

theorem uniform_cdf_above_max_all (d : Uniform α) {x : α} (hx0 : ¬ x ≤ d.f_min)
    (hx : d.f_max ≤ x) : Uniform.cdf d x = (1.0 : α) := by
  unfold Uniform.cdf; rw [if_neg hx0, if_pos hx]

theorem exp_cdf_below_min_all (d : Exp α) {x : α} (hx : x < (0.0 : α)) :
    Exp.cdf d x = (0.0 : α) := by
  unfold Exp.cdf; rw [if_pos hx]

theorem pareto_cdf_below_min_all (d : Pareto α) {x : α} (hx : x < d.f_scale) :
    Pareto.cdf d x = (0.0 : α) := by
  unfold Pareto.cdf; rw [if_pos hx]

theorem triangular_cdf_below_min_all (d : Triangular α) {x : α} (hx : x ≤ d.f_min) :
    Triangular.cdf d x = (0.0 : α) := by
  unfold Triangular.cdf; simp only [if_pos hx]

theorem weibull_cdf_below_min_all (d : Weibull α) {x : α} (hx : x < (0.0 : α)) :
    Weibull.cdf d x = (0.0 : α) := by
  unfold Weibull.cdf; rw [if_pos hx]

theorem dirac_cdf_below_min_all (d : Dirac α) {x : α} (hx : x < d.f_0) :
    Dirac.cdf d x = (0.0 : α) := by
  unfold Dirac.cdf; rw [if_pos hx]

theorem dirac_cdf_above_max_all (d : Dirac α) {x : α} (hx : ¬ x < d.f_0) :
    Dirac.cdf d x = (1.0 : α) := by
  unfold Dirac.cdf; rw [if_neg hx]

end AllCarriers

end Statrs.Props.C01
