/-
  C01 — cdf is a distribution function — erfc-based families (Normal, LogNormal, Levy),
  RELATIVE to the premise structure `Statrs.Spec.Erfc.ErfcSpec` about the abstract `SF.erfc`
  (erfc antitone, 0 ≤ erfc ≤ 2, erfc (-z) = 2 - erfc z).  Strength tag: rel(ErfcSpec).
  Hypotheses on the struct fields are exactly the constructors' acceptance predicates over ℝ
  (NaN / infinity checks are vacuous over ℝ).
-/
import Statrs.Lemmas.ClosedCdfErfc
import Statrs.Spec.SFSpec_erfc
namespace Statrs.Props.C01
open Statrs Statrs.Gen Statrs.Lemmas.ClosedCdfErfc Statrs.Spec.Erfc
variable [SF ℝ]

/-! ### Normal — `new` accepts iff 0 < std_dev (support is all of ℝ) -/

theorem normal_cdf_nonneg_rel (S : ErfcSpec) (d : Normal ℝ) (x : ℝ) : 0 ≤ Normal.cdf d x := by
  rw [normal_cdf_eq]; have := S.erfc_nonneg ((d.f_mean - x) / (d.f_std_dev * Real.sqrt 2))
  linarith

theorem normal_cdf_le_one_rel (S : ErfcSpec) (d : Normal ℝ) (x : ℝ) : Normal.cdf d x ≤ 1 := by
  rw [normal_cdf_eq]; have := S.erfc_le_two ((d.f_mean - x) / (d.f_std_dev * Real.sqrt 2))
  linarith

theorem normal_cdf_mono_rel (S : ErfcSpec) (d : Normal ℝ) (h : 0 < d.f_std_dev) {x y : ℝ}
    (hxy : x ≤ y) : Normal.cdf d x ≤ Normal.cdf d y := by
  rw [normal_cdf_eq, normal_cdf_eq]
  have hk : 0 < d.f_std_dev * Real.sqrt 2 := mul_pos h sqrt_two_pos
  have := S.erfc_anti ((d.f_mean - y) / (d.f_std_dev * Real.sqrt 2))
    ((d.f_mean - x) / (d.f_std_dev * Real.sqrt 2))
    (div_le_div_of_nonneg_right (by linarith) hk.le)
  linarith

example : ∃ d : Normal ℝ, 0 < d.f_std_dev := ⟨⟨0, 1⟩, by norm_num⟩

/-! ### LogNormal — `new` accepts iff 0 < scale; support minimum is 0 -/

theorem log_normal_cdf_nonneg_rel (S : ErfcSpec) (d : LogNormal ℝ) (x : ℝ) :
    0 ≤ LogNormal.cdf d x := by
  rw [log_normal_cdf_eq]
  split_ifs
  · exact le_rfl
  · have := S.erfc_nonneg ((d.f_location - Real.log x) / (d.f_scale * Real.sqrt 2)); linarith

theorem log_normal_cdf_le_one_rel (S : ErfcSpec) (d : LogNormal ℝ) (x : ℝ) :
    LogNormal.cdf d x ≤ 1 := by
  rw [log_normal_cdf_eq]
  split_ifs
  · exact zero_le_one
  · have := S.erfc_le_two ((d.f_location - Real.log x) / (d.f_scale * Real.sqrt 2)); linarith

theorem log_normal_cdf_mono_rel (S : ErfcSpec) (d : LogNormal ℝ) (h : 0 < d.f_scale) {x y : ℝ}
    (hxy : x ≤ y) : LogNormal.cdf d x ≤ LogNormal.cdf d y := by
  by_cases hx : x ≤ 0
  · have : LogNormal.cdf d x = 0 := by rw [log_normal_cdf_eq, if_pos hx]
    rw [this]; exact log_normal_cdf_nonneg_rel S d y
  · have hy : ¬ y ≤ 0 := by linarith
    rw [log_normal_cdf_eq, log_normal_cdf_eq, if_neg hx, if_neg hy]
    have hk : 0 < d.f_scale * Real.sqrt 2 := mul_pos h sqrt_two_pos
    have hlog : Real.log x ≤ Real.log y := Real.log_le_log (not_le.mp hx) hxy
    have := S.erfc_anti ((d.f_location - Real.log y) / (d.f_scale * Real.sqrt 2))
      ((d.f_location - Real.log x) / (d.f_scale * Real.sqrt 2))
      (div_le_div_of_nonneg_right (by linarith) hk.le)
    linarith

/-- cdf is 0 at and below the support minimum 0 (pure branch logic: no premise needed) -/
theorem log_normal_cdf_below_min (d : LogNormal ℝ) {x : ℝ} (hx : x ≤ 0) :
    LogNormal.cdf d x = 0 := by
  rw [log_normal_cdf_eq, if_pos hx]

example : ∃ d : LogNormal ℝ, 0 < d.f_scale := ⟨⟨0, 1⟩, by norm_num⟩

/-! ### Levy — `new` accepts iff 0 < c (mu, c finite: vacuous over ℝ); support minimum is mu -/

theorem levy_cdf_nonneg_rel (S : ErfcSpec) (d : Levy ℝ) (x : ℝ) : 0 ≤ Levy.cdf d x := by
  rw [levy_cdf_eq]
  split_ifs
  · exact le_rfl
  · exact S.erfc_nonneg _

theorem levy_cdf_le_one_rel (S : ErfcSpec) (d : Levy ℝ) (x : ℝ) : Levy.cdf d x ≤ 1 := by
  rw [levy_cdf_eq]
  split_ifs
  · exact zero_le_one
  · exact S.erfc_le_one_of_nonneg (Real.sqrt_nonneg _)

theorem levy_cdf_mono_rel (S : ErfcSpec) (d : Levy ℝ) (h : 0 < d.f_c) {x y : ℝ}
    (hxy : x ≤ y) : Levy.cdf d x ≤ Levy.cdf d y := by
  by_cases hx : x ≤ d.f_mu
  · have : Levy.cdf d x = 0 := by rw [levy_cdf_eq, if_pos hx]
    rw [this]; exact levy_cdf_nonneg_rel S d y
  · have hy : ¬ y ≤ d.f_mu := by linarith
    rw [levy_cdf_eq, levy_cdf_eq, if_neg hx, if_neg hy]
    apply S.erfc_anti
    apply Real.sqrt_le_sqrt
    have hx' : 0 < x - d.f_mu := by linarith
    apply div_le_div_of_nonneg_left (by linarith) hx' (by linarith)

/-- cdf is 0 at and below the support minimum mu (pure branch logic: no premise needed) -/
theorem levy_cdf_below_min (d : Levy ℝ) {x : ℝ} (hx : x ≤ d.f_mu) : Levy.cdf d x = 0 := by
  rw [levy_cdf_eq, if_pos hx]

example : ∃ d : Levy ℝ, 0 < d.f_c := ⟨⟨0, 1⟩, by norm_num⟩

end Statrs.Props.C01

/-! ### Branch-logic facts for every carrier α (hence also for IEEE `Float`) -/
namespace Statrs.Props.C01
open Statrs Statrs.Gen
section AllCarriers
variable {α : Type} [Add α] [Sub α] [Mul α] [Div α] [Neg α] [LT α] [LE α] [BEq α]
  [DecidableLT α] [DecidableLE α] [OfScientific α] [Inhabited α] [RFun α] [SF α]

theorem log_normal_cdf_below_min_all (d : LogNormal α) {x : α} (hx : x ≤ (0.0 : α)) :
    LogNormal.cdf d x = (0.0 : α) := by
  unfold LogNormal.cdf; rw [if_pos hx]

theorem levy_cdf_below_min_all (d : Levy α) {x : α} (hx : x ≤ d.f_mu) :
    Levy.cdf d x = (0.0 : α) := by
  unfold Levy.cdf; rw [if_pos hx]

end AllCarriers
end Statrs.Props.C01
