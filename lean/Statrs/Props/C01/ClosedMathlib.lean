/-
  C01 (identification with Mathlib's measures) — for Exp, Pareto, Cauchy the generated `cdf`
  over ℝ IS the distribution function `ProbabilityTheory.cdf μ` of Mathlib's probability measure
  with the same parameters, for every constructed object and every argument.  full(ℝ).
  (So for these three families C01 — range, monotonicity, limits 0 / 1 at ∓∞, right-continuity —
  also follows from Mathlib's `ProbabilityTheory.cdf` API.)
-/
import Statrs.Lemmas.ClosedCdf
import Statrs.Lemmas.ClosedCdfMathlib
namespace Statrs.Props.C01
open Statrs Statrs.Gen Statrs.Lemmas.ClosedCdf Statrs.Lemmas.ClosedCdfMathlib
open MeasureTheory ProbabilityTheory
open scoped NNReal

/-- Exp: cdf is the cdf of Mathlib's `expMeasure rate` (rate > 0 is what `new` enforces) -/
theorem exp_cdf_eq_mathlib (d : Exp ℝ) (h : 0 < d.f_rate) (x : ℝ) :
    Exp.cdf d x = cdf (expMeasure d.f_rate) x := by
  rw [exp_cdf_eq, cdf_expMeasure_eq h]
  split_ifs with h1 h2 h2
  · exfalso; linarith
  · rfl
  · congr 2; ring
  · exfalso; linarith

example : ∃ d : Exp ℝ, 0 < d.f_rate := ⟨⟨1⟩, by norm_num⟩

/-- Pareto: cdf is the cdf of Mathlib's `paretoMeasure scale shape` -/
theorem pareto_cdf_eq_mathlib (d : Pareto ℝ) (hs : 0 < d.f_scale) (hk : 0 < d.f_shape) (x : ℝ) :
    Pareto.cdf d x = cdf (paretoMeasure d.f_scale d.f_shape) x := by
  rw [pareto_cdf_eq, cdf_paretoMeasure_eq' hs hk]

example : ∃ d : Pareto ℝ, 0 < d.f_scale ∧ 0 < d.f_shape := ⟨⟨1, 1⟩, by norm_num⟩

/-- Cauchy: cdf is the cdf of Mathlib's `cauchyMeasure location scale` (scale as an `ℝ≥0`) -/
theorem cauchy_cdf_eq_mathlib (d : Cauchy ℝ) (h : 0 < d.f_scale) (x : ℝ) :
    Cauchy.cdf d x = cdf (cauchyMeasure d.f_location ⟨d.f_scale, h.le⟩) x := by
  have hγ : (⟨d.f_scale, h.le⟩ : ℝ≥0) ≠ 0 := NNReal.coe_ne_zero.mp h.ne'
  rw [cauchy_cdf_eq, cdf_cauchyMeasure_eq' _ hγ]
  rfl

example : ∃ d : Cauchy ℝ, 0 < d.f_scale := ⟨⟨0, 1⟩, by norm_num⟩

end Statrs.Props.C01
