/-
  C01 — "cdf(x) is a number in [0,1], never decreases when x increases, is 0 below the support
  minimum, and is 1 at and above the support maximum" — for Bernoulli, DiscreteUniform, Geometric.

  Carrier ℝ; all theorems full(ℝ), no premises (`Bernoulli::cdf` is the closed form `1 − p`; only
  its `sf` goes through `beta_reg`, see C02/Discrete).
  Arguments: `k : ℤ`, `0 ≤ k` for the `u64` families (Bernoulli, Geometric; nothing lies below a
  support minimum of 0); every `k : ℤ` for DiscreteUniform (`i64`).

  Geometric's `max()` is `u64::MAX`, standing for +∞: in exact arithmetic the cdf stays < 1 there
  (`geometric_cdf_lt_one`, `geometric_cdf_at_max_counterexample`) — that clause of C01 can only
  hold after rounding, and is not a defect of the code.
-/
import Statrs.Props.C02.Discrete
namespace Statrs.Props.C01
open Statrs Statrs.Gen Statrs.Lemmas.SpecialCdf

/-! ## Bernoulli (0 ≤ p ≤ 1; support {0, 1}) -/

/-- Bernoulli: 0 ≤ cdf ≤ 1 -/
theorem bernoulli_cdf_range (d : Bernoulli ℝ) (hp0 : 0 ≤ d.f_b.f_p) (hp1 : d.f_b.f_p ≤ 1) (k : ℤ) :
    0 ≤ Bernoulli.cdf d k ∧ Bernoulli.cdf d k ≤ 1 := by
  rw [bernoulli_cdf_real]; split_ifs
  · norm_num
  · constructor <;> linarith

/-- Bernoulli: cdf never decreases in k -/
theorem bernoulli_cdf_mono (d : Bernoulli ℝ) (hp0 : 0 ≤ d.f_b.f_p) (j k : ℤ) (hjk : j ≤ k) :
    Bernoulli.cdf d j ≤ Bernoulli.cdf d k := by
  rw [bernoulli_cdf_real, bernoulli_cdf_real]
  split_ifs with hj hk hk
  · exact le_rfl
  · omega
  · linarith
  · exact le_rfl

/-- Bernoulli: cdf = 1 at and above the support maximum 1 -/
theorem bernoulli_cdf_above_max (d : Bernoulli ℝ) (k : ℤ) (hk : Bernoulli.max d ≤ k) :
    Bernoulli.cdf d k = 1 := by
  rw [bernoulli_cdf_real, if_pos (by simpa [Bernoulli.max] using hk)]

/-- Bernoulli: cdf at the support minimum 0 is P(X = 0) = 1 − p -/
theorem bernoulli_cdf_at_min (d : Bernoulli ℝ) : Bernoulli.cdf d (Bernoulli.min d) = 1 - d.f_b.f_p := by
  rw [bernoulli_cdf_real, if_neg (by simp [Bernoulli.min])]

example : ∃ d : Bernoulli ℝ, d.f_b.f_n = 1 ∧ 0 ≤ d.f_b.f_p ∧ d.f_b.f_p ≤ 1 :=
  ⟨⟨⟨0.3, 1⟩⟩, rfl, by norm_num, by norm_num⟩

/-! ## DiscreteUniform (min ≤ max; support {min..max}) -/

/-- DiscreteUniform: 0 ≤ cdf ≤ 1 -/
theorem discrete_uniform_cdf_range (d : DiscreteUniform) (h : d.f_min ≤ d.f_max) (k : ℤ) :
    0 ≤ DiscreteUniform.cdf (α := ℝ) d k ∧ DiscreteUniform.cdf (α := ℝ) d k ≤ 1 := by
  have := C02.discrete_uniform_cdf_add_sf d h k
  have := C02.discrete_uniform_sf_range d h k
  constructor <;> linarith

/-- DiscreteUniform: cdf never decreases in k -/
theorem discrete_uniform_cdf_mono (d : DiscreteUniform) (h : d.f_min ≤ d.f_max) (j k : ℤ)
    (hjk : j ≤ k) : DiscreteUniform.cdf (α := ℝ) d j ≤ DiscreteUniform.cdf (α := ℝ) d k := by
  have := C02.discrete_uniform_cdf_add_sf d h j
  have := C02.discrete_uniform_cdf_add_sf d h k
  have := C02.discrete_uniform_sf_antitone d h j k hjk
  linarith

/-- DiscreteUniform: cdf = 0 below the support minimum -/
theorem discrete_uniform_cdf_below_min (d : DiscreteUniform) (h : d.f_min ≤ d.f_max) (k : ℤ)
    (hk : k < DiscreteUniform.min (α := ℝ) d) : DiscreteUniform.cdf (α := ℝ) d k = 0 := by
  rw [C02.discrete_uniform_cdf_real d h, if_pos (by simpa [DiscreteUniform.min] using hk)]

/-- DiscreteUniform: cdf = 1 at and above the support maximum -/
theorem discrete_uniform_cdf_above_max (d : DiscreteUniform) (h : d.f_min ≤ d.f_max) (k : ℤ)
    (hk : DiscreteUniform.max (α := ℝ) d ≤ k) : DiscreteUniform.cdf (α := ℝ) d k = 1 := by
  have hk' : d.f_max ≤ k := by simpa [DiscreteUniform.max] using hk
  rw [C02.discrete_uniform_cdf_real d h, if_neg (by omega), if_pos hk']

/-- DiscreteUniform: inside the support the cdf is the counting formula (k − min + 1)/(max − min + 1) -/
theorem discrete_uniform_cdf_inside (d : DiscreteUniform) (h : d.f_min ≤ d.f_max) (k : ℤ)
    (h1 : d.f_min ≤ k) (h2 : k ≤ d.f_max) :
    DiscreteUniform.cdf (α := ℝ) d k = ((k : ℝ) - d.f_min + 1) / ((d.f_max : ℝ) - d.f_min + 1) := by
  rw [C02.discrete_uniform_cdf_real d h, if_neg (by omega)]
  split_ifs with h3
  · have : k = d.f_max := by omega
    subst this
    have : (d.f_min : ℝ) ≤ d.f_max := by exact_mod_cast h
    rw [div_self (by linarith)]
  · rfl

example : ∃ d : DiscreteUniform, d.f_min ≤ d.f_max := ⟨⟨-2, 5⟩, by decide⟩

/-! ## Geometric (0 < p ≤ 1; support {1, 2, …}; argument u64) -/

/-- Geometric: 0 ≤ cdf ≤ 1 -/
theorem geometric_cdf_range (d : Geometric ℝ) (hp0 : 0 < d.f_p) (hp1 : d.f_p ≤ 1) (k : ℤ)
    (hk : 0 ≤ k) : 0 ≤ Geometric.cdf d k ∧ Geometric.cdf d k ≤ 1 := by
  have := C02.geometric_cdf_add_sf d k
  have := C02.geometric_sf_range d hp0 hp1 k hk
  constructor <;> linarith

/-- Geometric: cdf never decreases in k -/
theorem geometric_cdf_mono (d : Geometric ℝ) (hp0 : 0 < d.f_p) (hp1 : d.f_p ≤ 1) (j k : ℤ)
    (hj : 0 ≤ j) (hjk : j ≤ k) : Geometric.cdf d j ≤ Geometric.cdf d k := by
  have := C02.geometric_cdf_add_sf d j
  have := C02.geometric_cdf_add_sf d k
  have := C02.geometric_sf_antitone d hp0 hp1 j k hj hjk
  linarith

/-- Geometric: cdf = 0 below the support minimum 1 (the only u64 there is 0) -/
theorem geometric_cdf_below_min (d : Geometric ℝ) (k : ℤ) (hk0 : 0 ≤ k) (hk : k < Geometric.min d) :
    Geometric.cdf d k = 0 := by
  have : k = 0 := by simp [Geometric.min] at hk; omega
  rw [C02.geometric_cdf_real, if_pos this]

/-- Geometric: cdf k = 1 − (1−p)^k = P(X ≤ k) for P(X = i) = (1−p)^{i−1} p on {1,2,…} (p < 1) -/
theorem geometric_cdf_eq_pow (d : Geometric ℝ) (hp0 : 0 < d.f_p) (hp1 : d.f_p < 1) (k : ℤ) :
    Geometric.cdf d k = 1 - (1 - d.f_p) ^ k := by
  have := C02.geometric_cdf_add_sf d k
  have := C02.geometric_sf_eq_pow d hp0 hp1 k
  linarith

/-- Geometric: over ℝ the cdf never reaches 1 -/
theorem geometric_cdf_lt_one (d : Geometric ℝ) (k : ℤ) : Geometric.cdf d k < 1 := by
  have := C02.geometric_cdf_add_sf d k
  have h := C02.geometric_sf_real' d k
  have := Real.exp_pos (Real.log (1 + -d.f_p) * k)
  linarith

/-- "cdf = 1 at the support maximum" is false in exact arithmetic for Geometric, whose `max()` is
    `u64::MAX` (a stand-in for +∞): at p = 1/2 the value is 1 − 2^(−(2^64−1)) ≠ 1. -/
theorem geometric_cdf_at_max_counterexample :
    ∃ d : Geometric ℝ, 0 < d.f_p ∧ d.f_p ≤ 1 ∧ Geometric.cdf d (Geometric.max d) ≠ 1 :=
  ⟨⟨0.5⟩, by norm_num, by norm_num, (geometric_cdf_lt_one _ _).ne⟩

example : ∃ d : Geometric ℝ, 0 < d.f_p ∧ d.f_p ≤ 1 := ⟨⟨0.25⟩, by norm_num, by norm_num⟩

end Statrs.Props.C01
