/-
  C01/C02/C03 (float level) — `Bernoulli` on every carrier satisfying the IEEE order laws.
  `cdf` is closed form (`1` for `x ≥ 1`, `1 − p` otherwise): never NaN, in `[0,1]`, monotone, `1` at/above
  the maximum.  `sf` and `pmf` delegate to `Binomial` (regularised incomplete beta / `ln_binomial` + `exp`):
  only their closed-form branches are covered (`sf = 0` at/above the maximum, `pmf = 0` above it, `pmf` for
  `p == 0`); the remaining branch needs laws about the special functions — left out.
  Hypotheses: what `Bernoulli.new` guarantees (`n = 1`, `0 ≤ p ≤ 1`, hence `p` not NaN).
-/
import Statrs.Gen.D_bernoulli
import Statrs.Lemmas.FloatLawsBasic
set_option linter.unusedSectionVars false
namespace Statrs.Props.C01
open Statrs Statrs.Gen Statrs.Spec

section
variable {α : Type} [Add α] [Sub α] [Mul α] [Div α] [Neg α] [LT α] [LE α] [BEq α]
  [DecidableLT α] [DecidableLE α] [OfScientific α] [Inhabited α] [RFun α]
variable (L : FloatLaws α) (d : Bernoulli α) (hp0 : (0.0 : α) ≤ d.f_b.f_p) (hp1 : d.f_b.f_p ≤ (1.0 : α))
include L hp0 hp1

/-- full(∀α): `0 ≤ cdf x ≤ 1` for every integer `x` -/
theorem bernoulli_cdf_mem_unit (x : Int) :
    (0.0 : α) ≤ Bernoulli.cdf d x ∧ Bernoulli.cdf d x ≤ (1.0 : α) := by
  unfold Bernoulli.cdf Binomial.p
  split_ifs
  · exact ⟨L.zero_le_one, L.one_le_one⟩
  · exact L.one_sub_mem_unit hp0 hp1

/-- full(∀α): `cdf x` is never NaN -/
theorem bernoulli_cdf_nn (x : Int) : NN (Bernoulli.cdf d x) :=
  L.le_nnr (bernoulli_cdf_mem_unit L d hp0 hp1 x).1

/-- full(∀α): exact monotonicity in the integer argument -/
theorem bernoulli_cdf_mono_fl {x y : Int} (hxy : x ≤ y) : Bernoulli.cdf d x ≤ Bernoulli.cdf d y := by
  by_cases hy : (1 : Int) ≤ y
  · have : Bernoulli.cdf d y = (1.0 : α) := by unfold Bernoulli.cdf; rw [if_pos hy]
    rw [this]; exact (bernoulli_cdf_mem_unit L d hp0 hp1 x).2
  · have hx : ¬ (1 : Int) ≤ x := by omega
    have : Bernoulli.cdf d x = Bernoulli.cdf d y := by unfold Bernoulli.cdf; rw [if_neg hx, if_neg hy]
    rw [this]; exact L.le_rfl' (bernoulli_cdf_nn L d hp0 hp1 y)

omit L hp0 hp1 in
/-- full(∀α): `cdf x = 1` (the literal) at and above the maximum `1` -/
theorem bernoulli_cdf_above {x : Int} (h : 1 ≤ x) : Bernoulli.cdf d x = (1.0 : α) := by
  unfold Bernoulli.cdf; rw [if_pos h]

omit L hp0 hp1 in
/-- full(∀α): `cdf 0 = 1 − p`.  NOTE: the same value is returned for every `x < 1`; the Rust argument is a
    `u64`, so `x < 0` cannot occur there — in the model (`Int`) `cdf (−1) = 1 − p`, not `0`. -/
theorem bernoulli_cdf_zero {x : Int} (h : x < 1) : Bernoulli.cdf d x = (1.0 : α) - d.f_b.f_p := by
  unfold Bernoulli.cdf Binomial.p; rw [if_neg (by omega)]

end

section sf_pmf
variable {α : Type} [Add α] [Sub α] [Mul α] [Div α] [Neg α] [LT α] [LE α] [BEq α]
  [DecidableLT α] [DecidableLE α] [OfScientific α] [Inhabited α] [RFun α] [SF α]
variable (d : Bernoulli α) (hn : d.f_b.f_n = 1)
include hn

/-- partial(closed-form branch only; `sf 0 = beta_reg(1, 1, p)` needs special-function laws):
    `sf x = 0` (the literal) at and above the maximum, so `(cdf x, sf x) = (1, 0)` there -/
theorem bernoulli_sf_above_partial {x : Int} (h : 1 ≤ x) :
    Bernoulli.sf d x = (0.0 : α) ∧ Bernoulli.cdf d x = (1.0 : α) := by
  refine ⟨?_, bernoulli_cdf_above d h⟩
  unfold Bernoulli.sf Binomial.sf; rw [if_pos (by omega)]

/-- partial(closed-form branches only): `pmf x = 0` (the literal) above the maximum -/
theorem bernoulli_pmf_above_partial {x : Int} (h : 1 < x) : Bernoulli.pmf d x = (0.0 : α) := by
  unfold Bernoulli.pmf Binomial.pmf; rw [if_pos (by omega)]

/-- partial(closed-form branches only): for `p == 0` the pmf is the indicator of `0` -/
theorem bernoulli_pmf_p_zero_partial (hp : (d.f_b.f_p == (0.0 : α)) = true) {x : Int} (h : x ≤ 1) :
    Bernoulli.pmf d x = if x = 0 then (1.0 : α) else (0.0 : α) := by
  unfold Bernoulli.pmf Binomial.pmf; rw [if_neg (by omega), if_pos hp]

end sf_pmf
end Statrs.Props.C01
