/-
  C01 (float level) — `Categorical.cdf` on every carrier satisfying the IEEE order laws (+ `ExtraLaws`).
  The cdf table built by `Categorical::new` (hand model `Model.Categorical.new`, running sums of the
  masses) is non-negative and non-decreasing; hence for every index `0 ≤ x`:
  `cdf x` is not NaN, in `[0,1]`, monotone (exactly), `1` (literal) at/above the table length and `== 1`
  at the last index.

  Hypotheses: the table conditions `CatTableOK` — all of them are PROVED from `Categorical.new pm = .ok c`
  (`categorical_new_tableOK`) except `Fin cdf_max`: the constructor accepts `+∞` masses and sums that
  overflow, and then `cdf` returns NaN (`categorical_cdf_inf_counterexample`: `Categorical::new(&[∞, 1.0])`
  is `Ok`, `cdf(0) = ∞/∞`).
  (The Rust argument is a `u64`; for `x < 0` the model's `listGet?` is `none` = Rust's out-of-range — not covered.)
-/
import Statrs.Lemmas.FloatCategorical
import Statrs.Inst.Float
set_option linter.unusedSectionVars false
namespace Statrs.Props.C01
open Statrs Statrs.Gen Statrs.Spec Statrs.Model Statrs.Lemmas.FloatCat

section
variable {α : Type} [Add α] [Sub α] [Mul α] [Div α] [Neg α] [LT α] [LE α] [BEq α]
  [DecidableLT α] [DecidableLE α] [OfScientific α] [Inhabited α] [RFun α]

/-- the conditions on the cdf table of a `Categorical` that the range/monotonicity proofs use -/
structure CatTableOK (c : Categorical α) : Prop where
  nonempty : c.f_cdf ≠ []
  nonneg : ∀ e ∈ c.f_cdf, (0.0 : α) ≤ e
  sorted : c.f_cdf.Pairwise (· ≤ ·)
  max_pos : (0.0 : α) < Categorical.cdf_max c
  /-- the total mass is finite (NOT checked by `Categorical::new`) -/
  max_fin : Spec.Fin (Categorical.cdf_max c)

omit [Add α] [Sub α] [Mul α] [Div α] [Neg α] [LT α] [LE α] [BEq α] [DecidableLT α] [DecidableLE α]
  [OfScientific α] [RFun α] in
/-- in-range table access -/
theorem cat_listGet {l : List α} {x : Int} (h0 : 0 ≤ x) (h1 : x < listLen l) :
    unwrapO (listGet? l x) = l[x.toNat]'(by unfold listLen at h1; omega) := by
  have hlt : x.toNat < l.length := by unfold listLen at h1; omega
  unfold listGet?
  rw [if_neg (by omega), List.getElem?_eq_getElem hlt]; rfl

/-- full(∀α): `cdf_max` is the last table entry -/
theorem cat_cdf_max_eq (c : Categorical α) (h : c.f_cdf ≠ []) :
    Categorical.cdf_max c = c.f_cdf[c.f_cdf.length - 1]'(by
      have := List.length_pos_of_ne_nil h; omega) := by
  unfold Categorical.cdf_max
  rw [List.getLast?_eq_some_getLast h, List.getLast_eq_getElem]; rfl

variable (L : FloatLaws α) (c : Categorical α) (ok : CatTableOK c)
include L ok

/-- full(∀α): table entries are ordered by index: `i ≤ j ⇒ cdf[i] ≤ cdf[j]` -/
theorem cat_table_mono {i j : Nat} (hij : i ≤ j) (hj : j < c.f_cdf.length) :
    c.f_cdf[i]'(by omega) ≤ c.f_cdf[j] := by
  rcases Nat.lt_or_eq_of_le hij with h | h
  · exact (List.pairwise_iff_getElem.1 ok.sorted) i j (by omega) hj h
  · subst h; exact L.le_rfl' (L.le_nnr (ok.nonneg _ (List.getElem_mem hj)))

/-- full(∀α): every table entry is in `[0, cdf_max]` -/
theorem cat_table_bounds {i : Nat} (hi : i < c.f_cdf.length) :
    (0.0 : α) ≤ c.f_cdf[i] ∧ c.f_cdf[i] ≤ Categorical.cdf_max c := by
  refine ⟨ok.nonneg _ (List.getElem_mem hi), ?_⟩
  rw [cat_cdf_max_eq c ok.nonempty]
  exact cat_table_mono L c ok (by omega) (by omega)

omit L ok in
/-- the in-range branch of `Categorical.cdf` -/
theorem cat_cdf_eq {x : Int} (h0 : 0 ≤ x) (h1 : x < listLen c.f_cdf) :
    Categorical.cdf c x = c.f_cdf[x.toNat]'(by unfold listLen at h1; omega) / Categorical.cdf_max c := by
  unfold Categorical.cdf
  rw [if_neg (by omega), cat_listGet h0 h1]

omit L ok in
/-- full(∀α): `cdf x = 1` (the literal) at and above the table length (= above the maximum `len − 1`) -/
theorem categorical_cdf_above {x : Int} (h : listLen c.f_cdf ≤ x) : Categorical.cdf c x = (1.0 : α) := by
  unfold Categorical.cdf; rw [if_pos h]

/-- full(∀α): `0 ≤ cdf x ≤ 1` for every index `0 ≤ x` -/
theorem categorical_cdf_mem_unit {x : Int} (h0 : 0 ≤ x) :
    (0.0 : α) ≤ Categorical.cdf c x ∧ Categorical.cdf c x ≤ (1.0 : α) := by
  by_cases h1 : listLen c.f_cdf ≤ x
  · rw [categorical_cdf_above c h1]; exact ⟨L.zero_le_one, L.one_le_one⟩
  · rw [cat_cdf_eq c h0 (by omega)]
    obtain ⟨a, b⟩ := cat_table_bounds L c ok (i := x.toNat) (by unfold listLen at h1; omega)
    exact L.div_mem_unit a b ok.max_pos ok.max_fin

/-- full(∀α): `cdf x` is not NaN for every index `0 ≤ x` -/
theorem categorical_cdf_nn {x : Int} (h0 : 0 ≤ x) : NN (Categorical.cdf c x) :=
  L.le_nnr (categorical_cdf_mem_unit L c ok h0).1

/-- full(∀α): EXACT float monotonicity in the index -/
theorem categorical_cdf_mono {x y : Int} (h0 : 0 ≤ x) (hxy : x ≤ y) :
    Categorical.cdf c x ≤ Categorical.cdf c y := by
  by_cases h1 : listLen c.f_cdf ≤ y
  · rw [categorical_cdf_above c h1]; exact (categorical_cdf_mem_unit L c ok h0).2
  · have hy : y.toNat < c.f_cdf.length := by unfold listLen at h1; omega
    rw [cat_cdf_eq c h0 (by omega), cat_cdf_eq c (by omega) (by omega)]
    have hle := cat_table_mono L c ok (i := x.toNat) (j := y.toNat) (by omega) hy
    have hq1 := L.div_mem_unit (cat_table_bounds L c ok (i := x.toNat) (by omega)).1
      (cat_table_bounds L c ok (i := x.toNat) (by omega)).2 ok.max_pos ok.max_fin
    have hq2 := L.div_mem_unit (cat_table_bounds L c ok (i := y.toNat) hy).1
      (cat_table_bounds L c ok (i := y.toNat) hy).2 ok.max_pos ok.max_fin
    exact L.mono.div_le_div_right _ _ _ hle ok.max_pos (L.le_nnr hq1.1) (L.le_nnr hq2.1)

/-- full(∀α): at the maximum `len − 1` the value is `cdf_max / cdf_max == 1` -/
theorem categorical_cdf_at_max :
    (Categorical.cdf c (listLen c.f_cdf - 1) == (1.0 : α)) = true := by
  have hpos := List.length_pos_of_ne_nil ok.nonempty
  rw [cat_cdf_eq c (by unfold listLen; omega) (by omega)]
  have : c.f_cdf[(listLen c.f_cdf - 1).toNat]'(by unfold listLen; omega) = Categorical.cdf_max c := by
    rw [cat_cdf_max_eq c ok.nonempty]; congr 1; unfold listLen; omega
  rw [this]
  exact L.exact.div_self _ ok.max_fin (L.pos_not_beq_zero ok.max_pos)

end

section ctor
variable {α : Type} [Add α] [Sub α] [Mul α] [Div α] [Neg α] [LT α] [LE α] [BEq α]
  [DecidableLT α] [DecidableLE α] [OfScientific α] [Inhabited α] [RFun α]
variable (L : FloatLaws α) (E : ExtraLaws α)
include L E

/-- what the hand model of `Categorical::new` establishes: the masses are non-negative (not NaN), the
    tables are the running sums / their complements / the normalised masses, the total is positive -/
theorem categorical_new_spec (pm : List α) (c : Categorical α) (h : Model.Categorical.new pm = .ok c) :
    pm ≠ [] ∧ (∀ p ∈ pm, (0.0 : α) ≤ p) ∧ c.f_cdf = runSums (0.0 : α) pm ∧
    c.f_sf = D.categorical.cdf_to_sf c.f_cdf ∧
    c.f_norm_pmf = pm.map (fun p => p / Categorical.cdf_max c) ∧
    (0.0 : α) < Categorical.cdf_max c := by
  unfold Model.Categorical.new at h
  split_ifs at h with he
  split at h
  · cases h
  · rename_i s hs
    split_ifs at h with hz
    obtain ⟨hv, hr⟩ := newLoop_some pm _ _ hs
    have hne : pm ≠ [] := by intro h'; simp [h'] at he
    have hnn : ∀ p ∈ pm, (0.0 : α) ≤ p := fun p hp =>
      L.le_of_not_lt (hv p hp).1 L.zero_nn (hv p hp).2
    have hrs : runSums (0.0 : α) pm ≠ [] := by
      intro h'; have := congrArg List.length h'; rw [runSums_length] at this
      exact hne (List.eq_nil_of_length_eq_zero (by simpa using this))
    injection h with h
    have h1 : c.f_cdf = runSums (0.0 : α) pm := by rw [← h]; exact prob_mass_to_cdf_eq pm
    have h2 : c.f_sf = D.categorical.cdf_to_sf c.f_cdf := by rw [← h]
    have hlen : 0 < (runSums (0.0 : α) pm).length := List.length_pos_of_ne_nil hrs
    have hidx : unwrapO (listGet? (prob_mass_to_cdf pm) (usub (listLen (prob_mass_to_cdf pm)) 1)) = s := by
      simp only [prob_mass_to_cdf_eq]
      have hu : usub (listLen (runSums (0.0 : α) pm)) 1 = ((runSums (0.0 : α) pm).length - 1 : Nat) := by
        unfold usub listLen; rw [if_neg (by omega)]; omega
      rw [hu, cat_listGet (by omega) (by unfold listLen; omega), hr, List.getLast_cons hrs,
        List.getLast_eq_getElem]
      congr 1
    have hmax : Categorical.cdf_max c = s := by
      unfold Categorical.cdf_max
      rw [h1, hr, List.getLast_cons hrs, List.getLast?_eq_some_getLast hrs]; rfl
    have h3 : c.f_norm_pmf = pm.map (fun p => p / Categorical.cdf_max c) := by
      rw [hmax, ← hidx, ← h]
    refine ⟨hne, hnn, h1, h2, h3, ?_⟩
    · rw [hmax]
      have h0 : (0.0 : α) ≤ s := by
        rw [hr, List.getLast_cons hrs]
        exact runSums_ge L E pm _ L.zero_le_zero hnn _ (List.getLast_mem hrs)
      rcases L.lt_or_beq_of_le h0 with h1 | h1
      · exact h1
      · exact absurd (L.beq_symm h1) hz

/-- full(∀α): every `Categorical` built by `new` whose total mass is finite satisfies `CatTableOK` -/
theorem categorical_new_tableOK (pm : List α) (c : Categorical α) (h : Model.Categorical.new pm = .ok c)
    (hfin : Spec.Fin (Categorical.cdf_max c)) : CatTableOK c := by
  obtain ⟨hne, hnn, hcdf, _, _, hpos⟩ := categorical_new_spec L E pm c h
  have hrs : runSums (0.0 : α) pm ≠ [] := by
    intro h'; have := congrArg List.length h'; rw [runSums_length] at this
    exact hne (List.eq_nil_of_length_eq_zero (by simpa using this))
  refine ⟨by rw [hcdf]; exact hrs, ?_, ?_, hpos, hfin⟩
  · rw [hcdf]; intro e he
    exact L.le_tr L.zero_le_zero (runSums_ge L E pm _ L.zero_le_zero hnn e he)
  · rw [hcdf]; exact runSums_sorted L E pm _ L.zero_le_zero hnn

end ctor

/-- counterexample: `Categorical::new(&[∞, 1.0])` is accepted (the validation only rejects NaN and negative
    masses and a zero sum), the table is `[∞, ∞]`, and `cdf(0) = ∞/∞ = NaN`. -/
theorem categorical_cdf_inf_counterexample :
    ∃ c : Categorical Float, Model.Categorical.new [(RFun.inf : Float), 1.0] = .ok c ∧
      RFun.isNaN (Categorical.cdf c 0) = true := by
  refine ⟨_, rfl, ?_⟩
  decide

end Statrs.Props.C01
