/-
  C01 (float level, `…_libm`) — `Cauchy.cdf` on every carrier satisfying the IEEE order
  laws, `ExtraLaws` (incl. the evaluated binary64 facts `fl(fl(1/π)·FRAC_PI_2) = 0.5`, `0.5 + 0.5 = 1`,
  `−0.5 + 0.5 = 0`) and `LibmLaws` (`atan` monotone with `|atan| ≤ FRAC_PI_2`): never NaN for a non-NaN
  argument, in `[0,1]` EXACTLY (no ulp overshoot: the extreme value is `fl(0.5 + 0.5) = 1`), fully
  monotone.

  Hypotheses: what `Cauchy.new` guarantees (`location` not NaN, `0 < scale`) plus `Fin location`, `Fin scale`
  (the constructor accepts `location = ±∞`, `scale = +∞`, for which `(x − location)/scale` can be NaN).
  Left out: the values at `±∞` (`LibmLaws` has no law `atan(±∞) = ±FRAC_PI_2`).
-/
import Statrs.Gen.D_cauchy
import Statrs.Lemmas.FloatLawsLibm
set_option linter.unusedSectionVars false
namespace Statrs.Props.C01
open Statrs Statrs.Gen Statrs.Spec

section
variable {α : Type} [Add α] [Sub α] [Mul α] [Div α] [Neg α] [LT α] [LE α] [BEq α]
  [DecidableLT α] [DecidableLE α] [OfScientific α] [Inhabited α] [RFun α]
variable (L : FloatLaws α) (E : ExtraLaws α) (M : LibmLaws α)
include L E M

omit M in
/-- full(∀α): `0 ≤ 1/π` -/
theorem inv_pi_nonneg : (0.0 : α) ≤ (1.0 : α) / (RFun.pi : α) :=
  L.div_nonneg L.zero_le_one (L.lt_of_lt_of_le' L.zero_lt_one E.one_le_pi) (Or.inl L.one_fin)

/-- rel(LibmLaws): the map `z ↦ (1/π)·atan z + 0.5` sends every non-NaN `z` (also `±∞`) into `[0,1]` -/
theorem cauchy_core_mem_unit {z : α} (hz : NN z) :
    (0.0 : α) ≤ (((1.0 : α) / (RFun.pi : α)) * RFun.atan z) + (0.5 : α) ∧
    (((1.0 : α) / (RFun.pi : α)) * RFun.atan z) + (0.5 : α) ≤ (1.0 : α) := by
  have hk := inv_pi_nonneg L E
  have hkf := E.inv_pi_fin
  have hnf : Spec.Fin (-(RFun.fracPi2 : α)) := ExtraLaws.neg_fin L E.fracPi2_fin
  have ha1 := M.atan_le z hz
  have ha0 := M.neg_le_atan z hz
  have haf : Spec.Fin (RFun.atan z) := E.fin_of_between L hnf E.fracPi2_fin ha0 ha1
  have hka : NN (((1.0 : α) / (RFun.pi : α)) * RFun.atan z) := L.mul_nn hkf haf
  have hsum : NN ((((1.0 : α) / (RFun.pi : α)) * RFun.atan z) + (0.5 : α)) :=
    L.add_nn hka L.half_nn (Or.inr L.half_fin)
  constructor
  · -- lower bound: `(1/π)·(−π/2) == −0.5`, `−0.5 + 0.5 == 0`
    have hkp : NN (((1.0 : α) / (RFun.pi : α)) * (RFun.fracPi2 : α)) := L.mul_nn hkf E.fracPi2_fin
    have e1 := E.mul_neg ((1.0 : α) / (RFun.pi : α)) (RFun.fracPi2 : α) hkp
    have e2 := ExtraLaws.neg_congr L E.inv_pi_mul_fracPi2
    have e12 := L.beq_tr e1 e2
    have hlo : -(0.5 : α) ≤ ((1.0 : α) / (RFun.pi : α)) * RFun.atan z :=
      L.le_of_beq_of_le (L.beq_symm e12) (L.mono.mul_le_mul_left _ _ _ ha0 hk (L.beq_nnl e12) hka)
    have hz0 := E.neg_add_self (0.5 : α) L.half_fin
    exact L.le_of_beq_of_le (L.beq_symm hz0)
      (L.mono.add_le_add_right _ _ _ hlo (L.beq_nnl hz0) hsum)
  · have hhi : ((1.0 : α) / (RFun.pi : α)) * RFun.atan z ≤ (0.5 : α) :=
      L.le_of_le_of_beq (L.mono.mul_le_mul_left _ _ _ ha1 hk hka (L.beq_nnl E.inv_pi_mul_fracPi2))
        E.inv_pi_mul_fracPi2
    exact L.le_of_le_of_beq
      (L.mono.add_le_add_right _ _ _ hhi hsum (L.beq_nnl E.half_add_half)) E.half_add_half

/-- rel(LibmLaws): the map `z ↦ (1/π)·atan z + 0.5` is monotone on non-NaN values -/
theorem cauchy_core_mono {z w : α} (h : z ≤ w) :
    (((1.0 : α) / (RFun.pi : α)) * RFun.atan z) + (0.5 : α) ≤
    (((1.0 : α) / (RFun.pi : α)) * RFun.atan w) + (0.5 : α) := by
  have hk := inv_pi_nonneg L E
  have hkf := E.inv_pi_fin
  have hnf : Spec.Fin (-(RFun.fracPi2 : α)) := ExtraLaws.neg_fin L E.fracPi2_fin
  have fz : Spec.Fin (RFun.atan z) :=
    E.fin_of_between L hnf E.fracPi2_fin (M.neg_le_atan z (L.le_nnl h)) (M.atan_le z (L.le_nnl h))
  have fw : Spec.Fin (RFun.atan w) :=
    E.fin_of_between L hnf E.fracPi2_fin (M.neg_le_atan w (L.le_nnr h)) (M.atan_le w (L.le_nnr h))
  have h1 := L.mono.mul_le_mul_left _ _ _ (M.atan_mono _ _ h) hk (L.mul_nn hkf fz) (L.mul_nn hkf fw)
  exact L.mono.add_le_add_right _ _ _ h1
    (L.add_nn (L.mul_nn hkf fz) L.half_nn (Or.inr L.half_fin))
    (L.add_nn (L.mul_nn hkf fw) L.half_nn (Or.inr L.half_fin))

variable (d : Cauchy α) (hloc : Spec.Fin d.f_location) (hs : (0.0 : α) < d.f_scale) (hsf : Spec.Fin d.f_scale)
include hloc hs hsf

omit E M in
/-- full(∀α): the standardised argument `(x − location)/scale` is not NaN for a non-NaN `x` -/
theorem cauchy_z_nn {x : α} (hx : NN x) : NN ((x - d.f_location) / d.f_scale) :=
  L.div_nn (L.sub_nn hx (L.fin_nn' hloc) (Or.inr hloc)) (L.lt_nnr hs) (L.pos_not_beq_zero hs) (Or.inr hsf)

/-- rel(LibmLaws): `0 ≤ cdf x ≤ 1` for every non-NaN `x` (also `±∞`) -/
theorem cauchy_cdf_mem_unit_libm {x : α} (hx : NN x) :
    (0.0 : α) ≤ Cauchy.cdf d x ∧ Cauchy.cdf d x ≤ (1.0 : α) :=
  cauchy_core_mem_unit L E M (cauchy_z_nn L d hloc hs hsf hx)

/-- rel(LibmLaws): `cdf x` is not NaN for a non-NaN `x` -/
theorem cauchy_cdf_nn_libm {x : α} (hx : NN x) : NN (Cauchy.cdf d x) :=
  L.le_nnr (cauchy_cdf_mem_unit_libm L E M d hloc hs hsf hx).1

/-- rel(LibmLaws): FULL float monotonicity `x ≤ y ⇒ cdf x ≤ cdf y` -/
theorem cauchy_cdf_mono_libm {x y : α} (hxy : x ≤ y) : Cauchy.cdf d x ≤ Cauchy.cdf d y := by
  have hx := L.le_nnl hxy
  have hy := L.le_nnr hxy
  have hn := L.fin_nn' hloc
  have h1 : x - d.f_location ≤ y - d.f_location :=
    L.mono.sub_le_sub_right _ _ _ hxy (L.sub_nn hx hn (Or.inr hloc)) (L.sub_nn hy hn (Or.inr hloc))
  exact cauchy_core_mono L E M (L.mono.div_le_div_right _ _ _ h1 hs
    (cauchy_z_nn L d hloc hs hsf hx) (cauchy_z_nn L d hloc hs hsf hy))

omit E hloc hs hsf in
/-- rel(LibmLaws): a NaN argument gives NaN -/
theorem cauchy_cdf_nan_libm {x : α} (hx : RFun.isNaN x = true) : RFun.isNaN (Cauchy.cdf d x) = true := by
  unfold Cauchy.cdf
  apply L.add_nan_left; apply L.mul_nan_right; rw [M.atan_nan]
  exact L.div_nan_left _ (L.sub_nan_left _ hx)

end
end Statrs.Props.C01
