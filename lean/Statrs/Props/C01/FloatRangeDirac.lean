/-
  C01 (float level) — `Dirac.cdf` on every carrier satisfying the IEEE order laws: values in `{0, 1}`
  (never NaN, for ANY argument), monotone, `0` strictly below the atom, `1` at/above it and at `+∞`.
  Hypothesis: what `Dirac.new` guarantees (`v` is not NaN; `v = ±∞` is accepted by the constructor).
-/
import Statrs.Gen.D_dirac
import Statrs.Lemmas.FloatLawsBasic
set_option linter.unusedSectionVars false
namespace Statrs.Props.C01
open Statrs Statrs.Gen Statrs.Spec

section
variable {α : Type} [Add α] [Sub α] [Mul α] [Div α] [Neg α] [LT α] [LE α] [BEq α]
  [DecidableLT α] [DecidableLE α] [OfScientific α] [Inhabited α] [RFun α]
variable (L : FloatLaws α) (d : Dirac α)
include L

omit L in
/-- full(∀α): `cdf x` is one of the two literals, for every argument (NaN included) -/
theorem dirac_cdf_cases (x : α) : Dirac.cdf d x = (0.0 : α) ∨ Dirac.cdf d x = (1.0 : α) := by
  unfold Dirac.cdf; split_ifs <;> simp

/-- full(∀α): `0 ≤ cdf x ≤ 1` and `cdf x` is not NaN, for EVERY argument (a NaN argument gives `1`) -/
theorem dirac_cdf_mem_unit (x : α) :
    NN (Dirac.cdf d x) ∧ (0.0 : α) ≤ Dirac.cdf d x ∧ Dirac.cdf d x ≤ (1.0 : α) := by
  rcases dirac_cdf_cases d x with h | h <;> rw [h]
  · exact ⟨L.zero_nn, L.zero_le_zero, L.zero_le_one⟩
  · exact ⟨L.one_nn, L.zero_le_one, L.one_le_one⟩

/-- full(∀α): NaN argument ⇒ the code returns `1` (`NaN < v` is false) -/
theorem dirac_cdf_nan_arg {x : α} (hx : RFun.isNaN x = true) : Dirac.cdf d x = (1.0 : α) := by
  unfold Dirac.cdf; rw [if_neg (L.not_lt_nan_left hx)]

/-- full(∀α): exact monotonicity -/
theorem dirac_cdf_mono_fl {x y : α} (hxy : x ≤ y) : Dirac.cdf d x ≤ Dirac.cdf d y := by
  by_cases hy : y < d.f_0
  · have hx : x < d.f_0 := L.lt_of_le_of_lt' hxy hy
    unfold Dirac.cdf; rw [if_pos hx, if_pos hy]; exact L.zero_le_zero
  · have : Dirac.cdf d y = (1.0 : α) := by unfold Dirac.cdf; rw [if_neg hy]
    rw [this]; exact (dirac_cdf_mem_unit L d x).2.2

omit L in
/-- full(∀α): `0` strictly below the atom -/
theorem dirac_cdf_below {x : α} (h : x < d.f_0) : Dirac.cdf d x = (0.0 : α) := by
  unfold Dirac.cdf; rw [if_pos h]

/-- full(∀α): `1` at and above the atom -/
theorem dirac_cdf_above {x : α} (h : d.f_0 ≤ x) : Dirac.cdf d x = (1.0 : α) := by
  unfold Dirac.cdf; rw [if_neg (L.le_not_lt h)]

/-- full(∀α): `cdf(v) = 1`, `cdf(+∞) = 1`; `cdf(−∞) = 0` iff the atom is not `−∞` itself -/
theorem dirac_cdf_ends (hv : NN d.f_0) :
    Dirac.cdf d d.f_0 = (1.0 : α) ∧ Dirac.cdf d (RFun.inf : α) = (1.0 : α) ∧
    ((RFun.negInf : α) < d.f_0 → Dirac.cdf d (RFun.negInf : α) = (0.0 : α)) :=
  ⟨dirac_cdf_above L d (L.le_rfl' hv), dirac_cdf_above L d (L.le_inf hv), fun h => dirac_cdf_below d h⟩

end
end Statrs.Props.C01
