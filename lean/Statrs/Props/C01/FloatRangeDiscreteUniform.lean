/-
  C01 (float level) — `DiscreteUniform.cdf` on every carrier satisfying the IEEE order laws + `OfIntLaws`:
  never NaN, in `[0,1]`, monotone (exactly), `0` below the minimum, `1` at/above the maximum; the final clamp
  `if ans > 1 { 1 }` never fires.

  Hypotheses: what `DiscreteUniform.new` guarantees (`min ≤ max`), the `i64` range of the fields (they are
  `i64` in Rust; needed for `OfIntLaws.ofInt_fin`/`ofInt_mono`, which are stated for the 64-bit range), and `Fin ((upper − lower) + 1)` — in binary64 this always
  holds for `i64` end points (the value is at most `2^64 + 1`), but finiteness of a sum is not an order-theoretic
  law, so it is a hypothesis (`DiscreteUniformOK.den_fin`).
-/
import Statrs.Gen.D_discrete_uniform
import Statrs.Lemmas.FloatLawsBasic
set_option linter.unusedSectionVars false
namespace Statrs.Props.C01
open Statrs Statrs.Gen Statrs.Spec

section
variable {α : Type} [Add α] [Sub α] [Mul α] [Div α] [Neg α] [LT α] [LE α] [BEq α]
  [DecidableLT α] [DecidableLE α] [OfScientific α] [Inhabited α] [RFun α]

/-- the denominator `(upper − lower) + 1.0` of `DiscreteUniform.cdf`/`sf` -/
def duDen (α : Type) [Add α] [Sub α] [OfScientific α] [RFun α] (d : DiscreteUniform) : α :=
  ((RFun.ofInt d.f_max : α) - (RFun.ofInt d.f_min : α)) + (1.0 : α)

/-- the unclamped value `((x − lower) + 1.0) / ((upper − lower) + 1.0)` of `DiscreteUniform.cdf` -/
def duAns (α : Type) [Add α] [Sub α] [Div α] [OfScientific α] [RFun α] (d : DiscreteUniform) (x : Int) : α :=
  (((RFun.ofInt x : α) - (RFun.ofInt d.f_min : α)) + (1.0 : α)) / duDen α d

/-- What `DiscreteUniform.new` guarantees, the `i64` range of the fields, and finiteness of the denominator. -/
structure DiscreteUniformOK (α : Type) [Add α] [Sub α] [OfScientific α] [RFun α] (d : DiscreteUniform) : Prop where
  le : d.f_min ≤ d.f_max
  min_range : i64Min ≤ d.f_min
  max_range : d.f_max ≤ i64Max
  den_fin : Spec.Fin (duDen α d)

variable (L : FloatLaws α) (d : DiscreteUniform) (ok : DiscreteUniformOK α d)
include L ok

/-- full(∀α): every integer of the (64-bit) support converts to a finite value -/
theorem du_ofInt_fin {x : Int} (h1 : d.f_min ≤ x) (h2 : x ≤ d.f_max) : Spec.Fin (RFun.ofInt x : α) := by
  have a := ok.min_range; have b := ok.max_range
  apply L.ofInt.ofInt_fin <;> simp only [i64Min, i64Max] at a b <;> omega

/-- full(∀α): `ofInt` is monotone on the (64-bit) support -/
theorem du_ofInt_mono {i j : Int} (hi : d.f_min ≤ i) (hij : i ≤ j) (hj : j ≤ d.f_max) :
    (RFun.ofInt i : α) ≤ RFun.ofInt j := by
  have a := ok.min_range; have b := ok.max_range
  simp only [i64Min, i64Max] at a b
  exact L.ofInt.ofInt_mono i j (by omega) hij (by omega)

/-- full(∀α): `1 ≤ (ofInt x − lower) + 1 ≤ den` for `min ≤ x ≤ max` -/
theorem du_num_bounds {x : Int} (h1 : d.f_min ≤ x) (h2 : x ≤ d.f_max) :
    (1.0 : α) ≤ ((RFun.ofInt x : α) - (RFun.ofInt d.f_min : α)) + (1.0 : α) ∧
    ((RFun.ofInt x : α) - (RFun.ofInt d.f_min : α)) + (1.0 : α) ≤ duDen α d := by
  have hlo : Spec.Fin (RFun.ofInt d.f_min : α) := du_ofInt_fin L d ok (le_refl _) ok.le
  have hup : Spec.Fin (RFun.ofInt d.f_max : α) := du_ofInt_fin L d ok ok.le (le_refl _)
  have hx : Spec.Fin (RFun.ofInt x : α) := du_ofInt_fin L d ok h1 h2
  have h0 : (0.0 : α) ≤ (RFun.ofInt x : α) - RFun.ofInt d.f_min :=
    L.sub_nonneg_of_le hlo (du_ofInt_mono L d ok (le_refl _) h1 h2)
  have hdx : NN ((RFun.ofInt x : α) - RFun.ofInt d.f_min) := L.le_nnr h0
  have hdu : NN ((RFun.ofInt d.f_max : α) - RFun.ofInt d.f_min) :=
    L.sub_nn (L.fin_nn' hup) (L.fin_nn' hlo) (Or.inl hup)
  have hle : (RFun.ofInt x : α) - RFun.ofInt d.f_min ≤ RFun.ofInt d.f_max - RFun.ofInt d.f_min :=
    L.mono.sub_le_sub_right _ _ _ (du_ofInt_mono L d ok h1 h2 (le_refl _)) hdx hdu
  have hz : (((0.0 : α) + (1.0 : α)) == (1.0 : α)) = true := L.exact.zero_add _ L.one_nn
  have hnx : NN (((RFun.ofInt x : α) - RFun.ofInt d.f_min) + (1.0 : α)) :=
    L.add_nn hdx L.one_nn (Or.inr L.one_fin)
  refine ⟨L.le_of_beq_of_le (L.beq_symm hz) (L.mono.add_le_add_right _ _ _ h0 (L.beq_nnl hz) hnx), ?_⟩
  exact L.mono.add_le_add_right _ _ _ hle hnx (L.fin_nn' ok.den_fin)

/-- full(∀α): the denominator is `≥ 1`, hence strictly positive -/
theorem du_den_pos : (1.0 : α) ≤ duDen α d ∧ (0.0 : α) < duDen α d := by
  have h := (du_num_bounds L d ok (le_refl _) ok.le)
  have h1 : (1.0 : α) ≤ duDen α d := L.le_tr h.1 h.2
  exact ⟨h1, L.lt_of_lt_of_le' L.zero_lt_one h1⟩

/-- full(∀α): the unclamped value is in `[0,1]` on the support -/
theorem du_ans_mem_unit {x : Int} (h1 : d.f_min ≤ x) (h2 : x ≤ d.f_max) :
    (0.0 : α) ≤ duAns α d x ∧ duAns α d x ≤ (1.0 : α) := by
  obtain ⟨ha, hb⟩ := du_num_bounds L d ok h1 h2
  exact L.div_mem_unit (L.le_tr L.zero_le_one ha) hb (du_den_pos L d ok).2 ok.den_fin

/-- full(∀α): inside the support the clamp does not fire: `cdf x` is the correctly rounded quotient -/
theorem du_cdf_interior {x : Int} (h1 : d.f_min ≤ x) (h2 : x < d.f_max) :
    DiscreteUniform.cdf (α := α) d x = duAns α d x := by
  have hle := (du_ans_mem_unit L d ok h1 (le_of_lt h2)).2
  unfold DiscreteUniform.cdf
  rw [if_neg (by omega), if_neg (by omega)]
  show (if (1.0 : α) < duAns α d x then (1.0 : α) else duAns α d x) = _
  rw [if_neg (L.le_not_lt hle)]

omit L ok in
/-- full(∀α): `cdf x = 0` (the literal) strictly below the minimum -/
theorem du_cdf_below {x : Int} (h : x < d.f_min) : DiscreteUniform.cdf (α := α) d x = (0.0 : α) := by
  unfold DiscreteUniform.cdf; rw [if_pos h]

omit L in
/-- full(∀α): `cdf x = 1` (the literal) at and above the maximum -/
theorem du_cdf_above {x : Int} (h : d.f_max ≤ x) : DiscreteUniform.cdf (α := α) d x = (1.0 : α) := by
  have := ok.le
  unfold DiscreteUniform.cdf; rw [if_neg (by omega), if_pos h]

/-- full(∀α): `0 ≤ cdf x ≤ 1` for every integer `x` -/
theorem du_cdf_mem_unit (x : Int) :
    (0.0 : α) ≤ DiscreteUniform.cdf (α := α) d x ∧ DiscreteUniform.cdf (α := α) d x ≤ (1.0 : α) := by
  by_cases h1 : x < d.f_min
  · rw [du_cdf_below d h1]; exact ⟨L.zero_le_zero, L.zero_le_one⟩
  · by_cases h2 : d.f_max ≤ x
    · rw [du_cdf_above d ok h2]; exact ⟨L.zero_le_one, L.one_le_one⟩
    · rw [du_cdf_interior L d ok (by omega) (by omega)]
      exact du_ans_mem_unit L d ok (by omega) (by omega)

/-- full(∀α): `cdf x` is never NaN -/
theorem du_cdf_nn (x : Int) : NN (DiscreteUniform.cdf (α := α) d x) := L.le_nnr (du_cdf_mem_unit L d ok x).1

/-- full(∀α): EXACT float monotonicity in the integer argument -/
theorem du_cdf_mono {x y : Int} (hxy : x ≤ y) :
    DiscreteUniform.cdf (α := α) d x ≤ DiscreteUniform.cdf (α := α) d y := by
  by_cases h1 : x < d.f_min
  · rw [du_cdf_below d h1]; exact (du_cdf_mem_unit L d ok y).1
  · by_cases h2 : d.f_max ≤ y
    · rw [du_cdf_above d ok h2]; exact (du_cdf_mem_unit L d ok x).2
    · rw [du_cdf_interior L d ok (by omega) (by omega), du_cdf_interior L d ok (by omega) (by omega)]
      have hlo : Spec.Fin (RFun.ofInt d.f_min : α) := du_ofInt_fin L d ok (le_refl _) ok.le
      have hx : Spec.Fin (RFun.ofInt x : α) := du_ofInt_fin L d ok (by omega) (by omega)
      have hy : Spec.Fin (RFun.ofInt y : α) := du_ofInt_fin L d ok (by omega) (by omega)
      have hdx : NN ((RFun.ofInt x : α) - RFun.ofInt d.f_min) :=
        L.sub_nn (L.fin_nn' hx) (L.fin_nn' hlo) (Or.inl hx)
      have hdy : NN ((RFun.ofInt y : α) - RFun.ofInt d.f_min) :=
        L.sub_nn (L.fin_nn' hy) (L.fin_nn' hlo) (Or.inl hy)
      have hle := L.mono.sub_le_sub_right _ _ (RFun.ofInt d.f_min : α) (du_ofInt_mono L d ok (by omega) hxy (by omega)) hdx hdy
      have hle2 := L.mono.add_le_add_right _ _ (1.0 : α) hle
        (L.add_nn hdx L.one_nn (Or.inr L.one_fin)) (L.add_nn hdy L.one_nn (Or.inr L.one_fin))
      unfold duAns
      exact L.mono.div_le_div_right _ _ _ hle2 (du_den_pos L d ok).2
        (L.le_nnr (du_ans_mem_unit L d ok (x := x) (by omega) (by omega)).1)
        (L.le_nnr (du_ans_mem_unit L d ok (x := y) (by omega) (by omega)).1)

end
end Statrs.Props.C01
