/-
  C01/C15 (float level) — `Empirical.cdf` (hand model `Model/Empirical.lean`: `count(≤ x) as f64 / sum as f64`)
  on every carrier satisfying the IEEE order laws + `OfIntLaws`: for a non-NaN argument the value is not NaN,
  in `[0,1]`, monotone (exactly); `== 0` below every data point, `== 1` at/above every data point and at `+∞`.

  Hypotheses: the state invariant `EmpOK` (holds for `new()`, preserved by `add`/`remove`:
  `Lemmas.FloatEmp.empOK_new/add/remove`, re-exported below for histories), a non-empty state, and
  `sum ≤ 2^64` (the field is a `u64`).  For the EMPTY state the code computes `0/0` (NaN in IEEE);
  for a NaN argument Rust panics (`expect("x must not be NaN")`, `panicV` in the model).
-/
import Statrs.Lemmas.FloatEmpirical
import Statrs.Inst.Float
set_option linter.unusedSectionVars false
namespace Statrs.Props.C01
open Statrs Statrs.Spec Statrs.Model Statrs.Lemmas.FloatEmp

section
variable {α : Type} [Add α] [Sub α] [Mul α] [Div α] [Neg α] [LT α] [LE α] [BEq α]
  [DecidableLT α] [DecidableLE α] [OfScientific α] [Inhabited α] [RFun α]
variable (L : FloatLaws α)
include L

/-- full(∀α): for integers `0 ≤ i ≤ n`, `1 ≤ n ≤ 2^64`: `0 ≤ ofInt i / ofInt n ≤ 1` (and not NaN) -/
theorem ofInt_ratio_mem_unit {i n : Int} (h0 : 0 ≤ i) (hin : i ≤ n) (h1 : 1 ≤ n) (hn : n ≤ 2 ^ 64) :
    (0.0 : α) ≤ (RFun.ofInt i : α) / RFun.ofInt n ∧ (RFun.ofInt i : α) / RFun.ofInt n ≤ (1.0 : α) := by
  have hfin : Spec.Fin (RFun.ofInt n : α) := L.ofInt.ofInt_fin n (by omega) hn
  have hi0 : (0.0 : α) ≤ RFun.ofInt i :=
    L.le_of_beq_of_le (L.beq_symm L.ofInt.ofInt_zero) (L.ofInt.ofInt_mono 0 i (by omega) h0 (by omega))
  have hn1 : (1.0 : α) ≤ RFun.ofInt n :=
    L.le_of_beq_of_le (L.beq_symm L.ofInt.ofInt_one) (L.ofInt.ofInt_mono 1 n (by omega) h1 hn)
  exact L.div_mem_unit hi0 (L.ofInt.ofInt_mono i n (by omega) hin hn) (L.lt_of_lt_of_le' L.zero_lt_one hn1) hfin

/-- full(∀α): the ratio is monotone in the numerator -/
theorem ofInt_ratio_mono {i j n : Int} (h0 : 0 ≤ i) (hij : i ≤ j) (hjn : j ≤ n) (h1 : 1 ≤ n)
    (hn : n ≤ 2 ^ 64) : (RFun.ofInt i : α) / RFun.ofInt n ≤ (RFun.ofInt j : α) / RFun.ofInt n := by
  have hn1 : (1.0 : α) ≤ RFun.ofInt n :=
    L.le_of_beq_of_le (L.beq_symm L.ofInt.ofInt_one) (L.ofInt.ofInt_mono 1 n (by omega) h1 hn)
  exact L.mono.div_le_div_right _ _ _ (L.ofInt.ofInt_mono i j (by omega) hij (by omega)) (L.lt_of_lt_of_le' L.zero_lt_one hn1)
    (L.le_nnr (ofInt_ratio_mem_unit L h0 (by omega) h1 hn).1)
    (L.le_nnr (ofInt_ratio_mem_unit L (i := j) (by omega) hjn h1 hn).1)

/-- full(∀α): `ofInt 0 / ofInt n == 0` and `ofInt n / ofInt n == 1` -/
theorem ofInt_ratio_ends {n : Int} (h1 : 1 ≤ n) (hn : n ≤ 2 ^ 64) :
    ((RFun.ofInt 0 : α) / RFun.ofInt n == (0.0 : α)) = true ∧
    ((RFun.ofInt n : α) / RFun.ofInt n == (1.0 : α)) = true := by
  have hfin : Spec.Fin (RFun.ofInt n : α) := L.ofInt.ofInt_fin n (by omega) hn
  have hn1 : (1.0 : α) ≤ RFun.ofInt n :=
    L.le_of_beq_of_le (L.beq_symm L.ofInt.ofInt_one) (L.ofInt.ofInt_mono 1 n (by omega) h1 hn)
  have hpos := L.lt_of_lt_of_le' L.zero_lt_one hn1
  have hne := L.pos_not_beq_zero hpos
  refine ⟨?_, L.exact.div_self _ hfin hne⟩
  have hz := L.exact.zero_div _ (L.fin_nn' hfin) hne
  have hq := L.le_nnr (ofInt_ratio_mem_unit L (i := 0) (n := n) (le_refl _) (by omega) h1 hn).1
  refine L.beq_of_le_le ?_ ?_
  · exact L.le_of_le_of_beq
      (L.mono.div_le_div_right _ _ _ (L.beq_le L.ofInt.ofInt_zero) hpos hq (L.beq_nnl hz)) hz
  · exact L.le_of_beq_of_le (L.beq_symm hz)
      (L.mono.div_le_div_right _ _ _ (L.beq_ge L.ofInt.ofInt_zero) hpos (L.beq_nnl hz) hq)

variable (e : Empirical α) (ok : EmpOK e) (hne : e.f_data ≠ []) (hmax : e.f_sum ≤ 2 ^ 64)
include ok hne

omit L in
/-- a non-empty invariant state holds at least one value -/
theorem emp_sum_pos : 1 ≤ e.f_sum := by
  rw [ok.sum_eq]
  obtain ⟨p, t, hd⟩ := List.exists_cons_of_ne_nil hne
  have hc : ∀ q ∈ t, 0 ≤ q.2 := fun q hq => by have := ok.counts_pos q (by rw [hd]; simp [hq]); omega
  have hp := ok.counts_pos p (by rw [hd]; simp)
  have h0 := (filter_sum_bounds (fun _ => true) t hc).1
  simp only [List.filter_true] at h0
  rw [hd]; simp [tot]; omega

omit L hne in
/-- full(∀α): multiplicities are non-negative under the invariant -/
theorem emp_counts_nonneg : ∀ p ∈ e.f_data, 0 ≤ p.2 := fun p hp => by
  have := ok.counts_pos p hp; omega

omit L ok hne in
/-- the non-NaN branch of `Empirical.cdf` -/
theorem emp_cdf_eq {x : α} (hx : NN x) :
    Empirical.cdf e x = (RFun.ofInt (mapSumTo e.f_data x) : α) / (RFun.ofInt e.f_sum : α) := by
  unfold Empirical.cdf; rw [if_neg (by rw [hx]; exact Bool.false_ne_true)]

include hmax

/-- full(∀α): `0 ≤ cdf x ≤ 1` for every non-NaN `x` (±∞ included) -/
theorem empirical_cdf_mem_unit {x : α} (hx : NN x) :
    (0.0 : α) ≤ Empirical.cdf e x ∧ Empirical.cdf e x ≤ (1.0 : α) := by
  rw [emp_cdf_eq e hx]
  obtain ⟨a, b⟩ := mapSumTo_bounds e.f_data (emp_counts_nonneg e ok) x
  exact ofInt_ratio_mem_unit L a (by rw [ok.sum_eq]; exact b) (emp_sum_pos e ok hne) hmax

/-- full(∀α): `cdf x` is not NaN for a non-NaN `x` -/
theorem empirical_cdf_nn {x : α} (hx : NN x) : NN (Empirical.cdf e x) :=
  L.le_nnr (empirical_cdf_mem_unit L e ok hne hmax hx).1

/-- full(∀α): EXACT float monotonicity: `x ≤ y ⇒ cdf x ≤ cdf y` -/
theorem empirical_cdf_mono {x y : α} (hxy : x ≤ y) : Empirical.cdf e x ≤ Empirical.cdf e y := by
  rw [emp_cdf_eq e (L.le_nnl hxy), emp_cdf_eq e (L.le_nnr hxy)]
  have hc := emp_counts_nonneg e ok
  exact ofInt_ratio_mono L (mapSumTo_bounds e.f_data hc x).1 (mapSumTo_mono L e.f_data ok.keys_nn hc hxy)
    (by rw [ok.sum_eq]; exact (mapSumTo_bounds e.f_data hc y).2) (emp_sum_pos e ok hne) hmax

/-- full(∀α): `cdf x == 0` strictly below every data point -/
theorem empirical_cdf_below {x : α} (hx : NN x) (h : ∀ p ∈ e.f_data, x < p.1) :
    (Empirical.cdf e x == (0.0 : α)) = true := by
  rw [emp_cdf_eq e hx, mapSumTo_below L e.f_data ok.keys_nn hx h]
  exact (ofInt_ratio_ends L (emp_sum_pos e ok hne) hmax).1

/-- full(∀α): `cdf x == 1` at and above every data point -/
theorem empirical_cdf_above {x : α} (hx : NN x) (h : ∀ p ∈ e.f_data, p.1 ≤ x) :
    (Empirical.cdf e x == (1.0 : α)) = true := by
  rw [emp_cdf_eq e hx, mapSumTo_above L e.f_data ok.keys_nn hx h, ← ok.sum_eq]
  exact (ofInt_ratio_ends L (emp_sum_pos e ok hne) hmax).2

/-- full(∀α): `cdf(+∞) == 1` -/
theorem empirical_cdf_inf : (Empirical.cdf e (RFun.inf : α) == (1.0 : α)) = true :=
  empirical_cdf_above L e ok hne hmax L.inf_nn (fun p hp => L.le_inf (ok.keys_nn p hp))

end

section history
variable {α : Type} [Add α] [Sub α] [Mul α] [Div α] [Neg α] [LT α] [LE α] [BEq α]
  [DecidableLT α] [DecidableLE α] [OfScientific α] [Inhabited α] [RFun α]

/-- full(∀α): every state built by `from_iter` (a sequence of `add`s from `new()`) satisfies the invariant -/
theorem empOK_from_iter (l : List α) : EmpOK (Empirical.from_iter l) := by
  unfold Empirical.from_iter
  have : ∀ (l : List α) (e : Empirical α), EmpOK e →
      EmpOK (l.foldl (fun empirical elt => empirical.add elt) e) := by
    intro l; induction l with
    | nil => intro e h; exact h
    | cons v t ih => intro e h; exact ih _ (empOK_add h v)
  exact this l _ empOK_new

/-- full(∀α): NaN argument ⇒ the model's panic value (`expect("x must not be NaN")` in Rust) -/
theorem empirical_cdf_nan_arg (e : Empirical α) {x : α} (hx : RFun.isNaN x = true) :
    Empirical.cdf e x = panicV ∧ Empirical.sf e x = panicV := by
  unfold Empirical.cdf Empirical.sf; simp only [hx, if_true, and_self]

end history

/-- counterexample: on the EMPTY distribution (`Empirical::new()`, or after removing every point) `cdf` is
    `0 as f64 / 0 as f64 = NaN` for every argument (kernel-evaluated on the IEEE carrier at `x = 0.0`). -/
theorem empirical_cdf_empty_counterexample :
    RFun.isNaN (Empirical.cdf (unwrapE Empirical.new : Empirical Float) 0.0) = true ∧
    RFun.isNaN (Empirical.sf (unwrapE Empirical.new : Empirical Float) 0.0) = true := by
  decide

end Statrs.Props.C01
