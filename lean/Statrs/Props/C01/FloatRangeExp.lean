/-
  C01 (float level, `…_libm`) — `Exp.cdf` on every carrier satisfying the IEEE order laws, `ExtraLaws` and the
  libm premises `LibmLaws` (`exp` monotone, `0 ≤ exp`, `exp 0 = 1`, `exp(−∞) = 0`): never NaN for a non-NaN
  argument, in `[0,1]`, monotone (exactly), `0` below `0` and at `−∞`, `== 0` at `0`, `== 1` at `+∞`.

  Hypotheses: what `Exp.new` guarantees (`0 < rate`, hence not NaN) plus `Fin rate`: the constructor accepts
  `rate = +∞`, and then `cdf(0) = 1 − exp(−∞ · 0) = NaN` (`exp_cdf_inf_rate_counterexample`).
-/
import Statrs.Gen.D_exponential
import Statrs.Inst.Float
import Statrs.Lemmas.FloatLawsLibm
set_option linter.unusedSectionVars false
namespace Statrs.Props.C01
open Statrs Statrs.Gen Statrs.Spec

section
variable {α : Type} [Add α] [Sub α] [Mul α] [Div α] [Neg α] [LT α] [LE α] [BEq α]
  [DecidableLT α] [DecidableLE α] [OfScientific α] [Inhabited α] [RFun α]
variable (L : FloatLaws α) (E : ExtraLaws α) (M : LibmLaws α) (d : Exp α)
  (hr : (0.0 : α) < d.f_rate) (hf : Spec.Fin d.f_rate)
include L E M hr hf

/-- rel(LibmLaws): for `0 ≤ x` the survival value `exp(−rate·x)` is in `[0,1]` -/
theorem exp_tail_mem_unit {x : α} (hx : (0.0 : α) ≤ x) :
    (0.0 : α) ≤ RFun.exp ((-d.f_rate) * x) ∧ RFun.exp ((-d.f_rate) * x) ≤ (1.0 : α) :=
  M.exp_mem_unit L (E.neg_rate_mul L hr hf hx).2.1

/-- rel(LibmLaws): the survival value is antitone on `0 ≤ x` -/
theorem exp_tail_anti {x y : α} (hx : (0.0 : α) ≤ x) (hxy : x ≤ y) :
    RFun.exp ((-d.f_rate) * y) ≤ RFun.exp ((-d.f_rate) * x) :=
  M.exp_mono _ _ (E.neg_rate_mul_anti L hr hf hx hxy)

omit L E M hr hf in
/-- full(∀α): `cdf x = 0` (the literal) below the support -/
theorem exp_cdf_neg {x : α} (h : x < (0.0 : α)) : Exp.cdf d x = (0.0 : α) := by
  unfold Exp.cdf; rw [if_pos h]
omit L E M hr hf in
/-- full(∀α): the interior branch of `Exp.cdf` -/
theorem exp_cdf_nonneg_arg {x : α} (h : ¬ x < (0.0 : α)) :
    Exp.cdf d x = (1.0 : α) - RFun.exp ((-d.f_rate) * x) := by
  unfold Exp.cdf; rw [if_neg h]

/-- rel(LibmLaws): `0 ≤ cdf x ≤ 1` for every non-NaN `x` -/
theorem exp_cdf_mem_unit_libm {x : α} (hx : NN x) :
    (0.0 : α) ≤ Exp.cdf d x ∧ Exp.cdf d x ≤ (1.0 : α) := by
  by_cases h : x < (0.0 : α)
  · rw [exp_cdf_neg d h]; exact ⟨L.zero_le_zero, L.zero_le_one⟩
  · rw [exp_cdf_nonneg_arg d h]
    obtain ⟨a, b⟩ := exp_tail_mem_unit L E M d hr hf (L.le_of_not_lt hx L.zero_nn h)
    exact L.one_sub_mem_unit a b

/-- rel(LibmLaws): `cdf x` is not NaN for a non-NaN `x` -/
theorem exp_cdf_nn_libm {x : α} (hx : NN x) : NN (Exp.cdf d x) :=
  L.le_nnr (exp_cdf_mem_unit_libm L E M d hr hf hx).1

omit E hr hf in
/-- rel(LibmLaws): a NaN argument gives NaN -/
theorem exp_cdf_nan_libm {x : α} (hx : RFun.isNaN x = true) : RFun.isNaN (Exp.cdf d x) = true := by
  rw [exp_cdf_nonneg_arg d (L.not_lt_nan_left hx)]
  apply L.sub_nan_right
  rw [M.exp_nan]; exact L.mul_nan_right _ hx

/-- rel(LibmLaws): EXACT float monotonicity `x ≤ y ⇒ cdf x ≤ cdf y` -/
theorem exp_cdf_mono_libm {x y : α} (hxy : x ≤ y) : Exp.cdf d x ≤ Exp.cdf d y := by
  have hx := L.le_nnl hxy
  have hy := L.le_nnr hxy
  by_cases h : x < (0.0 : α)
  · rw [exp_cdf_neg d h]; exact (exp_cdf_mem_unit_libm L E M d hr hf hy).1
  · have h0 : (0.0 : α) ≤ x := L.le_of_not_lt hx L.zero_nn h
    have hy0 : ¬ y < (0.0 : α) := L.le_not_lt (L.le_tr h0 hxy)
    rw [exp_cdf_nonneg_arg d h, exp_cdf_nonneg_arg d hy0]
    exact L.one_sub_anti (exp_tail_anti L E M d hr hf h0 hxy)

/-- rel(LibmLaws): `cdf(−∞) = 0` (literal), `cdf(0) == 0`, `cdf(+∞) == 1` -/
theorem exp_cdf_ends_libm :
    Exp.cdf d (RFun.negInf : α) = (0.0 : α) ∧ (Exp.cdf d (0.0 : α) == (0.0 : α)) = true ∧
    (Exp.cdf d (RFun.inf : α) == (1.0 : α)) = true := by
  refine ⟨exp_cdf_neg d (E.negInf_lt_fin L L.zero_fin), ?_, ?_⟩
  · rw [exp_cdf_nonneg_arg d (L.lt_irrefl' _)]
    have h1 : (RFun.exp ((-d.f_rate) * (0.0 : α)) == (1.0 : α)) = true :=
      M.exp_of_beq_zero L (L.exact.mul_zero _ (ExtraLaws.neg_fin L hf))
    have hz := L.exact.sub_self (1.0 : α) L.one_fin
    exact L.beq_of_le_le (L.le_of_le_of_beq (L.one_sub_anti (L.beq_ge h1)) hz)
      (L.le_of_beq_of_le (L.beq_symm hz) (L.one_sub_anti (L.beq_le h1)))
  · rw [exp_cdf_nonneg_arg d (L.le_not_lt (L.le_inf L.zero_nn))]
    obtain ⟨_, _, hb, _⟩ := E.neg_rate_mul L hr hf (L.le_inf L.zero_nn)
    have h2 : ((-d.f_rate) * (RFun.inf : α) == (RFun.negInf : α)) = true :=
      L.beq_tr hb (L.beq_tr (ExtraLaws.neg_congr L (E.mul_inf_of_pos _ hr)) E.neg_inf_eq)
    have h1 := M.exp_of_beq_negInf L h2
    have hz := L.exact.sub_zero (1.0 : α) L.one_nn
    exact L.beq_of_le_le (L.le_of_le_of_beq (L.one_sub_anti (L.beq_ge h1)) hz)
      (L.le_of_beq_of_le (L.beq_symm hz) (L.one_sub_anti (L.beq_le h1)))

end

/-- counterexample rel(FloatLaws Float, LibmLaws Float): `Exp::new(f64::INFINITY)` is accepted (`rate` is not
    NaN and not `≤ 0`), and `cdf(0.0) = 1 − exp((−∞)·0) = 1 − exp(NaN) = NaN`.  The product is evaluated by the
    kernel on Lean's IEEE `Float` model; `exp` is an opaque libm call, so NaN propagation through it is the
    premise `LibmLaws.exp_nan`. -/
theorem exp_cdf_inf_rate_counterexample (L : FloatLaws Float) (M : LibmLaws Float) :
    Except.isOk (Exp.new (RFun.inf : Float)) = true ∧
    RFun.isNaN (Exp.cdf ({ f_rate := RFun.inf } : Exp Float) 0.0) = true := by
  refine ⟨by decide, ?_⟩
  rw [exp_cdf_nonneg_arg _ (by decide)]
  apply L.sub_nan_right
  rw [M.exp_nan]
  decide

end Statrs.Props.C01
