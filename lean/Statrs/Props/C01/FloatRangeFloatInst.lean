/-
  C01/C02/C03 (float level) — the ∀α range / NaN-freeness / monotonicity theorems INSTANTIATED at the
  executable carrier, IEEE `Float` (Lean's kernel-visible `Float.Model`), using
  `Statrs.Props.Common.floatLaws_float : FloatLaws Float` and `extraLaws_float : ExtraLaws Float`
  (Draft/Common/FloatLawsFloat_*.lean).  These statements are unconditional for binary64 doubles: they hold for
  every `f64` argument incl. ±0, ±∞, subnormals and the ulp neighbours of the knots.
  (The `…_libm` families stay relative to `LibmLaws Float`: `exp`, `atan`, … are opaque libm calls.)
-/
import Statrs.Props.Common.FloatLawsFloat_Extra
import Statrs.Props.C02.FloatSfUniform
import Statrs.Props.C03.FloatPdfUniform
import Statrs.Props.C02.FloatSfDirac
import Statrs.Props.C01.FloatRangeBernoulli
import Statrs.Props.C02.FloatSfDiscreteUniform
import Statrs.Props.C03.FloatPdfDiscreteUniform
import Statrs.Props.C02.FloatSfTriangular
import Statrs.Props.C03.FloatPdfTriangular
import Statrs.Props.C02.FloatSfCategorical
import Statrs.Props.C03.FloatPdfCategorical
import Statrs.Props.C02.FloatSfEmpirical
namespace Statrs.Props.C01
open Statrs Statrs.Gen Statrs.Spec Statrs.Model Statrs.Props.Common Statrs.Lemmas.FloatEmp

/-! ### Uniform -/

/-- full(Float): `Uniform.cdf`: not NaN, in `[0,1]` for every non-NaN `f64` -/
theorem uniform_cdf_range_float (d : Uniform Float) (ok : UniformOK d) {x : Float} (hx : NN x) :
    NN (Uniform.cdf d x) ∧ (0.0 : Float) ≤ Uniform.cdf d x ∧ Uniform.cdf d x ≤ (1.0 : Float) :=
  ⟨uniform_cdf_nn floatLaws_float extraLaws_float d ok hx,
   (uniform_cdf_mem_unit floatLaws_float extraLaws_float d ok hx).1,
   (uniform_cdf_mem_unit floatLaws_float extraLaws_float d ok hx).2⟩

/-- full(Float): `Uniform.cdf` never decreases -/
theorem uniform_cdf_mono_float (d : Uniform Float) (ok : UniformOK d) {x y : Float} (h : x ≤ y) :
    Uniform.cdf d x ≤ Uniform.cdf d y := uniform_cdf_mono_fl floatLaws_float extraLaws_float d ok h

/-- full(Float): `Uniform.sf`: in `[0,1]`, never increases -/
theorem uniform_sf_range_anti_float (d : Uniform Float) (ok : UniformOK d) :
    (∀ x : Float, NN x → (0.0 : Float) ≤ Uniform.sf d x ∧ Uniform.sf d x ≤ (1.0 : Float)) ∧
    (∀ x y : Float, x ≤ y → Uniform.sf d y ≤ Uniform.sf d x) :=
  ⟨fun _ hx => C02.uniform_sf_mem_unit floatLaws_float extraLaws_float d ok hx,
   fun _ _ h => C02.uniform_sf_anti_fl floatLaws_float extraLaws_float d ok h⟩

/-- full(Float): `Uniform.pdf` is never NaN and never negative, for EVERY `f64` argument -/
theorem uniform_pdf_nonneg_float (d : Uniform Float) (hmin : Spec.Fin d.f_min) (hmax : Spec.Fin d.f_max)
    (hlt : d.f_min < d.f_max) (x : Float) : (0.0 : Float) ≤ Uniform.pdf d x :=
  C03.uniform_pdf_nonneg_fl floatLaws_float extraLaws_float d hmin hmax hlt x

/-! ### Dirac, Bernoulli -/

/-- full(Float): `Dirac.cdf` is monotone and `{0,1}`-valued -/
theorem dirac_cdf_mono_float (d : Dirac Float) {x y : Float} (h : x ≤ y) : Dirac.cdf d x ≤ Dirac.cdf d y :=
  dirac_cdf_mono_fl floatLaws_float d h

/-- full(Float): `Bernoulli.cdf` is in `[0,1]` and monotone -/
theorem bernoulli_cdf_float (d : Bernoulli Float) (hp0 : (0.0 : Float) ≤ d.f_b.f_p)
    (hp1 : d.f_b.f_p ≤ (1.0 : Float)) :
    (∀ x : Int, (0.0 : Float) ≤ Bernoulli.cdf d x ∧ Bernoulli.cdf d x ≤ (1.0 : Float)) ∧
    (∀ x y : Int, x ≤ y → Bernoulli.cdf d x ≤ Bernoulli.cdf d y) :=
  ⟨fun x => bernoulli_cdf_mem_unit floatLaws_float d hp0 hp1 x,
   fun _ _ h => bernoulli_cdf_mono_fl floatLaws_float d hp0 hp1 h⟩

/-! ### DiscreteUniform -/

/-- full(Float): `DiscreteUniform.cdf`/`sf` in `[0,1]`, monotone / antitone -/
theorem discreteUniform_cdf_sf_float (d : DiscreteUniform) (ok : DiscreteUniformOK Float d) :
    (∀ x : Int, (0.0 : Float) ≤ DiscreteUniform.cdf (α := Float) d x ∧
      DiscreteUniform.cdf (α := Float) d x ≤ (1.0 : Float)) ∧
    (∀ x y : Int, x ≤ y → DiscreteUniform.cdf (α := Float) d x ≤ DiscreteUniform.cdf (α := Float) d y) ∧
    (∀ x : Int, (0.0 : Float) ≤ DiscreteUniform.sf (α := Float) d x ∧
      DiscreteUniform.sf (α := Float) d x ≤ (1.0 : Float)) ∧
    (∀ x y : Int, x ≤ y → DiscreteUniform.sf (α := Float) d y ≤ DiscreteUniform.sf (α := Float) d x) :=
  ⟨fun x => du_cdf_mem_unit floatLaws_float d ok x, fun _ _ h => du_cdf_mono floatLaws_float d ok h,
   fun x => C02.du_sf_mem_unit floatLaws_float d ok x, fun _ _ h => C02.du_sf_anti floatLaws_float d ok h⟩

/-! ### Triangular -/

/-- full(Float): `Triangular.cdf`/`sf` not NaN and in `[0,1]` for every non-NaN `f64` -/
theorem triangular_cdf_sf_range_float (d : Triangular Float) (ok : TriangularOK d) {x : Float} (hx : NN x) :
    ((0.0 : Float) ≤ Triangular.cdf d x ∧ Triangular.cdf d x ≤ (1.0 : Float)) ∧
    ((0.0 : Float) ≤ Triangular.sf d x ∧ Triangular.sf d x ≤ (1.0 : Float)) :=
  ⟨triangular_cdf_mem_unit floatLaws_float extraLaws_float d ok hx,
   C02.triangular_sf_mem_unit floatLaws_float extraLaws_float d ok hx⟩

/-- partial(across the mode, see `triangular_cdf_mode_crossing_counterexample`) on Float -/
theorem triangular_cdf_mono_float_partial (d : Triangular Float) (ok : TriangularOK d) {x y : Float}
    (hxy : x ≤ y) (hside : x ≤ d.f_min ∨ y ≤ d.f_mode ∨ d.f_mode < x ∨ d.f_max ≤ y) :
    Triangular.cdf d x ≤ Triangular.cdf d y :=
  triangular_cdf_mono_partial floatLaws_float extraLaws_float d ok hxy hside

/-- full(Float): `Triangular.pdf` is never NaN and never negative, for EVERY `f64` argument -/
theorem triangular_pdf_nonneg_float (d : Triangular Float) (ok : TriangularOK d) (x : Float) :
    (0.0 : Float) ≤ Triangular.pdf d x := C03.triangular_pdf_nonneg_fl floatLaws_float extraLaws_float d ok x

/-! ### Categorical -/

/-- full(Float): for a `Categorical` built by `new` with a finite total mass: `cdf`, `sf`, `pmf` in `[0,1]`
    (hence not NaN), `cdf` monotone, `sf` antitone -/
theorem categorical_float (pm : List Float) (c : Categorical Float)
    (h : Model.Categorical.new pm = .ok c) (hfin : Spec.Fin (Categorical.cdf_max c)) :
    (∀ x : Int, 0 ≤ x → (0.0 : Float) ≤ Categorical.cdf c x ∧ Categorical.cdf c x ≤ (1.0 : Float)) ∧
    (∀ x y : Int, 0 ≤ x → x ≤ y → Categorical.cdf c x ≤ Categorical.cdf c y) ∧
    (∀ x : Int, 0 ≤ x → (0.0 : Float) ≤ Categorical.sf c x ∧ Categorical.sf c x ≤ (1.0 : Float)) ∧
    (∀ x y : Int, 0 ≤ x → x ≤ y → Categorical.sf c y ≤ Categorical.sf c x) ∧
    (∀ x : Int, (0.0 : Float) ≤ Categorical.pmf c x ∧ Categorical.pmf c x ≤ (1.0 : Float)) := by
  have ok := categorical_new_tableOK floatLaws_float extraLaws_float pm c h hfin
  have hsf := (categorical_new_spec floatLaws_float extraLaws_float pm c h).2.2.2.1
  exact ⟨fun _ h0 => categorical_cdf_mem_unit floatLaws_float c ok h0,
    fun _ _ h0 hxy => categorical_cdf_mono floatLaws_float c ok h0 hxy,
    fun _ h0 => C02.categorical_sf_mem_unit floatLaws_float c ok hsf h0,
    fun _ _ h0 hxy => C02.categorical_sf_anti floatLaws_float c ok hsf h0 hxy,
    fun x => C03.categorical_pmf_mem_unit floatLaws_float extraLaws_float pm c h hfin x⟩

/-! ### Empirical -/

/-- full(Float): for every non-empty `Empirical` built from a list of doubles (`from_iter`, fewer than `2^64`
    points): `cdf`/`sf` not NaN, in `[0,1]`, monotone / antitone, for every non-NaN argument -/
theorem empirical_from_iter_float (l : List Float) (hne : (Empirical.from_iter l).f_data ≠ [])
    (hmax : (Empirical.from_iter l).f_sum ≤ 2 ^ 64) :
    (∀ x : Float, NN x → (0.0 : Float) ≤ Empirical.cdf (Empirical.from_iter l) x ∧
      Empirical.cdf (Empirical.from_iter l) x ≤ (1.0 : Float)) ∧
    (∀ x y : Float, x ≤ y → Empirical.cdf (Empirical.from_iter l) x ≤ Empirical.cdf (Empirical.from_iter l) y) ∧
    (∀ x : Float, NN x → (0.0 : Float) ≤ Empirical.sf (Empirical.from_iter l) x ∧
      Empirical.sf (Empirical.from_iter l) x ≤ (1.0 : Float)) ∧
    (∀ x y : Float, x ≤ y → Empirical.sf (Empirical.from_iter l) y ≤ Empirical.sf (Empirical.from_iter l) x) := by
  have ok := empOK_from_iter l
  exact ⟨fun _ hx => empirical_cdf_mem_unit floatLaws_float _ ok hne hmax hx,
    fun _ _ h => empirical_cdf_mono floatLaws_float _ ok hne hmax h,
    fun _ hx => C02.empirical_sf_mem_unit floatLaws_float _ ok hne hmax hx,
    fun _ _ h => C02.empirical_sf_anti floatLaws_float _ ok hne hmax h⟩

end Statrs.Props.C01
