/-
  C01/C02 (float level, `…_libm`) — `Gumbel.cdf = exp(−exp(−(x−μ)/σ))` and `Gumbel.sf = −expm1(−exp(−(x−μ)/σ))` on
  every carrier satisfying the IEEE order laws, `ExtraLaws` and `LibmLaws`:
    * `cdf`: never NaN for a non-NaN argument, in `[0,1]`, fully monotone, `== 1` at `+∞`;
    * `sf`: fully antitone — `…_partial`: its range `[0,1]` needs `expm1 0 = 0` and `−1 ≤ expm1`, which are not
      in `LibmLaws` (only `expm1_mono` is).
  Hypotheses: what `Gumbel.new` guarantees (`location` not NaN, `0 < scale`) plus `Fin location`, `Fin scale`.
  Left out: `cdf(−∞) == 0` (no law `exp(+∞) = +∞`), and `pdf`: `(1/σ)·exp(z)·exp(−exp z)` is `∞·0 = NaN` for a
  subnormal `σ` and large `x` (e.g. `σ = 5e-324`, `x − μ = 1`: `1/σ = ∞`, `exp(−∞) = 0`).
-/
import Statrs.Gen.D_gumbel
import Statrs.Lemmas.FloatLawsLibm
set_option linter.unusedSectionVars false
namespace Statrs.Props.C01
open Statrs Statrs.Gen Statrs.Spec

section
variable {α : Type} [Add α] [Sub α] [Mul α] [Div α] [Neg α] [LT α] [LE α] [BEq α]
  [DecidableLT α] [DecidableLE α] [OfScientific α] [Inhabited α] [RFun α]
variable (L : FloatLaws α) (E : ExtraLaws α) (M : LibmLaws α)
variable (d : Gumbel α) (hloc : Spec.Fin d.f_location) (hs : (0.0 : α) < d.f_scale) (hsf : Spec.Fin d.f_scale)
include L E M hloc hs hsf

omit E M in
/-- full(∀α): the standardised argument `−(x − location)/scale` is not NaN for a non-NaN `x` -/
theorem gumbel_z_nn {x : α} (hx : NN x) : NN ((-(x - d.f_location)) / d.f_scale) :=
  L.div_nn (L.neg_nn (L.sub_nn hx (L.fin_nn' hloc) (Or.inr hloc))) (L.lt_nnr hs) (L.pos_not_beq_zero hs)
    (Or.inr hsf)

omit E in
/-- rel(LibmLaws): the inner value `−exp(−(x−μ)/σ)` is `≤ 0`, and increases with `x` -/
theorem gumbel_inner {x : α} (hx : NN x) :
    -(RFun.exp ((-(x - d.f_location)) / d.f_scale)) ≤ (0.0 : α) :=
  L.neg_nonpos (M.exp_nonneg _ (gumbel_z_nn L d hloc hs hsf hx))

omit E in
/-- rel(LibmLaws): the inner value `−exp(−(x−μ)/σ)` increases with `x` -/
theorem gumbel_inner_mono {x y : α} (hxy : x ≤ y) :
    -(RFun.exp ((-(x - d.f_location)) / d.f_scale)) ≤ -(RFun.exp ((-(y - d.f_location)) / d.f_scale)) := by
  have hx := L.le_nnl hxy
  have hy := L.le_nnr hxy
  have hn := L.fin_nn' hloc
  have h1 : x - d.f_location ≤ y - d.f_location :=
    L.mono.sub_le_sub_right _ _ _ hxy (L.sub_nn hx hn (Or.inr hloc)) (L.sub_nn hy hn (Or.inr hloc))
  have h2 := L.mono.div_le_div_right _ _ _ (L.mono.neg_le_neg _ _ h1) hs
    (gumbel_z_nn L d hloc hs hsf hy) (gumbel_z_nn L d hloc hs hsf hx)
  exact L.mono.neg_le_neg _ _ (M.exp_mono _ _ h2)

omit E in
/-- rel(LibmLaws): `0 ≤ cdf x ≤ 1` for every non-NaN `x` (also `±∞`) -/
theorem gumbel_cdf_mem_unit_libm {x : α} (hx : NN x) :
    (0.0 : α) ≤ Gumbel.cdf d x ∧ Gumbel.cdf d x ≤ (1.0 : α) :=
  M.exp_mem_unit L (gumbel_inner L M d hloc hs hsf hx)

omit E in
/-- rel(LibmLaws): `cdf x` is not NaN for a non-NaN `x` -/
theorem gumbel_cdf_nn_libm {x : α} (hx : NN x) : NN (Gumbel.cdf d x) :=
  L.le_nnr (gumbel_cdf_mem_unit_libm L M d hloc hs hsf hx).1

omit E in
/-- rel(LibmLaws): FULL float monotonicity `x ≤ y ⇒ cdf x ≤ cdf y` -/
theorem gumbel_cdf_mono_libm {x y : α} (hxy : x ≤ y) : Gumbel.cdf d x ≤ Gumbel.cdf d y :=
  M.exp_mono _ _ (gumbel_inner_mono L M d hloc hs hsf hxy)

omit E hloc hs hsf in
/-- rel(LibmLaws): a NaN argument gives NaN -/
theorem gumbel_cdf_nan_libm {x : α} (hx : RFun.isNaN x = true) : RFun.isNaN (Gumbel.cdf d x) = true := by
  unfold Gumbel.cdf
  rw [M.exp_nan, L.nan.neg_nan, M.exp_nan]
  apply L.div_nan_left; rw [L.nan.neg_nan]; exact L.sub_nan_left _ hx

/-- rel(LibmLaws): `cdf(+∞) == 1` -/
theorem gumbel_cdf_inf_libm : (Gumbel.cdf d (RFun.inf : α) == (1.0 : α)) = true := by
  unfold Gumbel.cdf
  have ht := E.inf_sub d.f_location (L.sub_nn L.inf_nn (L.fin_nn' hloc) (Or.inr hloc))
  have h1 : ((-((RFun.inf : α) - d.f_location)) == (RFun.negInf : α)) = true :=
    L.beq_tr (ExtraLaws.neg_congr L ht) E.neg_inf_eq
  have hq := E.negInf_div _ hs hsf
  have h2 : (((-((RFun.inf : α) - d.f_location)) / d.f_scale) == (RFun.negInf : α)) = true :=
    L.beq_tr (L.div_congr_left h1 hs (gumbel_z_nn L d hloc hs hsf L.inf_nn) (L.beq_nnl hq)) hq
  have h3 := M.exp_of_beq_negInf L h2
  have h4 : ((-(RFun.exp ((-((RFun.inf : α) - d.f_location)) / d.f_scale))) == (0.0 : α)) = true :=
    L.beq_tr (ExtraLaws.neg_congr L h3) L.exact.neg_zero
  exact M.exp_of_beq_zero L h4

omit E in
/-- partial(range of `sf` not covered: `LibmLaws` has no `expm1 0 = 0` / `−1 ≤ expm1` law):
    FULL float antitonicity `x ≤ y ⇒ sf y ≤ sf x` -/
theorem gumbel_sf_anti_libm_partial {x y : α} (hxy : x ≤ y) : Gumbel.sf d y ≤ Gumbel.sf d x := by
  unfold Gumbel.sf
  exact L.mono.neg_le_neg _ _ (M.expm1_mono _ _ (gumbel_inner_mono L M d hloc hs hsf hxy))

end
end Statrs.Props.C01
