/-
  C01 (float level, `…_libm`) — `Laplace.cdf` on every carrier satisfying the IEEE order laws, `ExtraLaws`
  (incl. the `abs` laws and the exact facts `1/2 = 0.5`, `1 − 0.5 = 0.5`) and `LibmLaws`: never NaN for a
  non-NaN argument, in `[0,1]` (more precisely `≤ 0.5` left of the location and `≥ 0.5` at/right of it), FULLY
  monotone (the two branches meet at `0.5` from both sides, so no ulp crossing), `== 0` at `−∞`, `== 1` at `+∞`.

  Hypotheses: what `Laplace.new` guarantees (`location` not NaN, `0 < scale`) plus `Fin location`, `Fin scale`:
  the constructor accepts `location = ±∞` (then `cdf(location) = 1 − exp(−|∞ − ∞|/s)/2 = NaN`) and `scale = +∞`
  (then `cdf(±∞)` is `exp(−∞/∞)`-NaN).
-/
import Statrs.Gen.D_laplace
import Statrs.Inst.Float
import Statrs.Lemmas.FloatLawsLibm
set_option linter.unusedSectionVars false
namespace Statrs.Props.C01
open Statrs Statrs.Gen Statrs.Spec

section
variable {α : Type} [Add α] [Sub α] [Mul α] [Div α] [Neg α] [LT α] [LE α] [BEq α]
  [DecidableLT α] [DecidableLE α] [OfScientific α] [Inhabited α] [RFun α]

/-- the common sub-expression `y = exp(−|x − location| / scale) / 2.0` of `Laplace.cdf`/`sf` -/
def lapY (d : Laplace α) (x : α) : α :=
  (RFun.exp ((-(RFun.abs (x - d.f_location))) / d.f_scale)) / (2.0 : α)

/-- full(∀α): `Laplace.cdf` in terms of `lapY` (definitional) -/
theorem laplace_cdf_eq (d : Laplace α) (x : α) :
    Laplace.cdf d x = if d.f_location ≤ x then (1.0 : α) - lapY d x else lapY d x := rfl

variable (L : FloatLaws α) (E : ExtraLaws α) (M : LibmLaws α) (d : Laplace α)
  (hloc : Spec.Fin d.f_location) (hs : (0.0 : α) < d.f_scale) (hsf : Spec.Fin d.f_scale)
include L E M hloc hs hsf

omit M hs hsf in
/-- full(∀α): `0 ≤ |x − location|` for a non-NaN `x` -/
theorem lap_abs_nonneg {x : α} (hx : NN x) : (0.0 : α) ≤ RFun.abs (x - d.f_location) := by
  have ht : NN (x - d.f_location) := L.sub_nn hx (L.fin_nn' hloc) (Or.inr hloc)
  rcases L.ord.le_total _ _ L.zero_nn ht with h | h
  · exact L.le_of_le_of_beq h (L.beq_symm (E.abs_of_nonneg _ h))
  · exact L.le_of_le_of_beq (L.neg_nonneg h) (L.beq_symm (E.abs_of_nonpos _ h))

/-- rel(LibmLaws): the map `w ↦ exp(−w/scale)/2` on `0 ≤ w`: value in `[0, 0.5]`, not NaN -/
theorem lap_g_mem {w : α} (hw : (0.0 : α) ≤ w) :
    (0.0 : α) ≤ (RFun.exp ((-w) / d.f_scale)) / (2.0 : α) ∧
    (RFun.exp ((-w) / d.f_scale)) / (2.0 : α) ≤ (0.5 : α) ∧ (-w) / d.f_scale ≤ (0.0 : α) := by
  have hs0 := L.pos_not_beq_zero hs
  have hz := L.exact.zero_div _ (L.lt_nnr hs) hs0
  have hn : NN ((-w) / d.f_scale) := L.div_nn (L.neg_nn (L.le_nnr hw)) (L.lt_nnr hs) hs0 (Or.inr hsf)
  have hle : (-w) / d.f_scale ≤ (0.0 : α) :=
    L.le_of_le_of_beq (L.mono.div_le_div_right _ _ _ (L.neg_nonpos hw) hs hn (L.beq_nnl hz)) hz
  obtain ⟨e0, e1⟩ := M.exp_mem_unit L hle
  have hfe := M.exp_fin_of_nonpos L E hle
  refine ⟨L.div_nonneg e0 L.zero_lt_two (Or.inl hfe), ?_, hle⟩
  exact L.le_of_le_of_beq (L.mono.div_le_div_right _ _ _ e1 L.zero_lt_two
    (L.div_nn (L.fin_nn' hfe) L.two_nn (L.pos_not_beq_zero L.zero_lt_two) (Or.inl hfe))
    (L.beq_nnl E.one_div_two)) E.one_div_two

/-- rel(LibmLaws): `w ↦ exp(−w/scale)/2` is antitone on `0 ≤ w` -/
theorem lap_g_anti {w₁ w₂ : α} (h0 : (0.0 : α) ≤ w₁) (h : w₁ ≤ w₂) :
    (RFun.exp ((-w₂) / d.f_scale)) / (2.0 : α) ≤ (RFun.exp ((-w₁) / d.f_scale)) / (2.0 : α) := by
  obtain ⟨a1, _, c1⟩ := lap_g_mem L E M d hloc hs hsf h0
  obtain ⟨a2, _, c2⟩ := lap_g_mem L E M d hloc hs hsf (L.le_tr h0 h)
  have hz : (-w₂) / d.f_scale ≤ (-w₁) / d.f_scale :=
    L.mono.div_le_div_right _ _ _ (L.mono.neg_le_neg _ _ h) hs (L.le_nnl c2) (L.le_nnl c1)
  exact L.mono.div_le_div_right _ _ _ (M.exp_mono _ _ hz) L.zero_lt_two (L.le_nnr a2) (L.le_nnr a1)

/-- rel(LibmLaws): `0 ≤ y ≤ 0.5` for a non-NaN `x` -/
theorem lapY_mem {x : α} (hx : NN x) : (0.0 : α) ≤ lapY d x ∧ lapY d x ≤ (0.5 : α) := by
  obtain ⟨a, b, _⟩ := lap_g_mem L E M d hloc hs hsf (lap_abs_nonneg L E d hloc hx)
  exact ⟨a, b⟩

/-- rel(LibmLaws): right of the location `|x − location|` grows with `x`, so `y` decreases -/
theorem lapY_anti_right {x y : α} (h1 : d.f_location ≤ x) (hxy : x ≤ y) : lapY d y ≤ lapY d x := by
  have tx := L.sub_nonneg_of_le hloc h1
  have ty := L.sub_nonneg_of_le hloc (L.le_tr h1 hxy)
  have hle : x - d.f_location ≤ y - d.f_location :=
    L.mono.sub_le_sub_right _ _ _ hxy (L.le_nnr tx) (L.le_nnr ty)
  have hw : RFun.abs (x - d.f_location) ≤ RFun.abs (y - d.f_location) :=
    L.le_of_beq_of_le (E.abs_of_nonneg _ tx) (L.le_of_le_of_beq hle (L.beq_symm (E.abs_of_nonneg _ ty)))
  exact lap_g_anti L E M d hloc hs hsf (lap_abs_nonneg L E d hloc (L.le_nnl hxy)) hw

/-- rel(LibmLaws): left of the location `|x − location|` shrinks with `x`, so `y` increases -/
theorem lapY_mono_left {x y : α} (hxy : x ≤ y) (h2 : y ≤ d.f_location) : lapY d x ≤ lapY d y := by
  have hx := L.le_nnl hxy
  have hy := L.le_nnr hxy
  have hnx : NN (x - d.f_location) := L.sub_nn hx (L.fin_nn' hloc) (Or.inr hloc)
  have hny : NN (y - d.f_location) := L.sub_nn hy (L.fin_nn' hloc) (Or.inr hloc)
  have hz := L.exact.sub_self _ hloc
  have ty : y - d.f_location ≤ (0.0 : α) :=
    L.le_of_le_of_beq (L.mono.sub_le_sub_right _ _ _ h2 hny (L.beq_nnl hz)) hz
  have hle : x - d.f_location ≤ y - d.f_location := L.mono.sub_le_sub_right _ _ _ hxy hnx hny
  have tx : x - d.f_location ≤ (0.0 : α) := L.le_tr hle ty
  have hw : RFun.abs (y - d.f_location) ≤ RFun.abs (x - d.f_location) :=
    L.le_of_beq_of_le (E.abs_of_nonpos _ ty)
      (L.le_of_le_of_beq (L.mono.neg_le_neg _ _ hle) (L.beq_symm (E.abs_of_nonpos _ tx)))
  exact lap_g_anti L E M d hloc hs hsf (lap_abs_nonneg L E d hloc hy) hw

/-- rel(LibmLaws): `0 ≤ cdf x ≤ 1` for every non-NaN `x`; moreover `cdf x ≤ 0.5` left of the location and
    `0.5 ≤ cdf x` at/right of it -/
theorem laplace_cdf_mem_unit_libm {x : α} (hx : NN x) :
    (0.0 : α) ≤ Laplace.cdf d x ∧ Laplace.cdf d x ≤ (1.0 : α) ∧
    (d.f_location ≤ x → (0.5 : α) ≤ Laplace.cdf d x) ∧ (¬ d.f_location ≤ x → Laplace.cdf d x ≤ (0.5 : α)) := by
  obtain ⟨a, b⟩ := lapY_mem L E M d hloc hs hsf hx
  rw [laplace_cdf_eq]
  by_cases h : d.f_location ≤ x
  · simp only [if_pos h]
    obtain ⟨c1, c2⟩ := L.one_sub_mem_unit a (L.le_tr b L.half_le_one)
    exact ⟨c1, c2, fun _ => L.le_of_beq_of_le (L.beq_symm E.one_sub_half) (L.one_sub_anti b),
      fun h' => absurd h h'⟩
  · simp only [if_neg h]
    exact ⟨a, L.le_tr b L.half_le_one, fun h' => absurd h' h, fun _ => b⟩

/-- rel(LibmLaws): `cdf x` is not NaN for a non-NaN `x` -/
theorem laplace_cdf_nn_libm {x : α} (hx : NN x) : NN (Laplace.cdf d x) :=
  L.le_nnr (laplace_cdf_mem_unit_libm L E M d hloc hs hsf hx).1

omit hloc hs hsf in
/-- rel(LibmLaws): a NaN argument gives NaN -/
theorem laplace_cdf_nan_libm {x : α} (hx : RFun.isNaN x = true) : RFun.isNaN (Laplace.cdf d x) = true := by
  rw [laplace_cdf_eq, if_neg (L.not_le_nan_right hx)]
  unfold lapY
  apply L.div_nan_left; rw [M.exp_nan]; apply L.div_nan_left; rw [L.nan.neg_nan, E.abs_nan]
  exact L.sub_nan_left _ hx

/-- rel(LibmLaws): FULL float monotonicity `x ≤ y ⇒ cdf x ≤ cdf y` (also across the location: the left branch
    is `≤ 0.5`, the right branch `≥ 0.5`) -/
theorem laplace_cdf_mono_libm {x y : α} (hxy : x ≤ y) : Laplace.cdf d x ≤ Laplace.cdf d y := by
  have hx := L.le_nnl hxy
  have hy := L.le_nnr hxy
  by_cases h1 : d.f_location ≤ x
  · have h2 : d.f_location ≤ y := L.le_tr h1 hxy
    rw [laplace_cdf_eq, laplace_cdf_eq, if_pos h1, if_pos h2]
    exact L.one_sub_anti (lapY_anti_right L E M d hloc hs hsf h1 hxy)
  · by_cases h2 : d.f_location ≤ y
    · exact L.le_tr ((laplace_cdf_mem_unit_libm L E M d hloc hs hsf hx).2.2.2 h1)
        ((laplace_cdf_mem_unit_libm L E M d hloc hs hsf hy).2.2.1 h2)
    · rw [laplace_cdf_eq, laplace_cdf_eq, if_neg h1, if_neg h2]
      exact lapY_mono_left L E M d hloc hs hsf hxy
        (L.lt_le (L.lt_of_not_le hy (L.fin_nn' hloc) h2))

/-- rel(LibmLaws): `y == 0` at `−∞` and at `+∞` -/
theorem lapY_inf : (lapY d (RFun.negInf : α) == (0.0 : α)) = true ∧ (lapY d (RFun.inf : α) == (0.0 : α)) = true := by
  have hs0 := L.pos_not_beq_zero hs
  have key : ∀ w : α, (w == (RFun.inf : α)) = true →
      ((RFun.exp ((-w) / d.f_scale)) / (2.0 : α) == (0.0 : α)) = true := by
    intro w hw
    have h1 : ((-w) == (RFun.negInf : α)) = true := L.beq_tr (ExtraLaws.neg_congr L hw) E.neg_inf_eq
    have hn : NN ((-w) / d.f_scale) := L.div_nn (L.beq_nnl h1) (L.lt_nnr hs) hs0 (Or.inr hsf)
    have hq := E.negInf_div _ hs hsf
    have h2 : (((-w) / d.f_scale) == (RFun.negInf : α)) = true :=
      L.beq_tr (L.div_congr_left h1 hs hn (L.beq_nnl hq)) hq
    have h3 := M.exp_of_beq_negInf L h2
    have hz := L.exact.zero_div (2.0 : α) L.two_nn (L.pos_not_beq_zero L.zero_lt_two)
    have hfe : Spec.Fin (RFun.exp ((-w) / d.f_scale)) :=
      M.exp_fin_of_nonpos L E (L.le_tr (L.beq_le h2) (L.negInf_le L.zero_nn))
    exact L.beq_tr (L.div_congr_left h3 L.zero_lt_two
      (L.div_nn (L.fin_nn' hfe) L.two_nn (L.pos_not_beq_zero L.zero_lt_two) (Or.inl hfe)) (L.beq_nnl hz)) hz
  constructor
  · unfold lapY
    apply key
    have ht := E.negInf_sub d.f_location (L.sub_nn L.negInf_nn (L.fin_nn' hloc) (Or.inr hloc))
    have hle : (RFun.negInf : α) - d.f_location ≤ (0.0 : α) := L.le_tr (L.beq_le ht) (L.negInf_le L.zero_nn)
    -- `|t| == −t == −(−∞) == +∞`
    have h1 := E.abs_of_nonpos _ hle
    have h2 : ((-((RFun.negInf : α) - d.f_location)) == (-(RFun.negInf : α))) = true := ExtraLaws.neg_congr L ht
    have h3 : ((-(RFun.negInf : α)) == (RFun.inf : α)) = true :=
      L.beq_tr (L.beq_symm (ExtraLaws.neg_congr L E.neg_inf_eq)) (L.exact.neg_neg _ L.inf_nn)
    exact L.beq_tr h1 (L.beq_tr h2 h3)
  · unfold lapY
    apply key
    have ht := E.inf_sub d.f_location (L.sub_nn L.inf_nn (L.fin_nn' hloc) (Or.inr hloc))
    have hge : (0.0 : α) ≤ (RFun.inf : α) - d.f_location := L.le_tr (L.le_inf L.zero_nn) (L.beq_ge ht)
    exact L.beq_tr (E.abs_of_nonneg _ hge) ht

/-- rel(LibmLaws): `cdf(−∞) == 0` and `cdf(+∞) == 1` -/
theorem laplace_cdf_ends_libm :
    (Laplace.cdf d (RFun.negInf : α) == (0.0 : α)) = true ∧ (Laplace.cdf d (RFun.inf : α) == (1.0 : α)) = true := by
  obtain ⟨h1, h2⟩ := lapY_inf L E M d hloc hs hsf
  constructor
  · rw [laplace_cdf_eq, if_neg (L.lt_not_le (E.negInf_lt_fin L hloc))]; exact h1
  · rw [laplace_cdf_eq, if_pos (L.le_inf (L.fin_nn' hloc))]
    exact L.beq_tr (L.one_sub_congr h2) (L.exact.sub_zero _ L.one_nn)

end

/-- counterexample rel(FloatLaws Float, LibmLaws Float): `Laplace::new(f64::INFINITY, 1.0)` is accepted (the
    location is only checked for NaN), and `cdf(+∞) = 1 − exp(−|∞ − ∞|/1)/2 = NaN`.  The argument of `exp` is
    evaluated by the kernel on Lean's IEEE `Float` model; NaN propagation through the opaque libm `exp` is the
    premise `LibmLaws.exp_nan`. -/
theorem laplace_cdf_inf_location_counterexample (L : FloatLaws Float) (M : LibmLaws Float) :
    Except.isOk (Laplace.new (RFun.inf : Float) 1.0) = true ∧
    RFun.isNaN (Laplace.cdf ({ f_location := RFun.inf, f_scale := 1.0 } : Laplace Float) RFun.inf) = true := by
  refine ⟨by decide, ?_⟩
  rw [laplace_cdf_eq, if_pos (by decide)]
  apply L.sub_nan_right
  unfold lapY
  apply L.div_nan_left
  rw [M.exp_nan]
  decide

end Statrs.Props.C01
