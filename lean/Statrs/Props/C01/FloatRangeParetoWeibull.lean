/-
  C01/C02/C03 (float level) — `Pareto` and `Weibull`: only the GUARD branches of `cdf`/`sf`/`pdf` are covered
  (exact `0`/`1` below the support and at `−∞`; `Weibull.pdf(+∞) = 0`).  All interior branches go through
  `f64::powf`, for which neither IEEE-754 nor `LibmLaws` gives a law — left out (`…_partial`).
  Hypotheses: what the constructors guarantee (`0 < scale`).
-/
import Statrs.Gen.D_pareto
import Statrs.Gen.D_weibull
import Statrs.Lemmas.FloatLawsLibm
set_option linter.unusedSectionVars false
namespace Statrs.Props.C01
open Statrs Statrs.Gen Statrs.Spec

section
variable {α : Type} [Add α] [Sub α] [Mul α] [Div α] [Neg α] [LT α] [LE α] [BEq α]
  [DecidableLT α] [DecidableLE α] [OfScientific α] [Inhabited α] [RFun α]

/-- partial(interior needs `powf`): below the scale (= minimum) `cdf = 0`, `sf = 1`, `pdf = 0` (literals) -/
theorem pareto_below_partial (d : Pareto α) {x : α} (h : x < d.f_scale) :
    Pareto.cdf d x = (0.0 : α) ∧ Pareto.sf d x = (1.0 : α) ∧ Pareto.pdf d x = (0.0 : α) := by
  unfold Pareto.cdf Pareto.sf Pareto.pdf; simp only [if_pos h, and_self]

/-- partial(interior needs `powf`): at `−∞`: `cdf = 0`, `sf = 1`, `pdf = 0` -/
theorem pareto_negInf_partial (L : FloatLaws α) (d : Pareto α) (hs : (0.0 : α) < d.f_scale) :
    Pareto.cdf d (RFun.negInf : α) = (0.0 : α) ∧ Pareto.sf d (RFun.negInf : α) = (1.0 : α) ∧
    Pareto.pdf d (RFun.negInf : α) = (0.0 : α) :=
  pareto_below_partial d (L.lt_of_le_of_lt' (L.negInf_le L.zero_nn) hs)

/-- partial(interior needs `powf`): a NaN argument takes the interior branch (`NaN < scale` is false) -/
theorem pareto_nan_arg_partial (L : FloatLaws α) (d : Pareto α) {x : α} (hx : RFun.isNaN x = true) :
    Pareto.cdf d x = (1.0 : α) - RFun.pow (d.f_scale / x) d.f_shape ∧
    Pareto.sf d x = RFun.pow (d.f_scale / x) d.f_shape := by
  unfold Pareto.cdf Pareto.sf; simp only [if_neg (L.not_lt_nan_left hx), and_self]

/-- partial(interior needs `powf`): below `0` (= minimum) `cdf = 0`, `sf = 1`, `pdf = 0` (literals) -/
theorem weibull_below_partial (d : Weibull α) {x : α} (h : x < (0.0 : α)) :
    Weibull.cdf d x = (0.0 : α) ∧ Weibull.sf d x = (1.0 : α) ∧ Weibull.pdf d x = (0.0 : α) := by
  unfold Weibull.cdf Weibull.sf Weibull.pdf; simp only [if_pos h, and_self]

/-- partial(interior needs `powf`): at `−∞`: `cdf = 0`, `sf = 1`, `pdf = 0`; and `pdf(+∞) = 0` (the explicit
    `is_infinite` guard) -/
theorem weibull_inf_partial (L : FloatLaws α) (E : ExtraLaws α) (d : Weibull α) :
    Weibull.cdf d (RFun.negInf : α) = (0.0 : α) ∧ Weibull.sf d (RFun.negInf : α) = (1.0 : α) ∧
    Weibull.pdf d (RFun.negInf : α) = (0.0 : α) ∧ Weibull.pdf d (RFun.inf : α) = (0.0 : α) := by
  obtain ⟨a, b, c⟩ := weibull_below_partial d (E.negInf_lt_fin L L.zero_fin)
  refine ⟨a, b, c, ?_⟩
  unfold Weibull.pdf
  rw [if_neg (L.le_not_lt (L.le_inf L.zero_nn)),
    if_neg (fun h => E.inf_ne_zero L L.inf.inf_isInf h.1), if_pos L.inf.inf_isInf]

end
end Statrs.Props.C01
