/-
  C01 (float level) — `Triangular.cdf` on every carrier satisfying the IEEE order laws (+ `ExtraLaws`):
  never NaN for a non-NaN argument, in `[0,1]`, `0` at/below `min` and at `−∞`, `1` at/above `max` and at
  `+∞`, monotone WITHIN each polynomial branch and across the `0`/`1` guards.

  Monotonicity ACROSS the mode is false in IEEE arithmetic (the two branches are rounded independently and
  cross by one ulp): `triangular_cdf_mode_crossing_counterexample` (kernel-evaluated `Float` witness:
  `Triangular(0, 3, 0.995)`, `cdf(nextUp(0.995)) < cdf(0.995)`).

  Hypotheses: what `Triangular.new` guarantees (finite `min ≤ mode ≤ max`, `min < max`) plus the genuine
  side conditions, none of which the constructor checks:
    * `Fin (max − min)`                                  (no overflow of the width),
    * `0 < (max−min)·(mode−min)` and finite if `min < mode`   (no underflow to 0 / overflow of the denominator),
    * `0 < (max−min)·(max−mode)` and finite if `mode < max`.
  Without them the code returns NaN: `triangular_cdf_underflow_counterexample` (`Triangular(0, 1e-200, 1e-200)`,
  `cdf(5e-201) = 0/0`), `triangular_cdf_overflow_counterexample` (`Triangular(0, 1e200, 1e200)`, `cdf(5e199) = ∞/∞`).
-/
import Statrs.Gen.D_triangular
import Statrs.Inst.Float
import Statrs.Lemmas.FloatLawsBasic
import Statrs.Lemmas.FloatLawsExtra
set_option linter.unusedSectionVars false
namespace Statrs.Props.C01
open Statrs Statrs.Gen Statrs.Spec

section
variable {α : Type} [Add α] [Sub α] [Mul α] [Div α] [Neg α] [LT α] [LE α] [BEq α]
  [DecidableLT α] [DecidableLE α] [OfScientific α] [Inhabited α] [RFun α]

/-- What `Triangular.new` guarantees about the fields, plus the no-overflow/no-underflow side conditions. -/
structure TriangularOK (d : Triangular α) : Prop where
  min_fin : Spec.Fin d.f_min
  max_fin : Spec.Fin d.f_max
  mode_fin : Spec.Fin d.f_mode
  min_le_mode : d.f_min ≤ d.f_mode
  mode_le_max : d.f_mode ≤ d.f_max
  lt : d.f_min < d.f_max
  /-- `max − min` does not overflow (NOT checked by `Triangular::new`) -/
  width_fin : Spec.Fin (d.f_max - d.f_min)
  /-- the denominator of the lower branch neither underflows to zero nor overflows (NOT checked) -/
  den_lo : d.f_min < d.f_mode →
    (0.0 : α) < (d.f_max - d.f_min) * (d.f_mode - d.f_min) ∧
      Spec.Fin ((d.f_max - d.f_min) * (d.f_mode - d.f_min))
  /-- the denominator of the upper branch neither underflows to zero nor overflows (NOT checked) -/
  den_hi : d.f_mode < d.f_max →
    (0.0 : α) < (d.f_max - d.f_min) * (d.f_max - d.f_mode) ∧
      Spec.Fin ((d.f_max - d.f_min) * (d.f_max - d.f_mode))

variable (L : FloatLaws α) (E : ExtraLaws α) (d : Triangular α) (ok : TriangularOK d)
include L E ok

/-- full(∀α): for `min ≤ x ≤ max`: `0 ≤ x − min ≤ max − min`, finite -/
theorem tri_sub_min {x : α} (h1 : d.f_min ≤ x) (h2 : x ≤ d.f_max) :
    (0.0 : α) ≤ x - d.f_min ∧ x - d.f_min ≤ d.f_max - d.f_min ∧ Spec.Fin (x - d.f_min) := by
  have h0 := L.sub_nonneg_of_le ok.min_fin h1
  have hle : x - d.f_min ≤ d.f_max - d.f_min :=
    L.mono.sub_le_sub_right _ _ _ h2 (L.le_nnr h0) (L.fin_nn' ok.width_fin)
  exact ⟨h0, hle, E.fin_of_between L L.zero_fin ok.width_fin h0 hle⟩

/-- full(∀α): for `min ≤ x ≤ max`: `0 ≤ max − x ≤ max − min`, finite -/
theorem tri_max_sub {x : α} (h1 : d.f_min ≤ x) (h2 : x ≤ d.f_max) :
    (0.0 : α) ≤ d.f_max - x ∧ d.f_max - x ≤ d.f_max - d.f_min ∧ Spec.Fin (d.f_max - x) := by
  have h0 := L.sub_nonneg_of_le' ok.max_fin h2
  have hle : d.f_max - x ≤ d.f_max - d.f_min :=
    L.mono.sub_le_sub_left _ _ _ h1 (L.fin_nn' ok.width_fin) (L.le_nnr h0)
  exact ⟨h0, hle, E.fin_of_between L L.zero_fin ok.width_fin h0 hle⟩

/-- full(∀α): lower branch (`min < x ≤ mode`): numerator `(x−min)²` is in `[0, (max−min)(mode−min)]` -/
theorem tri_lo_num {x : α} (h1 : d.f_min < x) (h2 : x ≤ d.f_mode) :
    (0.0 : α) ≤ (x - d.f_min) * (x - d.f_min) ∧
    (x - d.f_min) * (x - d.f_min) ≤ (d.f_max - d.f_min) * (d.f_mode - d.f_min) := by
  obtain ⟨a0, a1, a2⟩ := tri_sub_min L E d ok (L.lt_le h1) (L.le_tr h2 ok.mode_le_max)
  obtain ⟨c0, c1, c2⟩ := tri_sub_min L E d ok ok.min_le_mode ok.mode_le_max
  have hxc : x - d.f_min ≤ d.f_mode - d.f_min :=
    L.mono.sub_le_sub_right _ _ _ h2 (L.fin_nn' a2) (L.fin_nn' c2)
  refine ⟨L.mul_nonneg a0 a0 (Or.inl a2) (L.mul_nn a2 a2), ?_⟩
  exact L.mul_le_mul' a0 a1 a0 hxc (L.mul_nn a2 a2) (L.mul_nn ok.width_fin a2) (L.mul_nn ok.width_fin c2)

/-- full(∀α): upper branch (`mode < x < max`): numerator `(max−x)²` is in `[0, (max−min)(max−mode)]` -/
theorem tri_hi_num {x : α} (h1 : d.f_mode < x) (h2 : x < d.f_max) :
    (0.0 : α) ≤ (d.f_max - x) * (d.f_max - x) ∧
    (d.f_max - x) * (d.f_max - x) ≤ (d.f_max - d.f_min) * (d.f_max - d.f_mode) := by
  obtain ⟨a0, a1, a2⟩ := tri_max_sub L E d ok (L.le_tr ok.min_le_mode (L.lt_le h1)) (L.lt_le h2)
  obtain ⟨c0, c1, c2⟩ := tri_max_sub L E d ok ok.min_le_mode ok.mode_le_max
  have hxc : d.f_max - x ≤ d.f_max - d.f_mode :=
    L.mono.sub_le_sub_left _ _ _ (L.lt_le h1) (L.fin_nn' c2) (L.fin_nn' a2)
  refine ⟨L.mul_nonneg a0 a0 (Or.inl a2) (L.mul_nn a2 a2), ?_⟩
  exact L.mul_le_mul' a0 a1 a0 hxc (L.mul_nn a2 a2) (L.mul_nn ok.width_fin a2) (L.mul_nn ok.width_fin c2)

/-- full(∀α): the lower-branch value `(x−min)² / ((max−min)(mode−min))` is in `[0,1]` for `min < x ≤ mode` -/
theorem tri_lo_mem_unit {x : α} (h1 : d.f_min < x) (h2 : x ≤ d.f_mode) :
    (0.0 : α) ≤ ((x - d.f_min) * (x - d.f_min)) / ((d.f_max - d.f_min) * (d.f_mode - d.f_min)) ∧
    ((x - d.f_min) * (x - d.f_min)) / ((d.f_max - d.f_min) * (d.f_mode - d.f_min)) ≤ (1.0 : α) := by
  obtain ⟨n0, n1⟩ := tri_lo_num L E d ok h1 h2
  obtain ⟨dp, df⟩ := ok.den_lo (L.lt_of_lt_of_le' h1 h2)
  exact L.div_mem_unit n0 n1 dp df

/-- full(∀α): the upper-branch quotient `(max−x)² / ((max−min)(max−mode))` is in `[0,1]` for `mode < x < max` -/
theorem tri_hi_mem_unit {x : α} (h1 : d.f_mode < x) (h2 : x < d.f_max) :
    (0.0 : α) ≤ ((d.f_max - x) * (d.f_max - x)) / ((d.f_max - d.f_min) * (d.f_max - d.f_mode)) ∧
    ((d.f_max - x) * (d.f_max - x)) / ((d.f_max - d.f_min) * (d.f_max - d.f_mode)) ≤ (1.0 : α) := by
  obtain ⟨n0, n1⟩ := tri_hi_num L E d ok h1 h2
  obtain ⟨dp, df⟩ := ok.den_hi (L.lt_tr h1 h2)
  exact L.div_mem_unit n0 n1 dp df

omit L E ok in
/-- the four branches of `Triangular.cdf`, as rewriting lemmas -/
theorem tri_cdf_eq_zero {x : α} (h : x ≤ d.f_min) : Triangular.cdf d x = (0.0 : α) := by
  unfold Triangular.cdf; simp only [if_pos h]
omit L E ok in
/-- full(∀α): the lower polynomial branch of `Triangular.cdf` -/
theorem tri_cdf_eq_lo {x : α} (h1 : ¬ x ≤ d.f_min) (h2 : x ≤ d.f_mode) :
    Triangular.cdf d x = ((x - d.f_min) * (x - d.f_min)) / ((d.f_max - d.f_min) * (d.f_mode - d.f_min)) := by
  unfold Triangular.cdf; simp only [if_neg h1, if_pos h2]
omit L E ok in
/-- full(∀α): the upper polynomial branch of `Triangular.cdf` -/
theorem tri_cdf_eq_hi {x : α} (h1 : ¬ x ≤ d.f_min) (h2 : ¬ x ≤ d.f_mode) (h3 : x < d.f_max) :
    Triangular.cdf d x =
      (1.0 : α) - ((d.f_max - x) * (d.f_max - x)) / ((d.f_max - d.f_min) * (d.f_max - d.f_mode)) := by
  unfold Triangular.cdf; simp only [if_neg h1, if_neg h2, if_pos h3]
omit L E ok in
/-- full(∀α): the `1.0` guard branch of `Triangular.cdf` -/
theorem tri_cdf_eq_one {x : α} (h1 : ¬ x ≤ d.f_min) (h2 : ¬ x ≤ d.f_mode) (h3 : ¬ x < d.f_max) :
    Triangular.cdf d x = (1.0 : α) := by
  unfold Triangular.cdf; simp only [if_neg h1, if_neg h2, if_neg h3]

/-- full(∀α): `0 ≤ cdf x ≤ 1` for every non-NaN `x` (±∞ and the ulp neighbours of the knots included) -/
theorem triangular_cdf_mem_unit {x : α} (hx : NN x) :
    (0.0 : α) ≤ Triangular.cdf d x ∧ Triangular.cdf d x ≤ (1.0 : α) := by
  by_cases h1 : x ≤ d.f_min
  · rw [tri_cdf_eq_zero d h1]; exact ⟨L.zero_le_zero, L.zero_le_one⟩
  · have g1 : d.f_min < x := L.lt_of_not_le (L.fin_nn' ok.min_fin) hx h1
    by_cases h2 : x ≤ d.f_mode
    · rw [tri_cdf_eq_lo d h1 h2]; exact tri_lo_mem_unit L E d ok g1 h2
    · have g2 : d.f_mode < x := L.lt_of_not_le (L.fin_nn' ok.mode_fin) hx h2
      by_cases h3 : x < d.f_max
      · rw [tri_cdf_eq_hi d h1 h2 h3]
        obtain ⟨q0, q1⟩ := tri_hi_mem_unit L E d ok g2 h3
        exact L.one_sub_mem_unit q0 q1
      · rw [tri_cdf_eq_one d h1 h2 h3]; exact ⟨L.zero_le_one, L.one_le_one⟩

/-- full(∀α): `cdf x` is not NaN for a non-NaN `x` -/
theorem triangular_cdf_nn {x : α} (hx : NN x) : NN (Triangular.cdf d x) :=
  L.le_nnr (triangular_cdf_mem_unit L E d ok hx).1
/-- full(∀α): `0 ≤ cdf x` for a non-NaN `x` -/
theorem triangular_cdf_nonneg_fl {x : α} (hx : NN x) : (0.0 : α) ≤ Triangular.cdf d x :=
  (triangular_cdf_mem_unit L E d ok hx).1
/-- full(∀α): `cdf x ≤ 1` for a non-NaN `x` -/
theorem triangular_cdf_le_one_fl {x : α} (hx : NN x) : Triangular.cdf d x ≤ (1.0 : α) :=
  (triangular_cdf_mem_unit L E d ok hx).2

omit E ok in
/-- full(∀α): NaN argument ⇒ the code returns `1` (all three comparisons are false), NOT NaN -/
theorem triangular_cdf_nan_arg {x : α} (hx : RFun.isNaN x = true) : Triangular.cdf d x = (1.0 : α) :=
  tri_cdf_eq_one d (L.not_le_nan_left hx) (L.not_le_nan_left hx) (L.not_lt_nan_left hx)

/-- full(∀α): `cdf x == 1` at and above the maximum.  For `mode < max` (or `x` strictly above the mode) the
    value is the literal `1.0`; for `mode == max == x` the lower branch is taken and returns `D/D`, which is
    IEEE-equal to `1`. -/
theorem triangular_cdf_above {x : α} (h : d.f_max ≤ x) : (Triangular.cdf d x == (1.0 : α)) = true := by
  have h1 : ¬ x ≤ d.f_min := fun h' => L.lt_not_le ok.lt (L.le_tr h h')
  by_cases h2 : x ≤ d.f_mode
  · have g1 : d.f_min < x := L.lt_of_lt_of_le' ok.lt h
    rw [tri_cdf_eq_lo d h1 h2]
    obtain ⟨n0, n1⟩ := tri_lo_num L E d ok g1 h2
    obtain ⟨dp, df⟩ := ok.den_lo (L.lt_of_lt_of_le' g1 h2)
    -- the denominator is below the numerator as well: `max − min ≤ x − min`, `mode − min ≤ x − min`
    obtain ⟨a0, a1, a2⟩ := tri_sub_min L E d ok (L.lt_le g1) (L.le_tr h2 ok.mode_le_max)
    obtain ⟨c0, c1, c2⟩ := tri_sub_min L E d ok ok.min_le_mode ok.mode_le_max
    have hb : d.f_max - d.f_min ≤ x - d.f_min :=
      L.mono.sub_le_sub_right _ _ _ h (L.fin_nn' ok.width_fin) (L.fin_nn' a2)
    have hc : d.f_mode - d.f_min ≤ x - d.f_min :=
      L.mono.sub_le_sub_right _ _ _ (L.le_tr ok.mode_le_max h) (L.fin_nn' c2) (L.fin_nn' a2)
    have n2 : (d.f_max - d.f_min) * (d.f_mode - d.f_min) ≤ (x - d.f_min) * (x - d.f_min) :=
      L.mul_le_mul' (L.lt_le (E.sub_pos _ _ ok.lt (L.fin_nn' ok.width_fin))) hb c0 hc
        (L.mul_nn ok.width_fin c2) (L.mul_nn a2 c2) (L.mul_nn a2 a2)
    have hone := L.exact.div_self _ df (L.pos_not_beq_zero dp)
    have hq := L.div_mem_unit n0 n1 dp df
    refine L.beq_of_le_le hq.2 ?_
    exact L.le_of_beq_of_le (L.beq_symm hone)
      (L.mono.div_le_div_right _ _ _ n2 dp (L.beq_nnl hone) (L.le_nnr hq.1))
  · rw [tri_cdf_eq_one d h1 h2 (L.le_not_lt h)]; exact L.beq_rfl' L.one_nn

omit E in
/-- full(∀α): strictly above the mode and at/above the maximum the value is the literal `1.0` -/
theorem triangular_cdf_above_lit {x : α} (h : d.f_max ≤ x) (hm : d.f_mode < x) :
    Triangular.cdf d x = (1.0 : α) :=
  tri_cdf_eq_one d (fun h' => L.lt_not_le ok.lt (L.le_tr h h')) (L.lt_not_le hm) (L.le_not_lt h)

/-- full(∀α): `cdf(min) = 0`, `cdf(−∞) = 0`, `cdf(+∞) = 1` (literals) and `cdf(max) == 1` -/
theorem triangular_cdf_ends :
    Triangular.cdf d d.f_min = (0.0 : α) ∧ Triangular.cdf d (RFun.negInf : α) = (0.0 : α) ∧
    Triangular.cdf d (RFun.inf : α) = (1.0 : α) ∧ (Triangular.cdf d d.f_max == (1.0 : α)) = true :=
  ⟨tri_cdf_eq_zero d (L.le_rfl' (L.fin_nn' ok.min_fin)),
   tri_cdf_eq_zero d (L.negInf_le (L.fin_nn' ok.min_fin)),
   triangular_cdf_above_lit L d ok (L.le_inf (L.fin_nn' ok.max_fin)) (E.fin_lt_inf L ok.mode_fin),
   triangular_cdf_above L E d ok (L.le_rfl' (L.fin_nn' ok.max_fin))⟩

/-- partial(monotonicity across the mode — `min < x ≤ mode < y < max` — is excluded; it is FALSE in IEEE
    arithmetic, see `triangular_cdf_mode_crossing_counterexample`): `x ≤ y ⇒ cdf x ≤ cdf y` when both points
    are on the same polynomial branch or one of them is on a constant guard. -/
theorem triangular_cdf_mono_partial {x y : α} (hxy : x ≤ y)
    (hside : x ≤ d.f_min ∨ y ≤ d.f_mode ∨ d.f_mode < x ∨ d.f_max ≤ y) :
    Triangular.cdf d x ≤ Triangular.cdf d y := by
  have hx := L.le_nnl hxy
  have hy := L.le_nnr hxy
  by_cases h1 : x ≤ d.f_min
  · rw [tri_cdf_eq_zero d h1]; exact triangular_cdf_nonneg_fl L E d ok hy
  have g1 : d.f_min < x := L.lt_of_not_le (L.fin_nn' ok.min_fin) hx h1
  have h1y : ¬ y ≤ d.f_min := fun h => h1 (L.le_tr hxy h)
  rcases hside with hs | hs | hs | hs
  · exact absurd hs h1
  · -- both on the lower branch
    have h2x : x ≤ d.f_mode := L.le_tr hxy hs
    rw [tri_cdf_eq_lo d h1 h2x, tri_cdf_eq_lo d h1y hs]
    have g1y : d.f_min < y := L.lt_of_lt_of_le' g1 hxy
    obtain ⟨a0, _, a2⟩ := tri_sub_min L E d ok (L.lt_le g1) (L.le_tr h2x ok.mode_le_max)
    obtain ⟨b0, _, b2⟩ := tri_sub_min L E d ok (L.lt_le g1y) (L.le_tr hs ok.mode_le_max)
    have hle : x - d.f_min ≤ y - d.f_min := L.mono.sub_le_sub_right _ _ _ hxy (L.fin_nn' a2) (L.fin_nn' b2)
    have hn := L.mul_le_mul' a0 hle a0 hle (L.mul_nn a2 a2) (L.mul_nn b2 a2) (L.mul_nn b2 b2)
    obtain ⟨dp, df⟩ := ok.den_lo (L.lt_of_lt_of_le' g1 h2x)
    exact L.mono.div_le_div_right _ _ _ hn dp
      (L.le_nnr (tri_lo_mem_unit L E d ok g1 h2x).1) (L.le_nnr (tri_lo_mem_unit L E d ok g1y hs).1)
  · -- both strictly above the mode
    have h2 : ¬ x ≤ d.f_mode := L.lt_not_le hs
    have g2y : d.f_mode < y := L.lt_of_lt_of_le' hs hxy
    have h2y : ¬ y ≤ d.f_mode := L.lt_not_le g2y
    by_cases h3y : y < d.f_max
    · have h3 : x < d.f_max := L.lt_of_le_of_lt' hxy h3y
      rw [tri_cdf_eq_hi d h1 h2 h3, tri_cdf_eq_hi d h1y h2y h3y]
      obtain ⟨a0, _, a2⟩ := tri_max_sub L E d ok (L.lt_le g1) (L.lt_le h3)
      obtain ⟨b0, _, b2⟩ := tri_max_sub L E d ok (L.le_tr (L.lt_le g1) hxy) (L.lt_le h3y)
      have hle : d.f_max - y ≤ d.f_max - x := L.mono.sub_le_sub_left _ _ _ hxy (L.fin_nn' a2) (L.fin_nn' b2)
      have hn := L.mul_le_mul' b0 hle b0 hle (L.mul_nn b2 b2) (L.mul_nn a2 b2) (L.mul_nn a2 a2)
      obtain ⟨dp, df⟩ := ok.den_hi (L.lt_tr hs h3)
      exact L.one_sub_anti (L.mono.div_le_div_right _ _ _ hn dp
        (L.le_nnr (tri_hi_mem_unit L E d ok g2y h3y).1) (L.le_nnr (tri_hi_mem_unit L E d ok hs h3).1))
    · rw [tri_cdf_eq_one d h1y h2y h3y]; exact triangular_cdf_le_one_fl L E d ok hx
  · exact L.le_of_le_of_beq (triangular_cdf_le_one_fl L E d ok hx) (L.beq_symm (triangular_cdf_above L E d ok hs))

end

/-! ### witnesses on the IEEE carrier (kernel-evaluated on Lean's `Float` model) -/

/-- non-vacuity of `TriangularOK` on the IEEE carrier: `Triangular(0, 3, 0.995)` -/
example : TriangularOK ({ f_min := 0.0, f_max := 3.0, f_mode := 0.995 } : Triangular Float) :=
  ⟨by decide, by decide, by decide, by decide, by decide, by decide, by decide,
   fun _ => by decide, fun _ => by decide⟩

/-- counterexample: `Triangular.cdf` is NOT monotone across the mode in IEEE arithmetic.  For
    `Triangular(0, 3, 0.995)` (accepted by `new`, all side conditions of `TriangularOK` hold) and
    `x = nextUp(0.995)` (bits `0x3FEFD70A3D70A3D8`): `cdf(x) < cdf(0.995)` although `0.995 < x` — the lower
    branch `(c−a)²/((b−a)(c−a))` at the mode and the upper branch `1 − (b−x)²/((b−a)(b−c))` just above it are
    rounded independently and cross by one ulp. -/
theorem triangular_cdf_mode_crossing_counterexample :
    let d : Triangular Float := { f_min := 0.0, f_max := 3.0, f_mode := 0.995 }
    Except.isOk (Triangular.new (0.0 : Float) 3.0 0.995) = true ∧
    (0.995 : Float) < Float.ofBits 4607137382803743704 ∧
    Triangular.cdf d (Float.ofBits 4607137382803743704) < Triangular.cdf d 0.995 := by
  decide

set_option exponentiation.threshold 400 in
set_option maxRecDepth 100000 in
/-- counterexample: underflow of the denominator: `Triangular(0, 1e-200, 1e-200)` is accepted by `new`, and
    `cdf(5e-201) = 0/0 = NaN` (numerator and denominator both underflow to zero). -/
theorem triangular_cdf_underflow_counterexample :
    Except.isOk (Triangular.new (0.0 : Float) 1e-200 1e-200) = true ∧
    RFun.isNaN (Triangular.cdf ({ f_min := 0.0, f_max := 1e-200, f_mode := 1e-200 } : Triangular Float) 5e-201)
      = true := by
  decide

set_option exponentiation.threshold 400 in
set_option maxRecDepth 100000 in
/-- counterexample: overflow of the denominator: `Triangular(0, 1e200, 1e200)` is accepted by `new`, and
    `cdf(5e199) = ∞/∞ = NaN`. -/
theorem triangular_cdf_overflow_counterexample :
    Except.isOk (Triangular.new (0.0 : Float) 1e200 1e200) = true ∧
    RFun.isNaN (Triangular.cdf ({ f_min := 0.0, f_max := 1e200, f_mode := 1e200 } : Triangular Float) 5e199)
      = true := by
  decide

end Statrs.Props.C01
