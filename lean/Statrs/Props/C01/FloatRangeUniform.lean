/-
  C01 (float level) — `Uniform.cdf` on EVERY carrier that satisfies the IEEE order laws
  (`Statrs.Spec.FloatLaws` + `ExtraLaws.sub_pos`): never NaN for a non-NaN argument, in `[0,1]`,
  monotone (exactly, no ulp slack), `0` at/below `min` and at `−∞`, `1` at/above `max` and at `+∞`.

  Hypotheses = what `Uniform.new` guarantees (`Fin min`, `Fin max`, `min < max`) plus the genuine
  no-overflow condition `Fin (max − min)`: without it the code returns NaN (`∞/∞`), see
  `uniform_cdf_overflow_counterexample` (a kernel-evaluated `Float` witness).
-/
import Statrs.Gen.D_uniform
import Statrs.Inst.Float
import Statrs.Lemmas.FloatLawsBasic
import Statrs.Lemmas.FloatLawsExtra
set_option linter.unusedSectionVars false
namespace Statrs.Props.C01
open Statrs Statrs.Gen Statrs.Spec

section
variable {α : Type} [Add α] [Sub α] [Mul α] [Div α] [Neg α] [LT α] [LE α] [BEq α]
  [DecidableLT α] [DecidableLE α] [OfScientific α] [Inhabited α] [RFun α]

/-- What `Uniform.new` guarantees about the fields, plus the no-overflow condition on the width. -/
structure UniformOK (d : Uniform α) : Prop where
  min_fin : Spec.Fin d.f_min
  max_fin : Spec.Fin d.f_max
  lt : d.f_min < d.f_max
  /-- `max − min` does not overflow (NOT checked by `Uniform::new`) -/
  width_fin : Spec.Fin (d.f_max - d.f_min)

variable (L : FloatLaws α) (E : ExtraLaws α) (d : Uniform α) (ok : UniformOK d)
include L E ok

/-- full(∀α): the width `max − min` is strictly positive (gradual underflow: `ExtraLaws.sub_pos`) -/
theorem uniform_width_pos : (0.0 : α) < d.f_max - d.f_min :=
  E.sub_pos _ _ ok.lt (L.fin_nn' ok.width_fin)

/-- full(∀α): inside the support, `0 ≤ x − min ≤ max − min` -/
theorem uniform_interior {x : α} (hx : NN x) (h1 : ¬ x ≤ d.f_min) (h2 : ¬ d.f_max ≤ x) :
    (0.0 : α) ≤ x - d.f_min ∧ x - d.f_min ≤ d.f_max - d.f_min := by
  have hlo : d.f_min < x := L.lt_of_not_le (L.fin_nn' ok.min_fin) hx h1
  have hhi : x < d.f_max := L.lt_of_not_le hx (L.fin_nn' ok.max_fin) h2
  refine ⟨L.sub_nonneg_of_le ok.min_fin (L.lt_le hlo), ?_⟩
  exact L.mono.sub_le_sub_right _ _ _ (L.lt_le hhi)
    (L.sub_nn hx (L.fin_nn' ok.min_fin) (Or.inr ok.min_fin)) (L.fin_nn' ok.width_fin)

/-- full(∀α): `0 ≤ cdf x ≤ 1` for every non-NaN `x` (±∞ and the ulp neighbours of `min`, `max` included) -/
theorem uniform_cdf_mem_unit {x : α} (hx : NN x) :
    (0.0 : α) ≤ Uniform.cdf d x ∧ Uniform.cdf d x ≤ (1.0 : α) := by
  unfold Uniform.cdf
  by_cases h1 : x ≤ d.f_min
  · rw [if_pos h1]; exact ⟨L.zero_le_zero, L.zero_le_one⟩
  · rw [if_neg h1]
    by_cases h2 : d.f_max ≤ x
    · rw [if_pos h2]; exact ⟨L.zero_le_one, L.one_le_one⟩
    · rw [if_neg h2]
      obtain ⟨ha, hb⟩ := uniform_interior L E d ok hx h1 h2
      exact L.div_mem_unit ha hb (uniform_width_pos L E d ok) ok.width_fin

/-- full(∀α): `cdf x` is not NaN for a non-NaN `x` -/
theorem uniform_cdf_nn {x : α} (hx : NN x) : NN (Uniform.cdf d x) :=
  L.le_nnr (uniform_cdf_mem_unit L E d ok hx).1

/-- full(∀α): `0 ≤ cdf x` for a non-NaN `x` -/
theorem uniform_cdf_nonneg_fl {x : α} (hx : NN x) : (0.0 : α) ≤ Uniform.cdf d x :=
  (uniform_cdf_mem_unit L E d ok hx).1
/-- full(∀α): `cdf x ≤ 1` for a non-NaN `x` -/
theorem uniform_cdf_le_one_fl {x : α} (hx : NN x) : Uniform.cdf d x ≤ (1.0 : α) :=
  (uniform_cdf_mem_unit L E d ok hx).2

omit E ok in
/-- full(∀α): a NaN argument gives a NaN (both guards are false, then `(NaN − min) / …`) -/
theorem uniform_cdf_nan {x : α} (hx : RFun.isNaN x = true) : RFun.isNaN (Uniform.cdf d x) = true := by
  unfold Uniform.cdf
  rw [if_neg (L.not_le_nan_left hx), if_neg (L.not_le_nan_right hx)]
  exact L.div_nan_left _ (L.sub_nan_left _ hx)

/-- full(∀α): EXACT float monotonicity: `x ≤ y ⇒ cdf x ≤ cdf y` (the interior values are the correctly
    rounded quotients of correctly rounded differences — both monotone — and the guards return the
    extreme values `0`, `1`) -/
theorem uniform_cdf_mono_fl {x y : α} (hxy : x ≤ y) : Uniform.cdf d x ≤ Uniform.cdf d y := by
  have hx := L.le_nnl hxy
  have hy := L.le_nnr hxy
  by_cases h1 : x ≤ d.f_min
  · have : Uniform.cdf d x = (0.0 : α) := by unfold Uniform.cdf; rw [if_pos h1]
    rw [this]; exact uniform_cdf_nonneg_fl L E d ok hy
  · by_cases h2 : d.f_max ≤ y
    · have h1y : ¬ y ≤ d.f_min := fun h => h1 (L.le_tr hxy h)
      have : Uniform.cdf d y = (1.0 : α) := by unfold Uniform.cdf; rw [if_neg h1y, if_pos h2]
      rw [this]; exact uniform_cdf_le_one_fl L E d ok hx
    · have h1y : ¬ y ≤ d.f_min := fun h => h1 (L.le_tr hxy h)
      have h2x : ¬ d.f_max ≤ x := fun h => h2 (L.le_tr h hxy)
      unfold Uniform.cdf
      rw [if_neg h1, if_neg h2x, if_neg h1y, if_neg h2]
      have hw := uniform_width_pos L E d ok
      have hmn := L.fin_nn' ok.min_fin
      have hsx : NN (x - d.f_min) := L.sub_nn hx hmn (Or.inr ok.min_fin)
      have hsy : NN (y - d.f_min) := L.sub_nn hy hmn (Or.inr ok.min_fin)
      have hle : x - d.f_min ≤ y - d.f_min := L.mono.sub_le_sub_right _ _ _ hxy hsx hsy
      have hw0 := L.pos_not_beq_zero hw
      exact L.mono.div_le_div_right _ _ _ hle hw
        (L.div_nn hsx (L.lt_nnr hw) hw0 (Or.inr ok.width_fin))
        (L.div_nn hsy (L.lt_nnr hw) hw0 (Or.inr ok.width_fin))

omit L E ok in
/-- full(∀α): `cdf x = 0` (the literal) at and below the minimum -/
theorem uniform_cdf_below {x : α} (h : x ≤ d.f_min) : Uniform.cdf d x = (0.0 : α) := by
  unfold Uniform.cdf; rw [if_pos h]

omit E in
/-- full(∀α): `cdf x = 1` (the literal) at and above the maximum -/
theorem uniform_cdf_above {x : α} (h : d.f_max ≤ x) : Uniform.cdf d x = (1.0 : α) := by
  have h1 : ¬ x ≤ d.f_min := fun h' => L.lt_not_le ok.lt (L.le_tr h h')
  unfold Uniform.cdf; rw [if_neg h1, if_pos h]

omit E in
/-- full(∀α): `cdf(min) = 0`, `cdf(max) = 1`, `cdf(−∞) = 0`, `cdf(+∞) = 1` -/
theorem uniform_cdf_ends :
    Uniform.cdf d d.f_min = (0.0 : α) ∧ Uniform.cdf d d.f_max = (1.0 : α) ∧
    Uniform.cdf d (RFun.negInf : α) = (0.0 : α) ∧ Uniform.cdf d (RFun.inf : α) = (1.0 : α) :=
  ⟨uniform_cdf_below d (L.le_rfl' (L.fin_nn' ok.min_fin)),
   uniform_cdf_above L d ok (L.le_rfl' (L.fin_nn' ok.max_fin)),
   uniform_cdf_below d (L.negInf_le (L.fin_nn' ok.min_fin)),
   uniform_cdf_above L d ok (L.le_inf (L.fin_nn' ok.max_fin))⟩

end

/-- non-vacuity: the standard uniform on the IEEE carrier satisfies the hypotheses (kernel-evaluated) -/
example : UniformOK (Uniform.standard : Uniform Float) := ⟨by decide, by decide, by decide, by decide⟩

/-! ### the overflow side condition is genuinely needed -/

set_option exponentiation.threshold 400 in
set_option maxRecDepth 100000 in
/-- counterexample: `Uniform::new(-1.7e308, 1.7e308)` is accepted (both ends finite, `min < max`) but
    `max − min` overflows to `+∞`, and for `x = 1.6e308` the numerator `x − min` overflows as well:
    `cdf(x) = ∞/∞ = NaN`.  Evaluated by the kernel on Lean's IEEE `Float` model. -/
theorem uniform_cdf_overflow_counterexample :
    Except.isOk (Uniform.new (-1.7e308 : Float) 1.7e308) = true ∧
    RFun.isNaN (Uniform.cdf ({ f_min := -1.7e308, f_max := 1.7e308 } : Uniform Float) 1.6e308) = true := by
  decide

end Statrs.Props.C01
