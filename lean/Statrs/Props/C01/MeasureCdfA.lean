/-
  C01 (identification with Mathlib's measures, special-function families) — Normal, Gamma, Erlang,
  ChiSquared, Beta over ℝ:
    * the generated `pdf` IS Mathlib's density (`gaussianPDFReal μ σ²`, `gammaPDFReal shape rate`,
      `betaPDFReal a b`) — Normal at every `x` (no special function involved), Gamma off `x = 0`,
      Beta off `x ∈ {0, 1}` (relative to `GammaDensitySpec`: `SF.gamma = Γ`, `SF.ln_gamma = log Γ`);
      parameterisations: statrs `Normal(mean, std_dev)` ↔ Mathlib `gaussianReal mean (std_dev²)`,
      statrs `Gamma(shape, rate)` ↔ Mathlib `gammaMeasure shape rate`;
    * hence the generated `cdf` IS the distribution function `ProbabilityTheory.cdf μ` of Mathlib's
      probability measure at EVERY real `x`, relative to the calculus premises of C03
      (`ErfDerivSpec`, `GammaLrDerivSpec`, `BetaRegDerivSpec`) and, for Normal, the limit premise
      `ErfcLimitSpec` (`erfc → 0` at `+∞`; Gamma/Beta need no limit premise: their cdf is `0` to the
      left of the support by an explicit branch, and Mathlib's measure is already known to have
      mass 1);
    * hence C01 (`IsProperCdf`: monotone, values in `[0,1]`, right-continuous, `→ 0` at `−∞`, `→ 1` at
      `+∞`) for these families, from Mathlib's `ProbabilityTheory.cdf` API;
    * all of it unconditionally for the true special functions (`Witness.sfDerivWitness`): `…_true`.
  Junk points of the ℝ model (not defects): `Gamma.pdf d 0` for `shape > 160` is
  `exp(shape·ln rate + (shape−1)·ln 0 − …)` with `Real.log 0 = 0` (IEEE: `exp(−∞) = 0`); the
  identification of the measures only needs equality almost everywhere.
-/
import Statrs.Lemmas.MeasureCdf
import Statrs.Props.C03.SFDerivTrue
import Mathlib.Probability.Distributions.Gaussian.Real
import Mathlib.Probability.Distributions.Gamma
import Mathlib.Probability.Distributions.Beta
set_option linter.unusedVariables false
set_option linter.unusedSectionVars false
namespace Statrs.Props.C01
open Statrs Statrs.Gen Statrs.Lemmas.Density Statrs.Lemmas.MeasureCdf Statrs.Spec
open Statrs.Props.C03 Statrs.Props.C03.Witness
open Filter Topology Set MeasureTheory ProbabilityTheory
open scoped NNReal

/-! ## Normal -/

/-- the variance `std_dev²` as an `ℝ≥0` (Mathlib's parameter) -/
noncomputable def normalVar (d : Gen.Normal ℝ) (hσ : 0 < d.f_std_dev) : ℝ≥0 :=
  (⟨d.f_std_dev, hσ.le⟩ : ℝ≥0) ^ 2

theorem normalVar_coe (d : Gen.Normal ℝ) (hσ : 0 < d.f_std_dev) :
    ((normalVar d hσ : ℝ≥0) : ℝ) = d.f_std_dev ^ 2 := by
  unfold normalVar; rfl

theorem normalVar_ne_zero (d : Gen.Normal ℝ) (hσ : 0 < d.f_std_dev) : normalVar d hσ ≠ 0 := by
  intro h
  have := congrArg (fun v : ℝ≥0 => (v : ℝ)) h
  simp only [normalVar_coe, NNReal.coe_zero] at this
  exact (pow_pos hσ 2).ne' this

/-- **Normal: the generated pdf is Mathlib's Gaussian density with variance `std_dev²`**, every
    accepted parameter pair, every `x`.  full(ℝ). -/
theorem normal_pdf_eq_gaussianPDFReal (d : Gen.Normal ℝ) (hσ : 0 < d.f_std_dev) (x : ℝ) :
    Normal.pdf d x = gaussianPDFReal d.f_mean (normalVar d hσ) x := by
  unfold gaussianPDFReal
  rw [normalVar_coe]
  unfold Normal.pdf D.normal.pdf_unchecked; model_norm
  have h1 : Real.sqrt (2 * Real.pi * d.f_std_dev ^ 2) = Real.sqrt (2 * Real.pi) * d.f_std_dev := by
    rw [Real.sqrt_mul (by positivity), Real.sqrt_sq hσ.le]
  have h2 : -(1 / 2) * ((x - d.f_mean) / d.f_std_dev) * ((x - d.f_mean) / d.f_std_dev)
      = -(x - d.f_mean) ^ 2 / (2 * d.f_std_dev ^ 2) := by
    field_simp
  rw [h1, h2, div_eq_inv_mul]

section NormalRel
variable [SF ℝ]

/-- Normal: `cdf → 0` at `−∞`, from `erfc → 0` at `+∞` -/
theorem normal_cdf_tendsto_atBot_rel (L : ErfcLimitSpec) (d : Gen.Normal ℝ) (hσ : 0 < d.f_std_dev) :
    Tendsto (Normal.cdf d) atBot (𝓝 0) := by
  have hF : Normal.cdf d = fun y => 1 / 2 * SF.erfc ((d.f_mean - y) / (d.f_std_dev * Real.sqrt 2)) := by
    funext y; unfold Normal.cdf D.normal.cdf_unchecked; model_norm
  rw [hF]
  have hpos : 0 < d.f_std_dev * Real.sqrt 2 := by positivity
  have h1 : Tendsto (fun y : ℝ => (d.f_mean - y) / (d.f_std_dev * Real.sqrt 2)) atBot atTop :=
    (tendsto_atTop_add_const_left _ d.f_mean tendsto_neg_atBot_atTop).atTop_div_const hpos
      |>.congr (fun y => by ring)
  have h2 := (L.erfc_tendsto_atTop.comp h1).const_mul (1 / 2)
  rw [mul_zero] at h2
  exact h2

/-- **Normal: the generated cdf is the distribution function of Mathlib's `gaussianReal mean
    (std_dev²)`**, every accepted parameter pair, every real `x`. -/
theorem normal_cdf_eq_mathlib_rel (E : ErfDerivSpec) (L : ErfcLimitSpec) (d : Gen.Normal ℝ)
    (hσ : 0 < d.f_std_dev) (x : ℝ) :
    Normal.cdf d x = cdf (gaussianReal d.f_mean (normalVar d hσ)) x := by
  have hν : gaussianReal d.f_mean (normalVar d hσ) = densityMeasure (Normal.pdf d) := by
    rw [gaussianReal_of_var_ne_zero _ (normalVar_ne_zero d hσ)]
    unfold densityMeasure
    congr 1
    funext y
    rw [normal_pdf_eq_gaussianPDFReal d hσ y]
    rfl
  exact (cdf_eq_of_eq_densityMeasure ∅
    (continuous_iff_continuousAt.mpr fun y => (normal_hasDerivAt_cdf_rel E d hσ y).continuousAt)
    (fun y _ => normal_hasDerivAt_cdf_rel E d hσ y) (fun y => (normal_pdf_pos d hσ y).le)
    _ hν (normal_cdf_tendsto_atBot_rel L d hσ) x).symm

/-- **Normal, C01**: the generated cdf is a proper distribution function -/
theorem normal_cdf_proper_rel (E : ErfDerivSpec) (L : ErfcLimitSpec) (d : Gen.Normal ℝ)
    (hσ : 0 < d.f_std_dev) : IsProperCdf (Normal.cdf d) :=
  isProperCdf_of_eq_cdf _ (normal_cdf_eq_mathlib_rel E L d hσ)

end NormalRel

/-- Normal with the true `erfc`: cdf = Mathlib's Gaussian distribution function -/
theorem normal_cdf_eq_mathlib_true (d : Gen.Normal ℝ) (hσ : 0 < d.f_std_dev) (x : ℝ) :
    @Normal.cdf ℝ _ _ _ _ _ _ _ _ _ _ _ _ _ sfDerivWitness d x
      = cdf (gaussianReal d.f_mean (normalVar d hσ)) x :=
  @normal_cdf_eq_mathlib_rel sfDerivWitness erfDerivSpec_witness erfcLimitSpec_witness d hσ x

/-- Normal with the true `erfc`: C01 -/
theorem normal_cdf_proper_true (d : Gen.Normal ℝ) (hσ : 0 < d.f_std_dev) :
    IsProperCdf (@Normal.cdf ℝ _ _ _ _ _ _ _ _ _ _ _ _ _ sfDerivWitness d) :=
  @normal_cdf_proper_rel sfDerivWitness erfDerivSpec_witness erfcLimitSpec_witness d hσ

example : ∃ d : Gen.Normal ℝ, 0 < d.f_std_dev := ⟨⟨0, 1⟩, by norm_num⟩

/-! ## Gamma, Erlang, ChiSquared -/

section GammaRel
variable [SF ℝ]

/-- **Gamma: the generated pdf is Mathlib's `gammaPDFReal shape rate`** at every `x ≠ 0` (all three
    branches of the generated code).  At `x = 0` the two agree for `shape ≤ 160`; for `shape > 160`
    the ℝ model evaluates `ln 0` (junk, file header). -/
theorem gamma_pdf_eq_gammaPDFReal_rel (G : GammaDensitySpec) (d : Gen.Gamma ℝ) (hs : 0 < d.f_shape)
    (hr : 0 < d.f_rate) (x : ℝ) (hx : x ≠ 0) :
    Gamma.pdf d x = gammaPDFReal d.f_shape d.f_rate x := by
  unfold gammaPDFReal
  rcases lt_or_gt_of_ne hx with hneg | hpos
  · rw [if_neg (not_le.mpr hneg)]
    unfold Gamma.pdf; model_norm; rw [if_pos hneg]
  · rw [if_pos hpos.le, gamma_pdf_formula_rel G d hs hr x hpos]
    ring

/-- Gamma: `cdf = 0` on `(−∞, 0]` (explicit branch) -/
theorem gamma_cdf_eq_zero (d : Gen.Gamma ℝ) (x : ℝ) (hx : x ≤ 0) : Gamma.cdf d x = 0 := by
  unfold Gamma.cdf; model_norm; rw [if_pos hx]

/-- the measure with the generated density is Mathlib's Gamma measure -/
theorem gammaMeasure_eq_densityMeasure_rel (G : GammaDensitySpec) (d : Gen.Gamma ℝ)
    (hs : 0 < d.f_shape) (hr : 0 < d.f_rate) :
    gammaMeasure d.f_shape d.f_rate = densityMeasure (Gamma.pdf d) := by
  unfold gammaMeasure
  refine withDensity_eq_densityMeasure {0} (fun x hx => ?_)
  rw [gamma_pdf_eq_gammaPDFReal_rel G d hs hr x (by simpa using hx)]
  rfl

/-- **Gamma: the generated cdf is the distribution function of Mathlib's `gammaMeasure shape
    rate`**, every accepted parameter pair, every real `x`. -/
theorem gamma_cdf_eq_mathlib_rel (G : GammaDensitySpec) (D : GammaLrDerivSpec) (d : Gen.Gamma ℝ)
    (hs : 0 < d.f_shape) (hr : 0 < d.f_rate) (x : ℝ) :
    Gamma.cdf d x = cdf (gammaMeasure d.f_shape d.f_rate) x := by
  have := isProbabilityMeasure_gammaMeasure hs hr
  exact (cdf_eq_of_eq_densityMeasure {0} (gamma_continuous_cdf_rel G D d hs hr)
    (fun y hy => gamma_hasDerivAt_cdf_rel G D d hs hr y (by simpa using hy))
    (gamma_pdf_nonneg_rel G d hs hr) _ (gammaMeasure_eq_densityMeasure_rel G d hs hr)
    (tendsto_atBot_of_eq_zero 0 (gamma_cdf_eq_zero d)) x).symm

/-- **Gamma, C01** -/
theorem gamma_cdf_proper_rel (G : GammaDensitySpec) (D : GammaLrDerivSpec) (d : Gen.Gamma ℝ)
    (hs : 0 < d.f_shape) (hr : 0 < d.f_rate) : IsProperCdf (Gamma.cdf d) :=
  isProperCdf_of_eq_cdf _ (gamma_cdf_eq_mathlib_rel G D d hs hr)

/-- Erlang: pdf = Mathlib's Gamma density (off `x = 0`) -/
theorem erlang_pdf_eq_gammaPDFReal_rel (G : GammaDensitySpec) (d : Erlang ℝ)
    (hs : 0 < d.f_g.f_shape) (hr : 0 < d.f_g.f_rate) (x : ℝ) (hx : x ≠ 0) :
    Erlang.pdf d x = gammaPDFReal d.f_g.f_shape d.f_g.f_rate x :=
  gamma_pdf_eq_gammaPDFReal_rel G d.f_g hs hr x hx

/-- **Erlang: cdf = distribution function of Mathlib's `gammaMeasure shape rate`** -/
theorem erlang_cdf_eq_mathlib_rel (G : GammaDensitySpec) (D : GammaLrDerivSpec) (d : Erlang ℝ)
    (hs : 0 < d.f_g.f_shape) (hr : 0 < d.f_g.f_rate) (x : ℝ) :
    Erlang.cdf d x = cdf (gammaMeasure d.f_g.f_shape d.f_g.f_rate) x :=
  gamma_cdf_eq_mathlib_rel G D d.f_g hs hr x

/-- **Erlang, C01** -/
theorem erlang_cdf_proper_rel (G : GammaDensitySpec) (D : GammaLrDerivSpec) (d : Erlang ℝ)
    (hs : 0 < d.f_g.f_shape) (hr : 0 < d.f_g.f_rate) : IsProperCdf (Erlang.cdf d) :=
  isProperCdf_of_eq_cdf _ (erlang_cdf_eq_mathlib_rel G D d hs hr)

/-- ChiSquared: pdf = Mathlib's Gamma density (off `x = 0`) with the stored `shape`, `rate`
    (`ChiSquared::new(k)` stores `shape = k/2`, `rate = 1/2`) -/
theorem chi_squared_pdf_eq_gammaPDFReal_rel (G : GammaDensitySpec) (d : ChiSquared ℝ)
    (hs : 0 < d.f_g.f_shape) (hr : 0 < d.f_g.f_rate) (x : ℝ) (hx : x ≠ 0) :
    ChiSquared.pdf d x = gammaPDFReal d.f_g.f_shape d.f_g.f_rate x :=
  gamma_pdf_eq_gammaPDFReal_rel G d.f_g hs hr x hx

/-- **ChiSquared: cdf = distribution function of Mathlib's `gammaMeasure shape rate`** -/
theorem chi_squared_cdf_eq_mathlib_rel (G : GammaDensitySpec) (D : GammaLrDerivSpec)
    (d : ChiSquared ℝ) (hs : 0 < d.f_g.f_shape) (hr : 0 < d.f_g.f_rate) (x : ℝ) :
    ChiSquared.cdf d x = cdf (gammaMeasure d.f_g.f_shape d.f_g.f_rate) x :=
  gamma_cdf_eq_mathlib_rel G D d.f_g hs hr x

/-- ChiSquared as built by `ChiSquared::new(freedom)`: the χ² law is `gammaMeasure (k/2) (1/2)` -/
theorem chi_squared_new_cdf_eq_mathlib_rel (G : GammaDensitySpec) (D : GammaLrDerivSpec)
    (freedom : ℝ) (hk : 0 < freedom) (x : ℝ) :
    ChiSquared.cdf (⟨freedom, ⟨freedom / 2, 1 / 2⟩⟩ : ChiSquared ℝ) x
      = cdf (gammaMeasure (freedom / 2) (1 / 2)) x :=
  chi_squared_cdf_eq_mathlib_rel G D ⟨freedom, ⟨freedom / 2, 1 / 2⟩⟩ (by positivity) (by norm_num) x

/-- **ChiSquared, C01** -/
theorem chi_squared_cdf_proper_rel (G : GammaDensitySpec) (D : GammaLrDerivSpec) (d : ChiSquared ℝ)
    (hs : 0 < d.f_g.f_shape) (hr : 0 < d.f_g.f_rate) : IsProperCdf (ChiSquared.cdf d) :=
  isProperCdf_of_eq_cdf _ (chi_squared_cdf_eq_mathlib_rel G D d hs hr)

end GammaRel

/-- Gamma with the true `P(a,x)`, `Γ`: cdf = Mathlib's Gamma distribution function -/
theorem gamma_cdf_eq_mathlib_true (d : Gen.Gamma ℝ) (hs : 0 < d.f_shape) (hr : 0 < d.f_rate) (x : ℝ) :
    @Gamma.cdf ℝ _ _ _ _ _ _ _ _ _ _ _ _ _ sfDerivWitness d x
      = cdf (gammaMeasure d.f_shape d.f_rate) x :=
  @gamma_cdf_eq_mathlib_rel sfDerivWitness gammaDensitySpec_witness gammaLrDerivSpec_witness d hs hr x

/-- Gamma with the true functions: C01 -/
theorem gamma_cdf_proper_true (d : Gen.Gamma ℝ) (hs : 0 < d.f_shape) (hr : 0 < d.f_rate) :
    IsProperCdf (@Gamma.cdf ℝ _ _ _ _ _ _ _ _ _ _ _ _ _ sfDerivWitness d) :=
  @gamma_cdf_proper_rel sfDerivWitness gammaDensitySpec_witness gammaLrDerivSpec_witness d hs hr

/-- Erlang with the true functions: cdf = Mathlib's Gamma distribution function -/
theorem erlang_cdf_eq_mathlib_true (d : Erlang ℝ) (hs : 0 < d.f_g.f_shape) (hr : 0 < d.f_g.f_rate)
    (x : ℝ) :
    @Erlang.cdf ℝ _ _ _ _ _ _ _ _ _ _ _ _ _ sfDerivWitness d x
      = cdf (gammaMeasure d.f_g.f_shape d.f_g.f_rate) x :=
  @erlang_cdf_eq_mathlib_rel sfDerivWitness gammaDensitySpec_witness gammaLrDerivSpec_witness d hs hr x

/-- Erlang with the true functions: C01 -/
theorem erlang_cdf_proper_true (d : Erlang ℝ) (hs : 0 < d.f_g.f_shape) (hr : 0 < d.f_g.f_rate) :
    IsProperCdf (@Erlang.cdf ℝ _ _ _ _ _ _ _ _ _ _ _ _ _ sfDerivWitness d) :=
  @erlang_cdf_proper_rel sfDerivWitness gammaDensitySpec_witness gammaLrDerivSpec_witness d hs hr

/-- ChiSquared with the true functions: cdf = Mathlib's Gamma distribution function -/
theorem chi_squared_cdf_eq_mathlib_true (d : ChiSquared ℝ) (hs : 0 < d.f_g.f_shape)
    (hr : 0 < d.f_g.f_rate) (x : ℝ) :
    @ChiSquared.cdf ℝ _ _ _ _ _ _ _ _ _ _ _ _ _ sfDerivWitness d x
      = cdf (gammaMeasure d.f_g.f_shape d.f_g.f_rate) x :=
  @chi_squared_cdf_eq_mathlib_rel sfDerivWitness gammaDensitySpec_witness gammaLrDerivSpec_witness
    d hs hr x

/-- ChiSquared with the true functions: C01 -/
theorem chi_squared_cdf_proper_true (d : ChiSquared ℝ) (hs : 0 < d.f_g.f_shape)
    (hr : 0 < d.f_g.f_rate) :
    IsProperCdf (@ChiSquared.cdf ℝ _ _ _ _ _ _ _ _ _ _ _ _ _ sfDerivWitness d) :=
  @chi_squared_cdf_proper_rel sfDerivWitness gammaDensitySpec_witness gammaLrDerivSpec_witness d hs hr

example : ∃ d : Gen.Gamma ℝ, 0 < d.f_shape ∧ 0 < d.f_rate := ⟨⟨3, 1⟩, by norm_num, by norm_num⟩
example : ∃ d : Erlang ℝ, 0 < d.f_g.f_shape ∧ 0 < d.f_g.f_rate :=
  ⟨⟨⟨3, 2⟩⟩, by norm_num, by norm_num⟩
example : ∃ d : ChiSquared ℝ, 0 < d.f_g.f_shape ∧ 0 < d.f_g.f_rate :=
  ⟨⟨3, ⟨3 / 2, 1 / 2⟩⟩, by norm_num, by norm_num⟩

/-! ## Beta -/

section BetaRel
variable [SF ℝ]

/-- **Beta: the generated pdf is Mathlib's `betaPDFReal a b`** at every `x ∉ {0, 1}` (all three
    branches of the generated code; `1/B(a,b) = Γ(a+b)/(Γ(a)Γ(b))`) -/
theorem beta_pdf_eq_betaPDFReal_rel (G : GammaDensitySpec) (d : Gen.Beta ℝ) (ha : 0 < d.f_shape_a)
    (hb : 0 < d.f_shape_b) (x : ℝ) (hx0 : x ≠ 0) (hx1 : x ≠ 1) :
    Beta.pdf d x = betaPDFReal d.f_shape_a d.f_shape_b x := by
  unfold betaPDFReal
  by_cases hx : 0 < x ∧ x < 1
  · rw [if_pos hx, beta_pdf_formula_rel G d ha hb x hx.1 hx.2]
    unfold ProbabilityTheory.beta
    have hGa : Real.Gamma d.f_shape_a ≠ 0 := (Real.Gamma_pos_of_pos ha).ne'
    have hGb : Real.Gamma d.f_shape_b ≠ 0 := (Real.Gamma_pos_of_pos hb).ne'
    have hGab : Real.Gamma (d.f_shape_a + d.f_shape_b) ≠ 0 :=
      (Real.Gamma_pos_of_pos (by linarith)).ne'
    field_simp
  · rw [if_neg hx]
    apply beta_pdf_eq_zero
    rcases lt_or_gt_of_ne hx0 with h | h
    · exact Or.inl h
    · right
      rcases lt_or_gt_of_ne hx1 with h' | h'
      · exact absurd ⟨h, h'⟩ hx
      · exact h'

/-- Beta: `cdf = 0` on `(−∞, 0)` (explicit branch) -/
theorem beta_cdf_eq_zero (d : Gen.Beta ℝ) (x : ℝ) (hx : x < 0) : Beta.cdf d x = 0 := by
  unfold Beta.cdf; model_norm; rw [if_pos hx]

/-- the measure with the generated density is Mathlib's Beta measure -/
theorem betaMeasure_eq_densityMeasure_rel (G : GammaDensitySpec) (d : Gen.Beta ℝ)
    (ha : 0 < d.f_shape_a) (hb : 0 < d.f_shape_b) :
    betaMeasure d.f_shape_a d.f_shape_b = densityMeasure (Beta.pdf d) := by
  unfold betaMeasure
  refine withDensity_eq_densityMeasure {0, 1} (fun x hx => ?_)
  simp only [Finset.mem_insert, Finset.mem_singleton, not_or] at hx
  rw [beta_pdf_eq_betaPDFReal_rel G d ha hb x hx.1 hx.2]
  rfl

/-- **Beta: the generated cdf is the distribution function of Mathlib's `betaMeasure a b`**, every
    accepted parameter pair, every real `x`. -/
theorem beta_cdf_eq_mathlib_rel (G : GammaDensitySpec) (B : BetaRegDerivSpec) (d : Gen.Beta ℝ)
    (ha : 0 < d.f_shape_a) (hb : 0 < d.f_shape_b) (x : ℝ) :
    Beta.cdf d x = cdf (betaMeasure d.f_shape_a d.f_shape_b) x := by
  have := isProbabilityMeasureBeta ha hb
  exact (cdf_eq_of_eq_densityMeasure {0, 1} (beta_continuous_cdf_rel G B d ha hb)
    (fun y hy => by
      simp only [Finset.mem_insert, Finset.mem_singleton, not_or] at hy
      exact beta_hasDerivAt_cdf_rel G B d ha hb y hy.1 hy.2)
    (beta_pdf_nonneg_rel G d ha hb) _ (betaMeasure_eq_densityMeasure_rel G d ha hb)
    (tendsto_atBot_of_eq_zero (-1) (fun y hy => beta_cdf_eq_zero d y (by linarith))) x).symm

/-- **Beta, C01** -/
theorem beta_cdf_proper_rel (G : GammaDensitySpec) (B : BetaRegDerivSpec) (d : Gen.Beta ℝ)
    (ha : 0 < d.f_shape_a) (hb : 0 < d.f_shape_b) : IsProperCdf (Beta.cdf d) :=
  isProperCdf_of_eq_cdf _ (beta_cdf_eq_mathlib_rel G B d ha hb)

end BetaRel

/-- Beta with the true `I_x(a,b)`, `Γ`: cdf = Mathlib's Beta distribution function -/
theorem beta_cdf_eq_mathlib_true (d : Gen.Beta ℝ) (ha : 0 < d.f_shape_a) (hb : 0 < d.f_shape_b)
    (x : ℝ) :
    @Beta.cdf ℝ _ _ _ _ _ _ _ _ _ _ _ _ _ sfDerivWitness d x
      = cdf (betaMeasure d.f_shape_a d.f_shape_b) x :=
  @beta_cdf_eq_mathlib_rel sfDerivWitness gammaDensitySpec_witness betaRegDerivSpec_witness d ha hb x

/-- Beta with the true functions: C01 -/
theorem beta_cdf_proper_true (d : Gen.Beta ℝ) (ha : 0 < d.f_shape_a) (hb : 0 < d.f_shape_b) :
    IsProperCdf (@Beta.cdf ℝ _ _ _ _ _ _ _ _ _ _ _ _ _ sfDerivWitness d) :=
  @beta_cdf_proper_rel sfDerivWitness gammaDensitySpec_witness betaRegDerivSpec_witness d ha hb

example : ∃ d : Gen.Beta ℝ, 0 < d.f_shape_a ∧ 0 < d.f_shape_b := ⟨⟨2, 3⟩, by norm_num, by norm_num⟩

end Statrs.Props.C01
