/-
  C01 (families without a Mathlib measure) — LogNormal, InverseGamma, Chi, FisherSnedecor, StudentsT
  over ℝ.  Mathlib has no measure for these laws, so the measure is DEFINED from the generated
  density, `μ_d := densityMeasure (X.pdf d) = volume.withDensity (ofReal ∘ X.pdf d)`, and it is
  proved that
    * `μ_d` is a probability measure (total mass 1), and
    * the generated `cdf` is its distribution function: `X.cdf d x = ProbabilityTheory.cdf μ_d x`
      for every real `x`,
  hence C01 (`IsProperCdf`: monotone, values in `[0,1]`, right-continuous, `→ 0` at `−∞`, `→ 1` at
  `+∞`), relative to the calculus premises of C03 and three further LIMIT premises (new structures
  below, all satisfied by the true functions: `…_witness`):
      `ErfcLimitBotSpec`  `erfc → 2` at `−∞`            (LogNormal: `cdf → 1` at `+∞`),
      `GammaUrLimitSpec`  `Q(a,x) → 1` as `x → 0+`      (InverseGamma: `cdf → 1` at `+∞`),
      `GammaLrLimitSpec`  `P(a,x) → 1` as `x → +∞`      (Chi: `cdf → 1` at `+∞`).
  FisherSnedecor and StudentsT need no new premise (`I_·(a,b)` is continuous on `[0,1]` with
  `I_0 = 0`, `I_1 = 1`: `BetaRegDerivSpec`).  Nothing is assumed ad hoc: no `_partial`.
  Model limits (not defects):
    * Chi: over ℝ `RFun.inf = 0`, so `Chi.cdf d 0 = 1` is junk; the identification is for `x ≠ 0`
      and `IsProperCdf` is for the cdf repaired at `0`.
  Defect carried over from C03: for `freedom ≥ 1e8` `StudentsT::pdf` is the Normal density, not the
  derivative of `StudentsT::cdf`; the measure for StudentsT is therefore built from
  `studentDensity` (the derivative of the generated cdf for EVERY `freedom > 0`), which is the
  generated pdf for `freedom < 1e8` (`students_t_measure_pdf_rel`).
-/
import Statrs.Lemmas.MeasureCdf
import Statrs.Props.C03.SFDerivTrue
set_option linter.unusedVariables false
set_option linter.unusedSectionVars false
namespace Statrs.Props.C01
open Statrs Statrs.Gen Statrs.Lemmas.Density Statrs.Lemmas.MeasureCdf Statrs.Spec
open Statrs.Props.C03 Statrs.Props.C03.Witness
open Filter Topology Set MeasureTheory ProbabilityTheory

/-! ## limit premises -/

/-- `erfc x → 2` as `x → −∞` (DLMF 7.2.4 with 7.4.1: `erfc(−x) = 2 − erfc x`) -/
structure ErfcLimitBotSpec [SF ℝ] : Prop where
  erfc_tendsto_atBot : Tendsto (fun t : ℝ => (SF.erfc t : ℝ)) atBot (𝓝 2)

/-- `Q(a,x) → 1` as `x → 0+`, `a > 0` (DLMF 8.2.4 with 8.7.1) -/
structure GammaUrLimitSpec [SF ℝ] : Prop where
  ur_tendsto_zero : ∀ a : ℝ, 0 < a → Tendsto (fun t : ℝ => (SF.gamma_ur a t : ℝ)) (𝓝[>] 0) (𝓝 1)

/-- `P(a,x) → 1` as `x → +∞`, `a > 0` (DLMF 8.2.4 with 8.11.2) -/
structure GammaLrLimitSpec [SF ℝ] : Prop where
  lr_tendsto_atTop : ∀ a : ℝ, 0 < a → Tendsto (fun t : ℝ => (SF.gamma_lr a t : ℝ)) atTop (𝓝 1)

/-- the true `erf` is odd -/
theorem erfR_neg (x : ℝ) : erfR (-x) = -erfR x := by
  unfold erfR
  have h := intervalIntegral.integral_comp_neg (a := 0) (b := x)
    (fun t : ℝ => Real.exp (-(t * t)))
  simp only [neg_mul_neg, neg_zero] at h
  rw [intervalIntegral.integral_symm 0 (-x)] at h
  rw [h]; ring

theorem erfcLimitBotSpec_witness : @ErfcLimitBotSpec sfDerivWitness := by
  refine @ErfcLimitBotSpec.mk sfDerivWitness ?_
  show Tendsto (fun t : ℝ => 1 - erfR t) atBot (𝓝 2)
  have h := (erfcR_tendsto.comp tendsto_neg_atBot_atTop).const_sub 2
  rw [sub_zero] at h
  refine h.congr (fun t => ?_)
  simp only [Function.comp_apply, erfR_neg]
  ring

theorem gammaUrLimitSpec_witness : @GammaUrLimitSpec sfDerivWitness := by
  refine @GammaUrLimitSpec.mk sfDerivWitness (fun a ha => ?_)
  show Tendsto (fun t : ℝ => 1 - gammaLrR a t) (𝓝[>] 0) (𝓝 1)
  have := (gammaLrR_tendsto_zero ha).const_sub 1
  rwa [sub_zero] at this

theorem gammaLrLimitSpec_witness : @GammaLrLimitSpec sfDerivWitness :=
  @GammaLrLimitSpec.mk sfDerivWitness (fun a ha => gammaLrR_tendsto_atTop ha)

/-- the three limit premises and all calculus premises of C03 hold for ONE instance (the true
    functions): the `…_rel` theorems below are not vacuous -/
theorem measureCdf_specs_consistent : ∃ inst : SF ℝ,
    @ErfDerivSpec inst ∧ @ErfcLimitSpec inst ∧ @ErfcLimitBotSpec inst ∧ @GammaDensitySpec inst ∧
    @GammaLrDerivSpec inst ∧ @GammaUrDerivSpec inst ∧ @GammaLrLimitSpec inst ∧
    @GammaUrLimitSpec inst ∧ @BetaRegDerivSpec inst ∧ @BetaFnSpec inst :=
  ⟨sfDerivWitness, erfDerivSpec_witness, erfcLimitSpec_witness, erfcLimitBotSpec_witness,
    gammaDensitySpec_witness, gammaLrDerivSpec_witness, gammaUrDerivSpec_witness,
    gammaLrLimitSpec_witness, gammaUrLimitSpec_witness, betaRegDerivSpec_witness,
    betaFnSpec_witness⟩

/-- result format: `μ` is a probability measure with distribution function `F` -/
def IsCdfOf (F : ℝ → ℝ) (μ : Measure ℝ) : Prop :=
  IsProbabilityMeasure μ ∧ ∀ x, F x = cdf μ x

theorem IsCdfOf.proper {F : ℝ → ℝ} {μ : Measure ℝ} (h : IsCdfOf F μ) : IsProperCdf F :=
  isProperCdf_of_eq_cdf μ h.2

section Rel
variable [SF ℝ]

/-! ## LogNormal -/

theorem log_normal_cdf_eq_zero (d : LogNormal ℝ) (x : ℝ) (hx : x ≤ 0) : LogNormal.cdf d x = 0 := by
  unfold LogNormal.cdf; model_norm; rw [if_pos hx]

/-- LogNormal: `cdf → 1` at `+∞` (`(μ − ln x)/(σ√2) → −∞`, `erfc → 2`) -/
theorem log_normal_cdf_tendsto_atTop_rel (Lb : ErfcLimitBotSpec) (d : LogNormal ℝ)
    (hσ : 0 < d.f_scale) : Tendsto (LogNormal.cdf d) atTop (𝓝 1) := by
  have ht : Tendsto (fun y : ℝ => (d.f_location - Real.log y) / (d.f_scale * Real.sqrt 2))
      atTop atBot := by
    have h1 : Tendsto (fun y : ℝ => -Real.log y) atTop atBot :=
      tendsto_neg_atTop_atBot.comp Real.tendsto_log_atTop
    have h2 : Tendsto (fun y : ℝ => d.f_location + -Real.log y) atTop atBot :=
      tendsto_atBot_add_const_left _ _ h1
    have h3 := h2.atBot_div_const (show 0 < d.f_scale * Real.sqrt 2 by positivity)
    exact h3.congr (fun y => by rw [sub_eq_add_neg])
  have h4 := (Lb.erfc_tendsto_atBot.comp ht).const_mul (1 / 2 : ℝ)
  rw [show (1 / 2 : ℝ) * 2 = 1 by norm_num] at h4
  refine h4.congr' ?_
  filter_upwards [eventually_gt_atTop 0] with y hy
  unfold LogNormal.cdf; model_norm; rw [if_neg (not_le.mpr hy)]; rfl

/-- **LogNormal**: the measure with the generated density is a probability measure and the
    generated cdf is its distribution function (every accepted parameter pair, every real `x`) -/
theorem log_normal_measure_rel (E : ErfDerivSpec) (L : ErfcLimitSpec) (Lb : ErfcLimitBotSpec)
    (d : LogNormal ℝ) (hσ : 0 < d.f_scale) :
    IsCdfOf (LogNormal.cdf d) (densityMeasure (LogNormal.pdf d)) :=
  densityMeasure_spec {0} (log_normal_continuous_cdf_rel E L d hσ)
    (fun x hx => log_normal_hasDerivAt_cdf_rel E d hσ x (by simpa using hx))
    (log_normal_pdf_nonneg d hσ) (tendsto_atBot_of_eq_zero 0 (log_normal_cdf_eq_zero d))
    (log_normal_cdf_tendsto_atTop_rel Lb d hσ)

/-- **LogNormal, C01** -/
theorem log_normal_cdf_proper_rel (E : ErfDerivSpec) (L : ErfcLimitSpec) (Lb : ErfcLimitBotSpec)
    (d : LogNormal ℝ) (hσ : 0 < d.f_scale) : IsProperCdf (LogNormal.cdf d) :=
  (log_normal_measure_rel E L Lb d hσ).proper

/-! ## InverseGamma -/

theorem inverse_gamma_cdf_eq_zero (d : InverseGamma ℝ) (x : ℝ) (hx : x ≤ 0) :
    InverseGamma.cdf d x = 0 := by
  unfold InverseGamma.cdf; model_norm; rw [if_pos hx]

/-- InverseGamma: `cdf → 1` at `+∞` (`rate/x → 0+`, `Q(shape, ·) → 1`) -/
theorem inverse_gamma_cdf_tendsto_atTop_rel (Lu : GammaUrLimitSpec) (d : InverseGamma ℝ)
    (hs : 0 < d.f_shape) (hr : 0 < d.f_rate) : Tendsto (InverseGamma.cdf d) atTop (𝓝 1) := by
  have ht : Tendsto (fun y : ℝ => d.f_rate / y) atTop (𝓝[>] 0) := by
    refine tendsto_nhdsWithin_iff.mpr ⟨tendsto_const_nhds.div_atTop tendsto_id, ?_⟩
    filter_upwards [eventually_gt_atTop 0] with y hy using div_pos hr hy
  refine ((Lu.ur_tendsto_zero d.f_shape hs).comp ht).congr' ?_
  filter_upwards [eventually_gt_atTop 0] with y hy
  unfold InverseGamma.cdf; model_norm; rw [if_neg (not_le.mpr hy)]; rfl

/-- **InverseGamma**: probability measure with the generated density; cdf = its distribution
    function -/
theorem inverse_gamma_measure_rel (G : GammaDensitySpec) (D : GammaUrDerivSpec)
    (Lu : GammaUrLimitSpec) (d : InverseGamma ℝ) (hs : 0 < d.f_shape) (hr : 0 < d.f_rate) :
    IsCdfOf (InverseGamma.cdf d) (densityMeasure (InverseGamma.pdf d)) :=
  densityMeasure_spec {0} (inverse_gamma_continuous_cdf_rel G D d hs hr)
    (fun x hx => inverse_gamma_hasDerivAt_cdf_rel G D d hs hr x (by simpa using hx))
    (inverse_gamma_pdf_nonneg_rel G d hs hr)
    (tendsto_atBot_of_eq_zero 0 (inverse_gamma_cdf_eq_zero d))
    (inverse_gamma_cdf_tendsto_atTop_rel Lu d hs hr)

/-- **InverseGamma, C01** -/
theorem inverse_gamma_cdf_proper_rel (G : GammaDensitySpec) (D : GammaUrDerivSpec)
    (Lu : GammaUrLimitSpec) (d : InverseGamma ℝ) (hs : 0 < d.f_shape) (hr : 0 < d.f_rate) :
    IsProperCdf (InverseGamma.cdf d) :=
  (inverse_gamma_measure_rel G D Lu d hs hr).proper

/-! ## Chi -/

/-- the generated `Chi.cdf` with the ℝ-model junk value at `0` (`x == inf`, `RFun.inf = 0`)
    replaced by the value `0` the Rust code returns there -/
noncomputable def chiCdfRepaired (d : Chi) : ℝ → ℝ :=
  fun y => if y = 0 then 0 else Chi.cdf (α := ℝ) d y

theorem chiCdfRepaired_of_ne (d : Chi) (x : ℝ) (hx : x ≠ 0) :
    chiCdfRepaired d x = Chi.cdf (α := ℝ) d x := if_neg hx

theorem chiCdfRepaired_eq_zero (d : Chi) (x : ℝ) (hx : x ≤ 0) : chiCdfRepaired d x = 0 := by
  unfold chiCdfRepaired
  split_ifs with c
  · rfl
  · unfold Chi.cdf; model_norm
    rw [real_inf_eq_zero, if_neg c, if_pos hx]

/-- Chi: `cdf → 1` at `+∞` (`x²/2 → ∞`, `P(k/2, ·) → 1`) -/
theorem chi_cdf_tendsto_atTop_rel (Ll : GammaLrLimitSpec) (d : Chi) (h0 : 0 ≤ d.f_freedom)
    (hne : d.f_freedom ≠ 0) : Tendsto (chiCdfRepaired d) atTop (𝓝 1) := by
  have hk : (0:ℝ) < (d.f_freedom : ℝ) := by exact_mod_cast lt_of_le_of_ne h0 (Ne.symm hne)
  have ht : Tendsto (fun y : ℝ => y * y / 2) atTop atTop :=
    (tendsto_id.atTop_mul_atTop₀ tendsto_id).atTop_div_const (by norm_num)
  refine ((Ll.lr_tendsto_atTop ((d.f_freedom : ℝ) / 2) (by positivity)).comp ht).congr' ?_
  filter_upwards [eventually_gt_atTop 0] with y hy
  rw [chiCdfRepaired_of_ne d y hy.ne']
  unfold Chi.cdf Chi.freedom; model_norm
  rw [real_inf_eq_zero, if_neg hy.ne', if_neg (not_le.mpr hy)]; rfl

/-- **Chi**: probability measure with the generated density; the (repaired) cdf is its
    distribution function -/
theorem chi_measure_rel (G : GammaDensitySpec) (D : GammaLrDerivSpec) (Ll : GammaLrLimitSpec)
    (d : Chi) (h0 : 0 ≤ d.f_freedom) (hne : d.f_freedom ≠ 0) :
    IsCdfOf (chiCdfRepaired d) (densityMeasure (Chi.pdf (α := ℝ) d)) :=
  densityMeasure_spec {0} (chi_continuous_cdf_rel G D d h0 hne)
    (fun x hx => by
      have hx0 : x ≠ 0 := by simpa using hx
      refine (chi_hasDerivAt_cdf_rel G D d h0 hne x hx0).congr_of_eventuallyEq ?_
      filter_upwards [isOpen_ne.mem_nhds hx0] with y hy
      exact chiCdfRepaired_of_ne d y hy)
    (chi_pdf_nonneg_rel G d h0 hne) (tendsto_atBot_of_eq_zero 0 (chiCdfRepaired_eq_zero d))
    (chi_cdf_tendsto_atTop_rel Ll d h0 hne)

/-- **Chi: the generated cdf itself is the distribution function at every `x ≠ 0`** (at `0` the ℝ
    model has the junk value `1`: `C03.chi_cdf_zero_model_junk`) -/
theorem chi_cdf_eq_measure_cdf_rel (G : GammaDensitySpec) (D : GammaLrDerivSpec)
    (Ll : GammaLrLimitSpec) (d : Chi) (h0 : 0 ≤ d.f_freedom) (hne : d.f_freedom ≠ 0) (x : ℝ)
    (hx : x ≠ 0) :
    Chi.cdf (α := ℝ) d x = cdf (densityMeasure (Chi.pdf (α := ℝ) d)) x := by
  rw [← chiCdfRepaired_of_ne d x hx]
  exact (chi_measure_rel G D Ll d h0 hne).2 x

/-- **Chi, C01** (for the cdf repaired at the model's junk point `0`) -/
theorem chi_cdf_proper_rel (G : GammaDensitySpec) (D : GammaLrDerivSpec) (Ll : GammaLrLimitSpec)
    (d : Chi) (h0 : 0 ≤ d.f_freedom) (hne : d.f_freedom ≠ 0) : IsProperCdf (chiCdfRepaired d) :=
  (chi_measure_rel G D Ll d h0 hne).proper

/-! ## FisherSnedecor -/

theorem fisher_snedecor_cdf_eq_zero (d : FisherSnedecor ℝ) (x : ℝ) (hx : x < 0) :
    FisherSnedecor.cdf d x = 0 := by
  unfold FisherSnedecor.cdf; model_norm; rw [if_pos hx]

/-- FisherSnedecor: `cdf → 1` at `+∞` (`d₁x/(d₁x+d₂) → 1` inside `[0,1]`, `I_·` continuous there,
    `I_1 = 1`) -/
theorem fisher_snedecor_cdf_tendsto_atTop_rel (B : BetaRegDerivSpec) (d : FisherSnedecor ℝ)
    (h1 : 0 < d.f_freedom_1) (h2 : 0 < d.f_freedom_2) :
    Tendsto (FisherSnedecor.cdf d) atTop (𝓝 1) := by
  have ha : 0 < d.f_freedom_1 / 2 := by positivity
  have hb : 0 < d.f_freedom_2 / 2 := by positivity
  have hden : Tendsto (fun y : ℝ => d.f_freedom_1 * y + d.f_freedom_2) atTop atTop :=
    tendsto_atTop_add_const_right _ _ (tendsto_id.const_mul_atTop h1)
  have hu : Tendsto (fun y : ℝ => d.f_freedom_1 * y / (d.f_freedom_1 * y + d.f_freedom_2)) atTop
      (𝓝[Icc 0 1] 1) := by
    refine tendsto_nhdsWithin_iff.mpr ⟨?_, ?_⟩
    · have h := (tendsto_const_nhds (x := d.f_freedom_2)).div_atTop hden
      have h' := h.const_sub 1
      rw [sub_zero] at h'
      refine h'.congr' ?_
      filter_upwards [eventually_gt_atTop 0] with y hy
      have : d.f_freedom_1 * y + d.f_freedom_2 ≠ 0 := by positivity
      field_simp
      ring
    · filter_upwards [eventually_gt_atTop 0] with y hy
      have hp : 0 < d.f_freedom_1 * y + d.f_freedom_2 := by positivity
      exact ⟨by positivity, by rw [div_le_one hp]; linarith⟩
  have hc : ContinuousWithinAt (fun t : ℝ => (SF.beta_reg (d.f_freedom_1 / 2) (d.f_freedom_2 / 2) t : ℝ))
      (Icc 0 1) 1 := B.continuousOn _ _ ha hb 1 ⟨zero_le_one, le_rfl⟩
  have h := hc.tendsto.comp hu
  rw [B.at_one _ _ ha hb] at h
  refine h.congr' ?_
  filter_upwards [eventually_gt_atTop 0] with y hy
  unfold FisherSnedecor.cdf; model_norm; rw [if_neg (not_lt.mpr hy.le)]; rfl

/-- **FisherSnedecor**: probability measure with the generated density; cdf = its distribution
    function -/
theorem fisher_snedecor_measure_rel (B : BetaRegDerivSpec) (Bf : BetaFnSpec) (d : FisherSnedecor ℝ)
    (h1 : 0 < d.f_freedom_1) (h2 : 0 < d.f_freedom_2) :
    IsCdfOf (FisherSnedecor.cdf d) (densityMeasure (FisherSnedecor.pdf d)) :=
  densityMeasure_spec {0} (fisher_snedecor_continuous_cdf_rel B Bf d h1 h2)
    (fun x hx => fisher_snedecor_hasDerivAt_cdf_rel B Bf d h1 h2 x (by simpa using hx))
    (fisher_snedecor_pdf_nonneg_rel Bf d h1 h2)
    (tendsto_atBot_of_eq_zero (-1) (fun y hy => fisher_snedecor_cdf_eq_zero d y (by linarith)))
    (fisher_snedecor_cdf_tendsto_atTop_rel B d h1 h2)

/-- **FisherSnedecor, C01** -/
theorem fisher_snedecor_cdf_proper_rel (B : BetaRegDerivSpec) (Bf : BetaFnSpec)
    (d : FisherSnedecor ℝ) (h1 : 0 < d.f_freedom_1) (h2 : 0 < d.f_freedom_2) :
    IsProperCdf (FisherSnedecor.cdf d) :=
  (fisher_snedecor_measure_rel B Bf d h1 h2).proper

/-! ## StudentsT -/

omit [SF ℝ] in
theorem studentDensity_nonneg (μ σ ν x : ℝ) (hσ : 0 < σ) (hν : 0 < ν) :
    0 ≤ studentDensity μ σ ν x := by
  unfold studentDensity
  have hG1 : 0 < Real.Gamma ((ν + 1) / 2) := Real.Gamma_pos_of_pos (by positivity)
  have hG2 : 0 < Real.Gamma (ν / 2) := Real.Gamma_pos_of_pos (by positivity)
  have hq : 0 ≤ (x - μ) / σ * ((x - μ) / σ) := mul_self_nonneg _
  have hb : 0 < 1 + (x - μ) / σ * ((x - μ) / σ) / ν := by positivity
  positivity

omit [SF ℝ] in
/-- `ν/(ν + k(x)²) → 0` inside `[0,1]` as `x → ±∞` -/
theorem students_t_arg_tendsto (d : StudentsT ℝ) (hσ : 0 < d.f_scale) (hν : 0 < d.f_freedom)
    (l : Filter ℝ) (hl : Tendsto (fun y : ℝ => (y - d.f_location) / d.f_scale *
      ((y - d.f_location) / d.f_scale)) l atTop) :
    Tendsto (fun y : ℝ => d.f_freedom /
      (d.f_freedom + (y - d.f_location) / d.f_scale * ((y - d.f_location) / d.f_scale))) l
      (𝓝[Icc 0 1] 0) := by
  refine tendsto_nhdsWithin_iff.mpr ⟨?_, Eventually.of_forall fun y => ?_⟩
  · exact tendsto_const_nhds.div_atTop (tendsto_atTop_add_const_left _ _ hl)
  · have hq : 0 ≤ (y - d.f_location) / d.f_scale * ((y - d.f_location) / d.f_scale) :=
      mul_self_nonneg _
    have hp : 0 < d.f_freedom + (y - d.f_location) / d.f_scale * ((y - d.f_location) / d.f_scale) := by
      positivity
    exact ⟨by positivity, by rw [div_le_one hp]; linarith⟩

/-- StudentsT: `cdf → 0` at `−∞` -/
theorem students_t_cdf_tendsto_atBot_rel (B : BetaRegDerivSpec) (d : StudentsT ℝ)
    (hσ : 0 < d.f_scale) (hν : 0 < d.f_freedom) : Tendsto (StudentsT.cdf d) atBot (𝓝 0) := by
  have ha : 0 < d.f_freedom / 2 := by positivity
  have hk : Tendsto (fun y : ℝ => (y - d.f_location) / d.f_scale) atBot atBot :=
    (tendsto_atBot_add_const_right _ (-d.f_location) tendsto_id).atBot_div_const hσ
      |>.congr (fun y => by simp [sub_eq_add_neg])
  have hu := students_t_arg_tendsto d hσ hν atBot (hk.atBot_mul_atBot₀ hk)
  have hc : ContinuousWithinAt (fun t : ℝ => (SF.beta_reg (d.f_freedom / 2) (1 / 2) t : ℝ))
      (Icc 0 1) 0 := B.continuousOn _ _ ha (by norm_num) 0 ⟨le_rfl, zero_le_one⟩
  have h := (hc.tendsto.comp hu).const_mul (1 / 2 : ℝ)
  rw [B.at_zero _ _ ha (by norm_num), mul_zero] at h
  refine h.congr' ?_
  filter_upwards [eventually_le_atBot d.f_location] with y hy
  unfold StudentsT.cdf; model_norm; rw [if_pos hy]; rfl

/-- StudentsT: `cdf → 1` at `+∞` -/
theorem students_t_cdf_tendsto_atTop_rel (B : BetaRegDerivSpec) (d : StudentsT ℝ)
    (hσ : 0 < d.f_scale) (hν : 0 < d.f_freedom) : Tendsto (StudentsT.cdf d) atTop (𝓝 1) := by
  have ha : 0 < d.f_freedom / 2 := by positivity
  have hk : Tendsto (fun y : ℝ => (y - d.f_location) / d.f_scale) atTop atTop :=
    (tendsto_atTop_add_const_right _ (-d.f_location) tendsto_id).atTop_div_const hσ
      |>.congr (fun y => by simp [sub_eq_add_neg])
  have hu := students_t_arg_tendsto d hσ hν atTop (hk.atTop_mul_atTop₀ hk)
  have hc : ContinuousWithinAt (fun t : ℝ => (SF.beta_reg (d.f_freedom / 2) (1 / 2) t : ℝ))
      (Icc 0 1) 0 := B.continuousOn _ _ ha (by norm_num) 0 ⟨le_rfl, zero_le_one⟩
  have h := ((hc.tendsto.comp hu).const_mul (1 / 2 : ℝ)).const_sub 1
  rw [B.at_zero _ _ ha (by norm_num), mul_zero, sub_zero] at h
  refine h.congr' ?_
  filter_upwards [eventually_gt_atTop d.f_location] with y hy
  unfold StudentsT.cdf; model_norm; rw [if_neg (not_le.mpr hy)]; rfl

/-- **StudentsT (every `freedom > 0`)**: the measure with density `studentDensity location scale
    freedom` is a probability measure and the generated cdf is its distribution function -/
theorem students_t_measure_rel (B : BetaRegDerivSpec) (d : StudentsT ℝ) (hσ : 0 < d.f_scale)
    (hν : 0 < d.f_freedom) :
    IsCdfOf (StudentsT.cdf d)
      (densityMeasure (studentDensity d.f_location d.f_scale d.f_freedom)) :=
  densityMeasure_spec ∅ (students_t_continuous_cdf_rel B d hσ hν)
    (fun x _ => students_t_hasDerivAt_cdf_density_rel B d hσ hν x)
    (fun x => studentDensity_nonneg _ _ _ x hσ hν)
    (students_t_cdf_tendsto_atBot_rel B d hσ hν) (students_t_cdf_tendsto_atTop_rel B d hσ hν)

/-- **StudentsT, `freedom < 1e8`**: the same with the GENERATED pdf as density (for
    `freedom ≥ 1e8` the generated pdf is a different function: C03's
    `students_t_pdf_large_freedom_counterexample`) -/
theorem students_t_measure_pdf_rel (G : GammaDensitySpec) (B : BetaRegDerivSpec) (d : StudentsT ℝ)
    (hσ : 0 < d.f_scale) (hν : 0 < d.f_freedom) (hν8 : d.f_freedom < 1e8) :
    IsCdfOf (StudentsT.cdf d) (densityMeasure (StudentsT.pdf d)) := by
  have h : StudentsT.pdf d = studentDensity d.f_location d.f_scale d.f_freedom :=
    funext (students_t_pdf_eq_density_rel G d hν hν8)
  rw [h]
  exact students_t_measure_rel B d hσ hν

/-- **StudentsT, C01** (every `freedom > 0`) -/
theorem students_t_cdf_proper_rel (B : BetaRegDerivSpec) (d : StudentsT ℝ) (hσ : 0 < d.f_scale)
    (hν : 0 < d.f_freedom) : IsProperCdf (StudentsT.cdf d) :=
  (students_t_measure_rel B d hσ hν).proper

end Rel

/-! ## the true special functions: unconditional statements -/

theorem log_normal_measure_true (d : LogNormal ℝ) (hσ : 0 < d.f_scale) :
    IsCdfOf (@LogNormal.cdf ℝ _ _ _ _ _ _ _ _ _ _ _ _ _ sfDerivWitness d)
      (densityMeasure (LogNormal.pdf d)) :=
  @log_normal_measure_rel sfDerivWitness erfDerivSpec_witness erfcLimitSpec_witness
    erfcLimitBotSpec_witness d hσ

theorem log_normal_cdf_proper_true (d : LogNormal ℝ) (hσ : 0 < d.f_scale) :
    IsProperCdf (@LogNormal.cdf ℝ _ _ _ _ _ _ _ _ _ _ _ _ _ sfDerivWitness d) :=
  (log_normal_measure_true d hσ).proper

theorem inverse_gamma_measure_true (d : InverseGamma ℝ) (hs : 0 < d.f_shape) (hr : 0 < d.f_rate) :
    IsCdfOf (@InverseGamma.cdf ℝ _ _ _ _ _ _ _ _ _ _ _ _ _ sfDerivWitness d)
      (densityMeasure (@InverseGamma.pdf ℝ _ _ _ _ _ _ _ _ _ _ _ _ _ sfDerivWitness d)) :=
  @inverse_gamma_measure_rel sfDerivWitness gammaDensitySpec_witness gammaUrDerivSpec_witness
    gammaUrLimitSpec_witness d hs hr

theorem inverse_gamma_cdf_proper_true (d : InverseGamma ℝ) (hs : 0 < d.f_shape) (hr : 0 < d.f_rate) :
    IsProperCdf (@InverseGamma.cdf ℝ _ _ _ _ _ _ _ _ _ _ _ _ _ sfDerivWitness d) :=
  (inverse_gamma_measure_true d hs hr).proper

theorem chi_measure_true (d : Chi) (h0 : 0 ≤ d.f_freedom) (hne : d.f_freedom ≠ 0) :
    IsCdfOf (@chiCdfRepaired sfDerivWitness d)
      (densityMeasure (@Chi.pdf ℝ _ _ _ _ _ _ _ _ _ _ _ _ _ sfDerivWitness d)) :=
  @chi_measure_rel sfDerivWitness gammaDensitySpec_witness gammaLrDerivSpec_witness
    gammaLrLimitSpec_witness d h0 hne

theorem chi_cdf_proper_true (d : Chi) (h0 : 0 ≤ d.f_freedom) (hne : d.f_freedom ≠ 0) :
    IsProperCdf (@chiCdfRepaired sfDerivWitness d) :=
  (chi_measure_true d h0 hne).proper

theorem fisher_snedecor_measure_true (d : FisherSnedecor ℝ) (h1 : 0 < d.f_freedom_1)
    (h2 : 0 < d.f_freedom_2) :
    IsCdfOf (@FisherSnedecor.cdf ℝ _ _ _ _ _ _ _ _ _ _ _ _ _ sfDerivWitness d)
      (densityMeasure (@FisherSnedecor.pdf ℝ _ _ _ _ _ _ _ _ _ _ _ _ _ sfDerivWitness d)) :=
  @fisher_snedecor_measure_rel sfDerivWitness betaRegDerivSpec_witness betaFnSpec_witness d h1 h2

theorem fisher_snedecor_cdf_proper_true (d : FisherSnedecor ℝ) (h1 : 0 < d.f_freedom_1)
    (h2 : 0 < d.f_freedom_2) :
    IsProperCdf (@FisherSnedecor.cdf ℝ _ _ _ _ _ _ _ _ _ _ _ _ _ sfDerivWitness d) :=
  (fisher_snedecor_measure_true d h1 h2).proper

theorem students_t_measure_true (d : StudentsT ℝ) (hσ : 0 < d.f_scale) (hν : 0 < d.f_freedom) :
    IsCdfOf (@StudentsT.cdf ℝ _ _ _ _ _ _ _ _ _ _ _ _ _ sfDerivWitness d)
      (densityMeasure (studentDensity d.f_location d.f_scale d.f_freedom)) :=
  @students_t_measure_rel sfDerivWitness betaRegDerivSpec_witness d hσ hν

theorem students_t_cdf_proper_true (d : StudentsT ℝ) (hσ : 0 < d.f_scale) (hν : 0 < d.f_freedom) :
    IsProperCdf (@StudentsT.cdf ℝ _ _ _ _ _ _ _ _ _ _ _ _ _ sfDerivWitness d) :=
  (students_t_measure_true d hσ hν).proper

/-! non-vacuity of the parameter hypotheses -/
example : ∃ d : LogNormal ℝ, 0 < d.f_scale := ⟨⟨0, 1⟩, by norm_num⟩
example : ∃ d : InverseGamma ℝ, 0 < d.f_shape ∧ 0 < d.f_rate := ⟨⟨3, 1⟩, by norm_num, by norm_num⟩
example : ∃ d : Chi, 0 ≤ d.f_freedom ∧ d.f_freedom ≠ 0 := ⟨⟨2⟩, by decide, by decide⟩
example : ∃ d : FisherSnedecor ℝ, 0 < d.f_freedom_1 ∧ 0 < d.f_freedom_2 :=
  ⟨⟨3, 5⟩, by norm_num, by norm_num⟩
example : ∃ d : StudentsT ℝ, 0 < d.f_scale ∧ 0 < d.f_freedom ∧ d.f_freedom < 1e8 :=
  ⟨⟨0, 1, 3⟩, by norm_num, by norm_num, by norm_num⟩

end Statrs.Props.C01
