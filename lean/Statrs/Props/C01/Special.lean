/-
  C01 — "cdf(x) is a number in [0,1] (never NaN), never decreases when x increases, is 0 below the
  support minimum and at -inf, and is 1 at and above the support maximum and at +inf" — for the
  families whose cdf calls the regularised incomplete gamma / beta functions:
    Gamma, ChiSquared, Erlang, Chi, InverseGamma, Beta, StudentsT, FisherSnedecor,
    Binomial, NegativeBinomial, Poisson.

  Part 1 (carrier ℝ, special functions abstract): range, monotonicity, value at/below the support
  minimum, value at/above a finite support maximum.  `…_rel` theorems are relative to the premise
  structures of `Statrs.Spec.Incomplete`.  Range and monotonicity are obtained from the C02
  theorems (`cdf = 1 − sf`).
  Part 2 (every carrier α, hence IEEE `Float`): what the explicit `is_infinite` guards return at
  ±inf — and the defect they contain for Gamma/Erlang with an infinite rate.

  Part 3 (every carrier): finite arguments for which the scaled argument overflows and the cdf
  panics (branch-logic halves of witnesses observed on the crate); for Gamma the scaled argument
  `x * rate` is guarded since a21bb2d (`0.0` on underflow, `1.0` on overflow) and all three
  branches are pinned.

  Not stated: "cdf = 1 at the support maximum" for Poisson / NegativeBinomial, whose `max()` is
  `u64::MAX` standing for +∞ (in exact arithmetic the value there is < 1); ±inf for StudentsT,
  which has no guard (the value there comes from IEEE arithmetic inside `beta_reg`).
-/
import Statrs.Props.C02.Special
import Statrs.Gen.F_beta
namespace Statrs.Props.C01
open Statrs Statrs.Gen Statrs.Spec.Incomplete Statrs.Lemmas.SpecialCdf

/-! # Part 1 — carrier ℝ -/
section RealCarrier
variable [SF ℝ]

/-! ## Gamma (shape > 0, rate > 0; support (0, ∞)) -/

/-- Gamma: 0 ≤ cdf ≤ 1 -/
theorem gamma_cdf_range_rel (S : GammaSpec) (d : Gamma ℝ) (hs : 0 < d.f_shape) (hr : 0 < d.f_rate)
    (x : ℝ) : 0 ≤ Gamma.cdf d x ∧ Gamma.cdf d x ≤ 1 := by
  have := C02.gamma_cdf_add_sf_rel S d hs hr x
  have := C02.gamma_sf_range_rel S d hs hr x
  constructor <;> linarith

/-- Gamma: cdf never decreases -/
theorem gamma_cdf_mono_rel (S : GammaSpec) (d : Gamma ℝ) (hs : 0 < d.f_shape) (hr : 0 < d.f_rate)
    (x y : ℝ) (hxy : x ≤ y) : Gamma.cdf d x ≤ Gamma.cdf d y := by
  have := C02.gamma_cdf_add_sf_rel S d hs hr x
  have := C02.gamma_cdf_add_sf_rel S d hs hr y
  have := C02.gamma_sf_antitone_rel S d hs hr x y hxy
  linarith

/-- Gamma: cdf = 0 at and below the support minimum 0 (no premise) -/
theorem gamma_cdf_below_min (d : Gamma ℝ) (x : ℝ) (hx : x ≤ Gamma.min d) : Gamma.cdf d x = 0 := by
  have hx' : x ≤ 0 := by unfold Gamma.min at hx; norm_num at hx; exact hx
  rw [gamma_cdf_real_full, if_pos hx']

example : ∃ d : Gamma ℝ, 0 < d.f_shape ∧ 0 < d.f_rate := ⟨⟨3, 1⟩, by norm_num, by norm_num⟩

/-! ## ChiSquared, Erlang: corollaries of Gamma -/

/-- ChiSquared: 0 ≤ cdf ≤ 1 -/
theorem chi_squared_cdf_range_rel (S : GammaSpec) (d : ChiSquared ℝ) (hs : 0 < d.f_g.f_shape)
    (hr : 0 < d.f_g.f_rate) (x : ℝ) : 0 ≤ ChiSquared.cdf d x ∧ ChiSquared.cdf d x ≤ 1 :=
  gamma_cdf_range_rel S d.f_g hs hr x

/-- ChiSquared: cdf never decreases -/
theorem chi_squared_cdf_mono_rel (S : GammaSpec) (d : ChiSquared ℝ) (hs : 0 < d.f_g.f_shape)
    (hr : 0 < d.f_g.f_rate) (x y : ℝ) (hxy : x ≤ y) : ChiSquared.cdf d x ≤ ChiSquared.cdf d y :=
  gamma_cdf_mono_rel S d.f_g hs hr x y hxy

/-- ChiSquared: cdf = 0 at and below the support minimum 0 -/
theorem chi_squared_cdf_below_min (d : ChiSquared ℝ) (x : ℝ) (hx : x ≤ ChiSquared.min d) :
    ChiSquared.cdf d x = 0 :=
  gamma_cdf_below_min d.f_g x (by unfold ChiSquared.min at hx; unfold Gamma.min; exact hx)

example (freedom : ℝ) (h : 0 < freedom) :
    let d : ChiSquared ℝ := ⟨freedom, ⟨freedom / 2.0, 0.5⟩⟩
    0 < d.f_g.f_shape ∧ 0 < d.f_g.f_rate := by
  exact ⟨by norm_num; exact h, by norm_num⟩

/-- Erlang: 0 ≤ cdf ≤ 1 -/
theorem erlang_cdf_range_rel (S : GammaSpec) (d : Erlang ℝ) (hs : 0 < d.f_g.f_shape)
    (hr : 0 < d.f_g.f_rate) (x : ℝ) : 0 ≤ Erlang.cdf d x ∧ Erlang.cdf d x ≤ 1 :=
  gamma_cdf_range_rel S d.f_g hs hr x

/-- Erlang: cdf never decreases -/
theorem erlang_cdf_mono_rel (S : GammaSpec) (d : Erlang ℝ) (hs : 0 < d.f_g.f_shape)
    (hr : 0 < d.f_g.f_rate) (x y : ℝ) (hxy : x ≤ y) : Erlang.cdf d x ≤ Erlang.cdf d y :=
  gamma_cdf_mono_rel S d.f_g hs hr x y hxy

/-- Erlang: cdf = 0 at and below the support minimum 0 -/
theorem erlang_cdf_below_min (d : Erlang ℝ) (x : ℝ) (hx : x ≤ Erlang.min d) : Erlang.cdf d x = 0 :=
  gamma_cdf_below_min d.f_g x (by unfold Erlang.min at hx; exact hx)

example : ∃ d : Erlang ℝ, 0 < d.f_g.f_shape ∧ 0 < d.f_g.f_rate :=
  ⟨⟨⟨RFun.ofInt 3, 2⟩⟩, by norm_num [rfun_ofInt], by norm_num⟩

/-! ## Chi (freedom : u64, nonzero; support [0, ∞)).  Order statements carry the finiteness guard
  `≠ RFun.inf` because the code's first test is `x == f64::INFINITY` (junk constant over ℝ). -/

/-- Chi: 0 ≤ cdf ≤ 1 -/
theorem chi_cdf_range_rel (S : GammaSpec) (d : Chi) (h0 : 0 ≤ d.f_freedom) (hne : d.f_freedom ≠ 0)
    (x : ℝ) : 0 ≤ Chi.cdf (α := ℝ) d x ∧ Chi.cdf (α := ℝ) d x ≤ 1 := by
  have := C02.chi_cdf_add_sf_rel S d h0 hne x
  have := C02.chi_sf_range_rel S d h0 hne x
  constructor <;> linarith

/-- Chi: cdf never decreases (finite arguments) -/
theorem chi_cdf_mono_rel (S : GammaSpec) (d : Chi) (h0 : 0 ≤ d.f_freedom) (hne : d.f_freedom ≠ 0)
    (x y : ℝ) (hxi : x ≠ (RFun.inf : ℝ)) (hyi : y ≠ (RFun.inf : ℝ)) (hxy : x ≤ y) :
    Chi.cdf (α := ℝ) d x ≤ Chi.cdf (α := ℝ) d y := by
  have := C02.chi_cdf_add_sf_rel S d h0 hne x
  have := C02.chi_cdf_add_sf_rel S d h0 hne y
  have := C02.chi_sf_antitone_rel S d h0 hne x y hxi hyi hxy
  linarith

/-- Chi: cdf = 0 at and below the support minimum 0 (finite argument; no premise) -/
theorem chi_cdf_below_min (d : Chi) (x : ℝ) (hxi : x ≠ (RFun.inf : ℝ))
    (hx : x ≤ Chi.min (α := ℝ) d) : Chi.cdf (α := ℝ) d x = 0 := by
  have hx' : x ≤ 0 := by unfold Chi.min at hx; norm_num at hx; exact hx
  rw [chi_cdf_real, if_neg hxi, if_pos hx']

example : ∃ d : Chi, 0 ≤ d.f_freedom ∧ d.f_freedom ≠ 0 := ⟨⟨2⟩, by decide, by decide⟩

/-! ## InverseGamma (shape > 0, rate > 0; support (0, ∞)) -/

/-- InverseGamma: 0 ≤ cdf ≤ 1 -/
theorem inverse_gamma_cdf_range_rel (S : GammaSpec) (d : InverseGamma ℝ) (hs : 0 < d.f_shape)
    (hr : 0 < d.f_rate) (x : ℝ) : 0 ≤ InverseGamma.cdf d x ∧ InverseGamma.cdf d x ≤ 1 := by
  have := C02.inverse_gamma_cdf_add_sf_rel S d hs hr x
  have := C02.inverse_gamma_sf_range_rel S d hs hr x
  constructor <;> linarith

/-- InverseGamma: cdf never decreases -/
theorem inverse_gamma_cdf_mono_rel (S : GammaSpec) (d : InverseGamma ℝ) (hs : 0 < d.f_shape)
    (hr : 0 < d.f_rate) (x y : ℝ) (hxy : x ≤ y) : InverseGamma.cdf d x ≤ InverseGamma.cdf d y := by
  have := C02.inverse_gamma_cdf_add_sf_rel S d hs hr x
  have := C02.inverse_gamma_cdf_add_sf_rel S d hs hr y
  have := C02.inverse_gamma_sf_antitone_rel S d hs hr x y hxy
  linarith

/-- InverseGamma: cdf = 0 at and below the support minimum 0 (no premise) -/
theorem inverse_gamma_cdf_below_min (d : InverseGamma ℝ) (x : ℝ) (hx : x ≤ InverseGamma.min d) :
    InverseGamma.cdf d x = 0 := by
  have hx' : x ≤ 0 := by unfold InverseGamma.min at hx; norm_num at hx; exact hx
  rw [inverse_gamma_cdf_real, if_pos hx']

example : ∃ d : InverseGamma ℝ, 0 < d.f_shape ∧ 0 < d.f_rate := ⟨⟨3, 1⟩, by norm_num, by norm_num⟩

/-! ## Beta (a > 0, b > 0; support [0, 1]) -/

/-- Beta: 0 ≤ cdf ≤ 1 -/
theorem beta_cdf_range_rel (B : BetaSpec) (d : Beta ℝ) (ha : 0 < d.f_shape_a)
    (hb : 0 < d.f_shape_b) (x : ℝ) : 0 ≤ Beta.cdf d x ∧ Beta.cdf d x ≤ 1 := by
  have := C02.beta_cdf_add_sf_rel B d ha hb x
  have := C02.beta_sf_range_rel B d ha hb x
  constructor <;> linarith

/-- Beta: cdf never decreases -/
theorem beta_cdf_mono_rel (B : BetaSpec) (d : Beta ℝ) (ha : 0 < d.f_shape_a)
    (hb : 0 < d.f_shape_b) (x y : ℝ) (hxy : x ≤ y) : Beta.cdf d x ≤ Beta.cdf d y := by
  have := C02.beta_cdf_add_sf_rel B d ha hb x
  have := C02.beta_cdf_add_sf_rel B d ha hb y
  have := C02.beta_sf_antitone_rel B d ha hb x y hxy
  linarith

/-- Beta: cdf = 0 below the support minimum (no premise) -/
theorem beta_cdf_below_min (d : Beta ℝ) (x : ℝ) (hx : x < Beta.min d) : Beta.cdf d x = 0 := by
  have hx' : x < 0 := by unfold Beta.min at hx; norm_num at hx; exact hx
  rw [beta_cdf_real, if_pos hx']

/-- Beta: cdf = 0 at the support minimum itself (uses `I_0(a,b) = 0`) -/
theorem beta_cdf_at_min_rel (B : BetaSpec) (d : Beta ℝ) (ha : 0 < d.f_shape_a)
    (hb : 0 < d.f_shape_b) : Beta.cdf d (Beta.min d) = 0 := by
  have : Beta.min d = 0 := by unfold Beta.min; norm_num
  rw [this, beta_cdf_real]
  norm_num
  intro _; exact B.at_zero _ _ ha hb

/-- Beta: cdf = 1 at and above the support maximum (no premise) -/
theorem beta_cdf_above_max (d : Beta ℝ) (x : ℝ) (hx : Beta.max d ≤ x) : Beta.cdf d x = 1 := by
  have hx' : (1 : ℝ) ≤ x := by unfold Beta.max at hx; norm_num at hx; exact hx
  rw [beta_cdf_real, if_neg (by linarith), if_pos hx']

example : ∃ d : Beta ℝ, 0 < d.f_shape_a ∧ 0 < d.f_shape_b := ⟨⟨2, 3⟩, by norm_num, by norm_num⟩

/-! ## StudentsT (scale > 0, freedom > 0; support ℝ) -/

/-- StudentsT: 0 ≤ cdf ≤ 1 -/
theorem students_t_cdf_range_rel (B : BetaSpec) (d : StudentsT ℝ) (hν : 0 < d.f_freedom) (x : ℝ) :
    0 ≤ StudentsT.cdf d x ∧ StudentsT.cdf d x ≤ 1 := by
  have := C02.students_t_cdf_add_sf d x
  have := C02.students_t_sf_range_rel B d hν x
  constructor <;> linarith

/-- StudentsT: cdf never decreases -/
theorem students_t_cdf_mono_rel (B : BetaSpec) (d : StudentsT ℝ) (hσ : 0 < d.f_scale)
    (hν : 0 < d.f_freedom) (x y : ℝ) (hxy : x ≤ y) : StudentsT.cdf d x ≤ StudentsT.cdf d y := by
  have := C02.students_t_cdf_add_sf d x
  have := C02.students_t_cdf_add_sf d y
  have := C02.students_t_sf_antitone_rel B d hσ hν x y hxy
  linarith

/-- StudentsT: cdf at the location is ½ (uses `I_1(a,b) = 1`): the two branches meet correctly -/
theorem students_t_cdf_at_location_rel (B : BetaSpec) (d : StudentsT ℝ) (hν : 0 < d.f_freedom) :
    StudentsT.cdf d d.f_location = 0.5 := by
  rw [students_t_cdf_real, if_pos le_rfl]
  have : tArg d d.f_location = 1 := by
    unfold tArg; simp; exact hν.ne'
  rw [this, B.at_one _ _ (by positivity) (by norm_num)]; norm_num

example : ∃ d : StudentsT ℝ, 0 < d.f_scale ∧ 0 < d.f_freedom :=
  ⟨⟨0, 1, 3⟩, by norm_num, by norm_num⟩

/-! ## FisherSnedecor (d₁ > 0, d₂ > 0; support [0, ∞)) -/

/-- FisherSnedecor: 0 ≤ cdf ≤ 1 -/
theorem fisher_snedecor_cdf_range_rel (B : BetaSpec) (d : FisherSnedecor ℝ)
    (h1 : 0 < d.f_freedom_1) (h2 : 0 < d.f_freedom_2) (x : ℝ) :
    0 ≤ FisherSnedecor.cdf d x ∧ FisherSnedecor.cdf d x ≤ 1 := by
  have := C02.fisher_snedecor_cdf_add_sf_rel B d h1 h2 x
  have := C02.fisher_snedecor_sf_range_rel B d h1 h2 x
  constructor <;> linarith

/-- FisherSnedecor: cdf never decreases -/
theorem fisher_snedecor_cdf_mono_rel (B : BetaSpec) (d : FisherSnedecor ℝ)
    (h1 : 0 < d.f_freedom_1) (h2 : 0 < d.f_freedom_2) (x y : ℝ) (hxy : x ≤ y) :
    FisherSnedecor.cdf d x ≤ FisherSnedecor.cdf d y := by
  have := C02.fisher_snedecor_cdf_add_sf_rel B d h1 h2 x
  have := C02.fisher_snedecor_cdf_add_sf_rel B d h1 h2 y
  have := C02.fisher_snedecor_sf_antitone_rel B d h1 h2 x y hxy
  linarith

/-- FisherSnedecor: cdf = 0 below the support minimum (no premise) -/
theorem fisher_snedecor_cdf_below_min (d : FisherSnedecor ℝ) (x : ℝ)
    (hx : x < FisherSnedecor.min d) : FisherSnedecor.cdf d x = 0 := by
  have hx' : x < 0 := by unfold FisherSnedecor.min at hx; norm_num at hx; exact hx
  rw [fisher_snedecor_cdf_real, if_pos hx']

/-- FisherSnedecor: cdf = 0 at the support minimum itself (uses `I_0(a,b) = 0`) -/
theorem fisher_snedecor_cdf_at_min_rel (B : BetaSpec) (d : FisherSnedecor ℝ)
    (h1 : 0 < d.f_freedom_1) (h2 : 0 < d.f_freedom_2) :
    FisherSnedecor.cdf d (FisherSnedecor.min d) = 0 := by
  have : FisherSnedecor.min d = 0 := by unfold FisherSnedecor.min; norm_num
  rw [this, fisher_snedecor_cdf_real, if_neg (lt_irrefl 0), fArg_zero]
  exact B.at_zero _ _ (by positivity) (by positivity)

example : ∃ d : FisherSnedecor ℝ, 0 < d.f_freedom_1 ∧ 0 < d.f_freedom_2 :=
  ⟨⟨3, 5⟩, by norm_num, by norm_num⟩

/-! ## Binomial (0 ≤ p ≤ 1, n : u64; support {0..n}) -/

/-- Binomial: 0 ≤ cdf ≤ 1 at every k : u64 -/
theorem binomial_cdf_range_rel (B : BetaSpec) (d : Binomial ℝ) (hp0 : 0 ≤ d.f_p) (hp1 : d.f_p ≤ 1)
    (k : ℤ) (hk : 0 ≤ k) : 0 ≤ Binomial.cdf d k ∧ Binomial.cdf d k ≤ 1 := by
  have := C02.binomial_cdf_add_sf_rel B d hp0 hp1 k hk
  have := C02.binomial_sf_range_rel B d hp0 hp1 k hk
  constructor <;> linarith

/-- Binomial: cdf never decreases in k -/
theorem binomial_cdf_mono_rel (B : BetaSpec) (T : BetaShiftSpec) (d : Binomial ℝ)
    (hp0 : 0 ≤ d.f_p) (hp1 : d.f_p ≤ 1) (j k : ℤ) (hj : 0 ≤ j) (hjk : j ≤ k) :
    Binomial.cdf d j ≤ Binomial.cdf d k := by
  have := C02.binomial_cdf_add_sf_rel B d hp0 hp1 j hj
  have := C02.binomial_cdf_add_sf_rel B d hp0 hp1 k (hj.trans hjk)
  have := C02.binomial_sf_antitone_rel B T d hp0 hp1 j k hj hjk
  linarith

/-- Binomial: cdf = 1 at and above the support maximum n (no premise) -/
theorem binomial_cdf_above_max (d : Binomial ℝ) (k : ℤ) (hk : Binomial.max d ≤ k) :
    Binomial.cdf d k = 1 := by
  rw [binomial_cdf_real, if_pos (by simpa [Binomial.max] using hk)]

/-- Binomial: the same monotone step stated directly on the cdf's own argument shape:
    `I_{1−p}(n−k, k+1) ≤ I_{1−p}(n−(k+1), (k+1)+1)` — the k ↦ k+1 convention of the cdf is the
    increasing one -/
theorem binomial_cdf_step_rel (T : BetaShiftSpec) (d : Binomial ℝ) (hp0 : 0 ≤ d.f_p)
    (hp1 : d.f_p ≤ 1) (k : ℤ) (hk : 0 ≤ k) (hkn : k + 1 < d.f_n) :
    Binomial.cdf d k ≤ Binomial.cdf d (k + 1) := by
  rw [binomial_cdf_real, binomial_cdf_real, if_neg (by omega), if_neg (by omega)]
  exact binomial_cdf_step T hk hkn (by linarith) (by linarith)

example : ∃ d : Binomial ℝ, 0 ≤ d.f_p ∧ d.f_p ≤ 1 ∧ 0 ≤ d.f_n :=
  ⟨⟨0.3, 5⟩, by norm_num, by norm_num, by norm_num⟩

/-! ## NegativeBinomial (r ≥ 0, 0 ≤ p ≤ 1; support {0, 1, …}).  `_partial`: `r = 0` is accepted
  by the constructor but not covered (see `negative_binomial_r_zero_beta_reg_error`). -/

/-- NegativeBinomial: 0 ≤ cdf ≤ 1.  Partial: `r = 0` excluded. -/
theorem negative_binomial_cdf_range_rel_partial (B : BetaSpec) (d : NegativeBinomial ℝ)
    (hr : 0 < d.f_r) (hp0 : 0 ≤ d.f_p) (hp1 : d.f_p ≤ 1) (k : ℤ) (hk : 0 ≤ k) :
    0 ≤ NegativeBinomial.cdf d k ∧ NegativeBinomial.cdf d k ≤ 1 := by
  have := C02.negative_binomial_cdf_add_sf_rel_partial B d hr hp0 hp1 k hk
  have := C02.negative_binomial_sf_range_rel_partial B d hr hp0 hp1 k hk
  constructor <;> linarith

/-- NegativeBinomial: cdf never decreases in k.  Partial: `r = 0` excluded. -/
theorem negative_binomial_cdf_mono_rel_partial (T : BetaShiftSpec) (d : NegativeBinomial ℝ)
    (hr : 0 < d.f_r) (hp0 : 0 ≤ d.f_p) (hp1 : d.f_p ≤ 1) (j k : ℤ) (hj : 0 ≤ j) (hjk : j ≤ k) :
    NegativeBinomial.cdf d j ≤ NegativeBinomial.cdf d k := by
  refine int_mono_of_step (f := fun k => NegativeBinomial.cdf d k) (fun i hi => ?_) hj hjk
  show NegativeBinomial.cdf d i ≤ NegativeBinomial.cdf d (i + 1)
  rw [negative_binomial_cdf_real, negative_binomial_cdf_real]
  exact negative_binomial_cdf_step T hr hi hp0 hp1

omit [SF ℝ] in
/-- The implementation behind `SF.beta_reg` (`statrs::function::beta`) rejects `a = 0`:
    `checked_beta_reg(0, b, x) = Err(ANotGreaterThanZero)`, which `beta_reg` unwraps (panic).
    `NegativeBinomial::new(0.0, p)` is accepted, and its `cdf(k) = beta_reg(0.0, k+1, p)`.
    [observed on the crate: `NegativeBinomial::new(0.0, 0.5).unwrap().cdf(3)` and `.sf(3)` panic] -/
theorem negative_binomial_r_zero_beta_reg_error (b x : ℝ) :
    F.beta.checked_beta_reg (α := ℝ) 0 b x = .error BetaFuncError.ANotGreaterThanZero := by
  unfold F.beta.checked_beta_reg
  rw [if_pos (by norm_num)]

/-- `r = 0`, `p = 1/2` passes every test of `NegativeBinomial::new` -/
example : NegativeBinomial.new (α := ℝ) 0 0.5 = .ok ⟨0, 0.5⟩ := by
  unfold NegativeBinomial.new; rfun_norm; norm_num

example : ∃ d : NegativeBinomial ℝ, 0 < d.f_r ∧ 0 ≤ d.f_p ∧ d.f_p ≤ 1 :=
  ⟨⟨4, 0.5⟩, by norm_num, by norm_num, by norm_num⟩

/-! ## Poisson (λ > 0; support {0, 1, …}) -/

/-- Poisson: 0 ≤ cdf ≤ 1 -/
theorem poisson_cdf_range_rel (S : GammaSpec) (d : Poisson ℝ) (hl : 0 < d.f_lambda)
    (k : ℤ) (hk : 0 ≤ k) : 0 ≤ Poisson.cdf d k ∧ Poisson.cdf d k ≤ 1 := by
  have := C02.poisson_cdf_add_sf_rel S d hl k hk
  have := C02.poisson_sf_range_rel S d hl k hk
  constructor <;> linarith

/-- Poisson: cdf never decreases in k -/
theorem poisson_cdf_mono_rel (S : GammaSpec) (T : GammaShiftSpec) (d : Poisson ℝ)
    (hl : 0 < d.f_lambda) (j k : ℤ) (hj : 0 ≤ j) (hjk : j ≤ k) :
    Poisson.cdf d j ≤ Poisson.cdf d k := by
  have := C02.poisson_cdf_add_sf_rel S d hl j hj
  have := C02.poisson_cdf_add_sf_rel S d hl k (hj.trans hjk)
  have := C02.poisson_sf_antitone_rel T d hl j k hj hjk
  linarith

example : ∃ d : Poisson ℝ, 0 < d.f_lambda := ⟨⟨2.5⟩, by norm_num⟩

end RealCarrier

/-! # Part 2 — every carrier: the explicit ±inf guards

  Pure branch logic, so valid for IEEE `Float` (`RFun.isInf = f64::is_infinite`, `RFun.inf = +∞`).
  Hypotheses are the outcomes of the tests the code performs before the guard. -/
section AnyCarrier
variable {α : Type} [Add α] [Sub α] [Mul α] [Div α] [Neg α] [LT α] [LE α] [BEq α] [DecidableLT α]
  [DecidableLE α] [OfScientific α] [Inhabited α] [RFun α] [SF α]

/-- Gamma (finite rate): cdf(+inf) = 1 -/
theorem gamma_cdf_at_inf (d : Gamma α) (x : α) (h0 : ¬ x ≤ (0.0 : α))
    (hr : RFun.isInf d.f_rate = false) (hx : RFun.isInf x = true) : Gamma.cdf d x = (1.0 : α) := by
  unfold Gamma.cdf; simp [h0, hr, hx]

/-- Gamma: any x ≤ 0 (in particular −inf) gives 0 -/
theorem gamma_cdf_nonpos (d : Gamma α) (x : α) (h0 : x ≤ (0.0 : α)) : Gamma.cdf d x = (0.0 : α) := by
  unfold Gamma.cdf; simp [h0]

/-- Gamma with an INFINITE rate (accepted by `Gamma::new` when the shape is finite): for x > 0 the
    cdf is 1 if `ulps_eq!(x, shape)` and 0 otherwise — including every x above the shape and
    x = +inf. -/
theorem gamma_cdf_infinite_rate (d : Gamma α) (x : α) (h0 : ¬ x ≤ (0.0 : α))
    (hr : RFun.isInf d.f_rate = true) :
    Gamma.cdf d x = if RFun.ulpsEq x d.f_shape = true then (1.0 : α) else (0.0 : α) := by
  unfold Gamma.cdf; simp [h0, hr]

/-- C01 fails for Gamma with infinite rate: the cdf is 1 at the shape and falls back to 0 at every
    larger argument that is not `ulps_eq` to it (so it decreases, and is 0 at +inf).
    [observed on the crate: `Gamma::new(10.0, INF)`: cdf(10.0) = 1, cdf(11.0) = 0, cdf(INF) = 0;
     `Erlang::new(10, INF)`: cdf(11.0) = 0] -/
theorem gamma_cdf_infinite_rate_counterexample (d : Gamma α) (x y : α)
    (hr : RFun.isInf d.f_rate = true)
    (hx0 : ¬ x ≤ (0.0 : α)) (hy0 : ¬ y ≤ (0.0 : α))
    (hx : RFun.ulpsEq x d.f_shape = true) (hy : RFun.ulpsEq y d.f_shape = false) :
    Gamma.cdf d x = (1.0 : α) ∧ Gamma.cdf d y = (0.0 : α) := by
  rw [gamma_cdf_infinite_rate d x hx0 hr, gamma_cdf_infinite_rate d y hy0 hr]
  simp [hx, hy]

/-- the same defect reaches Erlang, which delegates to its inner Gamma -/
theorem erlang_cdf_infinite_rate_counterexample (d : Erlang α) (x y : α)
    (hr : RFun.isInf d.f_g.f_rate = true)
    (hx0 : ¬ x ≤ (0.0 : α)) (hy0 : ¬ y ≤ (0.0 : α))
    (hx : RFun.ulpsEq x d.f_g.f_shape = true) (hy : RFun.ulpsEq y d.f_g.f_shape = false) :
    Erlang.cdf d x = (1.0 : α) ∧ Erlang.cdf d y = (0.0 : α) :=
  gamma_cdf_infinite_rate_counterexample d.f_g x y hr hx0 hy0 hx hy

/-- Chi: cdf(+inf) = 1 -/
theorem chi_cdf_at_inf (d : Chi) (x : α) (hx : (x == (RFun.inf : α)) = true) :
    Chi.cdf d x = (1.0 : α) := by
  unfold Chi.cdf; simp [hx]

/-- Chi: finite x ≤ 0 (and −inf) gives 0 -/
theorem chi_cdf_nonpos (d : Chi) (x : α) (hx : (x == (RFun.inf : α)) = false) (h0 : x ≤ (0.0 : α)) :
    Chi.cdf d x = (0.0 : α) := by
  unfold Chi.cdf; simp [hx, h0]

/-- InverseGamma: cdf(+inf) = 1 -/
theorem inverse_gamma_cdf_at_inf (d : InverseGamma α) (x : α) (h0 : ¬ x ≤ (0.0 : α))
    (hx : RFun.isInf x = true) : InverseGamma.cdf d x = (1.0 : α) := by
  unfold InverseGamma.cdf; simp [h0, hx]

/-- InverseGamma: any x ≤ 0 (in particular −inf) gives 0 -/
theorem inverse_gamma_cdf_nonpos (d : InverseGamma α) (x : α) (h0 : x ≤ (0.0 : α)) :
    InverseGamma.cdf d x = (0.0 : α) := by
  unfold InverseGamma.cdf; simp [h0]

/-- FisherSnedecor: cdf(+inf) = 1 -/
theorem fisher_snedecor_cdf_at_inf (d : FisherSnedecor α) (x : α) (h0 : ¬ x < (0.0 : α))
    (hx : RFun.isInf x = true) : FisherSnedecor.cdf d x = (1.0 : α) := by
  unfold FisherSnedecor.cdf; simp [h0, hx]

/-- FisherSnedecor: any x < 0 (in particular −inf) gives 0 -/
theorem fisher_snedecor_cdf_neg (d : FisherSnedecor α) (x : α) (h0 : x < (0.0 : α)) :
    FisherSnedecor.cdf d x = (0.0 : α) := by
  unfold FisherSnedecor.cdf; simp [h0]

/-- Beta: any x < 0 (in particular −inf) gives 0; any x ≥ 1 that is not < 0 (in particular +inf)
    gives 1 -/
theorem beta_cdf_outside (d : Beta α) (x : α) :
    (x < (0.0 : α) → Beta.cdf d x = (0.0 : α)) ∧
    (¬ x < (0.0 : α) → (1.0 : α) ≤ x → Beta.cdf d x = (1.0 : α)) := by
  constructor
  · intro h; unfold Beta.cdf; simp [h]
  · intro h0 h1; unfold Beta.cdf; simp [h0, h1]

end AnyCarrier

/-! # Part 3 — every carrier: finite arguments whose scaled argument overflows to +inf

  Over ℝ nothing overflows, so Part 1 is silent about this.  In IEEE arithmetic the argument the
  cdf hands to the special function (`x * x / 2`, `rate / x`, `d₁x / (d₁x + d₂)`) can be
  `+inf` / `NaN` for a finite `x` that passed every guard, and the implementation behind
  `SF.gamma_lr` / `SF.gamma_ur` / `SF.beta_reg` then returns `Err`, which the unchecked wrapper
  unwraps: the cdf panics instead of returning a number in [0,1].
  [observed on the crate — all constructors succeed, every call below panics:
     Gamma::new(INF, 1.0).cdf(5.0)                (shape = +inf is accepted when the rate is finite)
     Chi::new(3).cdf(1e200), .sf(1e200)           (x·x/2 = +inf)
     InverseGamma::new(3.0, 5.0).cdf(1e-320)      (rate/x = +inf)
     FisherSnedecor::new(3.0, 5.0).cdf(1e308), .sf(1e308)   (d₁x = +inf, inf/inf = NaN)]
  The lemmas below are the two halves of each witness that are pure branch logic: which call the
  cdf makes once its guards are passed, and that the implementation rejects that call.
  Gamma (hence ChiSquared, Erlang) no longer belongs to the `x·rate` list: since a21bb2d
  `Gamma::cdf` computes `scaled = x * rate` first and returns `0.0` when `scaled == 0.0`
  (underflow) and `1.0` when `scaled` is infinite (overflow; the former witness
  `Gamma::new(3.0, 1e308).cdf(1e308)` now returns 1.0) — `gamma_cdf_scaled_zero`,
  `gamma_cdf_scaled_inf` below pin these two branches for every carrier, and
  `gamma_cdf_calls_gamma_lr` states the remaining call under all six guards. -/
section Overflow
variable {α : Type} [Add α] [Sub α] [Mul α] [Div α] [Neg α] [LT α] [LE α] [BEq α] [DecidableLT α]
  [DecidableLE α] [OfScientific α] [Inhabited α] [RFun α]

/-- past its guards (now including `scaled ≠ 0`, `scaled` finite), `Gamma::cdf` is the call
    `gamma_lr(shape, x * rate)` -/
theorem gamma_cdf_calls_gamma_lr [SF α] (d : Gamma α) (x : α) (h0 : ¬ x ≤ (0.0 : α))
    (hr : RFun.isInf d.f_rate = false) (hx : RFun.isInf x = false)
    (hz : ((x * d.f_rate) == (0.0 : α)) = false) (hi : RFun.isInf (x * d.f_rate) = false) :
    Gamma.cdf d x = SF.gamma_lr d.f_shape (x * d.f_rate) := by
  unfold Gamma.cdf; simp [h0, hr, hx, hz, hi]

/-- a finite positive `x` whose scaled argument `x * rate` compares equal to `0.0` (underflow):
    `Gamma::cdf` returns `0.0` without calling `gamma_lr` -/
theorem gamma_cdf_scaled_zero [SF α] (d : Gamma α) (x : α) (h0 : ¬ x ≤ (0.0 : α))
    (hr : RFun.isInf d.f_rate = false) (hx : RFun.isInf x = false)
    (hz : ((x * d.f_rate) == (0.0 : α)) = true) :
    Gamma.cdf d x = (0.0 : α) := by
  unfold Gamma.cdf; simp [h0, hr, hx, hz]

/-- a finite positive `x` whose scaled argument `x * rate` overflows to `±inf`: `Gamma::cdf`
    returns `1.0` (before a21bb2d this was the panicking call `gamma_lr(shape, +inf)`) -/
theorem gamma_cdf_scaled_inf [SF α] (d : Gamma α) (x : α) (h0 : ¬ x ≤ (0.0 : α))
    (hr : RFun.isInf d.f_rate = false) (hx : RFun.isInf x = false)
    (hz : ((x * d.f_rate) == (0.0 : α)) = false) (hi : RFun.isInf (x * d.f_rate) = true) :
    Gamma.cdf d x = (1.0 : α) := by
  unfold Gamma.cdf; simp [h0, hr, hx, hz, hi]

/-- the same three branches for `Gamma::sf` (`1.0` / `0.0` / `gamma_ur(shape, x * rate)`) -/
theorem gamma_sf_calls_gamma_ur [SF α] (d : Gamma α) (x : α) (h0 : ¬ x ≤ (0.0 : α))
    (hr : RFun.isInf d.f_rate = false) (hx : RFun.isInf x = false)
    (hz : ((x * d.f_rate) == (0.0 : α)) = false) (hi : RFun.isInf (x * d.f_rate) = false) :
    Gamma.sf d x = SF.gamma_ur d.f_shape (x * d.f_rate) := by
  unfold Gamma.sf; simp [h0, hr, hx, hz, hi]

theorem gamma_sf_scaled_zero [SF α] (d : Gamma α) (x : α) (h0 : ¬ x ≤ (0.0 : α))
    (hr : RFun.isInf d.f_rate = false) (hx : RFun.isInf x = false)
    (hz : ((x * d.f_rate) == (0.0 : α)) = true) :
    Gamma.sf d x = (1.0 : α) := by
  unfold Gamma.sf; simp [h0, hr, hx, hz]

theorem gamma_sf_scaled_inf [SF α] (d : Gamma α) (x : α) (h0 : ¬ x ≤ (0.0 : α))
    (hr : RFun.isInf d.f_rate = false) (hx : RFun.isInf x = false)
    (hz : ((x * d.f_rate) == (0.0 : α)) = false) (hi : RFun.isInf (x * d.f_rate) = true) :
    Gamma.sf d x = (0.0 : α) := by
  unfold Gamma.sf; simp [h0, hr, hx, hz, hi]

/-- past its guards, `Chi::cdf` is the call `gamma_lr(k/2, x*x/2)` -/
theorem chi_cdf_calls_gamma_lr [SF α] (d : Chi) (x : α) (hx : (x == (RFun.inf : α)) = false)
    (h0 : ¬ x ≤ (0.0 : α)) :
    Chi.cdf d x = SF.gamma_lr ((RFun.ofInt d.f_freedom : α) / (2.0 : α)) ((x * x) / (2.0 : α)) := by
  unfold Chi.cdf Chi.freedom; simp [hx, h0]

/-- past its guards, `InverseGamma::cdf` is the call `gamma_ur(shape, rate / x)` -/
theorem inverse_gamma_cdf_calls_gamma_ur [SF α] (d : InverseGamma α) (x : α) (h0 : ¬ x ≤ (0.0 : α))
    (hx : RFun.isInf x = false) :
    InverseGamma.cdf d x = SF.gamma_ur d.f_shape (d.f_rate / x) := by
  unfold InverseGamma.cdf; simp [h0, hx]

/-- past its guards, `FisherSnedecor::cdf` is the call `beta_reg(d₁/2, d₂/2, d₁x/(d₁x+d₂))` -/
theorem fisher_snedecor_cdf_calls_beta_reg [SF α] (d : FisherSnedecor α) (x : α)
    (h0 : ¬ x < (0.0 : α)) (hx : RFun.isInf x = false) :
    FisherSnedecor.cdf d x = SF.beta_reg (d.f_freedom_1 / (2.0 : α)) (d.f_freedom_2 / (2.0 : α))
      ((d.f_freedom_1 * x) / ((d.f_freedom_1 * x) + d.f_freedom_2)) := by
  unfold FisherSnedecor.cdf; simp [h0, hx]

/-- `checked_gamma_lr(a, +inf) = Err(XInvalid)` -/
theorem checked_gamma_lr_inf_arg (a x : α) (hna : RFun.isNaN a = false) (hnx : RFun.isNaN x = false)
    (ha : ¬ a ≤ (0.0 : α)) (hai : (a == (RFun.inf : α)) = false) (hx : (x == (RFun.inf : α)) = true) :
    F.gamma.checked_gamma_lr a x = .error GammaFuncError.XInvalid := by
  unfold F.gamma.checked_gamma_lr
  rw [if_neg (by simp [hna, hnx]), if_neg (by simp [ha, hai]), if_pos (Or.inr hx)]

/-- `checked_gamma_lr(+inf, x) = Err(AInvalid)` -/
theorem checked_gamma_lr_inf_shape (a x : α) (hna : RFun.isNaN a = false) (hnx : RFun.isNaN x = false)
    (hai : (a == (RFun.inf : α)) = true) :
    F.gamma.checked_gamma_lr a x = .error GammaFuncError.AInvalid := by
  unfold F.gamma.checked_gamma_lr
  rw [if_neg (by simp [hna, hnx]), if_pos (Or.inr hai)]

/-- `checked_gamma_ur(a, +inf) = Err(XInvalid)` -/
theorem checked_gamma_ur_inf_arg (a x : α) (hna : RFun.isNaN a = false) (hnx : RFun.isNaN x = false)
    (ha : ¬ a ≤ (0.0 : α)) (hai : (a == (RFun.inf : α)) = false) (hx : (x == (RFun.inf : α)) = true) :
    F.gamma.checked_gamma_ur a x = .error GammaFuncError.XInvalid := by
  unfold F.gamma.checked_gamma_ur
  rw [if_neg (by simp [hna, hnx]), if_neg (by simp [ha, hai]), if_pos (Or.inr hx)]

/-- `checked_beta_reg(a, b, x) = Err(XOutOfRange)` when `x` is not in [0,1] (e.g. NaN) -/
theorem checked_beta_reg_out_of_range (a b x : α) (ha : ¬ a ≤ (0.0 : α)) (hb : ¬ b ≤ (0.0 : α))
    (hx : ¬ ((0.0 : α) ≤ x ∧ x ≤ (1.0 : α))) :
    F.beta.checked_beta_reg a b x = .error BetaFuncError.XOutOfRange := by
  unfold F.beta.checked_beta_reg
  rw [if_neg ha, if_neg hb, if_pos hx]

end Overflow

end Statrs.Props.C01
