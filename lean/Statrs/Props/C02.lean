/-
  C02 — sf is the complement of cdf (theorems over the regenerated model, carrier ℝ).
  Property theorems only; helper lemmas live in Statrs/Lemmas.
  Strength tags (DESIGN §4): full(ℝ) unless the name ends in `_rel` (relative to SFSpec premises).
-/
import Statrs.Real.Simp
import Statrs.Gen.D_exponential
import Statrs.Gen.D_uniform
import Mathlib.Tactic
namespace Statrs.Props.C02
open Statrs Statrs.Gen

/-- Exp: cdf + sf = 1 for every rate and argument -/
theorem exp_cdf_add_sf (d : Exp ℝ) (x : ℝ) : Exp.cdf d x + Exp.sf d x = 1 := by
  unfold Exp.cdf Exp.sf
  split_ifs <;> rfun_norm <;> norm_num

/-- Uniform: cdf + sf = 1 on every constructed object (min < max is what `new` enforces) -/
theorem uniform_cdf_add_sf (d : Uniform ℝ) (x : ℝ) (h : d.f_min < d.f_max) :
    Uniform.cdf d x + Uniform.sf d x = 1 := by
  unfold Uniform.cdf Uniform.sf
  have hne : d.f_max - d.f_min ≠ 0 := by linarith
  split_ifs <;> norm_num
  field_simp; ring

example : ∃ d : Uniform ℝ, d.f_min < d.f_max := ⟨⟨0, 1⟩, by norm_num⟩

end Statrs.Props.C02
