/-
  C02 — sf is the complement of cdf — closed-form continuous families
  (Uniform, Exp, Cauchy, Laplace, Gumbel, Pareto, Triangular, Weibull, Dirac).

  Every one of these families OVERRIDES the trait default `sf = 1 - cdf` with its own formula;
  `X_cdf_add_sf` shows the override is the exact complement of the family's cdf for every
  argument (so it cannot be a shifted / mirrored / off-by-one variant), and then
  0 ≤ sf ≤ 1 and antitonicity of sf follow from the C01 facts about cdf.
  All theorems are full(ℝ), under exactly the constructor's acceptance predicate (hypotheses
  that a particular fact does not need are omitted, which only makes it stronger).
  `exp_cdf_add_sf` and `uniform_cdf_add_sf` are the ones already in `Statrs/Props/C02.lean`
  (imported, not restated).
-/
import Statrs.Props.C02
import Statrs.Props.C01.Closed
namespace Statrs.Props.C02
open Statrs Statrs.Gen Statrs.Lemmas.ClosedCdf Statrs.Props.C01

/-! ### Uniform — `new` accepts iff min < max -/

theorem uniform_sf_nonneg (d : Uniform ℝ) (h : d.f_min < d.f_max) (x : ℝ) :
    0 ≤ Uniform.sf d x := by
  have := uniform_cdf_add_sf d x h; have := uniform_cdf_le_one d h x; linarith

theorem uniform_sf_le_one (d : Uniform ℝ) (h : d.f_min < d.f_max) (x : ℝ) :
    Uniform.sf d x ≤ 1 := by
  have := uniform_cdf_add_sf d x h; have := uniform_cdf_nonneg d x; linarith

theorem uniform_sf_anti (d : Uniform ℝ) (h : d.f_min < d.f_max) {x y : ℝ} (hxy : x ≤ y) :
    Uniform.sf d y ≤ Uniform.sf d x := by
  have := uniform_cdf_add_sf d x h; have := uniform_cdf_add_sf d y h
  have := uniform_cdf_mono d h hxy; linarith

example : ∃ d : Uniform ℝ, d.f_min < d.f_max := ⟨⟨0, 1⟩, by norm_num⟩

/-! ### Exp — `new` accepts iff 0 < rate -/

theorem exp_sf_nonneg (d : Exp ℝ) (x : ℝ) : 0 ≤ Exp.sf d x := by
  have := exp_cdf_add_sf d x; have := exp_cdf_le_one d x; linarith

theorem exp_sf_le_one (d : Exp ℝ) (h : 0 < d.f_rate) (x : ℝ) : Exp.sf d x ≤ 1 := by
  have := exp_cdf_add_sf d x; have := exp_cdf_nonneg d h x; linarith

theorem exp_sf_anti (d : Exp ℝ) (h : 0 < d.f_rate) {x y : ℝ} (hxy : x ≤ y) :
    Exp.sf d y ≤ Exp.sf d x := by
  have := exp_cdf_add_sf d x; have := exp_cdf_add_sf d y
  have := exp_cdf_mono d h hxy; linarith

example : ∃ d : Exp ℝ, 0 < d.f_rate := ⟨⟨1⟩, by norm_num⟩

/-! ### Cauchy — `new` accepts iff 0 < scale.  sf is written with the mirrored argument
`atan((location - x)/scale)`; it is the complement because arctan is odd. -/

theorem cauchy_cdf_add_sf (d : Cauchy ℝ) (x : ℝ) : Cauchy.cdf d x + Cauchy.sf d x = 1 := by
  rw [cauchy_cdf_eq, cauchy_sf_eq, arctan_neg_div x d.f_location d.f_scale]; ring

theorem cauchy_sf_nonneg (d : Cauchy ℝ) (x : ℝ) : 0 ≤ Cauchy.sf d x := by
  have := cauchy_cdf_add_sf d x; have := cauchy_cdf_le_one d x; linarith

theorem cauchy_sf_le_one (d : Cauchy ℝ) (x : ℝ) : Cauchy.sf d x ≤ 1 := by
  have := cauchy_cdf_add_sf d x; have := cauchy_cdf_nonneg d x; linarith

theorem cauchy_sf_anti (d : Cauchy ℝ) (h : 0 < d.f_scale) {x y : ℝ} (hxy : x ≤ y) :
    Cauchy.sf d y ≤ Cauchy.sf d x := by
  have := cauchy_cdf_add_sf d x; have := cauchy_cdf_add_sf d y
  have := cauchy_cdf_mono d h hxy; linarith

example : ∃ d : Cauchy ℝ, 0 < d.f_scale := ⟨⟨0, 1⟩, by norm_num⟩

/-! ### Laplace — `new` accepts iff 0 < scale -/

theorem laplace_cdf_add_sf (d : Laplace ℝ) (x : ℝ) : Laplace.cdf d x + Laplace.sf d x = 1 := by
  rw [laplace_cdf_eq, laplace_sf_eq]; split_ifs <;> ring

theorem laplace_sf_nonneg (d : Laplace ℝ) (h : 0 < d.f_scale) (x : ℝ) : 0 ≤ Laplace.sf d x := by
  have := laplace_cdf_add_sf d x; have := laplace_cdf_le_one d h x; linarith

theorem laplace_sf_le_one (d : Laplace ℝ) (h : 0 < d.f_scale) (x : ℝ) : Laplace.sf d x ≤ 1 := by
  have := laplace_cdf_add_sf d x; have := laplace_cdf_nonneg d h x; linarith

theorem laplace_sf_anti (d : Laplace ℝ) (h : 0 < d.f_scale) {x y : ℝ} (hxy : x ≤ y) :
    Laplace.sf d y ≤ Laplace.sf d x := by
  have := laplace_cdf_add_sf d x; have := laplace_cdf_add_sf d y
  have := laplace_cdf_mono d h hxy; linarith

example : ∃ d : Laplace ℝ, 0 < d.f_scale := ⟨⟨0, 1⟩, by norm_num⟩

/-! ### Gumbel — `new` accepts iff 0 < scale.  sf is `-expm1(-exp(..))` -/

theorem gumbel_cdf_add_sf (d : Gumbel ℝ) (x : ℝ) : Gumbel.cdf d x + Gumbel.sf d x = 1 := by
  rw [gumbel_cdf_eq, gumbel_sf_eq]; ring

theorem gumbel_sf_nonneg (d : Gumbel ℝ) (x : ℝ) : 0 ≤ Gumbel.sf d x := by
  have := gumbel_cdf_add_sf d x; have := gumbel_cdf_le_one d x; linarith

theorem gumbel_sf_le_one (d : Gumbel ℝ) (x : ℝ) : Gumbel.sf d x ≤ 1 := by
  have := gumbel_cdf_add_sf d x; have := gumbel_cdf_nonneg d x; linarith

theorem gumbel_sf_anti (d : Gumbel ℝ) (h : 0 < d.f_scale) {x y : ℝ} (hxy : x ≤ y) :
    Gumbel.sf d y ≤ Gumbel.sf d x := by
  have := gumbel_cdf_add_sf d x; have := gumbel_cdf_add_sf d y
  have := gumbel_cdf_mono d h hxy; linarith

example : ∃ d : Gumbel ℝ, 0 < d.f_scale := ⟨⟨0, 1⟩, by norm_num⟩

/-! ### Pareto — `new` accepts iff 0 < scale ∧ 0 < shape -/

theorem pareto_cdf_add_sf (d : Pareto ℝ) (x : ℝ) : Pareto.cdf d x + Pareto.sf d x = 1 := by
  rw [pareto_cdf_eq, pareto_sf_eq]; split_ifs <;> ring

theorem pareto_sf_nonneg (d : Pareto ℝ) (hs : 0 < d.f_scale) (x : ℝ) : 0 ≤ Pareto.sf d x := by
  have := pareto_cdf_add_sf d x; have := pareto_cdf_le_one d hs x; linarith

theorem pareto_sf_le_one (d : Pareto ℝ) (hs : 0 < d.f_scale) (hk : 0 < d.f_shape) (x : ℝ) :
    Pareto.sf d x ≤ 1 := by
  have := pareto_cdf_add_sf d x; have := pareto_cdf_nonneg d hs hk x; linarith

theorem pareto_sf_anti (d : Pareto ℝ) (hs : 0 < d.f_scale) (hk : 0 < d.f_shape) {x y : ℝ}
    (hxy : x ≤ y) : Pareto.sf d y ≤ Pareto.sf d x := by
  have := pareto_cdf_add_sf d x; have := pareto_cdf_add_sf d y
  have := pareto_cdf_mono d hs hk hxy; linarith

example : ∃ d : Pareto ℝ, 0 < d.f_scale ∧ 0 < d.f_shape := ⟨⟨1, 1⟩, by norm_num⟩

/-! ### Triangular — `new` accepts iff min ≤ mode ≤ max ∧ min ≠ max -/

theorem triangular_cdf_add_sf (d : Triangular ℝ) (x : ℝ) :
    Triangular.cdf d x + Triangular.sf d x = 1 := by
  rw [triangular_cdf_eq, triangular_sf_eq]; split_ifs <;> ring

theorem triangular_sf_nonneg (d : Triangular ℝ) (h1 : d.f_min ≤ d.f_mode)
    (h2 : d.f_mode ≤ d.f_max) (h3 : d.f_min ≠ d.f_max) (x : ℝ) : 0 ≤ Triangular.sf d x := by
  have := triangular_cdf_add_sf d x; have := triangular_cdf_le_one d h1 h2 h3 x; linarith

theorem triangular_sf_le_one (d : Triangular ℝ) (h1 : d.f_min ≤ d.f_mode)
    (h2 : d.f_mode ≤ d.f_max) (h3 : d.f_min ≠ d.f_max) (x : ℝ) : Triangular.sf d x ≤ 1 := by
  have := triangular_cdf_add_sf d x; have := triangular_cdf_nonneg d h1 h2 h3 x; linarith

theorem triangular_sf_anti (d : Triangular ℝ) (h1 : d.f_min ≤ d.f_mode)
    (h2 : d.f_mode ≤ d.f_max) (h3 : d.f_min ≠ d.f_max) {x y : ℝ} (hxy : x ≤ y) :
    Triangular.sf d y ≤ Triangular.sf d x := by
  have := triangular_cdf_add_sf d x; have := triangular_cdf_add_sf d y
  have := triangular_cdf_mono d h1 h2 h3 hxy; linarith

example : ∃ d : Triangular ℝ, d.f_min ≤ d.f_mode ∧ d.f_mode ≤ d.f_max ∧ d.f_min ≠ d.f_max :=
  ⟨⟨0, 1, 1⟩, by norm_num⟩

/-! ### Weibull — `new` accepts iff 0 < shape ∧ 0 < scale and stores
`scale_pow_shape_inv = scale ^ (-shape)`.  cdf is `-expm1(t)`, sf is `exp(t)`. -/

theorem weibull_cdf_add_sf (d : Weibull ℝ) (x : ℝ) : Weibull.cdf d x + Weibull.sf d x = 1 := by
  rw [weibull_cdf_eq, weibull_sf_eq]; split_ifs <;> ring

theorem weibull_sf_nonneg (d : Weibull ℝ) (x : ℝ) : 0 ≤ Weibull.sf d x := by
  have := weibull_cdf_add_sf d x; have := weibull_cdf_le_one d x; linarith

theorem weibull_sf_le_one (d : Weibull ℝ) (hs : 0 < d.f_scale)
    (hi : d.f_scale_pow_shape_inv = d.f_scale ^ (-d.f_shape)) (x : ℝ) : Weibull.sf d x ≤ 1 := by
  have := weibull_cdf_add_sf d x; have := weibull_cdf_nonneg d hs hi x; linarith

theorem weibull_sf_anti (d : Weibull ℝ) (hk : 0 < d.f_shape) (hs : 0 < d.f_scale)
    (hi : d.f_scale_pow_shape_inv = d.f_scale ^ (-d.f_shape)) {x y : ℝ} (hxy : x ≤ y) :
    Weibull.sf d y ≤ Weibull.sf d x := by
  have := weibull_cdf_add_sf d x; have := weibull_cdf_add_sf d y
  have := weibull_cdf_mono d hk hs hi hxy; linarith

example : ∃ d : Weibull ℝ, 0 < d.f_shape ∧ 0 < d.f_scale ∧
    d.f_scale_pow_shape_inv = d.f_scale ^ (-d.f_shape) := ⟨⟨1, 1, 1⟩, by norm_num⟩

/-! ### Dirac — `new` accepts every non-NaN value: no hypothesis over ℝ -/

theorem dirac_cdf_add_sf (d : Dirac ℝ) (x : ℝ) : Dirac.cdf d x + Dirac.sf d x = 1 := by
  rw [dirac_cdf_eq, dirac_sf_eq]; split_ifs <;> norm_num

theorem dirac_sf_nonneg (d : Dirac ℝ) (x : ℝ) : 0 ≤ Dirac.sf d x := by
  have := dirac_cdf_add_sf d x; have := dirac_cdf_le_one d x; linarith

theorem dirac_sf_le_one (d : Dirac ℝ) (x : ℝ) : Dirac.sf d x ≤ 1 := by
  have := dirac_cdf_add_sf d x; have := dirac_cdf_nonneg d x; linarith

theorem dirac_sf_anti (d : Dirac ℝ) {x y : ℝ} (hxy : x ≤ y) : Dirac.sf d y ≤ Dirac.sf d x := by
  have := dirac_cdf_add_sf d x; have := dirac_cdf_add_sf d y
  have := dirac_cdf_mono d hxy; linarith

end Statrs.Props.C02
