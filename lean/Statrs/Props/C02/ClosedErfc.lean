/-
  C02 — sf is the complement of cdf — erfc-based families (Normal, LogNormal, Levy), RELATIVE
  to premises about the abstract `SF.erfc` / `SF.erf` (`Statrs.Spec.Erfc.ErfcSpec`, and for
  Levy — whose `sf` calls `SF.erf` — `ErfSpec` = ErfcSpec + `erf z = 1 - erfc z`).
  All three families override the default `sf = 1 - cdf`: Normal and LogNormal by evaluating
  erfc at the negated argument (complement by the reflection premise), Levy by calling erf.
-/
import Statrs.Props.C01.ClosedErfc
namespace Statrs.Props.C02
open Statrs Statrs.Gen Statrs.Lemmas.ClosedCdfErfc Statrs.Spec.Erfc Statrs.Props.C01
variable [SF ℝ]

/-! ### Normal — `new` accepts iff 0 < std_dev -/

theorem normal_cdf_add_sf_rel (S : ErfcSpec) (d : Normal ℝ) (x : ℝ) :
    Normal.cdf d x + Normal.sf d x = 1 := by
  rw [normal_cdf_eq, normal_sf_eq]
  have h : (x - d.f_mean) / (d.f_std_dev * Real.sqrt 2) =
      -((d.f_mean - x) / (d.f_std_dev * Real.sqrt 2)) := by ring
  rw [h, S.erfc_neg]; ring

theorem normal_sf_nonneg_rel (S : ErfcSpec) (d : Normal ℝ) (x : ℝ) : 0 ≤ Normal.sf d x := by
  rw [normal_sf_eq]; have := S.erfc_nonneg ((x - d.f_mean) / (d.f_std_dev * Real.sqrt 2))
  linarith

theorem normal_sf_le_one_rel (S : ErfcSpec) (d : Normal ℝ) (x : ℝ) : Normal.sf d x ≤ 1 := by
  rw [normal_sf_eq]; have := S.erfc_le_two ((x - d.f_mean) / (d.f_std_dev * Real.sqrt 2))
  linarith

theorem normal_sf_anti_rel (S : ErfcSpec) (d : Normal ℝ) (h : 0 < d.f_std_dev) {x y : ℝ}
    (hxy : x ≤ y) : Normal.sf d y ≤ Normal.sf d x := by
  have := normal_cdf_add_sf_rel S d x; have := normal_cdf_add_sf_rel S d y
  have := normal_cdf_mono_rel S d h hxy; linarith

example : ∃ d : Normal ℝ, 0 < d.f_std_dev := ⟨⟨0, 1⟩, by norm_num⟩

/-! ### LogNormal — `new` accepts iff 0 < scale -/

theorem log_normal_cdf_add_sf_rel (S : ErfcSpec) (d : LogNormal ℝ) (x : ℝ) :
    LogNormal.cdf d x + LogNormal.sf d x = 1 := by
  rw [log_normal_cdf_eq, log_normal_sf_eq]
  split_ifs
  · norm_num
  · have h : (Real.log x - d.f_location) / (d.f_scale * Real.sqrt 2) =
        -((d.f_location - Real.log x) / (d.f_scale * Real.sqrt 2)) := by ring
    rw [h, S.erfc_neg]; ring

theorem log_normal_sf_nonneg_rel (S : ErfcSpec) (d : LogNormal ℝ) (x : ℝ) :
    0 ≤ LogNormal.sf d x := by
  have := log_normal_cdf_add_sf_rel S d x; have := log_normal_cdf_le_one_rel S d x; linarith

theorem log_normal_sf_le_one_rel (S : ErfcSpec) (d : LogNormal ℝ) (x : ℝ) :
    LogNormal.sf d x ≤ 1 := by
  have := log_normal_cdf_add_sf_rel S d x; have := log_normal_cdf_nonneg_rel S d x; linarith

theorem log_normal_sf_anti_rel (S : ErfcSpec) (d : LogNormal ℝ) (h : 0 < d.f_scale) {x y : ℝ}
    (hxy : x ≤ y) : LogNormal.sf d y ≤ LogNormal.sf d x := by
  have := log_normal_cdf_add_sf_rel S d x; have := log_normal_cdf_add_sf_rel S d y
  have := log_normal_cdf_mono_rel S d h hxy; linarith

example : ∃ d : LogNormal ℝ, 0 < d.f_scale := ⟨⟨0, 1⟩, by norm_num⟩

/-! ### Levy — `new` accepts iff 0 < c.  `sf` calls `SF.erf`, so the premise is `ErfSpec`. -/

theorem levy_cdf_add_sf_rel (S : ErfSpec) (d : Levy ℝ) (x : ℝ) :
    Levy.cdf d x + Levy.sf d x = 1 := by
  rw [levy_cdf_eq, levy_sf_eq]
  split_ifs
  · norm_num
  · rw [S.erf_eq]; ring

theorem levy_sf_nonneg_rel (S : ErfSpec) (d : Levy ℝ) (x : ℝ) : 0 ≤ Levy.sf d x := by
  have := levy_cdf_add_sf_rel S d x; have := levy_cdf_le_one_rel S.toErfcSpec d x; linarith

theorem levy_sf_le_one_rel (S : ErfSpec) (d : Levy ℝ) (x : ℝ) : Levy.sf d x ≤ 1 := by
  have := levy_cdf_add_sf_rel S d x; have := levy_cdf_nonneg_rel S.toErfcSpec d x; linarith

theorem levy_sf_anti_rel (S : ErfSpec) (d : Levy ℝ) (h : 0 < d.f_c) {x y : ℝ}
    (hxy : x ≤ y) : Levy.sf d y ≤ Levy.sf d x := by
  have := levy_cdf_add_sf_rel S d x; have := levy_cdf_add_sf_rel S d y
  have := levy_cdf_mono_rel S.toErfcSpec d h hxy; linarith

example : ∃ d : Levy ℝ, 0 < d.f_c := ⟨⟨0, 1⟩, by norm_num⟩

end Statrs.Props.C02
