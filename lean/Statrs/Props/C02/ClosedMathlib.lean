/-
  C02 (identification with Mathlib's measures) — for Exp, Pareto, Cauchy the overridden `sf`
  is exactly `1 - ProbabilityTheory.cdf μ x` for Mathlib's measure with the same parameters:
  the override describes the same distribution as the cdf, not a shifted / mirrored variant.
  full(ℝ).
-/
import Statrs.Props.C01.ClosedMathlib
import Statrs.Props.C02.Closed
namespace Statrs.Props.C02
open Statrs Statrs.Gen Statrs.Props.C01
open MeasureTheory ProbabilityTheory
open scoped NNReal

theorem exp_sf_eq_mathlib (d : Exp ℝ) (h : 0 < d.f_rate) (x : ℝ) :
    Exp.sf d x = 1 - cdf (expMeasure d.f_rate) x := by
  rw [← exp_cdf_eq_mathlib d h x]; have := exp_cdf_add_sf d x; linarith

theorem pareto_sf_eq_mathlib (d : Pareto ℝ) (hs : 0 < d.f_scale) (hk : 0 < d.f_shape) (x : ℝ) :
    Pareto.sf d x = 1 - cdf (paretoMeasure d.f_scale d.f_shape) x := by
  rw [← pareto_cdf_eq_mathlib d hs hk x]; have := pareto_cdf_add_sf d x; linarith

theorem cauchy_sf_eq_mathlib (d : Cauchy ℝ) (h : 0 < d.f_scale) (x : ℝ) :
    Cauchy.sf d x = 1 - cdf (cauchyMeasure d.f_location ⟨d.f_scale, h.le⟩) x := by
  rw [← cauchy_cdf_eq_mathlib d h x]; have := cauchy_cdf_add_sf d x; linarith

example : ∃ d : Exp ℝ, 0 < d.f_rate := ⟨⟨1⟩, by norm_num⟩
example : ∃ d : Pareto ℝ, 0 < d.f_scale ∧ 0 < d.f_shape := ⟨⟨1, 1⟩, by norm_num⟩
example : ∃ d : Cauchy ℝ, 0 < d.f_scale := ⟨⟨0, 1⟩, by norm_num⟩

end Statrs.Props.C02
