/-
  C02 — "sf(x) lies in [0,1], never increases with x, and cdf(x)+sf(x)=1; an overridden sf must
  describe the same distribution as cdf" — for Bernoulli, DiscreteUniform, Geometric.

  Carrier ℝ.  DiscreteUniform and Geometric are closed-form: full(ℝ), no premises.
  Bernoulli is NOT closed: `Bernoulli::cdf` is the closed form `1 − p`, but `Bernoulli::sf`
  delegates to `Binomial::sf` with n = 1, i.e. to `beta_reg(0+1, 1−0, p)`; its theorems are
  relative to the single premise `BetaOneOneSpec` (`I_x(1,1) = x`).

  Arguments: `k : ℤ`, with `0 ≤ k` for the `u64` families (Bernoulli, Geometric); DiscreteUniform
  takes `i64`, so every `k : ℤ` is covered.
-/
import Statrs.Lemmas.SpecialCdf
import Statrs.Gen.D_discrete_uniform
import Statrs.Gen.D_geometric
namespace Statrs.Props.C02
open Statrs Statrs.Gen Statrs.Spec.Incomplete Statrs.Lemmas.SpecialCdf

/-! ## Bernoulli (`new p` = Binomial::new(p, 1): 0 ≤ p ≤ 1, n = 1) -/
section Bernoulli
variable [SF ℝ]

/-- over ℝ with n = 1: `Bernoulli.sf d k` is 0 for k ≥ 1 and `beta_reg 1 1 p` at k = 0 -/
theorem bernoulli_sf_real' (d : Bernoulli ℝ) (hn : d.f_b.f_n = 1) (k : ℤ) (hk : 0 ≤ k) :
    Bernoulli.sf d k = if 1 ≤ k then 0 else SF.beta_reg 1 1 d.f_b.f_p := by
  rw [bernoulli_sf_real, binomial_sf_real, hn]
  split_ifs with h1
  · rfl
  · have : k = 0 := by omega
    subst this; norm_num

/-- Bernoulli: cdf + sf = 1 at every k : u64 -/
theorem bernoulli_cdf_add_sf_rel (O : BetaOneOneSpec) (d : Bernoulli ℝ) (hn : d.f_b.f_n = 1)
    (hp0 : 0 ≤ d.f_b.f_p) (hp1 : d.f_b.f_p ≤ 1) (k : ℤ) (hk : 0 ≤ k) :
    Bernoulli.cdf d k + Bernoulli.sf d k = 1 := by
  rw [bernoulli_cdf_real, bernoulli_sf_real' d hn k hk]
  split_ifs with h1
  · norm_num
  · rw [O.one_one _ hp0 hp1]; ring

/-- Bernoulli: 0 ≤ sf ≤ 1 -/
theorem bernoulli_sf_range_rel (O : BetaOneOneSpec) (d : Bernoulli ℝ) (hn : d.f_b.f_n = 1)
    (hp0 : 0 ≤ d.f_b.f_p) (hp1 : d.f_b.f_p ≤ 1) (k : ℤ) (hk : 0 ≤ k) :
    0 ≤ Bernoulli.sf d k ∧ Bernoulli.sf d k ≤ 1 := by
  rw [bernoulli_sf_real' d hn k hk]
  split_ifs with h1
  · norm_num
  · rw [O.one_one _ hp0 hp1]; exact ⟨hp0, hp1⟩

/-- Bernoulli: sf never increases in k -/
theorem bernoulli_sf_antitone_rel (O : BetaOneOneSpec) (d : Bernoulli ℝ) (hn : d.f_b.f_n = 1)
    (hp0 : 0 ≤ d.f_b.f_p) (hp1 : d.f_b.f_p ≤ 1) (j k : ℤ) (hj : 0 ≤ j) (hjk : j ≤ k) :
    Bernoulli.sf d k ≤ Bernoulli.sf d j := by
  rw [bernoulli_sf_real' d hn k (hj.trans hjk), bernoulli_sf_real' d hn j hj]
  split_ifs with hk1 hj1 hj1
  · exact le_rfl
  · rw [O.one_one _ hp0 hp1]; exact hp0
  · omega
  · exact le_rfl

/-- what `Bernoulli::new(0.3)` builds satisfies the hypotheses -/
example : ∃ d : Bernoulli ℝ, d.f_b.f_n = 1 ∧ 0 ≤ d.f_b.f_p ∧ d.f_b.f_p ≤ 1 :=
  ⟨⟨⟨0.3, 1⟩⟩, rfl, by norm_num, by norm_num⟩

end Bernoulli

/-! ## DiscreteUniform (min ≤ max, i64) -/

/-- over ℝ the clamp `if 1 < ans then 1 else ans` never fires -/
theorem discrete_uniform_cdf_real (d : DiscreteUniform) (h : d.f_min ≤ d.f_max) (k : ℤ) :
    DiscreteUniform.cdf (α := ℝ) d k = if k < d.f_min then 0 else if d.f_max ≤ k then 1
      else ((k : ℝ) - d.f_min + 1) / ((d.f_max : ℝ) - d.f_min + 1) := by
  unfold DiscreteUniform.cdf; rfun_norm
  split_ifs with h1 h2 h3
  · norm_num
  · norm_num
  · exfalso
    have hden : (0 : ℝ) < (d.f_max : ℝ) - d.f_min + 1 := by
      have : (d.f_min : ℝ) ≤ d.f_max := by exact_mod_cast h
      linarith
    have hk : (k : ℝ) + 1 ≤ d.f_max := by exact_mod_cast (by omega : k + 1 ≤ d.f_max)
    norm_num at h3
    rw [lt_div_iff₀ hden] at h3; linarith
  · norm_num

theorem discrete_uniform_sf_real (d : DiscreteUniform) (h : d.f_min ≤ d.f_max) (k : ℤ) :
    DiscreteUniform.sf (α := ℝ) d k = if k < d.f_min then 1 else if d.f_max ≤ k then 0
      else ((d.f_max : ℝ) - k) / ((d.f_max : ℝ) - d.f_min + 1) := by
  unfold DiscreteUniform.sf; rfun_norm
  split_ifs with h1 h2 h3
  · norm_num
  · norm_num
  · exfalso
    have hden : (0 : ℝ) < (d.f_max : ℝ) - d.f_min + 1 := by
      have : (d.f_min : ℝ) ≤ d.f_max := by exact_mod_cast h
      linarith
    have hk : (d.f_min : ℝ) ≤ k := by exact_mod_cast (by omega : d.f_min ≤ k)
    norm_num at h3
    rw [lt_div_iff₀ hden] at h3; linarith
  · norm_num

/-- DiscreteUniform: cdf + sf = 1 at every k : i64 -/
theorem discrete_uniform_cdf_add_sf (d : DiscreteUniform) (h : d.f_min ≤ d.f_max) (k : ℤ) :
    DiscreteUniform.cdf (α := ℝ) d k + DiscreteUniform.sf (α := ℝ) d k = 1 := by
  rw [discrete_uniform_cdf_real d h, discrete_uniform_sf_real d h]
  have hden : (0 : ℝ) < (d.f_max : ℝ) - d.f_min + 1 := by
    have : (d.f_min : ℝ) ≤ d.f_max := by exact_mod_cast h
    linarith
  split_ifs
  · norm_num
  · norm_num
  · field_simp; ring

/-- DiscreteUniform: 0 ≤ sf ≤ 1 -/
theorem discrete_uniform_sf_range (d : DiscreteUniform) (h : d.f_min ≤ d.f_max) (k : ℤ) :
    0 ≤ DiscreteUniform.sf (α := ℝ) d k ∧ DiscreteUniform.sf (α := ℝ) d k ≤ 1 := by
  rw [discrete_uniform_sf_real d h]
  have hden : (0 : ℝ) < (d.f_max : ℝ) - d.f_min + 1 := by
    have : (d.f_min : ℝ) ≤ d.f_max := by exact_mod_cast h
    linarith
  split_ifs with h1 h2
  · norm_num
  · norm_num
  · have hk1 : (d.f_min : ℝ) ≤ k := by exact_mod_cast (by omega : d.f_min ≤ k)
    have hk2 : (k : ℝ) ≤ d.f_max := by exact_mod_cast (by omega : k ≤ d.f_max)
    constructor
    · apply div_nonneg <;> linarith
    · rw [div_le_one hden]; linarith

/-- DiscreteUniform: sf never increases in k -/
theorem discrete_uniform_sf_antitone (d : DiscreteUniform) (h : d.f_min ≤ d.f_max) (j k : ℤ)
    (hjk : j ≤ k) : DiscreteUniform.sf (α := ℝ) d k ≤ DiscreteUniform.sf (α := ℝ) d j := by
  by_cases hj : j < d.f_min
  · rw [discrete_uniform_sf_real d h j, if_pos hj]; exact (discrete_uniform_sf_range d h k).2
  by_cases hk : d.f_max ≤ k
  · rw [discrete_uniform_sf_real d h k, if_neg (by omega), if_pos hk]
    exact (discrete_uniform_sf_range d h j).1
  rw [discrete_uniform_sf_real d h, discrete_uniform_sf_real d h, if_neg hj, if_neg hk,
    if_neg (by omega : ¬ k < d.f_min), if_neg (by omega : ¬ d.f_max ≤ j)]
  have hden : (0 : ℝ) < (d.f_max : ℝ) - d.f_min + 1 := by
    have : (d.f_min : ℝ) ≤ d.f_max := by exact_mod_cast h
    linarith
  have : (j : ℝ) ≤ k := by exact_mod_cast hjk
  apply div_le_div_of_nonneg_right _ hden.le; linarith

example : ∃ d : DiscreteUniform, d.f_min ≤ d.f_max := ⟨⟨-2, 5⟩, by decide⟩

/-! ## Geometric (0 < p ≤ 1; support {1, 2, …}; argument u64)

  cdf k = −expm1(ln1p(−p)·k), sf k = exp(ln1p(−p)·k), both with a `k = 0` short-cut.
  At p = 1 the Rust code computes `ln_1p(−1) = −∞`; over ℝ `Real.log 0 = 0` is a convention, so the
  statements below hold at p = 1 but say nothing about the IEEE path there; `geometric_sf_eq_pow`
  (the closed form `(1−p)^k`) is stated for p < 1. -/

theorem geometric_cdf_real (d : Geometric ℝ) (k : ℤ) :
    Geometric.cdf d k = if k = 0 then 0 else 1 - Real.exp (Real.log (1 + -d.f_p) * k) := by
  unfold Geometric.cdf; rfun_norm; split_ifs <;> norm_num

theorem geometric_sf_real (d : Geometric ℝ) (k : ℤ) :
    Geometric.sf d k = if k = 0 then 1 else Real.exp (Real.log (1 + -d.f_p) * k) := by
  unfold Geometric.sf; rfun_norm; split_ifs <;> norm_num

/-- Geometric: cdf + sf = 1 at every k -/
theorem geometric_cdf_add_sf (d : Geometric ℝ) (k : ℤ) : Geometric.cdf d k + Geometric.sf d k = 1 := by
  rw [geometric_cdf_real, geometric_sf_real]; split_ifs <;> ring

/-- Geometric: the short-cut at 0 agrees with the formula, i.e. sf k = exp(ln1p(−p)·k) for all k ≥ 0 -/
theorem geometric_sf_real' (d : Geometric ℝ) (k : ℤ) :
    Geometric.sf d k = Real.exp (Real.log (1 + -d.f_p) * k) := by
  rw [geometric_sf_real]; split_ifs with h
  · subst h; simp
  · rfl

/-- Geometric: 0 ≤ sf ≤ 1 -/
theorem geometric_sf_range (d : Geometric ℝ) (hp0 : 0 < d.f_p) (hp1 : d.f_p ≤ 1) (k : ℤ)
    (hk : 0 ≤ k) : 0 ≤ Geometric.sf d k ∧ Geometric.sf d k ≤ 1 := by
  rw [geometric_sf_real']
  have hl : Real.log (1 + -d.f_p) ≤ 0 := Real.log_nonpos (by linarith) (by linarith)
  have hk' : (0 : ℝ) ≤ k := by exact_mod_cast hk
  refine ⟨(Real.exp_pos _).le, ?_⟩
  rw [Real.exp_le_one_iff]; exact mul_nonpos_of_nonpos_of_nonneg hl hk'

/-- Geometric: sf never increases in k -/
theorem geometric_sf_antitone (d : Geometric ℝ) (hp0 : 0 < d.f_p) (hp1 : d.f_p ≤ 1) (j k : ℤ)
    (_hj : 0 ≤ j) (hjk : j ≤ k) : Geometric.sf d k ≤ Geometric.sf d j := by
  rw [geometric_sf_real', geometric_sf_real']
  have hl : Real.log (1 + -d.f_p) ≤ 0 := Real.log_nonpos (by linarith) (by linarith)
  have : (j : ℝ) ≤ k := by exact_mod_cast hjk
  exact Real.exp_le_exp.mpr (mul_le_mul_of_nonpos_left this hl)

/-- Geometric: sf k = (1−p)^k = P(X > k) for the distribution on {1,2,…} with P(X = i) = (1−p)^{i−1} p
    — no off-by-one between sf, cdf and the support.  (p < 1: see the section comment.) -/
theorem geometric_sf_eq_pow (d : Geometric ℝ) (_hp0 : 0 < d.f_p) (hp1 : d.f_p < 1) (k : ℤ) :
    Geometric.sf d k = (1 - d.f_p) ^ k := by
  rw [geometric_sf_real']
  have hq : 0 < 1 - d.f_p := by linarith
  rw [show (1 : ℝ) + -d.f_p = 1 - d.f_p by ring, ← Real.rpow_intCast, Real.rpow_def_of_pos hq]

example : ∃ d : Geometric ℝ, 0 < d.f_p ∧ d.f_p ≤ 1 := ⟨⟨0.25⟩, by norm_num, by norm_num⟩

end Statrs.Props.C02
