/-
  C02 (float level, quantitative) — "cdf(x) + sf(x) = 1 to within 1e-8" for `Categorical` over every carrier
  satisfying `FloatLaws`, `ExtraLaws`, `StdModel`, hence over IEEE `Float`:

      |toReal (cdf x) + toReal (sf x) − 1| ≤ 3u + 2η          for every index 0 ≤ x

  (`cdf x = cdf[x] / max`, `sf x = fl(max − cdf[x]) / max` with the SAME table entry and total, so only the
  subtraction and the two divisions contribute — the accumulated rounding of the running sums cancels).
  Hypotheses: `CatTableOK` (proved from `Categorical::new pm = Ok c` plus `Fin cdf_max`, see C01/FloatRangeCategorical)
  and the sf table being `cdf_to_sf` of the cdf table (what `new` builds).
-/
import Statrs.Props.C02.FloatSfCategorical
import Statrs.Props.C02.FloatComplementDiscreteUniform
set_option linter.unusedSectionVars false
namespace Statrs.Props.C02
open Statrs Statrs.Gen Statrs.Spec Statrs.Spec.FloatStd Statrs.Model Statrs.Props.C01

section
variable {α : Type} [Add α] [Sub α] [Mul α] [Div α] [Neg α] [LT α] [LE α] [BEq α]
  [DecidableLT α] [DecidableLE α] [OfScientific α] [Inhabited α] [RFun α]
variable (L : FloatLaws α) (E : ExtraLaws α) (M : StdModel α) (c : Categorical α) (ok : CatTableOK c)
  (hsf : c.f_sf = D.categorical.cdf_to_sf c.f_cdf)
include L E ok hsf

/-- full(∀α, FloatLaws+ExtraLaws+StdModel): C02 — `cdf x + sf x = 1` within `3u + 2η` for `Categorical`, every index `0 ≤ x` -/
theorem categorical_cdf_add_sf_std {x : Int} (h0 : 0 ≤ x) :
    |M.toReal (Categorical.cdf c x) + M.toReal (Categorical.sf c x) - 1| ≤ 3 * u + 2 * η := by
  have hu := u_pos
  have hu1 := u_lt
  have hη := η_pos
  by_cases h1 : listLen c.f_cdf ≤ x
  · obtain ⟨e1, e2⟩ := categorical_cdf_sf_above c hsf h1
    rw [e1, e2, M.toReal_zero, M.toReal_one]
    have : (0 : ℝ) ≤ 3 * u + 2 * η := by positivity
    simpa using this
  have hx : x < listLen c.f_cdf := by omega
  have hi : x.toNat < c.f_cdf.length := by unfold listLen at hx; omega
  have hc := categorical_cdf_mem_unit L c ok h0
  have hs := categorical_sf_mem_unit L c ok hsf h0
  rw [cat_cdf_eq c h0 hx] at hc ⊢
  rw [cat_sf_eq c hsf h0 hx] at hs ⊢
  obtain ⟨a0, a1⟩ := cat_table_bounds L c ok hi
  obtain ⟨b0, b1⟩ := cat_sf_num_bounds L c ok hi
  have fa := E.fin_of_between L L.zero_fin ok.max_fin a0 a1
  have fb := E.fin_of_between L L.zero_fin ok.max_fin b0 b1
  have fc := E.fin_of_between L L.zero_fin L.one_fin hc.1 hc.2
  have fs := E.fin_of_between L L.zero_fin L.one_fin hs.1 hs.2
  have hm0 : 0 < M.toReal (Categorical.cdf_max c) := by
    have := (M.lt_iff _ _ M.zero_fin ok.max_fin).1 ok.max_pos
    rwa [M.toReal_zero] at this
  have ha0 : 0 ≤ M.toReal (c.f_cdf[x.toNat]) := by
    have := (M.le_iff _ _ M.zero_fin fa).1 a0
    rwa [M.toReal_zero] at this
  have ham : M.toReal (c.f_cdf[x.toNat]) ≤ M.toReal (Categorical.cdf_max c) := (M.le_iff _ _ fa ok.max_fin).1 a1
  obtain ⟨δb, hδb, eb⟩ := M.sub_std _ _ ok.max_fin fa fb
  obtain ⟨δ1, ε1, hδ1, hε1, _, q1⟩ := M.div_std _ _ fa ok.max_fin hm0.ne' fc
  obtain ⟨δ2, ε2, hδ2, hε2, _, q2⟩ := M.div_std _ _ fb ok.max_fin hm0.ne' fs
  rw [q1, q2, eb]
  have key := complement_quot_gen (A := M.toReal (c.f_cdf[x.toNat]))
    (B := M.toReal (Categorical.cdf_max c) - M.toReal (c.f_cdf[x.toNat])) (W := M.toReal (Categorical.cdf_max c))
    (θ1 := 0) (θ2 := δb) (θw := 0) (t1 := u) (td := 0) (δ1 := δ1) (δ2 := δ2) (ε1 := ε1) (ε2 := ε2)
    ha0 (by linarith) (by ring) hm0 (by simpa using hu.le) hδb (by simp) (by norm_num) hδ1 hδ2 hε1 hε2
  simp only [add_zero, mul_one, sub_zero, div_one] at key
  refine key.trans ?_
  nlinarith

/-- full(∀α, FloatLaws+ExtraLaws+StdModel): C02 — the documented tolerance `1e-8` for `Categorical` -/
theorem categorical_cdf_add_sf_tol {x : Int} (h0 : 0 ≤ x) :
    |M.toReal (Categorical.cdf c x) + M.toReal (Categorical.sf c x) - 1| ≤ 1e-8 := by
  refine (categorical_cdf_add_sf_std L E M c ok hsf h0).trans ?_
  have h1 := u_lt
  have h2 := η_le_u
  rw [u_eq] at *
  norm_num at *
  linarith

end

/-! ### IEEE `Float` -/
open Statrs.Lemmas.FloatModel (toReal stdModel_float)
open Statrs.Props.Common (floatLaws_float extraLaws_float)

/-- full(Float): C02 — for a `Categorical` built by `new` with a finite total mass, over IEEE binary64:
    `|cdf x + sf x − 1| ≤ 3u + 2η ≤ 1e-8` for every index `0 ≤ x` -/
theorem categorical_cdf_add_sf_float (pm : List Float) (c : Categorical Float)
    (h : Model.Categorical.new pm = .ok c) (hfin : Spec.Fin (Categorical.cdf_max c)) {x : Int} (h0 : 0 ≤ x) :
    |toReal (Categorical.cdf c x) + toReal (Categorical.sf c x) - 1| ≤ 3 * u + 2 * η ∧
    |toReal (Categorical.cdf c x) + toReal (Categorical.sf c x) - 1| ≤ 1e-8 := by
  have ok := categorical_new_tableOK floatLaws_float extraLaws_float pm c h hfin
  have hsf := (categorical_new_spec floatLaws_float extraLaws_float pm c h).2.2.2.1
  exact ⟨categorical_cdf_add_sf_std floatLaws_float extraLaws_float stdModel_float c ok hsf h0,
    categorical_cdf_add_sf_tol floatLaws_float extraLaws_float stdModel_float c ok hsf h0⟩

end Statrs.Props.C02
