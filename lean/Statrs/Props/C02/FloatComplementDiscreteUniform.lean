/-
  C02 (float level, quantitative) — "cdf(x) + sf(x) = 1 to within 1e-8" for `DiscreteUniform` over every
  carrier satisfying `FloatLaws` and `StdModel`, hence over IEEE `Float`:

      |toReal (cdf x) + toReal (sf x) − 1| ≤ 6u + 2η          for every integer x

  (`cdf x = ((x̂ − l̂) + 1)/((û − l̂) + 1)`, `sf x = (û − x̂)/((û − l̂) + 1)` with `x̂ = x as f64` etc.; the integer
  conversions may round (|i| > 2^53) — the identity `(x̂ − l̂ + 1) + (û − x̂) = û − l̂ + 1` holds for the converted
  values, so only the roundings of `− + ÷` contribute).  Hypotheses: `DiscreteUniformOK` (C01/FloatRangeDiscreteUniform).
-/
import Statrs.Props.C02.FloatSfDiscreteUniform
import Statrs.Props.Common.FloatLawsFloat_Extra
import Statrs.Lemmas.FloatStdModelLemmas
import Statrs.Lemmas.FloatStdModelInst
set_option linter.unusedSectionVars false
namespace Statrs.Props.C02
open Statrs Statrs.Gen Statrs.Spec Statrs.Spec.FloatStd Statrs.Props.C01

/-- full(ℝ): two rounded quotients with relatively perturbed numerators `A(1+θ₁)`, `B(1+θ₂)` and denominator
    `W(1+θw)`, `A + B = W`, add up to `1` within `(tₙ + t_d)/(1 − t_d) + 2η`, `tₙ = t₁ + u + t₁u` -/
theorem complement_quot_gen {A B W θ1 θ2 θw δ1 δ2 ε1 ε2 t1 td : ℝ} (hA : 0 ≤ A) (hB : 0 ≤ B) (hW : A + B = W)
    (hW0 : 0 < W) (h1 : |θ1| ≤ t1) (h2 : |θ2| ≤ t1) (hw : |θw| ≤ td) (htd : td < 1)
    (hδ1 : |δ1| ≤ u) (hδ2 : |δ2| ≤ u) (hε1 : |ε1| ≤ η) (hε2 : |ε2| ≤ η) :
    |(A * (1 + θ1) / (W * (1 + θw)) * (1 + δ1) + ε1) + (B * (1 + θ2) / (W * (1 + θw)) * (1 + δ2) + ε2) - 1|
      ≤ ((t1 + u + t1 * u) + td) / (1 - td) + 2 * η := by
  have hu := u_pos
  have ht1 : 0 ≤ t1 := (abs_nonneg _).trans h1
  have hD1 : 1 - td ≤ 1 + θw := by have := (abs_le.1 hw).1; linarith
  have hD : 0 < W * (1 + θw) := mul_pos hW0 (by linarith)
  have hX : ∀ {p q : ℝ}, |p| ≤ t1 → |q| ≤ u → |(1 + p) * (1 + q) - (1 + θw)| ≤ (t1 + u + t1 * u) + td := by
    intro p q hp hq
    have e : (1 + p) * (1 + q) - (1 + θw) = p + q + p * q - θw := by ring
    rw [e]
    have h1 : |p * q| ≤ t1 * u := abs_mul_le_mul hp hq
    calc |p + q + p * q - θw| ≤ |p + q + p * q| + |θw| := abs_sub _ _
      _ ≤ |p + q| + |p * q| + |θw| := by linarith [abs_add_le (p + q) (p * q)]
      _ ≤ |p| + |q| + |p * q| + |θw| := by linarith [abs_add_le p q]
      _ ≤ _ := by linarith
  generalize hT : (t1 + u + t1 * u) + td = T at hX
  have hT0 : 0 ≤ T := by rw [← hT]; have := (abs_nonneg _).trans hw; positivity
  set X := (1 + θ1) * (1 + δ1) - (1 + θw) with hXd
  set Y := (1 + θ2) * (1 + δ2) - (1 + θw) with hYd
  have hXb : |X| ≤ T := hX h1 hδ1
  have hYb : |Y| ≤ T := hX h2 hδ2
  have hN : |A * X + B * Y| ≤ W * T := by
    calc |A * X + B * Y| ≤ |A * X| + |B * Y| := abs_add_le _ _
      _ = A * |X| + B * |Y| := by rw [abs_mul, abs_mul, abs_of_nonneg hA, abs_of_nonneg hB]
      _ ≤ A * T + B * T := add_le_add (mul_le_mul_of_nonneg_left hXb hA) (mul_le_mul_of_nonneg_left hYb hB)
      _ = W * T := by rw [← hW]; ring
  have hq : |(A * X + B * Y) / (W * (1 + θw))| ≤ T / (1 - td) := by
    rw [abs_div, abs_of_pos hD, div_le_div_iff₀ hD (by linarith)]
    calc |A * X + B * Y| * (1 - td) ≤ W * T * (1 - td) := mul_le_mul_of_nonneg_right hN (by linarith)
      _ = T * (W * (1 - td)) := by ring
      _ ≤ T * (W * (1 + θw)) := mul_le_mul_of_nonneg_left (mul_le_mul_of_nonneg_left hD1 hW0.le) hT0
  have hid : (A * (1 + θ1) / (W * (1 + θw)) * (1 + δ1) + ε1) + (B * (1 + θ2) / (W * (1 + θw)) * (1 + δ2) + ε2) - 1
      = (A * X + B * Y) / (W * (1 + θw)) + ε1 + ε2 := by
    have h1 : (1 + θw) ≠ 0 := by linarith
    have h2 : W ≠ 0 := hW0.ne'
    rw [hXd, hYd]; field_simp; rw [← hW]; ring
  rw [hid]
  calc _ ≤ |(A * X + B * Y) / (W * (1 + θw)) + ε1| + |ε2| := abs_add_le _ _
    _ ≤ |(A * X + B * Y) / (W * (1 + θw))| + |ε1| + |ε2| := by linarith [abs_add_le ((A * X + B * Y) / (W * (1 + θw))) ε1]
    _ ≤ _ := by linarith

/-- full(ℝ): `fl(fl(a) + 1)` for `a ≥ 0` is `(a + 1)(1 + θ)` with `|θ| ≤ 2u + u²` -/
theorem add_one_rel {a δ δ' : ℝ} (ha : 0 ≤ a) (hδ : |δ| ≤ u) (hδ' : |δ'| ≤ u) :
    ∃ θ : ℝ, |θ| ≤ 2 * u + u ^ 2 ∧ (a * (1 + δ) + 1) * (1 + δ') = (a + 1) * (1 + θ) := by
  have hu := u_pos
  apply Statrs.Lemmas.FloatModel.exists_delta (by positivity)
  have e : (a * (1 + δ) + 1) * (1 + δ') - (a + 1) = a * δ + (a * (1 + δ) + 1) * δ' := by ring
  rw [e, abs_of_nonneg (by linarith : 0 ≤ a + 1)]
  have h1 : |a * δ| ≤ a * u := by rw [abs_mul, abs_of_nonneg ha]; exact mul_le_mul_of_nonneg_left hδ ha
  have h2 : |(a * (1 + δ) + 1) * δ'| ≤ (a * (1 + u) + 1) * u := by
    refine abs_mul_le_mul ?_ hδ'
    calc |a * (1 + δ) + 1| ≤ |a * (1 + δ)| + |(1 : ℝ)| := abs_add_le _ _
      _ ≤ a * (1 + u) + 1 := by
          rw [abs_one, abs_mul, abs_of_nonneg ha]
          exact add_le_add (mul_le_mul_of_nonneg_left (abs_one_add_le hδ) ha) le_rfl
  calc _ ≤ |a * δ| + |(a * (1 + δ) + 1) * δ'| := abs_add_le _ _
    _ ≤ a * u + (a * (1 + u) + 1) * u := add_le_add h1 h2
    _ ≤ (2 * u + u ^ 2) * (a + 1) := by nlinarith

/-- full(ℝ): the constant: `((t + u + t u) + t)/(1 − t) ≤ 6u` for `t = 2u + u²` -/
theorem du_const_le : (((2 * u + u ^ 2) + u + (2 * u + u ^ 2) * u) + (2 * u + u ^ 2)) / (1 - (2 * u + u ^ 2)) ≤ 6 * u := by
  have hu := u_pos
  have hu1 := u_lt
  rw [div_le_iff₀ (by nlinarith)]
  nlinarith [mul_pos hu hu, mul_pos (mul_pos hu hu) hu]

section
variable {α : Type} [Add α] [Sub α] [Mul α] [Div α] [Neg α] [LT α] [LE α] [BEq α]
  [DecidableLT α] [DecidableLE α] [OfScientific α] [Inhabited α] [RFun α]
variable (L : FloatLaws α) (E : ExtraLaws α) (M : StdModel α) (d : DiscreteUniform) (ok : DiscreteUniformOK α d)
include L E ok

/-- full(∀α, FloatLaws+ExtraLaws+StdModel): C02 — `cdf x + sf x = 1` within `6u + 2η` for `DiscreteUniform`, every integer `x` -/
theorem du_cdf_add_sf_std (x : Int) :
    |M.toReal (DiscreteUniform.cdf (α := α) d x) + M.toReal (DiscreteUniform.sf (α := α) d x) - 1|
      ≤ 6 * u + 2 * η := by
  have hu := u_pos
  have hu1 := u_lt
  have hpos : 0 ≤ 6 * u + 2 * η := by have := η_pos; positivity
  by_cases hout : x < d.f_min ∨ d.f_max ≤ x
  · rcases du_cdf_sf_outside d ok hout with ⟨h1, h2⟩ | ⟨h1, h2⟩ <;>
      (rw [h1, h2, M.toReal_zero, M.toReal_one]; simpa using hpos)
  have h1 : d.f_min ≤ x := by omega
  have h2 : x < d.f_max := by omega
  rw [du_cdf_interior L d ok h1 h2, du_sf_interior L d ok h1 h2]
  -- finiteness of every intermediate
  have fx := du_ofInt_fin L d ok h1 (le_of_lt h2)
  have fl := du_ofInt_fin L d ok (le_refl _) ok.le
  have fu := du_ofInt_fin L d ok ok.le (le_refl _)
  obtain ⟨n0, n1⟩ := du_num_bounds L d ok h1 (le_of_lt h2)
  have fn1 : Spec.Fin (((RFun.ofInt x : α) - (RFun.ofInt d.f_min : α)) + (1.0 : α)) :=
    E.fin_of_between L L.one_fin ok.den_fin n0 n1
  have fa : Spec.Fin ((RFun.ofInt x : α) - (RFun.ofInt d.f_min : α)) := (M.fin_of_add _ _ fn1).1
  obtain ⟨s0, s1⟩ := du_sf_num_bounds L d ok h1 (le_of_lt h2)
  have fb : Spec.Fin ((RFun.ofInt d.f_max : α) - (RFun.ofInt x : α)) :=
    E.fin_of_between L L.zero_fin ok.den_fin s0 s1
  have fden : Spec.Fin (((RFun.ofInt d.f_max : α) - (RFun.ofInt d.f_min : α)) + (1.0 : α)) := ok.den_fin
  have fw : Spec.Fin ((RFun.ofInt d.f_max : α) - (RFun.ofInt d.f_min : α)) := (M.fin_of_add _ _ fden).1
  obtain ⟨c0, c1⟩ := du_ans_mem_unit L d ok h1 (le_of_lt h2)
  obtain ⟨t0, t1⟩ := du_sf_ans_mem_unit L d ok h1 (le_of_lt h2)
  have fc := E.fin_of_between L L.zero_fin L.one_fin c0 c1
  have fs := E.fin_of_between L L.zero_fin L.one_fin t0 t1
  unfold duAns at fc ⊢
  unfold duSfAns at fs ⊢
  unfold duDen at fc fs ⊢
  -- real order of the converted integers
  have hlx : M.toReal (RFun.ofInt d.f_min : α) ≤ M.toReal (RFun.ofInt x : α) :=
    (M.le_iff _ _ fl fx).1 (du_ofInt_mono L d ok (le_refl _) h1 (le_of_lt h2))
  have hxu : M.toReal (RFun.ofInt x : α) ≤ M.toReal (RFun.ofInt d.f_max : α) :=
    (M.le_iff _ _ fx fu).1 (du_ofInt_mono L d ok h1 (le_of_lt h2) (le_refl _))
  -- rounding equations
  obtain ⟨δa, hδa, ea⟩ := M.sub_std _ _ fx fl fa
  obtain ⟨δa', hδa', ea'⟩ := M.add_std _ _ fa M.one_fin fn1
  obtain ⟨δb, hδb, eb⟩ := M.sub_std _ _ fu fx fb
  obtain ⟨δw, hδw, ew⟩ := M.sub_std _ _ fu fl fw
  obtain ⟨δw', hδw', ew'⟩ := M.add_std _ _ fw M.one_fin fden
  rw [M.toReal_one, ea] at ea'
  rw [M.toReal_one, ew] at ew'
  obtain ⟨θ1, hθ1, e1⟩ := add_one_rel (a := M.toReal (RFun.ofInt x : α) - M.toReal (RFun.ofInt d.f_min : α))
    (by linarith) hδa hδa'
  obtain ⟨θw, hθw, e2⟩ := add_one_rel (a := M.toReal (RFun.ofInt d.f_max : α) - M.toReal (RFun.ofInt d.f_min : α))
    (by linarith) hδw hδw'
  rw [e1] at ea'
  rw [e2] at ew'
  have htd : 2 * u + u ^ 2 < 1 := by nlinarith
  have hden0 : M.toReal (((RFun.ofInt d.f_max : α) - (RFun.ofInt d.f_min : α)) + (1.0 : α)) ≠ 0 := by
    rw [ew']
    have := (abs_le.1 hθw).1
    exact (mul_pos (by linarith) (by linarith)).ne'
  obtain ⟨δ1, ε1, hδ1, hε1, _, q1⟩ := M.div_std _ _ fn1 fden hden0 fc
  obtain ⟨δ2, ε2, hδ2, hε2, _, q2⟩ := M.div_std _ _ fb fden hden0 fs
  rw [q1, q2, ea', ew', eb]
  have hδb' : |δb| ≤ 2 * u + u ^ 2 := hδb.trans (by nlinarith)
  refine (complement_quot_gen (by linarith) (by linarith) (by ring) (by linarith) hθ1 hδb' hθw htd
    hδ1 hδ2 hε1 hε2).trans ?_
  have := du_const_le
  linarith

/-- full(∀α, FloatLaws+ExtraLaws+StdModel): C02 — the documented tolerance `1e-8` for `DiscreteUniform` -/
theorem du_cdf_add_sf_tol (x : Int) :
    |M.toReal (DiscreteUniform.cdf (α := α) d x) + M.toReal (DiscreteUniform.sf (α := α) d x) - 1| ≤ 1e-8 := by
  refine (du_cdf_add_sf_std L E M d ok x).trans ?_
  have h1 := u_lt
  have h2 := η_le_u
  rw [u_eq] at *
  norm_num at *
  linarith

end

section
variable {α : Type} [Add α] [Sub α] [Mul α] [Div α] [Neg α] [LT α] [LE α] [BEq α]
  [DecidableLT α] [DecidableLE α] [OfScientific α] [Inhabited α] [RFun α]

/-- full(∀α, StdModel): the side condition `Fin ((upper − lower) + 1.0)` of `DiscreteUniformOK` always holds for `i64`
    end points under the standard model (the value is at most about `2^64`): `DiscreteUniformOK` reduces to what
    `DiscreteUniform::new` guarantees -/
theorem duOK_of_range (M : StdModel α) (d : DiscreteUniform) (hle : d.f_min ≤ d.f_max)
    (hmin : i64Min ≤ d.f_min) (hmax : d.f_max ≤ i64Max) : DiscreteUniformOK α d := by
  refine ⟨hle, hmin, hmax, ?_⟩
  simp only [i64Min, i64Max] at hmin hmax
  have hu1 := u_lt
  have hu := u_pos
  have key : ∀ i : Int, -(2 ^ 63 : Int) ≤ i → i ≤ 2 ^ 63 →
      Spec.Fin (RFun.ofInt i : α) ∧ |M.toReal (RFun.ofInt i : α)| ≤ 2 ^ 64 := by
    intro i h1 h2
    have habs : |i| ≤ 2 ^ 64 := by rw [abs_le]; constructor <;> omega
    obtain ⟨hf, δ, hδ, e⟩ := M.ofInt_std i habs
    refine ⟨hf, ?_⟩
    rw [e]
    have hi : |(i : ℝ)| ≤ 2 ^ 63 := by
      have : |i| ≤ 2 ^ 63 := by rw [abs_le]; constructor <;> omega
      have : ((|i| : ℤ) : ℝ) ≤ ((2 ^ 63 : ℤ) : ℝ) := by exact_mod_cast this
      push_cast at this; norm_num at this ⊢; exact this
    have := abs_mul_le_mul hi (abs_one_add_le hδ)
    nlinarith
  obtain ⟨fu, hu'⟩ := key d.f_max (by omega) (by omega)
  obtain ⟨fl, hl'⟩ := key d.f_min (by omega) (by omega)
  have hbig : (2 : ℝ) ^ 66 ≤ big := by
    unfold big
    rw [show (2 : ℝ) ^ 66 = (2 : ℝ) ^ (66 : ℤ) by norm_cast]
    exact zpow_le_zpow_right₀ (by norm_num) (by norm_num)
  have hd : |M.toReal (RFun.ofInt d.f_max : α) - M.toReal (RFun.ofInt d.f_min : α)| ≤ 2 ^ 65 := by
    calc _ ≤ |M.toReal (RFun.ofInt d.f_max : α)| + |M.toReal (RFun.ofInt d.f_min : α)| := abs_sub _ _
      _ ≤ 2 ^ 65 := by norm_num at hu' hl' ⊢; linarith
  have fw : Spec.Fin ((RFun.ofInt d.f_max : α) - (RFun.ofInt d.f_min : α)) :=
    M.sub_fin _ _ fu fl (hd.trans (le_trans (by norm_num) hbig))
  obtain ⟨δ, hδ, e⟩ := M.sub_std _ _ fu fl fw
  unfold duDen
  apply M.add_fin _ _ fw M.one_fin
  rw [e, M.toReal_one]
  have h1 := abs_mul_le_mul hd (abs_one_add_le hδ)
  calc _ ≤ |(M.toReal (RFun.ofInt d.f_max : α) - M.toReal (RFun.ofInt d.f_min : α)) * (1 + δ)| + |(1 : ℝ)| :=
        abs_add_le _ _
    _ ≤ 2 ^ 66 := by rw [abs_one]; norm_num at h1 ⊢; nlinarith
    _ ≤ big := hbig

end

/-! ### IEEE `Float` -/
open Statrs.Lemmas.FloatModel (toReal stdModel_float)
open Statrs.Props.Common (floatLaws_float extraLaws_float)

/-- full(Float): C02 — `|cdf x + sf x − 1| ≤ 6u + 2η` for `DiscreteUniform` over IEEE binary64 -/
theorem du_cdf_add_sf_float (d : DiscreteUniform) (ok : DiscreteUniformOK Float d) (x : Int) :
    |toReal (DiscreteUniform.cdf (α := Float) d x) + toReal (DiscreteUniform.sf (α := Float) d x) - 1|
      ≤ 6 * u + 2 * η :=
  du_cdf_add_sf_std floatLaws_float extraLaws_float stdModel_float d ok x

/-- full(Float): C02 — the documented tolerance `1e-8` for `DiscreteUniform` over IEEE binary64 -/
theorem du_cdf_add_sf_tol_float (d : DiscreteUniform) (ok : DiscreteUniformOK Float d) (x : Int) :
    |toReal (DiscreteUniform.cdf (α := Float) d x) + toReal (DiscreteUniform.sf (α := Float) d x) - 1| ≤ 1e-8 :=
  du_cdf_add_sf_tol floatLaws_float extraLaws_float stdModel_float d ok x

/-- full(Float): C02 — over IEEE binary64 the tolerance holds for every `DiscreteUniform` that `new` accepts
    (`min ≤ max`, `i64` end points), every integer argument: no further side condition -/
theorem du_cdf_add_sf_tol_float_new (d : DiscreteUniform) (hle : d.f_min ≤ d.f_max)
    (hmin : i64Min ≤ d.f_min) (hmax : d.f_max ≤ i64Max) (x : Int) :
    |toReal (DiscreteUniform.cdf (α := Float) d x) + toReal (DiscreteUniform.sf (α := Float) d x) - 1| ≤ 1e-8 :=
  du_cdf_add_sf_tol_float d (duOK_of_range stdModel_float d hle hmin hmax) x

end Statrs.Props.C02
