/-
  C02 (float level, quantitative) — "cdf(x) + sf(x) = 1 to within 1e-8" for `Empirical`
  (hand model `Statrs.Model.Empirical`: `cdf x = count(≤ x) as f64 / sum as f64`, `sf x = count(> x) as f64 / sum as f64`)
  over every carrier satisfying `FloatLaws`, `ExtraLaws`, `StdModel`, hence over IEEE `Float`:

      |toReal (cdf x) + toReal (sf x) − 1| ≤ 4u + 2η

  for every non-NaN `x`, every non-empty `Empirical` with at most `2^64` observations.
  (`ofInt_ratio_complement_std`: the same for any pair `ofInt k / ofInt n`, `ofInt (n−k) / ofInt n`.)
-/
import Statrs.Props.C02.FloatSfEmpirical
import Statrs.Props.C02.FloatComplementUniform
set_option linter.unusedSectionVars false
namespace Statrs.Props.C02
open Statrs Statrs.Spec Statrs.Spec.FloatStd Statrs.Model Statrs.Lemmas.FloatEmp Statrs.Props.C01

section
variable {α : Type} [Add α] [Sub α] [Mul α] [Div α] [Neg α] [LT α] [LE α] [BEq α]
  [DecidableLT α] [DecidableLE α] [OfScientific α] [Inhabited α] [RFun α]
variable (L : FloatLaws α) (E : ExtraLaws α) (M : StdModel α)
include L E

/-- full(∀α, FloatLaws+ExtraLaws+StdModel): `k as f64 / n as f64 + (n−k) as f64 / n as f64 = 1` within `4u + 2η`
    for integers `0 ≤ k ≤ n`, `1 ≤ n ≤ 2^64` -/
theorem ofInt_ratio_complement_std {k n : Int} (h0 : 0 ≤ k) (hkn : k ≤ n) (h1 : 1 ≤ n) (hn : n ≤ 2 ^ 64) :
    |M.toReal ((RFun.ofInt k : α) / RFun.ofInt n) + M.toReal ((RFun.ofInt (n - k) : α) / RFun.ofInt n) - 1|
      ≤ 4 * u + 2 * η := by
  have habs : ∀ {i : Int}, 0 ≤ i → i ≤ n → |i| ≤ 2 ^ 64 := fun h0 h1 => by
    rw [abs_of_nonneg h0]; omega
  obtain ⟨fk, δk, hδk, ek⟩ := M.ofInt_std k (habs h0 hkn)
  obtain ⟨fj, δj, hδj, ej⟩ := M.ofInt_std (n - k) (habs (by omega) (by omega))
  obtain ⟨fn, δn, hδn, en⟩ := M.ofInt_std n (habs (by omega) le_rfl)
  have hn0 : (0 : ℝ) < (n : ℝ) := by exact_mod_cast (by omega : (0 : Int) < n)
  have hrn : M.toReal (RFun.ofInt n : α) ≠ 0 := by
    rw [en]
    have := one_sub_le hδn
    have hu := u_lt
    exact (mul_pos hn0 (by linarith)).ne'
  obtain ⟨c0, c1⟩ := ofInt_ratio_mem_unit L (α := α) h0 hkn h1 hn
  obtain ⟨s0, s1⟩ := ofInt_ratio_mem_unit L (α := α) (i := n - k) (by omega) (by omega) h1 hn
  have hcf := E.fin_of_between L L.zero_fin L.one_fin c0 c1
  have hsf := E.fin_of_between L L.zero_fin L.one_fin s0 s1
  obtain ⟨δ1, ε1, hδ1, hε1, _, e1⟩ := M.div_std _ _ fk fn hrn hcf
  obtain ⟨δ2, ε2, hδ2, hε2, _, e2⟩ := M.div_std _ _ fj fn hrn hsf
  rw [e1, e2, ek, ej, en]
  exact complement_quot_real (by exact_mod_cast h0) (by exact_mod_cast (by omega : (0 : Int) ≤ n - k))
    (by push_cast; ring) hn0 hδk hδj hδn hδ1 hδ2 hε1 hε2

variable (e : Empirical α) (ok : EmpOK e) (hne : e.f_data ≠ []) (hmax : e.f_sum ≤ 2 ^ 64)
include ok hne hmax

/-- full(∀α, FloatLaws+ExtraLaws+StdModel): C02 — `cdf x + sf x = 1` within `4u + 2η` for `Empirical`, non-NaN `x` -/
theorem empirical_cdf_add_sf_std {x : α} (hx : NN x) :
    |M.toReal (Empirical.cdf e x) + M.toReal (Empirical.sf e x) - 1| ≤ 4 * u + 2 * η := by
  obtain ⟨k, h0, hk, ec, es⟩ := empirical_cdf_sf_counts e ok hx
  rw [ec, es]
  exact ofInt_ratio_complement_std L E M h0 hk (emp_sum_pos e ok hne) hmax

/-- full(∀α, FloatLaws+ExtraLaws+StdModel): C02 — the documented tolerance `1e-8` for `Empirical` -/
theorem empirical_cdf_add_sf_tol {x : α} (hx : NN x) :
    |M.toReal (Empirical.cdf e x) + M.toReal (Empirical.sf e x) - 1| ≤ 1e-8 := by
  refine (empirical_cdf_add_sf_std L E M e ok hne hmax hx).trans ?_
  have h1 := u_lt
  have h2 := η_le_u
  rw [u_eq] at *
  norm_num at *
  linarith

end

/-! ### IEEE `Float` -/
open Statrs.Lemmas.FloatModel (toReal stdModel_float)
open Statrs.Props.Common (floatLaws_float extraLaws_float)

/-- full(Float): C02 — `|cdf x + sf x − 1| ≤ 4u + 2η` for `Empirical` over IEEE binary64 -/
theorem empirical_cdf_add_sf_float (e : Empirical Float) (ok : EmpOK e) (hne : e.f_data ≠ [])
    (hmax : e.f_sum ≤ 2 ^ 64) {x : Float} (hx : NN x) :
    |toReal (Empirical.cdf e x) + toReal (Empirical.sf e x) - 1| ≤ 4 * u + 2 * η :=
  empirical_cdf_add_sf_std floatLaws_float extraLaws_float stdModel_float e ok hne hmax hx

/-- full(Float): C02 — the documented tolerance `1e-8` for `Empirical` over IEEE binary64 -/
theorem empirical_cdf_add_sf_tol_float (e : Empirical Float) (ok : EmpOK e) (hne : e.f_data ≠ [])
    (hmax : e.f_sum ≤ 2 ^ 64) {x : Float} (hx : NN x) :
    |toReal (Empirical.cdf e x) + toReal (Empirical.sf e x) - 1| ≤ 1e-8 :=
  empirical_cdf_add_sf_tol floatLaws_float extraLaws_float stdModel_float e ok hne hmax hx

end Statrs.Props.C02
