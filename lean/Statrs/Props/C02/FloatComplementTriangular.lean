/-
  C02 (float level, quantitative) — "cdf(x) + sf(x) = 1 to within 1e-8" for `Triangular` over every carrier
  satisfying the IEEE order laws (`FloatLaws`, `ExtraLaws`) and the standard model of rounding (`StdModel`),
  hence over IEEE `Float`:

      |toReal (cdf x) + toReal (sf x) − 1| ≤ u            (u = 2^-53)

  for EVERY argument (a NaN argument takes the literal guards `cdf = 1`, `sf = 0`).  On each polynomial branch
  one of the two functions is `q` and the other is `fl(1 − q)` with the bit-identical `q ∈ [0,1]`, so the only
  error is the rounding of the final subtraction.  Hypotheses: `TriangularOK` (what `Triangular::new` guarantees
  plus the no-overflow / no-underflow side conditions on the width and the two denominators; without them the
  functions return NaN, see `C01.triangular_cdf_underflow_counterexample` / `…overflow_counterexample`).
-/
import Statrs.Props.C02.FloatSfTriangular
import Statrs.Props.Common.FloatLawsFloat_Extra
import Statrs.Lemmas.FloatStdModelLemmas
import Statrs.Lemmas.FloatStdModelInst
set_option linter.unusedSectionVars false
namespace Statrs.Props.C02
open Statrs Statrs.Gen Statrs.Spec Statrs.Spec.FloatStd Statrs.Props.C01

section
variable {α : Type} [Add α] [Sub α] [Mul α] [Div α] [Neg α] [LT α] [LE α] [BEq α]
  [DecidableLT α] [DecidableLE α] [OfScientific α] [Inhabited α] [RFun α]
variable (L : FloatLaws α) (E : ExtraLaws α) (M : StdModel α)
include L E

/-- full(∀α, FloatLaws+ExtraLaws+StdModel): for `q ∈ [0,1]` the pair `q`, `fl(1 − q)` adds up to `1` within `u` -/
theorem one_sub_complement_std {q : α} (h0 : (0.0 : α) ≤ q) (h1 : q ≤ (1.0 : α)) :
    |M.toReal q + M.toReal ((1.0 : α) - q) - 1| ≤ u := by
  have hq : Spec.Fin q := E.fin_of_between L L.zero_fin L.one_fin h0 h1
  obtain ⟨s0, s1⟩ := L.one_sub_mem_unit h0 h1
  have hs : Spec.Fin ((1.0 : α) - q) := E.fin_of_between L L.zero_fin L.one_fin s0 s1
  obtain ⟨δ, hδ, e⟩ := M.sub_std _ _ M.one_fin hq hs
  have r0 : 0 ≤ M.toReal q := by
    have := (M.le_iff _ _ M.zero_fin hq).1 h0; rwa [M.toReal_zero] at this
  have r1 : M.toReal q ≤ 1 := by
    have := (M.le_iff _ _ hq M.one_fin).1 h1; rwa [M.toReal_one] at this
  rw [e, M.toReal_one, show M.toReal q + (1 - M.toReal q) * (1 + δ) - 1 = (1 - M.toReal q) * δ by ring]
  have : |(1 - M.toReal q) * δ| ≤ 1 * u :=
    abs_mul_le_mul (by rw [abs_of_nonneg (by linarith)]; linarith) hδ
  simpa using this

variable (d : Triangular α) (ok : TriangularOK d)
include ok

/-- full(∀α, FloatLaws+ExtraLaws+StdModel): C02 — `cdf x + sf x = 1` within `u` (as real numbers), every argument -/
theorem triangular_cdf_add_sf_std (x : α) :
    |M.toReal (Triangular.cdf d x) + M.toReal (Triangular.sf d x) - 1| ≤ u := by
  have hu := u_pos
  have lit10 : |M.toReal (1.0 : α) + M.toReal (0.0 : α) - 1| ≤ u := by
    rw [M.toReal_zero, M.toReal_one]; simpa using hu.le
  have lit01 : |M.toReal (0.0 : α) + M.toReal (1.0 : α) - 1| ≤ u := by
    rw [M.toReal_zero, M.toReal_one]; simpa using hu.le
  rcases L.nn_or_nan x with hx | hx
  · by_cases h1 : x ≤ d.f_min
    · rw [tri_cdf_eq_zero d h1, tri_sf_eq_one d h1]; exact lit01
    have g1 : d.f_min < x := L.lt_of_not_le (L.fin_nn' ok.min_fin) hx h1
    by_cases h2 : x ≤ d.f_mode
    · rw [tri_cdf_eq_lo d h1 h2, tri_sf_eq_lo d h1 h2]
      obtain ⟨q0, q1⟩ := tri_lo_mem_unit L E d ok g1 h2
      exact one_sub_complement_std L E M q0 q1
    have g2 : d.f_mode < x := L.lt_of_not_le (L.fin_nn' ok.mode_fin) hx h2
    by_cases h3 : x < d.f_max
    · rw [tri_cdf_eq_hi d h1 h2 h3, tri_sf_eq_hi d h1 h2 h3]
      obtain ⟨q0, q1⟩ := tri_hi_mem_unit L E d ok g2 h3
      have := one_sub_complement_std L E M q0 q1
      rwa [add_comm (M.toReal _)] at this
    · rw [tri_cdf_eq_one d h1 h2 h3, tri_sf_eq_zero d h1 h2 h3]; exact lit10
  · rw [tri_cdf_eq_one d (L.not_le_nan_left hx) (L.not_le_nan_left hx) (L.not_lt_nan_left hx),
      tri_sf_eq_zero d (L.not_le_nan_left hx) (L.not_le_nan_left hx) (L.not_lt_nan_left hx)]
    exact lit10

/-- full(∀α, FloatLaws+ExtraLaws+StdModel): C02 — the documented tolerance: `|cdf x + sf x − 1| ≤ 1e-8` -/
theorem triangular_cdf_add_sf_tol (x : α) :
    |M.toReal (Triangular.cdf d x) + M.toReal (Triangular.sf d x) - 1| ≤ 1e-8 := by
  refine (triangular_cdf_add_sf_std L E M d ok x).trans ?_
  rw [u_eq]; norm_num

end

/-! ### IEEE `Float` -/
open Statrs.Lemmas.FloatModel (toReal stdModel_float)
open Statrs.Props.Common (floatLaws_float extraLaws_float)

/-- full(Float): C02 — `|cdf x + sf x − 1| ≤ u = 2^-53` for `Triangular` over IEEE binary64, every `x` -/
theorem triangular_cdf_add_sf_float (d : Triangular Float) (ok : TriangularOK d) (x : Float) :
    |toReal (Triangular.cdf d x) + toReal (Triangular.sf d x) - 1| ≤ u :=
  triangular_cdf_add_sf_std floatLaws_float extraLaws_float stdModel_float d ok x

/-- full(Float): C02 — the documented tolerance `1e-8` for `Triangular` over IEEE binary64 -/
theorem triangular_cdf_add_sf_tol_float (d : Triangular Float) (ok : TriangularOK d) (x : Float) :
    |toReal (Triangular.cdf d x) + toReal (Triangular.sf d x) - 1| ≤ 1e-8 :=
  triangular_cdf_add_sf_tol floatLaws_float extraLaws_float stdModel_float d ok x

/-- non-vacuity: `Triangular(0, 1, 0.5)` satisfies `TriangularOK` over `Float` -/
example : TriangularOK ({ f_min := 0.0, f_max := 1.0, f_mode := 0.5 } : Triangular Float) :=
  ⟨by decide, by decide, by decide, by decide, by decide, by decide, by decide,
   fun _ => ⟨by decide, by decide⟩, fun _ => ⟨by decide, by decide⟩⟩

end Statrs.Props.C02
