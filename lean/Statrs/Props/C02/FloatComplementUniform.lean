/-
  C02 (float level, quantitative) — "cdf(x) + sf(x) = 1 to within 1e-8" for `Uniform` over every carrier that
  satisfies the IEEE order laws (`FloatLaws`, `ExtraLaws`) and the standard model of rounding error (`StdModel`),
  hence over IEEE `Float`:

      |toReal (cdf x) + toReal (sf x) − 1| ≤ 4u + 2η          (u = 2^-53, η = 2^-1075)

  for every non-NaN argument (±∞ included).  Hypotheses: `UniformOK` = what `Uniform::new` guarantees plus
  `Fin (max − min)` (no overflow of the width).  Without the latter the statement is FALSE:
  `uniform_complement_overflow_counterexample` — `Uniform(-1e308, 1e308)`: `cdf(0) = sf(0) = 0`.
-/
import Statrs.Props.C02.FloatSfUniform
import Statrs.Props.Common.FloatLawsFloat_Extra
import Statrs.Lemmas.FloatStdModelLemmas
import Statrs.Lemmas.FloatStdModelInst
set_option linter.unusedSectionVars false
namespace Statrs.Props.C02
open Statrs Statrs.Gen Statrs.Spec Statrs.Spec.FloatStd Statrs.Props.C01

/-- full(ℝ): two rounded quotients `fl(fl(a)/fl(w))`, `fl(fl(b)/fl(w))` with `a + b = w` add up to `1` within `4u + 2η` -/
theorem complement_quot_real {a b w δa δb δw δ1 δ2 ε1 ε2 : ℝ} (ha : 0 ≤ a) (hb : 0 ≤ b) (hw : a + b = w)
    (hw0 : 0 < w) (hδa : |δa| ≤ u) (hδb : |δb| ≤ u) (hδw : |δw| ≤ u) (hδ1 : |δ1| ≤ u) (hδ2 : |δ2| ≤ u)
    (hε1 : |ε1| ≤ η) (hε2 : |ε2| ≤ η) :
    |(a * (1 + δa) / (w * (1 + δw)) * (1 + δ1) + ε1) + (b * (1 + δb) / (w * (1 + δw)) * (1 + δ2) + ε2) - 1|
      ≤ 4 * u + 2 * η := by
  have hu := u_pos
  have hu1 := u_lt
  have hD1 : 1 - u ≤ 1 + δw := one_sub_le hδw
  have hD : 0 < w * (1 + δw) := mul_pos hw0 (by linarith)
  have hX : ∀ {p q : ℝ}, |p| ≤ u → |q| ≤ u → |(1 + p) * (1 + q) - (1 + δw)| ≤ 3 * u + u ^ 2 := by
    intro p q hp hq
    have e : (1 + p) * (1 + q) - (1 + δw) = p + q + p * q - δw := by ring
    rw [e]
    have h1 : |p * q| ≤ u * u := abs_mul_le_mul hp hq
    calc |p + q + p * q - δw| ≤ |p + q + p * q| + |δw| := abs_sub _ _
      _ ≤ |p + q| + |p * q| + |δw| := by linarith [abs_add_le (p + q) (p * q)]
      _ ≤ |p| + |q| + |p * q| + |δw| := by linarith [abs_add_le p q]
      _ ≤ 3 * u + u ^ 2 := by nlinarith
  set X := (1 + δa) * (1 + δ1) - (1 + δw) with hXd
  set Y := (1 + δb) * (1 + δ2) - (1 + δw) with hYd
  have hXb : |X| ≤ 3 * u + u ^ 2 := hX hδa hδ1
  have hYb : |Y| ≤ 3 * u + u ^ 2 := hX hδb hδ2
  have hN : |a * X + b * Y| ≤ w * (3 * u + u ^ 2) := by
    calc |a * X + b * Y| ≤ |a * X| + |b * Y| := abs_add_le _ _
      _ = a * |X| + b * |Y| := by rw [abs_mul, abs_mul, abs_of_nonneg ha, abs_of_nonneg hb]
      _ ≤ a * (3 * u + u ^ 2) + b * (3 * u + u ^ 2) :=
          add_le_add (mul_le_mul_of_nonneg_left hXb ha) (mul_le_mul_of_nonneg_left hYb hb)
      _ = w * (3 * u + u ^ 2) := by rw [← hw]; ring
  have hq : |(a * X + b * Y) / (w * (1 + δw))| ≤ 4 * u := by
    rw [abs_div, abs_of_pos hD, div_le_iff₀ hD]
    refine hN.trans ?_
    have : w * (3 * u + u ^ 2) ≤ w * (4 * u * (1 - u)) := by
      apply mul_le_mul_of_nonneg_left _ hw0.le; nlinarith
    refine this.trans ?_
    have : 4 * u * (w * (1 - u)) ≤ 4 * u * (w * (1 + δw)) :=
      mul_le_mul_of_nonneg_left (mul_le_mul_of_nonneg_left hD1 hw0.le) (by positivity)
    linarith
  have hid : (a * (1 + δa) / (w * (1 + δw)) * (1 + δ1) + ε1) + (b * (1 + δb) / (w * (1 + δw)) * (1 + δ2) + ε2) - 1
      = (a * X + b * Y) / (w * (1 + δw)) + ε1 + ε2 := by
    have h1 : (1 + δw) ≠ 0 := by linarith
    have h2 : w ≠ 0 := hw0.ne'
    rw [hXd, hYd]; field_simp; rw [← hw]; ring
  rw [hid]
  calc _ ≤ |(a * X + b * Y) / (w * (1 + δw)) + ε1| + |ε2| := abs_add_le _ _
    _ ≤ |(a * X + b * Y) / (w * (1 + δw))| + |ε1| + |ε2| := by linarith [abs_add_le ((a * X + b * Y) / (w * (1 + δw))) ε1]
    _ ≤ 4 * u + 2 * η := by linarith

section
variable {α : Type} [Add α] [Sub α] [Mul α] [Div α] [Neg α] [LT α] [LE α] [BEq α]
  [DecidableLT α] [DecidableLE α] [OfScientific α] [Inhabited α] [RFun α]
variable (L : FloatLaws α) (E : ExtraLaws α) (M : StdModel α) (d : Uniform α) (ok : UniformOK d)
include L E ok

/-- full(∀α, FloatLaws+ExtraLaws+StdModel): C02 — `cdf x + sf x = 1` within `4u + 2η` (as real numbers) for every
    non-NaN argument, `Uniform` with a non-overflowing width -/
theorem uniform_cdf_add_sf_std {x : α} (hx : NN x) :
    |M.toReal (Uniform.cdf d x) + M.toReal (Uniform.sf d x) - 1| ≤ 4 * u + 2 * η := by
  have hpos : 0 ≤ 4 * u + 2 * η := by have := u_pos; have := η_pos; positivity
  by_cases h1 : x ≤ d.f_min
  · unfold Uniform.cdf Uniform.sf
    rw [if_pos h1, if_pos h1, M.toReal_zero, M.toReal_one]; simpa using hpos
  by_cases h2 : d.f_max ≤ x
  · unfold Uniform.cdf Uniform.sf
    rw [if_neg h1, if_neg h1, if_pos h2, if_pos h2, M.toReal_zero, M.toReal_one]; simpa using hpos
  have hlo : d.f_min < x := L.lt_of_not_le (L.fin_nn' ok.min_fin) hx h1
  have hhi : x < d.f_max := L.lt_of_not_le hx (L.fin_nn' ok.max_fin) h2
  have hxf : Spec.Fin x := E.fin_of_between L ok.min_fin ok.max_fin (L.lt_le hlo) (L.lt_le hhi)
  obtain ⟨a0, a1⟩ := uniform_interior L E d ok hx h1 h2
  have haf : Spec.Fin (x - d.f_min) := E.fin_of_between L L.zero_fin ok.width_fin a0 a1
  obtain ⟨b0, b1⟩ := uniform_sf_interior L E d ok hx h1 h2
  have hbf : Spec.Fin (d.f_max - x) := E.fin_of_between L L.zero_fin ok.width_fin b0 b1
  have hwpos := uniform_width_pos L E d ok
  have hw0 : 0 < M.toReal (d.f_max - d.f_min) := by
    have := (M.lt_iff _ _ M.zero_fin ok.width_fin).1 hwpos
    rwa [M.toReal_zero] at this
  -- the two results are finite (they are in `[0,1]`)
  have hc := uniform_cdf_mem_unit L E d ok hx
  have hs := uniform_sf_mem_unit L E d ok hx
  unfold Uniform.cdf at hc ⊢
  unfold Uniform.sf at hs ⊢
  simp only [if_neg h1, if_neg h2] at hc hs ⊢
  have hcf := E.fin_of_between L L.zero_fin L.one_fin hc.1 hc.2
  have hsf := E.fin_of_between L L.zero_fin L.one_fin hs.1 hs.2
  -- rounding equations
  obtain ⟨δa, hδa, ea⟩ := M.sub_std _ _ hxf ok.min_fin haf
  obtain ⟨δb, hδb, eb⟩ := M.sub_std _ _ ok.max_fin hxf hbf
  obtain ⟨δw, hδw, ew⟩ := M.sub_std _ _ ok.max_fin ok.min_fin ok.width_fin
  obtain ⟨δ1, ε1, hδ1, hε1, _, e1⟩ := M.div_std _ _ haf ok.width_fin hw0.ne' hcf
  obtain ⟨δ2, ε2, hδ2, hε2, _, e2⟩ := M.div_std _ _ hbf ok.width_fin hw0.ne' hsf
  rw [e1, e2, ea, eb, ew]
  have hra : 0 ≤ M.toReal x - M.toReal d.f_min := by
    have := (M.lt_iff _ _ ok.min_fin hxf).1 hlo; linarith
  have hrb : 0 ≤ M.toReal d.f_max - M.toReal x := by
    have := (M.lt_iff _ _ hxf ok.max_fin).1 hhi; linarith
  have hrw : 0 < M.toReal d.f_max - M.toReal d.f_min := by
    have := (M.lt_iff _ _ ok.min_fin ok.max_fin).1 ok.lt; linarith
  exact complement_quot_real hra hrb (by ring) hrw hδa hδb hδw hδ1 hδ2 hε1 hε2

/-- full(∀α, FloatLaws+ExtraLaws+StdModel): C02 — the documented tolerance: `|cdf x + sf x − 1| ≤ 1e-8` -/
theorem uniform_cdf_add_sf_tol {x : α} (hx : NN x) :
    |M.toReal (Uniform.cdf d x) + M.toReal (Uniform.sf d x) - 1| ≤ 1e-8 := by
  refine (uniform_cdf_add_sf_std L E M d ok hx).trans ?_
  have h1 := u_lt
  have h2 := η_le_u
  rw [u_eq] at *
  norm_num at *
  linarith

end

/-! ### IEEE `Float` -/
open Statrs.Lemmas.FloatModel (toReal stdModel_float)
open Statrs.Props.Common (floatLaws_float extraLaws_float)

/-- full(Float): C02 — `|cdf x + sf x − 1| ≤ 4u + 2η` for `Uniform` over IEEE binary64, every non-NaN `x` -/
theorem uniform_cdf_add_sf_float (d : Uniform Float) (ok : UniformOK d) {x : Float} (hx : NN x) :
    |toReal (Uniform.cdf d x) + toReal (Uniform.sf d x) - 1| ≤ 4 * u + 2 * η :=
  uniform_cdf_add_sf_std floatLaws_float extraLaws_float stdModel_float d ok hx

/-- full(Float): C02 — the documented tolerance `1e-8` for `Uniform` over IEEE binary64 -/
theorem uniform_cdf_add_sf_tol_float (d : Uniform Float) (ok : UniformOK d) {x : Float} (hx : NN x) :
    |toReal (Uniform.cdf d x) + toReal (Uniform.sf d x) - 1| ≤ 1e-8 :=
  uniform_cdf_add_sf_tol floatLaws_float extraLaws_float stdModel_float d ok hx

set_option exponentiation.threshold 400 in
set_option maxRecDepth 100000 in
/-- counterexample: `Uniform::new(-1e308, 1e308)` is accepted, `max − min` overflows to `+∞`, and
    `cdf(0) = 1e308/∞ = 0`, `sf(0) = 1e308/∞ = 0`: the complement identity fails by `1`
    (kernel evaluation on Lean's IEEE `Float` model). -/
theorem uniform_complement_overflow_counterexample :
    Except.isOk (Uniform.new (-1e308 : Float) 1e308) = true ∧
    (Uniform.cdf ({ f_min := -1e308, f_max := 1e308 } : Uniform Float) 0.0 == (0.0 : Float)) = true ∧
    (Uniform.sf ({ f_min := -1e308, f_max := 1e308 } : Uniform Float) 0.0 == (0.0 : Float)) = true := by
  decide

/-- counterexample (real-valued form): for `Uniform(-1e308, 1e308)`, `|cdf 0 + sf 0 − 1| = 1` -/
theorem uniform_complement_overflow_counterexample_real :
    |toReal (Uniform.cdf ({ f_min := -1e308, f_max := 1e308 } : Uniform Float) 0.0)
      + toReal (Uniform.sf ({ f_min := -1e308, f_max := 1e308 } : Uniform Float) 0.0) - 1| = 1 := by
  obtain ⟨_, h1, h2⟩ := uniform_complement_overflow_counterexample
  have hb : ∀ {a : Float}, (a == (0.0 : Float)) = true → toReal a = 0 := by
    intro a h
    have hfa : Spec.Fin a := by
      rw [Statrs.Lemmas.FloatModel.fin_iff_fz]
      rw [Statrs.Lemmas.FloatModel.beq_def, Statrs.Lemmas.FloatModel.U_zero] at h
      revert h
      rcases Statrs.Lemmas.FloatModel.U a with s | _ | s | ⟨s, m, e, hm⟩ <;> (try cases s) <;>
        simp [Statrs.Lemmas.FloatModel.FZ, Float.Model.UnpackedFloat.beq, Float.Model.UnpackedFloat.compare]
    rw [(Statrs.Lemmas.FloatModel.beq_iff_toReal a 0.0 hfa (by decide)).1 h,
      Statrs.Lemmas.FloatModel.toReal_zero]
  rw [hb h1, hb h2]; norm_num

/-- non-vacuity: the standard uniform satisfies `UniformOK` over `Float` -/
example : UniformOK ({ f_min := 0.0, f_max := 1.0 } : Uniform Float) :=
  ⟨by decide, by decide, by decide, by decide⟩

end Statrs.Props.C02
