/-
  C02 (float level) — `Categorical.sf` on every carrier satisfying the IEEE order laws (+ `ExtraLaws`):
  for every index `0 ≤ x`: not NaN, in `[0,1]`, antitone (exactly), `0` (literal) at/above the table length,
  `== 0` at the last index; end-value complementarity with `cdf`.
  Hypotheses: `CatTableOK` (C01/FloatRangeCategorical) and `f_sf = cdf_to_sf f_cdf` — both established by
  `Categorical.new` (`categorical_new_spec`, `categorical_new_tableOK`) up to finiteness of the total mass.
-/
import Statrs.Props.C01.FloatRangeCategorical
set_option linter.unusedSectionVars false
namespace Statrs.Props.C02
open Statrs Statrs.Gen Statrs.Spec Statrs.Model Statrs.Lemmas.FloatCat Statrs.Props.C01

section
variable {α : Type} [Add α] [Sub α] [Mul α] [Div α] [Neg α] [LT α] [LE α] [BEq α]
  [DecidableLT α] [DecidableLE α] [OfScientific α] [Inhabited α] [RFun α]
variable (L : FloatLaws α) (c : Categorical α) (ok : CatTableOK c)
  (hsf : c.f_sf = D.categorical.cdf_to_sf c.f_cdf)
include L ok hsf

omit L ok in
/-- full(∀α): the sf table has the length of the cdf table -/
theorem cat_sf_len : listLen c.f_sf = listLen c.f_cdf := by
  rw [hsf]; unfold D.categorical.cdf_to_sf listLen; simp

omit L ok in
/-- the in-range branch of `Categorical.sf`: `(cdf_max − cdf[x]) / cdf_max` -/
theorem cat_sf_eq {x : Int} (h0 : 0 ≤ x) (h1 : x < listLen c.f_cdf) :
    Categorical.sf c x =
      (Categorical.cdf_max c - c.f_cdf[x.toNat]'(by unfold listLen at h1; omega)) / Categorical.cdf_max c := by
  have hl := cat_sf_len c hsf
  unfold Categorical.sf
  rw [if_neg (by omega), cat_listGet h0 (by omega)]
  congr 1
  simp only [hsf, D.categorical.cdf_to_sf, List.getElem_map]
  rfl

omit L ok in
/-- full(∀α): `sf x = 0` (the literal) at and above the table length -/
theorem categorical_sf_above {x : Int} (h : listLen c.f_cdf ≤ x) : Categorical.sf c x = (0.0 : α) := by
  have hl := cat_sf_len c hsf
  unfold Categorical.sf; rw [if_pos (by omega)]

omit hsf in
/-- full(∀α): `0 ≤ cdf_max − cdf[i] ≤ cdf_max` -/
theorem cat_sf_num_bounds {i : Nat} (hi : i < c.f_cdf.length) :
    (0.0 : α) ≤ Categorical.cdf_max c - c.f_cdf[i] ∧
    Categorical.cdf_max c - c.f_cdf[i] ≤ Categorical.cdf_max c := by
  obtain ⟨a, b⟩ := cat_table_bounds L c ok hi
  have h0 := L.sub_nonneg_of_le' ok.max_fin b
  refine ⟨h0, ?_⟩
  have hz := L.exact.sub_zero _ (L.fin_nn' ok.max_fin)
  exact L.le_of_le_of_beq (L.mono.sub_le_sub_left _ _ _ a (L.beq_nnl hz) (L.le_nnr h0)) hz

/-- full(∀α): `0 ≤ sf x ≤ 1` for every index `0 ≤ x` -/
theorem categorical_sf_mem_unit {x : Int} (h0 : 0 ≤ x) :
    (0.0 : α) ≤ Categorical.sf c x ∧ Categorical.sf c x ≤ (1.0 : α) := by
  by_cases h1 : listLen c.f_cdf ≤ x
  · rw [categorical_sf_above c hsf h1]; exact ⟨L.zero_le_zero, L.zero_le_one⟩
  · rw [cat_sf_eq c hsf h0 (by omega)]
    obtain ⟨a, b⟩ := cat_sf_num_bounds L c ok (i := x.toNat) (by unfold listLen at h1; omega)
    exact L.div_mem_unit a b ok.max_pos ok.max_fin

/-- full(∀α): `sf x` is not NaN for every index `0 ≤ x` -/
theorem categorical_sf_nn {x : Int} (h0 : 0 ≤ x) : NN (Categorical.sf c x) :=
  L.le_nnr (categorical_sf_mem_unit L c ok hsf h0).1

/-- full(∀α): EXACT float antitonicity in the index -/
theorem categorical_sf_anti {x y : Int} (h0 : 0 ≤ x) (hxy : x ≤ y) :
    Categorical.sf c y ≤ Categorical.sf c x := by
  by_cases h1 : listLen c.f_cdf ≤ y
  · rw [categorical_sf_above c hsf h1]; exact (categorical_sf_mem_unit L c ok hsf h0).1
  · have hy : y.toNat < c.f_cdf.length := by unfold listLen at h1; omega
    rw [cat_sf_eq c hsf h0 (by omega), cat_sf_eq c hsf (by omega) (by omega)]
    have hle := cat_table_mono L c ok (i := x.toNat) (j := y.toNat) (by omega) hy
    obtain ⟨ax, bx⟩ := cat_sf_num_bounds L c ok (i := x.toNat) (by omega)
    obtain ⟨ay, by'⟩ := cat_sf_num_bounds L c ok (i := y.toNat) hy
    have hn := L.mono.sub_le_sub_left _ _ (Categorical.cdf_max c) hle (L.le_nnr ax) (L.le_nnr ay)
    exact L.mono.div_le_div_right _ _ _ hn ok.max_pos
      (L.le_nnr (L.div_mem_unit ay by' ok.max_pos ok.max_fin).1)
      (L.le_nnr (L.div_mem_unit ax bx ok.max_pos ok.max_fin).1)

/-- full(∀α): at the maximum `len − 1` the value is `(cdf_max − cdf_max) / cdf_max == 0` -/
theorem categorical_sf_at_max :
    (Categorical.sf c (listLen c.f_cdf - 1) == (0.0 : α)) = true := by
  have hpos := List.length_pos_of_ne_nil ok.nonempty
  rw [cat_sf_eq c hsf (by unfold listLen; omega) (by omega)]
  have : c.f_cdf[(listLen c.f_cdf - 1).toNat]'(by unfold listLen; omega) = Categorical.cdf_max c := by
    rw [cat_cdf_max_eq c ok.nonempty]; congr 1; unfold listLen; omega
  rw [this]
  have hz := L.exact.sub_self _ ok.max_fin
  have h0 := L.pos_not_beq_zero ok.max_pos
  have hq := L.exact.zero_div _ (L.fin_nn' ok.max_fin) h0
  have hn : NN ((Categorical.cdf_max c - Categorical.cdf_max c) / Categorical.cdf_max c) :=
    L.div_nn (L.beq_nnl hz) (L.fin_nn' ok.max_fin) h0 (Or.inr ok.max_fin)
  refine L.beq_of_le_le ?_ ?_
  · exact L.le_of_le_of_beq (L.mono.div_le_div_right _ _ _ (L.beq_le hz) ok.max_pos hn (L.beq_nnl hq)) hq
  · exact L.le_of_beq_of_le (L.beq_symm hq) (L.mono.div_le_div_right _ _ _ (L.beq_ge hz) ok.max_pos (L.beq_nnl hq) hn)

omit L ok in
/-- full(∀α): at and above the table length the pair `(cdf x, sf x)` is exactly `(1, 0)` -/
theorem categorical_cdf_sf_above {x : Int} (h : listLen c.f_cdf ≤ x) :
    Categorical.cdf c x = (1.0 : α) ∧ Categorical.sf c x = (0.0 : α) :=
  ⟨categorical_cdf_above c h, categorical_sf_above c hsf h⟩

end
end Statrs.Props.C02
