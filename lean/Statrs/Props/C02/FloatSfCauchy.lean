/-
  C02 (float level, `…_libm`) — `Cauchy.sf` on every carrier satisfying the IEEE order laws, `ExtraLaws` and
  `LibmLaws`: never NaN for a non-NaN argument, in `[0,1]` exactly, fully antitone.  `sf x` is the SAME
  expression as `cdf` evaluated at the reflected argument `(location − x)/scale`.
  Hypotheses as in C01/FloatRangeCauchy.  Left out: the values at `±∞` (no `atan(±∞)` law).
-/
import Statrs.Props.C01.FloatRangeCauchy
set_option linter.unusedSectionVars false
namespace Statrs.Props.C02
open Statrs Statrs.Gen Statrs.Spec Statrs.Props.C01

section
variable {α : Type} [Add α] [Sub α] [Mul α] [Div α] [Neg α] [LT α] [LE α] [BEq α]
  [DecidableLT α] [DecidableLE α] [OfScientific α] [Inhabited α] [RFun α]
variable (L : FloatLaws α) (E : ExtraLaws α) (M : LibmLaws α)
variable (d : Cauchy α) (hloc : Spec.Fin d.f_location) (hs : (0.0 : α) < d.f_scale) (hsf : Spec.Fin d.f_scale)
include L E M hloc hs hsf

omit E M in
/-- full(∀α): the reflected standardised argument `(location − x)/scale` is not NaN for a non-NaN `x` -/
theorem cauchy_z'_nn {x : α} (hx : NN x) : NN ((d.f_location - x) / d.f_scale) :=
  L.div_nn (L.sub_nn (L.fin_nn' hloc) hx (Or.inl hloc)) (L.lt_nnr hs) (L.pos_not_beq_zero hs) (Or.inr hsf)

/-- rel(LibmLaws): `0 ≤ sf x ≤ 1` for every non-NaN `x` (also `±∞`) -/
theorem cauchy_sf_mem_unit_libm {x : α} (hx : NN x) :
    (0.0 : α) ≤ Cauchy.sf d x ∧ Cauchy.sf d x ≤ (1.0 : α) :=
  cauchy_core_mem_unit L E M (cauchy_z'_nn L d hloc hs hsf hx)

/-- rel(LibmLaws): `sf x` is not NaN for a non-NaN `x` -/
theorem cauchy_sf_nn_libm {x : α} (hx : NN x) : NN (Cauchy.sf d x) :=
  L.le_nnr (cauchy_sf_mem_unit_libm L E M d hloc hs hsf hx).1

/-- rel(LibmLaws): FULL float antitonicity `x ≤ y ⇒ sf y ≤ sf x` -/
theorem cauchy_sf_anti_libm {x y : α} (hxy : x ≤ y) : Cauchy.sf d y ≤ Cauchy.sf d x := by
  have hx := L.le_nnl hxy
  have hy := L.le_nnr hxy
  have hn := L.fin_nn' hloc
  have h1 : d.f_location - y ≤ d.f_location - x :=
    L.mono.sub_le_sub_left _ _ _ hxy (L.sub_nn hn hx (Or.inl hloc)) (L.sub_nn hn hy (Or.inl hloc))
  exact cauchy_core_mono L E M (L.mono.div_le_div_right _ _ _ h1 hs
    (cauchy_z'_nn L d hloc hs hsf hy) (cauchy_z'_nn L d hloc hs hsf hx))

omit E hloc hs hsf in
/-- rel(LibmLaws): a NaN argument gives NaN -/
theorem cauchy_sf_nan_libm {x : α} (hx : RFun.isNaN x = true) : RFun.isNaN (Cauchy.sf d x) = true := by
  unfold Cauchy.sf
  apply L.add_nan_left; apply L.mul_nan_right; rw [M.atan_nan]
  exact L.div_nan_left _ (L.sub_nan_right _ hx)

end
end Statrs.Props.C02
