/-
  C02 (float level) — `Dirac.sf` on every carrier satisfying the IEEE order laws: values in `{0, 1}`,
  antitone, `1` strictly below the atom, `0` at/above it, and `(cdf x, sf x) ∈ {(0,1), (1,0)}` for EVERY x.
-/
import Statrs.Props.C01.FloatRangeDirac
set_option linter.unusedSectionVars false
namespace Statrs.Props.C02
open Statrs Statrs.Gen Statrs.Spec Statrs.Props.C01

section
variable {α : Type} [Add α] [Sub α] [Mul α] [Div α] [Neg α] [LT α] [LE α] [BEq α]
  [DecidableLT α] [DecidableLE α] [OfScientific α] [Inhabited α] [RFun α]
variable (L : FloatLaws α) (d : Dirac α)
include L

omit L in
/-- full(∀α): for every argument (NaN included) the pair `(cdf x, sf x)` is exactly `(0,1)` or `(1,0)` -/
theorem dirac_cdf_sf_cases (x : α) :
    (Dirac.cdf d x = (0.0 : α) ∧ Dirac.sf d x = (1.0 : α)) ∨
    (Dirac.cdf d x = (1.0 : α) ∧ Dirac.sf d x = (0.0 : α)) := by
  unfold Dirac.cdf Dirac.sf; split_ifs <;> simp

/-- full(∀α): `0 ≤ sf x ≤ 1` and `sf x` is not NaN, for EVERY argument (a NaN argument gives `0`) -/
theorem dirac_sf_mem_unit (x : α) :
    NN (Dirac.sf d x) ∧ (0.0 : α) ≤ Dirac.sf d x ∧ Dirac.sf d x ≤ (1.0 : α) := by
  rcases dirac_cdf_sf_cases d x with ⟨_, h⟩ | ⟨_, h⟩ <;> rw [h]
  · exact ⟨L.one_nn, L.zero_le_one, L.one_le_one⟩
  · exact ⟨L.zero_nn, L.zero_le_zero, L.zero_le_one⟩

/-- full(∀α): NaN argument ⇒ the code returns `0` -/
theorem dirac_sf_nan_arg {x : α} (hx : RFun.isNaN x = true) : Dirac.sf d x = (0.0 : α) := by
  unfold Dirac.sf; rw [if_neg (L.not_lt_nan_left hx)]

/-- full(∀α): exact antitonicity -/
theorem dirac_sf_anti_fl {x y : α} (hxy : x ≤ y) : Dirac.sf d y ≤ Dirac.sf d x := by
  by_cases hy : y < d.f_0
  · have hx : x < d.f_0 := L.lt_of_le_of_lt' hxy hy
    unfold Dirac.sf; rw [if_pos hx, if_pos hy]; exact L.one_le_one
  · have : Dirac.sf d y = (0.0 : α) := by unfold Dirac.sf; rw [if_neg hy]
    rw [this]; exact (dirac_sf_mem_unit L d x).2.1

omit L in
/-- full(∀α): `sf x = 1` strictly below the atom -/
theorem dirac_sf_below {x : α} (h : x < d.f_0) : Dirac.sf d x = (1.0 : α) := by
  unfold Dirac.sf; rw [if_pos h]

/-- full(∀α): `sf x = 0` at and above the atom -/
theorem dirac_sf_above {x : α} (h : d.f_0 ≤ x) : Dirac.sf d x = (0.0 : α) := by
  unfold Dirac.sf; rw [if_neg (L.le_not_lt h)]

/-- full(∀α): `sf(v) = 0`, `sf(+∞) = 0`; `sf(−∞) = 1` iff the atom is not `−∞` itself -/
theorem dirac_sf_ends (hv : NN d.f_0) :
    Dirac.sf d d.f_0 = (0.0 : α) ∧ Dirac.sf d (RFun.inf : α) = (0.0 : α) ∧
    ((RFun.negInf : α) < d.f_0 → Dirac.sf d (RFun.negInf : α) = (1.0 : α)) :=
  ⟨dirac_sf_above L d (L.le_rfl' hv), dirac_sf_above L d (L.le_inf hv), fun h => dirac_sf_below d h⟩

end
end Statrs.Props.C02
