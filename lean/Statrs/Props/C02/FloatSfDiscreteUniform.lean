/-
  C02 (float level) — `DiscreteUniform.sf` on every carrier satisfying the IEEE order laws + `OfIntLaws`:
  never NaN, in `[0,1]`, antitone (exactly), `1` below the minimum, `0` at/above the maximum, end-value
  complementarity with `cdf`.  Hypotheses: `DiscreteUniformOK` (see C01/FloatRangeDiscreteUniform).
-/
import Statrs.Props.C01.FloatRangeDiscreteUniform
set_option linter.unusedSectionVars false
namespace Statrs.Props.C02
open Statrs Statrs.Gen Statrs.Spec Statrs.Props.C01

section
variable {α : Type} [Add α] [Sub α] [Mul α] [Div α] [Neg α] [LT α] [LE α] [BEq α]
  [DecidableLT α] [DecidableLE α] [OfScientific α] [Inhabited α] [RFun α]

/-- the unclamped value `(upper − x) / ((upper − lower) + 1.0)` of `DiscreteUniform.sf` -/
def duSfAns (α : Type) [Add α] [Sub α] [Div α] [OfScientific α] [RFun α] (d : DiscreteUniform) (x : Int) : α :=
  ((RFun.ofInt d.f_max : α) - (RFun.ofInt x : α)) / duDen α d

variable (L : FloatLaws α) (d : DiscreteUniform) (ok : DiscreteUniformOK α d)
include L ok

/-- full(∀α): `0 ≤ upper − ofInt x ≤ den` for `min ≤ x ≤ max` -/
theorem du_sf_num_bounds {x : Int} (h1 : d.f_min ≤ x) (h2 : x ≤ d.f_max) :
    (0.0 : α) ≤ (RFun.ofInt d.f_max : α) - (RFun.ofInt x : α) ∧
    (RFun.ofInt d.f_max : α) - (RFun.ofInt x : α) ≤ duDen α d := by
  have hlo : Spec.Fin (RFun.ofInt d.f_min : α) := du_ofInt_fin L d ok (le_refl _) ok.le
  have hup : Spec.Fin (RFun.ofInt d.f_max : α) := du_ofInt_fin L d ok ok.le (le_refl _)
  have hx : Spec.Fin (RFun.ofInt x : α) := du_ofInt_fin L d ok h1 h2
  have h0 : (0.0 : α) ≤ (RFun.ofInt d.f_max : α) - RFun.ofInt x :=
    L.sub_nonneg_of_le hx (du_ofInt_mono L d ok h1 h2 (le_refl _))
  have hdu : NN ((RFun.ofInt d.f_max : α) - RFun.ofInt d.f_min) :=
    L.sub_nn (L.fin_nn' hup) (L.fin_nn' hlo) (Or.inl hup)
  have hle : (RFun.ofInt d.f_max : α) - RFun.ofInt x ≤ RFun.ofInt d.f_max - RFun.ofInt d.f_min :=
    L.mono.sub_le_sub_left _ _ _ (du_ofInt_mono L d ok (le_refl _) h1 h2) hdu (L.le_nnr h0)
  have hz := L.exact.add_zero _ hdu
  have hstep : (RFun.ofInt d.f_max : α) - RFun.ofInt d.f_min ≤ duDen α d :=
    L.le_of_beq_of_le (L.beq_symm hz)
      (L.mono.add_le_add_left _ _ _ L.zero_le_one (L.beq_nnl hz) (L.fin_nn' ok.den_fin))
  exact ⟨h0, L.le_tr hle hstep⟩

/-- full(∀α): the unclamped value is in `[0,1]` on the support -/
theorem du_sf_ans_mem_unit {x : Int} (h1 : d.f_min ≤ x) (h2 : x ≤ d.f_max) :
    (0.0 : α) ≤ duSfAns α d x ∧ duSfAns α d x ≤ (1.0 : α) := by
  obtain ⟨ha, hb⟩ := du_sf_num_bounds L d ok h1 h2
  exact L.div_mem_unit ha hb (du_den_pos L d ok).2 ok.den_fin

/-- full(∀α): inside the support the clamp does not fire -/
theorem du_sf_interior {x : Int} (h1 : d.f_min ≤ x) (h2 : x < d.f_max) :
    DiscreteUniform.sf (α := α) d x = duSfAns α d x := by
  have hle := (du_sf_ans_mem_unit L d ok h1 (le_of_lt h2)).2
  unfold DiscreteUniform.sf
  rw [if_neg (by omega), if_neg (by omega)]
  show (if (1.0 : α) < duSfAns α d x then (1.0 : α) else duSfAns α d x) = _
  rw [if_neg (L.le_not_lt hle)]

omit L ok in
/-- full(∀α): `sf x = 1` (the literal) strictly below the minimum -/
theorem du_sf_below {x : Int} (h : x < d.f_min) : DiscreteUniform.sf (α := α) d x = (1.0 : α) := by
  unfold DiscreteUniform.sf; rw [if_pos h]

omit L in
/-- full(∀α): `sf x = 0` (the literal) at and above the maximum -/
theorem du_sf_above {x : Int} (h : d.f_max ≤ x) : DiscreteUniform.sf (α := α) d x = (0.0 : α) := by
  have := ok.le
  unfold DiscreteUniform.sf; rw [if_neg (by omega), if_pos h]

/-- full(∀α): `0 ≤ sf x ≤ 1` for every integer `x` -/
theorem du_sf_mem_unit (x : Int) :
    (0.0 : α) ≤ DiscreteUniform.sf (α := α) d x ∧ DiscreteUniform.sf (α := α) d x ≤ (1.0 : α) := by
  by_cases h1 : x < d.f_min
  · rw [du_sf_below d h1]; exact ⟨L.zero_le_one, L.one_le_one⟩
  · by_cases h2 : d.f_max ≤ x
    · rw [du_sf_above d ok h2]; exact ⟨L.zero_le_zero, L.zero_le_one⟩
    · rw [du_sf_interior L d ok (by omega) (by omega)]
      exact du_sf_ans_mem_unit L d ok (by omega) (by omega)

/-- full(∀α): `sf x` is never NaN -/
theorem du_sf_nn (x : Int) : NN (DiscreteUniform.sf (α := α) d x) := L.le_nnr (du_sf_mem_unit L d ok x).1

/-- full(∀α): EXACT float antitonicity in the integer argument -/
theorem du_sf_anti {x y : Int} (hxy : x ≤ y) :
    DiscreteUniform.sf (α := α) d y ≤ DiscreteUniform.sf (α := α) d x := by
  by_cases h1 : x < d.f_min
  · rw [du_sf_below d h1]; exact (du_sf_mem_unit L d ok y).2
  · by_cases h2 : d.f_max ≤ y
    · rw [du_sf_above d ok h2]; exact (du_sf_mem_unit L d ok x).1
    · rw [du_sf_interior L d ok (by omega) (by omega), du_sf_interior L d ok (by omega) (by omega)]
      have hle := L.mono.sub_le_sub_left _ _ (RFun.ofInt d.f_max : α) (du_ofInt_mono L d ok (by omega) hxy (by omega))
        (L.le_nnr (du_sf_num_bounds L d ok (x := x) (by omega) (by omega)).1)
        (L.le_nnr (du_sf_num_bounds L d ok (x := y) (by omega) (by omega)).1)
      unfold duSfAns
      exact L.mono.div_le_div_right _ _ _ hle (du_den_pos L d ok).2
        (L.le_nnr (du_sf_ans_mem_unit L d ok (x := y) (by omega) (by omega)).1)
        (L.le_nnr (du_sf_ans_mem_unit L d ok (x := x) (by omega) (by omega)).1)

omit L in
/-- full(∀α): outside `[min, max)` the pair `(cdf x, sf x)` is exactly `(0,1)` or `(1,0)` -/
theorem du_cdf_sf_outside {x : Int} (h : x < d.f_min ∨ d.f_max ≤ x) :
    (DiscreteUniform.cdf (α := α) d x = (0.0 : α) ∧ DiscreteUniform.sf (α := α) d x = (1.0 : α)) ∨
    (DiscreteUniform.cdf (α := α) d x = (1.0 : α) ∧ DiscreteUniform.sf (α := α) d x = (0.0 : α)) := by
  rcases h with h | h
  · exact Or.inl ⟨du_cdf_below d h, du_sf_below d h⟩
  · exact Or.inr ⟨du_cdf_above d ok h, du_sf_above d ok h⟩

end
end Statrs.Props.C02
