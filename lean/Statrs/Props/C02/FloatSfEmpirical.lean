/-
  C02/C15 (float level) — `Empirical.sf` (hand model: `count(> x) as f64 / sum as f64`) on every carrier
  satisfying the IEEE order laws + `OfIntLaws`: for a non-NaN argument not NaN, in `[0,1]`, antitone (exactly),
  `== 1` below every data point, `== 0` at/above every data point and at `+∞`; and the two integer counts
  behind `cdf x` and `sf x` add up to `sum` EXACTLY (the float values are the correctly rounded quotients).
  Hypotheses as in C01/FloatRangeEmpirical.
-/
import Statrs.Props.C01.FloatRangeEmpirical
set_option linter.unusedSectionVars false
namespace Statrs.Props.C02
open Statrs Statrs.Spec Statrs.Model Statrs.Lemmas.FloatEmp Statrs.Props.C01

section
variable {α : Type} [Add α] [Sub α] [Mul α] [Div α] [Neg α] [LT α] [LE α] [BEq α]
  [DecidableLT α] [DecidableLE α] [OfScientific α] [Inhabited α] [RFun α]
variable (L : FloatLaws α) (e : Empirical α) (ok : EmpOK e) (hne : e.f_data ≠ []) (hmax : e.f_sum ≤ 2 ^ 64)

/-- the non-NaN branch of `Empirical.sf` -/
theorem emp_sf_eq {x : α} (hx : NN x) :
    Empirical.sf e x = (RFun.ofInt (mapSumFrom e.f_data x) : α) / (RFun.ofInt e.f_sum : α) := by
  unfold Empirical.sf; rw [if_neg (by rw [hx]; exact Bool.false_ne_true)]

include ok in
/-- full(∀α): complementarity: `cdf x = ofInt(k)/ofInt(n)` and `sf x = ofInt(n − k)/ofInt(n)` for the same
    integer `0 ≤ k ≤ n = sum` — the counts are exactly complementary -/
theorem empirical_cdf_sf_counts {x : α} (hx : NN x) :
    ∃ k : Int, 0 ≤ k ∧ k ≤ e.f_sum ∧
      Empirical.cdf e x = (RFun.ofInt k : α) / RFun.ofInt e.f_sum ∧
      Empirical.sf e x = (RFun.ofInt (e.f_sum - k) : α) / RFun.ofInt e.f_sum := by
  have hc := emp_counts_nonneg e ok
  have hsum := mapSumTo_add_mapSumFrom e.f_data x
  refine ⟨mapSumTo e.f_data x, (mapSumTo_bounds e.f_data hc x).1,
    by rw [ok.sum_eq]; exact (mapSumTo_bounds e.f_data hc x).2, emp_cdf_eq e hx, ?_⟩
  rw [emp_sf_eq e hx, ok.sum_eq]; congr 2; omega

include L ok hne hmax

/-- full(∀α): `0 ≤ sf x ≤ 1` for every non-NaN `x` -/
theorem empirical_sf_mem_unit {x : α} (hx : NN x) :
    (0.0 : α) ≤ Empirical.sf e x ∧ Empirical.sf e x ≤ (1.0 : α) := by
  rw [emp_sf_eq e hx]
  obtain ⟨a, b⟩ := mapSumFrom_bounds e.f_data (emp_counts_nonneg e ok) x
  exact ofInt_ratio_mem_unit L a (by rw [ok.sum_eq]; exact b) (emp_sum_pos e ok hne) hmax

/-- full(∀α): `sf x` is not NaN for a non-NaN `x` -/
theorem empirical_sf_nn {x : α} (hx : NN x) : NN (Empirical.sf e x) :=
  L.le_nnr (empirical_sf_mem_unit L e ok hne hmax hx).1

/-- full(∀α): EXACT float antitonicity: `x ≤ y ⇒ sf y ≤ sf x` -/
theorem empirical_sf_anti {x y : α} (hxy : x ≤ y) : Empirical.sf e y ≤ Empirical.sf e x := by
  rw [emp_sf_eq e (L.le_nnl hxy), emp_sf_eq e (L.le_nnr hxy)]
  have hc := emp_counts_nonneg e ok
  exact ofInt_ratio_mono L (mapSumFrom_bounds e.f_data hc y).1 (mapSumFrom_anti L e.f_data ok.keys_nn hc hxy)
    (by rw [ok.sum_eq]; exact (mapSumFrom_bounds e.f_data hc x).2) (emp_sum_pos e ok hne) hmax

/-- full(∀α): `sf x == 1` strictly below every data point -/
theorem empirical_sf_below {x : α} (hx : NN x) (h : ∀ p ∈ e.f_data, x < p.1) :
    (Empirical.sf e x == (1.0 : α)) = true := by
  have h1 := mapSumTo_add_mapSumFrom e.f_data x
  rw [mapSumTo_below L e.f_data ok.keys_nn hx h] at h1
  rw [emp_sf_eq e hx, show mapSumFrom e.f_data x = e.f_sum by rw [ok.sum_eq]; omega]
  exact (ofInt_ratio_ends L (emp_sum_pos e ok hne) hmax).2

/-- full(∀α): `sf x == 0` at and above every data point -/
theorem empirical_sf_above {x : α} (hx : NN x) (h : ∀ p ∈ e.f_data, p.1 ≤ x) :
    (Empirical.sf e x == (0.0 : α)) = true := by
  have h1 := mapSumTo_add_mapSumFrom e.f_data x
  rw [mapSumTo_above L e.f_data ok.keys_nn hx h] at h1
  rw [emp_sf_eq e hx, show mapSumFrom e.f_data x = 0 by omega]
  exact (ofInt_ratio_ends L (emp_sum_pos e ok hne) hmax).1

/-- full(∀α): `sf(+∞) == 0` -/
theorem empirical_sf_inf : (Empirical.sf e (RFun.inf : α) == (0.0 : α)) = true :=
  empirical_sf_above L e ok hne hmax L.inf_nn (fun p hp => L.le_inf (ok.keys_nn p hp))

end
end Statrs.Props.C02
