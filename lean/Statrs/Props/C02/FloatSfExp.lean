/-
  C02 (float level, `…_libm`) — `Exp.sf` on every carrier satisfying the IEEE order laws, `ExtraLaws` and
  `LibmLaws`: never NaN for a non-NaN argument, in `[0,1]`, antitone (exactly), `1` below `0` and at `−∞`,
  `== 1` at `0`, `== 0` at `+∞`.  Hypotheses: `0 < rate` (constructor) and `Fin rate` (see C01/FloatRangeExp).
-/
import Statrs.Props.C01.FloatRangeExp
set_option linter.unusedSectionVars false
namespace Statrs.Props.C02
open Statrs Statrs.Gen Statrs.Spec Statrs.Props.C01

section
variable {α : Type} [Add α] [Sub α] [Mul α] [Div α] [Neg α] [LT α] [LE α] [BEq α]
  [DecidableLT α] [DecidableLE α] [OfScientific α] [Inhabited α] [RFun α]
variable (L : FloatLaws α) (E : ExtraLaws α) (M : LibmLaws α) (d : Exp α)
  (hr : (0.0 : α) < d.f_rate) (hf : Spec.Fin d.f_rate)
include L E M hr hf

omit L E M hr hf in
/-- full(∀α): `sf x = 1` (the literal) below the support -/
theorem exp_sf_neg {x : α} (h : x < (0.0 : α)) : Exp.sf d x = (1.0 : α) := by
  unfold Exp.sf; rw [if_pos h]
omit L E M hr hf in
/-- full(∀α): the interior branch of `Exp.sf` -/
theorem exp_sf_nonneg_arg {x : α} (h : ¬ x < (0.0 : α)) : Exp.sf d x = RFun.exp ((-d.f_rate) * x) := by
  unfold Exp.sf; rw [if_neg h]

/-- rel(LibmLaws): `0 ≤ sf x ≤ 1` for every non-NaN `x` -/
theorem exp_sf_mem_unit_libm {x : α} (hx : NN x) : (0.0 : α) ≤ Exp.sf d x ∧ Exp.sf d x ≤ (1.0 : α) := by
  by_cases h : x < (0.0 : α)
  · rw [exp_sf_neg d h]; exact ⟨L.zero_le_one, L.one_le_one⟩
  · rw [exp_sf_nonneg_arg d h]
    exact exp_tail_mem_unit L E M d hr hf (L.le_of_not_lt hx L.zero_nn h)

/-- rel(LibmLaws): `sf x` is not NaN for a non-NaN `x` -/
theorem exp_sf_nn_libm {x : α} (hx : NN x) : NN (Exp.sf d x) :=
  L.le_nnr (exp_sf_mem_unit_libm L E M d hr hf hx).1

omit E hr hf in
/-- rel(LibmLaws): a NaN argument gives NaN -/
theorem exp_sf_nan_libm {x : α} (hx : RFun.isNaN x = true) : RFun.isNaN (Exp.sf d x) = true := by
  rw [exp_sf_nonneg_arg d (L.not_lt_nan_left hx), M.exp_nan]; exact L.mul_nan_right _ hx

/-- rel(LibmLaws): EXACT float antitonicity `x ≤ y ⇒ sf y ≤ sf x` -/
theorem exp_sf_anti_libm {x y : α} (hxy : x ≤ y) : Exp.sf d y ≤ Exp.sf d x := by
  have hx := L.le_nnl hxy
  have hy := L.le_nnr hxy
  by_cases h : x < (0.0 : α)
  · rw [exp_sf_neg d h]; exact (exp_sf_mem_unit_libm L E M d hr hf hy).2
  · have h0 : (0.0 : α) ≤ x := L.le_of_not_lt hx L.zero_nn h
    have hy0 : ¬ y < (0.0 : α) := L.le_not_lt (L.le_tr h0 hxy)
    rw [exp_sf_nonneg_arg d h, exp_sf_nonneg_arg d hy0]
    exact exp_tail_anti L E M d hr hf h0 hxy

/-- rel(LibmLaws): `sf(−∞) = 1` (literal), `sf(0) == 1`, `sf(+∞) == 0` — complementary to `exp_cdf_ends_libm` -/
theorem exp_sf_ends_libm :
    Exp.sf d (RFun.negInf : α) = (1.0 : α) ∧ (Exp.sf d (0.0 : α) == (1.0 : α)) = true ∧
    (Exp.sf d (RFun.inf : α) == (0.0 : α)) = true := by
  refine ⟨exp_sf_neg d (E.negInf_lt_fin L L.zero_fin), ?_, ?_⟩
  · rw [exp_sf_nonneg_arg d (L.lt_irrefl' _)]
    exact M.exp_of_beq_zero L (L.exact.mul_zero _ (ExtraLaws.neg_fin L hf))
  · rw [exp_sf_nonneg_arg d (L.le_not_lt (L.le_inf L.zero_nn))]
    obtain ⟨_, _, hb, _⟩ := E.neg_rate_mul L hr hf (L.le_inf L.zero_nn)
    exact M.exp_of_beq_negInf L
      (L.beq_tr hb (L.beq_tr (ExtraLaws.neg_congr L (E.mul_inf_of_pos _ hr)) E.neg_inf_eq))

end
end Statrs.Props.C02
