/-
  C02 (float level, `…_libm`) — `Laplace.sf` on every carrier satisfying the IEEE order laws, `ExtraLaws` and
  `LibmLaws`: never NaN for a non-NaN argument, in `[0,1]`, FULLY antitone, `== 1` at `−∞`, `== 0` at `+∞`.
  `cdf x` and `sf x` are `y` and `1 − y` of the SAME float `y` (in one order or the other), so
  `{cdf x, sf x} = {y, 1 − y}` exactly.  Hypotheses as in C01/FloatRangeLaplace.
-/
import Statrs.Props.C01.FloatRangeLaplace
set_option linter.unusedSectionVars false
namespace Statrs.Props.C02
open Statrs Statrs.Gen Statrs.Spec Statrs.Props.C01

section
variable {α : Type} [Add α] [Sub α] [Mul α] [Div α] [Neg α] [LT α] [LE α] [BEq α]
  [DecidableLT α] [DecidableLE α] [OfScientific α] [Inhabited α] [RFun α]

/-- full(∀α): `Laplace.sf` in terms of `lapY` (definitional) -/
theorem laplace_sf_eq (d : Laplace α) (x : α) :
    Laplace.sf d x = if d.f_location ≤ x then lapY d x else (1.0 : α) - lapY d x := rfl

/-- full(∀α): complementarity: for every `x` (NaN included) `cdf x` and `sf x` are `1 − y` and `y` for the same
    float `y = exp(−|x−μ|/s)/2` -/
theorem laplace_cdf_sf_pair (d : Laplace α) (x : α) :
    (Laplace.cdf d x = (1.0 : α) - lapY d x ∧ Laplace.sf d x = lapY d x) ∨
    (Laplace.cdf d x = lapY d x ∧ Laplace.sf d x = (1.0 : α) - lapY d x) := by
  rw [laplace_cdf_eq, laplace_sf_eq]; split_ifs <;> simp

variable (L : FloatLaws α) (E : ExtraLaws α) (M : LibmLaws α) (d : Laplace α)
  (hloc : Spec.Fin d.f_location) (hs : (0.0 : α) < d.f_scale) (hsf : Spec.Fin d.f_scale)
include L E M hloc hs hsf

/-- rel(LibmLaws): `0 ≤ sf x ≤ 1` for every non-NaN `x`; `sf x ≤ 0.5` at/right of the location, `≥ 0.5` left -/
theorem laplace_sf_mem_unit_libm {x : α} (hx : NN x) :
    (0.0 : α) ≤ Laplace.sf d x ∧ Laplace.sf d x ≤ (1.0 : α) ∧
    (d.f_location ≤ x → Laplace.sf d x ≤ (0.5 : α)) ∧ (¬ d.f_location ≤ x → (0.5 : α) ≤ Laplace.sf d x) := by
  obtain ⟨a, b⟩ := lapY_mem L E M d hloc hs hsf hx
  rw [laplace_sf_eq]
  by_cases h : d.f_location ≤ x
  · simp only [if_pos h]
    exact ⟨a, L.le_tr b L.half_le_one, fun _ => b, fun h' => absurd h h'⟩
  · simp only [if_neg h]
    obtain ⟨c1, c2⟩ := L.one_sub_mem_unit a (L.le_tr b L.half_le_one)
    exact ⟨c1, c2, fun h' => absurd h' h,
      fun _ => L.le_of_beq_of_le (L.beq_symm E.one_sub_half) (L.one_sub_anti b)⟩

/-- rel(LibmLaws): `sf x` is not NaN for a non-NaN `x` -/
theorem laplace_sf_nn_libm {x : α} (hx : NN x) : NN (Laplace.sf d x) :=
  L.le_nnr (laplace_sf_mem_unit_libm L E M d hloc hs hsf hx).1

omit hloc hs hsf in
/-- rel(LibmLaws): a NaN argument gives NaN -/
theorem laplace_sf_nan_libm {x : α} (hx : RFun.isNaN x = true) : RFun.isNaN (Laplace.sf d x) = true := by
  rw [laplace_sf_eq, if_neg (L.not_le_nan_right hx)]
  apply L.sub_nan_right
  unfold lapY
  apply L.div_nan_left; rw [M.exp_nan]; apply L.div_nan_left; rw [L.nan.neg_nan, E.abs_nan]
  exact L.sub_nan_left _ hx

/-- rel(LibmLaws): FULL float antitonicity `x ≤ y ⇒ sf y ≤ sf x` -/
theorem laplace_sf_anti_libm {x y : α} (hxy : x ≤ y) : Laplace.sf d y ≤ Laplace.sf d x := by
  have hx := L.le_nnl hxy
  have hy := L.le_nnr hxy
  by_cases h1 : d.f_location ≤ x
  · have h2 : d.f_location ≤ y := L.le_tr h1 hxy
    rw [laplace_sf_eq, laplace_sf_eq, if_pos h1, if_pos h2]
    exact lapY_anti_right L E M d hloc hs hsf h1 hxy
  · by_cases h2 : d.f_location ≤ y
    · exact L.le_tr ((laplace_sf_mem_unit_libm L E M d hloc hs hsf hy).2.2.1 h2)
        ((laplace_sf_mem_unit_libm L E M d hloc hs hsf hx).2.2.2 h1)
    · rw [laplace_sf_eq, laplace_sf_eq, if_neg h1, if_neg h2]
      exact L.one_sub_anti (lapY_mono_left L E M d hloc hs hsf hxy
        (L.lt_le (L.lt_of_not_le hy (L.fin_nn' hloc) h2)))

/-- rel(LibmLaws): `sf(−∞) == 1` and `sf(+∞) == 0` -/
theorem laplace_sf_ends_libm :
    (Laplace.sf d (RFun.negInf : α) == (1.0 : α)) = true ∧ (Laplace.sf d (RFun.inf : α) == (0.0 : α)) = true := by
  obtain ⟨h1, h2⟩ := lapY_inf L E M d hloc hs hsf
  constructor
  · rw [laplace_sf_eq, if_neg (L.lt_not_le (E.negInf_lt_fin L hloc))]
    exact L.beq_tr (L.one_sub_congr h1) (L.exact.sub_zero _ L.one_nn)
  · rw [laplace_sf_eq, if_pos (L.le_inf (L.fin_nn' hloc))]; exact h2

end
end Statrs.Props.C02
