/-
  C02 (float level) — `Triangular.sf` on every carrier satisfying the IEEE order laws (+ `ExtraLaws`):
  never NaN for a non-NaN argument, in `[0,1]`, `1` at/below `min` and at `−∞`, `0` at/above `max` and at `+∞`,
  antitone within each polynomial branch and across the guards; end-value complementarity with `cdf`.
  Antitonicity across the mode is FALSE in IEEE arithmetic: `triangular_sf_mode_crossing_counterexample`.
  Hypotheses: `TriangularOK` (see C01/FloatRangeTriangular).
-/
import Statrs.Props.C01.FloatRangeTriangular
set_option linter.unusedSectionVars false
namespace Statrs.Props.C02
open Statrs Statrs.Gen Statrs.Spec Statrs.Props.C01

section
variable {α : Type} [Add α] [Sub α] [Mul α] [Div α] [Neg α] [LT α] [LE α] [BEq α]
  [DecidableLT α] [DecidableLE α] [OfScientific α] [Inhabited α] [RFun α]
variable (L : FloatLaws α) (E : ExtraLaws α) (d : Triangular α) (ok : TriangularOK d)
include L E ok

omit L E ok in
/-- the four branches of `Triangular.sf`, as rewriting lemmas -/
theorem tri_sf_eq_one {x : α} (h : x ≤ d.f_min) : Triangular.sf d x = (1.0 : α) := by
  unfold Triangular.sf; simp only [if_pos h]
omit L E ok in
/-- full(∀α): the lower polynomial branch of `Triangular.sf` -/
theorem tri_sf_eq_lo {x : α} (h1 : ¬ x ≤ d.f_min) (h2 : x ≤ d.f_mode) :
    Triangular.sf d x =
      (1.0 : α) - ((x - d.f_min) * (x - d.f_min)) / ((d.f_max - d.f_min) * (d.f_mode - d.f_min)) := by
  unfold Triangular.sf; simp only [if_neg h1, if_pos h2]
omit L E ok in
/-- full(∀α): the upper polynomial branch of `Triangular.sf` -/
theorem tri_sf_eq_hi {x : α} (h1 : ¬ x ≤ d.f_min) (h2 : ¬ x ≤ d.f_mode) (h3 : x < d.f_max) :
    Triangular.sf d x = ((d.f_max - x) * (d.f_max - x)) / ((d.f_max - d.f_min) * (d.f_max - d.f_mode)) := by
  unfold Triangular.sf; simp only [if_neg h1, if_neg h2, if_pos h3]
omit L E ok in
/-- full(∀α): the `0.0` guard branch of `Triangular.sf` -/
theorem tri_sf_eq_zero {x : α} (h1 : ¬ x ≤ d.f_min) (h2 : ¬ x ≤ d.f_mode) (h3 : ¬ x < d.f_max) :
    Triangular.sf d x = (0.0 : α) := by
  unfold Triangular.sf; simp only [if_neg h1, if_neg h2, if_neg h3]

/-- full(∀α): `0 ≤ sf x ≤ 1` for every non-NaN `x` -/
theorem triangular_sf_mem_unit {x : α} (hx : NN x) :
    (0.0 : α) ≤ Triangular.sf d x ∧ Triangular.sf d x ≤ (1.0 : α) := by
  by_cases h1 : x ≤ d.f_min
  · rw [tri_sf_eq_one d h1]; exact ⟨L.zero_le_one, L.one_le_one⟩
  · have g1 : d.f_min < x := L.lt_of_not_le (L.fin_nn' ok.min_fin) hx h1
    by_cases h2 : x ≤ d.f_mode
    · rw [tri_sf_eq_lo d h1 h2]
      obtain ⟨q0, q1⟩ := tri_lo_mem_unit L E d ok g1 h2
      exact L.one_sub_mem_unit q0 q1
    · have g2 : d.f_mode < x := L.lt_of_not_le (L.fin_nn' ok.mode_fin) hx h2
      by_cases h3 : x < d.f_max
      · rw [tri_sf_eq_hi d h1 h2 h3]; exact tri_hi_mem_unit L E d ok g2 h3
      · rw [tri_sf_eq_zero d h1 h2 h3]; exact ⟨L.zero_le_zero, L.zero_le_one⟩

/-- full(∀α): `sf x` is not NaN for a non-NaN `x` -/
theorem triangular_sf_nn {x : α} (hx : NN x) : NN (Triangular.sf d x) :=
  L.le_nnr (triangular_sf_mem_unit L E d ok hx).1
/-- full(∀α): `0 ≤ sf x` for a non-NaN `x` -/
theorem triangular_sf_nonneg_fl {x : α} (hx : NN x) : (0.0 : α) ≤ Triangular.sf d x :=
  (triangular_sf_mem_unit L E d ok hx).1
/-- full(∀α): `sf x ≤ 1` for a non-NaN `x` -/
theorem triangular_sf_le_one_fl {x : α} (hx : NN x) : Triangular.sf d x ≤ (1.0 : α) :=
  (triangular_sf_mem_unit L E d ok hx).2

omit E ok in
/-- full(∀α): NaN argument ⇒ the code returns `0` (all three comparisons are false), NOT NaN -/
theorem triangular_sf_nan_arg {x : α} (hx : RFun.isNaN x = true) : Triangular.sf d x = (0.0 : α) :=
  tri_sf_eq_zero d (L.not_le_nan_left hx) (L.not_le_nan_left hx) (L.not_lt_nan_left hx)

/-- full(∀α): `sf x == 0` at and above the maximum (the literal `0.0` when `x` is strictly above the mode;
    for `mode == max == x` the lower branch returns `1 − D/D`, IEEE-equal to `0`) -/
theorem triangular_sf_above {x : α} (h : d.f_max ≤ x) : (Triangular.sf d x == (0.0 : α)) = true := by
  have h1 : ¬ x ≤ d.f_min := fun h' => L.lt_not_le ok.lt (L.le_tr h h')
  by_cases h2 : x ≤ d.f_mode
  · have hc := triangular_cdf_above L E d ok h
    rw [tri_cdf_eq_lo d h1 h2] at hc
    rw [tri_sf_eq_lo d h1 h2]
    have hz : (((1.0 : α) - (1.0 : α)) == (0.0 : α)) = true := L.exact.sub_self _ L.one_fin
    refine L.beq_of_le_le ?_ ?_
    · exact L.le_of_le_of_beq (L.one_sub_anti (L.beq_ge hc)) hz
    · exact L.le_of_beq_of_le (L.beq_symm hz) (L.one_sub_anti (L.beq_le hc))
  · rw [tri_sf_eq_zero d h1 h2 (L.le_not_lt h)]; exact L.beq_rfl' L.zero_nn

omit E in
/-- full(∀α): strictly above the mode and at/above the maximum the value is the literal `0.0` -/
theorem triangular_sf_above_lit {x : α} (h : d.f_max ≤ x) (hm : d.f_mode < x) :
    Triangular.sf d x = (0.0 : α) :=
  tri_sf_eq_zero d (fun h' => L.lt_not_le ok.lt (L.le_tr h h')) (L.lt_not_le hm) (L.le_not_lt h)

/-- full(∀α): `sf(min) = 1`, `sf(−∞) = 1`, `sf(+∞) = 0` (literals) and `sf(max) == 0`; together with
    `triangular_cdf_ends` this is the end-value complementarity `cdf + sf = 1` at `−∞, min, max, +∞` -/
theorem triangular_sf_ends :
    Triangular.sf d d.f_min = (1.0 : α) ∧ Triangular.sf d (RFun.negInf : α) = (1.0 : α) ∧
    Triangular.sf d (RFun.inf : α) = (0.0 : α) ∧ (Triangular.sf d d.f_max == (0.0 : α)) = true :=
  ⟨tri_sf_eq_one d (L.le_rfl' (L.fin_nn' ok.min_fin)),
   tri_sf_eq_one d (L.negInf_le (L.fin_nn' ok.min_fin)),
   triangular_sf_above_lit L d ok (L.le_inf (L.fin_nn' ok.max_fin)) (E.fin_lt_inf L ok.mode_fin),
   triangular_sf_above L E d ok (L.le_rfl' (L.fin_nn' ok.max_fin))⟩

/-- partial(antitonicity across the mode — `min < x ≤ mode < y < max` — is excluded; it is FALSE in IEEE
    arithmetic, see `triangular_sf_mode_crossing_counterexample`): `x ≤ y ⇒ sf y ≤ sf x` when both points are
    on the same polynomial branch or one of them is on a constant guard. -/
theorem triangular_sf_anti_partial {x y : α} (hxy : x ≤ y)
    (hside : x ≤ d.f_min ∨ y ≤ d.f_mode ∨ d.f_mode < x ∨ d.f_max ≤ y) :
    Triangular.sf d y ≤ Triangular.sf d x := by
  have hx := L.le_nnl hxy
  have hy := L.le_nnr hxy
  by_cases h1 : x ≤ d.f_min
  · rw [tri_sf_eq_one d h1]; exact triangular_sf_le_one_fl L E d ok hy
  have g1 : d.f_min < x := L.lt_of_not_le (L.fin_nn' ok.min_fin) hx h1
  have h1y : ¬ y ≤ d.f_min := fun h => h1 (L.le_tr hxy h)
  rcases hside with hs | hs | hs | hs
  · exact absurd hs h1
  · have h2x : x ≤ d.f_mode := L.le_tr hxy hs
    rw [tri_sf_eq_lo d h1 h2x, tri_sf_eq_lo d h1y hs]
    have g1y : d.f_min < y := L.lt_of_lt_of_le' g1 hxy
    obtain ⟨a0, _, a2⟩ := tri_sub_min L E d ok (L.lt_le g1) (L.le_tr h2x ok.mode_le_max)
    obtain ⟨b0, _, b2⟩ := tri_sub_min L E d ok (L.lt_le g1y) (L.le_tr hs ok.mode_le_max)
    have hle : x - d.f_min ≤ y - d.f_min := L.mono.sub_le_sub_right _ _ _ hxy (L.fin_nn' a2) (L.fin_nn' b2)
    have hn := L.mul_le_mul' a0 hle a0 hle (L.mul_nn a2 a2) (L.mul_nn b2 a2) (L.mul_nn b2 b2)
    obtain ⟨dp, df⟩ := ok.den_lo (L.lt_of_lt_of_le' g1 h2x)
    exact L.one_sub_anti (L.mono.div_le_div_right _ _ _ hn dp
      (L.le_nnr (tri_lo_mem_unit L E d ok g1 h2x).1) (L.le_nnr (tri_lo_mem_unit L E d ok g1y hs).1))
  · have h2 : ¬ x ≤ d.f_mode := L.lt_not_le hs
    have g2y : d.f_mode < y := L.lt_of_lt_of_le' hs hxy
    have h2y : ¬ y ≤ d.f_mode := L.lt_not_le g2y
    by_cases h3y : y < d.f_max
    · have h3 : x < d.f_max := L.lt_of_le_of_lt' hxy h3y
      rw [tri_sf_eq_hi d h1 h2 h3, tri_sf_eq_hi d h1y h2y h3y]
      obtain ⟨a0, _, a2⟩ := tri_max_sub L E d ok (L.lt_le g1) (L.lt_le h3)
      obtain ⟨b0, _, b2⟩ := tri_max_sub L E d ok (L.le_tr (L.lt_le g1) hxy) (L.lt_le h3y)
      have hle : d.f_max - y ≤ d.f_max - x := L.mono.sub_le_sub_left _ _ _ hxy (L.fin_nn' a2) (L.fin_nn' b2)
      have hn := L.mul_le_mul' b0 hle b0 hle (L.mul_nn b2 b2) (L.mul_nn a2 b2) (L.mul_nn a2 a2)
      obtain ⟨dp, df⟩ := ok.den_hi (L.lt_tr hs h3)
      exact L.mono.div_le_div_right _ _ _ hn dp
        (L.le_nnr (tri_hi_mem_unit L E d ok g2y h3y).1) (L.le_nnr (tri_hi_mem_unit L E d ok hs h3).1)
    · rw [tri_sf_eq_zero d h1y h2y h3y]; exact triangular_sf_nonneg_fl L E d ok hx
  · exact L.le_of_beq_of_le (triangular_sf_above L E d ok hs) (triangular_sf_nonneg_fl L E d ok hx)

end

/-- counterexample: `Triangular.sf` is NOT antitone across the mode in IEEE arithmetic: for
    `Triangular(0, 3, 0.995)` and `x = nextUp(0.995)`: `sf(0.995) < sf(x)` although `0.995 < x`. -/
theorem triangular_sf_mode_crossing_counterexample :
    let d : Triangular Float := { f_min := 0.0, f_max := 3.0, f_mode := 0.995 }
    (0.995 : Float) < Float.ofBits 4607137382803743704 ∧
    Triangular.sf d 0.995 < Triangular.sf d (Float.ofBits 4607137382803743704) := by
  decide

end Statrs.Props.C02
