/-
  C02 (float level) — `Uniform.sf` on every carrier satisfying the IEEE order laws: never NaN for a
  non-NaN argument, in `[0,1]`, antitone (exactly), `1` at/below `min` and at `−∞`, `0` at/above `max`
  and at `+∞`, and end-value complementarity with `cdf`.  Hypotheses: `UniformOK` (see C01/FloatRangeUniform).
-/
import Statrs.Props.C01.FloatRangeUniform
set_option linter.unusedSectionVars false
namespace Statrs.Props.C02
open Statrs Statrs.Gen Statrs.Spec Statrs.Props.C01

section
variable {α : Type} [Add α] [Sub α] [Mul α] [Div α] [Neg α] [LT α] [LE α] [BEq α]
  [DecidableLT α] [DecidableLE α] [OfScientific α] [Inhabited α] [RFun α]
variable (L : FloatLaws α) (E : ExtraLaws α) (d : Uniform α) (ok : UniformOK d)
include L E ok

/-- full(∀α): inside the support, `0 ≤ max − x ≤ max − min` -/
theorem uniform_sf_interior {x : α} (hx : NN x) (h1 : ¬ x ≤ d.f_min) (h2 : ¬ d.f_max ≤ x) :
    (0.0 : α) ≤ d.f_max - x ∧ d.f_max - x ≤ d.f_max - d.f_min := by
  have hlo : d.f_min < x := L.lt_of_not_le (L.fin_nn' ok.min_fin) hx h1
  have hhi : x < d.f_max := L.lt_of_not_le hx (L.fin_nn' ok.max_fin) h2
  refine ⟨L.sub_nonneg_of_le' ok.max_fin (L.lt_le hhi), ?_⟩
  exact L.mono.sub_le_sub_left _ _ _ (L.lt_le hlo) (L.fin_nn' ok.width_fin)
    (L.sub_nn (L.fin_nn' ok.max_fin) hx (Or.inl ok.max_fin))

/-- full(∀α): `0 ≤ sf x ≤ 1` for every non-NaN `x` -/
theorem uniform_sf_mem_unit {x : α} (hx : NN x) :
    (0.0 : α) ≤ Uniform.sf d x ∧ Uniform.sf d x ≤ (1.0 : α) := by
  unfold Uniform.sf
  by_cases h1 : x ≤ d.f_min
  · rw [if_pos h1]; exact ⟨L.zero_le_one, L.one_le_one⟩
  · rw [if_neg h1]
    by_cases h2 : d.f_max ≤ x
    · rw [if_pos h2]; exact ⟨L.zero_le_zero, L.zero_le_one⟩
    · rw [if_neg h2]
      obtain ⟨ha, hb⟩ := uniform_sf_interior L E d ok hx h1 h2
      exact L.div_mem_unit ha hb (uniform_width_pos L E d ok) ok.width_fin

/-- full(∀α): `sf x` is not NaN for a non-NaN `x` -/
theorem uniform_sf_nn {x : α} (hx : NN x) : NN (Uniform.sf d x) :=
  L.le_nnr (uniform_sf_mem_unit L E d ok hx).1
/-- full(∀α): `0 ≤ sf x` for a non-NaN `x` -/
theorem uniform_sf_nonneg_fl {x : α} (hx : NN x) : (0.0 : α) ≤ Uniform.sf d x :=
  (uniform_sf_mem_unit L E d ok hx).1
/-- full(∀α): `sf x ≤ 1` for a non-NaN `x` -/
theorem uniform_sf_le_one_fl {x : α} (hx : NN x) : Uniform.sf d x ≤ (1.0 : α) :=
  (uniform_sf_mem_unit L E d ok hx).2

omit E ok in
/-- full(∀α): a NaN argument gives a NaN -/
theorem uniform_sf_nan {x : α} (hx : RFun.isNaN x = true) : RFun.isNaN (Uniform.sf d x) = true := by
  unfold Uniform.sf
  rw [if_neg (L.not_le_nan_left hx), if_neg (L.not_le_nan_right hx)]
  exact L.div_nan_left _ (L.sub_nan_right _ hx)

/-- full(∀α): EXACT float antitonicity: `x ≤ y ⇒ sf y ≤ sf x` -/
theorem uniform_sf_anti_fl {x y : α} (hxy : x ≤ y) : Uniform.sf d y ≤ Uniform.sf d x := by
  have hx := L.le_nnl hxy
  have hy := L.le_nnr hxy
  by_cases h1 : x ≤ d.f_min
  · have : Uniform.sf d x = (1.0 : α) := by unfold Uniform.sf; rw [if_pos h1]
    rw [this]; exact uniform_sf_le_one_fl L E d ok hy
  · by_cases h2 : d.f_max ≤ y
    · have h1y : ¬ y ≤ d.f_min := fun h => h1 (L.le_tr hxy h)
      have : Uniform.sf d y = (0.0 : α) := by unfold Uniform.sf; rw [if_neg h1y, if_pos h2]
      rw [this]; exact uniform_sf_nonneg_fl L E d ok hx
    · have h1y : ¬ y ≤ d.f_min := fun h => h1 (L.le_tr hxy h)
      have h2x : ¬ d.f_max ≤ x := fun h => h2 (L.le_tr h hxy)
      unfold Uniform.sf
      rw [if_neg h1, if_neg h2x, if_neg h1y, if_neg h2]
      have hw := uniform_width_pos L E d ok
      have hmx := L.fin_nn' ok.max_fin
      have hsx : NN (d.f_max - x) := L.sub_nn hmx hx (Or.inl ok.max_fin)
      have hsy : NN (d.f_max - y) := L.sub_nn hmx hy (Or.inl ok.max_fin)
      have hle : d.f_max - y ≤ d.f_max - x := L.mono.sub_le_sub_left _ _ _ hxy hsx hsy
      have hw0 := L.pos_not_beq_zero hw
      exact L.mono.div_le_div_right _ _ _ hle hw
        (L.div_nn hsy (L.lt_nnr hw) hw0 (Or.inr ok.width_fin))
        (L.div_nn hsx (L.lt_nnr hw) hw0 (Or.inr ok.width_fin))

omit L E ok in
/-- full(∀α): `sf x = 1` (the literal) at and below the minimum -/
theorem uniform_sf_below {x : α} (h : x ≤ d.f_min) : Uniform.sf d x = (1.0 : α) := by
  unfold Uniform.sf; rw [if_pos h]

omit E in
/-- full(∀α): `sf x = 0` (the literal) at and above the maximum -/
theorem uniform_sf_above {x : α} (h : d.f_max ≤ x) : Uniform.sf d x = (0.0 : α) := by
  have h1 : ¬ x ≤ d.f_min := fun h' => L.lt_not_le ok.lt (L.le_tr h h')
  unfold Uniform.sf; rw [if_neg h1, if_pos h]

omit E in
/-- full(∀α): `sf(min) = 1`, `sf(max) = 0`, `sf(−∞) = 1`, `sf(+∞) = 0` -/
theorem uniform_sf_ends :
    Uniform.sf d d.f_min = (1.0 : α) ∧ Uniform.sf d d.f_max = (0.0 : α) ∧
    Uniform.sf d (RFun.negInf : α) = (1.0 : α) ∧ Uniform.sf d (RFun.inf : α) = (0.0 : α) :=
  ⟨uniform_sf_below d (L.le_rfl' (L.fin_nn' ok.min_fin)),
   uniform_sf_above L d ok (L.le_rfl' (L.fin_nn' ok.max_fin)),
   uniform_sf_below d (L.negInf_le (L.fin_nn' ok.min_fin)),
   uniform_sf_above L d ok (L.le_inf (L.fin_nn' ok.max_fin))⟩

omit E in
/-- full(∀α): outside the open support the pair `(cdf x, sf x)` is exactly `(0, 1)` or `(1, 0)` -/
theorem uniform_cdf_sf_outside {x : α} (h : x ≤ d.f_min ∨ d.f_max ≤ x) :
    (Uniform.cdf d x = (0.0 : α) ∧ Uniform.sf d x = (1.0 : α)) ∨
    (Uniform.cdf d x = (1.0 : α) ∧ Uniform.sf d x = (0.0 : α)) := by
  rcases h with h | h
  · exact Or.inl ⟨uniform_cdf_below d h, uniform_sf_below d h⟩
  · exact Or.inr ⟨uniform_cdf_above L d ok h, uniform_sf_above L d ok h⟩

end
end Statrs.Props.C02
