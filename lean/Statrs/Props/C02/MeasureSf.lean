/-
  C02 — "an overridden sf must describe the same distribution as its cdf": for every family whose
  generated `cdf` has been identified with the distribution function of a probability measure `μ`
  (C01: `Props/C01/ClosedMathlib.lean`, `MeasureCdfA.lean`, `MeasureCdfB.lean`), the generated `sf`
  IS the tail probability of the SAME measure,

      X.sf d x = (μ (Set.Ioi x)).toReal            for every constructed object, every real x,

  from the C01 identification `X.cdf d x = ProbabilityTheory.cdf μ x` and the C02 complement
  identity `X.cdf d x + X.sf d x = 1` (`Props/C02.lean`, `Props/C02/Closed.lean`, `ClosedErfc.lean`,
  `Special.lean`).  `μ` is Mathlib's measure where one exists (`expMeasure`, `paretoMeasure`,
  `cauchyMeasure`, `gaussianReal`, `gammaMeasure`, `betaMeasure`), otherwise the measure with the
  generated density (`densityMeasure (X.pdf d)`; StudentsT: `studentDensity`, which is the generated
  pdf for `freedom < 1e8`).

  Strength: full(ℝ) for Exp, Pareto, Cauchy.  For the special-function families `…_rel` takes the
  premise structures of BOTH inputs (C02: `GammaSpec` / `BetaSpec` / `ErfcSpec`; C01: the calculus
  and limit premises), and `…_true` is the unconditional statement for the true special functions
  `sfDerivWitness`, which satisfy all of them (`Props/C02/SfWitness.lean`).
  Model limit (not a defect): Chi is stated for `x ≠ 0` (over ℝ `RFun.inf = 0`, so `Chi.cdf d 0` is
  junk: `C03.chi_cdf_zero_model_junk`).
-/
import Statrs.Props.C02.SfWitness
import Statrs.Props.C02.ClosedMathlib
import Statrs.Props.C02.ClosedErfc
import Statrs.Props.C02.Special
import Statrs.Props.C01.MeasureCdfA
import Statrs.Props.C01.MeasureCdfB
set_option linter.unusedVariables false
set_option linter.unusedSectionVars false
namespace Statrs.Props.C02
open Statrs Statrs.Gen Statrs.Props.C01 Statrs.Lemmas.MeasureCdf Statrs.Spec
open Statrs.Props.C03 Statrs.Props.C03.Witness Statrs.Spec.Incomplete Statrs.Spec.Erfc
open MeasureTheory ProbabilityTheory Set
open scoped NNReal

/-! ### measure theory -/

/-- tail probability = 1 − distribution function -/
theorem tail_eq_one_sub_cdf (μ : Measure ℝ) [IsProbabilityMeasure μ] (x : ℝ) :
    (μ (Ioi x)).toReal = 1 - cdf μ x := by
  rw [cdf_eq_real, ← compl_Iic]
  exact probReal_compl_eq_one_sub measurableSet_Iic

/-- the step every theorem below takes: `F = cdf μ` at `x` and `F x + S x = 1` give `S x = μ (x, ∞)` -/
theorem sf_eq_tail_of (μ : Measure ℝ) [IsProbabilityMeasure μ] {F S : ℝ} {x : ℝ}
    (hF : F = cdf μ x) (hadd : F + S = 1) : S = (μ (Ioi x)).toReal := by
  rw [tail_eq_one_sub_cdf, ← hF]; linarith

/-! ## closed forms: Exp, Pareto, Cauchy — full(ℝ) -/

/-- Exp: sf is the tail of Mathlib's `expMeasure rate` -/
theorem exp_sf_eq_tail (d : Exp ℝ) (h : 0 < d.f_rate) (x : ℝ) :
    Exp.sf d x = ((expMeasure d.f_rate) (Ioi x)).toReal := by
  have := isProbabilityMeasure_expMeasure h
  exact sf_eq_tail_of _ (exp_cdf_eq_mathlib d h x) (exp_cdf_add_sf d x)

/-- Pareto: sf is the tail of Mathlib's `paretoMeasure scale shape` -/
theorem pareto_sf_eq_tail (d : Pareto ℝ) (hs : 0 < d.f_scale) (hk : 0 < d.f_shape) (x : ℝ) :
    Pareto.sf d x = ((paretoMeasure d.f_scale d.f_shape) (Ioi x)).toReal := by
  have := isProbabilityMeasure_paretoMeasure hs hk
  exact sf_eq_tail_of _ (pareto_cdf_eq_mathlib d hs hk x) (pareto_cdf_add_sf d x)

/-- Cauchy: sf is the tail of Mathlib's `cauchyMeasure location scale` -/
theorem cauchy_sf_eq_tail (d : Cauchy ℝ) (h : 0 < d.f_scale) (x : ℝ) :
    Cauchy.sf d x = ((cauchyMeasure d.f_location ⟨d.f_scale, h.le⟩) (Ioi x)).toReal := by
  have : IsProbabilityMeasure (cauchyMeasure d.f_location ⟨d.f_scale, h.le⟩) :=
    instIsProbabilityMeasure_cauchyMeasure _ _
  exact sf_eq_tail_of _ (cauchy_cdf_eq_mathlib d h x) (cauchy_cdf_add_sf d x)

example : ∃ d : Exp ℝ, 0 < d.f_rate := ⟨⟨1⟩, by norm_num⟩
example : ∃ d : Pareto ℝ, 0 < d.f_scale ∧ 0 < d.f_shape := ⟨⟨1, 1⟩, by norm_num⟩
example : ∃ d : Cauchy ℝ, 0 < d.f_scale := ⟨⟨0, 1⟩, by norm_num⟩

/-! ## special-function families, relative to the premises of C01 and C02 -/

section Rel
variable [SF ℝ]

/-- Normal: sf is the tail of Mathlib's `gaussianReal mean (std_dev²)` -/
theorem normal_sf_eq_tail_rel (S : ErfcSpec) (E : ErfDerivSpec) (L : ErfcLimitSpec)
    (d : Gen.Normal ℝ) (hσ : 0 < d.f_std_dev) (x : ℝ) :
    Normal.sf d x = ((gaussianReal d.f_mean (normalVar d hσ)) (Ioi x)).toReal :=
  sf_eq_tail_of _ (normal_cdf_eq_mathlib_rel E L d hσ x) (normal_cdf_add_sf_rel S d x)

/-- Gamma: sf is the tail of Mathlib's `gammaMeasure shape rate` -/
theorem gamma_sf_eq_tail_rel (S : GammaSpec) (G : GammaDensitySpec) (D : GammaLrDerivSpec)
    (d : Gen.Gamma ℝ) (hs : 0 < d.f_shape) (hr : 0 < d.f_rate) (x : ℝ) :
    Gamma.sf d x = ((gammaMeasure d.f_shape d.f_rate) (Ioi x)).toReal := by
  have := isProbabilityMeasure_gammaMeasure hs hr
  exact sf_eq_tail_of _ (gamma_cdf_eq_mathlib_rel G D d hs hr x) (gamma_cdf_add_sf_rel S d hs hr x)

/-- Erlang: sf is the tail of Mathlib's `gammaMeasure shape rate` -/
theorem erlang_sf_eq_tail_rel (S : GammaSpec) (G : GammaDensitySpec) (D : GammaLrDerivSpec)
    (d : Erlang ℝ) (hs : 0 < d.f_g.f_shape) (hr : 0 < d.f_g.f_rate) (x : ℝ) :
    Erlang.sf d x = ((gammaMeasure d.f_g.f_shape d.f_g.f_rate) (Ioi x)).toReal := by
  have := isProbabilityMeasure_gammaMeasure hs hr
  exact sf_eq_tail_of _ (erlang_cdf_eq_mathlib_rel G D d hs hr x) (erlang_cdf_add_sf_rel S d hs hr x)

/-- ChiSquared: sf is the tail of Mathlib's `gammaMeasure shape rate` (stored `shape = k/2`,
    `rate = 1/2`) -/
theorem chi_squared_sf_eq_tail_rel (S : GammaSpec) (G : GammaDensitySpec) (D : GammaLrDerivSpec)
    (d : ChiSquared ℝ) (hs : 0 < d.f_g.f_shape) (hr : 0 < d.f_g.f_rate) (x : ℝ) :
    ChiSquared.sf d x = ((gammaMeasure d.f_g.f_shape d.f_g.f_rate) (Ioi x)).toReal := by
  have := isProbabilityMeasure_gammaMeasure hs hr
  exact sf_eq_tail_of _ (chi_squared_cdf_eq_mathlib_rel G D d hs hr x)
    (chi_squared_cdf_add_sf_rel S d hs hr x)

/-- Beta: sf is the tail of Mathlib's `betaMeasure a b` -/
theorem beta_sf_eq_tail_rel (Bs : BetaSpec) (G : GammaDensitySpec) (B : BetaRegDerivSpec)
    (d : Gen.Beta ℝ) (ha : 0 < d.f_shape_a) (hb : 0 < d.f_shape_b) (x : ℝ) :
    Beta.sf d x = ((betaMeasure d.f_shape_a d.f_shape_b) (Ioi x)).toReal := by
  have := isProbabilityMeasureBeta ha hb
  exact sf_eq_tail_of _ (beta_cdf_eq_mathlib_rel G B d ha hb x) (beta_cdf_add_sf_rel Bs d ha hb x)

/-- LogNormal: sf is the tail of the measure with the generated density -/
theorem log_normal_sf_eq_tail_rel (S : ErfcSpec) (E : ErfDerivSpec) (L : ErfcLimitSpec)
    (Lb : ErfcLimitBotSpec) (d : LogNormal ℝ) (hσ : 0 < d.f_scale) (x : ℝ) :
    LogNormal.sf d x = ((densityMeasure (LogNormal.pdf d)) (Ioi x)).toReal := by
  obtain ⟨hp, hc⟩ := log_normal_measure_rel E L Lb d hσ
  exact sf_eq_tail_of _ (hc x) (log_normal_cdf_add_sf_rel S d x)

/-- InverseGamma: sf is the tail of the measure with the generated density -/
theorem inverse_gamma_sf_eq_tail_rel (S : GammaSpec) (G : GammaDensitySpec) (D : GammaUrDerivSpec)
    (Lu : GammaUrLimitSpec) (d : InverseGamma ℝ) (hs : 0 < d.f_shape) (hr : 0 < d.f_rate) (x : ℝ) :
    InverseGamma.sf d x = ((densityMeasure (InverseGamma.pdf d)) (Ioi x)).toReal := by
  obtain ⟨hp, hc⟩ := inverse_gamma_measure_rel G D Lu d hs hr
  exact sf_eq_tail_of _ (hc x) (inverse_gamma_cdf_add_sf_rel S d hs hr x)

/-- Chi: sf is the tail of the measure with the generated density, at every `x ≠ 0` -/
theorem chi_sf_eq_tail_rel (S : GammaSpec) (G : GammaDensitySpec) (D : GammaLrDerivSpec)
    (Ll : GammaLrLimitSpec) (d : Chi) (h0 : 0 ≤ d.f_freedom) (hne : d.f_freedom ≠ 0) (x : ℝ)
    (hx : x ≠ 0) :
    Chi.sf (α := ℝ) d x = ((densityMeasure (Chi.pdf (α := ℝ) d)) (Ioi x)).toReal := by
  have hp := (chi_measure_rel G D Ll d h0 hne).1
  exact sf_eq_tail_of _ (chi_cdf_eq_measure_cdf_rel G D Ll d h0 hne x hx)
    (chi_cdf_add_sf_rel S d h0 hne x)

/-- FisherSnedecor: sf is the tail of the measure with the generated density -/
theorem fisher_snedecor_sf_eq_tail_rel (Bs : BetaSpec) (B : BetaRegDerivSpec) (Bf : BetaFnSpec)
    (d : FisherSnedecor ℝ) (h1 : 0 < d.f_freedom_1) (h2 : 0 < d.f_freedom_2) (x : ℝ) :
    FisherSnedecor.sf d x = ((densityMeasure (FisherSnedecor.pdf d)) (Ioi x)).toReal := by
  obtain ⟨hp, hc⟩ := fisher_snedecor_measure_rel B Bf d h1 h2
  exact sf_eq_tail_of _ (hc x) (fisher_snedecor_cdf_add_sf_rel Bs d h1 h2 x)

/-- StudentsT (every `freedom > 0`): sf is the tail of the measure with density `studentDensity`
    (the complement identity needs no premise) -/
theorem students_t_sf_eq_tail_rel (B : BetaRegDerivSpec) (d : StudentsT ℝ) (hσ : 0 < d.f_scale)
    (hν : 0 < d.f_freedom) (x : ℝ) :
    StudentsT.sf d x
      = ((densityMeasure (studentDensity d.f_location d.f_scale d.f_freedom)) (Ioi x)).toReal := by
  obtain ⟨hp, hc⟩ := students_t_measure_rel B d hσ hν
  exact sf_eq_tail_of _ (hc x) (students_t_cdf_add_sf d x)

/-- StudentsT, `freedom < 1e8`: the same with the GENERATED pdf as density -/
theorem students_t_sf_eq_tail_pdf_rel (G : GammaDensitySpec) (B : BetaRegDerivSpec) (d : StudentsT ℝ)
    (hσ : 0 < d.f_scale) (hν : 0 < d.f_freedom) (hν8 : d.f_freedom < 1e8) (x : ℝ) :
    StudentsT.sf d x = ((densityMeasure (StudentsT.pdf d)) (Ioi x)).toReal := by
  obtain ⟨hp, hc⟩ := students_t_measure_pdf_rel G B d hσ hν hν8
  exact sf_eq_tail_of _ (hc x) (students_t_cdf_add_sf d x)

end Rel

/-- the premises of all `…_rel` theorems above are jointly satisfiable (by the true functions) -/
theorem measureSf_specs_consistent : ∃ inst : SF ℝ, @GammaSpec inst ∧ @BetaSpec inst ∧ @ErfcSpec inst ∧
    @GammaDensitySpec inst ∧ @GammaLrDerivSpec inst ∧ @GammaUrDerivSpec inst ∧ @BetaRegDerivSpec inst ∧
    @BetaFnSpec inst ∧ @ErfDerivSpec inst ∧ @ErfcLimitSpec inst ∧ @ErfcLimitBotSpec inst ∧
    @GammaUrLimitSpec inst ∧ @GammaLrLimitSpec inst :=
  ⟨sfDerivWitness, gammaSpec_true, betaSpec_true, erfcSpec_true, gammaDensitySpec_witness,
    gammaLrDerivSpec_witness, gammaUrDerivSpec_witness, betaRegDerivSpec_witness, betaFnSpec_witness,
    erfDerivSpec_witness, erfcLimitSpec_witness, erfcLimitBotSpec_witness, gammaUrLimitSpec_witness,
    gammaLrLimitSpec_witness⟩

/-! ## the true special functions: unconditional statements -/

theorem normal_sf_eq_tail_true (d : Gen.Normal ℝ) (hσ : 0 < d.f_std_dev) (x : ℝ) :
    @Normal.sf ℝ _ _ _ _ _ _ _ _ _ _ _ _ _ sfDerivWitness d x
      = ((gaussianReal d.f_mean (normalVar d hσ)) (Ioi x)).toReal :=
  @normal_sf_eq_tail_rel sfDerivWitness erfcSpec_true erfDerivSpec_witness erfcLimitSpec_witness d hσ x

theorem gamma_sf_eq_tail_true (d : Gen.Gamma ℝ) (hs : 0 < d.f_shape) (hr : 0 < d.f_rate) (x : ℝ) :
    @Gamma.sf ℝ _ _ _ _ _ _ _ _ _ _ _ _ _ sfDerivWitness d x
      = ((gammaMeasure d.f_shape d.f_rate) (Ioi x)).toReal :=
  @gamma_sf_eq_tail_rel sfDerivWitness gammaSpec_true gammaDensitySpec_witness
    gammaLrDerivSpec_witness d hs hr x

theorem erlang_sf_eq_tail_true (d : Erlang ℝ) (hs : 0 < d.f_g.f_shape) (hr : 0 < d.f_g.f_rate)
    (x : ℝ) :
    @Erlang.sf ℝ _ _ _ _ _ _ _ _ _ _ _ _ _ sfDerivWitness d x
      = ((gammaMeasure d.f_g.f_shape d.f_g.f_rate) (Ioi x)).toReal :=
  @erlang_sf_eq_tail_rel sfDerivWitness gammaSpec_true gammaDensitySpec_witness
    gammaLrDerivSpec_witness d hs hr x

theorem chi_squared_sf_eq_tail_true (d : ChiSquared ℝ) (hs : 0 < d.f_g.f_shape)
    (hr : 0 < d.f_g.f_rate) (x : ℝ) :
    @ChiSquared.sf ℝ _ _ _ _ _ _ _ _ _ _ _ _ _ sfDerivWitness d x
      = ((gammaMeasure d.f_g.f_shape d.f_g.f_rate) (Ioi x)).toReal :=
  @chi_squared_sf_eq_tail_rel sfDerivWitness gammaSpec_true gammaDensitySpec_witness
    gammaLrDerivSpec_witness d hs hr x

theorem beta_sf_eq_tail_true (d : Gen.Beta ℝ) (ha : 0 < d.f_shape_a) (hb : 0 < d.f_shape_b) (x : ℝ) :
    @Beta.sf ℝ _ _ _ _ _ _ _ _ _ _ _ _ _ sfDerivWitness d x
      = ((betaMeasure d.f_shape_a d.f_shape_b) (Ioi x)).toReal :=
  @beta_sf_eq_tail_rel sfDerivWitness betaSpec_true gammaDensitySpec_witness
    betaRegDerivSpec_witness d ha hb x

theorem log_normal_sf_eq_tail_true (d : LogNormal ℝ) (hσ : 0 < d.f_scale) (x : ℝ) :
    @LogNormal.sf ℝ _ _ _ _ _ _ _ _ _ _ _ _ _ sfDerivWitness d x
      = ((densityMeasure (LogNormal.pdf d)) (Ioi x)).toReal :=
  @log_normal_sf_eq_tail_rel sfDerivWitness erfcSpec_true erfDerivSpec_witness erfcLimitSpec_witness
    erfcLimitBotSpec_witness d hσ x

theorem inverse_gamma_sf_eq_tail_true (d : InverseGamma ℝ) (hs : 0 < d.f_shape) (hr : 0 < d.f_rate)
    (x : ℝ) :
    @InverseGamma.sf ℝ _ _ _ _ _ _ _ _ _ _ _ _ _ sfDerivWitness d x
      = ((densityMeasure (@InverseGamma.pdf ℝ _ _ _ _ _ _ _ _ _ _ _ _ _ sfDerivWitness d))
          (Ioi x)).toReal :=
  @inverse_gamma_sf_eq_tail_rel sfDerivWitness gammaSpec_true gammaDensitySpec_witness
    gammaUrDerivSpec_witness gammaUrLimitSpec_witness d hs hr x

theorem chi_sf_eq_tail_true (d : Chi) (h0 : 0 ≤ d.f_freedom) (hne : d.f_freedom ≠ 0) (x : ℝ)
    (hx : x ≠ 0) :
    @Chi.sf ℝ _ _ _ _ _ _ _ _ _ _ _ _ _ sfDerivWitness d x
      = ((densityMeasure (@Chi.pdf ℝ _ _ _ _ _ _ _ _ _ _ _ _ _ sfDerivWitness d)) (Ioi x)).toReal :=
  @chi_sf_eq_tail_rel sfDerivWitness gammaSpec_true gammaDensitySpec_witness gammaLrDerivSpec_witness
    gammaLrLimitSpec_witness d h0 hne x hx

theorem fisher_snedecor_sf_eq_tail_true (d : FisherSnedecor ℝ) (h1 : 0 < d.f_freedom_1)
    (h2 : 0 < d.f_freedom_2) (x : ℝ) :
    @FisherSnedecor.sf ℝ _ _ _ _ _ _ _ _ _ _ _ _ _ sfDerivWitness d x
      = ((densityMeasure (@FisherSnedecor.pdf ℝ _ _ _ _ _ _ _ _ _ _ _ _ _ sfDerivWitness d))
          (Ioi x)).toReal :=
  @fisher_snedecor_sf_eq_tail_rel sfDerivWitness betaSpec_true betaRegDerivSpec_witness
    betaFnSpec_witness d h1 h2 x

theorem students_t_sf_eq_tail_true (d : StudentsT ℝ) (hσ : 0 < d.f_scale) (hν : 0 < d.f_freedom)
    (x : ℝ) :
    @StudentsT.sf ℝ _ _ _ _ _ _ _ _ _ _ _ _ _ sfDerivWitness d x
      = ((densityMeasure (studentDensity d.f_location d.f_scale d.f_freedom)) (Ioi x)).toReal :=
  @students_t_sf_eq_tail_rel sfDerivWitness betaRegDerivSpec_witness d hσ hν x

theorem students_t_sf_eq_tail_pdf_true (d : StudentsT ℝ) (hσ : 0 < d.f_scale) (hν : 0 < d.f_freedom)
    (hν8 : d.f_freedom < 1e8) (x : ℝ) :
    @StudentsT.sf ℝ _ _ _ _ _ _ _ _ _ _ _ _ _ sfDerivWitness d x
      = ((densityMeasure (@StudentsT.pdf ℝ _ _ _ _ _ _ _ _ _ _ _ _ _ sfDerivWitness d))
          (Ioi x)).toReal :=
  @students_t_sf_eq_tail_pdf_rel sfDerivWitness gammaDensitySpec_witness betaRegDerivSpec_witness
    d hσ hν hν8 x

/-! non-vacuity of the parameter hypotheses -/
example : ∃ d : Gen.Normal ℝ, 0 < d.f_std_dev := ⟨⟨0, 1⟩, by norm_num⟩
example : ∃ d : Gen.Gamma ℝ, 0 < d.f_shape ∧ 0 < d.f_rate := ⟨⟨3, 1⟩, by norm_num, by norm_num⟩
example : ∃ d : Erlang ℝ, 0 < d.f_g.f_shape ∧ 0 < d.f_g.f_rate := ⟨⟨⟨3, 2⟩⟩, by norm_num, by norm_num⟩
example : ∃ d : ChiSquared ℝ, 0 < d.f_g.f_shape ∧ 0 < d.f_g.f_rate :=
  ⟨⟨3, ⟨3 / 2, 1 / 2⟩⟩, by norm_num, by norm_num⟩
example : ∃ d : Gen.Beta ℝ, 0 < d.f_shape_a ∧ 0 < d.f_shape_b := ⟨⟨2, 3⟩, by norm_num, by norm_num⟩
example : ∃ d : LogNormal ℝ, 0 < d.f_scale := ⟨⟨0, 1⟩, by norm_num⟩
example : ∃ d : InverseGamma ℝ, 0 < d.f_shape ∧ 0 < d.f_rate := ⟨⟨3, 1⟩, by norm_num, by norm_num⟩
example : ∃ d : Chi, 0 ≤ d.f_freedom ∧ d.f_freedom ≠ 0 := ⟨⟨2⟩, by decide, by decide⟩
example : ∃ d : FisherSnedecor ℝ, 0 < d.f_freedom_1 ∧ 0 < d.f_freedom_2 :=
  ⟨⟨3, 5⟩, by norm_num, by norm_num⟩
example : ∃ d : StudentsT ℝ, 0 < d.f_scale ∧ 0 < d.f_freedom ∧ d.f_freedom < 1e8 :=
  ⟨⟨0, 1, 3⟩, by norm_num, by norm_num, by norm_num⟩

end Statrs.Props.C02
