/-
  C02 — the premise structures of the C02 `…_rel` theorems (`Spec.Incomplete.GammaSpec`,
  `Spec.Incomplete.BetaSpec`, `Spec.Erfc.ErfcSpec`: range, monotonicity, `Q = 1 − P`,
  `I_{1−x}(b,a) = 1 − I_x(a,b)`, `erfc(−z) = 2 − erfc z`) hold for the TRUE special functions
  `C03.Witness.sfDerivWitness` (erf, P, Q, I_x defined through Mathlib integrals).  So the C02
  theorems of `Props/C02/Special.lean`, `Props/C02/ClosedErfc.lean` can be instantiated
  unconditionally (`Props/C02/MeasureSf.lean`: `…_true`), jointly with the calculus premises of
  C01/C03 that the same instance satisfies.
-/
import Statrs.Props.C03.SFDerivWitness
import Statrs.Props.C01.MeasureCdfB
import Statrs.Spec.SFSpec_incomplete
import Statrs.Spec.SFSpec_erfc
set_option linter.unusedVariables false
namespace Statrs.Props.C02
open Statrs Statrs.Gen Statrs.Props.C03.Witness Statrs.Spec.Incomplete Statrs.Spec.Erfc
open MeasureTheory Set Filter Topology

/-! ### `P(a,·)` -/

theorem gammaLrR_mono {a x y : ℝ} (ha : 0 < a) (hx : 0 ≤ x) (hxy : x ≤ y) :
    gammaLrR a x ≤ gammaLrR a y := by
  unfold gammaLrR
  have hG := Real.Gamma_pos_of_pos ha
  apply div_le_div_of_nonneg_right _ hG.le
  have hsub := intervalIntegral.integral_interval_sub_left
    (gamma_integrand_intervalIntegrable ha (hx.trans hxy)) (gamma_integrand_intervalIntegrable ha hx)
  have hnn : 0 ≤ ∫ t in x..y, Real.exp (-t) * t ^ (a - 1) :=
    intervalIntegral.integral_nonneg hxy (fun u hu =>
      mul_nonneg (Real.exp_pos _).le (Real.rpow_nonneg (hx.trans hu.1) _))
  linarith

theorem gammaLrR_nonneg {a x : ℝ} (ha : 0 < a) (hx : 0 ≤ x) : 0 ≤ gammaLrR a x := by
  have := gammaLrR_mono ha le_rfl hx
  rwa [gammaLrR_zero] at this

theorem gammaLrR_le_one {a x : ℝ} (ha : 0 < a) (hx : 0 ≤ x) : gammaLrR a x ≤ 1 := by
  refine ge_of_tendsto (gammaLrR_tendsto_atTop ha) ?_
  filter_upwards [eventually_ge_atTop x] with y hy
  exact gammaLrR_mono ha hx hy

/-- the true `P`, `Q` satisfy `GammaSpec` -/
theorem gammaSpec_true : @GammaSpec sfDerivWitness :=
  @GammaSpec.mk sfDerivWitness (fun a x ha hx => gammaLrR_nonneg ha hx.le)
    (fun a x ha hx => gammaLrR_le_one ha hx.le) (fun a x y ha hx hxy => gammaLrR_mono ha hx.le hxy)
    (fun _ _ _ _ => rfl)

/-! ### `I_·(a,b)` -/

theorem betaRegR_mono {a b x y : ℝ} (ha : 0 < a) (hb : 0 < b) (hx : 0 ≤ x) (hxy : x ≤ y)
    (hy : y ≤ 1) : betaRegR a b x ≤ betaRegR a b y := by
  unfold betaRegR
  have hC : 0 < Real.Gamma (a + b) / (Real.Gamma a * Real.Gamma b) :=
    div_pos (Real.Gamma_pos_of_pos (add_pos ha hb))
      (mul_pos (Real.Gamma_pos_of_pos ha) (Real.Gamma_pos_of_pos hb))
  apply mul_le_mul_of_nonneg_right _ hC.le
  have hsub := intervalIntegral.integral_interval_sub_left
    (beta_integrand_intervalIntegrable ha hb (hx.trans hxy) hy)
    (beta_integrand_intervalIntegrable ha hb hx (hxy.trans hy))
  have hnn : 0 ≤ ∫ t in x..y, t ^ (a - 1) * (1 - t) ^ (b - 1) :=
    intervalIntegral.integral_nonneg hxy (fun u hu =>
      mul_nonneg (Real.rpow_nonneg (hx.trans hu.1) _)
        (Real.rpow_nonneg (by linarith [hu.2]) _))
  linarith

/-- reflection `I_{1−x}(b,a) = 1 − I_x(a,b)` on `(0,1)`: same derivative, same limit at `0+` -/
theorem betaRegR_symm_Ioo {a b x : ℝ} (ha : 0 < a) (hb : 0 < b) (hx0 : 0 < x) (hx1 : x < 1) :
    betaRegR b a (1 - x) = 1 - betaRegR a b x := by
  refine eq_of_hasDerivAt_eq_of_tendsto (l := 0) (u := 1)
    (F := fun y => betaRegR b a (1 - y)) (G := fun y => 1 - betaRegR a b y)
    (f := fun y => -(y ^ (a - 1) * (1 - y) ^ (b - 1)
      * (Real.Gamma (a + b) / (Real.Gamma a * Real.Gamma b)))) ?_ ?_ ?_ x ⟨hx0, hx1⟩
  · intro y hy
    have h := betaRegR_hasDerivAt hb ha (x := 1 - y) (by linarith [hy.2]) (by linarith [hy.1])
    have h2 := h.comp y ((hasDerivAt_id y).const_sub 1)
    refine h2.congr_deriv ?_
    rw [sub_sub_cancel, add_comm b a, mul_comm (Real.Gamma b) (Real.Gamma a)]
    ring
  · intro y hy
    exact (betaRegR_hasDerivAt ha hb hy.1 hy.2).const_sub 1
  · have h1 : Tendsto (fun y : ℝ => betaRegR b a (1 - y)) (𝓝[>] 0) (𝓝 1) := by
      have hc := (betaRegR_continuousOn hb ha) 1 ⟨zero_le_one, le_rfl⟩
      have ht : Tendsto (fun y : ℝ => 1 - y) (𝓝[>] 0) (𝓝[Icc 0 1] 1) := by
        apply tendsto_nhdsWithin_of_tendsto_nhds_of_eventually_within
        · have : Tendsto (fun y : ℝ => 1 - y) (𝓝 0) (𝓝 (1 - 0)) :=
            (continuous_const.sub continuous_id).tendsto 0
          rw [sub_zero] at this
          exact this.mono_left nhdsWithin_le_nhds
        · filter_upwards [Ioo_mem_nhdsGT one_pos] with y hy
          exact ⟨by linarith [hy.2], by linarith [hy.1]⟩
      have := hc.tendsto.comp ht
      rwa [betaRegR_one hb ha] at this
    have h2 := (betaRegR_tendsto_zero ha hb).const_sub 1
    have := h1.sub h2
    simpa using this

theorem betaRegR_symm {a b x : ℝ} (ha : 0 < a) (hb : 0 < b) (hx0 : 0 ≤ x) (hx1 : x ≤ 1) :
    betaRegR b a (1 - x) = 1 - betaRegR a b x := by
  rcases hx0.lt_or_eq with h0 | h0
  · rcases hx1.lt_or_eq with h1 | h1
    · exact betaRegR_symm_Ioo ha hb h0 h1
    · rw [h1, sub_self, betaRegR_zero, betaRegR_one ha hb, sub_self]
  · rw [← h0, sub_zero, betaRegR_one hb ha, betaRegR_zero, sub_zero]

/-- the true `I_x(a,b)` satisfies `BetaSpec` -/
theorem betaSpec_true : @BetaSpec sfDerivWitness :=
  @BetaSpec.mk sfDerivWitness
    (fun a b x ha hb h0 h1 => by
      have := betaRegR_mono ha hb le_rfl h0 h1
      rwa [betaRegR_zero] at this)
    (fun a b x ha hb h0 h1 => by
      have := betaRegR_mono ha hb h0 h1 le_rfl
      rwa [betaRegR_one ha hb] at this)
    (fun a b x y ha hb h0 hxy h1 => betaRegR_mono ha hb h0 hxy h1)
    (fun a b _ _ => betaRegR_zero a b) (fun a b ha hb => betaRegR_one ha hb)
    (fun a b x ha hb h0 h1 => betaRegR_symm ha hb h0 h1)

/-! ### `erfc` -/

theorem erfR_mono {x y : ℝ} (hxy : x ≤ y) : erfR x ≤ erfR y := by
  unfold erfR
  have hc : Continuous fun t : ℝ => Real.exp (-(t * t)) := by fun_prop
  have hsub := intervalIntegral.integral_interval_sub_left
    (hc.intervalIntegrable (μ := volume) 0 y) (hc.intervalIntegrable (μ := volume) 0 x)
  have hnn : 0 ≤ ∫ t in x..y, Real.exp (-(t * t)) :=
    intervalIntegral.integral_nonneg hxy (fun u _ => (Real.exp_pos _).le)
  have hpos : 0 < 2 / Real.sqrt Real.pi := by positivity
  nlinarith

theorem erfcR_nonneg (x : ℝ) : 0 ≤ 1 - erfR x := by
  refine le_of_tendsto erfcR_tendsto ?_
  filter_upwards [eventually_ge_atTop x] with y hy
  have := erfR_mono hy
  linarith

/-- the true `erfc` satisfies `ErfcSpec` -/
theorem erfcSpec_true : @ErfcSpec sfDerivWitness :=
  @ErfcSpec.mk sfDerivWitness
    (fun a b hab => by
      show 1 - erfR b ≤ 1 - erfR a
      have := erfR_mono hab; linarith)
    (fun z => erfcR_nonneg z)
    (fun z => by
      show 1 - erfR z ≤ 2
      have := erfcR_nonneg (-z)
      rw [Statrs.Props.C01.erfR_neg] at this
      linarith)
    (fun z => by
      show 1 - erfR (-z) = 2 - (1 - erfR z)
      rw [Statrs.Props.C01.erfR_neg]; ring)

/-- the C02 premise structures and the calculus premises of C01/C03 hold simultaneously for the
    true special functions -/
theorem sf_specs_consistent : ∃ inst : SF ℝ, @GammaSpec inst ∧ @BetaSpec inst ∧ @ErfcSpec inst :=
  ⟨sfDerivWitness, gammaSpec_true, betaSpec_true, erfcSpec_true⟩

end Statrs.Props.C02
