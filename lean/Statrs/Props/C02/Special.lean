/-
  C02 — "sf(x) lies in [0,1], never increases with x, and cdf(x)+sf(x)=1; an overridden sf must
  describe the same distribution as cdf" — for the families whose cdf/sf call the regularised
  incomplete gamma / beta functions:
    Gamma, ChiSquared, Erlang, Chi, InverseGamma      (SF.gamma_lr / SF.gamma_ur)
    Beta, StudentsT, FisherSnedecor, Binomial, NegativeBinomial   (SF.beta_reg)
    Poisson                                            (SF.gamma_ur / SF.gamma_lr)

  Carrier ℝ, special functions abstract.  Theorems named `…_rel` are relative to the premise
  structures of `Statrs.Spec.Incomplete` (first explicit arguments); theorems without `_rel` use no
  premise.  Every family overrides `sf`; the complement identity is what shows that the override's
  special-function call mirrors the cdf's (k vs k+1, p vs 1-p, (a,b) vs (b,a), x·rate vs rate/x).

  Hypotheses are those enforced by the constructor, read off the generated `X.new`, on struct
  fields.  Discrete arguments are `k : ℤ` with `0 ≤ k` (Rust `u64`).
-/
import Statrs.Lemmas.SpecialCdf
import Statrs.Gen.D_chi_squared
import Statrs.Gen.D_erlang
namespace Statrs.Props.C02
open Statrs Statrs.Gen Statrs.Spec.Incomplete Statrs.Lemmas.SpecialCdf

section RealCarrier
variable [SF ℝ]

/-! ## Gamma (shape > 0, rate > 0): cdf = P(shape, x·rate), sf = Q(shape, x·rate) -/

/-- Gamma: cdf + sf = 1 at every x -/
theorem gamma_cdf_add_sf_rel (S : GammaSpec) (d : Gamma ℝ) (hs : 0 < d.f_shape) (hr : 0 < d.f_rate)
    (x : ℝ) : Gamma.cdf d x + Gamma.sf d x = 1 := by
  rw [gamma_cdf_real _ _ hr.ne', gamma_sf_real _ _ hr.ne']
  split_ifs with h0
  · norm_num
  · rw [S.ur_eq _ _ hs (mul_pos (not_le.mp h0) hr)]; ring

/-- Gamma: 0 ≤ sf ≤ 1 -/
theorem gamma_sf_range_rel (S : GammaSpec) (d : Gamma ℝ) (hs : 0 < d.f_shape) (hr : 0 < d.f_rate)
    (x : ℝ) : 0 ≤ Gamma.sf d x ∧ Gamma.sf d x ≤ 1 := by
  rw [gamma_sf_real _ _ hr.ne']
  split_ifs with h0
  · norm_num
  · have hx := mul_pos (not_le.mp h0) hr
    rw [S.ur_eq _ _ hs hx]
    have := S.lr_nonneg _ _ hs hx; have := S.lr_le_one _ _ hs hx
    constructor <;> linarith

/-- Gamma: sf never increases -/
theorem gamma_sf_antitone_rel (S : GammaSpec) (d : Gamma ℝ) (hs : 0 < d.f_shape)
    (hr : 0 < d.f_rate) (x y : ℝ) (hxy : x ≤ y) : Gamma.sf d y ≤ Gamma.sf d x := by
  rw [gamma_sf_real _ _ hr.ne', gamma_sf_real _ _ hr.ne']
  split_ifs with hy hx hx
  · exact le_rfl
  · exact absurd (hxy.trans hy) hx
  · have hy' := mul_pos (not_le.mp hy) hr
    rw [S.ur_eq _ _ hs hy']; have := S.lr_nonneg _ _ hs hy'; linarith
  · have hx' := mul_pos (not_le.mp hx) hr
    have hy' := mul_pos (not_le.mp hy) hr
    rw [S.ur_eq _ _ hs hx', S.ur_eq _ _ hs hy']
    have := S.lr_mono _ _ _ hs hx' (mul_le_mul_of_nonneg_right hxy hr.le)
    linarith

example : ∃ d : Gamma ℝ, 0 < d.f_shape ∧ 0 < d.f_rate := ⟨⟨3, 1⟩, by norm_num, by norm_num⟩

/-! ## ChiSquared (f_g = Gamma(freedom/2, 0.5)) and Erlang (f_g = Gamma(k, rate)): corollaries -/

/-- ChiSquared: cdf + sf = 1 -/
theorem chi_squared_cdf_add_sf_rel (S : GammaSpec) (d : ChiSquared ℝ) (hs : 0 < d.f_g.f_shape)
    (hr : 0 < d.f_g.f_rate) (x : ℝ) : ChiSquared.cdf d x + ChiSquared.sf d x = 1 :=
  gamma_cdf_add_sf_rel S d.f_g hs hr x

/-- ChiSquared: 0 ≤ sf ≤ 1 -/
theorem chi_squared_sf_range_rel (S : GammaSpec) (d : ChiSquared ℝ) (hs : 0 < d.f_g.f_shape)
    (hr : 0 < d.f_g.f_rate) (x : ℝ) : 0 ≤ ChiSquared.sf d x ∧ ChiSquared.sf d x ≤ 1 :=
  gamma_sf_range_rel S d.f_g hs hr x

/-- ChiSquared: sf never increases -/
theorem chi_squared_sf_antitone_rel (S : GammaSpec) (d : ChiSquared ℝ) (hs : 0 < d.f_g.f_shape)
    (hr : 0 < d.f_g.f_rate) (x y : ℝ) (hxy : x ≤ y) : ChiSquared.sf d y ≤ ChiSquared.sf d x :=
  gamma_sf_antitone_rel S d.f_g hs hr x y hxy

/-- what `ChiSquared::new(freedom)` builds when it succeeds satisfies the hypotheses -/
example (freedom : ℝ) (h : 0 < freedom) :
    let d : ChiSquared ℝ := ⟨freedom, ⟨freedom / 2.0, 0.5⟩⟩
    0 < d.f_g.f_shape ∧ 0 < d.f_g.f_rate := by
  exact ⟨by norm_num; exact h, by norm_num⟩

/-- Erlang: cdf + sf = 1 -/
theorem erlang_cdf_add_sf_rel (S : GammaSpec) (d : Erlang ℝ) (hs : 0 < d.f_g.f_shape)
    (hr : 0 < d.f_g.f_rate) (x : ℝ) : Erlang.cdf d x + Erlang.sf d x = 1 :=
  gamma_cdf_add_sf_rel S d.f_g hs hr x

/-- Erlang: 0 ≤ sf ≤ 1 -/
theorem erlang_sf_range_rel (S : GammaSpec) (d : Erlang ℝ) (hs : 0 < d.f_g.f_shape)
    (hr : 0 < d.f_g.f_rate) (x : ℝ) : 0 ≤ Erlang.sf d x ∧ Erlang.sf d x ≤ 1 :=
  gamma_sf_range_rel S d.f_g hs hr x

/-- Erlang: sf never increases -/
theorem erlang_sf_antitone_rel (S : GammaSpec) (d : Erlang ℝ) (hs : 0 < d.f_g.f_shape)
    (hr : 0 < d.f_g.f_rate) (x y : ℝ) (hxy : x ≤ y) : Erlang.sf d y ≤ Erlang.sf d x :=
  gamma_sf_antitone_rel S d.f_g hs hr x y hxy

example : ∃ d : Erlang ℝ, 0 < d.f_g.f_shape ∧ 0 < d.f_g.f_rate :=
  ⟨⟨⟨RFun.ofInt 3, 2⟩⟩, by norm_num [rfun_ofInt], by norm_num⟩

/-! ## Chi (freedom : u64, nonzero): cdf = P(k/2, x²/2), sf = Q(k/2, x²/2)

  The code's first test is `x == f64::INFINITY`.  Over ℝ the constant `RFun.inf` is a junk value,
  so the order statement carries the guard `≠ RFun.inf` ("x is finite"); the complement identity
  and the range hold on both sides of that test and need no guard. -/

/-- Chi: cdf + sf = 1 at every x -/
theorem chi_cdf_add_sf_rel (S : GammaSpec) (d : Chi) (h0 : 0 ≤ d.f_freedom) (hne : d.f_freedom ≠ 0)
    (x : ℝ) : Chi.cdf (α := ℝ) d x + Chi.sf d x = 1 := by
  have hk : (0 : ℝ) < (d.f_freedom : ℝ) / 2 := by
    have : (0 : ℝ) < (d.f_freedom : ℝ) := by exact_mod_cast lt_of_le_of_ne h0 (Ne.symm hne)
    positivity
  rw [chi_cdf_real, chi_sf_real]
  split_ifs with hi hx
  · norm_num
  · norm_num
  · have hx' : 0 < x * x / 2 := by have := not_le.mp hx; positivity
    rw [S.ur_eq _ _ hk hx']; ring

/-- Chi: 0 ≤ sf ≤ 1 -/
theorem chi_sf_range_rel (S : GammaSpec) (d : Chi) (h0 : 0 ≤ d.f_freedom) (hne : d.f_freedom ≠ 0)
    (x : ℝ) : 0 ≤ Chi.sf (α := ℝ) d x ∧ Chi.sf (α := ℝ) d x ≤ 1 := by
  have hk : (0 : ℝ) < (d.f_freedom : ℝ) / 2 := by
    have : (0 : ℝ) < (d.f_freedom : ℝ) := by exact_mod_cast lt_of_le_of_ne h0 (Ne.symm hne)
    positivity
  rw [chi_sf_real]
  split_ifs with hi hx
  · norm_num
  · norm_num
  · have hx' : 0 < x * x / 2 := by have := not_le.mp hx; positivity
    rw [S.ur_eq _ _ hk hx']
    have := S.lr_nonneg _ _ hk hx'; have := S.lr_le_one _ _ hk hx'
    constructor <;> linarith

/-- Chi: sf never increases (finite arguments) -/
theorem chi_sf_antitone_rel (S : GammaSpec) (d : Chi) (h0 : 0 ≤ d.f_freedom) (hne : d.f_freedom ≠ 0)
    (x y : ℝ) (hxi : x ≠ (RFun.inf : ℝ)) (hyi : y ≠ (RFun.inf : ℝ)) (hxy : x ≤ y) :
    Chi.sf (α := ℝ) d y ≤ Chi.sf (α := ℝ) d x := by
  have hk : (0 : ℝ) < (d.f_freedom : ℝ) / 2 := by
    have : (0 : ℝ) < (d.f_freedom : ℝ) := by exact_mod_cast lt_of_le_of_ne h0 (Ne.symm hne)
    positivity
  rw [chi_sf_real, chi_sf_real, if_neg hxi, if_neg hyi]
  split_ifs with hy hx hx
  · exact le_rfl
  · exact absurd (hxy.trans hy) hx
  · have hy' : 0 < y * y / 2 := by have := not_le.mp hy; positivity
    rw [S.ur_eq _ _ hk hy']; have := S.lr_nonneg _ _ hk hy'; linarith
  · have hx0 := not_le.mp hx
    have hx' : 0 < x * x / 2 := by positivity
    have hy' : 0 < y * y / 2 := by have := not_le.mp hy; positivity
    rw [S.ur_eq _ _ hk hx', S.ur_eq _ _ hk hy']
    have : x * x / 2 ≤ y * y / 2 := by nlinarith
    have := S.lr_mono _ _ _ hk hx' this
    linarith

example : ∃ d : Chi, 0 ≤ d.f_freedom ∧ d.f_freedom ≠ 0 := ⟨⟨2⟩, by decide, by decide⟩

/-! ## InverseGamma (shape > 0, rate > 0): cdf = Q(shape, rate/x), sf = P(shape, rate/x) -/

/-- InverseGamma: cdf + sf = 1 -/
theorem inverse_gamma_cdf_add_sf_rel (S : GammaSpec) (d : InverseGamma ℝ) (hs : 0 < d.f_shape)
    (hr : 0 < d.f_rate) (x : ℝ) : InverseGamma.cdf d x + InverseGamma.sf d x = 1 := by
  rw [inverse_gamma_cdf_real, inverse_gamma_sf_real]
  split_ifs with h0
  · norm_num
  · rw [S.ur_eq _ _ hs (div_pos hr (not_le.mp h0))]; ring

/-- InverseGamma: 0 ≤ sf ≤ 1 -/
theorem inverse_gamma_sf_range_rel (S : GammaSpec) (d : InverseGamma ℝ) (hs : 0 < d.f_shape)
    (hr : 0 < d.f_rate) (x : ℝ) : 0 ≤ InverseGamma.sf d x ∧ InverseGamma.sf d x ≤ 1 := by
  rw [inverse_gamma_sf_real]
  split_ifs with h0
  · norm_num
  · have hx := div_pos hr (not_le.mp h0)
    exact ⟨S.lr_nonneg _ _ hs hx, S.lr_le_one _ _ hs hx⟩

/-- InverseGamma: sf never increases -/
theorem inverse_gamma_sf_antitone_rel (S : GammaSpec) (d : InverseGamma ℝ) (hs : 0 < d.f_shape)
    (hr : 0 < d.f_rate) (x y : ℝ) (hxy : x ≤ y) : InverseGamma.sf d y ≤ InverseGamma.sf d x := by
  rw [inverse_gamma_sf_real, inverse_gamma_sf_real]
  split_ifs with hy hx hx
  · exact le_rfl
  · exact absurd (hxy.trans hy) hx
  · exact S.lr_le_one _ _ hs (div_pos hr (not_le.mp hy))
  · have hx0 := not_le.mp hx
    have hy0 := not_le.mp hy
    exact S.lr_mono _ _ _ hs (div_pos hr hy0) (div_le_div_of_nonneg_left hr.le hx0 hxy)

example : ∃ d : InverseGamma ℝ, 0 < d.f_shape ∧ 0 < d.f_rate := ⟨⟨3, 1⟩, by norm_num, by norm_num⟩

/-! ## Beta (a > 0, b > 0): cdf = I_x(a,b), sf = I_{1−x}(b,a) on [0,1); a = b = 1 short-cut x / 1−x -/

/-- Beta: cdf + sf = 1 -/
theorem beta_cdf_add_sf_rel (B : BetaSpec) (d : Beta ℝ) (ha : 0 < d.f_shape_a)
    (hb : 0 < d.f_shape_b) (x : ℝ) : Beta.cdf d x + Beta.sf d x = 1 := by
  rw [beta_cdf_real, beta_sf_real]
  split_ifs with h0 h1 h11
  · norm_num
  · norm_num
  · ring
  · rw [B.symm _ _ _ ha hb (not_lt.mp h0) (not_le.mp h1).le]; ring

/-- Beta: 0 ≤ sf ≤ 1 -/
theorem beta_sf_range_rel (B : BetaSpec) (d : Beta ℝ) (ha : 0 < d.f_shape_a)
    (hb : 0 < d.f_shape_b) (x : ℝ) : 0 ≤ Beta.sf d x ∧ Beta.sf d x ≤ 1 := by
  rw [beta_sf_real]
  split_ifs with h0 h1 h11
  · norm_num
  · norm_num
  · have := not_lt.mp h0; have := not_le.mp h1; constructor <;> linarith
  · have h0' := not_lt.mp h0; have h1' := not_le.mp h1
    exact ⟨B.nonneg _ _ _ hb ha (by linarith) (by linarith),
           B.le_one _ _ _ hb ha (by linarith) (by linarith)⟩

/-- Beta: sf never increases -/
theorem beta_sf_antitone_rel (B : BetaSpec) (d : Beta ℝ) (ha : 0 < d.f_shape_a)
    (hb : 0 < d.f_shape_b) (x y : ℝ) (hxy : x ≤ y) : Beta.sf d y ≤ Beta.sf d x := by
  by_cases hx0 : x < 0
  · rw [beta_sf_real d x, if_pos hx0]; exact (beta_sf_range_rel B d ha hb y).2
  by_cases hy1 : 1 ≤ y
  · rw [beta_sf_real d y, if_neg (by linarith), if_pos hy1]; exact (beta_sf_range_rel B d ha hb x).1
  have hx0' := not_lt.mp hx0
  have hy1' := not_le.mp hy1
  rw [beta_sf_real, beta_sf_real, if_neg hx0, if_neg (by linarith : ¬ y < 0), if_neg hy1,
    if_neg (by linarith : ¬ 1 ≤ x)]
  split_ifs with h11
  · linarith
  · exact B.mono _ _ _ _ hb ha (by linarith) (by linarith) (by linarith)

example : ∃ d : Beta ℝ, 0 < d.f_shape_a ∧ 0 < d.f_shape_b := ⟨⟨2, 3⟩, by norm_num, by norm_num⟩

/-! ## StudentsT (scale > 0, freedom > 0): ib = ½·I_h(ν/2, ½), h = ν/(ν+k²); cdf/sf swap ib ↔ 1−ib -/

/-- StudentsT: cdf + sf = 1 (needs no premise: both sides use the same `ib`) -/
theorem students_t_cdf_add_sf (d : StudentsT ℝ) (x : ℝ) : StudentsT.cdf d x + StudentsT.sf d x = 1 := by
  rw [students_t_cdf_real, students_t_sf_real]
  split_ifs <;> ring

/-- StudentsT: 0 ≤ sf ≤ 1 -/
theorem students_t_sf_range_rel (B : BetaSpec) (d : StudentsT ℝ) (hν : 0 < d.f_freedom) (x : ℝ) :
    0 ≤ StudentsT.sf d x ∧ StudentsT.sf d x ≤ 1 := by
  have h1 := B.nonneg (d.f_freedom / 2) 0.5 (tArg d x) (by positivity) (by norm_num)
    (tArg_pos d hν x).le (tArg_le_one d hν x)
  have h2 := B.le_one (d.f_freedom / 2) 0.5 (tArg d x) (by positivity) (by norm_num)
    (tArg_pos d hν x).le (tArg_le_one d hν x)
  rw [students_t_sf_real]
  split_ifs <;> constructor <;> linarith

/-- StudentsT: sf never increases -/
theorem students_t_sf_antitone_rel (B : BetaSpec) (d : StudentsT ℝ) (hσ : 0 < d.f_scale)
    (hν : 0 < d.f_freedom) (x y : ℝ) (hxy : x ≤ y) : StudentsT.sf d y ≤ StudentsT.sf d x := by
  have hν2 : 0 < d.f_freedom / 2 := by positivity
  have hb : (0 : ℝ) < 0.5 := by norm_num
  have rng : ∀ z, 0 ≤ SF.beta_reg (d.f_freedom / 2) 0.5 (tArg d z) ∧
      SF.beta_reg (d.f_freedom / 2) 0.5 (tArg d z) ≤ 1 := fun z =>
    ⟨B.nonneg _ _ _ hν2 hb (tArg_pos d hν z).le (tArg_le_one d hν z),
     B.le_one _ _ _ hν2 hb (tArg_pos d hν z).le (tArg_le_one d hν z)⟩
  rw [students_t_sf_real, students_t_sf_real]
  split_ifs with hy hx hx
  · -- x ≤ y ≤ μ : |k| shrinks, h grows
    have hk : (x - d.f_location) / d.f_scale ≤ (y - d.f_location) / d.f_scale :=
      div_le_div_of_nonneg_right (by linarith) hσ.le
    have hk0 : (y - d.f_location) / d.f_scale ≤ 0 :=
      div_nonpos_of_nonpos_of_nonneg (by linarith) hσ.le
    have := B.mono _ _ _ _ hν2 hb (tArg_pos d hν x).le
      (tArg_le_of_sq_le d hν (x := x) (y := y) (by nlinarith)) (tArg_le_one d hν y)
    linarith
  · exact absurd (hxy.trans hy) hx
  · have := rng x; have := rng y; linarith
  · -- μ < x ≤ y : |k| grows, h shrinks
    have hk : (x - d.f_location) / d.f_scale ≤ (y - d.f_location) / d.f_scale :=
      div_le_div_of_nonneg_right (by linarith) hσ.le
    have hk0 : 0 ≤ (x - d.f_location) / d.f_scale :=
      div_nonneg (by linarith [not_le.mp hx]) hσ.le
    have := B.mono _ _ _ _ hν2 hb (tArg_pos d hν y).le
      (tArg_le_of_sq_le d hν (x := y) (y := x) (by nlinarith)) (tArg_le_one d hν x)
    linarith

example : ∃ d : StudentsT ℝ, 0 < d.f_scale ∧ 0 < d.f_freedom :=
  ⟨⟨0, 1, 3⟩, by norm_num, by norm_num⟩

/-! ## FisherSnedecor (d₁ > 0, d₂ > 0): cdf = I_t(d₁/2, d₂/2), sf = I_{1−t}(d₂/2, d₁/2), t = d₁x/(d₁x+d₂) -/

/-- FisherSnedecor: cdf + sf = 1 -/
theorem fisher_snedecor_cdf_add_sf_rel (B : BetaSpec) (d : FisherSnedecor ℝ)
    (h1 : 0 < d.f_freedom_1) (h2 : 0 < d.f_freedom_2) (x : ℝ) :
    FisherSnedecor.cdf d x + FisherSnedecor.sf d x = 1 := by
  rw [fisher_snedecor_cdf_real, fisher_snedecor_sf_real]
  split_ifs with h0
  · norm_num
  · have hx := not_lt.mp h0
    rw [B.symm _ _ _ (by positivity) (by positivity) (fArg_nonneg d h1 h2 hx) (fArg_le_one d h1 h2 hx)]
    ring

/-- FisherSnedecor: 0 ≤ sf ≤ 1 -/
theorem fisher_snedecor_sf_range_rel (B : BetaSpec) (d : FisherSnedecor ℝ)
    (h1 : 0 < d.f_freedom_1) (h2 : 0 < d.f_freedom_2) (x : ℝ) :
    0 ≤ FisherSnedecor.sf d x ∧ FisherSnedecor.sf d x ≤ 1 := by
  rw [fisher_snedecor_sf_real]
  split_ifs with h0
  · norm_num
  · have hx := not_lt.mp h0
    have := fArg_nonneg d h1 h2 hx; have := fArg_le_one d h1 h2 hx
    exact ⟨B.nonneg _ _ _ (by positivity) (by positivity) (by linarith) (by linarith),
           B.le_one _ _ _ (by positivity) (by positivity) (by linarith) (by linarith)⟩

/-- FisherSnedecor: sf never increases -/
theorem fisher_snedecor_sf_antitone_rel (B : BetaSpec) (d : FisherSnedecor ℝ)
    (h1 : 0 < d.f_freedom_1) (h2 : 0 < d.f_freedom_2) (x y : ℝ) (hxy : x ≤ y) :
    FisherSnedecor.sf d y ≤ FisherSnedecor.sf d x := by
  by_cases hx0 : x < 0
  · rw [fisher_snedecor_sf_real d x, if_pos hx0]; exact (fisher_snedecor_sf_range_rel B d h1 h2 y).2
  have hx := not_lt.mp hx0
  rw [fisher_snedecor_sf_real, fisher_snedecor_sf_real, if_neg hx0, if_neg (by linarith : ¬ y < 0)]
  have := fArg_mono d h1 h2 hx hxy
  have := fArg_le_one d h1 h2 (hx.trans hxy)
  have := fArg_nonneg d h1 h2 hx
  exact B.mono _ _ _ _ (by positivity) (by positivity) (by linarith) (by linarith) (by linarith)

example : ∃ d : FisherSnedecor ℝ, 0 < d.f_freedom_1 ∧ 0 < d.f_freedom_2 :=
  ⟨⟨3, 5⟩, by norm_num, by norm_num⟩

/-! ## Binomial (0 ≤ p ≤ 1, n : u64): cdf k = I_{1−p}(n−k, k+1), sf k = I_p(k+1, n−k) for k < n -/

/-- Binomial: cdf + sf = 1 at every k : u64 -/
theorem binomial_cdf_add_sf_rel (B : BetaSpec) (d : Binomial ℝ) (hp0 : 0 ≤ d.f_p) (hp1 : d.f_p ≤ 1)
    (k : ℤ) (hk : 0 ≤ k) : Binomial.cdf d k + Binomial.sf d k = 1 := by
  rw [binomial_cdf_real, binomial_sf_real]
  split_ifs with hn
  · norm_num
  · have ha : (0 : ℝ) < ((d.f_n - k : ℤ) : ℝ) := by exact_mod_cast (by omega : 0 < d.f_n - k)
    have hb : (0 : ℝ) < (k : ℝ) + 1 := by exact_mod_cast (by omega : 0 < k + 1)
    have := B.symm _ _ (1 - d.f_p) ha hb (by linarith) (by linarith)
    rw [sub_sub_cancel] at this
    rw [this]; ring

/-- Binomial: 0 ≤ sf ≤ 1 -/
theorem binomial_sf_range_rel (B : BetaSpec) (d : Binomial ℝ) (hp0 : 0 ≤ d.f_p) (hp1 : d.f_p ≤ 1)
    (k : ℤ) (hk : 0 ≤ k) : 0 ≤ Binomial.sf d k ∧ Binomial.sf d k ≤ 1 := by
  rw [binomial_sf_real]
  split_ifs with hn
  · norm_num
  · have ha : (0 : ℝ) < ((d.f_n - k : ℤ) : ℝ) := by exact_mod_cast (by omega : 0 < d.f_n - k)
    have hb : (0 : ℝ) < (k : ℝ) + 1 := by exact_mod_cast (by omega : 0 < k + 1)
    exact ⟨B.nonneg _ _ _ hb ha hp0 hp1, B.le_one _ _ _ hb ha hp0 hp1⟩

/-- Binomial: sf never increases in k -/
theorem binomial_sf_antitone_rel (B : BetaSpec) (T : BetaShiftSpec) (d : Binomial ℝ)
    (hp0 : 0 ≤ d.f_p) (hp1 : d.f_p ≤ 1) (j k : ℤ) (hj : 0 ≤ j) (hjk : j ≤ k) :
    Binomial.sf d k ≤ Binomial.sf d j := by
  refine int_anti_of_step (f := fun k => Binomial.sf d k) (fun i hi => ?_) hj hjk
  show Binomial.sf d (i + 1) ≤ Binomial.sf d i
  by_cases h1 : d.f_n ≤ i + 1
  · rw [binomial_sf_real d (i + 1), if_pos h1]; exact (binomial_sf_range_rel B d hp0 hp1 i hi).1
  · rw [binomial_sf_real, binomial_sf_real, if_neg h1, if_neg (by omega)]
    exact binomial_sf_step T hi (by omega) hp0 hp1

example : ∃ d : Binomial ℝ, 0 ≤ d.f_p ∧ d.f_p ≤ 1 ∧ 0 ≤ d.f_n :=
  ⟨⟨0.3, 5⟩, by norm_num, by norm_num, by norm_num⟩

/-! ## NegativeBinomial (r ≥ 0, 0 ≤ p ≤ 1): cdf k = I_p(r, k+1), sf k = I_{1−p}(k+1, r)

  `NegativeBinomial::new` accepts `r = 0` (it rejects only `r < 0`), but `beta_reg(a, ·, ·)` is
  specified (and implemented: `checked_beta_reg` returns `Err(ANotGreaterThanZero)` and `beta_reg`
  unwraps it) only for `a > 0`.  The theorems below therefore carry `0 < r` and are tagged
  `_partial`: the accepted parameter value `r = 0` is not covered (see
  `C01.negative_binomial_r_zero_beta_reg_error`). -/

/-- NegativeBinomial: cdf + sf = 1 at every k : u64.  Partial: `r = 0` (accepted by `new`) excluded. -/
theorem negative_binomial_cdf_add_sf_rel_partial (B : BetaSpec) (d : NegativeBinomial ℝ)
    (hr : 0 < d.f_r) (hp0 : 0 ≤ d.f_p) (hp1 : d.f_p ≤ 1) (k : ℤ) (hk : 0 ≤ k) :
    NegativeBinomial.cdf d k + NegativeBinomial.sf d k = 1 := by
  have hb : (0 : ℝ) < (k : ℝ) + 1 := by exact_mod_cast (by omega : 0 < k + 1)
  rw [negative_binomial_cdf_real, negative_binomial_sf_real, B.symm _ _ _ hr hb hp0 hp1]; ring

/-- NegativeBinomial: 0 ≤ sf ≤ 1.  Partial: `r = 0` excluded. -/
theorem negative_binomial_sf_range_rel_partial (B : BetaSpec) (d : NegativeBinomial ℝ)
    (hr : 0 < d.f_r) (hp0 : 0 ≤ d.f_p) (hp1 : d.f_p ≤ 1) (k : ℤ) (hk : 0 ≤ k) :
    0 ≤ NegativeBinomial.sf d k ∧ NegativeBinomial.sf d k ≤ 1 := by
  have hb : (0 : ℝ) < (k : ℝ) + 1 := by exact_mod_cast (by omega : 0 < k + 1)
  rw [negative_binomial_sf_real]
  exact ⟨B.nonneg _ _ _ hb hr (by linarith) (by linarith), B.le_one _ _ _ hb hr (by linarith) (by linarith)⟩

/-- NegativeBinomial: sf never increases in k.  Partial: `r = 0` excluded. -/
theorem negative_binomial_sf_antitone_rel_partial (T : BetaShiftSpec) (d : NegativeBinomial ℝ)
    (hr : 0 < d.f_r) (hp0 : 0 ≤ d.f_p) (hp1 : d.f_p ≤ 1) (j k : ℤ) (hj : 0 ≤ j) (hjk : j ≤ k) :
    NegativeBinomial.sf d k ≤ NegativeBinomial.sf d j := by
  refine int_anti_of_step (f := fun k => NegativeBinomial.sf d k) (fun i hi => ?_) hj hjk
  show NegativeBinomial.sf d (i + 1) ≤ NegativeBinomial.sf d i
  rw [negative_binomial_sf_real, negative_binomial_sf_real]
  exact negative_binomial_sf_step T hr hi (by linarith) (by linarith)

example : ∃ d : NegativeBinomial ℝ, 0 < d.f_r ∧ 0 ≤ d.f_p ∧ d.f_p ≤ 1 :=
  ⟨⟨4, 0.5⟩, by norm_num, by norm_num, by norm_num⟩

/-! ## Poisson (λ > 0): cdf k = Q(k+1, λ), sf k = P(k+1, λ) -/

/-- Poisson: cdf + sf = 1 at every k : u64 -/
theorem poisson_cdf_add_sf_rel (S : GammaSpec) (d : Poisson ℝ) (hl : 0 < d.f_lambda)
    (k : ℤ) (hk : 0 ≤ k) : Poisson.cdf d k + Poisson.sf d k = 1 := by
  have hb : (0 : ℝ) < (k : ℝ) + 1 := by exact_mod_cast (by omega : 0 < k + 1)
  rw [poisson_cdf_real, poisson_sf_real, S.ur_eq _ _ hb hl]; ring

/-- Poisson: 0 ≤ sf ≤ 1 -/
theorem poisson_sf_range_rel (S : GammaSpec) (d : Poisson ℝ) (hl : 0 < d.f_lambda)
    (k : ℤ) (hk : 0 ≤ k) : 0 ≤ Poisson.sf d k ∧ Poisson.sf d k ≤ 1 := by
  have hb : (0 : ℝ) < (k : ℝ) + 1 := by exact_mod_cast (by omega : 0 < k + 1)
  rw [poisson_sf_real]; exact ⟨S.lr_nonneg _ _ hb hl, S.lr_le_one _ _ hb hl⟩

/-- Poisson: sf never increases in k -/
theorem poisson_sf_antitone_rel (T : GammaShiftSpec) (d : Poisson ℝ) (hl : 0 < d.f_lambda)
    (j k : ℤ) (hj : 0 ≤ j) (hjk : j ≤ k) : Poisson.sf d k ≤ Poisson.sf d j := by
  refine int_anti_of_step (f := fun k => Poisson.sf d k) (fun i hi => ?_) hj hjk
  show Poisson.sf d (i + 1) ≤ Poisson.sf d i
  rw [poisson_sf_real, poisson_sf_real]; exact poisson_lr_step T hi hl

example : ∃ d : Poisson ℝ, 0 < d.f_lambda := ⟨⟨2.5⟩, by norm_num⟩

end RealCarrier

/-! ## Every carrier: Gamma / Erlang with an INFINITE rate (accepted by `Gamma::new` when the shape is
  finite).  Pure branch logic, so valid for IEEE `Float`. -/
section AnyCarrier
variable {α : Type} [Add α] [Sub α] [Mul α] [Div α] [Neg α] [LT α] [LE α] [BEq α] [DecidableLT α]
  [DecidableLE α] [OfScientific α] [Inhabited α] [RFun α] [SF α]

/-- for x > 0 the sf is 0 if `ulps_eq!(x, shape)` and 1 otherwise -/
theorem gamma_sf_infinite_rate (d : Gamma α) (x : α) (h0 : ¬ x ≤ (0.0 : α))
    (hr : RFun.isInf d.f_rate = true) :
    Gamma.sf d x = if RFun.ulpsEq x d.f_shape = true then (0.0 : α) else (1.0 : α) := by
  unfold Gamma.sf; simp [h0, hr]

/-- C02 ("sf never increases") fails for Gamma with infinite rate: sf is 0 at the shape and back to 1
    at every larger argument not `ulps_eq` to it (including +inf).  The override is still the mirror
    image of the cdf (which has the same defect, `C01.gamma_cdf_infinite_rate_counterexample`).
    [observed on the crate: `Gamma::new(10.0, INF)`: sf(10.0) = 0, sf(11.0) = 1] -/
theorem gamma_sf_infinite_rate_counterexample (d : Gamma α) (x y : α)
    (hr : RFun.isInf d.f_rate = true)
    (hx0 : ¬ x ≤ (0.0 : α)) (hy0 : ¬ y ≤ (0.0 : α))
    (hx : RFun.ulpsEq x d.f_shape = true) (hy : RFun.ulpsEq y d.f_shape = false) :
    Gamma.sf d x = (0.0 : α) ∧ Gamma.sf d y = (1.0 : α) := by
  rw [gamma_sf_infinite_rate d x hx0 hr, gamma_sf_infinite_rate d y hy0 hr]
  simp [hx, hy]

/-- the same defect reaches Erlang -/
theorem erlang_sf_infinite_rate_counterexample (d : Erlang α) (x y : α)
    (hr : RFun.isInf d.f_g.f_rate = true)
    (hx0 : ¬ x ≤ (0.0 : α)) (hy0 : ¬ y ≤ (0.0 : α))
    (hx : RFun.ulpsEq x d.f_g.f_shape = true) (hy : RFun.ulpsEq y d.f_g.f_shape = false) :
    Erlang.sf d x = (0.0 : α) ∧ Erlang.sf d y = (1.0 : α) :=
  gamma_sf_infinite_rate_counterexample d.f_g x y hr hx0 hy0 hx hy

end AnyCarrier

end Statrs.Props.C02
