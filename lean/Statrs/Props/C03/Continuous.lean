/-
  C03 (continuous families, part 1) — over ℝ, under each constructor's acceptance predicate:
    * `pdf ≥ 0` everywhere and `pdf = 0` outside the support (all eight closed-form families);
    * `HasDerivAt cdf (pdf x) x` at every point that is not a kink of the cdf;
    * the cdf is continuous, hence `∫ t in a..b, pdf t = cdf b - cdf a` for EVERY `a ≤ b`
      (kinks included; integrability of the pdf is proved, not assumed).
  This file: sign/zero for all eight, derivative + integral for Cauchy, Gumbel, Exp, Uniform.
  Part 2 (`ContinuousPiecewise.lean`): Laplace, Pareto, Weibull, Triangular.
  "finite / never NaN" is not expressible over ℝ and is not claimed.
-/
import Statrs.Real.Simp
import Statrs.Lemmas.Density
import Statrs.Lemmas.DensityFTC
import Statrs.Gen.D_exponential
import Statrs.Gen.D_uniform
import Statrs.Gen.D_cauchy
import Statrs.Gen.D_laplace
import Statrs.Gen.D_gumbel
import Statrs.Gen.D_pareto
import Statrs.Gen.D_triangular
import Statrs.Gen.D_weibull
import Mathlib.Tactic
import Mathlib.Analysis.SpecialFunctions.Trigonometric.ArctanDeriv
import Mathlib.Analysis.SpecialFunctions.ExpDeriv
namespace Statrs.Props.C03
open Statrs Statrs.Gen Statrs.Lemmas.Density

/-! ## sign and zero -/
/-! ### Uniform -/
/-- Uniform: `0 ≤ pdf x` for every x -/
theorem uniform_pdf_nonneg (d : Uniform ℝ) (h : d.f_min < d.f_max) (x : ℝ) : 0 ≤ Uniform.pdf d x := by
  unfold Uniform.pdf; model_norm
  have : 0 < d.f_max - d.f_min := sub_pos.mpr h
  split_ifs <;> positivity

/-- Uniform: `pdf x = 0` outside `[min,max]` -/
theorem uniform_pdf_eq_zero (d : Uniform ℝ) (x : ℝ) (hx : x < d.f_min ∨ d.f_max < x) :
    Uniform.pdf d x = 0 := by
  unfold Uniform.pdf; model_norm; rw [if_pos hx]

/-! ### Exp -/
/-- Exp: `0 ≤ pdf x` for every x -/
theorem exp_pdf_nonneg (d : Exp ℝ) (h : 0 < d.f_rate) (x : ℝ) : 0 ≤ Exp.pdf d x := by
  unfold Exp.pdf; model_norm
  split_ifs <;> positivity

/-- Exp: `pdf x = 0` for `x < 0` -/
theorem exp_pdf_eq_zero (d : Exp ℝ) (x : ℝ) (hx : x < 0) : Exp.pdf d x = 0 := by
  unfold Exp.pdf; model_norm; rw [if_pos hx]

/-! ### Cauchy, Laplace, Gumbel: support is ℝ, the density is strictly positive everywhere -/
/-- Cauchy: `0 < pdf x` for every x (support ℝ) -/
theorem cauchy_pdf_pos (d : Cauchy ℝ) (h : 0 < d.f_scale) (x : ℝ) : 0 < Cauchy.pdf d x := by
  unfold Cauchy.pdf; model_norm
  have := mul_self_nonneg ((x - d.f_location) / d.f_scale)
  positivity

/-- Laplace: `0 < pdf x` for every x (support ℝ) -/
theorem laplace_pdf_pos (d : Laplace ℝ) (h : 0 < d.f_scale) (x : ℝ) : 0 < Laplace.pdf d x := by
  unfold Laplace.pdf; model_norm
  positivity

/-- Gumbel: `0 < pdf x` for every x (support ℝ) -/
theorem gumbel_pdf_pos (d : Gumbel ℝ) (h : 0 < d.f_scale) (x : ℝ) : 0 < Gumbel.pdf d x := by
  unfold Gumbel.pdf; model_norm
  positivity

/-! ### Pareto -/
/-- Pareto: `0 ≤ pdf x` for every x -/
theorem pareto_pdf_nonneg (d : Pareto ℝ) (hs : 0 < d.f_scale) (ha : 0 < d.f_shape) (x : ℝ) :
    0 ≤ Pareto.pdf d x := by
  unfold Pareto.pdf; model_norm
  split_ifs with h0
  · exact le_rfl
  · have hx : 0 < x := lt_of_lt_of_le hs (not_lt.mp h0)
    positivity

/-- Pareto: `pdf x = 0` for `x < scale` -/
theorem pareto_pdf_eq_zero (d : Pareto ℝ) (x : ℝ) (hx : x < d.f_scale) : Pareto.pdf d x = 0 := by
  unfold Pareto.pdf; model_norm; rw [if_pos hx]

/-! ### Triangular -/
/-- Triangular: `0 ≤ pdf x` for every x (the `x == mode` branch gives `2/(max-min) ≥ 0`) -/
theorem triangular_pdf_nonneg (d : Triangular ℝ) (h1 : d.f_min ≤ d.f_mode) (h2 : d.f_mode ≤ d.f_max)
    (x : ℝ) : 0 ≤ Triangular.pdf d x := by
  unfold Triangular.pdf; model_norm
  split_ifs with c0 c1 c2
  · exact div_nonneg (by norm_num) (by linarith)
  · exact div_nonneg (by linarith [c1.1]) (mul_nonneg (by linarith) (by linarith))
  · exact div_nonneg (by linarith [c2.2]) (mul_nonneg (by linarith) (by linarith))
  · exact le_rfl

/-- Triangular: `pdf x = 0` outside `[min,max]` -/
theorem triangular_pdf_eq_zero (d : Triangular ℝ) (h1 : d.f_min ≤ d.f_mode) (h2 : d.f_mode ≤ d.f_max)
    (x : ℝ) (hx : x < d.f_min ∨ d.f_max < x) : Triangular.pdf d x = 0 := by
  unfold Triangular.pdf; model_norm
  rw [if_neg, if_neg, if_neg]
  · rintro ⟨c1, c2⟩; rcases hx with hx | hx <;> linarith
  · rintro ⟨c1, c2⟩; rcases hx with hx | hx <;> linarith
  · rintro rfl; rcases hx with hx | hx <;> linarith

/-- Triangular: at the mode the density is `2/(max-min)` — for EVERY accepted parameter triple, also
    `mode = min` and `mode = max` (before the fix these two corners evaluated `0/0`) -/
theorem triangular_pdf_mode_value (d : Triangular ℝ) :
    Triangular.pdf d d.f_mode = 2 / (d.f_max - d.f_min) := by
  unfold Triangular.pdf; model_norm

/-- Triangular: the density at the mode is strictly positive (needs only `min < max`) -/
theorem triangular_pdf_mode_pos (d : Triangular ℝ) (h : d.f_min < d.f_max) :
    0 < Triangular.pdf d d.f_mode := by
  rw [triangular_pdf_mode_value]
  exact div_pos (by norm_num) (sub_pos.mpr h)

/-! ### Weibull -/
/-- Weibull: `0 ≤ pdf x` for every x -/
theorem weibull_pdf_nonneg (d : Weibull ℝ) (hk : 0 < d.f_shape) (hs : 0 < d.f_scale) (x : ℝ) :
    0 ≤ Weibull.pdf d x := by
  unfold Weibull.pdf; model_norm
  split_ifs with h0 h1
  · exact le_rfl
  · positivity
  · have hx : 0 ≤ x := not_lt.mp h0
    positivity

/-- Weibull: `pdf x = 0` for `x < 0` -/
theorem weibull_pdf_eq_zero (d : Weibull ℝ) (x : ℝ) (hx : x < 0) : Weibull.pdf d x = 0 := by
  unfold Weibull.pdf; model_norm; rw [if_pos hx]


/-! ## derivatives -/
/-! ### Cauchy -/
/-- Cauchy: the cdf has derivative `pdf x` at every x -/
theorem cauchy_hasDerivAt_cdf (d : Cauchy ℝ) (h : 0 < d.f_scale) (x : ℝ) :
    HasDerivAt (Cauchy.cdf d) (Cauchy.pdf d x) x := by
  have hF : Cauchy.cdf d = fun y => 1 / Real.pi * Real.arctan ((y - d.f_location) / d.f_scale) + 1 / 2 := by
    funext y; unfold Cauchy.cdf; model_norm
  rw [hF]
  have h1 : HasDerivAt (fun y => (y - d.f_location) / d.f_scale) (1 / d.f_scale) x :=
    ((hasDerivAt_id' x).sub_const d.f_location).div_const d.f_scale
  have h3 := (h1.arctan.const_mul (1 / Real.pi)).add_const (1 / 2)
  refine h3.congr_deriv ?_
  unfold Cauchy.pdf; model_norm
  have hpi := Real.pi_pos
  have : 0 < 1 + (x - d.f_location) / d.f_scale * ((x - d.f_location) / d.f_scale) := by
    have := mul_self_nonneg ((x - d.f_location) / d.f_scale); positivity
  field_simp

/-- Cauchy: `∫ a..b pdf = cdf b - cdf a` for every `a ≤ b` -/
theorem cauchy_integral_pdf (d : Cauchy ℝ) (h : 0 < d.f_scale) {a b : ℝ} (hab : a ≤ b) :
    ∫ t in a..b, Cauchy.pdf d t = Cauchy.cdf d b - Cauchy.cdf d a :=
  integral_eq_sub_of_kinks ∅
    (continuous_iff_continuousAt.mpr fun x => (cauchy_hasDerivAt_cdf d h x).continuousAt)
    (fun x _ => cauchy_hasDerivAt_cdf d h x) (fun x => (cauchy_pdf_pos d h x).le) hab

/-! ### Gumbel -/
/-- Gumbel: the cdf has derivative `pdf x` at every x -/
theorem gumbel_hasDerivAt_cdf (d : Gumbel ℝ) (h : 0 < d.f_scale) (x : ℝ) :
    HasDerivAt (Gumbel.cdf d) (Gumbel.pdf d x) x := by
  have hF : Gumbel.cdf d = fun y => Real.exp (-Real.exp (-(y - d.f_location) / d.f_scale)) := by
    funext y; unfold Gumbel.cdf; model_norm
  rw [hF]
  have h1 : HasDerivAt (fun y => -(y - d.f_location) / d.f_scale) (-1 / d.f_scale) x :=
    (((hasDerivAt_id' x).sub_const d.f_location).neg).div_const d.f_scale
  have h3 := (h1.exp.neg).exp
  refine h3.congr_deriv ?_
  unfold Gumbel.pdf; model_norm
  simp only [Pi.neg_apply]
  field_simp

/-- Gumbel: `∫ a..b pdf = cdf b - cdf a` for every `a ≤ b` -/
theorem gumbel_integral_pdf (d : Gumbel ℝ) (h : 0 < d.f_scale) {a b : ℝ} (hab : a ≤ b) :
    ∫ t in a..b, Gumbel.pdf d t = Gumbel.cdf d b - Gumbel.cdf d a :=
  integral_eq_sub_of_kinks ∅
    (continuous_iff_continuousAt.mpr fun x => (gumbel_hasDerivAt_cdf d h x).continuousAt)
    (fun x _ => gumbel_hasDerivAt_cdf d h x) (fun x => (gumbel_pdf_pos d h x).le) hab

/-! ### Exp -/
/-- Exp: the cdf has derivative `pdf x` at every `x ≠ 0` (no parameter hypothesis needed) -/
theorem exp_hasDerivAt_cdf (d : Exp ℝ) (x : ℝ) (hx : x ≠ 0) :
    HasDerivAt (Exp.cdf d) (Exp.pdf d x) x := by
  rcases lt_or_gt_of_ne hx with hneg | hpos
  · have hE : Exp.cdf d =ᶠ[nhds x] fun _ => (0:ℝ) := by
      filter_upwards [Iio_mem_nhds hneg] with y hy'
      have hy : y < 0 := hy'
      unfold Exp.cdf; model_norm; rw [if_pos hy]
    have hp : Exp.pdf d x = 0 := by unfold Exp.pdf; model_norm; rw [if_pos hneg]
    rw [hp]
    exact (hasDerivAt_const x (0:ℝ)).congr_of_eventuallyEq hE
  · have hE : Exp.cdf d =ᶠ[nhds x] fun y => 1 - Real.exp (-d.f_rate * y) := by
      filter_upwards [Ioi_mem_nhds hpos] with y hy'
      have hy : 0 < y := hy'
      unfold Exp.cdf; model_norm; rw [if_neg (not_lt.mpr (le_of_lt hy))]
    have hp : Exp.pdf d x = d.f_rate * Real.exp (-d.f_rate * x) := by
      unfold Exp.pdf; model_norm; rw [if_neg (not_lt.mpr hpos.le)]
    rw [hp]
    have h1 : HasDerivAt (fun y => -d.f_rate * y) (-d.f_rate) x := by
      simpa using (hasDerivAt_id' x).const_mul (-d.f_rate)
    have h3 := (h1.exp).const_sub 1
    exact (h3.congr_deriv (by ring)).congr_of_eventuallyEq hE

/-- Exp: the cdf is continuous (also at the kink `x = 0`) -/
theorem exp_continuous_cdf (d : Exp ℝ) : Continuous (Exp.cdf d) := by
  refine continuous_iff_continuousAt.mpr fun x => ?_
  by_cases hx : x = 0
  · subst hx
    refine continuousAt_of_branches (G₁ := fun _ => (0:ℝ)) (G₂ := fun y => 1 - Real.exp (-d.f_rate * y))
      (l := -1) (u := 1) (by norm_num) (by norm_num) ?_ ?_ continuousAt_const (by fun_prop)
    · intro y _ hy
      unfold Exp.cdf; model_norm
      split_ifs with c
      · rfl
      · have : y = 0 := le_antisymm hy (not_lt.mp c)
        subst this; simp
    · intro y hy _
      unfold Exp.cdf; model_norm; rw [if_neg (not_lt.mpr hy)]
  · exact (exp_hasDerivAt_cdf d x hx).continuousAt

/-- Exp: `∫ a..b pdf = cdf b - cdf a` for every `a ≤ b` (intervals across 0 included) -/
theorem exp_integral_pdf (d : Exp ℝ) (h : 0 < d.f_rate) {a b : ℝ} (hab : a ≤ b) :
    ∫ t in a..b, Exp.pdf d t = Exp.cdf d b - Exp.cdf d a :=
  integral_eq_sub_of_kinks {0} (exp_continuous_cdf d)
    (fun x hx => exp_hasDerivAt_cdf d x (by simpa using hx)) (exp_pdf_nonneg d h) hab

/-! ### Uniform -/
/-- Uniform: the cdf has derivative `pdf x` at every x other than min, max -/
theorem uniform_hasDerivAt_cdf (d : Uniform ℝ) (h : d.f_min < d.f_max) (x : ℝ)
    (hx1 : x ≠ d.f_min) (hx2 : x ≠ d.f_max) :
    HasDerivAt (Uniform.cdf d) (Uniform.pdf d x) x := by
  rcases lt_or_gt_of_ne hx1 with hlo | hlo
  · have hE : Uniform.cdf d =ᶠ[nhds x] fun _ => (0:ℝ) := by
      filter_upwards [Iio_mem_nhds hlo] with y hy'
      have hy : y < d.f_min := hy'
      unfold Uniform.cdf; model_norm; rw [if_pos (le_of_lt hy)]
    have hp : Uniform.pdf d x = 0 := by unfold Uniform.pdf; model_norm; rw [if_pos (Or.inl hlo)]
    rw [hp]
    exact (hasDerivAt_const x (0:ℝ)).congr_of_eventuallyEq hE
  rcases lt_or_gt_of_ne hx2 with hhi | hhi
  · have hE : Uniform.cdf d =ᶠ[nhds x] fun y => (y - d.f_min) / (d.f_max - d.f_min) := by
      filter_upwards [Ioo_mem_nhds hlo hhi] with y hy'
      have hy : d.f_min < y ∧ y < d.f_max := hy'
      unfold Uniform.cdf; model_norm
      rw [if_neg (not_le.mpr hy.1), if_neg (not_le.mpr hy.2)]
    have hp : Uniform.pdf d x = 1 / (d.f_max - d.f_min) := by
      unfold Uniform.pdf; model_norm
      rw [if_neg (by rintro (c | c) <;> linarith)]
    rw [hp]
    exact (((hasDerivAt_id' x).sub_const d.f_min).div_const _).congr_of_eventuallyEq hE
  · have hE : Uniform.cdf d =ᶠ[nhds x] fun _ => (1:ℝ) := by
      filter_upwards [Ioi_mem_nhds hhi] with y hy'
      have hy : d.f_max < y := hy'
      unfold Uniform.cdf; model_norm
      rw [if_neg (not_le.mpr (h.trans hy)), if_pos (le_of_lt hy)]
    have hp : Uniform.pdf d x = 0 := by unfold Uniform.pdf; model_norm; rw [if_pos (Or.inr hhi)]
    rw [hp]
    exact (hasDerivAt_const x (1:ℝ)).congr_of_eventuallyEq hE

/-- Uniform: the cdf is continuous -/
theorem uniform_continuous_cdf (d : Uniform ℝ) (h : d.f_min < d.f_max) : Continuous (Uniform.cdf d) := by
  have hne : d.f_max - d.f_min ≠ 0 := (sub_pos.mpr h).ne'
  refine continuous_iff_continuousAt.mpr fun x => ?_
  by_cases hx1 : x = d.f_min
  · subst hx1
    refine continuousAt_of_branches (G₁ := fun _ => (0:ℝ))
      (G₂ := fun y => (y - d.f_min) / (d.f_max - d.f_min))
      (l := d.f_min - 1) (u := d.f_max) (by linarith) h ?_ ?_ continuousAt_const (by fun_prop)
    · intro y _ hy
      unfold Uniform.cdf; model_norm; rw [if_pos hy]
    · intro y hy hy2
      unfold Uniform.cdf; model_norm
      split_ifs with c c2
      · have : y = d.f_min := le_antisymm c hy
        rw [this]; simp
      · linarith
      · rfl
  by_cases hx2 : x = d.f_max
  · subst hx2
    refine continuousAt_of_branches (G₁ := fun y => (y - d.f_min) / (d.f_max - d.f_min))
      (G₂ := fun _ => (1:ℝ))
      (l := d.f_min) (u := d.f_max + 1) h (by linarith) ?_ ?_ (by fun_prop) continuousAt_const
    · intro y hy hy2
      unfold Uniform.cdf; model_norm
      split_ifs with c c2
      · linarith
      · have : y = d.f_max := le_antisymm hy2 c2
        rw [this]; field_simp
      · rfl
    · intro y hy _
      unfold Uniform.cdf; model_norm
      rw [if_neg (not_le.mpr (lt_of_lt_of_le h hy)), if_pos hy]
  · exact (uniform_hasDerivAt_cdf d h x hx1 hx2).continuousAt

/-- Uniform: `∫ a..b pdf = cdf b - cdf a` for every `a ≤ b` -/
theorem uniform_integral_pdf (d : Uniform ℝ) (h : d.f_min < d.f_max) {a b : ℝ} (hab : a ≤ b) :
    ∫ t in a..b, Uniform.pdf d t = Uniform.cdf d b - Uniform.cdf d a :=
  integral_eq_sub_of_kinks {d.f_min, d.f_max} (uniform_continuous_cdf d h)
    (fun x hx => by
      simp only [Finset.mem_insert, Finset.mem_singleton, not_or] at hx
      exact uniform_hasDerivAt_cdf d h x hx.1 hx.2) (uniform_pdf_nonneg d h) hab

/-! ### non-vacuity -/
example : ∃ d : Uniform ℝ, d.f_min < d.f_max := ⟨⟨0, 1⟩, by norm_num⟩
example : ∃ d : Exp ℝ, 0 < d.f_rate := ⟨⟨1⟩, by norm_num⟩
example : ∃ d : Cauchy ℝ, 0 < d.f_scale := ⟨⟨0, 1⟩, by norm_num⟩
example : ∃ d : Gumbel ℝ, 0 < d.f_scale := ⟨⟨0, 1⟩, by norm_num⟩
/-- the former 0/0 corner `mode = min` is an accepted parameter triple -/
example : ∃ d : Triangular ℝ, d.f_min ≤ d.f_mode ∧ d.f_mode ≤ d.f_max ∧ d.f_min < d.f_max ∧ d.f_mode = d.f_min :=
  ⟨⟨0, 1, 0⟩, by norm_num⟩

end Statrs.Props.C03
