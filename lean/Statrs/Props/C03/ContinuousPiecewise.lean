/-
  C03 (continuous families, part 2) — Laplace, Pareto, Weibull, Triangular over ℝ:
  derivative of the cdf is the pdf off the kinks, continuity of the cdf at the kinks, and
  `∫ t in a..b, pdf t = cdf b - cdf a` for every `a ≤ b`.  Also the Triangular defect at
  `x = min = mode` (counterexample; IEEE version in `TriangularFloat.lean`).
-/
import Statrs.Props.C03.Continuous
import Mathlib.Analysis.SpecialFunctions.Pow.Deriv
namespace Statrs.Props.C03
open Statrs Statrs.Gen Statrs.Lemmas.Density

/-! ### Laplace -/
/-- Laplace: the cdf is differentiable at EVERY x (the location included: both one-sided derivatives equal `1/(2·scale)`) with derivative `pdf x` -/
theorem laplace_hasDerivAt_cdf (d : Laplace ℝ) (h : 0 < d.f_scale) (x : ℝ) :
    HasDerivAt (Laplace.cdf d) (Laplace.pdf d x) x := by
  -- the two smooth branches
  have hL : ∀ y, y ≤ d.f_location → Laplace.cdf d y = Real.exp ((y - d.f_location) / d.f_scale) / 2 := by
    intro y hy
    unfold Laplace.cdf; model_norm
    have habs : |y - d.f_location| = -(y - d.f_location) := abs_of_nonpos (by linarith)
    split_ifs with c
    · have : y = d.f_location := le_antisymm hy c
      subst this; simp; norm_num
    · rw [habs, neg_neg]
  have hR : ∀ y, d.f_location ≤ y → Laplace.cdf d y = 1 - Real.exp (-(y - d.f_location) / d.f_scale) / 2 := by
    intro y hy
    unfold Laplace.cdf; model_norm
    rw [if_pos hy, abs_of_nonneg (by linarith)]
  have dL : ∀ z, HasDerivAt (fun y => Real.exp ((y - d.f_location) / d.f_scale) / 2)
      (Real.exp ((z - d.f_location) / d.f_scale) / (2 * d.f_scale)) z := by
    intro z
    have h1 : HasDerivAt (fun y => (y - d.f_location) / d.f_scale) (1 / d.f_scale) z :=
      ((hasDerivAt_id' z).sub_const d.f_location).div_const d.f_scale
    exact (h1.exp.div_const 2).congr_deriv (by field_simp)
  have dR : ∀ z, HasDerivAt (fun y => 1 - Real.exp (-(y - d.f_location) / d.f_scale) / 2)
      (Real.exp (-(z - d.f_location) / d.f_scale) / (2 * d.f_scale)) z := by
    intro z
    have h1 : HasDerivAt (fun y => -(y - d.f_location) / d.f_scale) (-1 / d.f_scale) z :=
      (((hasDerivAt_id' z).sub_const d.f_location).neg).div_const d.f_scale
    exact ((h1.exp.div_const 2).const_sub 1).congr_deriv (by field_simp)
  have hp : Laplace.pdf d x = Real.exp (-|x - d.f_location| / d.f_scale) / (2 * d.f_scale) := by
    unfold Laplace.pdf; model_norm
  rw [hp]
  rcases lt_trichotomy x d.f_location with hx | hx | hx
  · rw [abs_of_neg (by linarith), neg_neg]
    refine (dL x).congr_of_eventuallyEq ?_
    filter_upwards [Iio_mem_nhds hx] with y hy using hL y (le_of_lt hy)
  · subst hx
    refine hasDerivAt_of_branches hL hR ?_ ?_
    · simpa using dL d.f_location
    · simpa using dR d.f_location
  · rw [abs_of_pos (by linarith)]
    refine (dR x).congr_of_eventuallyEq ?_
    filter_upwards [Ioi_mem_nhds hx] with y hy using hR y (le_of_lt hy)

/-- Laplace: `∫ a..b pdf = cdf b - cdf a` for every `a ≤ b` -/
theorem laplace_integral_pdf (d : Laplace ℝ) (h : 0 < d.f_scale) {a b : ℝ} (hab : a ≤ b) :
    ∫ t in a..b, Laplace.pdf d t = Laplace.cdf d b - Laplace.cdf d a :=
  integral_eq_sub_of_kinks ∅
    (continuous_iff_continuousAt.mpr fun x => (laplace_hasDerivAt_cdf d h x).continuousAt)
    (fun x _ => laplace_hasDerivAt_cdf d h x) (fun x => (laplace_pdf_pos d h x).le) hab

/-! ### Pareto -/
/-- Pareto: `cdf` has derivative `pdf x` at every `x ≠ scale` (the support minimum is the only kink) -/
theorem pareto_hasDerivAt_cdf (d : Pareto ℝ) (hs : 0 < d.f_scale) (ha : 0 < d.f_shape) (x : ℝ)
    (hx : x ≠ d.f_scale) : HasDerivAt (Pareto.cdf d) (Pareto.pdf d x) x := by
  rcases lt_or_gt_of_ne hx with hlo | hhi
  · have hE : Pareto.cdf d =ᶠ[nhds x] fun _ => (0:ℝ) := by
      filter_upwards [Iio_mem_nhds hlo] with y hy
      unfold Pareto.cdf; model_norm; rw [if_pos (show y < d.f_scale from hy)]
    rw [pareto_pdf_eq_zero d x hlo]
    exact (hasDerivAt_const x (0:ℝ)).congr_of_eventuallyEq hE
  · have hx0 : 0 < x := hs.trans hhi
    have hE : Pareto.cdf d =ᶠ[nhds x]
        fun y => 1 - d.f_scale ^ d.f_shape * y ^ (-d.f_shape) := by
      filter_upwards [Ioi_mem_nhds hhi] with y hy'
      have hy : d.f_scale < y := hy'
      have hy0 : 0 < y := hs.trans hy
      unfold Pareto.cdf; model_norm
      rw [if_neg (not_lt.mpr (le_of_lt hy)), Real.div_rpow hs.le hy0.le, Real.rpow_neg hy0.le]
      rfl
    have hp : Pareto.pdf d x = d.f_shape * d.f_scale ^ d.f_shape / x ^ (d.f_shape + 1) := by
      unfold Pareto.pdf; model_norm; rw [if_neg (not_lt.mpr hhi.le)]
    rw [hp]
    have h1 : HasDerivAt (fun y : ℝ => y ^ (-d.f_shape)) (-d.f_shape * x ^ (-d.f_shape - 1)) x :=
      Real.hasDerivAt_rpow_const (Or.inl hx0.ne')
    have h3 := (h1.const_mul (d.f_scale ^ d.f_shape)).const_sub 1
    refine (h3.congr_deriv ?_).congr_of_eventuallyEq hE
    have e : x ^ (-d.f_shape - 1) = (x ^ (d.f_shape + 1))⁻¹ := by
      rw [← Real.rpow_neg hx0.le]; congr 1; ring
    rw [e]
    have : x ^ (d.f_shape + 1) ≠ 0 := (Real.rpow_pos_of_pos hx0 _).ne'
    field_simp

/-- Pareto: the cdf is continuous (also at the kink `x = scale`) -/
theorem pareto_continuous_cdf (d : Pareto ℝ) (hs : 0 < d.f_scale) (ha : 0 < d.f_shape) :
    Continuous (Pareto.cdf d) := by
  refine continuous_iff_continuousAt.mpr fun x => ?_
  by_cases hx : x = d.f_scale
  · subst hx
    refine continuousAt_of_branches (G₁ := fun _ => (0:ℝ))
      (G₂ := fun y => 1 - (d.f_scale / y) ^ d.f_shape)
      (l := d.f_scale - 1) (u := d.f_scale + 1) (by linarith) (by linarith) ?_ ?_
      continuousAt_const ?_
    · intro y _ hy
      unfold Pareto.cdf; model_norm
      split_ifs with c
      · rfl
      · have : y = d.f_scale := le_antisymm hy (not_lt.mp c)
        rw [this, div_self hs.ne', Real.one_rpow]; ring
    · intro y hy _
      unfold Pareto.cdf; model_norm; rw [if_neg (not_lt.mpr hy)]
    · refine continuousAt_const.sub (ContinuousAt.rpow_const ?_ (Or.inr ha.le))
      exact continuousAt_const.div continuousAt_id hs.ne'
  · exact (pareto_hasDerivAt_cdf d hs ha x hx).continuousAt

/-- Pareto: `∫ a..b pdf = cdf b - cdf a` for every `a ≤ b` (intervals across the kink included) -/
theorem pareto_integral_pdf (d : Pareto ℝ) (hs : 0 < d.f_scale) (ha : 0 < d.f_shape)
    {a b : ℝ} (hab : a ≤ b) :
    ∫ t in a..b, Pareto.pdf d t = Pareto.cdf d b - Pareto.cdf d a :=
  integral_eq_sub_of_kinks {d.f_scale} (pareto_continuous_cdf d hs ha)
    (fun x hx => pareto_hasDerivAt_cdf d hs ha x (by simpa using hx))
    (pareto_pdf_nonneg d hs ha) hab


/-! ### Weibull -/
/-- Weibull: `cdf` has derivative `pdf x` at every `x ≠ 0`; `hinv` is what `new` stores in the cached field -/
theorem weibull_hasDerivAt_cdf (d : Weibull ℝ) (hk : 0 < d.f_shape) (hs : 0 < d.f_scale)
    (hinv : d.f_scale_pow_shape_inv = d.f_scale ^ (-d.f_shape)) (x : ℝ) (hx : x ≠ 0) :
    HasDerivAt (Weibull.cdf d) (Weibull.pdf d x) x := by
  rcases lt_or_gt_of_ne hx with hlo | hhi
  · have hE : Weibull.cdf d =ᶠ[nhds x] fun _ => (0:ℝ) := by
      filter_upwards [Iio_mem_nhds hlo] with y hy
      unfold Weibull.cdf; model_norm; rw [if_pos (show y < 0 from hy)]
    rw [weibull_pdf_eq_zero d x hlo]
    exact (hasDerivAt_const x (0:ℝ)).congr_of_eventuallyEq hE
  · have hE : Weibull.cdf d =ᶠ[nhds x]
        fun y => -(Real.exp (-(y ^ d.f_shape) * d.f_scale_pow_shape_inv) - 1) := by
      filter_upwards [Ioi_mem_nhds hhi] with y hy'
      have hy : 0 < y := hy'
      unfold Weibull.cdf; model_norm
      rw [if_neg (not_lt.mpr hy.le)]
    have hp : Weibull.pdf d x = d.f_shape * (x / d.f_scale) ^ (d.f_shape - 1) *
        Real.exp (-(x ^ d.f_shape) * d.f_scale_pow_shape_inv) / d.f_scale := by
      unfold Weibull.pdf; model_norm
      rw [if_neg (not_lt.mpr hhi.le), if_neg (fun c => hx c.1)]
    rw [hp]
    have h1 : HasDerivAt (fun y : ℝ => y ^ d.f_shape) (d.f_shape * x ^ (d.f_shape - 1)) x :=
      Real.hasDerivAt_rpow_const (Or.inl hx)
    have h3 := (((h1.neg.mul_const d.f_scale_pow_shape_inv).exp).sub_const 1).neg
    refine (h3.congr_deriv ?_).congr_of_eventuallyEq hE
    simp only [Pi.neg_apply]
    rw [hinv, Real.div_rpow hhi.le hs.le, Real.rpow_sub_one hs.ne' d.f_shape, Real.rpow_neg hs.le]
    have : d.f_scale ^ d.f_shape ≠ 0 := (Real.rpow_pos_of_pos hs _).ne'
    field_simp

/-- Weibull: the cdf is continuous (also at the kink `x = 0`) -/
theorem weibull_continuous_cdf (d : Weibull ℝ) (hk : 0 < d.f_shape) (hs : 0 < d.f_scale)
    (hinv : d.f_scale_pow_shape_inv = d.f_scale ^ (-d.f_shape)) : Continuous (Weibull.cdf d) := by
  refine continuous_iff_continuousAt.mpr fun x => ?_
  by_cases hx : x = 0
  · subst hx
    refine continuousAt_of_branches (G₁ := fun _ => (0:ℝ))
      (G₂ := fun y => -(Real.exp (-(y ^ d.f_shape) * d.f_scale_pow_shape_inv) - 1))
      (l := -1) (u := 1) (by norm_num) (by norm_num) ?_ ?_ continuousAt_const ?_
    · intro y _ hy
      unfold Weibull.cdf; model_norm
      split_ifs with c
      · rfl
      · have : y = 0 := le_antisymm hy (not_lt.mp c)
        rw [this, Real.zero_rpow hk.ne']; simp
    · intro y hy _
      unfold Weibull.cdf; model_norm; rw [if_neg (not_lt.mpr hy)]
    · have c1 : ContinuousAt (fun y : ℝ => y ^ d.f_shape) 0 :=
        Real.continuousAt_rpow_const _ _ (Or.inr hk.le)
      exact (((c1.neg.mul continuousAt_const).rexp).sub continuousAt_const).neg
  · exact (weibull_hasDerivAt_cdf d hk hs hinv x hx).continuousAt

/-- Weibull: `∫ a..b pdf = cdf b - cdf a` for every `a ≤ b` -/
theorem weibull_integral_pdf (d : Weibull ℝ) (hk : 0 < d.f_shape) (hs : 0 < d.f_scale)
    (hinv : d.f_scale_pow_shape_inv = d.f_scale ^ (-d.f_shape)) {a b : ℝ} (hab : a ≤ b) :
    ∫ t in a..b, Weibull.pdf d t = Weibull.cdf d b - Weibull.cdf d a :=
  integral_eq_sub_of_kinks {0} (weibull_continuous_cdf d hk hs hinv)
    (fun x hx => weibull_hasDerivAt_cdf d hk hs hinv x (by simpa using hx))
    (weibull_pdf_nonneg d hk hs) hab


/-! ### Triangular -/
/-- Triangular: `cdf` has derivative `pdf x` at every `x` other than min, mode, max -/
theorem triangular_hasDerivAt_cdf (d : Triangular ℝ) (h1 : d.f_min ≤ d.f_mode)
    (h2 : d.f_mode ≤ d.f_max) (x : ℝ)
    (hxa : x ≠ d.f_min) (hxc : x ≠ d.f_mode) (hxb : x ≠ d.f_max) :
    HasDerivAt (Triangular.cdf d) (Triangular.pdf d x) x := by
  rcases lt_or_gt_of_ne hxa with ha | ha
  · -- left of the support
    have hE : Triangular.cdf d =ᶠ[nhds x] fun _ => (0:ℝ) := by
      filter_upwards [Iio_mem_nhds ha] with y hy'
      have hy : y < d.f_min := hy'
      unfold Triangular.cdf; model_norm; rw [if_pos hy.le]
    rw [triangular_pdf_eq_zero d h1 h2 x (Or.inl ha)]
    exact (hasDerivAt_const x (0:ℝ)).congr_of_eventuallyEq hE
  rcases lt_or_gt_of_ne hxc with hc | hc
  · -- rising piece
    have hE : Triangular.cdf d =ᶠ[nhds x] fun y =>
        (y - d.f_min) * (y - d.f_min) / ((d.f_max - d.f_min) * (d.f_mode - d.f_min)) := by
      filter_upwards [Ioo_mem_nhds ha hc] with y hy'
      have hy : d.f_min < y ∧ y < d.f_mode := hy'
      unfold Triangular.cdf; model_norm
      rw [if_neg (not_le.mpr hy.1), if_pos hy.2.le]
    have hp : Triangular.pdf d x =
        2 * (x - d.f_min) / ((d.f_max - d.f_min) * (d.f_mode - d.f_min)) := by
      unfold Triangular.pdf; model_norm; rw [if_neg hxc, if_pos ⟨ha.le, hc⟩]
    rw [hp]
    have g := (hasDerivAt_id' x).sub_const d.f_min
    refine (((g.mul g).div_const _).congr_deriv ?_).congr_of_eventuallyEq hE
    ring
  rcases lt_or_gt_of_ne hxb with hb | hb
  · -- falling piece
    have hE : Triangular.cdf d =ᶠ[nhds x] fun y =>
        1 - (d.f_max - y) * (d.f_max - y) / ((d.f_max - d.f_min) * (d.f_max - d.f_mode)) := by
      filter_upwards [Ioo_mem_nhds hc hb] with y hy'
      have hy : d.f_mode < y ∧ y < d.f_max := hy'
      unfold Triangular.cdf; model_norm
      rw [if_neg (not_le.mpr (lt_of_le_of_lt h1 hy.1)), if_neg (not_le.mpr hy.1), if_pos hy.2]
    have hp : Triangular.pdf d x =
        2 * (d.f_max - x) / ((d.f_max - d.f_min) * (d.f_max - d.f_mode)) := by
      unfold Triangular.pdf; model_norm
      rw [if_neg hxc, if_neg (fun c => absurd c.2 (not_lt.mpr hc.le)), if_pos ⟨hc, hb.le⟩]
    rw [hp]
    have g := (hasDerivAt_id' x).const_sub d.f_max
    refine ((((g.mul g).div_const _).const_sub 1).congr_deriv ?_).congr_of_eventuallyEq hE
    ring
  · -- right of the support
    have hE : Triangular.cdf d =ᶠ[nhds x] fun _ => (1:ℝ) := by
      filter_upwards [Ioi_mem_nhds hb] with y hy'
      have hy : d.f_max < y := hy'
      unfold Triangular.cdf; model_norm
      rw [if_neg (not_le.mpr (by linarith)), if_neg (not_le.mpr (by linarith)),
        if_neg (not_lt.mpr hy.le)]
    rw [triangular_pdf_eq_zero d h1 h2 x (Or.inr hb)]
    exact (hasDerivAt_const x (1:ℝ)).congr_of_eventuallyEq hE

/-- Triangular: the cdf is continuous everywhere (all of `mode = min`, `mode = max`, strict cases) -/
theorem triangular_continuous_cdf (d : Triangular ℝ) (h1 : d.f_min ≤ d.f_mode)
    (h2 : d.f_mode ≤ d.f_max) (h3 : d.f_min ≠ d.f_max) : Continuous (Triangular.cdf d) := by
  have hab : d.f_min < d.f_max := lt_of_le_of_ne (h1.trans h2) h3
  have hF : Triangular.cdf d = fun x =>
      if x ≤ d.f_min then (0:ℝ) else
        if x ≤ d.f_mode then (x - d.f_min) * (x - d.f_min) / ((d.f_max - d.f_min) * (d.f_mode - d.f_min))
        else if d.f_max ≤ x then 1
          else 1 - (d.f_max - x) * (d.f_max - x) / ((d.f_max - d.f_min) * (d.f_max - d.f_mode)) := by
    funext x
    unfold Triangular.cdf; model_norm
    split_ifs <;> first | rfl | (exfalso; linarith)
  rw [hF]
  have hba : d.f_max - d.f_min ≠ 0 := (sub_pos.mpr hab).ne'
  refine Continuous.if_le continuous_const ?_ continuous_id continuous_const ?_
  · refine Continuous.if_le (by fun_prop) ?_ continuous_id continuous_const ?_
    · refine Continuous.if_le continuous_const (by fun_prop) continuous_const continuous_id ?_
      intro x hx
      rw [← hx]; simp
    · intro x hx
      obtain rfl : x = d.f_mode := hx
      split_ifs with c
      · have hcb : d.f_mode = d.f_max := le_antisymm h2 c
        rw [hcb]
        field_simp
      · rcases h1.lt_or_eq with hlt | heq
        · have hca : d.f_mode - d.f_min ≠ 0 := (sub_pos.mpr hlt).ne'
          have hbc : d.f_max - d.f_mode ≠ 0 := (sub_pos.mpr (not_le.mp c)).ne'
          field_simp
          ring
        · rw [← heq]
          field_simp
          simp
  · intro x hx
    obtain rfl : x = d.f_min := hx
    rw [if_pos h1]; simp

/-- Triangular: `∫ a..b pdf = cdf b - cdf a` for every `a ≤ b` (the three kinks are single points and do not affect integrals) -/
theorem triangular_integral_pdf (d : Triangular ℝ) (h1 : d.f_min ≤ d.f_mode)
    (h2 : d.f_mode ≤ d.f_max) (h3 : d.f_min ≠ d.f_max) {a b : ℝ} (hab : a ≤ b) :
    ∫ t in a..b, Triangular.pdf d t = Triangular.cdf d b - Triangular.cdf d a :=
  integral_eq_sub_of_kinks {d.f_min, d.f_mode, d.f_max} (triangular_continuous_cdf d h1 h2 h3)
    (fun x hx => by
      simp only [Finset.mem_insert, Finset.mem_singleton, not_or] at hx
      exact triangular_hasDerivAt_cdf d h1 h2 x hx.1 hx.2.1 hx.2.2)
    (triangular_pdf_nonneg d h1 h2) hab


/-- Triangular with `mode = min` (accepted by `new`): at `x = min = mode` the `pdf` is
    `2/(max-min)`, which is the right derivative of the cdf there (the maximum of the density).
    (Before the repair of `Triangular::pdf` the code evaluated `0/0` at this point.) -/
theorem triangular_pdf_min_eq_mode (d : Triangular ℝ) (hm : d.f_mode = d.f_min)
    (hab : d.f_min < d.f_max) :
    Triangular.pdf d d.f_min = 2 / (d.f_max - d.f_min) ∧
      HasDerivWithinAt (Triangular.cdf d) (Triangular.pdf d d.f_min) (Set.Ici d.f_min) d.f_min := by
  have hp : Triangular.pdf d d.f_min = 2 / (d.f_max - d.f_min) := by
    unfold Triangular.pdf; model_norm
    rw [hm, if_pos rfl]
  have hba : d.f_max - d.f_min ≠ 0 := (sub_pos.mpr hab).ne'
  refine ⟨hp, ?_⟩
  rw [hp]
  · have g := (hasDerivAt_id' d.f_min).const_sub d.f_max
    have hG : HasDerivAt (fun y => 1 - (d.f_max - y) * (d.f_max - y) /
        ((d.f_max - d.f_min) * (d.f_max - d.f_min))) (2 / (d.f_max - d.f_min)) d.f_min :=
      (((g.mul g).div_const _).const_sub 1).congr_deriv (by field_simp; ring)
    refine hG.hasDerivWithinAt.congr_of_eventuallyEq ?_ ?_
    · filter_upwards [Ico_mem_nhdsGE hab] with y hy
      unfold Triangular.cdf; model_norm
      rw [hm]
      rcases hy.1.lt_or_eq with h | h
      · rw [if_neg (not_le.mpr h), if_neg (not_le.mpr h), if_pos hy.2]
      · rw [← h, if_pos le_rfl]; field_simp; ring
    · unfold Triangular.cdf; model_norm
      rw [if_pos le_rfl]; field_simp; ring

example : ∃ d : Triangular ℝ, d.f_mode = d.f_min ∧ d.f_min < d.f_max ∧
    d.f_min ≤ d.f_mode ∧ d.f_mode ≤ d.f_max ∧ d.f_min ≠ d.f_max :=
  ⟨⟨0, 1, 0⟩, rfl, by norm_num, by norm_num, by norm_num, by norm_num⟩

/-! ### non-vacuity -/
example : ∃ d : Laplace ℝ, 0 < d.f_scale := ⟨⟨0, 1⟩, by norm_num⟩
example : ∃ d : Pareto ℝ, 0 < d.f_scale ∧ 0 < d.f_shape := ⟨⟨1, 2⟩, by norm_num, by norm_num⟩
example : ∃ d : Weibull ℝ, 0 < d.f_shape ∧ 0 < d.f_scale ∧
    d.f_scale_pow_shape_inv = d.f_scale ^ (-d.f_shape) :=
  ⟨⟨2, 1, 1⟩, by norm_num, by norm_num, by simp⟩
example : ∃ d : Triangular ℝ, d.f_min ≤ d.f_mode ∧ d.f_mode ≤ d.f_max ∧ d.f_min ≠ d.f_max :=
  ⟨⟨0, 2, 1⟩, by norm_num, by norm_num, by norm_num⟩

end Statrs.Props.C03
