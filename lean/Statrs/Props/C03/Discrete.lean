/-
  C03 (discrete families) — Bernoulli, DiscreteUniform, Geometric over ℝ: `0 ≤ pmf ≤ 1`, `pmf = 0`
  off the support, `pmf k = cdf k - cdf (k-1)` on the support, and the pmf sums to 1
  (Geometric: for every `u64` argument — `pmf` no longer wraps its exponent through `i32`).
  Bernoulli's pmf goes through `SF.ln_binomial 1 k`: relative to `Spec.LnBinomialOneSpec` (`_rel`).
  Integer arguments are Rust `u64` (Bernoulli, Geometric: hypotheses `0 ≤ k`) or `i64`
  (DiscreteUniform).
-/
import Statrs.Real.Simp
import Statrs.Lemmas.Density
import Statrs.Spec.SFSpec_Density
import Statrs.Gen.D_bernoulli
import Statrs.Gen.D_binomial
import Statrs.Gen.D_discrete_uniform
import Statrs.Gen.D_geometric
import Mathlib.Tactic
import Mathlib.Analysis.SpecificLimits.Basic
namespace Statrs.Props.C03
open Statrs Statrs.Gen Statrs.Lemmas.Density Statrs.Spec

/-! ### DiscreteUniform -/
/-- DiscreteUniform: `0 ≤ pmf k` for every `k` -/
theorem discrete_uniform_pmf_nonneg (d : DiscreteUniform) (h : d.f_min ≤ d.f_max) (k : Int) :
    0 ≤ DiscreteUniform.pmf (α := ℝ) d k := by
  unfold DiscreteUniform.pmf; model_norm
  have : (0:ℝ) < ((d.f_max - d.f_min + 1 : Int) : ℝ) := by exact_mod_cast (by omega : 0 < d.f_max - d.f_min + 1)
  split_ifs <;> positivity

/-- DiscreteUniform: `pmf k ≤ 1` for every `k` -/
theorem discrete_uniform_pmf_le_one (d : DiscreteUniform) (h : d.f_min ≤ d.f_max) (k : Int) :
    DiscreteUniform.pmf (α := ℝ) d k ≤ 1 := by
  unfold DiscreteUniform.pmf; model_norm
  have h1 : (1:ℝ) ≤ ((d.f_max - d.f_min + 1 : Int) : ℝ) := by exact_mod_cast (by omega : 1 ≤ d.f_max - d.f_min + 1)
  split_ifs
  · rw [div_le_one (by linarith)]; exact h1
  · norm_num

/-- DiscreteUniform: `pmf k = 0` off `[min,max]` -/
theorem discrete_uniform_pmf_eq_zero (d : DiscreteUniform) (k : Int)
    (hk : k < d.f_min ∨ d.f_max < k) : DiscreteUniform.pmf (α := ℝ) d k = 0 := by
  unfold DiscreteUniform.pmf; model_norm
  rw [if_neg (by omega)]

/-- DiscreteUniform: `pmf k = cdf k - cdf (k-1)` at every lattice point of the support -/
theorem discrete_uniform_pmf_eq_cdf_sub (d : DiscreteUniform) (k : Int)
    (hk1 : d.f_min ≤ k) (hk2 : k ≤ d.f_max) :
    DiscreteUniform.pmf (α := ℝ) d k =
      DiscreteUniform.cdf (α := ℝ) d k - DiscreteUniform.cdf (α := ℝ) d (k - 1) := by
  unfold DiscreteUniform.pmf DiscreteUniform.cdf; model_norm
  have hmin : (d.f_min : ℝ) ≤ k := by exact_mod_cast hk1
  have hmax : (k : ℝ) ≤ d.f_max := by exact_mod_cast hk2
  have hn : (0:ℝ) < (d.f_max : ℝ) - d.f_min + 1 := by linarith
  rw [if_pos ⟨hk1, hk2⟩, if_neg (by omega : ¬ k < d.f_min)]
  push_cast
  have hclip : ∀ j : ℝ, j ≤ d.f_max → ¬ (1 < (j - d.f_min + 1) / (d.f_max - d.f_min + 1)) := by
    intro j hj
    rw [not_lt, div_le_one hn]; linarith
  by_cases hkmax : d.f_max ≤ k
  · have hkeq : k = d.f_max := le_antisymm hk2 hkmax
    rw [if_pos hkmax]
    by_cases hkmin : k - 1 < d.f_min
    · rw [if_pos hkmin]
      have : d.f_max = d.f_min := by omega
      rw [this]; simp
    · rw [if_neg hkmin, if_neg (by omega : ¬ d.f_max ≤ k - 1), if_neg (hclip _ (by linarith))]
      rw [hkeq]; field_simp; ring
  · rw [if_neg hkmax, if_neg (hclip _ hmax)]
    by_cases hkmin : k - 1 < d.f_min
    · rw [if_pos hkmin]
      have : k = d.f_min := by omega
      rw [this]; field_simp; ring
    · rw [if_neg hkmin, if_neg (by omega : ¬ d.f_max ≤ k - 1), if_neg (hclip _ (by linarith))]
      field_simp; ring

/-- DiscreteUniform: the pmf sums to 1 over the support -/
theorem discrete_uniform_sum_pmf (d : DiscreteUniform) (h : d.f_min ≤ d.f_max) :
    ∑ k ∈ Finset.Icc d.f_min d.f_max, DiscreteUniform.pmf (α := ℝ) d k = 1 := by
  have hconst : ∀ k ∈ Finset.Icc d.f_min d.f_max,
      DiscreteUniform.pmf (α := ℝ) d k = 1 / ((d.f_max - d.f_min + 1 : Int) : ℝ) := by
    intro k hk
    rw [Finset.mem_Icc] at hk
    unfold DiscreteUniform.pmf; model_norm; rw [if_pos hk]
  rw [Finset.sum_congr rfl hconst, Finset.sum_const, Int.card_Icc, nsmul_eq_mul]
  have hpos : 0 < d.f_max - d.f_min + 1 := by omega
  have : ((d.f_max + 1 - d.f_min).toNat : ℝ) = ((d.f_max - d.f_min + 1 : Int) : ℝ) := by
    have : ((d.f_max + 1 - d.f_min).toNat : Int) = d.f_max - d.f_min + 1 := by omega
    exact_mod_cast this
  rw [this]
  have : ((d.f_max - d.f_min + 1 : Int) : ℝ) ≠ 0 := by exact_mod_cast hpos.ne'
  field_simp

example : ∃ d : DiscreteUniform, d.f_min ≤ d.f_max := ⟨⟨-3, 5⟩, by norm_num⟩

/-! ### Bernoulli -/
/-- Bernoulli: `pmf 0 = 1 - p`, relative to `ln C(1,0) = 0` -/
theorem bernoulli_pmf_zero_rel [SF ℝ] (S : LnBinomialOneSpec) (d : Bernoulli ℝ)
    (hn : d.f_b.f_n = 1) (hp1 : d.f_b.f_p ≤ 1) :
    Bernoulli.pmf d 0 = 1 - d.f_b.f_p := by
  unfold Bernoulli.pmf Binomial.pmf; model_norm
  rw [hn, if_neg (by norm_num)]
  by_cases c0 : d.f_b.f_p = 0
  · rw [if_pos c0, c0]; simp
  rw [if_neg c0]
  by_cases c1 : d.f_b.f_p = 1
  · rw [if_pos c1, c1]; simp
  rw [if_neg c1]
  have hq : 0 < 1 - d.f_b.f_p := sub_pos.mpr (lt_of_le_of_ne hp1 c1)
  have hu : usub 1 0 = 1 := by unfold usub; norm_num
  rw [S.ln_binomial_one_zero, hu]
  simp [Real.exp_log hq]

/-- Bernoulli: `pmf 1 = p`, relative to `ln C(1,1) = 0` -/
theorem bernoulli_pmf_one_rel [SF ℝ] (S : LnBinomialOneSpec) (d : Bernoulli ℝ)
    (hn : d.f_b.f_n = 1) (hp0 : 0 ≤ d.f_b.f_p) :
    Bernoulli.pmf d 1 = d.f_b.f_p := by
  unfold Bernoulli.pmf Binomial.pmf; model_norm
  rw [hn, if_neg (by norm_num)]
  by_cases c0 : d.f_b.f_p = 0
  · rw [if_pos c0, c0]; simp
  rw [if_neg c0]
  by_cases c1 : d.f_b.f_p = 1
  · rw [if_pos c1, c1]; simp
  rw [if_neg c1]
  have hq : 0 < d.f_b.f_p := lt_of_le_of_ne hp0 (Ne.symm c0)
  have hu : usub 1 1 = 0 := by unfold usub; norm_num
  rw [S.ln_binomial_one_one, hu]
  simp [Real.exp_log hq]

/-- Bernoulli: `pmf k = 0` for `k > 1` (any `SF ℝ`) -/
theorem bernoulli_pmf_eq_zero [SF ℝ] (d : Bernoulli ℝ) (hn : d.f_b.f_n = 1) (k : Int) (hk : 1 < k) :
    Bernoulli.pmf d k = 0 := by
  unfold Bernoulli.pmf Binomial.pmf; model_norm
  rw [hn, if_pos hk]

/-- Bernoulli: `0 ≤ pmf k ≤ 1` for every `u64` argument `k` -/
theorem bernoulli_pmf_mem_unit_rel [SF ℝ] (S : LnBinomialOneSpec) (d : Bernoulli ℝ)
    (hn : d.f_b.f_n = 1) (hp0 : 0 ≤ d.f_b.f_p) (hp1 : d.f_b.f_p ≤ 1) (k : Int) (hk : 0 ≤ k) :
    0 ≤ Bernoulli.pmf d k ∧ Bernoulli.pmf d k ≤ 1 := by
  rcases (by omega : k = 0 ∨ k = 1 ∨ 1 < k) with rfl | rfl | h
  · rw [bernoulli_pmf_zero_rel S d hn hp1]; constructor <;> linarith
  · rw [bernoulli_pmf_one_rel S d hn hp0]; exact ⟨hp0, hp1⟩
  · rw [bernoulli_pmf_eq_zero d hn k h]; norm_num

/-- Bernoulli: `pmf 0 = cdf 0` and `pmf 1 = cdf 1 - cdf 0` (`k - 1` does not exist in `u64` for `k = 0`) -/
theorem bernoulli_pmf_eq_cdf_sub_rel [SF ℝ] (S : LnBinomialOneSpec) (d : Bernoulli ℝ)
    (hn : d.f_b.f_n = 1) (hp0 : 0 ≤ d.f_b.f_p) (hp1 : d.f_b.f_p ≤ 1) :
    Bernoulli.pmf d 0 = Bernoulli.cdf d 0 ∧
      Bernoulli.pmf d 1 = Bernoulli.cdf d 1 - Bernoulli.cdf d 0 := by
  rw [bernoulli_pmf_zero_rel S d hn hp1, bernoulli_pmf_one_rel S d hn hp0]
  unfold Bernoulli.cdf Binomial.p; model_norm
  constructor
  · rw [if_neg (by norm_num)]
  · rw [if_pos (by norm_num), if_neg (by norm_num)]; ring

/-- Bernoulli: the pmf sums to 1 over the support `{min..max} = {0,1}` -/
theorem bernoulli_sum_pmf_rel [SF ℝ] (S : LnBinomialOneSpec) (d : Bernoulli ℝ)
    (hn : d.f_b.f_n = 1) (hp0 : 0 ≤ d.f_b.f_p) (hp1 : d.f_b.f_p ≤ 1) :
    ∑ k ∈ Finset.Icc (Bernoulli.min d) (Bernoulli.max d), Bernoulli.pmf d k = 1 := by
  have : Finset.Icc (Bernoulli.min d) (Bernoulli.max d) = {0, 1} := by
    unfold Bernoulli.min Bernoulli.max; rfl
  rw [this, Finset.sum_pair (by norm_num), bernoulli_pmf_zero_rel S d hn hp1,
    bernoulli_pmf_one_rel S d hn hp0]
  ring

example : ∃ (_ : SF ℝ) (_ : LnBinomialOneSpec) (d : Bernoulli ℝ),
    d.f_b.f_n = 1 ∧ 0 ≤ d.f_b.f_p ∧ d.f_b.f_p ≤ 1 :=
  ⟨sfWitness, lnBinomialOneSpec_witness, ⟨⟨1 / 3, 1⟩⟩, rfl, by norm_num, by norm_num⟩


/-! ### Geometric
  `Geometric::pmf` now computes `(1-p).powf((k-1) as f64) * p` (it used to compute the exponent as
  `k as i32 - 1`, which wrapped for `k ≥ 2^31`), so every statement below holds for ALL `u64`
  arguments `k` — the former bound `k < 2^31` is gone, and the former counterexample at
  `k = 2^32 + 1` is now a positive instance (`geometric_pmf_eq_cdf_sub_large_k`). -/

/-- `usub k 1 = k - 1` for `1 ≤ k` (no unsigned underflow) -/
theorem geometric_usub_pred (k : Int) (hk1 : 1 ≤ k) : usub k 1 = k - 1 := by
  unfold usub; rw [if_neg (by omega)]

/-- closed form of the model pmf for EVERY `k ≥ 1` (no `i32` wrap any more) -/
theorem geometric_pmf_formula (d : Geometric ℝ) (k : Int) (hk1 : 1 ≤ k) :
    Geometric.pmf d k = (1 - d.f_p) ^ (k - 1) * d.f_p := by
  unfold Geometric.pmf
  model_norm
  rw [if_neg (by omega), geometric_usub_pred k hk1, Real.rpow_intCast]

/-- closed form of the model cdf (any `k ≠ 0`), for `p < 1` -/
theorem geometric_cdf_formula (d : Geometric ℝ) (hp1 : d.f_p < 1) (k : Int) :
    Geometric.cdf d k = 1 - (1 - d.f_p) ^ k := by
  unfold Geometric.cdf; model_norm
  have hq : 0 < 1 - d.f_p := by linarith
  split_ifs with h0
  · rw [h0]; simp
  · rw [show (1 + -d.f_p) = 1 - d.f_p by ring, Real.exp_mul, Real.exp_log hq, Real.rpow_intCast]; ring

/-- Geometric: `pmf 0 = 0` (`0` is the only `u64` point off the support) -/
theorem geometric_pmf_eq_zero (d : Geometric ℝ) : Geometric.pmf d 0 = 0 := by
  unfold Geometric.pmf; model_norm

/-- Geometric: `0 ≤ pmf k ≤ 1` for EVERY `k ≥ 0` (all accepted `p ∈ (0,1]`) -/
theorem geometric_pmf_mem_unit (d : Geometric ℝ) (hp0 : 0 < d.f_p) (hp1 : d.f_p ≤ 1)
    (k : Int) (hk0 : 0 ≤ k) :
    0 ≤ Geometric.pmf d k ∧ Geometric.pmf d k ≤ 1 := by
  rcases (by omega : k = 0 ∨ 1 ≤ k) with rfl | hk1
  · rw [geometric_pmf_eq_zero]; norm_num
  · rw [geometric_pmf_formula d k hk1]
    have hq0 : 0 ≤ 1 - d.f_p := by linarith
    have hq1 : 1 - d.f_p ≤ 1 := by linarith
    obtain ⟨n, hn⟩ : ∃ n : ℕ, k - 1 = n := ⟨(k - 1).toNat, by omega⟩
    rw [hn, zpow_natCast]
    have h1 : (1 - d.f_p) ^ n ≤ 1 := pow_le_one₀ hq0 hq1
    have h0 : 0 ≤ (1 - d.f_p) ^ n := pow_nonneg hq0 n
    constructor
    · positivity
    · calc (1 - d.f_p) ^ n * d.f_p ≤ 1 * 1 := mul_le_mul h1 hp1 hp0.le (by norm_num)
        _ = 1 := by ring

/-- Geometric: `pmf k = cdf k - cdf (k-1)` for EVERY `k ≥ 1`, `p < 1`.  PARTIAL only because `p = 1` is excluded: the cdf goes through `ln_1p(-1) = -inf`, which the ℝ carrier cannot represent.  (The former bound `k < 2^31` is no longer needed: the exponent is `(k-1) as f64`, not `k as i32 - 1`.) -/
theorem geometric_pmf_eq_cdf_sub_partial (d : Geometric ℝ) (hp1 : d.f_p < 1)
    (k : Int) (hk1 : 1 ≤ k) :
    Geometric.pmf d k = Geometric.cdf d k - Geometric.cdf d (k - 1) := by
  rw [geometric_pmf_formula d k hk1, geometric_cdf_formula d hp1, geometric_cdf_formula d hp1]
  have hq : (1 - d.f_p) ≠ 0 := by linarith
  rw [zpow_sub_one₀ hq]
  field_simp
  ring

/-- Geometric: partial sums telescope, `∑_{k=1}^{n} pmf k = cdf n`, for EVERY `n`, `p < 1` (PARTIAL only for `p = 1`, as above); with `geometric_cdf_tendsto_one` this is "sums to 1". -/
theorem geometric_sum_pmf_partial (d : Geometric ℝ) (hp1 : d.f_p < 1) (n : ℕ) :
    ∑ i ∈ Finset.range n, Geometric.pmf d ((i : Int) + 1) = Geometric.cdf d n := by
  induction n with
  | zero => simp [geometric_cdf_formula d hp1]
  | succ m ih =>
    rw [Finset.sum_range_succ, ih,
      geometric_pmf_eq_cdf_sub_partial d hp1 ((m : Int) + 1) (by omega)]
    push_cast
    ring_nf

/-- Geometric: `cdf n → 1` as `n → ∞` (0 < p < 1) -/
theorem geometric_cdf_tendsto_one (d : Geometric ℝ) (hp0 : 0 < d.f_p) (hp1 : d.f_p < 1) :
    Filter.Tendsto (fun n : ℕ => Geometric.cdf d (n : Int)) Filter.atTop (nhds 1) := by
  have h : (fun n : ℕ => Geometric.cdf d (n : Int)) = fun n : ℕ => 1 - (1 - d.f_p) ^ n := by
    funext n; rw [geometric_cdf_formula d hp1, zpow_natCast]
  rw [h]
  have := tendsto_pow_atTop_nhds_zero_of_lt_one (r := 1 - d.f_p) (by linarith) (by linarith)
  simpa using this.const_sub 1

/-- Geometric: the pmf sums to 1 over the support `{1, 2, …}` (0 < p < 1) -/
theorem geometric_hasSum_pmf (d : Geometric ℝ) (hp0 : 0 < d.f_p) (hp1 : d.f_p < 1) :
    HasSum (fun i : ℕ => Geometric.pmf d ((i : Int) + 1)) 1 := by
  have hnn : ∀ i : ℕ, 0 ≤ Geometric.pmf d ((i : Int) + 1) := fun i =>
    (geometric_pmf_mem_unit d hp0 hp1.le _ (by omega)).1
  rw [hasSum_iff_tendsto_nat_of_nonneg hnn]
  have := geometric_cdf_tendsto_one d hp0 hp1
  refine this.congr fun n => ?_
  rw [geometric_sum_pmf_partial d hp1 n]

/-- Geometric, large `k` (beyond the old `i32` wrap): every `k` with `2^31 ≤ k ≤ u64::MAX` satisfies
    `pmf k = (1-p)^(k-1) p = cdf k - cdf (k-1)`, and `pmf k < p` — before the fix the model gave e.g.
    `pmf (2^32+1) = p` -/
theorem geometric_pmf_eq_cdf_sub_large_k (d : Geometric ℝ) (hp0 : 0 < d.f_p) (hp1 : d.f_p < 1)
    (k : Int) (hk : 2 ^ 31 ≤ k) (_hk2 : k ≤ u64Max) :
    Geometric.pmf d k = (1 - d.f_p) ^ (k - 1) * d.f_p ∧
      Geometric.pmf d k = Geometric.cdf d k - Geometric.cdf d (k - 1) ∧
      Geometric.pmf d k < d.f_p := by
  have hk1 : 1 ≤ k := by omega
  refine ⟨geometric_pmf_formula d k hk1, geometric_pmf_eq_cdf_sub_partial d hp1 k hk1, ?_⟩
  rw [geometric_pmf_formula d k hk1]
  obtain ⟨n, hn⟩ : ∃ n : ℕ, k - 1 = n := ⟨(k - 1).toNat, by omega⟩
  have hn0 : n ≠ 0 := by rintro rfl; simp at hn; omega
  rw [hn, zpow_natCast]
  have hlt : (1 - d.f_p) ^ n < 1 := pow_lt_one₀ (by linarith) (by linarith) hn0
  calc (1 - d.f_p) ^ n * d.f_p < 1 * d.f_p := mul_lt_mul_of_pos_right hlt hp0
    _ = d.f_p := one_mul _

/-- the former counterexample witness `p = 1/2`, `k = 2^32 + 1 ≤ u64::MAX` is now a positive instance -/
example : ∃ (d : Geometric ℝ) (k : Int), 0 < d.f_p ∧ d.f_p < 1 ∧ 2 ^ 31 ≤ k ∧ k ≤ u64Max ∧
    Geometric.pmf d k = Geometric.cdf d k - Geometric.cdf d (k - 1) :=
  ⟨⟨1 / 2⟩, 4294967297, by norm_num, by norm_num, by norm_num, by norm_num [u64Max],
    (geometric_pmf_eq_cdf_sub_large_k _ (by norm_num) (by norm_num) _ (by norm_num)
      (by norm_num [u64Max])).2.1⟩

example : ∃ (d : Geometric ℝ), 0 < d.f_p ∧ d.f_p < 1 := ⟨⟨1 / 2⟩, by norm_num, by norm_num⟩


end Statrs.Props.C03
