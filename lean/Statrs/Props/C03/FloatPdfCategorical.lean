/-
  C03 (float level) — `Categorical.pmf` on every carrier satisfying the IEEE order laws (+ `ExtraLaws`):
  for a distribution built by `Categorical::new` (hand model) with a finite total mass, `pmf x` is not NaN
  and in `[0,1]` for EVERY integer `x`, and exactly `0` outside `[0, len)`.
-/
import Statrs.Props.C01.FloatRangeCategorical
set_option linter.unusedSectionVars false
namespace Statrs.Props.C03
open Statrs Statrs.Gen Statrs.Spec Statrs.Model Statrs.Lemmas.FloatCat Statrs.Props.C01

section
variable {α : Type} [Add α] [Sub α] [Mul α] [Div α] [Neg α] [LT α] [LE α] [BEq α]
  [DecidableLT α] [DecidableLE α] [OfScientific α] [Inhabited α] [RFun α]

/-- full(∀α): exactly `0` (the literal) outside the index range of the mass table -/
theorem categorical_pmf_outside (c : Categorical α) {x : Int} (h : x < 0 ∨ listLen c.f_norm_pmf ≤ x) :
    Categorical.pmf c x = (0.0 : α) := by
  unfold Categorical.pmf listGet?
  rcases h with h | h
  · rw [if_pos h]; rfl
  · rw [if_neg (by unfold listLen at h; omega), List.getElem?_eq_none (by unfold listLen at h; omega)]; rfl

variable (L : FloatLaws α) (E : ExtraLaws α)
include L E

/-- full(∀α): `0 ≤ pmf x ≤ 1` for every integer `x` -/
theorem categorical_pmf_mem_unit (pm : List α) (c : Categorical α) (h : Model.Categorical.new pm = .ok c)
    (hfin : Spec.Fin (Categorical.cdf_max c)) (x : Int) :
    (0.0 : α) ≤ Categorical.pmf c x ∧ Categorical.pmf c x ≤ (1.0 : α) := by
  obtain ⟨hne, hnn, hcdf, _, hpmf, hpos⟩ := categorical_new_spec L E pm c h
  have ok := categorical_new_tableOK L E pm c h hfin
  by_cases hx : x < 0 ∨ listLen c.f_norm_pmf ≤ x
  · rw [categorical_pmf_outside c hx]; exact ⟨L.zero_le_zero, L.zero_le_one⟩
  · have hlen : listLen c.f_norm_pmf = (pm.length : Int) := by rw [hpmf]; unfold listLen; simp
    have hi : x.toNat < pm.length := by omega
    have hval : Categorical.pmf c x = pm[x.toNat] / Categorical.cdf_max c := by
      unfold Categorical.pmf listGet?
      rw [if_neg (by omega), hpmf, List.getElem?_map, List.getElem?_eq_getElem hi]; rfl
    rw [hval]
    have hi' : x.toNat < c.f_cdf.length := by rw [hcdf, runSums_length]; exact hi
    have h1 : pm[x.toNat] ≤ c.f_cdf[x.toNat] := by
      have := mass_le_runSums L E pm _ L.zero_le_zero hnn x.toNat hi
      simpa only [hcdf] using this
    exact L.div_mem_unit (hnn _ (List.getElem_mem hi)) (L.le_tr h1 (cat_table_bounds L c ok hi').2)
      hpos hfin

/-- full(∀α): `pmf x` is never NaN -/
theorem categorical_pmf_nn (pm : List α) (c : Categorical α) (h : Model.Categorical.new pm = .ok c)
    (hfin : Spec.Fin (Categorical.cdf_max c)) (x : Int) : NN (Categorical.pmf c x) :=
  L.le_nnr (categorical_pmf_mem_unit L E pm c h hfin x).1

end
end Statrs.Props.C03
