/-
  C03 (float level) — `Cauchy.pdf` on every carrier satisfying the IEEE order laws and `ExtraLaws` (no libm
  call is involved: only `+ × ÷` and the constant `PI`): never NaN and non-negative for every non-NaN argument
  (also `±∞`).  Hypotheses: `Fin location`, `0 < scale`, `Fin scale` (see C01/FloatRangeCauchy).
  Left out: the value `0` at `±∞` (needs `∞·∞ = ∞`, `1 + ∞ = ∞`, `c·∞ = ∞`, `1/∞ = 0` as laws).
-/
import Statrs.Gen.D_cauchy
import Statrs.Lemmas.FloatLawsLibm
set_option linter.unusedSectionVars false
namespace Statrs.Props.C03
open Statrs Statrs.Gen Statrs.Spec

section
variable {α : Type} [Add α] [Sub α] [Mul α] [Div α] [Neg α] [LT α] [LE α] [BEq α]
  [DecidableLT α] [DecidableLE α] [OfScientific α] [Inhabited α] [RFun α]
variable (L : FloatLaws α) (E : ExtraLaws α)
variable (d : Cauchy α) (hloc : Spec.Fin d.f_location) (hs : (0.0 : α) < d.f_scale) (hsf : Spec.Fin d.f_scale)
include L E hloc hs hsf

omit hloc in
/-- full(∀α): `0 < π·scale` (not NaN) -/
theorem cauchy_pi_scale_pos : (0.0 : α) < (RFun.pi : α) * d.f_scale := by
  have h1 := L.exact.one_mul d.f_scale (L.lt_nnr hs)
  have hn : NN ((RFun.pi : α) * d.f_scale) := L.mul_nn E.pi_fin hsf
  exact L.lt_of_lt_of_le' hs (L.le_of_beq_of_le (L.beq_symm h1)
    (L.mono.mul_le_mul_right _ _ _ E.one_le_pi (L.lt_le hs) (L.beq_nnl h1) hn))

/-- full(∀α): `0 ≤ pdf x` (hence not NaN) for every non-NaN `x` -/
theorem cauchy_pdf_nonneg {x : α} (hx : NN x) : (0.0 : α) ≤ Cauchy.pdf d x := by
  unfold Cauchy.pdf
  have hz : NN ((x - d.f_location) / d.f_scale) :=
    L.div_nn (L.sub_nn hx (L.fin_nn' hloc) (Or.inr hloc)) (L.lt_nnr hs) (L.pos_not_beq_zero hs) (Or.inr hsf)
  have hzz := E.mul_self_nonneg L hz
  have hps := cauchy_pi_scale_pos L E d hs hsf
  -- `1 ≤ 1 + z²`
  have hsum : NN ((1.0 : α) + ((x - d.f_location) / d.f_scale) * ((x - d.f_location) / d.f_scale)) :=
    L.add_nn L.one_nn (L.le_nnr hzz) (Or.inl L.one_fin)
  have h10 := L.exact.add_zero (1.0 : α) L.one_nn
  have hone : (1.0 : α) ≤ (1.0 : α) + ((x - d.f_location) / d.f_scale) * ((x - d.f_location) / d.f_scale) :=
    L.le_of_beq_of_le (L.beq_symm h10) (L.mono.add_le_add_left _ _ _ hzz (L.beq_nnl h10) hsum)
  have hpos1 := L.lt_of_lt_of_le' L.zero_lt_one hone
  -- the denominator is `≥ π·scale > 0`
  have hden : NN (((RFun.pi : α) * d.f_scale) *
      ((1.0 : α) + ((x - d.f_location) / d.f_scale) * ((x - d.f_location) / d.f_scale))) :=
    L.mul_nn_of_ne_zero (L.lt_nnr hps) hsum (L.pos_not_beq_zero hps) (L.pos_not_beq_zero hpos1)
  have hm1 := L.exact.mul_one ((RFun.pi : α) * d.f_scale) (L.lt_nnr hps)
  have hge := L.le_of_beq_of_le (L.beq_symm hm1)
    (L.mono.mul_le_mul_left _ _ _ hone (L.lt_le hps) (L.beq_nnl hm1) hden)
  exact L.div_nonneg L.zero_le_one (L.lt_of_lt_of_le' hps hge) (Or.inl L.one_fin)

/-- full(∀α): `pdf x` is not NaN for a non-NaN `x` -/
theorem cauchy_pdf_nn {x : α} (hx : NN x) : NN (Cauchy.pdf d x) :=
  L.le_nnr (cauchy_pdf_nonneg L E d hloc hs hsf hx)

omit E hloc hs hsf in
/-- full(∀α): a NaN argument gives NaN -/
theorem cauchy_pdf_nan {x : α} (hx : RFun.isNaN x = true) : RFun.isNaN (Cauchy.pdf d x) = true := by
  unfold Cauchy.pdf
  apply L.div_nan_right; apply L.mul_nan_right; apply L.add_nan_right; apply L.mul_nan_left
  exact L.div_nan_left _ (L.sub_nan_left _ hx)

end
end Statrs.Props.C03
