/-
  C03 (float level) — `DiscreteUniform.pmf` on every carrier satisfying the IEEE order laws + `OfIntLaws`:
  never NaN, in `[0,1]`, exactly `0` outside `[min, max]`.
  Hypotheses: `min ≤ max` (constructor) and the `i64` range of the fields (so that `max − min + 1 ≤ 2^64`
  converts to a finite value).
-/
import Statrs.Gen.D_discrete_uniform
import Statrs.Lemmas.FloatLawsBasic
set_option linter.unusedSectionVars false
namespace Statrs.Props.C03
open Statrs Statrs.Gen Statrs.Spec

section
variable {α : Type} [Add α] [Sub α] [Mul α] [Div α] [Neg α] [LT α] [LE α] [BEq α]
  [DecidableLT α] [DecidableLE α] [OfScientific α] [Inhabited α] [RFun α]
variable (L : FloatLaws α) (d : DiscreteUniform) (hle : d.f_min ≤ d.f_max)
  (hmin : i64Min ≤ d.f_min) (hmax : d.f_max ≤ i64Max)
include L hle hmin hmax

/-- full(∀α): the number of points converts to a finite value `≥ 1` -/
theorem du_count_bounds :
    Spec.Fin (RFun.ofInt ((d.f_max - d.f_min) + (1 : Int)) : α) ∧
    (1.0 : α) ≤ (RFun.ofInt ((d.f_max - d.f_min) + (1 : Int)) : α) := by
  constructor
  · apply L.ofInt.ofInt_fin <;> simp only [i64Min, i64Max] at hmin hmax <;> omega
  · simp only [i64Min, i64Max] at hmin hmax
    exact L.le_of_beq_of_le (L.beq_symm L.ofInt.ofInt_one)
      (L.ofInt.ofInt_mono _ _ (by omega) (by omega) (by omega))

/-- full(∀α): `0 ≤ pmf x ≤ 1` for every integer `x` -/
theorem du_pmf_mem_unit (x : Int) :
    (0.0 : α) ≤ DiscreteUniform.pmf (α := α) d x ∧ DiscreteUniform.pmf (α := α) d x ≤ (1.0 : α) := by
  obtain ⟨hf, h1⟩ := du_count_bounds L d hle hmin hmax
  unfold DiscreteUniform.pmf
  split_ifs
  · exact L.div_mem_unit L.zero_le_one h1 (L.lt_of_lt_of_le' L.zero_lt_one h1) hf
  · exact ⟨L.zero_le_zero, L.zero_le_one⟩

/-- full(∀α): `pmf x` is never NaN -/
theorem du_pmf_nn (x : Int) : NN (DiscreteUniform.pmf (α := α) d x) :=
  L.le_nnr (du_pmf_mem_unit L d hle hmin hmax x).1

omit L hle hmin hmax in
/-- full(∀α): exactly `0` (the literal) outside the support -/
theorem du_pmf_outside {x : Int} (h : x < d.f_min ∨ d.f_max < x) :
    DiscreteUniform.pmf (α := α) d x = (0.0 : α) := by
  unfold DiscreteUniform.pmf; rw [if_neg (by omega)]

end
end Statrs.Props.C03
