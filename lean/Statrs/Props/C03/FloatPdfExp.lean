/-
  C03 (float level, `…_libm`) — `Exp.pdf` on every carrier satisfying the IEEE order laws, `ExtraLaws` and
  `LibmLaws`: never NaN and non-negative for a non-NaN argument, exactly `0` below `0` and at `−∞`,
  `== 0` at `+∞`.  Hypotheses: `0 < rate` (constructor) and `Fin rate`.
-/
import Statrs.Props.C01.FloatRangeExp
set_option linter.unusedSectionVars false
namespace Statrs.Props.C03
open Statrs Statrs.Gen Statrs.Spec Statrs.Props.C01

section
variable {α : Type} [Add α] [Sub α] [Mul α] [Div α] [Neg α] [LT α] [LE α] [BEq α]
  [DecidableLT α] [DecidableLE α] [OfScientific α] [Inhabited α] [RFun α]
variable (L : FloatLaws α) (E : ExtraLaws α) (M : LibmLaws α) (d : Exp α)
  (hr : (0.0 : α) < d.f_rate) (hf : Spec.Fin d.f_rate)
include L E M hr hf

omit L E M hr hf in
/-- full(∀α): exactly `0` (the literal) below the support -/
theorem exp_pdf_neg {x : α} (h : x < (0.0 : α)) : Exp.pdf d x = (0.0 : α) := by
  unfold Exp.pdf; rw [if_pos h]
omit L E M hr hf in
/-- full(∀α): the interior branch of `Exp.pdf` -/
theorem exp_pdf_nonneg_arg {x : α} (h : ¬ x < (0.0 : α)) :
    Exp.pdf d x = d.f_rate * RFun.exp ((-d.f_rate) * x) := by
  unfold Exp.pdf; rw [if_neg h]

/-- rel(LibmLaws): `0 ≤ pdf x` (hence not NaN) for every non-NaN `x` -/
theorem exp_pdf_nonneg_libm {x : α} (hx : NN x) : (0.0 : α) ≤ Exp.pdf d x := by
  by_cases h : x < (0.0 : α)
  · rw [exp_pdf_neg d h]; exact L.zero_le_zero
  · rw [exp_pdf_nonneg_arg d h]
    have h0 := L.le_of_not_lt hx L.zero_nn h
    have hfe := M.exp_fin_of_nonpos L E (E.neg_rate_mul L hr hf h0).2.1
    exact L.mul_nonneg (L.lt_le hr) (exp_tail_mem_unit L E M d hr hf h0).1 (Or.inl hf) (L.mul_nn hf hfe)

/-- rel(LibmLaws): `pdf x` is not NaN for a non-NaN `x` -/
theorem exp_pdf_nn_libm {x : α} (hx : NN x) : NN (Exp.pdf d x) := L.le_nnr (exp_pdf_nonneg_libm L E M d hr hf hx)

omit E hr hf in
/-- rel(LibmLaws): a NaN argument gives NaN -/
theorem exp_pdf_nan_libm {x : α} (hx : RFun.isNaN x = true) : RFun.isNaN (Exp.pdf d x) = true := by
  rw [exp_pdf_nonneg_arg d (L.not_lt_nan_left hx)]
  apply L.mul_nan_right; rw [M.exp_nan]; exact L.mul_nan_right _ hx

/-- rel(LibmLaws): `pdf(−∞) = 0` (literal) and `pdf(+∞) == 0` -/
theorem exp_pdf_inf_libm :
    Exp.pdf d (RFun.negInf : α) = (0.0 : α) ∧ (Exp.pdf d (RFun.inf : α) == (0.0 : α)) = true := by
  refine ⟨exp_pdf_neg d (E.negInf_lt_fin L L.zero_fin), ?_⟩
  rw [exp_pdf_nonneg_arg d (L.le_not_lt (L.le_inf L.zero_nn))]
  obtain ⟨_, hle, hb, _⟩ := E.neg_rate_mul L hr hf (L.le_inf L.zero_nn)
  have h1 := M.exp_of_beq_negInf L
    (L.beq_tr hb (L.beq_tr (ExtraLaws.neg_congr L (E.mul_inf_of_pos _ hr)) E.neg_inf_eq))
  have hfe := M.exp_fin_of_nonpos L E hle
  exact L.beq_tr (L.exact.mul_congr _ _ _ _ (L.beq_rfl' (L.fin_nn' hf)) h1 (L.mul_nn hf hfe))
    (L.exact.mul_zero _ hf)

end
end Statrs.Props.C03
