/-
  C03 (float level, `…_libm`) — `Laplace.pdf` on every carrier satisfying the IEEE order laws, `ExtraLaws` and
  `LibmLaws`: never NaN and non-negative for a non-NaN argument.  Hypotheses as in C01/FloatRangeLaplace.
  (The support is the whole line; the values at `±∞` are `exp(−∞)/(2s)`, `== 0`.)
-/
import Statrs.Props.C01.FloatRangeLaplace
set_option linter.unusedSectionVars false
namespace Statrs.Props.C03
open Statrs Statrs.Gen Statrs.Spec Statrs.Props.C01

section
variable {α : Type} [Add α] [Sub α] [Mul α] [Div α] [Neg α] [LT α] [LE α] [BEq α]
  [DecidableLT α] [DecidableLE α] [OfScientific α] [Inhabited α] [RFun α]
variable (L : FloatLaws α) (E : ExtraLaws α) (M : LibmLaws α) (d : Laplace α)
  (hloc : Spec.Fin d.f_location) (hs : (0.0 : α) < d.f_scale) (hsf : Spec.Fin d.f_scale)
include L E M hloc hs hsf

omit E M hloc in
/-- full(∀α): the normalising denominator `2·scale` is positive (and not NaN) -/
theorem laplace_den_pos : (0.0 : α) < (2.0 : α) * d.f_scale := by
  have h1 := L.exact.one_mul d.f_scale (L.lt_nnr hs)
  have hn : NN ((2.0 : α) * d.f_scale) := L.mul_nn L.two_fin hsf
  have hle : (1.0 : α) * d.f_scale ≤ (2.0 : α) * d.f_scale :=
    L.mono.mul_le_mul_right _ _ _ (L.lt_le L.lit.one_lt_two) (L.lt_le hs) (L.beq_nnl h1) hn
  exact L.lt_of_lt_of_le' hs (L.le_of_beq_of_le (L.beq_symm h1) hle)

/-- rel(LibmLaws): `0 ≤ pdf x` (hence not NaN) for every non-NaN `x` -/
theorem laplace_pdf_nonneg_libm {x : α} (hx : NN x) : (0.0 : α) ≤ Laplace.pdf d x := by
  unfold Laplace.pdf
  obtain ⟨_, _, hle⟩ := lap_g_mem L E M d hloc hs hsf (lap_abs_nonneg L E d hloc hx)
  exact L.div_nonneg (M.exp_mem_unit L hle).1 (laplace_den_pos L d hs hsf)
    (Or.inl (M.exp_fin_of_nonpos L E hle))

/-- rel(LibmLaws): `pdf x` is not NaN for a non-NaN `x` -/
theorem laplace_pdf_nn_libm {x : α} (hx : NN x) : NN (Laplace.pdf d x) :=
  L.le_nnr (laplace_pdf_nonneg_libm L E M d hloc hs hsf hx)

omit hloc hs hsf in
/-- rel(LibmLaws): a NaN argument gives NaN -/
theorem laplace_pdf_nan_libm {x : α} (hx : RFun.isNaN x = true) : RFun.isNaN (Laplace.pdf d x) = true := by
  unfold Laplace.pdf
  apply L.div_nan_left; rw [M.exp_nan]; apply L.div_nan_left; rw [L.nan.neg_nan, E.abs_nan]
  exact L.sub_nan_left _ hx

end
end Statrs.Props.C03
