/-
  C03 (float level) — `Triangular.pdf` on every carrier satisfying the IEEE order laws (+ `ExtraLaws`):
  never NaN and non-negative for EVERY argument (a NaN argument gives `0`), exactly `0` outside `[min, max]`
  and at `±∞`.  Hypotheses: `TriangularOK` (see C01/FloatRangeTriangular; without the no-underflow condition
  on the denominators the density is `+∞` or NaN: `triangular_pdf_underflow_counterexample`).
-/
import Statrs.Props.C01.FloatRangeTriangular
set_option linter.unusedSectionVars false
namespace Statrs.Props.C03
open Statrs Statrs.Gen Statrs.Spec Statrs.Props.C01

section
variable {α : Type} [Add α] [Sub α] [Mul α] [Div α] [Neg α] [LT α] [LE α] [BEq α]
  [DecidableLT α] [DecidableLE α] [OfScientific α] [Inhabited α] [RFun α]
variable (L : FloatLaws α) (E : ExtraLaws α) (d : Triangular α) (ok : TriangularOK d)
include L E ok

/-- full(∀α): `0 ≤ pdf x` for EVERY argument (for a NaN argument every guard is false and the result is `0`) -/
theorem triangular_pdf_nonneg_fl (x : α) : (0.0 : α) ≤ Triangular.pdf d x := by
  have h2 : (0.0 : α) ≤ 2.0 := L.lt_le L.zero_lt_two
  unfold Triangular.pdf
  simp only []
  split_ifs with h1 h2' h3
  · exact L.div_nonneg h2 (E.sub_pos _ _ ok.lt (L.fin_nn' ok.width_fin)) (Or.inl L.two_fin)
  · obtain ⟨a0, _, a2⟩ := tri_sub_min L E d ok h2'.1 (L.le_tr (L.lt_le h2'.2) ok.mode_le_max)
    obtain ⟨dp, df⟩ := ok.den_lo (L.lt_of_le_of_lt' h2'.1 h2'.2)
    exact L.div_nonneg (L.mul_nonneg h2 a0 (Or.inl L.two_fin) (L.mul_nn L.two_fin a2)) dp (Or.inr df)
  · obtain ⟨a0, _, a2⟩ := tri_max_sub L E d ok (L.le_tr ok.min_le_mode (L.lt_le h3.1)) h3.2
    obtain ⟨dp, df⟩ := ok.den_hi (L.lt_of_lt_of_le' h3.1 h3.2)
    exact L.div_nonneg (L.mul_nonneg h2 a0 (Or.inl L.two_fin) (L.mul_nn L.two_fin a2)) dp (Or.inr df)
  · exact L.zero_le_zero

/-- full(∀α): `pdf x` is never NaN -/
theorem triangular_pdf_nn (x : α) : NN (Triangular.pdf d x) := L.le_nnr (triangular_pdf_nonneg_fl L E d ok x)

omit E in
/-- full(∀α): exactly `0` (the literal) outside `[min, max]` -/
theorem triangular_pdf_outside {x : α} (h : x < d.f_min ∨ d.f_max < x) : Triangular.pdf d x = (0.0 : α) := by
  unfold Triangular.pdf
  simp only []
  rcases h with h | h
  · have hc : x < d.f_mode := L.lt_of_lt_of_le' h ok.min_le_mode
    rw [if_neg (L.lt_not_beq hc), if_neg (fun h' => L.lt_not_le h h'.1), if_neg (fun h' => L.lt_not_le hc (L.lt_le h'.1))]
  · have hc : d.f_mode < x := L.lt_of_le_of_lt' ok.mode_le_max h
    rw [if_neg (L.lt_not_beq' hc), if_neg (fun h' => L.lt_not_le hc (L.lt_le h'.2)), if_neg (fun h' => L.lt_not_le h h'.2)]

omit E ok in
/-- full(∀α): NaN argument ⇒ `0` (NOT NaN) -/
theorem triangular_pdf_nan_arg {x : α} (hx : RFun.isNaN x = true) : Triangular.pdf d x = (0.0 : α) := by
  unfold Triangular.pdf
  simp only []
  rw [if_neg (fun h => by have := L.beq_nnl h; simp [NN, hx] at this),
    if_neg (fun h' => L.not_le_nan_right hx h'.1), if_neg (fun h' => L.not_lt_nan_right hx h'.1)]

/-- full(∀α): exactly `0` at `−∞` and `+∞` -/
theorem triangular_pdf_inf :
    Triangular.pdf d (RFun.negInf : α) = (0.0 : α) ∧ Triangular.pdf d (RFun.inf : α) = (0.0 : α) :=
  ⟨triangular_pdf_outside L d ok (Or.inl (E.negInf_lt_fin L ok.min_fin)),
   triangular_pdf_outside L d ok (Or.inr (E.fin_lt_inf L ok.max_fin))⟩

end

set_option exponentiation.threshold 400 in
set_option maxRecDepth 100000 in
/-- counterexample (to finiteness, not to the sign): with an underflowing denominator the density is `+∞`:
    `Triangular(0, 1e-200, 1e-200).pdf(5e-201) = 1e-200 / 0 = +∞`. -/
theorem triangular_pdf_underflow_counterexample :
    RFun.isInf (Triangular.pdf ({ f_min := 0.0, f_max := 1e-200, f_mode := 1e-200 } : Triangular Float) 5e-201)
      = true := by
  decide

end Statrs.Props.C03
