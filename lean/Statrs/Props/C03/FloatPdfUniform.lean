/-
  C03 (float level) — `Uniform.pdf` on every carrier satisfying the IEEE order laws: never NaN (for ANY
  argument, NaN included), non-negative, exactly `0` outside `[min, max]` and at `±∞`.
  Hypotheses: exactly what `Uniform.new` guarantees (no overflow condition is needed: `1/∞ = 0`).
-/
import Statrs.Gen.D_uniform
import Statrs.Lemmas.FloatLawsBasic
import Statrs.Lemmas.FloatLawsExtra
set_option linter.unusedSectionVars false
namespace Statrs.Props.C03
open Statrs Statrs.Gen Statrs.Spec

section
variable {α : Type} [Add α] [Sub α] [Mul α] [Div α] [Neg α] [LT α] [LE α] [BEq α]
  [DecidableLT α] [DecidableLE α] [OfScientific α] [Inhabited α] [RFun α]
variable (L : FloatLaws α) (E : ExtraLaws α) (d : Uniform α)
  (hmin : Spec.Fin d.f_min) (hmax : Spec.Fin d.f_max) (hlt : d.f_min < d.f_max)
include L E hmin hmax hlt

/-- full(∀α): the density value `1 / (max − min)` is non-negative (and not NaN); overflow of the width
    gives `1/∞ = +0` -/
theorem uniform_density_nonneg : (0.0 : α) ≤ (1.0 : α) / (d.f_max - d.f_min) := by
  have hw : (0.0 : α) < d.f_max - d.f_min :=
    E.sub_pos _ _ hlt (L.sub_nn (L.fin_nn' hmax) (L.fin_nn' hmin) (Or.inl hmax))
  exact L.div_nonneg L.zero_le_one hw (Or.inl L.one_fin)

/-- full(∀α): `0 ≤ pdf x` for EVERY `x` — also for a NaN argument, where both guards are false and the code
    returns the density value `1/(max − min)` instead of NaN -/
theorem uniform_pdf_nonneg_fl (x : α) : (0.0 : α) ≤ Uniform.pdf d x := by
  unfold Uniform.pdf
  split_ifs
  · exact L.zero_le_zero
  · exact uniform_density_nonneg L E d hmin hmax hlt

/-- full(∀α): `pdf x` is never NaN -/
theorem uniform_pdf_nn (x : α) : NN (Uniform.pdf d x) := L.le_nnr (uniform_pdf_nonneg_fl L E d hmin hmax hlt x)

omit L E hmin hmax hlt in
/-- full(∀α): NaN argument ⇒ the code returns `1/(max − min)` (NOT NaN: `x < min` and `x > max` are both
    false).  Stated for any `x` for which both comparisons fail. -/
theorem uniform_pdf_unordered {x : α} (h1 : ¬ x < d.f_min) (h2 : ¬ d.f_max < x) :
    Uniform.pdf d x = (1.0 : α) / (d.f_max - d.f_min) := by
  unfold Uniform.pdf; rw [if_neg (by tauto)]

omit E hmin hmax hlt in
/-- full(∀α): NaN argument ⇒ the code returns the density value `1/(max − min)`, not NaN -/
theorem uniform_pdf_nan_arg {x : α} (hx : RFun.isNaN x = true) :
    Uniform.pdf d x = (1.0 : α) / (d.f_max - d.f_min) :=
  uniform_pdf_unordered d (L.not_lt_nan_left hx) (L.not_lt_nan_right hx)

omit L E hmin hmax hlt in
/-- full(∀α): exactly `0` (the literal) outside the support -/
theorem uniform_pdf_outside {x : α} (h : x < d.f_min ∨ d.f_max < x) : Uniform.pdf d x = (0.0 : α) := by
  unfold Uniform.pdf; rw [if_pos h]

omit hlt in
/-- full(∀α): exactly `0` at `−∞` and at `+∞` -/
theorem uniform_pdf_inf :
    Uniform.pdf d (RFun.negInf : α) = (0.0 : α) ∧ Uniform.pdf d (RFun.inf : α) = (0.0 : α) :=
  ⟨uniform_pdf_outside d (Or.inl (E.negInf_lt_fin L hmin)), uniform_pdf_outside d (Or.inr (E.fin_lt_inf L hmax))⟩

end
end Statrs.Props.C03
