/-
  C03 (continuous families whose cdf is a regularised incomplete gamma function) — over ℝ, relative
  to explicit premises about the abstract `SF ℝ` (`SFDerivSpec.lean`):
    * `HasDerivAt (X.cdf d) (X.pdf d x) x` at every `x ≠ 0` (the support boundary, the only branch
      point of the generated cdf over ℝ), i.e. the generated pdf formula IS the derivative of the
      generated cdf formula (normalising constant, exponents, Jacobian of `x·rate`, `x²/2`, `rate/x`);
    * continuity of the cdf at `0`, hence `∫ t in a..b, pdf t = cdf b − cdf a` for every `a ≤ b`.
  Families: Gamma, Erlang, ChiSquared (cdf `P(shape, x·rate)`), Chi (`P(k/2, x²/2)`),
  InverseGamma (`Q(shape, rate/x)`).
  Premises: `Spec.GammaDensitySpec` (`SF.gamma = Γ`, `SF.ln_gamma = log Γ`), `GammaLrDerivSpec`,
  `GammaUrDerivSpec`.
  Chi: over ℝ `RFun.inf = 0`, so the guard `x == inf` of `Chi::cdf` fires at `x = 0` and the model
  value `cdf 0 = 1` is junk (model limit, not a code defect); integrals are stated for limits `≠ 0`.
  The premise structures are jointly satisfiable (true functions): `Witness.sfDeriv_specs_consistent`
  in `SFDerivWitness.lean`, so none of the `…_rel` theorems below is vacuous.
-/
import Statrs.Real.Simp
import Statrs.Lemmas.Density
import Statrs.Lemmas.DensityFTC
import Statrs.Spec.SFSpec_Density
import Statrs.Props.C03.SFDerivSpec
import Statrs.Gen.D_gamma
import Statrs.Gen.D_erlang
import Statrs.Gen.D_chi_squared
import Statrs.Gen.D_chi
import Statrs.Gen.D_inverse_gamma
import Mathlib.Tactic
import Mathlib.Analysis.SpecialFunctions.Pow.Deriv
import Mathlib.Analysis.SpecialFunctions.ExpDeriv
namespace Statrs.Props.C03
open Statrs Statrs.Gen Statrs.Lemmas.Density Statrs.Spec Filter Topology Set

/-! ### real-analysis helpers -/
/-- `exp (y · log x) = x ^ y` for `x > 0` -/
theorem exp_mul_log {x : ℝ} (hx : 0 < x) (y : ℝ) : Real.exp (y * Real.log x) = x ^ y := by
  rw [Real.rpow_def_of_pos hx, mul_comm]

/-- continuity at a kink from one-sided local agreement with one-sidedly continuous branches -/
theorem continuousAt_of_branches_within {F G₁ G₂ : ℝ → ℝ} {l k u : ℝ} (hl : l < k) (hu : k < u)
    (h₁ : ∀ y, l < y → y ≤ k → F y = G₁ y) (h₂ : ∀ y, k ≤ y → y < u → F y = G₂ y)
    (c₁ : ContinuousWithinAt G₁ (Iic k) k) (c₂ : ContinuousWithinAt G₂ (Ici k) k) :
    ContinuousAt F k := by
  rw [continuousAt_iff_continuous_left_right]
  constructor
  · refine c₁.congr_of_eventuallyEq ?_ (h₁ k hl le_rfl)
    filter_upwards [Ioc_mem_nhdsLE hl] with y hy using h₁ y hy.1 hy.2
  · refine c₂.congr_of_eventuallyEq ?_ (h₂ k le_rfl hu)
    filter_upwards [Ico_mem_nhdsGE hu] with y hy using h₂ y hy.1 hy.2

/-- a function that vanishes on `(-∞,0]` and tends to `0` from the right is continuous at `0` -/
theorem continuousAt_zero_of_tendsto {F : ℝ → ℝ} (h0 : ∀ y, y ≤ 0 → F y = 0)
    (ht : Tendsto F (𝓝[>] 0) (𝓝 0)) : ContinuousAt F 0 := by
  refine continuousAt_of_branches_within (G₁ := fun _ => (0:ℝ)) (G₂ := F) (l := -1) (u := 1)
    (by norm_num) (by norm_num) (fun y _ hy => h0 y hy) (fun _ _ _ => rfl)
    continuousWithinAt_const ?_
  rw [← continuousWithinAt_Ioi_iff_Ici]
  unfold ContinuousWithinAt
  rw [h0 0 le_rfl]; exact ht

/-- `(x·x/2)^(c) · x = 2^(-c) · x^(2c+1)`, the Jacobian bookkeeping of Chi -/
theorem chi_rpow_aux {x : ℝ} (hx : 0 < x) (k : ℝ) :
    (x * x / 2) ^ (k / 2 - 1) * x = (2:ℝ) ^ (1 - k / 2) * x ^ (k - 1) := by
  have h2 : (0:ℝ) < 2 := by norm_num
  rw [Real.div_rpow (mul_self_nonneg x) h2.le, Real.mul_rpow hx.le hx.le,
    show (1 - k / 2 : ℝ) = -(k / 2 - 1) by ring, Real.rpow_neg h2.le,
    show (k - 1 : ℝ) = (k / 2 - 1) + (k / 2 - 1) + 1 by ring, Real.rpow_add hx, Real.rpow_add hx,
    Real.rpow_one]
  have : (2:ℝ) ^ (k / 2 - 1) ≠ 0 := (Real.rpow_pos_of_pos h2 _).ne'
  field_simp

/-- `(r/x)^(a-1) · (r/x²) = r^a · x^(-a-1)`, the Jacobian bookkeeping of InverseGamma -/
theorem inverse_gamma_rpow_aux {r x : ℝ} (hr : 0 < r) (hx : 0 < x) (a : ℝ) :
    (r / x) ^ (a - 1) * (r / (x * x)) = r ^ a * x ^ (-a - 1) := by
  rw [Real.div_rpow hr.le hx.le, Real.rpow_sub_one hr.ne' a,
    show (-a - 1 : ℝ) = -((a - 1) + 1 + 1) by ring, Real.rpow_neg hx.le, Real.rpow_add hx,
    Real.rpow_add hx, Real.rpow_one]
  have : x ^ (a - 1) ≠ 0 := (Real.rpow_pos_of_pos hx _).ne'
  field_simp

/-- over ℝ the value standing for `+∞` is `0` -/
theorem real_inf_eq_zero : (RFun.inf : ℝ) = 0 := rfl

variable [SF ℝ]

/-! ### Gamma -/
/-- Gamma: on `(0,∞)` all three branches of the generated pdf (`shape = 1`, `shape > 160` via
    `exp ∘ ln_pdf`, direct) are `rate^shape · x^(shape−1) · e^{−rate·x} / Γ(shape)` -/
theorem gamma_pdf_formula_rel (G : GammaDensitySpec) (d : Gamma ℝ) (hs : 0 < d.f_shape)
    (hr : 0 < d.f_rate) (x : ℝ) (hx : 0 < x) :
    Gamma.pdf d x = d.f_rate ^ d.f_shape * x ^ (d.f_shape - 1) * Real.exp (-(d.f_rate * x)) /
      Real.Gamma d.f_shape := by
  have hG : 0 < Real.Gamma d.f_shape := Real.Gamma_pos_of_pos hs
  unfold Gamma.pdf Gamma.ln_pdf; model_norm
  rw [if_neg (not_lt.mpr hx.le)]
  split_ifs with h1 h160 h0
  · rw [h1]; simp [Real.Gamma_one]
  · exact absurd h0 (not_lt.mpr hx.le)
  · rw [G.ln_gamma_eq _ hs, Real.exp_sub, Real.exp_sub, Real.exp_add, exp_mul_log hr, exp_mul_log hx,
      Real.exp_log hG, Real.exp_neg]
    field_simp
  · rw [G.gamma_eq _ hs, neg_mul]

/-- Gamma: `0 ≤ pdf x` for every x -/
theorem gamma_pdf_nonneg_rel (G : GammaDensitySpec) (d : Gamma ℝ) (hs : 0 < d.f_shape)
    (hr : 0 < d.f_rate) (x : ℝ) : 0 ≤ Gamma.pdf d x := by
  have hG : 0 < Real.Gamma d.f_shape := Real.Gamma_pos_of_pos hs
  rcases lt_trichotomy x 0 with hx | hx | hx
  · unfold Gamma.pdf; model_norm; rw [if_pos hx]
  · subst hx
    unfold Gamma.pdf; model_norm
    rw [if_neg (lt_irrefl _)]
    split_ifs
    · positivity
    · positivity
    · rw [G.gamma_eq _ hs]
      have := Real.rpow_nonneg (le_refl (0:ℝ)) (d.f_shape - 1)
      positivity
  · rw [gamma_pdf_formula_rel G d hs hr x hx]
    positivity

/-- Gamma: `cdf` has derivative `pdf x` at every `x ≠ 0`.  (`x = 0` is the support boundary and the
    only branch point of `Gamma::cdf` over ℝ — the `is_infinite` guards never fire, and the
    `scaled == 0.0` guard is `x·rate = 0`, impossible for `x > 0`, `rate > 0`.) -/
theorem gamma_hasDerivAt_cdf_rel (G : GammaDensitySpec) (D : GammaLrDerivSpec) (d : Gamma ℝ)
    (hs : 0 < d.f_shape) (hr : 0 < d.f_rate) (x : ℝ) (hx : x ≠ 0) :
    HasDerivAt (Gamma.cdf d) (Gamma.pdf d x) x := by
  rcases lt_or_gt_of_ne hx with hneg | hpos
  · have hE : Gamma.cdf d =ᶠ[nhds x] fun _ => (0:ℝ) := by
      filter_upwards [Iio_mem_nhds hneg] with y hy'
      have hy : y < 0 := hy'
      unfold Gamma.cdf; model_norm; rw [if_pos hy.le]
    have hp : Gamma.pdf d x = 0 := by unfold Gamma.pdf; model_norm; rw [if_pos hneg]
    rw [hp]
    exact (hasDerivAt_const x (0:ℝ)).congr_of_eventuallyEq hE
  · have hE : Gamma.cdf d =ᶠ[nhds x] fun y => SF.gamma_lr d.f_shape (y * d.f_rate) := by
      filter_upwards [Ioi_mem_nhds hpos] with y hy'
      have hy : 0 < y := hy'
      unfold Gamma.cdf; model_norm
      rw [if_neg (not_le.mpr hy), if_neg (mul_ne_zero hy.ne' hr.ne')]
    rw [gamma_pdf_formula_rel G d hs hr x hpos]
    have h1 : HasDerivAt (fun y : ℝ => y * d.f_rate) d.f_rate x := by
      simpa using (hasDerivAt_id' x).mul_const d.f_rate
    have h2 := D.lr_hasDerivAt d.f_shape (x * d.f_rate) hs (mul_pos hpos hr)
    have h3 := h2.comp x h1
    refine (h3.congr_deriv ?_).congr_of_eventuallyEq hE
    rw [Real.mul_rpow hpos.le hr.le, Real.rpow_sub_one hr.ne' d.f_shape, mul_comm x d.f_rate]
    field_simp

/-- Gamma: the cdf is continuous (also at the support boundary `x = 0`) -/
theorem gamma_continuous_cdf_rel (G : GammaDensitySpec) (D : GammaLrDerivSpec) (d : Gamma ℝ)
    (hs : 0 < d.f_shape) (hr : 0 < d.f_rate) : Continuous (Gamma.cdf d) := by
  refine continuous_iff_continuousAt.mpr fun x => ?_
  by_cases hx : x = 0
  · subst hx
    refine continuousAt_zero_of_tendsto ?_ ?_
    · intro y hy; unfold Gamma.cdf; model_norm; rw [if_pos hy]
    · have ht : Tendsto (fun y : ℝ => y * d.f_rate) (𝓝[>] 0) (𝓝[>] 0) := by
        refine tendsto_nhdsWithin_of_tendsto_nhds_of_eventually_within _ ?_ ?_
        · have : Tendsto (fun y : ℝ => y * d.f_rate) (𝓝 0) (𝓝 (0 * d.f_rate)) :=
            (continuous_id.mul continuous_const).tendsto 0
          rw [zero_mul] at this
          exact this.mono_left nhdsWithin_le_nhds
        · filter_upwards [self_mem_nhdsWithin] with y hy using mul_pos hy hr
      refine ((D.lr_tendsto_zero d.f_shape hs).comp ht).congr' ?_
      filter_upwards [self_mem_nhdsWithin] with y hy
      have hy' : 0 < y := hy
      unfold Gamma.cdf; model_norm
      rw [if_neg (not_le.mpr hy'), if_neg (mul_ne_zero hy'.ne' hr.ne')]; rfl
  · exact (gamma_hasDerivAt_cdf_rel G D d hs hr x hx).continuousAt

/-- Gamma: `∫ a..b pdf = cdf b - cdf a` for every `a ≤ b` (intervals across 0 included) -/
theorem gamma_integral_pdf_rel (G : GammaDensitySpec) (D : GammaLrDerivSpec) (d : Gamma ℝ)
    (hs : 0 < d.f_shape) (hr : 0 < d.f_rate) {a b : ℝ} (hab : a ≤ b) :
    ∫ t in a..b, Gamma.pdf d t = Gamma.cdf d b - Gamma.cdf d a :=
  integral_eq_sub_of_kinks {0} (gamma_continuous_cdf_rel G D d hs hr)
    (fun x hx => gamma_hasDerivAt_cdf_rel G D d hs hr x (by simpa using hx))
    (gamma_pdf_nonneg_rel G d hs hr) hab

example : ∃ d : Gamma ℝ, 0 < d.f_shape ∧ 0 < d.f_rate := ⟨⟨3, 1⟩, by norm_num, by norm_num⟩
/-- all three pdf branches are reachable -/
example : ∃ d1 d2 d3 : Gamma ℝ, (0 < d1.f_shape ∧ 0 < d1.f_rate ∧ d1.f_shape = 1) ∧
    (0 < d2.f_shape ∧ 0 < d2.f_rate ∧ 160 < d2.f_shape) ∧
    (0 < d3.f_shape ∧ 0 < d3.f_rate ∧ d3.f_shape ≠ 1 ∧ ¬ 160 < d3.f_shape) :=
  ⟨⟨1, 2⟩, ⟨200, 2⟩, ⟨3, 2⟩, by norm_num, by norm_num, by norm_num⟩

/-! ### Erlang, ChiSquared (delegate to the wrapped Gamma) -/
/-- Erlang: `cdf` has derivative `pdf x` at every `x ≠ 0` -/
theorem erlang_hasDerivAt_cdf_rel (G : GammaDensitySpec) (D : GammaLrDerivSpec) (d : Erlang ℝ)
    (hs : 0 < d.f_g.f_shape) (hr : 0 < d.f_g.f_rate) (x : ℝ) (hx : x ≠ 0) :
    HasDerivAt (Erlang.cdf d) (Erlang.pdf d x) x :=
  gamma_hasDerivAt_cdf_rel G D d.f_g hs hr x hx

/-- Erlang: `0 ≤ pdf x` -/
theorem erlang_pdf_nonneg_rel (G : GammaDensitySpec) (d : Erlang ℝ)
    (hs : 0 < d.f_g.f_shape) (hr : 0 < d.f_g.f_rate) (x : ℝ) : 0 ≤ Erlang.pdf d x :=
  gamma_pdf_nonneg_rel G d.f_g hs hr x

/-- Erlang: `∫ a..b pdf = cdf b - cdf a` for every `a ≤ b` -/
theorem erlang_integral_pdf_rel (G : GammaDensitySpec) (D : GammaLrDerivSpec) (d : Erlang ℝ)
    (hs : 0 < d.f_g.f_shape) (hr : 0 < d.f_g.f_rate) {a b : ℝ} (hab : a ≤ b) :
    ∫ t in a..b, Erlang.pdf d t = Erlang.cdf d b - Erlang.cdf d a :=
  gamma_integral_pdf_rel G D d.f_g hs hr hab

/-- ChiSquared: `cdf` has derivative `pdf x` at every `x ≠ 0` -/
theorem chi_squared_hasDerivAt_cdf_rel (G : GammaDensitySpec) (D : GammaLrDerivSpec)
    (d : ChiSquared ℝ) (hs : 0 < d.f_g.f_shape) (hr : 0 < d.f_g.f_rate) (x : ℝ) (hx : x ≠ 0) :
    HasDerivAt (ChiSquared.cdf d) (ChiSquared.pdf d x) x :=
  gamma_hasDerivAt_cdf_rel G D d.f_g hs hr x hx

/-- ChiSquared: `0 ≤ pdf x` -/
theorem chi_squared_pdf_nonneg_rel (G : GammaDensitySpec) (d : ChiSquared ℝ)
    (hs : 0 < d.f_g.f_shape) (hr : 0 < d.f_g.f_rate) (x : ℝ) : 0 ≤ ChiSquared.pdf d x :=
  gamma_pdf_nonneg_rel G d.f_g hs hr x

/-- ChiSquared: `∫ a..b pdf = cdf b - cdf a` for every `a ≤ b` -/
theorem chi_squared_integral_pdf_rel (G : GammaDensitySpec) (D : GammaLrDerivSpec)
    (d : ChiSquared ℝ) (hs : 0 < d.f_g.f_shape) (hr : 0 < d.f_g.f_rate) {a b : ℝ} (hab : a ≤ b) :
    ∫ t in a..b, ChiSquared.pdf d t = ChiSquared.cdf d b - ChiSquared.cdf d a :=
  gamma_integral_pdf_rel G D d.f_g hs hr hab

/-- what `Erlang::new` / `ChiSquared::new` store satisfies the hypotheses -/
example : ∃ d : Erlang ℝ, 0 < d.f_g.f_shape ∧ 0 < d.f_g.f_rate :=
  ⟨⟨⟨3, 2⟩⟩, by norm_num, by norm_num⟩
example (freedom : ℝ) (h : 0 < freedom) :
    ∃ d : ChiSquared ℝ, d.f_freedom = freedom ∧ d.f_g.f_shape = freedom / 2 ∧ d.f_g.f_rate = 1 / 2 ∧
      0 < d.f_g.f_shape ∧ 0 < d.f_g.f_rate :=
  ⟨⟨freedom, ⟨freedom / 2, 1 / 2⟩⟩, rfl, rfl, rfl, by positivity, by norm_num⟩

/-! ### Chi -/
/-- Chi: on `(0,∞)` both branches of the generated pdf (`freedom > 160` via `exp ∘ ln_pdf`, direct)
    are `2^(1−k/2) · x^(k−1) · e^{−x²/2} / Γ(k/2)` -/
theorem chi_pdf_formula_rel (G : GammaDensitySpec) (d : Chi) (h0 : 0 ≤ d.f_freedom)
    (hne : d.f_freedom ≠ 0) (x : ℝ) (hx : 0 < x) :
    Chi.pdf d x = (2:ℝ) ^ (1 - (d.f_freedom : ℝ) / 2) * x ^ ((d.f_freedom : ℝ) - 1) *
      Real.exp (-(x * x / 2)) / Real.Gamma ((d.f_freedom : ℝ) / 2) := by
  have hk : (0:ℝ) < (d.f_freedom : ℝ) := by exact_mod_cast lt_of_le_of_ne h0 (Ne.symm hne)
  have hk2 : (0:ℝ) < (d.f_freedom : ℝ) / 2 := by positivity
  have hG : 0 < Real.Gamma ((d.f_freedom : ℝ) / 2) := Real.Gamma_pos_of_pos hk2
  have hc : ¬ (x = RFun.inf ∨ x ≤ 0) := by
    rw [real_inf_eq_zero]; rintro (h | h) <;> linarith
  unfold Chi.pdf Chi.ln_pdf Chi.freedom; model_norm
  rw [if_neg hc]
  split_ifs with h160
  · rw [G.ln_gamma_eq _ hk2, Real.exp_sub, Real.exp_sub, Real.exp_add,
      exp_mul_log (by norm_num : (0:ℝ) < 2), exp_mul_log hx, Real.exp_log hG, Real.exp_neg]
    field_simp
  · rw [G.gamma_eq _ hk2, show -x * x / 2 = -(x * x / 2) by ring]

/-- Chi: `pdf x = 0` for `x ≤ 0` -/
theorem chi_pdf_eq_zero (d : Chi) (x : ℝ) (hx : x ≤ 0) : Chi.pdf (α := ℝ) d x = 0 := by
  unfold Chi.pdf; model_norm; rw [if_pos (Or.inr hx)]

/-- Chi: `0 ≤ pdf x` for every x -/
theorem chi_pdf_nonneg_rel (G : GammaDensitySpec) (d : Chi) (h0 : 0 ≤ d.f_freedom)
    (hne : d.f_freedom ≠ 0) (x : ℝ) : 0 ≤ Chi.pdf (α := ℝ) d x := by
  rcases le_or_gt x 0 with hx | hx
  · rw [chi_pdf_eq_zero d x hx]
  · have hk : (0:ℝ) < (d.f_freedom : ℝ) := by exact_mod_cast lt_of_le_of_ne h0 (Ne.symm hne)
    have hG : 0 < Real.Gamma ((d.f_freedom : ℝ) / 2) := Real.Gamma_pos_of_pos (by positivity)
    rw [chi_pdf_formula_rel G d h0 hne x hx]
    positivity

/-- Chi: `cdf` has derivative `pdf x` at every `x ≠ 0` (support boundary; over ℝ also the point where
    the `x == inf` guard fires, see the file header) -/
theorem chi_hasDerivAt_cdf_rel (G : GammaDensitySpec) (D : GammaLrDerivSpec) (d : Chi)
    (h0 : 0 ≤ d.f_freedom) (hne : d.f_freedom ≠ 0) (x : ℝ) (hx : x ≠ 0) :
    HasDerivAt (Chi.cdf (α := ℝ) d) (Chi.pdf d x) x := by
  have hk : (0:ℝ) < (d.f_freedom : ℝ) := by exact_mod_cast lt_of_le_of_ne h0 (Ne.symm hne)
  have hk2 : (0:ℝ) < (d.f_freedom : ℝ) / 2 := by positivity
  rcases lt_or_gt_of_ne hx with hneg | hpos
  · have hE : Chi.cdf (α := ℝ) d =ᶠ[nhds x] fun _ => (0:ℝ) := by
      filter_upwards [Iio_mem_nhds hneg] with y hy'
      have hy : y < 0 := hy'
      unfold Chi.cdf; model_norm
      rw [real_inf_eq_zero, if_neg hy.ne, if_pos hy.le]
    rw [chi_pdf_eq_zero d x hneg.le]
    exact (hasDerivAt_const x (0:ℝ)).congr_of_eventuallyEq hE
  · have hE : Chi.cdf (α := ℝ) d =ᶠ[nhds x]
        fun y => SF.gamma_lr ((d.f_freedom : ℝ) / 2) (y * y / 2) := by
      filter_upwards [Ioi_mem_nhds hpos] with y hy'
      have hy : 0 < y := hy'
      unfold Chi.cdf Chi.freedom; model_norm
      rw [real_inf_eq_zero, if_neg hy.ne', if_neg (not_le.mpr hy)]
    rw [chi_pdf_formula_rel G d h0 hne x hpos]
    have h1 : HasDerivAt (fun y : ℝ => y * y / 2) x x := by
      have g := hasDerivAt_id' x
      exact ((g.mul g).div_const 2).congr_deriv (by ring)
    have h2 := D.lr_hasDerivAt ((d.f_freedom : ℝ) / 2) (x * x / 2) hk2 (by positivity)
    have h3 := h2.comp x h1
    refine (h3.congr_deriv ?_).congr_of_eventuallyEq hE
    have key := chi_rpow_aux hpos (d.f_freedom : ℝ)
    have hG : Real.Gamma ((d.f_freedom : ℝ) / 2) ≠ 0 := (Real.Gamma_pos_of_pos hk2).ne'
    rw [← key]
    field_simp

/-- Chi: the cdf with its junk value at `0` repaired (`RFun.inf = 0` over ℝ) is continuous -/
theorem chi_continuous_cdf_rel (G : GammaDensitySpec) (D : GammaLrDerivSpec) (d : Chi)
    (h0 : 0 ≤ d.f_freedom) (hne : d.f_freedom ≠ 0) :
    Continuous (fun y : ℝ => if y = 0 then 0 else Chi.cdf (α := ℝ) d y) := by
  have hk : (0:ℝ) < (d.f_freedom : ℝ) := by exact_mod_cast lt_of_le_of_ne h0 (Ne.symm hne)
  have hk2 : (0:ℝ) < (d.f_freedom : ℝ) / 2 := by positivity
  refine continuous_iff_continuousAt.mpr fun x => ?_
  by_cases hx : x = 0
  · subst hx
    refine continuousAt_zero_of_tendsto ?_ ?_
    · intro y hy
      split_ifs with c
      · rfl
      · unfold Chi.cdf; model_norm
        rw [real_inf_eq_zero, if_neg c, if_pos hy]
    · have ht : Tendsto (fun y : ℝ => y * y / 2) (𝓝[>] 0) (𝓝[>] 0) := by
        refine tendsto_nhdsWithin_of_tendsto_nhds_of_eventually_within _ ?_ ?_
        · have : Tendsto (fun y : ℝ => y * y / 2) (𝓝 0) (𝓝 (0 * 0 / 2)) :=
            ((continuous_id.mul continuous_id).div_const 2).tendsto 0
          rw [zero_mul, zero_div] at this
          exact this.mono_left nhdsWithin_le_nhds
        · filter_upwards [self_mem_nhdsWithin] with y hy
          have hy' : 0 < y := hy
          show 0 < y * y / 2
          positivity
      refine ((D.lr_tendsto_zero _ hk2).comp ht).congr' ?_
      filter_upwards [self_mem_nhdsWithin] with y hy
      have hy' : 0 < y := hy
      rw [if_neg hy'.ne']
      unfold Chi.cdf Chi.freedom; model_norm
      rw [real_inf_eq_zero, if_neg hy'.ne', if_neg (not_le.mpr hy')]; rfl
  · have hE : (fun y : ℝ => if y = 0 then 0 else Chi.cdf (α := ℝ) d y) =ᶠ[nhds x] Chi.cdf d := by
      filter_upwards [isOpen_ne.mem_nhds hx] with y hy
      rw [if_neg hy]
    exact ((chi_hasDerivAt_cdf_rel G D d h0 hne x hx).continuousAt).congr hE.symm

/-- Chi: `∫ a..b pdf = cdf b - cdf a` for every `a ≤ b` with `a ≠ 0`, `b ≠ 0` (intervals across 0
    included; at the limit `0` itself the model value `cdf 0 = 1` is the junk of `x == inf` over ℝ) -/
theorem chi_integral_pdf_rel (G : GammaDensitySpec) (D : GammaLrDerivSpec) (d : Chi)
    (h0 : 0 ≤ d.f_freedom) (hne : d.f_freedom ≠ 0) {a b : ℝ} (hab : a ≤ b) (ha : a ≠ 0) (hb : b ≠ 0) :
    ∫ t in a..b, Chi.pdf (α := ℝ) d t = Chi.cdf d b - Chi.cdf d a := by
  have h := integral_eq_sub_of_kinks (F := fun y : ℝ => if y = 0 then 0 else Chi.cdf (α := ℝ) d y)
    (f := Chi.pdf (α := ℝ) d) {0} (chi_continuous_cdf_rel G D d h0 hne)
    (fun x hx => by
      have hx0 : x ≠ 0 := by simpa using hx
      refine (chi_hasDerivAt_cdf_rel G D d h0 hne x hx0).congr_of_eventuallyEq ?_
      filter_upwards [isOpen_ne.mem_nhds hx0] with y hy
      rw [if_neg hy])
    (chi_pdf_nonneg_rel G d h0 hne) hab
  rw [h, if_neg ha, if_neg hb]

/-- Chi over ℝ: the model value at `0` is `1` (the `x == inf` guard with `RFun.inf = 0`), which is why
    `0` is excluded as an integration limit above -/
theorem chi_cdf_zero_model_junk (d : Chi) : Chi.cdf (α := ℝ) d 0 = 1 := by
  unfold Chi.cdf; model_norm; rw [real_inf_eq_zero, if_pos rfl]

example : ∃ d : Chi, 0 ≤ d.f_freedom ∧ d.f_freedom ≠ 0 := ⟨⟨2⟩, by decide, by decide⟩
example : ∃ d : Chi, 0 ≤ d.f_freedom ∧ d.f_freedom ≠ 0 ∧ 160 < d.f_freedom := ⟨⟨200⟩, by decide, by decide, by decide⟩

/-! ### InverseGamma -/
/-- InverseGamma: on `(0,∞)` both branches of the generated pdf (`shape = 1`, direct) are
    `rate^shape · x^(−shape−1) · e^{−rate/x} / Γ(shape)` -/
theorem inverse_gamma_pdf_formula_rel (G : GammaDensitySpec) (d : InverseGamma ℝ)
    (hs : 0 < d.f_shape) (hr : 0 < d.f_rate) (x : ℝ) (hx : 0 < x) :
    InverseGamma.pdf d x = d.f_rate ^ d.f_shape * x ^ (-d.f_shape - 1) *
      Real.exp (-(d.f_rate / x)) / Real.Gamma d.f_shape := by
  unfold InverseGamma.pdf; model_norm
  rw [if_neg (not_le.mpr hx)]
  split_ifs with h1
  · rw [h1, Real.Gamma_one, Real.rpow_one, show (-1 - 1 : ℝ) = -(1 + 1) by ring, Real.rpow_neg hx.le,
      Real.rpow_add hx, Real.rpow_one, neg_div]
    field_simp
  · rw [G.gamma_eq _ hs, neg_div]

/-- InverseGamma: `pdf x = 0` for `x ≤ 0` -/
theorem inverse_gamma_pdf_eq_zero (d : InverseGamma ℝ) (x : ℝ) (hx : x ≤ 0) :
    InverseGamma.pdf d x = 0 := by
  unfold InverseGamma.pdf; model_norm; rw [if_pos hx]

/-- InverseGamma: `0 ≤ pdf x` for every x -/
theorem inverse_gamma_pdf_nonneg_rel (G : GammaDensitySpec) (d : InverseGamma ℝ)
    (hs : 0 < d.f_shape) (hr : 0 < d.f_rate) (x : ℝ) : 0 ≤ InverseGamma.pdf d x := by
  rcases le_or_gt x 0 with hx | hx
  · rw [inverse_gamma_pdf_eq_zero d x hx]
  · have hG : 0 < Real.Gamma d.f_shape := Real.Gamma_pos_of_pos hs
    rw [inverse_gamma_pdf_formula_rel G d hs hr x hx]
    positivity

/-- InverseGamma: `cdf = Q(shape, rate/x)` has derivative `pdf x` at every `x ≠ 0` -/
theorem inverse_gamma_hasDerivAt_cdf_rel (G : GammaDensitySpec) (D : GammaUrDerivSpec)
    (d : InverseGamma ℝ) (hs : 0 < d.f_shape) (hr : 0 < d.f_rate) (x : ℝ) (hx : x ≠ 0) :
    HasDerivAt (InverseGamma.cdf d) (InverseGamma.pdf d x) x := by
  rcases lt_or_gt_of_ne hx with hneg | hpos
  · have hE : InverseGamma.cdf d =ᶠ[nhds x] fun _ => (0:ℝ) := by
      filter_upwards [Iio_mem_nhds hneg] with y hy'
      have hy : y < 0 := hy'
      unfold InverseGamma.cdf; model_norm; rw [if_pos hy.le]
    rw [inverse_gamma_pdf_eq_zero d x hneg.le]
    exact (hasDerivAt_const x (0:ℝ)).congr_of_eventuallyEq hE
  · have hE : InverseGamma.cdf d =ᶠ[nhds x] fun y => SF.gamma_ur d.f_shape (d.f_rate / y) := by
      filter_upwards [Ioi_mem_nhds hpos] with y hy'
      have hy : 0 < y := hy'
      unfold InverseGamma.cdf; model_norm; rw [if_neg (not_le.mpr hy)]
    rw [inverse_gamma_pdf_formula_rel G d hs hr x hpos]
    have h1 : HasDerivAt (fun y : ℝ => d.f_rate / y) (-(d.f_rate / (x * x))) x := by
      have := (hasDerivAt_inv hpos.ne').const_mul d.f_rate
      refine (this.congr_deriv ?_).congr_of_eventuallyEq (Eventually.of_forall fun y => div_eq_mul_inv _ _)
      field_simp
    have h2 := D.ur_hasDerivAt d.f_shape (d.f_rate / x) hs (div_pos hr hpos)
    have h3 := h2.comp x h1
    refine (h3.congr_deriv ?_).congr_of_eventuallyEq hE
    have key := inverse_gamma_rpow_aux hr hpos d.f_shape
    have hG : Real.Gamma d.f_shape ≠ 0 := (Real.Gamma_pos_of_pos hs).ne'
    rw [← key]
    field_simp

/-- InverseGamma: the cdf is continuous (at `0`: `Q(shape, rate/x) → 0` as `x → 0+`) -/
theorem inverse_gamma_continuous_cdf_rel (G : GammaDensitySpec) (D : GammaUrDerivSpec)
    (d : InverseGamma ℝ) (hs : 0 < d.f_shape) (hr : 0 < d.f_rate) :
    Continuous (InverseGamma.cdf d) := by
  refine continuous_iff_continuousAt.mpr fun x => ?_
  by_cases hx : x = 0
  · subst hx
    refine continuousAt_zero_of_tendsto ?_ ?_
    · intro y hy; unfold InverseGamma.cdf; model_norm; rw [if_pos hy]
    · have ht : Tendsto (fun y : ℝ => d.f_rate / y) (𝓝[>] 0) atTop := by
        have := (tendsto_inv_nhdsGT_zero (𝕜 := ℝ)).const_mul_atTop hr
        exact this.congr (fun y => (div_eq_mul_inv _ _).symm)
      refine ((D.ur_tendsto_atTop d.f_shape hs).comp ht).congr' ?_
      filter_upwards [self_mem_nhdsWithin] with y hy
      have hy' : 0 < y := hy
      unfold InverseGamma.cdf; model_norm; rw [if_neg (not_le.mpr hy')]; rfl
  · exact (inverse_gamma_hasDerivAt_cdf_rel G D d hs hr x hx).continuousAt

/-- InverseGamma: `∫ a..b pdf = cdf b - cdf a` for every `a ≤ b` -/
theorem inverse_gamma_integral_pdf_rel (G : GammaDensitySpec) (D : GammaUrDerivSpec)
    (d : InverseGamma ℝ) (hs : 0 < d.f_shape) (hr : 0 < d.f_rate) {a b : ℝ} (hab : a ≤ b) :
    ∫ t in a..b, InverseGamma.pdf d t = InverseGamma.cdf d b - InverseGamma.cdf d a :=
  integral_eq_sub_of_kinks {0} (inverse_gamma_continuous_cdf_rel G D d hs hr)
    (fun x hx => inverse_gamma_hasDerivAt_cdf_rel G D d hs hr x (by simpa using hx))
    (inverse_gamma_pdf_nonneg_rel G d hs hr) hab

example : ∃ d : InverseGamma ℝ, 0 < d.f_shape ∧ 0 < d.f_rate := ⟨⟨3, 1⟩, by norm_num, by norm_num⟩

end Statrs.Props.C03
