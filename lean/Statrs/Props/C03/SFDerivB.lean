/-
  C03 (continuous families whose cdf is a regularised incomplete beta function) — Beta,
  FisherSnedecor, StudentsT over ℝ, relative to `BetaRegDerivSpec` (derivative, continuity on `[0,1]`,
  end values of `I_x(a,b)`), `Spec.GammaDensitySpec` (`SF.gamma`, `SF.ln_gamma`) and `BetaFnSpec`
  (`SF.beta`, FisherSnedecor only):
    * Beta: `HasDerivAt cdf (pdf x) x` for `x ∉ {0,1}` (branch points `x < 0`, `x ≥ 1` of the cdf);
    * FisherSnedecor: for `x ≠ 0` (branch point `x < 0`; argument `u = d₁x/(d₁x+d₂)`, `u' = d₁d₂/(d₁x+d₂)²`);
    * StudentsT: the cdf `½ I_h` / `1 − ½ I_h`, `h = ν/(ν+k²)`, has derivative `studentDensity` at EVERY
      x (also at the branch point `x = location`, by continuity) for every `ν > 0`; the generated pdf
      equals `studentDensity` iff it takes its Student branch, `freedom < 1e8`.  For `freedom ≥ 1e8` the
      pdf is the Normal density and is NOT the derivative of the cdf:
      `students_t_pdf_large_freedom_counterexample`.
    * continuity of each cdf at its branch points and `∫ a..b pdf = cdf b − cdf a` for every `a ≤ b`.
  The premise structures are jointly satisfiable (true functions): `Witness.sfDeriv_specs_consistent`
  in `SFDerivWitness.lean`, so none of the `…_rel` theorems below is vacuous.
-/
import Statrs.Props.C03.SFDerivA
import Statrs.Gen.D_beta
import Statrs.Gen.D_fisher_snedecor
import Statrs.Gen.D_students_t
import Mathlib.Analysis.SpecialFunctions.Gaussian.GaussianIntegral
namespace Statrs.Props.C03
open Statrs Statrs.Gen Statrs.Lemmas.Density Statrs.Spec Filter Topology Set

/-! ### real-analysis helpers -/
/-- FisherSnedecor bookkeeping: with `p = d₁x`, `s = p + d₂`, `u = p/s`, `1 − u = d₂/s`, `u' = d₁d₂/s²`:
    `u^(d₁/2−1) (1−u)^(d₂/2−1) u' = √(p^d₁ d₂^d₂ / s^(d₁+d₂)) / x` -/
theorem fisher_rpow_aux {d1 d2 x : ℝ} (h1 : 0 < d1) (h2 : 0 < d2) (hx : 0 < x) :
    (d1 * x / (d1 * x + d2)) ^ (d1 / 2 - 1) * (d2 / (d1 * x + d2)) ^ (d2 / 2 - 1) *
        (d1 * d2 / ((d1 * x + d2) * (d1 * x + d2))) =
      Real.sqrt ((d1 * x) ^ d1 * d2 ^ d2 / (d1 * x + d2) ^ (d1 + d2)) / x := by
  have hp : 0 < d1 * x := mul_pos h1 hx
  have hs : 0 < d1 * x + d2 := by positivity
  set p := d1 * x with hp_def
  set s := p + d2 with hs_def
  have e1 : Real.sqrt (p ^ d1 * d2 ^ d2 / s ^ (d1 + d2)) =
      p ^ (d1 / 2) * d2 ^ (d2 / 2) / s ^ (d1 / 2 + d2 / 2) := by
    rw [Real.sqrt_eq_rpow, Real.div_rpow (by positivity) (by positivity),
      Real.mul_rpow (by positivity) (by positivity), ← Real.rpow_mul hp.le, ← Real.rpow_mul h2.le,
      ← Real.rpow_mul hs.le]
    rw [show d1 * (1 / 2) = d1 / 2 by ring, show d2 * (1 / 2) = d2 / 2 by ring,
      show (d1 + d2) * (1 / 2) = d1 / 2 + d2 / 2 by ring]
  rw [e1, Real.div_rpow hp.le hs.le, Real.div_rpow h2.le hs.le,
    show d1 / 2 + d2 / 2 = (d1 / 2 - 1) + (d2 / 2 - 1) + 1 + 1 by ring, Real.rpow_add hs, Real.rpow_add hs,
    Real.rpow_add hs, Real.rpow_one, Real.rpow_sub_one hp.ne' (d1 / 2), Real.rpow_sub_one h2.ne' (d2 / 2)]
  have hA : s ^ (d1 / 2 - 1) ≠ 0 := (Real.rpow_pos_of_pos hs _).ne'
  have hB : s ^ (d2 / 2 - 1) ≠ 0 := (Real.rpow_pos_of_pos hs _).ne'
  rw [hp_def]
  field_simp

theorem lit_1e8 : (1e8 : ℝ) = 100000000 := by norm_num

/-- StudentsT bookkeeping: with `s = ν + k²`, `h = ν/s`, `1 − h = k²/s`, `h' = −2νk/(σ s²)`:
    `h^(ν/2−1) (1−h)^(1/2−1) h' = −sign(k) · 2 · (1 + k²/ν)^(−(ν+1)/2) / (√ν σ)` -/
theorem students_t_rpow_aux {ν k σ : ℝ} (hν : 0 < ν) (hσ : 0 < σ) (hk : k ≠ 0) :
    (ν / (ν + k * k)) ^ (ν / 2 - 1) * (1 - ν / (ν + k * k)) ^ ((1:ℝ) / 2 - 1) *
        (-(2 * ν * k) / (σ * ((ν + k * k) * (ν + k * k)))) =
      -(k / |k|) * 2 * ((1 + k * k / ν) ^ (-(1 / 2) * (ν + 1)) / Real.sqrt ν / σ) := by
  have hkk : 0 < k * k := mul_self_pos.mpr hk
  have hs : 0 < ν + k * k := by positivity
  have habs : 0 < |k| := abs_pos.mpr hk
  have e1 : 1 - ν / (ν + k * k) = k * k / (ν + k * k) := by field_simp; ring
  have e2 : 1 + k * k / ν = (ν + k * k) / ν := by field_simp
  rw [e1, e2]
  generalize ν + k * k = s at *
  have hsq : Real.sqrt s * Real.sqrt s = s := Real.mul_self_sqrt hs.le
  have hnq : Real.sqrt ν * Real.sqrt ν = ν := Real.mul_self_sqrt hν.le
  have hs0 : 0 < Real.sqrt s := Real.sqrt_pos.mpr hs
  have hn0 : 0 < Real.sqrt ν := Real.sqrt_pos.mpr hν
  have e3 : (k * k / s) ^ ((1:ℝ) / 2 - 1) = Real.sqrt s / |k| := by
    rw [show (1:ℝ) / 2 - 1 = -(1 / 2) by norm_num, Real.rpow_neg (by positivity), ← Real.sqrt_eq_rpow,
      Real.sqrt_div (mul_self_nonneg k), Real.sqrt_mul_self_eq_abs, inv_div]
  have e4 : ∀ t : ℝ, 0 < t → t ^ (1 / 2 * (ν + 1)) = t ^ (ν / 2 - 1) * t * Real.sqrt t := by
    intro t ht
    rw [show 1 / 2 * (ν + 1) = (ν / 2 - 1) + 1 + 1 / 2 by ring, Real.rpow_add ht, Real.rpow_add ht,
      Real.rpow_one, ← Real.sqrt_eq_rpow]
  rw [e3, Real.div_rpow hν.le hs.le, show -(1 / 2) * (ν + 1) = -(1 / 2 * (ν + 1)) by ring,
    Real.rpow_neg (by positivity), Real.div_rpow hs.le hν.le, e4 s hs, e4 ν hν]
  have hN : 0 < ν ^ (ν / 2 - 1) := Real.rpow_pos_of_pos hν _
  have hS : 0 < s ^ (ν / 2 - 1) := Real.rpow_pos_of_pos hs _
  generalize ν ^ (ν / 2 - 1) = N at *
  generalize s ^ (ν / 2 - 1) = S at *
  generalize Real.sqrt s = a at *
  generalize Real.sqrt ν = b at *
  subst hsq hnq
  field_simp

variable [SF ℝ]

/-! ### Beta -/
/-- Beta: on `(0,1)` all three branches of the generated pdf (`a = b = 1`, `a > 80 ∨ b > 80` via
    `exp ∘ ln_pdf`, direct) are `x^(a−1) (1−x)^(b−1) · Γ(a+b)/(Γ(a)Γ(b))` -/
theorem beta_pdf_formula_rel (G : GammaDensitySpec) (d : Beta ℝ) (ha : 0 < d.f_shape_a)
    (hb : 0 < d.f_shape_b) (x : ℝ) (hx0 : 0 < x) (hx1 : x < 1) :
    Beta.pdf d x = x ^ (d.f_shape_a - 1) * (1 - x) ^ (d.f_shape_b - 1) *
      (Real.Gamma (d.f_shape_a + d.f_shape_b) / (Real.Gamma d.f_shape_a * Real.Gamma d.f_shape_b)) := by
  have hGa : 0 < Real.Gamma d.f_shape_a := Real.Gamma_pos_of_pos ha
  have hGb : 0 < Real.Gamma d.f_shape_b := Real.Gamma_pos_of_pos hb
  have hGab : 0 < Real.Gamma (d.f_shape_a + d.f_shape_b) := Real.Gamma_pos_of_pos (by linarith)
  have h1x : 0 < 1 - x := by linarith
  unfold Beta.pdf Beta.ln_pdf; model_norm
  have hc : (0 ≤ x ∧ x ≤ 1) := ⟨hx0.le, hx1.le⟩
  rw [if_neg (not_not.mpr hc)]
  simp only [if_neg (not_not.mpr hc), if_false, hx0.ne', hx1.ne, and_false]
  split_ifs with h11 h80
  · rw [h11.1, h11.2, Real.Gamma_add_one one_ne_zero, Real.Gamma_one]; norm_num
  · rw [G.ln_gamma_eq _ ha, G.ln_gamma_eq _ hb, G.ln_gamma_eq _ (by linarith : 0 < d.f_shape_a + d.f_shape_b),
      Real.exp_add, Real.exp_add, Real.exp_sub, Real.exp_sub, exp_mul_log hx0, exp_mul_log h1x,
      Real.exp_log hGa, Real.exp_log hGb, Real.exp_log hGab]
    field_simp
  · rw [G.gamma_eq _ ha, G.gamma_eq _ hb, G.gamma_eq _ (by linarith : 0 < d.f_shape_a + d.f_shape_b)]
    ring

/-- Beta: `pdf x = 0` outside `[0,1]` -/
theorem beta_pdf_eq_zero (d : Beta ℝ) (x : ℝ) (hx : x < 0 ∨ 1 < x) : Beta.pdf d x = 0 := by
  unfold Beta.pdf; model_norm
  rw [if_pos]
  rintro ⟨c1, c2⟩; rcases hx with hx | hx <;> linarith

/-- Beta: `0 ≤ pdf x` for every x (also at the end points `0`, `1`, where the value depends on the
    branch but is never negative) -/
theorem beta_pdf_nonneg_rel (G : GammaDensitySpec) (d : Beta ℝ) (ha : 0 < d.f_shape_a)
    (hb : 0 < d.f_shape_b) (x : ℝ) : 0 ≤ Beta.pdf d x := by
  have hGa : 0 < Real.Gamma d.f_shape_a := Real.Gamma_pos_of_pos ha
  have hGb : 0 < Real.Gamma d.f_shape_b := Real.Gamma_pos_of_pos hb
  have hGab : 0 < Real.Gamma (d.f_shape_a + d.f_shape_b) := Real.Gamma_pos_of_pos (by linarith)
  unfold Beta.pdf; model_norm
  split_ifs with hc h11 h80
  · exact zero_le_one
  · exact (Real.exp_pos _).le
  · rw [G.gamma_eq _ ha, G.gamma_eq _ hb, G.gamma_eq _ (by linarith : 0 < d.f_shape_a + d.f_shape_b)]
    have h1 := Real.rpow_nonneg hc.1 (d.f_shape_a - 1)
    have h2 := Real.rpow_nonneg (sub_nonneg.mpr hc.2) (d.f_shape_b - 1)
    positivity
  · exact le_rfl

/-- Beta: `cdf` has derivative `pdf x` at every `x ∉ {0, 1}` (the support end points are the branch
    points `x < 0`, `x ≥ 1` of the generated cdf) -/
theorem beta_hasDerivAt_cdf_rel (G : GammaDensitySpec) (B : BetaRegDerivSpec) (d : Beta ℝ)
    (ha : 0 < d.f_shape_a) (hb : 0 < d.f_shape_b) (x : ℝ) (hx0 : x ≠ 0) (hx1 : x ≠ 1) :
    HasDerivAt (Beta.cdf d) (Beta.pdf d x) x := by
  rcases lt_or_gt_of_ne hx0 with hneg | hpos
  · have hE : Beta.cdf d =ᶠ[nhds x] fun _ => (0:ℝ) := by
      filter_upwards [Iio_mem_nhds hneg] with y hy'
      have hy : y < 0 := hy'
      unfold Beta.cdf; model_norm; rw [if_pos hy]
    rw [beta_pdf_eq_zero d x (Or.inl hneg)]
    exact (hasDerivAt_const x (0:ℝ)).congr_of_eventuallyEq hE
  rcases lt_or_gt_of_ne hx1 with hlt | hgt
  · by_cases h11 : d.f_shape_a = 1 ∧ d.f_shape_b = 1
    · have hE : Beta.cdf d =ᶠ[nhds x] fun y => y := by
        filter_upwards [Ioo_mem_nhds hpos hlt] with y hy'
        have hy : 0 < y ∧ y < 1 := hy'
        unfold Beta.cdf; model_norm
        rw [if_neg (not_lt.mpr hy.1.le), if_neg (not_le.mpr hy.2), if_pos h11]
      have hp : Beta.pdf d x = 1 := by
        unfold Beta.pdf; model_norm
        rw [if_neg (not_not.mpr ⟨hpos.le, hlt.le⟩), if_pos h11]
      rw [hp]
      exact (hasDerivAt_id' x).congr_of_eventuallyEq hE
    · have hE : Beta.cdf d =ᶠ[nhds x] fun y => SF.beta_reg d.f_shape_a d.f_shape_b y := by
        filter_upwards [Ioo_mem_nhds hpos hlt] with y hy'
        have hy : 0 < y ∧ y < 1 := hy'
        unfold Beta.cdf; model_norm
        rw [if_neg (not_lt.mpr hy.1.le), if_neg (not_le.mpr hy.2), if_neg h11]
      rw [beta_pdf_formula_rel G d ha hb x hpos hlt]
      exact (B.hasDerivAt _ _ x ha hb hpos hlt).congr_of_eventuallyEq hE
  · have hE : Beta.cdf d =ᶠ[nhds x] fun _ => (1:ℝ) := by
      filter_upwards [Ioi_mem_nhds hgt] with y hy'
      have hy : 1 < y := hy'
      unfold Beta.cdf; model_norm
      rw [if_neg (not_lt.mpr (by linarith)), if_pos hy.le]
    rw [beta_pdf_eq_zero d x (Or.inr hgt)]
    exact (hasDerivAt_const x (1:ℝ)).congr_of_eventuallyEq hE

/-- Beta: the cdf is continuous (also at the end points `0` and `1`) -/
theorem beta_continuous_cdf_rel (G : GammaDensitySpec) (B : BetaRegDerivSpec) (d : Beta ℝ)
    (ha : 0 < d.f_shape_a) (hb : 0 < d.f_shape_b) : Continuous (Beta.cdf d) := by
  -- the cdf on `[0,1]`
  set g : ℝ → ℝ := fun y => if d.f_shape_a = 1 ∧ d.f_shape_b = 1 then y
    else SF.beta_reg d.f_shape_a d.f_shape_b y with hg
  have g0 : g 0 = 0 := by
    simp only [hg]; split_ifs
    · rfl
    · exact B.at_zero _ _ ha hb
  have g1 : g 1 = 1 := by
    simp only [hg]; split_ifs
    · rfl
    · exact B.at_one _ _ ha hb
  have gc : ContinuousOn g (Icc 0 1) := by
    simp only [hg]; split_ifs
    · exact continuous_id.continuousOn
    · exact B.continuousOn _ _ ha hb
  have hF : ∀ y, 0 ≤ y → y < 1 → Beta.cdf d y = g y := by
    intro y h0 h1
    unfold Beta.cdf; model_norm
    rw [if_neg (not_lt.mpr h0), if_neg (not_le.mpr h1)]
  refine continuous_iff_continuousAt.mpr fun x => ?_
  by_cases hx0 : x = 0
  · subst hx0
    refine continuousAt_of_branches_within (G₁ := fun _ => (0:ℝ)) (G₂ := g) (l := -1) (u := 1)
      (by norm_num) (by norm_num) ?_ hF continuousWithinAt_const ?_
    · intro y _ hy
      rcases hy.lt_or_eq with h | h
      · unfold Beta.cdf; model_norm; rw [if_pos h]
      · rw [h, hF 0 le_rfl one_pos, g0]
    · exact (gc 0 ⟨le_rfl, zero_le_one⟩).mono_of_mem_nhdsWithin (Icc_mem_nhdsGE one_pos)
  by_cases hx1 : x = 1
  · subst hx1
    refine continuousAt_of_branches_within (G₁ := g) (G₂ := fun _ => (1:ℝ)) (l := 0) (u := 2)
      (by norm_num) (by norm_num) ?_ ?_ ?_ continuousWithinAt_const
    · intro y hy0 hy1
      rcases hy1.lt_or_eq with h | h
      · exact hF y hy0.le h
      · rw [h, g1]; unfold Beta.cdf; model_norm
        rw [if_neg (by norm_num), if_pos le_rfl]
    · intro y hy _
      unfold Beta.cdf; model_norm
      rw [if_neg (not_lt.mpr (by linarith)), if_pos hy]
    · exact (gc 1 ⟨zero_le_one, le_rfl⟩).mono_of_mem_nhdsWithin (Icc_mem_nhdsLE one_pos)
  · exact (beta_hasDerivAt_cdf_rel G B d ha hb x hx0 hx1).continuousAt

/-- Beta: `∫ a..b pdf = cdf b - cdf a` for every `a ≤ b` -/
theorem beta_integral_pdf_rel (G : GammaDensitySpec) (B : BetaRegDerivSpec) (d : Beta ℝ)
    (ha : 0 < d.f_shape_a) (hb : 0 < d.f_shape_b) {a b : ℝ} (hab : a ≤ b) :
    ∫ t in a..b, Beta.pdf d t = Beta.cdf d b - Beta.cdf d a :=
  integral_eq_sub_of_kinks {0, 1} (beta_continuous_cdf_rel G B d ha hb)
    (fun x hx => by
      simp only [Finset.mem_insert, Finset.mem_singleton, not_or] at hx
      exact beta_hasDerivAt_cdf_rel G B d ha hb x hx.1 hx.2)
    (beta_pdf_nonneg_rel G d ha hb) hab

example : ∃ d : Beta ℝ, 0 < d.f_shape_a ∧ 0 < d.f_shape_b := ⟨⟨2, 3⟩, by norm_num, by norm_num⟩
/-- all three pdf branches are reachable -/
example : ∃ d1 d2 d3 : Beta ℝ, (d1.f_shape_a = 1 ∧ d1.f_shape_b = 1) ∧
    (0 < d2.f_shape_a ∧ 0 < d2.f_shape_b ∧ 80 < d2.f_shape_a) ∧
    (0 < d3.f_shape_a ∧ 0 < d3.f_shape_b ∧ ¬ (80 < d3.f_shape_a ∨ 80 < d3.f_shape_b)) :=
  ⟨⟨1, 1⟩, ⟨100, 2⟩, ⟨2, 3⟩, by norm_num, by norm_num, by norm_num⟩

/-! ### FisherSnedecor -/
/-- FisherSnedecor: `pdf x = 0` for `x ≤ 0` -/
theorem fisher_snedecor_pdf_eq_zero (d : FisherSnedecor ℝ) (x : ℝ) (hx : x ≤ 0) :
    FisherSnedecor.pdf d x = 0 := by
  unfold FisherSnedecor.pdf; model_norm; rw [if_pos hx]

/-- FisherSnedecor: `0 ≤ pdf x` for every x -/
theorem fisher_snedecor_pdf_nonneg_rel (Bf : BetaFnSpec) (d : FisherSnedecor ℝ)
    (h1 : 0 < d.f_freedom_1) (h2 : 0 < d.f_freedom_2) (x : ℝ) : 0 ≤ FisherSnedecor.pdf d x := by
  rcases le_or_gt x 0 with hx | hx
  · rw [fisher_snedecor_pdf_eq_zero d x hx]
  · have hGa : 0 < Real.Gamma (d.f_freedom_1 / 2) := Real.Gamma_pos_of_pos (by positivity)
    have hGb : 0 < Real.Gamma (d.f_freedom_2 / 2) := Real.Gamma_pos_of_pos (by positivity)
    have hGab : 0 < Real.Gamma (d.f_freedom_1 / 2 + d.f_freedom_2 / 2) :=
      Real.Gamma_pos_of_pos (by positivity)
    unfold FisherSnedecor.pdf; model_norm
    rw [if_neg (not_le.mpr hx), Bf.beta_eq _ _ (by positivity) (by positivity)]
    positivity

/-- FisherSnedecor: `cdf = I_u(d₁/2, d₂/2)`, `u = d₁x/(d₁x+d₂)`, has derivative `pdf x` at every
    `x ≠ 0` (support boundary = the branch point `x < 0` of the generated cdf) -/
theorem fisher_snedecor_hasDerivAt_cdf_rel (B : BetaRegDerivSpec) (Bf : BetaFnSpec)
    (d : FisherSnedecor ℝ) (h1 : 0 < d.f_freedom_1) (h2 : 0 < d.f_freedom_2) (x : ℝ) (hx : x ≠ 0) :
    HasDerivAt (FisherSnedecor.cdf d) (FisherSnedecor.pdf d x) x := by
  rcases lt_or_gt_of_ne hx with hneg | hpos
  · have hE : FisherSnedecor.cdf d =ᶠ[nhds x] fun _ => (0:ℝ) := by
      filter_upwards [Iio_mem_nhds hneg] with y hy'
      have hy : y < 0 := hy'
      unfold FisherSnedecor.cdf; model_norm; rw [if_pos hy]
    rw [fisher_snedecor_pdf_eq_zero d x hneg.le]
    exact (hasDerivAt_const x (0:ℝ)).congr_of_eventuallyEq hE
  · have ha : 0 < d.f_freedom_1 / 2 := by positivity
    have hb : 0 < d.f_freedom_2 / 2 := by positivity
    have hs : 0 < d.f_freedom_1 * x + d.f_freedom_2 := by positivity
    have hE : FisherSnedecor.cdf d =ᶠ[nhds x] fun y => SF.beta_reg (d.f_freedom_1 / 2)
        (d.f_freedom_2 / 2) (d.f_freedom_1 * y / (d.f_freedom_1 * y + d.f_freedom_2)) := by
      filter_upwards [Ioi_mem_nhds hpos] with y hy'
      have hy : 0 < y := hy'
      unfold FisherSnedecor.cdf; model_norm; rw [if_neg (not_lt.mpr hy.le)]
    have hu : HasDerivAt (fun y : ℝ => d.f_freedom_1 * y / (d.f_freedom_1 * y + d.f_freedom_2))
        (d.f_freedom_1 * d.f_freedom_2 /
          ((d.f_freedom_1 * x + d.f_freedom_2) * (d.f_freedom_1 * x + d.f_freedom_2))) x := by
      have g : HasDerivAt (fun y : ℝ => d.f_freedom_1 * y) d.f_freedom_1 x := by
        simpa using (hasDerivAt_id' x).const_mul d.f_freedom_1
      refine (g.div (g.add_const d.f_freedom_2) hs.ne').congr_deriv ?_
      field_simp
      ring
    have hu0 : 0 < d.f_freedom_1 * x / (d.f_freedom_1 * x + d.f_freedom_2) := by positivity
    have hu1 : d.f_freedom_1 * x / (d.f_freedom_1 * x + d.f_freedom_2) < 1 := by
      rw [div_lt_one hs]; linarith
    have h3 := (B.hasDerivAt _ _ _ ha hb hu0 hu1).comp x hu
    refine (h3.congr_deriv ?_).congr_of_eventuallyEq hE
    have e1 : 1 - d.f_freedom_1 * x / (d.f_freedom_1 * x + d.f_freedom_2) =
        d.f_freedom_2 / (d.f_freedom_1 * x + d.f_freedom_2) := by field_simp; ring
    have key := fisher_rpow_aux h1 h2 hpos
    have hGa : Real.Gamma (d.f_freedom_1 / 2) ≠ 0 := (Real.Gamma_pos_of_pos ha).ne'
    have hGb : Real.Gamma (d.f_freedom_2 / 2) ≠ 0 := (Real.Gamma_pos_of_pos hb).ne'
    have hGab : Real.Gamma (d.f_freedom_1 / 2 + d.f_freedom_2 / 2) ≠ 0 :=
      (Real.Gamma_pos_of_pos (by positivity)).ne'
    unfold FisherSnedecor.pdf; model_norm
    have hsplit : ∀ R C : ℝ, R / (x * C) = R / x / C := fun R C => by rw [div_mul_eq_div_div]
    rw [if_neg (not_le.mpr hpos), Bf.beta_eq _ _ ha hb, e1, hsplit, ← key]
    field_simp

/-- FisherSnedecor: the cdf is continuous (at `0`: `I_0 = 0` and `I_·` is continuous on `[0,1]`) -/
theorem fisher_snedecor_continuous_cdf_rel (B : BetaRegDerivSpec) (Bf : BetaFnSpec)
    (d : FisherSnedecor ℝ) (h1 : 0 < d.f_freedom_1) (h2 : 0 < d.f_freedom_2) :
    Continuous (FisherSnedecor.cdf d) := by
  have ha : 0 < d.f_freedom_1 / 2 := by positivity
  have hb : 0 < d.f_freedom_2 / 2 := by positivity
  refine continuous_iff_continuousAt.mpr fun x => ?_
  by_cases hx : x = 0
  · subst hx
    set u : ℝ → ℝ := fun y => d.f_freedom_1 * y / (d.f_freedom_1 * y + d.f_freedom_2) with hu
    have hu0 : u 0 = 0 := by simp [hu]
    have hF : ∀ y, 0 ≤ y → FisherSnedecor.cdf d y =
        SF.beta_reg (d.f_freedom_1 / 2) (d.f_freedom_2 / 2) (u y) := by
      intro y hy
      unfold FisherSnedecor.cdf; model_norm; rw [if_neg (not_lt.mpr hy)]
    refine continuousAt_of_branches_within (G₁ := fun _ => (0:ℝ))
      (G₂ := fun y => SF.beta_reg (d.f_freedom_1 / 2) (d.f_freedom_2 / 2) (u y)) (l := -1) (u := 1)
      (by norm_num) (by norm_num) ?_ (fun y hy _ => hF y hy) continuousWithinAt_const ?_
    · intro y _ hy
      rcases hy.lt_or_eq with h | h
      · unfold FisherSnedecor.cdf; model_norm; rw [if_pos h]
      · rw [h, hF 0 le_rfl, hu0, B.at_zero _ _ ha hb]
    · have hmaps : MapsTo u (Ici 0) (Icc 0 1) := by
        intro y hy
        have hy' : 0 ≤ y := hy
        have hs : 0 < d.f_freedom_1 * y + d.f_freedom_2 := by positivity
        refine ⟨by positivity, ?_⟩
        show d.f_freedom_1 * y / (d.f_freedom_1 * y + d.f_freedom_2) ≤ 1
        rw [div_le_one hs]; linarith
      have huc : ContinuousWithinAt u (Ici 0) 0 := by
        have : ContinuousAt u 0 := by
          refine ContinuousAt.div (by fun_prop) (by fun_prop) ?_
          simp [h2.ne']
        exact this.continuousWithinAt
      exact ((B.continuousOn _ _ ha hb) (u 0) (hmaps (mem_Ici.mpr le_rfl))).comp huc hmaps
  · exact (fisher_snedecor_hasDerivAt_cdf_rel B Bf d h1 h2 x hx).continuousAt

/-- FisherSnedecor: `∫ a..b pdf = cdf b - cdf a` for every `a ≤ b` -/
theorem fisher_snedecor_integral_pdf_rel (B : BetaRegDerivSpec) (Bf : BetaFnSpec)
    (d : FisherSnedecor ℝ) (h1 : 0 < d.f_freedom_1) (h2 : 0 < d.f_freedom_2) {a b : ℝ} (hab : a ≤ b) :
    ∫ t in a..b, FisherSnedecor.pdf d t = FisherSnedecor.cdf d b - FisherSnedecor.cdf d a :=
  integral_eq_sub_of_kinks {0} (fisher_snedecor_continuous_cdf_rel B Bf d h1 h2)
    (fun x hx => fisher_snedecor_hasDerivAt_cdf_rel B Bf d h1 h2 x (by simpa using hx))
    (fisher_snedecor_pdf_nonneg_rel Bf d h1 h2) hab

example : ∃ d : FisherSnedecor ℝ, 0 < d.f_freedom_1 ∧ 0 < d.f_freedom_2 :=
  ⟨⟨3, 5⟩, by norm_num, by norm_num⟩

/-! ### StudentsT -/
/-- StudentsT: `0 ≤ pdf x` for every x (both branches) -/
theorem students_t_pdf_nonneg (d : StudentsT ℝ) (hσ : 0 < d.f_scale) (hν : 0 < d.f_freedom) (x : ℝ) :
    0 ≤ StudentsT.pdf d x := by
  unfold StudentsT.pdf D.normal.pdf_unchecked; model_norm
  have hq : 0 ≤ (x - d.f_location) / d.f_scale * ((x - d.f_location) / d.f_scale) := mul_self_nonneg _
  split_ifs <;> positivity

/-- Student's t density with location `μ`, scale `σ`, `ν` degrees of freedom, normalised with Γ:
    `Γ((ν+1)/2)/Γ(ν/2) · (1 + k²/ν)^(−(ν+1)/2) / (√ν √π) / σ`, `k = (x−μ)/σ` -/
noncomputable def studentDensity (μ σ ν x : ℝ) : ℝ :=
  Real.Gamma ((ν + 1) / 2) / Real.Gamma (ν / 2) *
    (1 + (x - μ) / σ * ((x - μ) / σ) / ν) ^ (-(1 / 2) * (ν + 1)) / (Real.sqrt ν * Real.sqrt Real.pi) / σ

omit [SF ℝ] in
theorem continuous_studentDensity (μ σ ν : ℝ) (hν : 0 < ν) : Continuous (studentDensity μ σ ν) := by
  unfold studentDensity
  refine Continuous.div_const (Continuous.div_const (Continuous.mul continuous_const ?_) _) _
  refine Continuous.rpow_const (by fun_prop) (fun x => Or.inl ?_)
  have := mul_self_nonneg ((x - μ) / σ)
  positivity

/-- StudentsT (every `freedom > 0`): the generated cdf
    `½ I_h(ν/2, ½)` for `x ≤ μ`, `1 − ½ I_h(ν/2, ½)` for `x > μ`, `h = ν/(ν+k²)`, `k = (x−μ)/σ`,
    has derivative `studentDensity μ σ ν x` at every `x ≠ μ` (chain rule) -/
theorem students_t_hasDerivAt_cdf_density_of_ne_rel (B : BetaRegDerivSpec)
    (d : StudentsT ℝ) (hσ : 0 < d.f_scale) (hν : 0 < d.f_freedom)
    (x : ℝ) (hx : x ≠ d.f_location) :
    HasDerivAt (StudentsT.cdf d) (studentDensity d.f_location d.f_scale d.f_freedom x) x := by
  set k : ℝ → ℝ := fun y => (y - d.f_location) / d.f_scale with hk_def
  have hk : HasDerivAt k (1 / d.f_scale) x :=
    ((hasDerivAt_id' x).sub_const d.f_location).div_const d.f_scale
  have hk0 : k x ≠ 0 := div_ne_zero (sub_ne_zero.mpr hx) hσ.ne'
  have hkk : 0 < k x * k x := mul_self_pos.mpr hk0
  have hs : 0 < d.f_freedom + k x * k x := by positivity
  have hh : HasDerivAt (fun y => d.f_freedom / (d.f_freedom + k y * k y))
      (-(2 * d.f_freedom * k x) / (d.f_scale * ((d.f_freedom + k x * k x) * (d.f_freedom + k x * k x)))) x := by
    have den : HasDerivAt (fun y => d.f_freedom + k y * k y)
        (1 / d.f_scale * k x + k x * (1 / d.f_scale)) x := (hk.mul hk).const_add d.f_freedom
    refine ((hasDerivAt_const x d.f_freedom).div den hs.ne').congr_deriv ?_
    field_simp
    ring
  have h0 : 0 < d.f_freedom / (d.f_freedom + k x * k x) := by positivity
  have h1 : d.f_freedom / (d.f_freedom + k x * k x) < 1 := by rw [div_lt_one hs]; linarith
  have ha : 0 < d.f_freedom / 2 := by positivity
  have ha' : 0 < (d.f_freedom + 1) / 2 := by positivity
  have hI := (B.hasDerivAt (d.f_freedom / 2) (1 / 2) _ ha (by norm_num) h0 h1).comp x hh
  have hGa : 0 < Real.Gamma (d.f_freedom / 2) := Real.Gamma_pos_of_pos ha
  have hGa' : 0 < Real.Gamma ((d.f_freedom + 1) / 2) := Real.Gamma_pos_of_pos ha'
  have hpi : 0 < Real.sqrt Real.pi := Real.sqrt_pos.mpr Real.pi_pos
  have hsn : 0 < Real.sqrt d.f_freedom := Real.sqrt_pos.mpr hν
  have hp : studentDensity d.f_location d.f_scale d.f_freedom x =
      Real.Gamma ((d.f_freedom + 1) / 2) / Real.Gamma (d.f_freedom / 2) *
      (1 + k x * k x / d.f_freedom) ^ (-(1 / 2) * (d.f_freedom + 1)) /
        (Real.sqrt d.f_freedom * Real.sqrt Real.pi) / d.f_scale := rfl
  have hre : ∀ A1 A2 C H : ℝ, A1 * A2 * C * H = C * (A1 * A2 * H) := fun _ _ _ _ => by ring
  have hC : Real.Gamma (d.f_freedom / 2 + 1 / 2) /
      (Real.Gamma (d.f_freedom / 2) * Real.Gamma (1 / 2)) =
      Real.Gamma ((d.f_freedom + 1) / 2) / (Real.Gamma (d.f_freedom / 2) * Real.sqrt Real.pi) := by
    rw [Real.Gamma_one_half_eq, show d.f_freedom / 2 + 1 / 2 = (d.f_freedom + 1) / 2 by ring]
  rw [hp]
  rcases lt_or_gt_of_ne hx with hlt | hgt
  · have hE : StudentsT.cdf d =ᶠ[nhds x] fun y =>
        1 / 2 * SF.beta_reg (d.f_freedom / 2) (1 / 2) (d.f_freedom / (d.f_freedom + k y * k y)) := by
      filter_upwards [Iio_mem_nhds hlt] with y hy'
      have hy : y < d.f_location := hy'
      unfold StudentsT.cdf; model_norm; rw [if_pos hy.le]
    refine ((hI.const_mul (1 / 2)).congr_deriv ?_).congr_of_eventuallyEq hE
    have hkneg : k x < 0 := div_neg_of_neg_of_pos (sub_neg.mpr hlt) hσ
    rw [hre, students_t_rpow_aux hν hσ hk0, hC, abs_of_neg hkneg]
    field_simp
  · have hE : StudentsT.cdf d =ᶠ[nhds x] fun y =>
        1 - 1 / 2 * SF.beta_reg (d.f_freedom / 2) (1 / 2) (d.f_freedom / (d.f_freedom + k y * k y)) := by
      filter_upwards [Ioi_mem_nhds hgt] with y hy'
      have hy : d.f_location < y := hy'
      unfold StudentsT.cdf; model_norm; rw [if_neg (not_le.mpr hy)]
    refine (((hI.const_mul (1 / 2)).const_sub 1).congr_deriv ?_).congr_of_eventuallyEq hE
    have hkpos : 0 < k x := div_pos (sub_pos.mpr hgt) hσ
    rw [hre, students_t_rpow_aux hν hσ hk0, hC, abs_of_pos hkpos]
    field_simp

/-- StudentsT: the cdf is continuous (at `x = location`, where the two branches meet: `I_1 = 1`, so
    both give `½`) -/
theorem students_t_continuous_cdf_rel (B : BetaRegDerivSpec) (d : StudentsT ℝ)
    (hσ : 0 < d.f_scale) (hν : 0 < d.f_freedom) : Continuous (StudentsT.cdf d) := by
  have ha : 0 < d.f_freedom / 2 := by positivity
  set h : ℝ → ℝ := fun y => d.f_freedom /
    (d.f_freedom + (y - d.f_location) / d.f_scale * ((y - d.f_location) / d.f_scale)) with hh_def
  have hden : ∀ y : ℝ, 0 < d.f_freedom + (y - d.f_location) / d.f_scale * ((y - d.f_location) / d.f_scale) := by
    intro y
    have := mul_self_nonneg ((y - d.f_location) / d.f_scale)
    positivity
  have hcont : Continuous h := by
    refine Continuous.div continuous_const (by fun_prop) (fun y => (hden y).ne')
  have hmem : ∀ y, h y ∈ Icc (0:ℝ) 1 := by
    intro y
    refine ⟨(div_pos hν (hden y)).le, ?_⟩
    show d.f_freedom / _ ≤ 1
    rw [div_le_one (hden y)]
    have := mul_self_nonneg ((y - d.f_location) / d.f_scale)
    linarith
  have hQ : Continuous (fun y => SF.beta_reg (d.f_freedom / 2) (1 / 2) (h y)) :=
    (B.continuousOn _ _ ha (by norm_num)).comp_continuous hcont hmem
  have hmu : h d.f_location = 1 := by simp [hh_def, hν.ne']
  refine continuous_iff_continuousAt.mpr fun x => ?_
  by_cases hx : x = d.f_location
  · subst hx
    refine continuousAt_of_branches_within
      (G₁ := fun y => 1 / 2 * SF.beta_reg (d.f_freedom / 2) (1 / 2) (h y))
      (G₂ := fun y => 1 - 1 / 2 * SF.beta_reg (d.f_freedom / 2) (1 / 2) (h y))
      (l := d.f_location - 1) (u := d.f_location + 1) (by linarith) (by linarith) ?_ ?_
      (continuous_const.mul hQ).continuousWithinAt
      (continuous_const.sub (continuous_const.mul hQ)).continuousWithinAt
    · intro y _ hy
      unfold StudentsT.cdf; model_norm; rw [if_pos hy]
    · intro y hy _
      rcases hy.lt_or_eq with hlt | heq
      · unfold StudentsT.cdf; model_norm; rw [if_neg (not_le.mpr hlt)]
      · rw [← heq]
        unfold StudentsT.cdf; model_norm
        rw [if_pos le_rfl]
        show 1 / 2 * SF.beta_reg (d.f_freedom / 2) (1 / 2) (h d.f_location) =
          1 - 1 / 2 * SF.beta_reg (d.f_freedom / 2) (1 / 2) (h d.f_location)
        rw [hmu, B.at_one _ _ ha (by norm_num)]; norm_num
  · exact (students_t_hasDerivAt_cdf_density_of_ne_rel B d hσ hν x hx).continuousAt

/-- StudentsT (every `freedom > 0`): the generated cdf has derivative `studentDensity μ σ ν x` at EVERY
    x, `x = location` included (the cdf is continuous there and the density has a limit, so the
    derivative extends across the branch point) -/
theorem students_t_hasDerivAt_cdf_density_rel (B : BetaRegDerivSpec)
    (d : StudentsT ℝ) (hσ : 0 < d.f_scale) (hν : 0 < d.f_freedom) (x : ℝ) :
    HasDerivAt (StudentsT.cdf d) (studentDensity d.f_location d.f_scale d.f_freedom x) x :=
  hasDerivAt_of_hasDerivAt_of_ne' (x := d.f_location)
    (fun y hy => students_t_hasDerivAt_cdf_density_of_ne_rel B d hσ hν y hy)
    (students_t_continuous_cdf_rel B d hσ hν).continuousAt
    (continuous_studentDensity _ _ _ hν).continuousAt x

/-- StudentsT, `freedom < 1e8`: the generated pdf (Student branch, normalised with
    `exp(ln_gamma((ν+1)/2) − ln_gamma(ν/2)) / √(νπ)`) is `studentDensity` -/
theorem students_t_pdf_eq_density_rel (G : GammaDensitySpec) (d : StudentsT ℝ)
    (hν : 0 < d.f_freedom) (hν8 : d.f_freedom < 1e8) (x : ℝ) :
    StudentsT.pdf d x = studentDensity d.f_location d.f_scale d.f_freedom x := by
  have ha : 0 < d.f_freedom / 2 := by positivity
  have ha' : 0 < (d.f_freedom + 1) / 2 := by positivity
  unfold StudentsT.pdf studentDensity; model_norm
  rw [if_neg (not_le.mpr hν8), G.ln_gamma_eq _ ha, G.ln_gamma_eq _ ha', Real.exp_sub,
    Real.exp_log (Real.Gamma_pos_of_pos ha), Real.exp_log (Real.Gamma_pos_of_pos ha'),
    Real.sqrt_mul hν.le]

/-- StudentsT, `freedom < 1e8`: `cdf` has derivative `pdf x` at EVERY x -/
theorem students_t_hasDerivAt_cdf_rel (G : GammaDensitySpec) (B : BetaRegDerivSpec)
    (d : StudentsT ℝ) (hσ : 0 < d.f_scale) (hν : 0 < d.f_freedom) (hν8 : d.f_freedom < 1e8) (x : ℝ) :
    HasDerivAt (StudentsT.cdf d) (StudentsT.pdf d x) x := by
  rw [students_t_pdf_eq_density_rel G d hν hν8 x]
  exact students_t_hasDerivAt_cdf_density_rel B d hσ hν x

/-- StudentsT, `freedom < 1e8`: `∫ a..b pdf = cdf b - cdf a` for every `a ≤ b` -/
theorem students_t_integral_pdf_rel (G : GammaDensitySpec) (B : BetaRegDerivSpec)
    (d : StudentsT ℝ) (hσ : 0 < d.f_scale) (hν : 0 < d.f_freedom) (hν8 : d.f_freedom < 1e8)
    {a b : ℝ} (hab : a ≤ b) :
    ∫ t in a..b, StudentsT.pdf d t = StudentsT.cdf d b - StudentsT.cdf d a :=
  integral_eq_sub_of_kinks ∅ (students_t_continuous_cdf_rel B d hσ hν)
    (fun x _ => students_t_hasDerivAt_cdf_rel G B d hσ hν hν8 x)
    (students_t_pdf_nonneg d hσ hν) hab

example : ∃ d : StudentsT ℝ, 0 < d.f_scale ∧ 0 < d.f_freedom ∧ d.f_freedom < 1e8 :=
  ⟨⟨0, 1, 3⟩, by norm_num, by norm_num, by norm_num⟩

/-- DEFECT (exact arithmetic): for `freedom ≥ 1e8` `StudentsT::pdf` switches to the Normal density
    while `StudentsT::cdf` keeps the Student formula (it switches only at `freedom = ∞`), so the pdf is
    NOT the derivative of the cdf: it cannot be the derivative both at `x = μ` and at `x = μ + σ√ν`
    (the cdf's derivative is `studentDensity`, whose ratio between these two points is
    `2^(−(ν+1)/2)`, the Normal density's is `e^{−ν/2}`).  The discrepancy is `O(1/ν) ≤ 1e-8`
    relative, below C03's numeric tolerance; it is a mismatch of formulas, not of magnitudes. -/
theorem students_t_pdf_large_freedom_counterexample (B : BetaRegDerivSpec) (d : StudentsT ℝ)
    (hσ : 0 < d.f_scale) (h8 : (1e8 : ℝ) ≤ d.f_freedom) :
    ¬ (HasDerivAt (StudentsT.cdf d) (StudentsT.pdf d d.f_location) d.f_location ∧
       HasDerivAt (StudentsT.cdf d)
         (StudentsT.pdf d (d.f_location + d.f_scale * Real.sqrt d.f_freedom))
         (d.f_location + d.f_scale * Real.sqrt d.f_freedom)) := by
  rintro ⟨H0, H1⟩
  have hν : 0 < d.f_freedom := lt_of_lt_of_le (by norm_num) h8
  have hν' : (100000000 : ℝ) ≤ d.f_freedom := by rw [← lit_1e8]; exact h8
  have u0 := H0.unique (students_t_hasDerivAt_cdf_density_rel B d hσ hν d.f_location)
  have u1 := H1.unique (students_t_hasDerivAt_cdf_density_rel B d hσ hν
    (d.f_location + d.f_scale * Real.sqrt d.f_freedom))
  have hsq : Real.sqrt d.f_freedom * Real.sqrt d.f_freedom = d.f_freedom := Real.mul_self_sqrt hν.le
  have hk : (d.f_location + d.f_scale * Real.sqrt d.f_freedom - d.f_location) / d.f_scale =
      Real.sqrt d.f_freedom := by field_simp; ring
  have h2pi : 0 < Real.sqrt (2 * Real.pi) := Real.sqrt_pos.mpr (by positivity)
  unfold StudentsT.pdf D.normal.pdf_unchecked studentDensity at u0 u1
  model_norm
  rw [if_pos h8] at u0 u1
  rw [hk, hsq, div_self hν.ne'] at u1
  simp only [sub_self, zero_div, mul_zero, Real.exp_zero, add_zero, Real.one_rpow, mul_one] at u0
  set C := Real.Gamma ((d.f_freedom + 1) / 2) / Real.Gamma (d.f_freedom / 2) with hC
  -- u0 : 1 / (√(2π) σ) = C / (√ν √π) / σ ;  u1 : exp(-(1/2) ν) / (√(2π) σ) = C * 2^(-(1/2)(ν+1)) / (√ν √π) / σ
  have key : Real.exp (-(1 / 2) * Real.sqrt d.f_freedom * Real.sqrt d.f_freedom) =
      (1 + 1 : ℝ) ^ (-(1 / 2) * (d.f_freedom + 1)) := by
    have hne : Real.sqrt (2 * Real.pi) * d.f_scale ≠ 0 := by positivity
    have e1 : Real.exp (-(1 / 2) * Real.sqrt d.f_freedom * Real.sqrt d.f_freedom) =
        (1 / (Real.sqrt (2 * Real.pi) * d.f_scale))⁻¹ *
          (Real.exp (-(1 / 2) * Real.sqrt d.f_freedom * Real.sqrt d.f_freedom) /
            (Real.sqrt (2 * Real.pi) * d.f_scale)) := by field_simp
    rw [e1, u0, u1]
    have hC0 : C ≠ 0 := by
      rw [hC]
      exact (div_pos (Real.Gamma_pos_of_pos (by positivity)) (Real.Gamma_pos_of_pos (by positivity))).ne'
    have hsn : Real.sqrt d.f_freedom ≠ 0 := (Real.sqrt_pos.mpr hν).ne'
    have hpi : Real.sqrt Real.pi ≠ 0 := (Real.sqrt_pos.mpr Real.pi_pos).ne'
    field_simp
  have hl := congrArg Real.log key
  rw [Real.log_exp, Real.log_rpow (by norm_num), mul_assoc, hsq] at hl
  have hlog2 : Real.log (1 + 1) < 0.6931471808 := by
    rw [show (1 + 1 : ℝ) = 2 by norm_num]; exact Real.log_two_lt_d9
  have hlog2' : 0 < Real.log (1 + 1) := Real.log_pos (by norm_num)
  nlinarith

/-- the defect is reachable: `StudentsT::new(0, 1, 1e8)` is accepted -/
example : ∃ d : StudentsT ℝ, 0 < d.f_scale ∧ (1e8 : ℝ) ≤ d.f_freedom :=
  ⟨⟨0, 1, 1e8⟩, by norm_num, le_rfl⟩

end Statrs.Props.C03
