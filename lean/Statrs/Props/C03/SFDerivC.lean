/-
  C03 (continuous families whose cdf is an error function) — Normal, LogNormal over ℝ, relative to
  `ErfDerivSpec` (`erf' = (2/√π) e^{−x²}`, `erfc = 1 − erf`) and, for the continuity of
  `LogNormal::cdf` at `0` only, `ErfcLimitSpec` (`erfc → 0` at `+∞`):
    * Normal: `HasDerivAt cdf (pdf x) x` at EVERY x (no branch points: the cdf is the single
      expression `½ erfc((μ−x)/(σ√2))`), `∫ a..b pdf = cdf b − cdf a` for every `a ≤ b`;
    * LogNormal: `HasDerivAt cdf (pdf x) x` at every `x ≠ 0` (`0` = support boundary, the branch
      point `x ≤ 0` of the generated cdf; over ℝ the `is_infinite` guard never fires), continuity at
      `0`, and `∫ a..b pdf = cdf b − cdf a` for every `a ≤ b`.
  The constants checked: `½ · (2/√π) · 1/(σ√2) = 1/(√(2π) σ)`, `((μ−x)/(σ√2))² = ½((x−μ)/σ)²`, and the
  Jacobian `1/x` of `ln x`.
  The premise structures are jointly satisfiable (true functions): `Witness.sfDeriv_specs_consistent`
  in `SFDerivWitness.lean`, so none of the `…_rel` theorems below is vacuous.
-/
import Statrs.Props.C03.SFDerivA
import Statrs.Gen.D_normal
import Statrs.Gen.D_log_normal
namespace Statrs.Props.C03
open Statrs Statrs.Gen Statrs.Lemmas.Density Statrs.Spec Filter Topology Set

/-- `√π · (σ·√2) = √(2π) · σ` -/
theorem sqrt_pi_mul_sqrt_two (s : ℝ) :
    Real.sqrt Real.pi * (s * Real.sqrt 2) = Real.sqrt (2 * Real.pi) * s := by
  rw [Real.sqrt_mul (by norm_num : (0:ℝ) ≤ 2)]; ring

/-- `(t/(σ√2))² = ½ (t/σ)²` -/
theorem sq_div_sqrt_two (t s : ℝ) :
    t / (s * Real.sqrt 2) * (t / (s * Real.sqrt 2)) = 1 / 2 * (t / s) * (t / s) := by
  have h2 : Real.sqrt 2 * Real.sqrt 2 = 2 := Real.mul_self_sqrt (by norm_num)
  have h2' : Real.sqrt 2 ≠ 0 := by positivity
  by_cases hs : s = 0
  · subst hs; simp
  · field_simp
    rw [Real.sq_sqrt (by norm_num)]

variable [SF ℝ]

/-! ### Normal -/
omit [SF ℝ] in
/-- Normal: `0 < pdf x` for every x -/
theorem normal_pdf_pos (d : Normal ℝ) (hσ : 0 < d.f_std_dev) (x : ℝ) : 0 < Normal.pdf d x := by
  unfold Normal.pdf D.normal.pdf_unchecked; model_norm
  positivity

/-- Normal: `cdf = ½ erfc((μ−x)/(σ√2))` has derivative `pdf x` at every x -/
theorem normal_hasDerivAt_cdf_rel (E : ErfDerivSpec) (d : Normal ℝ) (hσ : 0 < d.f_std_dev) (x : ℝ) :
    HasDerivAt (Normal.cdf d) (Normal.pdf d x) x := by
  have hF : Normal.cdf d = fun y => 1 / 2 * SF.erfc ((d.f_mean - y) / (d.f_std_dev * Real.sqrt 2)) := by
    funext y; unfold Normal.cdf D.normal.cdf_unchecked; model_norm
  rw [hF]
  have h1 : HasDerivAt (fun y : ℝ => (d.f_mean - y) / (d.f_std_dev * Real.sqrt 2))
      (-1 / (d.f_std_dev * Real.sqrt 2)) x :=
    ((hasDerivAt_id' x).const_sub d.f_mean).div_const _
  have h2 := E.erfc_hasDerivAt ((d.f_mean - x) / (d.f_std_dev * Real.sqrt 2))
  have h3 := (h2.comp x h1).const_mul (1 / 2)
  refine h3.congr_deriv ?_
  unfold Normal.pdf D.normal.pdf_unchecked; model_norm
  rw [sq_div_sqrt_two, ← sqrt_pi_mul_sqrt_two,
    show 1 / 2 * ((d.f_mean - x) / d.f_std_dev) * ((d.f_mean - x) / d.f_std_dev)
      = 1 / 2 * ((x - d.f_mean) / d.f_std_dev) * ((x - d.f_mean) / d.f_std_dev) by ring]
  have hpi : Real.sqrt Real.pi ≠ 0 := by positivity
  have h2' : Real.sqrt 2 ≠ 0 := by positivity
  field_simp

/-- Normal: `∫ a..b pdf = cdf b - cdf a` for every `a ≤ b` -/
theorem normal_integral_pdf_rel (E : ErfDerivSpec) (d : Normal ℝ) (hσ : 0 < d.f_std_dev)
    {a b : ℝ} (hab : a ≤ b) :
    ∫ t in a..b, Normal.pdf d t = Normal.cdf d b - Normal.cdf d a :=
  integral_eq_sub_of_kinks ∅
    (continuous_iff_continuousAt.mpr fun x => (normal_hasDerivAt_cdf_rel E d hσ x).continuousAt)
    (fun x _ => normal_hasDerivAt_cdf_rel E d hσ x) (fun x => (normal_pdf_pos d hσ x).le) hab

example : ∃ d : Normal ℝ, 0 < d.f_std_dev := ⟨⟨0, 1⟩, by norm_num⟩

/-! ### LogNormal -/
omit [SF ℝ] in
/-- LogNormal: `pdf x = 0` for `x ≤ 0` -/
theorem log_normal_pdf_eq_zero (d : LogNormal ℝ) (x : ℝ) (hx : x ≤ 0) : LogNormal.pdf d x = 0 := by
  unfold LogNormal.pdf; model_norm; rw [if_pos hx]

omit [SF ℝ] in
/-- LogNormal: `0 ≤ pdf x` for every x -/
theorem log_normal_pdf_nonneg (d : LogNormal ℝ) (hσ : 0 < d.f_scale) (x : ℝ) :
    0 ≤ LogNormal.pdf d x := by
  unfold LogNormal.pdf; model_norm
  split_ifs with h
  · exact le_rfl
  · have hx : 0 < x := not_le.mp h
    positivity

/-- LogNormal: `cdf = ½ erfc((μ − ln x)/(σ√2))` has derivative `pdf x` at every `x ≠ 0` -/
theorem log_normal_hasDerivAt_cdf_rel (E : ErfDerivSpec) (d : LogNormal ℝ) (hσ : 0 < d.f_scale)
    (x : ℝ) (hx : x ≠ 0) : HasDerivAt (LogNormal.cdf d) (LogNormal.pdf d x) x := by
  rcases lt_or_gt_of_ne hx with hneg | hpos
  · have hE : LogNormal.cdf d =ᶠ[nhds x] fun _ => (0:ℝ) := by
      filter_upwards [Iio_mem_nhds hneg] with y hy'
      have hy : y < 0 := hy'
      unfold LogNormal.cdf; model_norm; rw [if_pos hy.le]
    rw [log_normal_pdf_eq_zero d x hneg.le]
    exact (hasDerivAt_const x (0:ℝ)).congr_of_eventuallyEq hE
  · have hE : LogNormal.cdf d =ᶠ[nhds x] fun y =>
        1 / 2 * SF.erfc ((d.f_location - Real.log y) / (d.f_scale * Real.sqrt 2)) := by
      filter_upwards [Ioi_mem_nhds hpos] with y hy'
      have hy : 0 < y := hy'
      unfold LogNormal.cdf; model_norm; rw [if_neg (not_le.mpr hy)]
    have h1 : HasDerivAt (fun y : ℝ => (d.f_location - Real.log y) / (d.f_scale * Real.sqrt 2))
        (-x⁻¹ / (d.f_scale * Real.sqrt 2)) x :=
      ((Real.hasDerivAt_log hpos.ne').const_sub d.f_location).div_const _
    have h2 := E.erfc_hasDerivAt ((d.f_location - Real.log x) / (d.f_scale * Real.sqrt 2))
    have h3 := (h2.comp x h1).const_mul (1 / 2)
    refine (h3.congr_deriv ?_).congr_of_eventuallyEq hE
    unfold LogNormal.pdf; model_norm
    rw [if_neg (not_le.mpr hpos), sq_div_sqrt_two,
      show x * Real.sqrt (2 * Real.pi) * d.f_scale = x * (Real.sqrt (2 * Real.pi) * d.f_scale) by ring,
      ← sqrt_pi_mul_sqrt_two,
      show 1 / 2 * ((d.f_location - Real.log x) / d.f_scale) * ((d.f_location - Real.log x) / d.f_scale)
        = 1 / 2 * ((Real.log x - d.f_location) / d.f_scale) * ((Real.log x - d.f_location) / d.f_scale)
        by ring]
    have hpi : Real.sqrt Real.pi ≠ 0 := by positivity
    have h2' : Real.sqrt 2 ≠ 0 := by positivity
    field_simp

/-- LogNormal: the cdf is continuous (at `0`: `erfc(z) → 0` as `z → +∞`) -/
theorem log_normal_continuous_cdf_rel (E : ErfDerivSpec) (L : ErfcLimitSpec) (d : LogNormal ℝ)
    (hσ : 0 < d.f_scale) : Continuous (LogNormal.cdf d) := by
  refine continuous_iff_continuousAt.mpr fun x => ?_
  by_cases hx : x = 0
  · subst hx
    refine continuousAt_zero_of_tendsto ?_ ?_
    · intro y hy; unfold LogNormal.cdf; model_norm; rw [if_pos hy]
    · have ht : Tendsto (fun y : ℝ => (d.f_location - Real.log y) / (d.f_scale * Real.sqrt 2))
          (𝓝[>] 0) atTop := by
        have h1 : Tendsto (fun y : ℝ => -Real.log y) (𝓝[>] 0) atTop :=
          tendsto_neg_atBot_atTop.comp Real.tendsto_log_nhdsGT_zero
        have h2 : Tendsto (fun y : ℝ => d.f_location + -Real.log y) (𝓝[>] 0) atTop :=
          tendsto_atTop_add_const_left _ _ h1
        have h3 := h2.atTop_div_const (show 0 < d.f_scale * Real.sqrt 2 by positivity)
        exact h3.congr (fun y => by rw [sub_eq_add_neg])
      have h4 := ((L.erfc_tendsto_atTop.comp ht).const_mul (1 / 2 : ℝ))
      rw [mul_zero] at h4
      refine h4.congr' ?_
      filter_upwards [self_mem_nhdsWithin] with y hy
      have hy' : 0 < y := hy
      unfold LogNormal.cdf; model_norm; rw [if_neg (not_le.mpr hy')]; rfl
  · exact (log_normal_hasDerivAt_cdf_rel E d hσ x hx).continuousAt

/-- LogNormal: `∫ a..b pdf = cdf b - cdf a` for every `a ≤ b` -/
theorem log_normal_integral_pdf_rel (E : ErfDerivSpec) (L : ErfcLimitSpec) (d : LogNormal ℝ)
    (hσ : 0 < d.f_scale) {a b : ℝ} (hab : a ≤ b) :
    ∫ t in a..b, LogNormal.pdf d t = LogNormal.cdf d b - LogNormal.cdf d a :=
  integral_eq_sub_of_kinks {0} (log_normal_continuous_cdf_rel E L d hσ)
    (fun x hx => log_normal_hasDerivAt_cdf_rel E d hσ x (by simpa using hx))
    (log_normal_pdf_nonneg d hσ) hab

example : ∃ d : LogNormal ℝ, 0 < d.f_scale := ⟨⟨0, 1⟩, by norm_num⟩

end Statrs.Props.C03
