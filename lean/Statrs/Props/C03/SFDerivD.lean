/-
  C03 (discrete families whose cdf is a regularised incomplete beta/gamma function) — Binomial,
  Poisson, NegativeBinomial over ℝ: `pmf k = cdf k − cdf (k−1)` on the support and the telescoped sums
  (`Binomial`: the masses sum to 1), relative to
    * `BetaRegRecSpec` / `GammaUrRecSpec` — the textbook parameter recurrences of `I_x(a,b)` and
      `Q(a,x)` for REAL parameters (DLMF 8.17.18, 8.17.21, 8.8.6) and the closed forms `I_x(a,1)`,
      `I_x(1,b)`, `Q(1,x)`;
    * `Spec.TestsSF.LnBinomialSpec` (`exp(ln_binomial n k) = C(n,k)`), `LnFactorialSpec`,
      `Spec.GammaDensitySpec` (`ln_gamma = log Γ`).
  What is verified: that the generated cdf uses the right parameters
  (`I_{1−p}(n−k, k+1)`, `Q(k+1, λ)`, `I_p(r, k+1)`), and that the generated pmf formula
  (`exp(ln C(n,k) + k ln p + (n−k) ln(1−p))` with its `p = 0`/`p = 1` branches,
  `exp(−λ + k ln λ − ln k!)`, `exp(lnΓ(r+k) − lnΓ(r) − lnΓ(k+1) + r ln p + k ln1p(−p))`) is the
  increment of that cdf.  Integer arguments are Rust `u64`: `k − 1` exists only for `k ≥ 1`, the case
  `k = 0` is stated as `pmf 0 = cdf 0`.
  The premise structures are jointly satisfiable (true functions): `Witness.sfDeriv_specs_consistent`
  in `SFDerivWitness.lean`, so none of the `…_rel` theorems below is vacuous.
-/
import Statrs.Props.C03.SFDerivA
import Statrs.Spec.SFSpec_tests
import Statrs.Gen.D_binomial
import Statrs.Gen.D_poisson
import Statrs.Gen.D_negative_binomial
import Mathlib.Analysis.SpecialFunctions.Gamma.Basic
namespace Statrs.Props.C03
open Statrs Statrs.Gen Statrs.Lemmas.Density Statrs.Spec Statrs.Spec.TestsSF Filter Topology Set

/-- `Γ(M+K+1)/(Γ(M+1)Γ(K+1)) = C(M+K, K)` -/
theorem gamma_ratio_eq_choose (M K : ℕ) :
    Real.Gamma ((M : ℝ) + (K : ℝ) + 1) / (Real.Gamma ((M : ℝ) + 1) * Real.Gamma ((K : ℝ) + 1)) =
      ((M + K).choose K : ℝ) := by
  have h := Nat.add_choose_mul_factorial_mul_factorial M K
  have h' : (((M + K).choose K : ℕ) : ℝ) * (M.factorial : ℝ) * (K.factorial : ℝ) = ((M + K).factorial : ℝ) := by
    exact_mod_cast h
  have e : ((M : ℝ) + (K : ℝ) + 1) = ((M + K : ℕ) : ℝ) + 1 := by push_cast; ring
  rw [e, Real.Gamma_nat_eq_factorial, Real.Gamma_nat_eq_factorial, Real.Gamma_nat_eq_factorial, ← h']
  have hM : (M.factorial : ℝ) ≠ 0 := by exact_mod_cast M.factorial_ne_zero
  have hK : (K.factorial : ℝ) ≠ 0 := by exact_mod_cast K.factorial_ne_zero
  field_simp

variable [SF ℝ]

/-! ### Binomial -/
/-- Binomial (`n = M + K`): `cdf K − cdf (K−1) = C(n,K) (1−p)^M p^K` for `K ≥ 1`, every `p ∈ [0,1]` -/
theorem binomial_cdf_sub_value_rel (R : BetaRegRecSpec) (d : Binomial ℝ) (hp0 : 0 ≤ d.f_p)
    (hp1 : d.f_p ≤ 1) (M K : ℕ) (hn : d.f_n = ((M + K : ℕ) : ℤ)) (hK : 1 ≤ K) :
    Binomial.cdf d (K : ℤ) - Binomial.cdf d ((K : ℤ) - 1) =
      ((M + K).choose K : ℝ) * (1 - d.f_p) ^ (M : ℝ) * d.f_p ^ (K : ℝ) := by
  have hx0 : 0 ≤ 1 - d.f_p := by linarith
  have hx1 : 1 - d.f_p ≤ 1 := by linarith
  have hKpos : (0:ℝ) < (K : ℝ) := by exact_mod_cast hK
  have c1 : Binomial.cdf d ((K : ℤ) - 1) = SF.beta_reg ((M : ℝ) + 1) (K : ℝ) (1 - d.f_p) := by
    have hu1 : usub d.f_n ((K : ℤ) - 1) = (M : ℤ) + 1 := by
      unfold usub; rw [hn, if_neg (by push_cast; omega)]; push_cast; ring
    unfold Binomial.cdf; model_norm
    rw [if_neg (by rw [hn]; push_cast; omega), hu1]
    simp only [Int.cast_add, Int.cast_one, Int.cast_sub, Int.cast_natCast, sub_add_cancel]
  rw [c1]
  rcases Nat.eq_zero_or_pos M with hM | hM
  · subst hM
    have c0 : Binomial.cdf d (K : ℤ) = 1 := by
      unfold Binomial.cdf; model_norm
      rw [if_pos (by rw [hn]; push_cast; omega)]
    rw [c0]
    simp only [Nat.cast_zero, zero_add, Real.rpow_zero, mul_one, Nat.choose_self, Nat.cast_one, one_mul]
    rw [R.a_one _ _ hKpos hx0 hx1]
    ring_nf
  · have hMpos : (0:ℝ) < (M : ℝ) := by exact_mod_cast hM
    have c0 : Binomial.cdf d (K : ℤ) = SF.beta_reg (M : ℝ) ((K : ℝ) + 1) (1 - d.f_p) := by
      have hu0 : usub d.f_n (K : ℤ) = (M : ℤ) := by
        unfold usub; rw [hn, if_neg (by push_cast; omega)]; push_cast; ring
      unfold Binomial.cdf; model_norm
      rw [if_neg (by rw [hn]; push_cast; omega), hu0]
      simp only [Int.cast_natCast]
    rw [c0, R.diag _ _ _ hMpos hKpos hx0 hx1, gamma_ratio_eq_choose, sub_sub_cancel]
    ring

/-- Binomial (`n = M + K`): every branch of the generated pmf (`p = 0`, `p = 1`,
    `exp(ln C(n,k) + k ln p + (n−k) ln(1−p))`) is `C(n,K) (1−p)^M p^K`, for every `p ∈ [0,1]` -/
theorem binomial_pmf_value_rel (L : LnBinomialSpec) (d : Binomial ℝ) (hp0 : 0 ≤ d.f_p)
    (hp1 : d.f_p ≤ 1) (M K : ℕ) (hn : d.f_n = ((M + K : ℕ) : ℤ)) :
    Binomial.pmf d (K : ℤ) = ((M + K).choose K : ℝ) * (1 - d.f_p) ^ (M : ℝ) * d.f_p ^ (K : ℝ) := by
  have hu0 : usub d.f_n (K : ℤ) = (M : ℤ) := by
    unfold usub; rw [hn, if_neg (by push_cast; omega)]; push_cast; ring
  unfold Binomial.pmf; model_norm
  rw [if_neg (by rw [hn]; push_cast; omega), hu0]
  split_ifs with h0 hK0 h1 hKn
  · -- p = 0, K = 0
    have : K = 0 := by exact_mod_cast hK0
    subst this; simp [h0]
  · -- p = 0, K ≠ 0
    have hK : (K : ℝ) ≠ 0 := by exact_mod_cast (fun h => hK0 (by exact_mod_cast h) : K ≠ 0)
    rw [h0, Real.zero_rpow hK, mul_zero]
  · -- p = 1, K = n
    have : M = 0 := by rw [hn] at hKn; push_cast at hKn; omega
    subst this; simp [h1]
  · -- p = 1, K ≠ n
    have hM : (M : ℝ) ≠ 0 := by
      have : M ≠ 0 := by rintro rfl; exact hKn (by rw [hn]; push_cast; ring)
      exact_mod_cast this
    rw [h1, sub_self, Real.zero_rpow hM, mul_zero, zero_mul]
  · -- interior
    have hp : 0 < d.f_p := lt_of_le_of_ne hp0 (Ne.symm h0)
    have h1p : 0 < 1 - d.f_p := sub_pos.mpr (lt_of_le_of_ne hp1 h1)
    have hL := L.exp_ln_binomial d.f_n (K : ℤ) (Int.natCast_nonneg K) (by rw [hn]; push_cast; omega)
    rw [hn, Int.toNat_natCast, Int.toNat_natCast] at hL
    rw [Real.exp_add, Real.exp_add, hn, hL, Int.cast_natCast, Int.cast_natCast, exp_mul_log hp,
      exp_mul_log h1p]
    ring

/-- Binomial: `pmf k = cdf k − cdf (k−1)` for every `1 ≤ k ≤ n`, under exactly the constructor's
    hypotheses (`0 ≤ p ≤ 1`; `n : u64`), end points `p = 0`, `p = 1` and `k = n` included -/
theorem binomial_pmf_eq_cdf_sub_rel (R : BetaRegRecSpec) (L : LnBinomialSpec) (d : Binomial ℝ)
    (hp0 : 0 ≤ d.f_p) (hp1 : d.f_p ≤ 1) (k : ℤ) (hk1 : 1 ≤ k) (hkn : k ≤ d.f_n) :
    Binomial.pmf d k = Binomial.cdf d k - Binomial.cdf d (k - 1) := by
  obtain ⟨K, rfl⟩ := Int.eq_ofNat_of_zero_le (by omega : 0 ≤ k)
  obtain ⟨M, hM⟩ := Int.eq_ofNat_of_zero_le (by omega : 0 ≤ d.f_n - (K : ℤ))
  have hn : d.f_n = ((M + K : ℕ) : ℤ) := by push_cast; omega
  rw [binomial_pmf_value_rel L d hp0 hp1 M K hn,
    binomial_cdf_sub_value_rel R d hp0 hp1 M K hn (by exact_mod_cast hk1)]

/-- Binomial: `pmf 0 = cdf 0` (`I_{1−p}(n,1) = (1−p)^n`; `cdf 0 = 1` when `n = 0`) -/
theorem binomial_pmf_zero_eq_cdf_rel (R : BetaRegRecSpec) (L : LnBinomialSpec) (d : Binomial ℝ)
    (hp0 : 0 ≤ d.f_p) (hp1 : d.f_p ≤ 1) (hn0 : 0 ≤ d.f_n) :
    Binomial.pmf d 0 = Binomial.cdf d 0 := by
  obtain ⟨M, hM⟩ := Int.eq_ofNat_of_zero_le hn0
  have hn : d.f_n = ((M + 0 : ℕ) : ℤ) := by simpa using hM
  have h := binomial_pmf_value_rel L d hp0 hp1 M 0 hn
  simp only [Nat.cast_zero, add_zero, Nat.choose_zero_right, Nat.cast_one, one_mul, Real.rpow_zero,
    mul_one] at h
  rw [h]
  unfold Binomial.cdf; model_norm
  rcases Nat.eq_zero_or_pos M with h0 | hpos
  · subst h0
    rw [if_pos (by rw [hM]; simp)]; simp
  · have hMpos : (0:ℝ) < (M : ℝ) := by exact_mod_cast hpos
    have hu : usub d.f_n 0 = (M : ℤ) := by
      unfold usub; rw [hM, if_neg (by omega)]; ring
    rw [if_neg (by rw [hM]; omega), hu, Int.cast_zero, zero_add, Int.cast_natCast,
      R.b_one _ _ hMpos (by linarith) (by linarith)]

/-- Binomial: the masses telescope, `∑_{k=0}^{m} pmf k = cdf m` for `m ≤ n` -/
theorem binomial_partial_sum_pmf_rel (R : BetaRegRecSpec) (L : LnBinomialSpec) (d : Binomial ℝ)
    (hp0 : 0 ≤ d.f_p) (hp1 : d.f_p ≤ 1) (hn0 : 0 ≤ d.f_n) (m : ℕ) (hm : (m : ℤ) ≤ d.f_n) :
    ∑ k ∈ Finset.range (m + 1), Binomial.pmf d (k : ℤ) = Binomial.cdf d (m : ℤ) := by
  induction m with
  | zero => simpa using binomial_pmf_zero_eq_cdf_rel R L d hp0 hp1 hn0
  | succ j ih =>
    rw [Finset.sum_range_succ, ih (by push_cast at hm; omega),
      binomial_pmf_eq_cdf_sub_rel R L d hp0 hp1 _ (by push_cast; omega) hm]
    push_cast
    ring_nf

/-- Binomial: the masses sum to 1 over the support `0..n` -/
theorem binomial_sum_pmf_rel (R : BetaRegRecSpec) (L : LnBinomialSpec) (d : Binomial ℝ)
    (hp0 : 0 ≤ d.f_p) (hp1 : d.f_p ≤ 1) (hn0 : 0 ≤ d.f_n) :
    ∑ k ∈ Finset.range (d.f_n.toNat + 1), Binomial.pmf d (k : ℤ) = 1 := by
  have hcast : ((d.f_n.toNat : ℕ) : ℤ) = d.f_n := Int.toNat_of_nonneg hn0
  rw [binomial_partial_sum_pmf_rel R L d hp0 hp1 hn0 _ (by rw [hcast]), hcast]
  unfold Binomial.cdf; model_norm
  rw [if_pos le_rfl]

example : ∃ d : Binomial ℝ, 0 ≤ d.f_p ∧ d.f_p ≤ 1 ∧ 0 ≤ d.f_n := ⟨⟨0.3, 5⟩, by norm_num, by norm_num, by norm_num⟩
/-- the end points `p = 0`, `p = 1` are accepted by `new` and covered -/
example : ∃ d1 d2 : Binomial ℝ, (d1.f_p = 0 ∧ 0 ≤ d1.f_n) ∧ (d2.f_p = 1 ∧ 0 ≤ d2.f_n) :=
  ⟨⟨0, 5⟩, ⟨1, 5⟩, by norm_num, by norm_num⟩

/-! ### Poisson -/
/-- Poisson: `pmf k = λ^k e^{−λ} / k!` -/
theorem poisson_pmf_formula_rel (F : LnFactorialSpec) (d : Poisson ℝ) (hl : 0 < d.f_lambda) (n : ℕ) :
    Poisson.pmf d (n : ℤ) = d.f_lambda ^ (n : ℝ) * Real.exp (-d.f_lambda) / (n.factorial : ℝ) := by
  have hf : (0:ℝ) < (n.factorial : ℝ) := by exact_mod_cast n.factorial_pos
  unfold Poisson.pmf; model_norm
  rw [F.ln_factorial_eq _ (Int.natCast_nonneg n), Int.toNat_natCast, Real.exp_sub, Real.exp_add,
    Real.exp_log hf, Int.cast_natCast, exp_mul_log hl]
  ring

/-- Poisson: `pmf 0 = cdf 0` (`Q(1,λ) = e^{−λ}`) -/
theorem poisson_pmf_zero_eq_cdf_rel (R : GammaUrRecSpec) (F : LnFactorialSpec) (d : Poisson ℝ)
    (hl : 0 < d.f_lambda) : Poisson.pmf d 0 = Poisson.cdf d 0 := by
  have h := poisson_pmf_formula_rel F d hl 0
  simp only [Nat.cast_zero, Real.rpow_zero, Nat.factorial_zero, Nat.cast_one, div_one, one_mul] at h
  rw [h]
  unfold Poisson.cdf; model_norm
  rw [Int.cast_zero, zero_add, R.ur_one _ hl]

/-- Poisson: `pmf k = cdf k − cdf (k−1)` for every `k ≥ 1`
    (`Q(k+1,λ) − Q(k,λ) = λ^k e^{−λ}/Γ(k+1)`, and the generated pmf is `exp(−λ + k ln λ − ln k!)`) -/
theorem poisson_pmf_eq_cdf_sub_rel (R : GammaUrRecSpec) (F : LnFactorialSpec) (d : Poisson ℝ)
    (hl : 0 < d.f_lambda) (k : ℤ) (hk : 1 ≤ k) :
    Poisson.pmf d k = Poisson.cdf d k - Poisson.cdf d (k - 1) := by
  obtain ⟨n, rfl⟩ := Int.eq_ofNat_of_zero_le (by omega : 0 ≤ k)
  have hn : (0:ℝ) < (n : ℝ) := by exact_mod_cast (by omega : 0 < n)
  rw [poisson_pmf_formula_rel F d hl n]
  unfold Poisson.cdf; model_norm
  rw [Int.cast_sub, Int.cast_one, sub_add_cancel, Int.cast_natCast, R.ur_succ _ _ hn hl,
    Real.Gamma_nat_eq_factorial]

/-- Poisson: the masses telescope, `∑_{k=0}^{n} pmf k = cdf n` -/
theorem poisson_sum_pmf_rel (R : GammaUrRecSpec) (F : LnFactorialSpec) (d : Poisson ℝ)
    (hl : 0 < d.f_lambda) (n : ℕ) :
    ∑ k ∈ Finset.range (n + 1), Poisson.pmf d (k : ℤ) = Poisson.cdf d (n : ℤ) := by
  induction n with
  | zero => simpa using poisson_pmf_zero_eq_cdf_rel R F d hl
  | succ m ih =>
    rw [Finset.sum_range_succ, ih, poisson_pmf_eq_cdf_sub_rel R F d hl _ (by push_cast; omega)]
    push_cast
    ring_nf

example : ∃ d : Poisson ℝ, 0 < d.f_lambda := ⟨⟨2.5⟩, by norm_num⟩

/-! ### NegativeBinomial -/
/-- NegativeBinomial (`r > 0`, `0 < p < 1`): `pmf k = p^r (1−p)^k Γ(r+k)/(Γ(r) Γ(k+1))` -/
theorem negative_binomial_pmf_formula_rel (G : GammaDensitySpec) (d : NegativeBinomial ℝ)
    (hr : 0 < d.f_r) (hp0 : 0 < d.f_p) (hp1 : d.f_p < 1) (n : ℕ) :
    NegativeBinomial.pmf d (n : ℤ) = d.f_p ^ d.f_r * (1 - d.f_p) ^ (n : ℝ) *
      (Real.Gamma (d.f_r + n) / (Real.Gamma d.f_r * Real.Gamma ((n : ℝ) + 1))) := by
  have h1p : 0 < 1 - d.f_p := by linarith
  have hrn : 0 < d.f_r + (n : ℝ) := by positivity
  have hn1 : 0 < (n : ℝ) + 1 := by positivity
  have hG1 := Real.Gamma_pos_of_pos hr
  have hG2 := Real.Gamma_pos_of_pos hrn
  have hG3 := Real.Gamma_pos_of_pos hn1
  unfold NegativeBinomial.pmf NegativeBinomial.ln_pmf; model_norm
  rw [Int.cast_natCast, G.ln_gamma_eq _ hr, G.ln_gamma_eq _ hrn, G.ln_gamma_eq _ hn1,
    ← sub_eq_add_neg, Real.exp_add, Real.exp_add, Real.exp_sub, Real.exp_sub, exp_mul_log hp0,
    exp_mul_log h1p, Real.exp_log hG1, Real.exp_log hG2, Real.exp_log hG3]
  field_simp

/-- NegativeBinomial: `pmf 0 = cdf 0` (`I_p(r,1) = p^r`) -/
theorem negative_binomial_pmf_zero_eq_cdf_rel_partial (G : GammaDensitySpec) (R : BetaRegRecSpec)
    (d : NegativeBinomial ℝ) (hr : 0 < d.f_r) (hp0 : 0 < d.f_p) (hp1 : d.f_p < 1) :
    NegativeBinomial.pmf d 0 = NegativeBinomial.cdf d 0 := by
  have h := negative_binomial_pmf_formula_rel G d hr hp0 hp1 0
  simp only [Nat.cast_zero, Real.rpow_zero, add_zero, zero_add, Real.Gamma_one, mul_one] at h
  rw [h, div_self (Real.Gamma_pos_of_pos hr).ne', mul_one]
  unfold NegativeBinomial.cdf; model_norm
  rw [Int.cast_zero, zero_add, R.b_one _ _ hr hp0.le hp1.le]

/-- NegativeBinomial (`r > 0`, `0 < p < 1`): `pmf k = cdf k − cdf (k−1)` for every `k ≥ 1`
    (`I_p(r,k+1) − I_p(r,k) = p^r (1−p)^k Γ(r+k)/(Γ(r)Γ(k+1))`).
    PARTIAL: the constructor also accepts `r = 0`, `p = 0`, `p = 1`; there the generated `ln_pmf`
    evaluates `ln 0` / `ln_gamma 0` (−∞/+∞ in IEEE, junk over ℝ), so nothing can be stated over ℝ. -/
theorem negative_binomial_pmf_eq_cdf_sub_rel_partial (G : GammaDensitySpec) (R : BetaRegRecSpec)
    (d : NegativeBinomial ℝ) (hr : 0 < d.f_r) (hp0 : 0 < d.f_p) (hp1 : d.f_p < 1) (k : ℤ) (hk : 1 ≤ k) :
    NegativeBinomial.pmf d k = NegativeBinomial.cdf d k - NegativeBinomial.cdf d (k - 1) := by
  obtain ⟨n, rfl⟩ := Int.eq_ofNat_of_zero_le (by omega : 0 ≤ k)
  have hn : (0:ℝ) < (n : ℝ) := by exact_mod_cast (by omega : 0 < n)
  rw [negative_binomial_pmf_formula_rel G d hr hp0 hp1 n]
  unfold NegativeBinomial.cdf; model_norm
  rw [Int.cast_sub, Int.cast_one, sub_add_cancel, Int.cast_natCast,
    R.succ_b _ _ _ hr hn hp0.le hp1.le]

/-- NegativeBinomial: the masses telescope, `∑_{k=0}^{n} pmf k = cdf n` -/
theorem negative_binomial_sum_pmf_rel_partial (G : GammaDensitySpec) (R : BetaRegRecSpec)
    (d : NegativeBinomial ℝ) (hr : 0 < d.f_r) (hp0 : 0 < d.f_p) (hp1 : d.f_p < 1) (n : ℕ) :
    ∑ k ∈ Finset.range (n + 1), NegativeBinomial.pmf d (k : ℤ) = NegativeBinomial.cdf d (n : ℤ) := by
  induction n with
  | zero => simpa using negative_binomial_pmf_zero_eq_cdf_rel_partial G R d hr hp0 hp1
  | succ m ih =>
    rw [Finset.sum_range_succ, ih,
      negative_binomial_pmf_eq_cdf_sub_rel_partial G R d hr hp0 hp1 _ (by push_cast; omega)]
    push_cast
    ring_nf

example : ∃ d : NegativeBinomial ℝ, 0 < d.f_r ∧ 0 < d.f_p ∧ d.f_p < 1 :=
  ⟨⟨3, 0.5⟩, by norm_num, by norm_num, by norm_num⟩

end Statrs.Props.C03
