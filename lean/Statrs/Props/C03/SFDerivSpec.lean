/-
  C03 — premise structures about the *abstract* special functions (`SF ℝ`) used by the
  "pdf is the derivative of the cdf" theorems for the families whose cdf goes through
  `SF.gamma_lr`, `SF.gamma_ur`, `SF.beta_reg`, `SF.erfc` (files `SFDerivA/B/C/D.lean`).

  Over ℝ the distribution code sees these functions only through the class `SF`, so every fact
  about them has to be a premise.  Each structure lists textbook calculus identities of the
  mathematical functions
      P(a,x) = γ(a,x)/Γ(a),   Q(a,x) = 1 − P(a,x),
      I_x(a,b) = B(x;a,b)/B(a,b),   B(a,b) = Γ(a)Γ(b)/Γ(a+b),
      erf x = (2/√π) ∫₀ˣ e^{−t²} dt,   erfc = 1 − erf,
  and nothing else.  Normalising constants are written with Mathlib's `Real.Gamma`; the link to the
  model's own `SF.gamma` / `SF.ln_gamma` is the existing premise `Spec.GammaDensitySpec`
  (`SF.gamma = Γ`, `SF.ln_gamma = log Γ` on `(0,∞)`), the link to `SF.beta` is `BetaFnSpec` below.
  All structures are jointly satisfied by the true functions (defined through Mathlib integrals):
  `Witness.sfDeriv_specs_consistent` in `SFDerivWitness.lean`.
-/
import Statrs.Real.Simp
import Statrs.Gen.SF
import Statrs.Spec.SFSpec_Density
import Mathlib.Analysis.SpecialFunctions.Gamma.Basic
import Mathlib.Analysis.Calculus.Deriv.Basic
import Mathlib.Analysis.SpecialFunctions.Pow.Real
namespace Statrs.Props.C03
open Statrs Statrs.Gen Filter Topology

/-- Regularised lower incomplete gamma `P(a,·)`, `a > 0`:
    `d/dx P(a,x) = x^(a−1) e^{−x} / Γ(a)` for `x > 0` (DLMF 8.8.13 with 8.2.4), and
    `P(a,x) → 0` as `x → 0+` (DLMF 8.7.1: `P(a,x) ~ x^a/Γ(a+1)`). -/
structure GammaLrDerivSpec [SF ℝ] : Prop where
  lr_hasDerivAt : ∀ a x : ℝ, 0 < a → 0 < x →
    HasDerivAt (fun t : ℝ => (SF.gamma_lr a t : ℝ)) (x ^ (a - 1) * Real.exp (-x) / Real.Gamma a) x
  lr_tendsto_zero : ∀ a : ℝ, 0 < a → Tendsto (fun t : ℝ => (SF.gamma_lr a t : ℝ)) (𝓝[>] 0) (𝓝 0)

/-- Regularised upper incomplete gamma `Q(a,·) = 1 − P(a,·)`, `a > 0`:
    `d/dx Q(a,x) = −x^(a−1) e^{−x} / Γ(a)` for `x > 0` (DLMF 8.8.13), and `Q(a,x) → 0` as `x → ∞`
    (DLMF 8.11.2). -/
structure GammaUrDerivSpec [SF ℝ] : Prop where
  ur_hasDerivAt : ∀ a x : ℝ, 0 < a → 0 < x →
    HasDerivAt (fun t : ℝ => (SF.gamma_ur a t : ℝ)) (-(x ^ (a - 1) * Real.exp (-x) / Real.Gamma a)) x
  ur_tendsto_atTop : ∀ a : ℝ, 0 < a → Tendsto (fun t : ℝ => (SF.gamma_ur a t : ℝ)) atTop (𝓝 0)

/-- Regularised incomplete beta `I_·(a,b)`, `a, b > 0`:
    `d/dx I_x(a,b) = x^(a−1) (1−x)^(b−1) / B(a,b)` on `(0,1)` with `1/B(a,b) = Γ(a+b)/(Γ(a)Γ(b))`
    (DLMF 8.17.1–2), `I_·(a,b)` is continuous on `[0,1]`, `I_0 = 0`, `I_1 = 1`. -/
structure BetaRegDerivSpec [SF ℝ] : Prop where
  hasDerivAt : ∀ a b x : ℝ, 0 < a → 0 < b → 0 < x → x < 1 →
    HasDerivAt (fun t : ℝ => (SF.beta_reg a b t : ℝ))
      (x ^ (a - 1) * (1 - x) ^ (b - 1) * (Real.Gamma (a + b) / (Real.Gamma a * Real.Gamma b))) x
  continuousOn : ∀ a b : ℝ, 0 < a → 0 < b →
    ContinuousOn (fun t : ℝ => (SF.beta_reg a b t : ℝ)) (Set.Icc 0 1)
  at_zero : ∀ a b : ℝ, 0 < a → 0 < b → (SF.beta_reg a b 0 : ℝ) = 0
  at_one : ∀ a b : ℝ, 0 < a → 0 < b → (SF.beta_reg a b 1 : ℝ) = 1

/-- `SF.beta a b = B(a,b) = Γ(a)Γ(b)/Γ(a+b)` for `a, b > 0` (DLMF 5.12.1); only
    `FisherSnedecor::pdf` normalises with `beta` instead of `gamma`/`ln_gamma`. -/
structure BetaFnSpec [SF ℝ] : Prop where
  beta_eq : ∀ a b : ℝ, 0 < a → 0 < b →
    (SF.beta a b : ℝ) = Real.Gamma a * Real.Gamma b / Real.Gamma (a + b)

/-- Error function: `d/dx erf x = (2/√π) e^{−x²}` (DLMF 7.2.1) and `erfc = 1 − erf` (DLMF 7.2.2). -/
structure ErfDerivSpec [SF ℝ] : Prop where
  erf_hasDerivAt : ∀ x : ℝ,
    HasDerivAt (fun t : ℝ => (SF.erf t : ℝ)) (2 / Real.sqrt Real.pi * Real.exp (-(x * x))) x
  erfc_eq : ∀ x : ℝ, (SF.erfc x : ℝ) = 1 - SF.erf x

/-- `erfc x → 0` as `x → ∞` (DLMF 7.2.4/7.12.1); needed only for the continuity of
    `LogNormal::cdf` at the support boundary `x = 0`. -/
structure ErfcLimitSpec [SF ℝ] : Prop where
  erfc_tendsto_atTop : Tendsto (fun t : ℝ => (SF.erfc t : ℝ)) atTop (𝓝 0)

/-- consequence: `d/dx erfc x = −(2/√π) e^{−x²}` -/
theorem ErfDerivSpec.erfc_hasDerivAt [SF ℝ] (E : ErfDerivSpec) (x : ℝ) :
    HasDerivAt (fun t : ℝ => (SF.erfc t : ℝ)) (-(2 / Real.sqrt Real.pi * Real.exp (-(x * x)))) x := by
  have h : (fun t : ℝ => (SF.erfc t : ℝ)) = fun t => 1 - SF.erf t := funext E.erfc_eq
  rw [h]
  exact (E.erf_hasDerivAt x).const_sub 1

/-! ### recurrences of the regularised functions (discrete families) -/

/-- Shape recurrence of `Q` (DLMF 8.8.6 divided by `Γ(a+1)`):
    `Q(a+1,x) − Q(a,x) = x^a e^{−x} / Γ(a+1)` for `a, x > 0`, and `Q(1,x) = e^{−x}` (DLMF 8.4.5/8.4.8).
    Poisson: `cdf k = Q(k+1, λ)`. -/
structure GammaUrRecSpec [SF ℝ] : Prop where
  ur_succ : ∀ a x : ℝ, 0 < a → 0 < x →
    (SF.gamma_ur (a + 1) x : ℝ) - SF.gamma_ur a x = x ^ a * Real.exp (-x) / Real.Gamma (a + 1)
  ur_one : ∀ x : ℝ, 0 < x → (SF.gamma_ur 1 x : ℝ) = Real.exp (-x)

/-- Parameter recurrences of `I_x` for `a, b > 0`, `0 ≤ x ≤ 1`:
    * `I_x(a,b+1) − I_x(a+1,b) = x^a (1−x)^b Γ(a+b+1)/(Γ(a+1)Γ(b+1))`   (DLMF 8.17.18 with b ↦ b+1),
    * `I_x(a,b+1) − I_x(a,b)   = x^a (1−x)^b Γ(a+b)/(Γ(a)Γ(b+1))`        (DLMF 8.17.21),
    * `I_x(a,1) = x^a`, `I_x(1,b) = 1 − (1−x)^b`                          (direct integration).
    Binomial: `cdf k = I_{1−p}(n−k, k+1)`; NegativeBinomial: `cdf k = I_p(r, k+1)`. -/
structure BetaRegRecSpec [SF ℝ] : Prop where
  diag : ∀ a b x : ℝ, 0 < a → 0 < b → 0 ≤ x → x ≤ 1 →
    (SF.beta_reg a (b + 1) x : ℝ) - SF.beta_reg (a + 1) b x =
      x ^ a * (1 - x) ^ b * (Real.Gamma (a + b + 1) / (Real.Gamma (a + 1) * Real.Gamma (b + 1)))
  succ_b : ∀ a b x : ℝ, 0 < a → 0 < b → 0 ≤ x → x ≤ 1 →
    (SF.beta_reg a (b + 1) x : ℝ) - SF.beta_reg a b x =
      x ^ a * (1 - x) ^ b * (Real.Gamma (a + b) / (Real.Gamma a * Real.Gamma (b + 1)))
  b_one : ∀ a x : ℝ, 0 < a → 0 ≤ x → x ≤ 1 → (SF.beta_reg a 1 x : ℝ) = x ^ a
  a_one : ∀ b x : ℝ, 0 < b → 0 ≤ x → x ≤ 1 → (SF.beta_reg 1 b x : ℝ) = 1 - (1 - x) ^ b

/-- `ln_factorial k = log k!` for `k ≥ 0` (Poisson's pmf). -/
structure LnFactorialSpec [SF ℝ] : Prop where
  ln_factorial_eq : ∀ k : ℤ, 0 ≤ k → (SF.ln_factorial k : ℝ) = Real.log (Nat.factorial k.toNat : ℝ)

end Statrs.Props.C03
