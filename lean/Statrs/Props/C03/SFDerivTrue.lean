/-
  C03 — the `…_rel` theorems of `SFDerivA/B/C/D.lean` instantiated with the TRUE special functions
  (`Witness.sfDerivWitness`: erf, P, Q, I_x, B, Γ defined through Mathlib integrals): unconditional
  statements about the generated distribution code in exact real arithmetic.  In particular the
  StudentsT defect (`freedom ≥ 1e8`: pdf is the Normal density, cdf the Student cdf) holds for the true
  functions, not only relative to premises.
-/
import Statrs.Props.C03.SFDerivB
import Statrs.Props.C03.SFDerivC
import Statrs.Props.C03.SFDerivD
import Statrs.Props.C03.SFDerivWitness
namespace Statrs.Props.C03.Witness
open Statrs Statrs.Gen Statrs.Props.C03

/-- DEFECT, unconditional form: with the true special functions, `StudentsT::new(0, 1, 1e8)` has a pdf
    that is not the derivative of its cdf (it cannot be at both `x = 0` and `x = √1e8 = 1e4`). -/
theorem students_t_pdf_large_freedom_true_counterexample :
    ¬ (HasDerivAt (@StudentsT.cdf ℝ _ _ _ _ _ _ _ _ _ _ _ _ _ sfDerivWitness ⟨0, 1, 1e8⟩)
          (@StudentsT.pdf ℝ _ _ _ _ _ _ _ _ _ _ _ _ _ sfDerivWitness ⟨0, 1, 1e8⟩ 0) 0 ∧
       HasDerivAt (@StudentsT.cdf ℝ _ _ _ _ _ _ _ _ _ _ _ _ _ sfDerivWitness ⟨0, 1, 1e8⟩)
          (@StudentsT.pdf ℝ _ _ _ _ _ _ _ _ _ _ _ _ _ sfDerivWitness ⟨0, 1, 1e8⟩
            (0 + 1 * Real.sqrt 1e8)) (0 + 1 * Real.sqrt 1e8)) :=
  @students_t_pdf_large_freedom_counterexample sfDerivWitness betaRegDerivSpec_witness ⟨0, 1, 1e8⟩
    (by norm_num) le_rfl

/-- Normal with the true `erfc`: `∫ a..b pdf = cdf b − cdf a` for every accepted parameter pair -/
theorem normal_integral_pdf_true (d : Normal ℝ) (hσ : 0 < d.f_std_dev) {a b : ℝ} (hab : a ≤ b) :
    ∫ t in a..b, Normal.pdf d t =
      @Normal.cdf ℝ _ _ _ _ _ _ _ _ _ _ _ _ _ sfDerivWitness d b -
        @Normal.cdf ℝ _ _ _ _ _ _ _ _ _ _ _ _ _ sfDerivWitness d a :=
  @normal_integral_pdf_rel sfDerivWitness erfDerivSpec_witness d hσ a b hab

/-- Gamma with the true `P(a,x)`, `Γ`: `∫ a..b pdf = cdf b − cdf a` for every accepted parameter pair -/
theorem gamma_integral_pdf_true (d : Gamma ℝ) (hs : 0 < d.f_shape) (hr : 0 < d.f_rate) {a b : ℝ}
    (hab : a ≤ b) :
    ∫ t in a..b, @Gamma.pdf ℝ _ _ _ _ _ _ _ _ _ _ _ _ _ sfDerivWitness d t =
      @Gamma.cdf ℝ _ _ _ _ _ _ _ _ _ _ _ _ _ sfDerivWitness d b -
        @Gamma.cdf ℝ _ _ _ _ _ _ _ _ _ _ _ _ _ sfDerivWitness d a :=
  @gamma_integral_pdf_rel sfDerivWitness gammaDensitySpec_witness gammaLrDerivSpec_witness d hs hr a b hab

/-- Beta with the true `I_x(a,b)`, `Γ`: `∫ a..b pdf = cdf b − cdf a` -/
theorem beta_integral_pdf_true (d : Beta ℝ) (ha : 0 < d.f_shape_a) (hb : 0 < d.f_shape_b) {a b : ℝ}
    (hab : a ≤ b) :
    ∫ t in a..b, @Beta.pdf ℝ _ _ _ _ _ _ _ _ _ _ _ _ _ sfDerivWitness d t =
      @Beta.cdf ℝ _ _ _ _ _ _ _ _ _ _ _ _ _ sfDerivWitness d b -
        @Beta.cdf ℝ _ _ _ _ _ _ _ _ _ _ _ _ _ sfDerivWitness d a :=
  @beta_integral_pdf_rel sfDerivWitness gammaDensitySpec_witness betaRegDerivSpec_witness d ha hb a b hab

/-- Binomial with the true `I_x(a,b)`, `ln C(n,k)`: the masses sum to 1 -/
theorem binomial_sum_pmf_true (d : Binomial ℝ) (hp0 : 0 ≤ d.f_p) (hp1 : d.f_p ≤ 1) (hn0 : 0 ≤ d.f_n) :
    ∑ k ∈ Finset.range (d.f_n.toNat + 1),
      @Binomial.pmf ℝ _ _ _ _ _ _ _ _ _ _ _ _ _ sfDerivWitness d (k : ℤ) = 1 :=
  @binomial_sum_pmf_rel sfDerivWitness betaRegRecSpec_witness lnBinomialSpec_witness d hp0 hp1 hn0

end Statrs.Props.C03.Witness
