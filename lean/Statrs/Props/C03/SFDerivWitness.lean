/-
  C03 — consistency of the premise structures of `SFDerivSpec.lean`: the TRUE special functions,
  defined through Mathlib's integrals
      erf x = (2/√π) ∫₀ˣ e^{−t²},   P(a,x) = (∫₀ˣ e^{−t} t^{a−1})/Γ(a),   Q = 1 − P,
      I_x(a,b) = (∫₀ˣ t^{a−1}(1−t)^{b−1}) · Γ(a+b)/(Γ(a)Γ(b)),   B(a,b) = Γ(a)Γ(b)/Γ(a+b),
  satisfy every structure (derivatives by the fundamental theorem of calculus, limits from the Gamma /
  Gaussian / Beta integrals, recurrences by "same derivative + same limit at 0").  So the `…_rel`
  theorems of `SFDerivA/B/C/D.lean` are not vacuous, and the constants written in the premises
  (e.g. `Γ(a+b+1)/(Γ(a+1)Γ(b+1))` in `BetaRegRecSpec.diag`) are the right ones.
  `sfDerivWitness` is NOT an instance: the property theorems stay relative to an arbitrary `SF ℝ`.
-/
import Statrs.Props.C03.SFDerivSpec
import Statrs.Spec.SFSpec_tests
import Mathlib.Analysis.SpecialFunctions.Gamma.Basic
import Mathlib.Analysis.SpecialFunctions.Gaussian.GaussianIntegral
import Mathlib.Probability.Distributions.Beta
import Mathlib.MeasureTheory.Integral.IntervalIntegral.FundThmCalculus
import Mathlib.MeasureTheory.Integral.IntegralEqImproper
namespace Statrs.Props.C03.Witness
open MeasureTheory Set Filter Topology

/-- `erf x = (2/√π) ∫₀ˣ e^{−t²} dt` -/
noncomputable def erfR (x : ℝ) : ℝ := 2 / Real.sqrt Real.pi * ∫ t in (0:ℝ)..x, Real.exp (-(t * t))

theorem erfR_hasDerivAt (x : ℝ) :
    HasDerivAt erfR (2 / Real.sqrt Real.pi * Real.exp (-(x * x))) x := by
  have hc : Continuous fun t : ℝ => Real.exp (-(t * t)) := by fun_prop
  exact ((hc.integral_hasStrictDerivAt 0 x).hasDerivAt).const_mul _

theorem erfcR_tendsto : Tendsto (fun x => 1 - erfR x) atTop (𝓝 0) := by
  have hfun : (fun t : ℝ => Real.exp (-(t * t))) = fun t => Real.exp (-1 * t ^ 2) := by
    funext t; congr 1; ring
  have hint : IntegrableOn (fun t : ℝ => Real.exp (-(t * t))) (Ioi 0) := by
    rw [hfun]; exact (integrable_exp_neg_mul_sq one_pos).integrableOn
  have h1 := intervalIntegral_tendsto_integral_Ioi (0:ℝ) hint tendsto_id
  have hval : ∫ t in Ioi (0:ℝ), Real.exp (-(t * t)) = Real.sqrt Real.pi / 2 := by
    rw [hfun]; simpa using integral_gaussian_Ioi 1
  rw [hval] at h1
  have h2 := (h1.const_mul (2 / Real.sqrt Real.pi)).const_sub 1
  have hpi : Real.sqrt Real.pi ≠ 0 := (Real.sqrt_pos.mpr Real.pi_pos).ne'
  have : 1 - 2 / Real.sqrt Real.pi * (Real.sqrt Real.pi / 2) = 0 := by field_simp; ring
  rw [this] at h2
  exact h2

/-- `P(a,x) = (∫₀ˣ e^{−t} t^{a−1} dt) / Γ(a)` -/
noncomputable def gammaLrR (a x : ℝ) : ℝ :=
  (∫ t in (0:ℝ)..x, Real.exp (-t) * t ^ (a - 1)) / Real.Gamma a

theorem gamma_integrand_intervalIntegrable {a : ℝ} (ha : 0 < a) {x : ℝ} (hx : 0 ≤ x) :
    IntervalIntegrable (fun t : ℝ => Real.exp (-t) * t ^ (a - 1)) volume 0 x := by
  rw [intervalIntegrable_iff_integrableOn_Ioc_of_le hx]
  exact (Real.GammaIntegral_convergent ha).mono_set Ioc_subset_Ioi_self

theorem gammaLrR_hasDerivAt {a x : ℝ} (ha : 0 < a) (hx : 0 < x) :
    HasDerivAt (gammaLrR a) (x ^ (a - 1) * Real.exp (-x) / Real.Gamma a) x := by
  have hcont : ∀ t ∈ Ioi (0:ℝ), ContinuousAt (fun t : ℝ => Real.exp (-t) * t ^ (a - 1)) t := by
    intro t ht
    exact (Real.continuous_exp.continuousAt.comp continuous_neg.continuousAt).mul
      (Real.continuousAt_rpow_const _ _ (Or.inl (ne_of_gt ht)))
  have h := intervalIntegral.integral_hasDerivAt_right (gamma_integrand_intervalIntegrable ha hx.le)
    (ContinuousAt.stronglyMeasurableAtFilter isOpen_Ioi hcont x hx) (hcont x hx)
  exact (h.div_const _).congr_deriv (by ring)

theorem gammaLrR_tendsto_zero {a : ℝ} (ha : 0 < a) : Tendsto (gammaLrR a) (𝓝[>] 0) (𝓝 0) := by
  have hint : IntegrableOn (fun t : ℝ => Real.exp (-t) * t ^ (a - 1)) (uIcc 0 1) := by
    rw [uIcc_of_le zero_le_one, integrableOn_Icc_iff_integrableOn_Ioc]
    exact (Real.GammaIntegral_convergent ha).mono_set Ioc_subset_Ioi_self
  have hc := intervalIntegral.continuousOn_primitive_interval hint
  have h0 : ContinuousWithinAt (fun x => ∫ t in (0:ℝ)..x, Real.exp (-t) * t ^ (a - 1)) (Icc 0 1) 0 := by
    have := hc 0 (by simp)
    rwa [uIcc_of_le zero_le_one] at this
  have h1 : Tendsto (fun x => ∫ t in (0:ℝ)..x, Real.exp (-t) * t ^ (a - 1)) (𝓝[>] 0) (𝓝 0) := by
    have h2 := h0.tendsto
    rw [intervalIntegral.integral_same] at h2
    refine h2.mono_left ?_
    refine nhdsWithin_le_iff.mpr ?_
    exact mem_of_superset (Ioc_mem_nhdsGT one_pos) (fun y hy => ⟨hy.1.le, hy.2⟩)
  have := h1.div_const (Real.Gamma a)
  rwa [zero_div] at this

theorem gammaLrR_tendsto_atTop {a : ℝ} (ha : 0 < a) : Tendsto (gammaLrR a) atTop (𝓝 1) := by
  have h1 := intervalIntegral_tendsto_integral_Ioi (0:ℝ) (Real.GammaIntegral_convergent ha) tendsto_id
  rw [← Real.Gamma_eq_integral ha] at h1
  have := h1.div_const (Real.Gamma a)
  rwa [div_self (Real.Gamma_pos_of_pos ha).ne'] at this

/-- `I_x(a,b) = (∫₀ˣ t^{a−1}(1−t)^{b−1} dt) · Γ(a+b)/(Γ(a)Γ(b))` -/
noncomputable def betaRegR (a b x : ℝ) : ℝ :=
  (∫ t in (0:ℝ)..x, t ^ (a - 1) * (1 - t) ^ (b - 1)) *
    (Real.Gamma (a + b) / (Real.Gamma a * Real.Gamma b))

theorem beta_integrand_ofReal (a b : ℝ) {x : ℝ} (hx0 : 0 ≤ x) (hx1 : x ≤ 1) :
    ((x : ℂ) ^ ((a : ℂ) - 1) * (1 - (x : ℂ)) ^ ((b : ℂ) - 1)) =
      ((x ^ (a - 1) * (1 - x) ^ (b - 1) : ℝ) : ℂ) := by
  rw [Complex.ofReal_mul, Complex.ofReal_cpow hx0, Complex.ofReal_cpow (by linarith : 0 ≤ 1 - x)]
  push_cast
  rfl

theorem beta_integrand_integrableOn {a b : ℝ} (ha : 0 < a) (hb : 0 < b) :
    IntegrableOn (fun t : ℝ => t ^ (a - 1) * (1 - t) ^ (b - 1)) (Ioc 0 1) := by
  have hc := Complex.betaIntegral_convergent (u := (a : ℂ)) (v := (b : ℂ)) (by simpa) (by simpa)
  rw [intervalIntegrable_iff_integrableOn_Ioc_of_le zero_le_one] at hc
  have hc' : IntegrableOn (fun t : ℝ => ((t ^ (a - 1) * (1 - t) ^ (b - 1) : ℝ) : ℂ)) (Ioc 0 1) :=
    hc.congr_fun (fun t ht => beta_integrand_ofReal a b ht.1.le ht.2) measurableSet_Ioc
  have := hc'.re
  unfold IntegrableOn
  simpa using this

theorem beta_integral_eq {a b : ℝ} (ha : 0 < a) (hb : 0 < b) :
    ∫ t in (0:ℝ)..1, t ^ (a - 1) * (1 - t) ^ (b - 1) =
      Real.Gamma a * Real.Gamma b / Real.Gamma (a + b) := by
  have h1 := ProbabilityTheory.beta_eq_betaIntegralReal a b ha hb
  unfold ProbabilityTheory.beta at h1
  rw [h1, Complex.betaIntegral]
  have hcongr : ∫ t in (0:ℝ)..1, ((t : ℂ) ^ ((a : ℂ) - 1) * (1 - (t : ℂ)) ^ ((b : ℂ) - 1)) =
      ∫ t in (0:ℝ)..1, ((t ^ (a - 1) * (1 - t) ^ (b - 1) : ℝ) : ℂ) := by
    refine intervalIntegral.integral_congr (fun t ht => ?_)
    rw [uIcc_of_le zero_le_one] at ht
    exact beta_integrand_ofReal a b ht.1 ht.2
  rw [hcongr, intervalIntegral.integral_ofReal, Complex.ofReal_re]

theorem beta_integrand_intervalIntegrable {a b : ℝ} (ha : 0 < a) (hb : 0 < b) {x : ℝ}
    (hx0 : 0 ≤ x) (hx1 : x ≤ 1) :
    IntervalIntegrable (fun t : ℝ => t ^ (a - 1) * (1 - t) ^ (b - 1)) volume 0 x := by
  rw [intervalIntegrable_iff_integrableOn_Ioc_of_le hx0]
  exact (beta_integrand_integrableOn ha hb).mono_set (Ioc_subset_Ioc_right hx1)

theorem betaRegR_hasDerivAt {a b x : ℝ} (ha : 0 < a) (hb : 0 < b) (hx0 : 0 < x) (hx1 : x < 1) :
    HasDerivAt (betaRegR a b)
      (x ^ (a - 1) * (1 - x) ^ (b - 1) * (Real.Gamma (a + b) / (Real.Gamma a * Real.Gamma b))) x := by
  have hcont : ∀ t ∈ Ioo (0:ℝ) 1, ContinuousAt (fun t : ℝ => t ^ (a - 1) * (1 - t) ^ (b - 1)) t := by
    intro t ht
    refine (Real.continuousAt_rpow_const _ _ (Or.inl (ne_of_gt ht.1))).mul ?_
    exact ContinuousAt.rpow_const (by fun_prop) (Or.inl (by linarith [ht.2]))
  have h := intervalIntegral.integral_hasDerivAt_right
    (beta_integrand_intervalIntegrable ha hb hx0.le hx1.le)
    (ContinuousAt.stronglyMeasurableAtFilter isOpen_Ioo hcont x ⟨hx0, hx1⟩) (hcont x ⟨hx0, hx1⟩)
  exact h.mul_const _

theorem betaRegR_continuousOn {a b : ℝ} (ha : 0 < a) (hb : 0 < b) :
    ContinuousOn (betaRegR a b) (Icc 0 1) := by
  have hint : IntegrableOn (fun t : ℝ => t ^ (a - 1) * (1 - t) ^ (b - 1)) (uIcc 0 1) := by
    rw [uIcc_of_le zero_le_one, integrableOn_Icc_iff_integrableOn_Ioc]
    exact beta_integrand_integrableOn ha hb
  have hc := intervalIntegral.continuousOn_primitive_interval hint
  rw [uIcc_of_le zero_le_one] at hc
  exact hc.mul continuousOn_const

theorem betaRegR_zero (a b : ℝ) : betaRegR a b 0 = 0 := by
  unfold betaRegR; rw [intervalIntegral.integral_same, zero_mul]

theorem betaRegR_one {a b : ℝ} (ha : 0 < a) (hb : 0 < b) : betaRegR a b 1 = 1 := by
  unfold betaRegR
  rw [beta_integral_eq ha hb]
  have h1 := (Real.Gamma_pos_of_pos ha).ne'
  have h2 := (Real.Gamma_pos_of_pos hb).ne'
  have h3 := (Real.Gamma_pos_of_pos (add_pos ha hb)).ne'
  field_simp

/-! ### recurrences: both sides have the same derivative and the same limit at the left end -/
/-- two functions with the same derivative on `(l,u)` whose difference tends to `0` at `l+` agree on `(l,u)` -/
theorem eq_of_hasDerivAt_eq_of_tendsto {F G f : ℝ → ℝ} {l u : ℝ}
    (hF : ∀ x ∈ Ioo l u, HasDerivAt F (f x) x) (hG : ∀ x ∈ Ioo l u, HasDerivAt G (f x) x)
    (hlim : Tendsto (fun x => F x - G x) (𝓝[>] l) (𝓝 0)) : ∀ x ∈ Ioo l u, F x = G x := by
  intro x hx
  have hlu : l < u := hx.1.trans hx.2
  have hD : ∀ y ∈ Ioo l u, HasDerivAt (fun z => F z - G z) 0 y := fun y hy => by
    have h := (hF y hy).sub (hG y hy)
    rw [sub_self] at h
    exact h
  have hconst : ∀ y ∈ Ioo l u, F y - G y = F x - G x := fun y hy =>
    isOpen_Ioo.is_const_of_deriv_eq_zero isPreconnected_Ioo
      (fun z hz => (hD z hz).differentiableAt.differentiableWithinAt)
      (fun z hz => (hD z hz).deriv) hy hx
  have hev : (fun y => F y - G y) =ᶠ[𝓝[>] l] fun _ => F x - G x := by
    filter_upwards [Ioo_mem_nhdsGT hlu] with y hy using hconst y hy
  have h2 : Tendsto (fun y => F y - G y) (𝓝[>] l) (𝓝 (F x - G x)) :=
    (tendsto_const_nhds).congr' hev.symm
  have := tendsto_nhds_unique h2 hlim
  linarith

theorem gammaLrR_zero (a : ℝ) : gammaLrR a 0 = 0 := by
  unfold gammaLrR; rw [intervalIntegral.integral_same, zero_div]

/-- `Q(a+1,x) − Q(a,x) = x^a e^{−x}/Γ(a+1)` -/
theorem gammaUr_succ {a x : ℝ} (ha : 0 < a) (hx : 0 < x) :
    (1 - gammaLrR (a + 1) x) - (1 - gammaLrR a x) = x ^ a * Real.exp (-x) / Real.Gamma (a + 1) := by
  have ha1 : 0 < a + 1 := by linarith
  have hGa : Real.Gamma a ≠ 0 := (Real.Gamma_pos_of_pos ha).ne'
  refine eq_of_hasDerivAt_eq_of_tendsto (l := 0) (u := x + 1)
    (F := fun y => (1 - gammaLrR (a + 1) y) - (1 - gammaLrR a y))
    (G := fun y => y ^ a * Real.exp (-y) / Real.Gamma (a + 1))
    (f := fun y => (a * y ^ (a - 1) * Real.exp (-y) + y ^ a * (Real.exp (-y) * -1)) / Real.Gamma (a + 1))
    ?_ ?_ ?_ x ⟨hx, by linarith⟩
  · intro y hy
    have h1 := ((gammaLrR_hasDerivAt ha1 hy.1).const_sub 1).sub ((gammaLrR_hasDerivAt ha hy.1).const_sub 1)
    refine h1.congr_deriv ?_
    rw [Real.Gamma_add_one ha.ne', add_sub_cancel_right, Real.rpow_sub_one hy.1.ne' a]
    field_simp
    ring
  · intro y hy
    exact (((Real.hasDerivAt_rpow_const (Or.inl hy.1.ne')).mul ((hasDerivAt_neg y).exp)).div_const _)
  · have hP1 := gammaLrR_tendsto_zero ha1
    have hP := gammaLrR_tendsto_zero ha
    have hG : Tendsto (fun y : ℝ => y ^ a * Real.exp (-y) / Real.Gamma (a + 1)) (𝓝[>] 0) (𝓝 0) := by
      have hc : ContinuousAt (fun y : ℝ => y ^ a * Real.exp (-y) / Real.Gamma (a + 1)) 0 :=
        ((Real.continuousAt_rpow_const 0 a (Or.inr ha.le)).mul (by fun_prop)).div_const _
      have := hc.tendsto
      rw [Real.zero_rpow ha.ne', zero_mul, zero_div] at this
      exact this.mono_left nhdsWithin_le_nhds
    have := (((hP1.const_sub 1).sub (hP.const_sub 1))).sub hG
    simpa using this

/-- `Q(1,x) = e^{−x}` -/
theorem gammaUr_one (x : ℝ) : 1 - gammaLrR 1 x = Real.exp (-x) := by
  unfold gammaLrR
  have h : ∫ t in (0:ℝ)..x, Real.exp (-t) * t ^ ((1:ℝ) - 1) = 1 - Real.exp (-x) := by
    have hd : ∀ t ∈ uIcc (0:ℝ) x, HasDerivAt (fun t => -Real.exp (-t)) (Real.exp (-t) * t ^ ((1:ℝ) - 1)) t := by
      intro t _
      have := ((hasDerivAt_neg t).exp).neg
      refine this.congr_deriv ?_
      simp
    rw [intervalIntegral.integral_eq_sub_of_hasDerivAt hd]
    · simp; ring
    · apply Continuous.intervalIntegrable
      simp only [sub_self, Real.rpow_zero, mul_one]
      fun_prop
  rw [h, Real.Gamma_one]; ring

/-- `I_x(a,1) = x^a` on `[0,1]` -/
theorem betaRegR_b_one {a x : ℝ} (ha : 0 < a) : betaRegR a 1 x = x ^ a := by
  unfold betaRegR
  have h : ∫ t in (0:ℝ)..x, t ^ (a - 1) * (1 - t) ^ ((1:ℝ) - 1) = x ^ a / a := by
    simp only [sub_self, Real.rpow_zero, mul_one]
    rw [integral_rpow (Or.inl (by linarith)), sub_add_cancel, Real.zero_rpow ha.ne', sub_zero]
  rw [h, Real.Gamma_one, mul_one, Real.Gamma_add_one ha.ne']
  have := (Real.Gamma_pos_of_pos ha).ne'
  field_simp

/-- `I_x(1,b) = 1 − (1−x)^b` on `[0,1]` -/
theorem betaRegR_a_one {b x : ℝ} (hb : 0 < b) : betaRegR 1 b x = 1 - (1 - x) ^ b := by
  unfold betaRegR
  have h : ∫ t in (0:ℝ)..x, t ^ ((1:ℝ) - 1) * (1 - t) ^ (b - 1) = (1 - (1 - x) ^ b) / b := by
    simp only [sub_self, Real.rpow_zero, one_mul]
    have := intervalIntegral.integral_comp_sub_left (fun u : ℝ => u ^ (b - 1)) (a := 0) (b := x) 1
    rw [this, integral_rpow (Or.inl (by linarith)), sub_add_cancel, sub_zero, Real.one_rpow]
  rw [h, Real.Gamma_one, one_mul, add_comm, Real.Gamma_add_one hb.ne']
  have := (Real.Gamma_pos_of_pos hb).ne'
  field_simp

theorem betaRegR_tendsto_zero {a b : ℝ} (ha : 0 < a) (hb : 0 < b) :
    Tendsto (betaRegR a b) (𝓝[>] 0) (𝓝 0) := by
  have h := (betaRegR_continuousOn ha hb) 0 ⟨le_rfl, zero_le_one⟩
  have h2 := h.tendsto
  rw [betaRegR_zero] at h2
  refine h2.mono_left (nhdsWithin_le_iff.mpr ?_)
  exact mem_of_superset (Ioc_mem_nhdsGT one_pos) (fun y hy => ⟨hy.1.le, hy.2⟩)

/-- derivative of `x^a (1−x)^b` on `(0,1)` -/
theorem hasDerivAt_rpow_mul_one_sub_rpow (a b : ℝ) {x : ℝ} (hx0 : 0 < x) (hx1 : x < 1) :
    HasDerivAt (fun y : ℝ => y ^ a * (1 - y) ^ b)
      (a * x ^ (a - 1) * (1 - x) ^ b + x ^ a * (b * (1 - x) ^ (b - 1) * -1)) x := by
  have h1 : HasDerivAt (fun y : ℝ => y ^ a) (a * x ^ (a - 1)) x :=
    Real.hasDerivAt_rpow_const (Or.inl hx0.ne')
  have h2 : HasDerivAt (fun y : ℝ => (1 - y) ^ b) (b * (1 - x) ^ (b - 1) * -1) x := by
    have hin : HasDerivAt (fun y : ℝ => 1 - y) (-1) x := by
      simpa using (hasDerivAt_id' x).const_sub 1
    have := (Real.hasDerivAt_rpow_const (x := 1 - x) (p := b) (Or.inl (by linarith))).comp x hin
    exact this
  exact h1.mul h2

theorem tendsto_rpow_mul_one_sub_rpow {a : ℝ} (ha : 0 < a) (b C : ℝ) :
    Tendsto (fun y : ℝ => y ^ a * (1 - y) ^ b * C) (𝓝[>] 0) (𝓝 0) := by
  have hc : ContinuousAt (fun y : ℝ => y ^ a * (1 - y) ^ b * C) 0 := by
    refine ((Real.continuousAt_rpow_const 0 a (Or.inr ha.le)).mul ?_).mul continuousAt_const
    exact ContinuousAt.rpow_const (by fun_prop) (Or.inl (by norm_num))
  have := hc.tendsto
  rw [Real.zero_rpow ha.ne', zero_mul, zero_mul] at this
  exact this.mono_left nhdsWithin_le_nhds

/-- `I_x(a,b+1) − I_x(a+1,b) = x^a (1−x)^b Γ(a+b+1)/(Γ(a+1)Γ(b+1))` on `(0,1)` -/
theorem betaRegR_diag_Ioo {a b x : ℝ} (ha : 0 < a) (hb : 0 < b) (hx0 : 0 < x) (hx1 : x < 1) :
    betaRegR a (b + 1) x - betaRegR (a + 1) b x =
      x ^ a * (1 - x) ^ b * (Real.Gamma (a + b + 1) / (Real.Gamma (a + 1) * Real.Gamma (b + 1))) := by
  have ha1 : 0 < a + 1 := by linarith
  have hb1 : 0 < b + 1 := by linarith
  have hGa : Real.Gamma a ≠ 0 := (Real.Gamma_pos_of_pos ha).ne'
  have hGb : Real.Gamma b ≠ 0 := (Real.Gamma_pos_of_pos hb).ne'
  refine eq_of_hasDerivAt_eq_of_tendsto (l := 0) (u := 1)
    (F := fun y => betaRegR a (b + 1) y - betaRegR (a + 1) b y)
    (G := fun y => y ^ a * (1 - y) ^ b * (Real.Gamma (a + b + 1) / (Real.Gamma (a + 1) * Real.Gamma (b + 1))))
    (f := fun y => (a * y ^ (a - 1) * (1 - y) ^ b + y ^ a * (b * (1 - y) ^ (b - 1) * -1)) *
      (Real.Gamma (a + b + 1) / (Real.Gamma (a + 1) * Real.Gamma (b + 1))))
    ?_ ?_ ?_ x ⟨hx0, hx1⟩
  · intro y hy
    have h1 := (betaRegR_hasDerivAt ha hb1 hy.1 hy.2).sub (betaRegR_hasDerivAt ha1 hb hy.1 hy.2)
    refine h1.congr_deriv ?_
    rw [Real.Gamma_add_one ha.ne', Real.Gamma_add_one hb.ne', add_sub_cancel_right, add_sub_cancel_right,
      show a + (b + 1) = a + b + 1 by ring, show a + 1 + b = a + b + 1 by ring]
    field_simp
    ring
  · intro y hy
    exact (hasDerivAt_rpow_mul_one_sub_rpow a b hy.1 hy.2).mul_const _
  · have h1 := (betaRegR_tendsto_zero ha hb1).sub (betaRegR_tendsto_zero ha1 hb)
    have h2 := h1.sub (tendsto_rpow_mul_one_sub_rpow ha b
      (Real.Gamma (a + b + 1) / (Real.Gamma (a + 1) * Real.Gamma (b + 1))))
    simpa using h2

/-- `I_x(a,b+1) − I_x(a,b) = x^a (1−x)^b Γ(a+b)/(Γ(a)Γ(b+1))` on `(0,1)` -/
theorem betaRegR_succ_b_Ioo {a b x : ℝ} (ha : 0 < a) (hb : 0 < b) (hx0 : 0 < x) (hx1 : x < 1) :
    betaRegR a (b + 1) x - betaRegR a b x =
      x ^ a * (1 - x) ^ b * (Real.Gamma (a + b) / (Real.Gamma a * Real.Gamma (b + 1))) := by
  have hb1 : 0 < b + 1 := by linarith
  have hab : 0 < a + b := by linarith
  have hGa : Real.Gamma a ≠ 0 := (Real.Gamma_pos_of_pos ha).ne'
  have hGb : Real.Gamma b ≠ 0 := (Real.Gamma_pos_of_pos hb).ne'
  have hGab : Real.Gamma (a + b) ≠ 0 := (Real.Gamma_pos_of_pos hab).ne'
  refine eq_of_hasDerivAt_eq_of_tendsto (l := 0) (u := 1)
    (F := fun y => betaRegR a (b + 1) y - betaRegR a b y)
    (G := fun y => y ^ a * (1 - y) ^ b * (Real.Gamma (a + b) / (Real.Gamma a * Real.Gamma (b + 1))))
    (f := fun y => (a * y ^ (a - 1) * (1 - y) ^ b + y ^ a * (b * (1 - y) ^ (b - 1) * -1)) *
      (Real.Gamma (a + b) / (Real.Gamma a * Real.Gamma (b + 1))))
    ?_ ?_ ?_ x ⟨hx0, hx1⟩
  · intro y hy
    have h1 := (betaRegR_hasDerivAt ha hb1 hy.1 hy.2).sub (betaRegR_hasDerivAt ha hb hy.1 hy.2)
    refine h1.congr_deriv ?_
    have hy1 : 0 < 1 - y := by linarith [hy.2]
    have hy0' : y ≠ 0 := hy.1.ne'
    have hy1' : 1 - y ≠ 0 := hy1.ne'
    rw [Real.Gamma_add_one hb.ne', add_sub_cancel_right, show a + (b + 1) = a + b + 1 by ring,
      Real.Gamma_add_one hab.ne', Real.rpow_sub_one hy.1.ne' a, Real.rpow_sub_one hy1.ne' b]
    field_simp
    ring
  · intro y hy
    exact (hasDerivAt_rpow_mul_one_sub_rpow a b hy.1 hy.2).mul_const _
  · have h1 := (betaRegR_tendsto_zero ha hb1).sub (betaRegR_tendsto_zero ha hb)
    have h2 := h1.sub (tendsto_rpow_mul_one_sub_rpow ha b
      (Real.Gamma (a + b) / (Real.Gamma a * Real.Gamma (b + 1))))
    simpa using h2

theorem betaRegR_diag {a b x : ℝ} (ha : 0 < a) (hb : 0 < b) (hx0 : 0 ≤ x) (hx1 : x ≤ 1) :
    betaRegR a (b + 1) x - betaRegR (a + 1) b x =
      x ^ a * (1 - x) ^ b * (Real.Gamma (a + b + 1) / (Real.Gamma (a + 1) * Real.Gamma (b + 1))) := by
  rcases hx0.lt_or_eq with h0 | h0
  · rcases hx1.lt_or_eq with h1 | h1
    · exact betaRegR_diag_Ioo ha hb h0 h1
    · rw [h1, betaRegR_one ha (by linarith), betaRegR_one (by linarith) hb, sub_self,
        Real.zero_rpow hb.ne']; ring
  · rw [← h0, betaRegR_zero, betaRegR_zero, Real.zero_rpow ha.ne']; ring

theorem betaRegR_succ_b {a b x : ℝ} (ha : 0 < a) (hb : 0 < b) (hx0 : 0 ≤ x) (hx1 : x ≤ 1) :
    betaRegR a (b + 1) x - betaRegR a b x =
      x ^ a * (1 - x) ^ b * (Real.Gamma (a + b) / (Real.Gamma a * Real.Gamma (b + 1))) := by
  rcases hx0.lt_or_eq with h0 | h0
  · rcases hx1.lt_or_eq with h1 | h1
    · exact betaRegR_succ_b_Ioo ha hb h0 h1
    · rw [h1, betaRegR_one ha (by linarith), betaRegR_one ha hb, sub_self,
        Real.zero_rpow hb.ne']; ring
  · rw [← h0, betaRegR_zero, betaRegR_zero, Real.zero_rpow ha.ne']; ring

/-! ### the instance -/
/-- `Spec.sfWitness` (true `Γ`, `log Γ`, `log C(n,k)`, `log n!`) with the true `erf`, `erfc`, `P`, `Q`,
    `I_x`, `B` filled in.  Not an instance: theorems stay relative to an arbitrary `SF ℝ`. -/
@[reducible] noncomputable def sfDerivWitness : Statrs.Gen.SF ℝ :=
  { Statrs.Spec.sfWitness with
    erf := erfR
    erfc := fun x => 1 - erfR x
    gamma_lr := gammaLrR
    gamma_ur := fun a x => 1 - gammaLrR a x
    beta_reg := betaRegR
    beta := fun a b => Real.Gamma a * Real.Gamma b / Real.Gamma (a + b) }

theorem gammaDensitySpec_witness : @Statrs.Spec.GammaDensitySpec sfDerivWitness :=
  @Statrs.Spec.GammaDensitySpec.mk sfDerivWitness (fun _ _ => rfl) (fun _ _ => rfl)

theorem gammaLrDerivSpec_witness : @GammaLrDerivSpec sfDerivWitness :=
  @GammaLrDerivSpec.mk sfDerivWitness (fun _ _ ha hx => gammaLrR_hasDerivAt ha hx)
    (fun _ ha => gammaLrR_tendsto_zero ha)

theorem gammaUrDerivSpec_witness : @GammaUrDerivSpec sfDerivWitness :=
  @GammaUrDerivSpec.mk sfDerivWitness
    (fun _ _ ha hx => (gammaLrR_hasDerivAt ha hx).const_sub 1)
    (fun a ha => by
      have := (gammaLrR_tendsto_atTop ha).const_sub 1
      rwa [sub_self] at this)

theorem betaRegDerivSpec_witness : @BetaRegDerivSpec sfDerivWitness :=
  @BetaRegDerivSpec.mk sfDerivWitness (fun _ _ _ ha hb h0 h1 => betaRegR_hasDerivAt ha hb h0 h1)
    (fun _ _ ha hb => betaRegR_continuousOn ha hb) (fun a b _ _ => betaRegR_zero a b)
    (fun _ _ ha hb => betaRegR_one ha hb)

theorem betaFnSpec_witness : @BetaFnSpec sfDerivWitness :=
  @BetaFnSpec.mk sfDerivWitness (fun _ _ _ _ => rfl)

theorem erfDerivSpec_witness : @ErfDerivSpec sfDerivWitness :=
  @ErfDerivSpec.mk sfDerivWitness erfR_hasDerivAt (fun _ => rfl)

theorem erfcLimitSpec_witness : @ErfcLimitSpec sfDerivWitness :=
  @ErfcLimitSpec.mk sfDerivWitness erfcR_tendsto

theorem gammaUrRecSpec_witness : @GammaUrRecSpec sfDerivWitness :=
  @GammaUrRecSpec.mk sfDerivWitness (fun _ _ ha hx => gammaUr_succ ha hx) (fun x _ => gammaUr_one x)

theorem betaRegRecSpec_witness : @BetaRegRecSpec sfDerivWitness :=
  @BetaRegRecSpec.mk sfDerivWitness (fun _ _ _ ha hb h0 h1 => betaRegR_diag ha hb h0 h1)
    (fun _ _ _ ha hb h0 h1 => betaRegR_succ_b ha hb h0 h1) (fun _ _ ha _ _ => betaRegR_b_one ha)
    (fun _ _ hb _ _ => betaRegR_a_one hb)

theorem lnFactorialSpec_witness : @LnFactorialSpec sfDerivWitness :=
  @LnFactorialSpec.mk sfDerivWitness (fun _ _ => rfl)

theorem lnBinomialSpec_witness : @Statrs.Spec.TestsSF.LnBinomialSpec sfDerivWitness := by
  refine @Statrs.Spec.TestsSF.LnBinomialSpec.mk sfDerivWitness ?_
  intro n k hk hkn
  show Real.exp (Real.log ((Nat.choose n.toNat k.toNat : ℕ) : ℝ)) = _
  have : 0 < Nat.choose n.toNat k.toNat := Nat.choose_pos (by omega)
  rw [Real.exp_log (by exact_mod_cast this)]

/-- ALL premise structures used by the `…_rel` theorems of `SFDerivA/B/C/D.lean` hold simultaneously
    for the true special functions: the premises are consistent and the theorems are not vacuous. -/
theorem sfDeriv_specs_consistent :
    ∃ inst : Statrs.Gen.SF ℝ, @Statrs.Spec.GammaDensitySpec inst ∧ @GammaLrDerivSpec inst ∧
      @GammaUrDerivSpec inst ∧ @BetaRegDerivSpec inst ∧ @BetaFnSpec inst ∧ @ErfDerivSpec inst ∧
      @ErfcLimitSpec inst ∧ @GammaUrRecSpec inst ∧ @BetaRegRecSpec inst ∧ @LnFactorialSpec inst ∧
      @Statrs.Spec.TestsSF.LnBinomialSpec inst :=
  ⟨sfDerivWitness, gammaDensitySpec_witness, gammaLrDerivSpec_witness, gammaUrDerivSpec_witness,
    betaRegDerivSpec_witness, betaFnSpec_witness, erfDerivSpec_witness, erfcLimitSpec_witness,
    gammaUrRecSpec_witness, betaRegRecSpec_witness, lnFactorialSpec_witness, lnBinomialSpec_witness⟩

end Statrs.Props.C03.Witness
