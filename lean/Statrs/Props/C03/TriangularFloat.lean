/-
  C03 — Triangular defect in IEEE arithmetic (carrier `Float`, bit-compatible with Rust `f64`):
  `Triangular::new(0.0, 1.0, 0.0)` is accepted, and `pdf(0.0)` evaluates `0.0/0.0 = NaN`
  (the property demands "never NaN" and the true density there is `2/(max-min) = 2`).
  Proved by kernel evaluation of the `Float` model (plain `decide`).
  Since `ln_pdf = ln (pdf)` by definition (`C04.triangular_ln_pdf_def`), `ln_pdf` is NaN there too.
-/
import Statrs.Inst.Float
import Statrs.Gen.D_triangular
namespace Statrs.Props.C03
open Statrs Statrs.Gen

/-- the constructor accepts `min = mode = 0, max = 1` -/
theorem triangular_float_new_ok :
    Except.isOk (Triangular.new (0.0 : Float) 1.0 0.0) = true := by decide

/-- and the density at `x = min = mode` is NaN -/
theorem triangular_float_pdf_nan_counterexample :
    (Triangular.pdf (⟨0.0, 1.0, 0.0⟩ : Triangular Float) 0.0).isNaN = true := by decide

end Statrs.Props.C03
