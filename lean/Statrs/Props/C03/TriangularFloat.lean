/-
  C03 — Triangular at the mode in IEEE arithmetic (carrier `Float`, bit-compatible with Rust `f64`).
  `Triangular::new(0.0, 1.0, 0.0)` is accepted (mode = min).  Before the fix `pdf(0.0)` evaluated
  `0.0/0.0 = NaN`; `Triangular::pdf` now has a first branch `if x == c { 2.0 / (b - a) }`, so the
  density at `x = mode` is the true value `2/(max-min)` also when `mode = min` or `mode = max`.
  * for EVERY carrier (hence for `Float`): `x == mode → pdf x = 2.0/(max-min)`, no 0/0 division is reached;
  * kernel evaluation of the `Float` model (plain `decide`) at the two former 0/0 corners
    (`mode = min`, `mode = max`): the value is exactly `2.0` (IEEE `==`), not NaN.
    (`ln_pdf = ln (pdf)` by definition, `C04.triangular_ln_pdf_def`; `Float.log` is opaque to the kernel.)
-/
import Statrs.Inst.Float
import Statrs.Gen.D_triangular
namespace Statrs.Props.C03
open Statrs Statrs.Gen

/-- the constructor accepts `min = mode = 0, max = 1` -/
theorem triangular_float_new_ok :
    Except.isOk (Triangular.new (0.0 : Float) 1.0 0.0) = true := by decide

/-- the constructor accepts `min = 0, max = mode = 1` -/
theorem triangular_float_new_ok_mode_eq_max :
    Except.isOk (Triangular.new (0.0 : Float) 1.0 1.0) = true := by decide

/-- every carrier: when `x == mode` the density is `2.0/(max-min)` — the quotient whose denominator
    contains `mode-min` / `max-mode` is never evaluated (for `Float`: whenever `x` is the non-NaN mode) -/
theorem triangular_pdf_of_beq_mode {α : Type} [Add α] [Sub α] [Mul α] [Div α] [Neg α] [LT α] [LE α] [BEq α]
    [DecidableLT α] [DecidableLE α] [OfScientific α] [Inhabited α] [RFun α]
    (d : Triangular α) (x : α) (hx : (x == d.f_mode) = true) :
    Triangular.pdf d x = (2.0 : α) / (d.f_max - d.f_min) := by
  unfold Triangular.pdf
  simp only [if_pos hx]

/-- `Float`: the density at `x = min = mode` is exactly `2/(max-min) = 2` (was NaN before the fix) -/
theorem triangular_float_pdf_at_mode_eq_min :
    (Triangular.pdf (⟨0.0, 1.0, 0.0⟩ : Triangular Float) 0.0 == 2.0) = true := by decide

/-- `Float`: and it is not NaN -/
theorem triangular_float_pdf_at_mode_eq_min_not_nan :
    (Triangular.pdf (⟨0.0, 1.0, 0.0⟩ : Triangular Float) 0.0).isNaN = false := by decide

/-- `Float`: the density at `x = max = mode` is exactly `2/(max-min) = 2` (the symmetric 0/0 corner) -/
theorem triangular_float_pdf_at_mode_eq_max :
    (Triangular.pdf (⟨0.0, 1.0, 1.0⟩ : Triangular Float) 1.0 == 2.0) = true := by decide

/-- `Float`: and it is not NaN -/
theorem triangular_float_pdf_at_mode_eq_max_not_nan :
    (Triangular.pdf (⟨0.0, 1.0, 1.0⟩ : Triangular Float) 1.0).isNaN = false := by decide

end Statrs.Props.C03
