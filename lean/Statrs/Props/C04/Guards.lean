/-
  C04 — paired off-support guards: on every guard branch on which the plain density returns the
  literal `0.0`, the log-density returns `RFun.negInf` (Rust `f64::NEG_INFINITY`).
  Every theorem here is branch logic only and is stated for EVERY carrier `α` (so it also holds
  for IEEE `Float`); the guard condition is a hypothesis, written exactly as the generated model
  writes it.  Families whose `ln_pdf` is literally `ln (pdf …)` (Laplace, Gumbel, Triangular) get the
  definitional identity instead.  Strength tag: full(∀α) for every theorem in this file.
-/
import Statrs.Gen.D_exponential
import Statrs.Gen.D_uniform
import Statrs.Gen.D_pareto
import Statrs.Gen.D_weibull
import Statrs.Gen.D_triangular
import Statrs.Gen.D_laplace
import Statrs.Gen.D_gumbel
import Statrs.Gen.D_log_normal
import Statrs.Gen.D_levy
import Statrs.Gen.D_gamma
import Statrs.Gen.D_beta
import Statrs.Gen.D_chi
import Statrs.Gen.D_students_t
import Statrs.Gen.D_bernoulli
import Statrs.Gen.D_binomial
import Statrs.Gen.D_discrete_uniform
import Statrs.Gen.D_geometric
import Statrs.Gen.D_hypergeometric
namespace Statrs.Props.C04
open Statrs Statrs.Gen

section guards
variable {α : Type} [Add α] [Sub α] [Mul α] [Div α] [Neg α] [LT α] [LE α] [BEq α]
  [DecidableLT α] [DecidableLE α] [OfScientific α] [Inhabited α] [RFun α]

/-! ### continuous families -/

/-- Exp: below the support (`x < 0`) `ln_pdf = -inf` and `pdf = 0` -/
theorem exp_guard (d : Exp α) (x : α) (h : x < (0.0 : α)) :
    Exp.ln_pdf d x = RFun.negInf ∧ Exp.pdf d x = (0.0 : α) := by
  unfold Exp.ln_pdf Exp.pdf
  exact ⟨if_pos h, if_pos h⟩

/-- Uniform: outside `[min,max]` `ln_pdf = -inf` and `pdf = 0` -/
theorem uniform_guard (d : Uniform α) (x : α) (h : x < d.f_min ∨ d.f_max < x) :
    Uniform.ln_pdf d x = RFun.negInf ∧ Uniform.pdf d x = (0.0 : α) := by
  unfold Uniform.ln_pdf Uniform.pdf
  exact ⟨if_pos h, if_pos h⟩

/-- Pareto: below the scale `ln_pdf = -inf` and `pdf = 0` -/
theorem pareto_guard (d : Pareto α) (x : α) (h : x < d.f_scale) :
    Pareto.ln_pdf d x = RFun.negInf ∧ Pareto.pdf d x = (0.0 : α) := by
  unfold Pareto.ln_pdf Pareto.pdf
  exact ⟨if_pos h, if_pos h⟩

/-- Weibull: `x < 0` gives `ln_pdf = -inf` and `pdf = 0` -/
theorem weibull_guard_neg (d : Weibull α) (x : α) (h : x < (0.0 : α)) :
    Weibull.ln_pdf d x = RFun.negInf ∧ Weibull.pdf d x = (0.0 : α) := by
  unfold Weibull.ln_pdf Weibull.pdf
  exact ⟨if_pos h, if_pos h⟩

/-- Weibull: `x = +inf` (and not the `x == 0 ∧ shape ≈ 1` special case) gives `ln_pdf = -inf` and `pdf = 0` -/
theorem weibull_guard_inf (d : Weibull α) (x : α) (h0 : ¬ x < (0.0 : α))
    (h1 : ¬ (((x == (0.0 : α)) = true) ∧ ((RFun.ulpsEq d.f_shape (1.0 : α)) = true)))
    (h : (RFun.isInf x) = true) :
    Weibull.ln_pdf d x = RFun.negInf ∧ Weibull.pdf d x = (0.0 : α) := by
  unfold Weibull.ln_pdf Weibull.pdf
  rw [if_neg h0, if_neg h1, if_pos h, if_neg h0, if_neg h1, if_pos h]
  exact ⟨rfl, rfl⟩

/-- Triangular: `ln_pdf` is by definition `ln` of `pdf` (every argument, every carrier) -/
theorem triangular_ln_pdf_def (d : Triangular α) (x : α) :
    Triangular.ln_pdf d x = RFun.ln (Triangular.pdf d x) := rfl

/-- Triangular: off the mode and off both linear pieces (the three guards exactly as the model
    writes them since the `x == c` branch was added) `pdf` is the literal `0.0` and
    `ln_pdf = ln 0.0` (`-inf` for IEEE floats) -/
theorem triangular_guard (d : Triangular α) (x : α)
    (h0 : ¬ ((x == d.f_mode) = true))
    (h1 : ¬ (d.f_min ≤ x ∧ x < d.f_mode)) (h2 : ¬ (d.f_mode < x ∧ x ≤ d.f_max)) :
    Triangular.ln_pdf d x = RFun.ln (0.0 : α) ∧ Triangular.pdf d x = (0.0 : α) := by
  have hp : Triangular.pdf d x = (0.0 : α) := by
    unfold Triangular.pdf
    simp only []
    rw [if_neg h0, if_neg h1, if_neg h2]
  exact ⟨by rw [triangular_ln_pdf_def, hp], hp⟩

/-- Triangular: at the mode (`x == mode`) `pdf` is `2.0/(max-min)` and `ln_pdf` is its `ln` — on
    every carrier, also when `mode = min` or `mode = max`; no quotient with `mode-min` or `max-mode`
    in the denominator is evaluated (before the fix this point evaluated `0/0` when `mode = min`) -/
theorem triangular_at_mode (d : Triangular α) (x : α) (h : (x == d.f_mode) = true) :
    Triangular.ln_pdf d x = RFun.ln ((2.0 : α) / (d.f_max - d.f_min)) ∧
      Triangular.pdf d x = (2.0 : α) / (d.f_max - d.f_min) := by
  have hp : Triangular.pdf d x = (2.0 : α) / (d.f_max - d.f_min) := by
    unfold Triangular.pdf
    simp only []
    rw [if_pos h]
  exact ⟨by rw [triangular_ln_pdf_def, hp], hp⟩

/-- Laplace: `ln_pdf` is by definition `ln` of `pdf` (support is the whole line: no guard) -/
theorem laplace_ln_pdf_def (d : Laplace α) (x : α) :
    Laplace.ln_pdf d x = RFun.ln (Laplace.pdf d x) := rfl

/-- Gumbel: `ln_pdf` is by definition `ln` of `pdf` (support is the whole line: no guard) -/
theorem gumbel_ln_pdf_def (d : Gumbel α) (x : α) :
    Gumbel.ln_pdf d x = RFun.ln (Gumbel.pdf d x) := rfl

/-- LogNormal: `x ≤ 0` or `x = inf` gives `ln_pdf = -inf` and `pdf = 0` -/
theorem lognormal_guard (d : LogNormal α) (x : α)
    (h : (x ≤ (0.0 : α)) ∨ ((RFun.isInf x) = true)) :
    LogNormal.ln_pdf d x = RFun.negInf ∧ LogNormal.pdf d x = (0.0 : α) := by
  unfold LogNormal.ln_pdf LogNormal.pdf
  exact ⟨if_pos h, if_pos h⟩

/-- Levy: `x ≤ mu` gives `ln_pdf = -inf` and `pdf = 0` -/
theorem levy_guard (d : Levy α) (x : α) (h : x ≤ d.f_mu) :
    Levy.ln_pdf d x = RFun.negInf ∧ Levy.pdf d x = (0.0 : α) := by
  unfold Levy.ln_pdf Levy.pdf
  exact ⟨if_pos h, if_pos h⟩

/-- StudentsT: `x = ±inf` gives `ln_pdf = -inf` and `pdf = 0` -/
theorem studentst_guard [SF α] (d : StudentsT α) (x : α) (h : (RFun.isInf x) = true) :
    StudentsT.ln_pdf d x = RFun.negInf ∧ StudentsT.pdf d x = (0.0 : α) := by
  unfold StudentsT.ln_pdf StudentsT.pdf
  exact ⟨if_pos h, if_pos h⟩

/-- Gamma: `x < 0` gives `ln_pdf = -inf` and `pdf = 0` -/
theorem gamma_guard_neg [SF α] (d : Gamma α) (x : α) (h : x < (0.0 : α)) :
    Gamma.ln_pdf d x = RFun.negInf ∧ Gamma.pdf d x = (0.0 : α) := by
  unfold Gamma.pdf Gamma.ln_pdf
  exact ⟨if_pos h, if_pos h⟩

/-- Gamma: `x = inf`, shape not ≈ 1, shape ≤ 160 gives `ln_pdf = -inf` and `pdf = 0` -/
theorem gamma_guard_inf [SF α] (d : Gamma α) (x : α) (h0 : ¬ x < (0.0 : α))
    (h1 : ¬ (RFun.ulpsEq d.f_shape (1.0 : α)) = true) (h2 : ¬ (160.0 : α) < d.f_shape)
    (h : (RFun.isInf x) = true) :
    Gamma.ln_pdf d x = RFun.negInf ∧ Gamma.pdf d x = (0.0 : α) := by
  unfold Gamma.pdf Gamma.ln_pdf
  rw [if_neg h0, if_neg h1, if_pos h, if_neg h0, if_neg h1, if_neg h2, if_pos h]
  exact ⟨rfl, rfl⟩

/-- Gamma: `x = inf`, shape not ≈ 1, shape > 160: `pdf` is computed as `exp (ln_pdf)` = `exp (-inf)` -/
theorem gamma_guard_inf_large [SF α] (d : Gamma α) (x : α) (h0 : ¬ x < (0.0 : α))
    (h1 : ¬ (RFun.ulpsEq d.f_shape (1.0 : α)) = true) (h2 : (160.0 : α) < d.f_shape)
    (h : (RFun.isInf x) = true) :
    Gamma.ln_pdf d x = RFun.negInf ∧ Gamma.pdf d x = RFun.exp (RFun.negInf : α) := by
  have hl : Gamma.ln_pdf d x = RFun.negInf := by
    unfold Gamma.ln_pdf
    rw [if_neg h0, if_neg h1, if_pos h]
  refine ⟨hl, ?_⟩
  unfold Gamma.pdf
  rw [if_neg h0, if_neg h1, if_pos h2, hl]

/-- Beta: outside `[0,1]` `ln_pdf = -inf` and `pdf = 0` -/
theorem beta_guard [SF α] (d : Beta α) (x : α) (h : ¬ (((0.0 : α) ≤ x) ∧ (x ≤ (1.0 : α)))) :
    Beta.ln_pdf d x = RFun.negInf ∧ Beta.pdf d x = (0.0 : α) := by
  unfold Beta.pdf Beta.ln_pdf
  exact ⟨if_pos h, if_pos h⟩

/-- Chi: `x = inf` or `x ≤ 0` gives `ln_pdf = -inf` and `pdf = 0` -/
theorem chi_guard [SF α] (d : Chi) (x : α)
    (h : ((x == (RFun.inf : α)) = true) ∨ (x ≤ (0.0 : α))) :
    Chi.ln_pdf d x = (RFun.negInf : α) ∧ Chi.pdf d x = (0.0 : α) := by
  unfold Chi.pdf Chi.ln_pdf
  exact ⟨if_pos h, if_pos h⟩

/-! ### discrete families -/

/-- DiscreteUniform: off `[min,max]` `ln_pmf = -inf` and `pmf = 0` -/
theorem discrete_uniform_guard (d : DiscreteUniform) (x : Int)
    (h : ¬ ((d.f_min ≤ x) ∧ (x ≤ d.f_max))) :
    DiscreteUniform.ln_pmf (α := α) d x = RFun.negInf ∧
      DiscreteUniform.pmf (α := α) d x = (0.0 : α) := by
  unfold DiscreteUniform.ln_pmf DiscreteUniform.pmf
  exact ⟨if_neg h, if_neg h⟩

/-- Geometric: `k = 0` (below the support) gives `ln_pmf = -inf` and `pmf = 0` -/
theorem geometric_guard (d : Geometric α) (x : Int) (h : x = 0) :
    Geometric.ln_pmf d x = RFun.negInf ∧ Geometric.pmf d x = (0.0 : α) := by
  unfold Geometric.ln_pmf Geometric.pmf
  exact ⟨if_pos h, if_pos h⟩

/-- Hypergeometric: `k > draws` (above the support) gives `ln_pmf = -inf` and `pmf = 0`.  The guard
    `if x > self.draws { NEG_INFINITY }` was added to `ln_pmf` by the fix (it used to evaluate the
    unsigned `draws - x`, which underflows there); `pmf` already had it. -/
theorem hypergeometric_guard_above [SF α] (d : Hypergeometric) (x : Int) (h : d.f_draws < x) :
    Hypergeometric.ln_pmf (α := α) d x = RFun.negInf ∧ Hypergeometric.pmf (α := α) d x = (0.0 : α) := by
  unfold Hypergeometric.ln_pmf Hypergeometric.pmf
  exact ⟨if_pos h, if_pos h⟩

/-- Binomial (the engine of Bernoulli): `k > n` gives `ln_pmf = -inf` and `pmf = 0` -/
theorem binomial_guard_above [SF α] (d : Binomial α) (x : Int) (h : d.f_n < x) :
    Binomial.ln_pmf d x = RFun.negInf ∧ Binomial.pmf d x = (0.0 : α) := by
  unfold Binomial.ln_pmf Binomial.pmf
  exact ⟨if_pos h, if_pos h⟩

/-- Binomial: `p == 0` and `k ≠ 0` gives `ln_pmf = -inf` and `pmf = 0` -/
theorem binomial_guard_p0 [SF α] (d : Binomial α) (x : Int) (h0 : ¬ d.f_n < x)
    (hp : (d.f_p == (0.0 : α)) = true) (hx : x ≠ 0) :
    Binomial.ln_pmf d x = RFun.negInf ∧ Binomial.pmf d x = (0.0 : α) := by
  unfold Binomial.ln_pmf Binomial.pmf
  rw [if_neg h0, if_pos hp, if_neg hx, if_neg h0, if_pos hp, if_neg hx]
  exact ⟨rfl, rfl⟩

/-- Binomial: `p ≈ 1` (and not `== 0`) and `k ≠ n` gives `ln_pmf = -inf` and `pmf = 0` -/
theorem binomial_guard_p1 [SF α] (d : Binomial α) (x : Int) (h0 : ¬ d.f_n < x)
    (hp0 : ¬ (d.f_p == (0.0 : α)) = true) (hp : (RFun.ulpsEq d.f_p (1.0 : α)) = true)
    (hx : x ≠ d.f_n) :
    Binomial.ln_pmf d x = RFun.negInf ∧ Binomial.pmf d x = (0.0 : α) := by
  unfold Binomial.ln_pmf Binomial.pmf
  rw [if_neg h0, if_neg hp0, if_pos hp, if_neg hx, if_neg h0, if_neg hp0, if_pos hp, if_neg hx]
  exact ⟨rfl, rfl⟩

/-- Bernoulli: `k > 1` gives `ln_pmf = -inf` and `pmf = 0` (on a constructed object `n = 1`) -/
theorem bernoulli_guard_above [SF α] (d : Bernoulli α) (x : Int) (hn : d.f_b.f_n = 1)
    (h : 1 < x) :
    Bernoulli.ln_pmf d x = RFun.negInf ∧ Bernoulli.pmf d x = (0.0 : α) := by
  unfold Bernoulli.ln_pmf Bernoulli.pmf
  exact binomial_guard_above d.f_b x (by rw [hn]; exact h)

/-- Bernoulli: `p == 0`, `k = 1` gives `ln_pmf = -inf` and `pmf = 0` -/
theorem bernoulli_guard_p0 [SF α] (d : Bernoulli α) (hn : d.f_b.f_n = 1)
    (hp : (d.f_b.f_p == (0.0 : α)) = true) :
    Bernoulli.ln_pmf d 1 = RFun.negInf ∧ Bernoulli.pmf d 1 = (0.0 : α) := by
  unfold Bernoulli.ln_pmf Bernoulli.pmf
  exact binomial_guard_p0 d.f_b 1 (by rw [hn]; decide) hp (by decide)

/-- Bernoulli: `p ≈ 1` (not `== 0`), `k = 0` gives `ln_pmf = -inf` and `pmf = 0` -/
theorem bernoulli_guard_p1 [SF α] (d : Bernoulli α) (hn : d.f_b.f_n = 1)
    (hp0 : ¬ (d.f_b.f_p == (0.0 : α)) = true)
    (hp : (RFun.ulpsEq d.f_b.f_p (1.0 : α)) = true) :
    Bernoulli.ln_pmf d 0 = RFun.negInf ∧ Bernoulli.pmf d 0 = (0.0 : α) := by
  unfold Bernoulli.ln_pmf Bernoulli.pmf
  exact binomial_guard_p1 d.f_b 0 (by rw [hn]; decide) hp0 hp (by rw [hn]; decide)

end guards

end Statrs.Props.C04
