/-
  C04 — over ℝ, `ln_pdf` / `ln_pmf` equals `Real.log` of the plain density wherever the density is
  positive.  Hypotheses are exactly what each constructor enforces (and are dropped where the proof
  does not need them).  Theorems ending in `_rel` are relative to `Spec.GammaDensitySpec`
  (`SF.gamma = Γ`, `SF.ln_gamma = log Γ` on the positive half-line).
  The "-inf off the support" half of C04 is in `Guards.lean` (all carriers).  "never NaN" is not
  expressible over ℝ (`RFun.isNaN = false` there) and is not claimed.
-/
import Statrs.Real.Simp
import Statrs.Lemmas.Density
import Statrs.Spec.SFSpec_Density
import Statrs.Gen.D_exponential
import Statrs.Gen.D_uniform
import Statrs.Gen.D_cauchy
import Statrs.Gen.D_laplace
import Statrs.Gen.D_gumbel
import Statrs.Gen.D_pareto
import Statrs.Gen.D_triangular
import Statrs.Gen.D_weibull
import Statrs.Gen.D_normal
import Statrs.Gen.D_log_normal
import Statrs.Gen.D_levy
import Statrs.Gen.D_gamma
import Statrs.Gen.D_beta
import Statrs.Gen.D_chi
import Statrs.Gen.D_students_t
import Statrs.Gen.D_bernoulli
import Statrs.Gen.D_binomial
import Statrs.Gen.D_discrete_uniform
import Statrs.Gen.D_geometric
import Mathlib.Tactic
namespace Statrs.Props.C04
open Statrs Statrs.Gen Statrs.Lemmas.Density Statrs.Spec

/-- Exp: `ln_pdf = log pdf` wherever `pdf > 0` (rate > 0 as `new` enforces) -/
theorem exp_ln_pdf_eq_log_pdf (d : Exp ℝ) (h : 0 < d.f_rate) (x : ℝ) (hp : 0 < Exp.pdf d x) :
    Exp.ln_pdf d x = Real.log (Exp.pdf d x) := by
  unfold Exp.ln_pdf Exp.pdf at *
  model_norm
  split_ifs at * with h0
  · exact absurd hp (lt_irrefl _)
  · rw [Real.log_mul h.ne' (Real.exp_ne_zero _), Real.log_exp]; ring

/-- Uniform: `ln_pdf = log pdf` wherever `pdf > 0` (no parameter hypothesis needed) -/
theorem uniform_ln_pdf_eq_log_pdf (d : Uniform ℝ) (x : ℝ)
    (hp : 0 < Uniform.pdf d x) : Uniform.ln_pdf d x = Real.log (Uniform.pdf d x) := by
  unfold Uniform.ln_pdf Uniform.pdf at *
  model_norm
  split_ifs at * with h0
  · exact absurd hp (lt_irrefl _)
  · rw [one_div, Real.log_inv]

/-- Cauchy: `ln_pdf = log pdf` at every argument (no hypothesis needed) -/
theorem cauchy_ln_pdf_eq_log_pdf (d : Cauchy ℝ) (x : ℝ) :
    Cauchy.ln_pdf d x = Real.log (Cauchy.pdf d x) := by
  unfold Cauchy.ln_pdf Cauchy.pdf
  model_norm
  rw [one_div, Real.log_inv]

/-- Pareto: `ln_pdf = log pdf` wherever `pdf > 0` (scale, shape > 0) -/
theorem pareto_ln_pdf_eq_log_pdf (d : Pareto ℝ) (hs : 0 < d.f_scale) (ha : 0 < d.f_shape) (x : ℝ)
    (hp : 0 < Pareto.pdf d x) : Pareto.ln_pdf d x = Real.log (Pareto.pdf d x) := by
  unfold Pareto.ln_pdf Pareto.pdf at *
  model_norm
  split_ifs at * with h0
  · exact absurd hp (lt_irrefl _)
  · have hx : 0 < x := lt_of_lt_of_le hs (not_lt.mp h0)
    rw [Real.log_div (mul_ne_zero ha.ne' (Real.rpow_pos_of_pos hs _).ne') (Real.rpow_pos_of_pos hx _).ne',
      Real.log_mul ha.ne' (Real.rpow_pos_of_pos hs _).ne', Real.log_rpow hs, Real.log_rpow hx]

/-- Weibull: `ln_pdf = log pdf` wherever `pdf > 0` (shape, scale > 0; any value of the cached `scale^-shape` field) -/
theorem weibull_ln_pdf_eq_log_pdf (d : Weibull ℝ) (hk : 0 < d.f_shape) (hs : 0 < d.f_scale)
    (x : ℝ) (hp : 0 < Weibull.pdf d x) : Weibull.ln_pdf d x = Real.log (Weibull.pdf d x) := by
  unfold Weibull.ln_pdf Weibull.pdf at *
  model_norm
  split_ifs at * with h0 h1
  · exact absurd hp (lt_irrefl _)
  · rw [one_div, Real.log_inv]; ring
  · have hx0 : 0 ≤ x := not_lt.mp h0
    have hp' := hp
    rw [div_pos_iff_of_pos_right hs] at hp'
    have hA := ne_zero_of_mul_pos_left hp'
    have hpw : (x / d.f_scale) ^ (d.f_shape - 1) ≠ 0 := right_ne_zero_of_mul hA
    rw [Real.log_div hp'.ne' hs.ne', Real.log_mul hA (Real.exp_ne_zero _), Real.log_exp,
      Real.log_mul hk.ne' hpw, log_rpow_of_ne_zero (div_nonneg hx0 hs.le) hpw]
    ring

/-- Laplace: `ln_pdf = log pdf` at every argument (definitional) -/
theorem laplace_ln_pdf_eq_log_pdf (d : Laplace ℝ) (x : ℝ) :
    Laplace.ln_pdf d x = Real.log (Laplace.pdf d x) := rfl
/-- Gumbel: `ln_pdf = log pdf` at every argument (definitional) -/
theorem gumbel_ln_pdf_eq_log_pdf (d : Gumbel ℝ) (x : ℝ) :
    Gumbel.ln_pdf d x = Real.log (Gumbel.pdf d x) := rfl
/-- Triangular: `ln_pdf = log pdf` at every argument (definitional) -/
theorem triangular_ln_pdf_eq_log_pdf (d : Triangular ℝ) (x : ℝ) :
    Triangular.ln_pdf d x = Real.log (Triangular.pdf d x) := rfl
/-- Triangular: at the mode `ln_pdf = log (2/(max-min))` for every parameter triple, also `mode = min`
    and `mode = max` (the `x == c` branch added by the fix; before it `pdf` was `0/0` at `mode = min`) -/
theorem triangular_ln_pdf_at_mode (d : Triangular ℝ) :
    Triangular.ln_pdf d d.f_mode = Real.log (2 / (d.f_max - d.f_min)) := by
  unfold Triangular.ln_pdf Triangular.pdf; model_norm

/-- LogNormal: `ln_pdf = log pdf` wherever `pdf > 0` (scale > 0) -/
theorem lognormal_ln_pdf_eq_log_pdf (d : LogNormal ℝ) (h : 0 < d.f_scale) (x : ℝ)
    (hp : 0 < LogNormal.pdf d x) : LogNormal.ln_pdf d x = Real.log (LogNormal.pdf d x) := by
  unfold LogNormal.ln_pdf LogNormal.pdf at *
  model_norm
  split_ifs at * with h0
  · exact absurd hp (lt_irrefl _)
  · have hx : 0 < x := not_le.mp h0
    have h2 : (0:ℝ) < Real.sqrt (2 * Real.pi) := Real.sqrt_pos.mpr (by positivity)
    rw [Real.log_div (Real.exp_ne_zero _) (by positivity), Real.log_exp,
      Real.log_mul (x := x * Real.sqrt (2 * Real.pi)) (by positivity) h.ne',
      Real.log_mul hx.ne' h2.ne', Real.log_mul hx.ne' h.ne']
    ring

/-- Levy: `ln_pdf = log pdf` wherever `pdf > 0` (c > 0) -/
theorem levy_ln_pdf_eq_log_pdf (d : Levy ℝ) (h : 0 < d.f_c) (x : ℝ)
    (hp : 0 < Levy.pdf d x) : Levy.ln_pdf d x = Real.log (Levy.pdf d x) := by
  unfold Levy.ln_pdf Levy.pdf at *
  model_norm
  split_ifs at * with h0
  · exact absurd hp (lt_irrefl _)
  · have hx : 0 < x - d.f_mu := sub_pos.mpr (not_le.mp h0)
    have h2 : (0:ℝ) < 2 * Real.pi := by positivity
    have hs : 0 < Real.sqrt (d.f_c / (2 * Real.pi)) := Real.sqrt_pos.mpr (by positivity)
    rw [Real.log_div (mul_ne_zero hs.ne' (Real.exp_ne_zero _)) (Real.rpow_pos_of_pos hx _).ne',
      Real.log_mul hs.ne' (Real.exp_ne_zero _), Real.log_exp, Real.log_rpow hx,
      Real.log_sqrt (x := d.f_c / (2 * Real.pi)) (by positivity), Real.log_sqrt h2.le,
      Real.log_div h.ne' h2.ne']
    ring

/-- StudentsT: `ln_pdf = log pdf` at every argument, for an ARBITRARY `SF ℝ` (the two `ln_gamma` values cancel syntactically; scale, freedom > 0) -/
theorem studentst_ln_pdf_eq_log_pdf [SF ℝ] (d : StudentsT ℝ) (hs : 0 < d.f_scale)
    (hf : 0 < d.f_freedom) (x : ℝ) :
    StudentsT.ln_pdf d x = Real.log (StudentsT.pdf d x) := by
  unfold StudentsT.ln_pdf StudentsT.pdf D.normal.ln_pdf_unchecked D.normal.pdf_unchecked
  model_norm
  split_ifs with h1
  · have h2 : (0:ℝ) < Real.sqrt (2 * Real.pi) := Real.sqrt_pos.mpr (by positivity)
    rw [Real.log_div (Real.exp_ne_zero _) (mul_ne_zero h2.ne' hs.ne'), Real.log_exp,
      Real.log_mul h2.ne' hs.ne']
    ring
  · have hb : 0 < 1 + (x - d.f_location) / d.f_scale * ((x - d.f_location) / d.f_scale) / d.f_freedom := by
      have := mul_self_nonneg ((x - d.f_location) / d.f_scale)
      positivity
    have hq : 0 < Real.sqrt (d.f_freedom * Real.pi) := Real.sqrt_pos.mpr (by positivity)
    rw [Real.log_div (by positivity) hs.ne', Real.log_div (by positivity) hq.ne',
      Real.log_mul (Real.exp_ne_zero _) (Real.rpow_pos_of_pos hb _).ne', Real.log_exp,
      Real.log_rpow hb, Real.log_sqrt (by positivity)]
    ring

/-- Gamma: `ln_pdf = log pdf` wherever `pdf > 0`, relative to `SF.gamma = Γ`, `SF.ln_gamma = log Γ` on (0,∞) -/
theorem gamma_ln_pdf_eq_log_pdf_rel [SF ℝ] (S : GammaDensitySpec) (d : Gamma ℝ)
    (hk : 0 < d.f_shape) (hr : 0 < d.f_rate) (x : ℝ) (hp : 0 < Gamma.pdf d x) :
    Gamma.ln_pdf d x = Real.log (Gamma.pdf d x) := by
  unfold Gamma.pdf at *
  model_norm
  split_ifs at * with h0 h1 h2
  · exact absurd hp (lt_irrefl _)
  · unfold Gamma.ln_pdf; model_norm
    rw [if_neg h0, if_pos h1, Real.log_mul hr.ne' (Real.exp_ne_zero _), Real.log_exp]; ring
  · rw [Real.log_exp]
  · unfold Gamma.ln_pdf; model_norm
    rw [if_neg h0, if_neg h1]
    have hx0 : 0 ≤ x := not_lt.mp h0
    have hG : 0 < Real.Gamma d.f_shape := Real.Gamma_pos_of_pos hk
    rw [S.gamma_eq _ hk] at hp ⊢
    rw [S.ln_gamma_eq _ hk]
    have hp' := hp
    rw [div_pos_iff_of_pos_right hG] at hp'
    have hA := ne_zero_of_mul_pos_left hp'
    have hpw : x ^ (d.f_shape - 1) ≠ 0 := right_ne_zero_of_mul hA
    rw [Real.log_div hp'.ne' hG.ne', Real.log_mul hA (Real.exp_ne_zero _), Real.log_exp,
      Real.log_mul (Real.rpow_pos_of_pos hr _).ne' hpw, log_rpow_of_ne_zero hx0 hpw,
      Real.log_rpow hr]
    ring

/-- Chi: `ln_pdf = log pdf` wherever `pdf > 0`, relative to `SF.gamma = Γ`, `SF.ln_gamma = log Γ` (freedom ≥ 1: `new` rejects 0 and the field is a `u64`) -/
theorem chi_ln_pdf_eq_log_pdf_rel [SF ℝ] (S : GammaDensitySpec) (d : Chi)
    (hk : 0 < d.f_freedom) (x : ℝ) (hp : 0 < Chi.pdf d x) :
    Chi.ln_pdf d x = Real.log (Chi.pdf d x) := by
  unfold Chi.pdf at *
  model_norm
  split_ifs at * with h0 h1
  · exact absurd hp (lt_irrefl _)
  · rw [Real.log_exp]
  · unfold Chi.ln_pdf Chi.freedom at *; model_norm
    rw [if_neg h0]
    have hx : 0 < x := by
      rcases not_or.mp h0 with ⟨_, h⟩; exact not_le.mp h
    have hk' : (0:ℝ) < (d.f_freedom : ℝ) / 2 := by
      have : (0:ℝ) < (d.f_freedom : ℝ) := by exact_mod_cast hk
      positivity
    have hG : 0 < Real.Gamma ((d.f_freedom : ℝ) / 2) := Real.Gamma_pos_of_pos hk'
    rw [S.gamma_eq _ hk', S.ln_gamma_eq _ hk']
    rw [Real.log_div (by positivity) hG.ne', Real.log_mul (by positivity) (Real.exp_ne_zero _),
      Real.log_exp, Real.log_mul (by positivity) (by positivity), Real.log_rpow hx,
      Real.log_rpow (by norm_num)]
    ring


/-- Normal: `ln_pdf = log pdf` at every argument (std_dev > 0) -/
theorem normal_ln_pdf_eq_log_pdf (d : Normal ℝ) (h : 0 < d.f_std_dev) (x : ℝ) :
    Normal.ln_pdf d x = Real.log (Normal.pdf d x) := by
  unfold Normal.ln_pdf Normal.pdf D.normal.ln_pdf_unchecked D.normal.pdf_unchecked
  model_norm
  have h2 : (0:ℝ) < Real.sqrt (2 * Real.pi) := Real.sqrt_pos.mpr (by positivity)
  rw [Real.log_div (Real.exp_ne_zero _) (mul_ne_zero h2.ne' h.ne'), Real.log_exp,
    Real.log_mul h2.ne' h.ne']
  ring

/-- Beta: `ln_pdf = log pdf` wherever `pdf > 0`, relative to `SF.gamma = Γ`, `SF.ln_gamma = log Γ` on (0,∞) -/
theorem beta_ln_pdf_eq_log_pdf_rel [SF ℝ] (S : GammaDensitySpec) (d : Beta ℝ)
    (ha : 0 < d.f_shape_a) (hb : 0 < d.f_shape_b) (x : ℝ) (hp : 0 < Beta.pdf d x) :
    Beta.ln_pdf d x = Real.log (Beta.pdf d x) := by
  unfold Beta.pdf at *
  model_norm
  split_ifs at * with h0 h1 h2
  · unfold Beta.ln_pdf; model_norm
    rw [if_neg (not_not.mpr h0), if_pos h1, Real.log_one]
  · rw [Real.log_exp]
  · unfold Beta.ln_pdf; model_norm
    rw [if_neg (not_not.mpr h0), if_neg h1]
    obtain ⟨hx0, hx1⟩ := h0
    have hab : 0 < d.f_shape_a + d.f_shape_b := add_pos ha hb
    rw [S.gamma_eq _ ha, S.gamma_eq _ hb, S.gamma_eq _ hab] at hp ⊢
    rw [S.ln_gamma_eq _ ha, S.ln_gamma_eq _ hb, S.ln_gamma_eq _ hab]
    have hGa := Real.Gamma_pos_of_pos ha
    have hGb := Real.Gamma_pos_of_pos hb
    have hGab := Real.Gamma_pos_of_pos hab
    have hA := ne_zero_of_mul_pos_left hp
    have hC := ne_zero_of_mul_pos_right hp
    have hB : x ^ (d.f_shape_a - 1) ≠ 0 := right_ne_zero_of_mul hA
    have hbb : (if d.f_shape_a = 1 ∧ x = 0 then (0:ℝ) else if x = 0 then RFun.negInf
        else (d.f_shape_a - 1) * Real.log x) = (d.f_shape_a - 1) * Real.log x := by
      split_ifs with c1 c2
      · rw [c1.1]; ring
      · exfalso; apply hB; rw [c2]
        exact Real.zero_rpow (fun h => c1 ⟨by linarith, c2⟩)
      · rfl
    have hcc : (if d.f_shape_b = 1 ∧ x = 1 then (0:ℝ) else if x = 1 then RFun.negInf
        else (d.f_shape_b - 1) * Real.log (1 - x)) = (d.f_shape_b - 1) * Real.log (1 - x) := by
      split_ifs with c1 c2
      · rw [c1.1]; ring
      · exfalso; apply hC; rw [c2, sub_self]
        exact Real.zero_rpow (fun h => c1 ⟨by linarith, c2⟩)
      · rfl
    rw [hbb, hcc, Real.log_mul hA hC, Real.log_mul (by positivity) hB,
      Real.log_div hGab.ne' (by positivity), Real.log_mul hGa.ne' hGb.ne',
      log_rpow_of_ne_zero hx0 hB, log_rpow_of_ne_zero (sub_nonneg.mpr hx1) hC]
    ring
  · exact absurd hp (lt_irrefl _)

/-- Binomial (engine of Bernoulli): `ln_pmf = log pmf` wherever `pmf > 0`, any `SF ℝ`, any parameters -/
theorem binomial_ln_pmf_eq_log_pmf [SF ℝ] (d : Binomial ℝ) (x : Int)
    (hp : 0 < Binomial.pmf d x) : Binomial.ln_pmf d x = Real.log (Binomial.pmf d x) := by
  unfold Binomial.pmf Binomial.ln_pmf at *
  model_norm
  split_ifs at * <;>
    first
      | exact absurd hp (lt_irrefl _)
      | exact Real.log_one.symm
      | exact (Real.log_exp _).symm

/-- Bernoulli: `ln_pmf = log pmf` wherever `pmf > 0`, any `SF ℝ`, any parameters -/
theorem bernoulli_ln_pmf_eq_log_pmf [SF ℝ] (d : Bernoulli ℝ) (x : Int)
    (hp : 0 < Bernoulli.pmf d x) : Bernoulli.ln_pmf d x = Real.log (Bernoulli.pmf d x) :=
  binomial_ln_pmf_eq_log_pmf d.f_b x hp

/-- DiscreteUniform: `ln_pmf = log pmf` wherever `pmf > 0` -/
theorem discrete_uniform_ln_pmf_eq_log_pmf (d : DiscreteUniform) (x : Int)
    (hp : 0 < DiscreteUniform.pmf (α := ℝ) d x) :
    DiscreteUniform.ln_pmf (α := ℝ) d x = Real.log (DiscreteUniform.pmf (α := ℝ) d x) := by
  unfold DiscreteUniform.pmf DiscreteUniform.ln_pmf at *
  model_norm
  split_ifs at * with h0
  · rw [one_div, Real.log_inv]
  · exact absurd hp (lt_irrefl _)


/-- Geometric: `ln_pmf = log pmf` wherever `pmf > 0`, for EVERY `u64` argument `k` and every accepted
    `p ∈ (0,1]`.  (Was `…_partial` with the bound `k < 2^31`: `pmf` used to compute its exponent as
    `k as i32 - 1`, which wrapped; it now computes `(1-p).powf((k-1) as f64)`, so the bound is gone.) -/
theorem geometric_ln_pmf_eq_log_pmf (d : Geometric ℝ) (hp0 : 0 < d.f_p) (hp1 : d.f_p ≤ 1)
    (x : Int) (hx0 : 0 ≤ x) (hpos : 0 < Geometric.pmf d x) :
    Geometric.ln_pmf d x = Real.log (Geometric.pmf d x) := by
  have hx1 : 1 ≤ x := by
    rcases (by omega : x = 0 ∨ 1 ≤ x) with rfl | h
    · exfalso; unfold Geometric.pmf at hpos; model_norm; exact lt_irrefl _ hpos
    · exact h
  have hu : usub x 1 = x - 1 := by unfold usub; rw [if_neg (by omega)]
  unfold Geometric.ln_pmf Geometric.pmf at *
  model_norm
  have hx0' : x ≠ 0 := by omega
  rw [if_neg hx0', hu, Real.rpow_intCast] at hpos
  rw [if_neg hx0', if_neg hx0', hu, Real.rpow_intCast]
  split_ifs with h1 h2
  · rw [h1.1, h1.2]; simp
  · exfalso
    have hx1' : x ≠ 1 := fun h => h1 ⟨h2, h⟩
    rw [h2, sub_self, zero_zpow _ (by omega : x - 1 ≠ 0)] at hpos
    simp at hpos
  · have hq : 0 < 1 - d.f_p := by
      rcases hp1.lt_or_eq with h | h
      · linarith
      · exact absurd h h2
    rw [Real.log_mul (zpow_pos hq _).ne' hp0.ne', Real.log_zpow]

/-- Geometric, large `k` (the former counterexample witness): at `p = 1/2`, `k = 2^32 + 1 ≤ u64::MAX`
    the model now has `pmf = (1/2)^(2^32) · 1/2 > 0` and `ln_pmf = 2^32·ln(1/2) + ln(1/2) = log pmf`
    (before the fix `pmf` was `1/2` there: exponent `k as i32 - 1 = 0`). -/
theorem geometric_ln_pmf_large_k :
    ∃ (d : Geometric ℝ) (x : Int), 0 < d.f_p ∧ d.f_p ≤ 1 ∧ 2 ^ 31 ≤ x ∧ x ≤ u64Max ∧
      0 < Geometric.pmf d x ∧ Geometric.ln_pmf d x = Real.log (Geometric.pmf d x) := by
  have hpos : 0 < Geometric.pmf (⟨1 / 2⟩ : Geometric ℝ) (2 ^ 32 + 1) := by
    unfold Geometric.pmf usub; model_norm; norm_num
  exact ⟨⟨1 / 2⟩, 2 ^ 32 + 1, by norm_num, by norm_num, by norm_num, by norm_num [u64Max], hpos,
    geometric_ln_pmf_eq_log_pmf _ (by norm_num) (by norm_num) _ (by norm_num) hpos⟩

/-! ### non-vacuity: every hypothesis set above is satisfiable -/
example : ∃ (d : Exp ℝ) (x : ℝ), 0 < d.f_rate ∧ 0 < Exp.pdf d x :=
  ⟨⟨1⟩, 0, by norm_num, by unfold Exp.pdf; model_norm; norm_num⟩
example : ∃ (d : Uniform ℝ) (x : ℝ), d.f_min < d.f_max ∧ 0 < Uniform.pdf d x :=
  ⟨⟨0, 1⟩, 0, by norm_num, by unfold Uniform.pdf; model_norm; norm_num⟩
example : ∃ (d : Pareto ℝ) (x : ℝ), 0 < d.f_scale ∧ 0 < d.f_shape ∧ 0 < Pareto.pdf d x :=
  ⟨⟨1, 1⟩, 1, by norm_num, by norm_num, by unfold Pareto.pdf; model_norm; norm_num⟩
example : ∃ (d : Weibull ℝ) (x : ℝ), 0 < d.f_shape ∧ 0 < d.f_scale ∧ 0 < Weibull.pdf d x :=
  ⟨⟨1, 1, 1⟩, 0, by norm_num, by norm_num, by unfold Weibull.pdf; model_norm; norm_num⟩
example : ∃ d : Normal ℝ, 0 < d.f_std_dev := ⟨⟨0, 1⟩, by norm_num⟩
example : ∃ (d : LogNormal ℝ) (x : ℝ), 0 < d.f_scale ∧ 0 < LogNormal.pdf d x :=
  ⟨⟨0, 1⟩, 1, by norm_num, by unfold LogNormal.pdf; model_norm; norm_num; positivity⟩
example : ∃ (d : Levy ℝ) (x : ℝ), 0 < d.f_c ∧ 0 < Levy.pdf d x :=
  ⟨⟨0, 1⟩, 1, by norm_num, by unfold Levy.pdf; model_norm; norm_num; positivity⟩
example : ∃ d : StudentsT ℝ, 0 < d.f_scale ∧ 0 < d.f_freedom := ⟨⟨0, 1, 1⟩, by norm_num, by norm_num⟩
example : ∃ (_ : SF ℝ) (_ : GammaDensitySpec) (d : Gamma ℝ) (x : ℝ),
    0 < d.f_shape ∧ 0 < d.f_rate ∧ 0 < Gamma.pdf d x :=
  ⟨sfWitness, gammaDensitySpec_witness, ⟨1, 1⟩, 0, by norm_num, by norm_num,
    by unfold Gamma.pdf; model_norm; norm_num⟩
example : ∃ (_ : SF ℝ) (_ : GammaDensitySpec) (d : Beta ℝ) (x : ℝ),
    0 < d.f_shape_a ∧ 0 < d.f_shape_b ∧ 0 < Beta.pdf d x :=
  ⟨sfWitness, gammaDensitySpec_witness, ⟨1, 1⟩, 0, by norm_num, by norm_num,
    by unfold Beta.pdf; model_norm; norm_num⟩
example : ∃ (_ : SF ℝ) (_ : GammaDensitySpec) (d : Chi) (x : ℝ),
    0 < d.f_freedom ∧ 0 < Chi.pdf (α := ℝ) d x :=
  ⟨sfWitness, gammaDensitySpec_witness, ⟨2⟩, 1, by norm_num, by
    unfold Chi.pdf Chi.freedom; model_norm; norm_num
    have hG : (0:ℝ) < Real.Gamma 1 := Real.Gamma_pos_of_pos one_pos
    have hi : ¬ (1:ℝ) = RFun.inf := by show ¬ (1:ℝ) = 0; norm_num
    rw [if_neg hi]
    show 0 < _ / Real.Gamma 1
    positivity⟩
example : ∃ (d : Geometric ℝ) (x : Int), 0 < d.f_p ∧ d.f_p ≤ 1 ∧ 0 ≤ x ∧
    0 < Geometric.pmf d x :=
  ⟨⟨1 / 2⟩, 1, by norm_num, by norm_num, by norm_num,
    by unfold Geometric.pmf usub; model_norm; norm_num⟩
example : ∃ (d : DiscreteUniform) (x : Int), d.f_min ≤ d.f_max ∧ 0 < DiscreteUniform.pmf (α := ℝ) d x :=
  ⟨⟨0, 1⟩, 0, by norm_num, by unfold DiscreteUniform.pmf; model_norm; norm_num⟩
example : ∃ (_ : SF ℝ) (d : Bernoulli ℝ) (x : Int), d.f_b.f_n = 1 ∧ 0 < Bernoulli.pmf d x :=
  ⟨sfWitness, ⟨⟨0, 1⟩⟩, 0, rfl, by unfold Bernoulli.pmf Binomial.pmf; model_norm; norm_num⟩

/-! ### the guard hypotheses of `Guards.lean` are satisfiable (instantiated at ℝ) -/
example : ∃ (_ : Exp ℝ) (x : ℝ), x < (0.0 : ℝ) := ⟨⟨1⟩, -1, by norm_num⟩
example : ∃ (d : Uniform ℝ) (x : ℝ), x < d.f_min ∨ d.f_max < x := ⟨⟨0, 1⟩, 2, Or.inr (by norm_num)⟩
example : ∃ (d : Pareto ℝ) (x : ℝ), x < d.f_scale := ⟨⟨1, 1⟩, 0, by norm_num⟩
example : ∃ (d : Levy ℝ) (x : ℝ), x ≤ d.f_mu := ⟨⟨0, 1⟩, 0, le_rfl⟩
example : ∃ (_ : Beta ℝ) (x : ℝ), ¬ (((0.0 : ℝ) ≤ x) ∧ (x ≤ (1.0 : ℝ))) := ⟨⟨1, 1⟩, 2, by norm_num⟩
example : ∃ (d : Triangular ℝ) (x : ℝ), ¬ ((x == d.f_mode) = true) ∧ ¬ (d.f_min ≤ x ∧ x < d.f_mode) ∧
    ¬ (d.f_mode < x ∧ x ≤ d.f_max) :=
  ⟨⟨0, 2, 1⟩, 3, by simp only [real_beq]; norm_num, by norm_num, by norm_num⟩
example : ∃ (d : Triangular ℝ) (x : ℝ), (x == d.f_mode) = true ∧ d.f_mode = d.f_min :=
  ⟨⟨0, 2, 0⟩, 0, by simp only [real_beq], rfl⟩
example : ∃ (d : DiscreteUniform) (x : Int), ¬ ((d.f_min ≤ x) ∧ (x ≤ d.f_max)) := ⟨⟨0, 1⟩, 2, by norm_num⟩
example : ∃ (d : Hypergeometric) (x : Int), d.f_draws < x ∧ x ≤ u64Max := ⟨⟨10, 5, 3⟩, 4, by norm_num, by norm_num [u64Max]⟩

end Statrs.Props.C04
