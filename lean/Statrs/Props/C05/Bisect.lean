/-
  C05 — Dirac's own `inverse_cdf` and the trait-default bisection `inverse_cdf`
  (src/distribution/mod.rs:141).

  * Dirac (src/distribution/dirac.rs:127) no longer inherits the trait-default bisection: its
    `inverse_cdf` is the closed form "panic unless `0 ≤ p ≤ 1`, else the atom `v`".
    `dirac_inverse_cdf_eq(_any)`: `Dirac.inverse_cdf d p = d.f_0` for every `p ∈ [0,1]` (every carrier);
    consequences: result in `[min,max]`, monotone in `p`, `cdf (inverse_cdf p) = 1 ≥ p`,
    `inverse_cdf (cdf x) = v`, the result is the smallest `x` with `cdf x ≥ p` for `0 < p ≤ 1`;
    outside `[0,1]` it panics.  The former finding `dirac_inverse_cdf_counterexample` (the inherited
    bisection returned `-2⁻¹⁵` for the point mass at 0, outside `[min,max]`, `cdf (inverse_cdf p) = 0 ≠ p`)
    is no longer true of the model and was removed.
  * The generic error bound `2⁻¹⁵·max(1,|Q(p)|)` of the abstract default loop lives in
    `Statrs.Lemmas.Bisect` (`bisect_bound`, for an arbitrary `F : ℝ → ℝ`).  It is instantiated here for
    the families whose generated `inverse_cdf` still IS the default loop (`X.inverse_cdf.loop1/3/5`):
    InverseGamma (`inverse_gamma_inverse_cdf_bisect_bound_rel`, relative to `Q` being the `p`-quantile of the
    family's abstract-special-function cdf); for Chi only the identity with the abstract loop is kept (see below).
-/
import Statrs.Real.Simp
import Statrs.Lemmas.Bisect
import Statrs.Gen.D_dirac
import Statrs.Gen.D_chi
import Statrs.Gen.D_inverse_gamma
import Mathlib.Tactic
set_option linter.unusedVariables false
namespace Statrs.Props.C05
open Statrs Statrs.Gen

/-! ## Dirac: `inverse_cdf p = v` exactly -/

/-- Dirac, every carrier (branch logic only, so also IEEE `Float`): for `0.0 ≤ p ≤ 1.0` the
    quantile is the atom. -/
theorem dirac_inverse_cdf_eq_any {α : Type} [Add α] [Sub α] [Mul α] [Div α] [Neg α] [LT α] [LE α] [BEq α]
    [DecidableLT α] [DecidableLE α] [OfScientific α] [Inhabited α] [RFun α]
    (d : Dirac α) (p : α) (hp0 : (0.0 : α) ≤ p) (hp1 : p ≤ (1.0 : α)) :
    Dirac.inverse_cdf d p = d.f_0 := by
  unfold Dirac.inverse_cdf
  rw [if_neg (not_not.mpr ⟨hp0, hp1⟩)]

/-- Dirac, every carrier: outside `[0.0, 1.0]` (including a NaN `p`, for which both comparisons are
    false) the call panics. -/
theorem dirac_inverse_cdf_panics_any {α : Type} [Add α] [Sub α] [Mul α] [Div α] [Neg α] [LT α] [LE α] [BEq α]
    [DecidableLT α] [DecidableLE α] [OfScientific α] [Inhabited α] [RFun α]
    (d : Dirac α) (p : α) (hp : ¬ ((0.0 : α) ≤ p ∧ p ≤ (1.0 : α))) :
    Dirac.inverse_cdf d p = panicV := by
  unfold Dirac.inverse_cdf
  rw [if_pos hp]

/-- Dirac over ℝ: `inverse_cdf d p = v` for every `p ∈ [0,1]` (endpoints included). -/
theorem dirac_inverse_cdf_eq (d : Dirac ℝ) (p : ℝ) (hp0 : 0 ≤ p) (hp1 : p ≤ 1) :
    Dirac.inverse_cdf d p = d.f_0 :=
  dirac_inverse_cdf_eq_any d p (by norm_num; exact hp0) (by norm_num; exact hp1)

/-- Dirac over ℝ: `p < 0` or `p > 1` panics (as documented). -/
theorem dirac_inverse_cdf_panics (d : Dirac ℝ) (p : ℝ) (hp : p < 0 ∨ 1 < p) :
    Dirac.inverse_cdf d p = panicV := by
  apply dirac_inverse_cdf_panics_any
  rintro ⟨h0, h1⟩
  norm_num at h0 h1
  rcases hp with hp | hp <;> linarith

/-- Dirac: the result lies in `[min(), max()]` (all three are the atom) -/
theorem dirac_inverse_cdf_mem (d : Dirac ℝ) (p : ℝ) (hp0 : 0 ≤ p) (hp1 : p ≤ 1) :
    Dirac.min d ≤ Dirac.inverse_cdf d p ∧ Dirac.inverse_cdf d p ≤ Dirac.max d := by
  rw [dirac_inverse_cdf_eq d p hp0 hp1]
  unfold Dirac.min Dirac.max
  exact ⟨le_rfl, le_rfl⟩

/-- Dirac: `inverse_cdf` never decreases as `p` increases on `[0,1]` (it is constant) -/
theorem dirac_inverse_cdf_mono (d : Dirac ℝ) (p q : ℝ) (hp0 : 0 ≤ p) (hpq : p ≤ q) (hq1 : q ≤ 1) :
    Dirac.inverse_cdf d p ≤ Dirac.inverse_cdf d q := by
  rw [dirac_inverse_cdf_eq d p hp0 (hpq.trans hq1), dirac_inverse_cdf_eq d q (hp0.trans hpq) hq1]

/-- Dirac, round trip 1: `cdf (inverse_cdf p) = 1`, hence `≥ p`, for every `p ∈ [0,1]` (the cdf only
    takes the values 0 and 1, so equality with `p` is possible only at `p = 1`) -/
theorem dirac_cdf_inverse_cdf (d : Dirac ℝ) (p : ℝ) (hp0 : 0 ≤ p) (hp1 : p ≤ 1) :
    Dirac.cdf d (Dirac.inverse_cdf d p) = 1 ∧ p ≤ Dirac.cdf d (Dirac.inverse_cdf d p) := by
  rw [dirac_inverse_cdf_eq d p hp0 hp1]
  have : Dirac.cdf d d.f_0 = 1 := by unfold Dirac.cdf; rw [if_neg (lt_irrefl _)]; norm_num
  rw [this]
  exact ⟨rfl, hp1⟩

/-- Dirac, round trip 2: `inverse_cdf (cdf x) = v` for every `x` -/
theorem dirac_inverse_cdf_cdf (d : Dirac ℝ) (x : ℝ) : Dirac.inverse_cdf d (Dirac.cdf d x) = d.f_0 := by
  apply dirac_inverse_cdf_eq
  · unfold Dirac.cdf; split_ifs <;> norm_num
  · unfold Dirac.cdf; split_ifs <;> norm_num

/-- Dirac: for `0 < p ≤ 1`, `inverse_cdf p` is the smallest `x` with `cdf x ≥ p` (the generalised
    inverse of the cdf). -/
theorem dirac_inverse_cdf_smallest (d : Dirac ℝ) (p : ℝ) (hp0 : 0 < p) (hp1 : p ≤ 1) :
    p ≤ Dirac.cdf d (Dirac.inverse_cdf d p) ∧ ∀ x, x < Dirac.inverse_cdf d p → Dirac.cdf d x < p := by
  refine ⟨(dirac_cdf_inverse_cdf d p hp0.le hp1).2, fun x hx => ?_⟩
  rw [dirac_inverse_cdf_eq d p hp0.le hp1] at hx
  unfold Dirac.cdf; rw [if_pos hx]; norm_num; exact hp0

/-- the atom `v` is the `p`-quantile of the Dirac cdf for every `p ∈ (0,1)` -/
theorem dirac_isQuantile (d : Dirac ℝ) (p : ℝ) (hp0 : 0 < p) (hp1 : p < 1) :
    Lemmas.Bisect.IsQuantile (Dirac.cdf d) p d.f_0 := by
  refine ⟨fun x hx => ?_, fun x hx => ?_, fun x hx => ?_⟩
  · unfold Dirac.cdf; rw [if_pos hx]; norm_num; exact hp0
  · unfold Dirac.cdf; rw [if_neg (not_lt.mpr hx)]; norm_num; exact hp1.le
  · unfold Dirac.cdf; rw [if_neg (not_lt.mpr hx.le)]; norm_num; exact hp1

/-- Dirac: the error bound `2⁻¹⁵·max(1,|v|)` of the generic bisection is met with error 0 — Dirac no
    longer runs the bisection (the former hypothesis `|v| ≤ 2^1024`, which kept the inherited doubling
    loops within their fuel, is not needed any more). -/
theorem dirac_inverse_cdf_bisect_bound (d : Dirac ℝ) (p : ℝ) (hp0 : 0 < p) (hp1 : p < 1) :
    |Dirac.inverse_cdf d p - d.f_0| ≤ 2⁻¹ ^ 15 * max 1 |d.f_0| := by
  rw [dirac_inverse_cdf_eq d p hp0.le hp1.le, sub_self, abs_zero]
  positivity

example : ∃ (d : Dirac ℝ) (p : ℝ), 0 ≤ p ∧ p ≤ 1 := ⟨⟨0⟩, 1 / 2, by norm_num, by norm_num⟩

theorem dirac0_cdf (x : ℝ) : Dirac.cdf (⟨0⟩ : Dirac ℝ) x = if x < 0 then 0 else 1 := by
  unfold Dirac.cdf; norm_num

/-- the point mass at 0 (the witness of the former finding): `inverse_cdf p = 0` for `p ∈ (0,1)`
    (it was `-2⁻¹⁵` with the inherited bisection) -/
theorem dirac0_inverse_cdf (p : ℝ) (hp0 : 0 < p) (hp1 : p < 1) :
    Dirac.inverse_cdf (⟨0⟩ : Dirac ℝ) p = 0 :=
  dirac_inverse_cdf_eq _ p hp0.le hp1.le

/-! ## the generic bound for the families that still use the trait-default loop -/

section
variable [SF ℝ]

/-! ### Chi -/

theorem chi_loop1_eq (d : Chi) (p : ℝ) : ∀ (fuel : Nat) (low : ℝ),
    Chi.inverse_cdf.loop1 fuel p d low = Lemmas.Bisect.loop1 (Chi.cdf (α := ℝ) d) fuel p low := by
  intro fuel
  induction fuel with
  | zero => intro low; rfl
  | succ f ih =>
    intro low
    rw [Chi.inverse_cdf.loop1, Lemmas.Bisect.loop1]
    dsimp only
    rw [ih]

theorem chi_loop3_eq (d : Chi) (p : ℝ) : ∀ (fuel : Nat) (high : ℝ),
    Chi.inverse_cdf.loop3 fuel p d high = Lemmas.Bisect.loop3 (Chi.cdf (α := ℝ) d) fuel p high := by
  intro fuel
  induction fuel with
  | zero => intro high; rfl
  | succ f ih =>
    intro high
    rw [Chi.inverse_cdf.loop3, Lemmas.Bisect.loop3]
    dsimp only
    rw [ih]

theorem chi_loop5_eq (d : Chi) (p two : ℝ) : ∀ (fuel : Nat) (high low : ℝ) (i : Int),
    Chi.inverse_cdf.loop5 fuel p d two high low i =
      Lemmas.Bisect.loop5 (Chi.cdf (α := ℝ) d) fuel p two high low i := by
  intro fuel
  induction fuel with
  | zero => intro high low i; rfl
  | succ f ih =>
    intro high low i
    rw [Chi.inverse_cdf.loop5, Lemmas.Bisect.loop5]
    by_cases hi : i ≠ 0
    · rw [if_pos hi, if_pos hi]
      by_cases hb : p ≤ Chi.cdf (α := ℝ) d ((high + low) / two)
      · simp only [if_pos hb, ih]
      · simp only [if_neg hb, ih]
    · rw [if_neg hi, if_neg hi]

/-- the generated `Chi.inverse_cdf` is the abstract default bisection of `Statrs.Lemmas.Bisect` -/
theorem chi_inverse_cdf_eq_bisect (d : Chi) (p : ℝ) :
    Chi.inverse_cdf d p =
      Lemmas.Bisect.bisect (Chi.cdf (α := ℝ) d) (Chi.min (α := ℝ) d) (Chi.max (α := ℝ) d) p := by
  unfold Chi.inverse_cdf Lemmas.Bisect.bisect
  rfun_norm
  rw [show (0.0:ℝ) = 0 by norm_num, show (1.0:ℝ) = 1 by norm_num, show (1:ℝ) + 1 = 2 by norm_num]
  rw [chi_loop1_eq, chi_loop3_eq]
  simp only [chi_loop5_eq]
  split_ifs
  · rfl
  · rfl
  · generalize Lemmas.Bisect.loop1 (Chi.cdf (α := ℝ) d) loopFuel p (-2) = r1
    cases r1 with
    | ret v => rfl
    | hang => rfl
    | done low =>
      dsimp only
      generalize Lemmas.Bisect.loop3 (Chi.cdf (α := ℝ) d) loopFuel p 2 = r3
      cases r3 with
      | ret v => rfl
      | hang => rfl
      | done high =>
        dsimp only
        generalize Lemmas.Bisect.loop5 (Chi.cdf (α := ℝ) d) loopFuel p 2 high low 16 = r5
        cases r5 with
        | ret v => rfl
        | hang => rfl
        | done t => obtain ⟨h, l, i⟩ := t; rfl

/- The instantiation of the error bound for Chi (`chi_inverse_cdf_bisect_bound_rel`, relative to
   `IsQuantile (Chi.cdf d) p Q`) was REMOVED: the premise audit proved that premise unsatisfiable for the true
   special functions (`Props/Common/Witnesses_4.lean`: `chi_isQuantile_unsatisfiable_true` — over ℝ the
   generated `Chi.cdf d 0` takes the `x == ∞` branch because `RFun.inf = 0` is junk there), so the theorem
   was vacuous.  What remains for Chi is the structural identity `chi_inverse_cdf_eq_bisect` (the generated
   quantile IS the abstract default loop, to which `Lemmas.Bisect.bisect_bound` applies for any cdf with a
   quantile); the InverseGamma twin below is non-vacuous (`inverseGamma_isQuantile_witness`). -/

/-! ### InverseGamma -/

theorem inverse_gamma_loop1_eq (d : InverseGamma ℝ) (p : ℝ) : ∀ (fuel : Nat) (low : ℝ),
    InverseGamma.inverse_cdf.loop1 fuel p d low = Lemmas.Bisect.loop1 (InverseGamma.cdf d) fuel p low := by
  intro fuel
  induction fuel with
  | zero => intro low; rfl
  | succ f ih =>
    intro low
    rw [InverseGamma.inverse_cdf.loop1, Lemmas.Bisect.loop1]
    dsimp only
    rw [ih]

theorem inverse_gamma_loop3_eq (d : InverseGamma ℝ) (p : ℝ) : ∀ (fuel : Nat) (high : ℝ),
    InverseGamma.inverse_cdf.loop3 fuel p d high = Lemmas.Bisect.loop3 (InverseGamma.cdf d) fuel p high := by
  intro fuel
  induction fuel with
  | zero => intro high; rfl
  | succ f ih =>
    intro high
    rw [InverseGamma.inverse_cdf.loop3, Lemmas.Bisect.loop3]
    dsimp only
    rw [ih]

theorem inverse_gamma_loop5_eq (d : InverseGamma ℝ) (p two : ℝ) : ∀ (fuel : Nat) (high low : ℝ) (i : Int),
    InverseGamma.inverse_cdf.loop5 fuel p d two high low i =
      Lemmas.Bisect.loop5 (InverseGamma.cdf d) fuel p two high low i := by
  intro fuel
  induction fuel with
  | zero => intro high low i; rfl
  | succ f ih =>
    intro high low i
    rw [InverseGamma.inverse_cdf.loop5, Lemmas.Bisect.loop5]
    by_cases hi : i ≠ 0
    · rw [if_pos hi, if_pos hi]
      by_cases hb : p ≤ InverseGamma.cdf d ((high + low) / two)
      · simp only [if_pos hb, ih]
      · simp only [if_neg hb, ih]
    · rw [if_neg hi, if_neg hi]

/-- the generated `InverseGamma.inverse_cdf` is the abstract default bisection -/
theorem inverse_gamma_inverse_cdf_eq_bisect (d : InverseGamma ℝ) (p : ℝ) :
    InverseGamma.inverse_cdf d p =
      Lemmas.Bisect.bisect (InverseGamma.cdf d) (InverseGamma.min d) (InverseGamma.max d) p := by
  unfold InverseGamma.inverse_cdf Lemmas.Bisect.bisect
  rfun_norm
  rw [show (0.0:ℝ) = 0 by norm_num, show (1.0:ℝ) = 1 by norm_num, show (1:ℝ) + 1 = 2 by norm_num]
  rw [inverse_gamma_loop1_eq, inverse_gamma_loop3_eq]
  simp only [inverse_gamma_loop5_eq]
  split_ifs
  · rfl
  · rfl
  · generalize Lemmas.Bisect.loop1 (InverseGamma.cdf d) loopFuel p (-2) = r1
    cases r1 with
    | ret v => rfl
    | hang => rfl
    | done low =>
      dsimp only
      generalize Lemmas.Bisect.loop3 (InverseGamma.cdf d) loopFuel p 2 = r3
      cases r3 with
      | ret v => rfl
      | hang => rfl
      | done high =>
        dsimp only
        generalize Lemmas.Bisect.loop5 (InverseGamma.cdf d) loopFuel p 2 high low 16 = r5
        cases r5 with
        | ret v => rfl
        | hang => rfl
        | done t => obtain ⟨h, l, i⟩ := t; rfl

/-- InverseGamma (trait-default bisection), relative to `Q` being the `p`-quantile of the model's
    cdf: for `p ∈ (0,1)` and `|Q| ≤ 2^1024` the result is within `2⁻¹⁵·max(1,|Q|)` of `Q`. -/
theorem inverse_gamma_inverse_cdf_bisect_bound_rel (d : InverseGamma ℝ) (p Q : ℝ)
    (hQ : Lemmas.Bisect.IsQuantile (InverseGamma.cdf d) p Q) (hQb : |Q| ≤ 2 ^ 1024)
    (hp0 : 0 < p) (hp1 : p < 1) :
    |InverseGamma.inverse_cdf d p - Q| ≤ 2⁻¹ ^ 15 * max 1 |Q| := by
  rw [inverse_gamma_inverse_cdf_eq_bisect]
  exact Lemmas.Bisect.bisect_bound hQ _ _ hp0.ne' hp1.ne hQb

end

/-- non-vacuity of the premise structure `IsQuantile` used by the generic bound (abstract cdf: the
    Dirac cdf at 0 has the `1/2`-quantile 0 with `|0| ≤ 2^1024`; for Chi/InverseGamma the cdf goes
    through the abstract `SF.gamma_lr`/`SF.gamma_ur`, so satisfiability is a premise on `SF ℝ`) -/
example : ∃ (F : ℝ → ℝ) (p Q : ℝ), Lemmas.Bisect.IsQuantile F p Q ∧ |Q| ≤ 2 ^ 1024 ∧ 0 < p ∧ p < 1 :=
  ⟨Dirac.cdf (⟨0⟩ : Dirac ℝ), 1 / 2, 0, dirac_isQuantile ⟨0⟩ (1 / 2) (by norm_num) (by norm_num),
    by norm_num, by norm_num, by norm_num⟩

end Statrs.Props.C05
