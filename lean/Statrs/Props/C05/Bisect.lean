/-
  C05 — the trait-default bisection `inverse_cdf` (src/distribution/mod.rs:141), instantiated by the
  translator for Dirac (`Dirac.inverse_cdf`, `Dirac.inverse_cdf.loop1/3/5`).
  * `dirac_inverse_cdf_bisect_bound`: the generic error bound `2⁻¹⁵·max(1,|Q(p)|)` holds for Dirac
    (via the abstract algorithm and bound in `Statrs.Lemmas.Bisect`, reusable for Chi/InverseGamma).
  * `dirac_inverse_cdf_counterexample`: the other C05 clauses (result inside `[min,max]`,
    `cdf(inverse_cdf p) = p`) FAIL for Dirac.
-/
import Statrs.Real.Simp
import Statrs.Lemmas.Bisect
import Statrs.Gen.D_dirac
import Mathlib.Tactic
set_option linter.unusedVariables false
namespace Statrs.Props.C05
open Statrs Statrs.Gen

/-! ## the generated loops are the abstract bisection of `Statrs.Lemmas.Bisect` -/

theorem dirac_loop1_eq (d : Dirac ℝ) (p : ℝ) : ∀ (fuel : Nat) (low : ℝ),
    Dirac.inverse_cdf.loop1 fuel p d low = Lemmas.Bisect.loop1 (Dirac.cdf d) fuel p low := by
  intro fuel
  induction fuel with
  | zero => intro low; rfl
  | succ f ih =>
    intro low
    rw [Dirac.inverse_cdf.loop1, Lemmas.Bisect.loop1]
    dsimp only
    rw [ih]

theorem dirac_loop3_eq (d : Dirac ℝ) (p : ℝ) : ∀ (fuel : Nat) (high : ℝ),
    Dirac.inverse_cdf.loop3 fuel p d high = Lemmas.Bisect.loop3 (Dirac.cdf d) fuel p high := by
  intro fuel
  induction fuel with
  | zero => intro high; rfl
  | succ f ih =>
    intro high
    rw [Dirac.inverse_cdf.loop3, Lemmas.Bisect.loop3]
    dsimp only
    rw [ih]

theorem dirac_loop5_eq (d : Dirac ℝ) (p two : ℝ) : ∀ (fuel : Nat) (high low : ℝ) (i : Int),
    Dirac.inverse_cdf.loop5 fuel p d two high low i = Lemmas.Bisect.loop5 (Dirac.cdf d) fuel p two high low i := by
  intro fuel
  induction fuel with
  | zero => intro high low i; rfl
  | succ f ih =>
    intro high low i
    rw [Dirac.inverse_cdf.loop5, Lemmas.Bisect.loop5]
    by_cases hi : i ≠ 0
    · rw [if_pos hi, if_pos hi]
      by_cases hb : p ≤ Dirac.cdf d ((high + low) / two)
      · simp only [if_pos hb, ih]
      · simp only [if_neg hb, ih]
    · rw [if_neg hi, if_neg hi]

theorem dirac_inverse_cdf_eq_bisect (d : Dirac ℝ) (p : ℝ) :
    Dirac.inverse_cdf d p = Lemmas.Bisect.bisect (Dirac.cdf d) (Dirac.min d) (Dirac.max d) p := by
  unfold Dirac.inverse_cdf Lemmas.Bisect.bisect
  rfun_norm
  rw [show (0.0:ℝ) = 0 by norm_num, show (1.0:ℝ) = 1 by norm_num, show (1:ℝ) + 1 = 2 by norm_num]
  rw [dirac_loop1_eq, dirac_loop3_eq]
  simp only [dirac_loop5_eq]
  split_ifs
  · rfl
  · rfl
  · generalize Lemmas.Bisect.loop1 (Dirac.cdf d) loopFuel p (-2) = r1
    cases r1 with
    | ret v => rfl
    | hang => rfl
    | done low =>
      dsimp only
      generalize Lemmas.Bisect.loop3 (Dirac.cdf d) loopFuel p 2 = r3
      cases r3 with
      | ret v => rfl
      | hang => rfl
      | done high =>
        dsimp only
        generalize Lemmas.Bisect.loop5 (Dirac.cdf d) loopFuel p 2 high low 16 = r5
        cases r5 with
        | ret v => rfl
        | hang => rfl
        | done t => obtain ⟨h, l, i⟩ := t; rfl

/-- the atom `v` is the `p`-quantile of the Dirac cdf for every `p ∈ (0,1)` -/
theorem dirac_isQuantile (d : Dirac ℝ) (p : ℝ) (hp0 : 0 < p) (hp1 : p < 1) :
    Lemmas.Bisect.IsQuantile (Dirac.cdf d) p d.f_0 := by
  refine ⟨fun x hx => ?_, fun x hx => ?_, fun x hx => ?_⟩
  · unfold Dirac.cdf; rw [if_pos hx]; norm_num; exact hp0
  · unfold Dirac.cdf; rw [if_neg (not_lt.mpr hx)]; norm_num; exact hp1.le
  · unfold Dirac.cdf; rw [if_neg (not_lt.mpr hx.le)]; norm_num; exact hp1

/-- Dirac (trait-default bisection): for `p ∈ (0,1)` and a finite atom (`|v| ≤ 2^1024`, which keeps
    the doubling loops within their fuel) the result is within `2⁻¹⁵·max(1,|v|)` of the true
    quantile `Q(p) = v`. -/
theorem dirac_inverse_cdf_bisect_bound (d : Dirac ℝ) (hv : |d.f_0| ≤ 2 ^ 1024) (p : ℝ) (hp0 : 0 < p) (hp1 : p < 1) :
    |Dirac.inverse_cdf d p - d.f_0| ≤ 2⁻¹ ^ 15 * max 1 |d.f_0| := by
  rw [dirac_inverse_cdf_eq_bisect]
  exact Lemmas.Bisect.bisect_bound (dirac_isQuantile d p hp0 hp1) _ _ hp0.ne' hp1.ne hv

example : ∃ d : Dirac ℝ, |d.f_0| ≤ 2 ^ 1024 := ⟨⟨0⟩, by norm_num⟩

/-! ## …but the result is not inside `[min, max]` and does not invert the cdf -/

theorem dirac0_cdf (x : ℝ) : Dirac.cdf (⟨0⟩ : Dirac ℝ) x = if x < 0 then 0 else 1 := by
  unfold Dirac.cdf; norm_num

theorem dirac0_loop5 (p : ℝ) (hp : 0 < p) (n : Nat) : ∀ (fuel : Nat) (c : ℝ), 0 < c → n < fuel →
    Dirac.inverse_cdf.loop5 fuel p (⟨0⟩ : Dirac ℝ) 2 0 (-c) (n : Int) = LoopR.done (0, -c / 2 ^ n, 0) := by
  induction n with
  | zero =>
    intro fuel c hc hf
    obtain ⟨f, rfl⟩ : ∃ f, fuel = f + 1 := ⟨fuel - 1, by omega⟩
    rw [Dirac.inverse_cdf.loop5]
    simp
  | succ n ih =>
    intro fuel c hc hf
    obtain ⟨f, rfl⟩ : ∃ f, fuel = f + 1 := ⟨fuel - 1, by omega⟩
    rw [Dirac.inverse_cdf.loop5]
    have hi : ((n + 1 : Nat) : Int) ≠ 0 := by omega
    rw [if_pos hi]
    dsimp only
    rw [dirac0_cdf]
    have hmid : (0 + -c) / 2 < 0 := by linarith
    rw [if_pos hmid]
    have hnp : ¬ (p ≤ 0) := not_le.mpr hp
    simp only [if_neg hnp]
    have hi2 : ((n + 1 : Nat) : Int) - 1 = (n : Int) := by push_cast; ring
    rw [hi2]
    have hc2 : (0 + -c) / 2 = -(c / 2) := by ring
    rw [hc2, ih f (c / 2) (by linarith) (by omega)]
    congr 2
    rw [pow_succ]; field_simp

/-- value computed by the trait-default bisection for the point mass at 0 -/
theorem dirac0_inverse_cdf (p : ℝ) (hp0 : 0 < p) (hp1 : p < 1) :
    Dirac.inverse_cdf (⟨0⟩ : Dirac ℝ) p = -(1 / 32768) := by
  unfold Dirac.inverse_cdf
  have h0 : ¬ ((p == (0.0:ℝ)) = true) := by rw [real_beq]; norm_num; exact hp0.ne'
  have h1 : ¬ ((p == (1.0:ℝ)) = true) := by rw [real_beq]; norm_num; exact hp1.ne
  rw [if_neg h0, if_neg h1]
  dsimp only
  rw [show ((1.0:ℝ) + (1.0:ℝ)) = 2 by norm_num]
  have hf : loopFuel = 19999 + 1 := rfl
  -- first loop: cdf(-2) = 0 < p, exits immediately
  have l1 : Dirac.inverse_cdf.loop1 loopFuel p (⟨0⟩ : Dirac ℝ) (-2) = LoopR.done (-2) := by
    rw [hf, Dirac.inverse_cdf.loop1, dirac0_cdf, if_pos (show (-2:ℝ) < 0 by norm_num), if_neg (not_lt.mpr hp0.le)]
  -- second loop: cdf(2) = 1 ≥ p, exits immediately
  have l3 : Dirac.inverse_cdf.loop3 loopFuel p (⟨0⟩ : Dirac ℝ) 2 = LoopR.done 2 := by
    rw [hf, Dirac.inverse_cdf.loop3, dirac0_cdf, if_neg (show ¬ (2:ℝ) < 0 by norm_num), if_neg (not_lt.mpr hp1.le)]
  -- bisection: first step moves `high` to 0, the remaining 15 halve `low`
  have l5 : Dirac.inverse_cdf.loop5 loopFuel p (⟨0⟩ : Dirac ℝ) 2 2 (-2) 16 = LoopR.done (0, -2 / 2 ^ 15, 0) := by
    rw [hf, Dirac.inverse_cdf.loop5, if_pos (show (16:Int) ≠ 0 by norm_num)]
    dsimp only
    rw [dirac0_cdf, show ((2:ℝ) + -2) / 2 = 0 by norm_num, if_neg (lt_irrefl _), if_pos hp1.le]
    dsimp only
    have := dirac0_loop5 p hp0 15 19999 2 (by norm_num) (by norm_num)
    rw [show ((16:Int) - 1) = ((15:Nat):Int) by norm_num]
    exact this
  rw [l1]; dsimp only
  rw [l3]; dsimp only
  rw [l5]; dsimp only
  norm_num

/-- FINDING (C05 fails for Dirac): `Dirac` inherits the trait-default bisection `inverse_cdf`.
    For the point mass at 0 and every `p ∈ (0,1)` it returns `-2⁻¹⁵`, which is below
    `min() = max() = 0` (outside `[min,max]`), and `cdf(inverse_cdf p) = 0 ≠ p`.
    (All quantities are powers of two, so IEEE evaluation gives the same value.) -/
theorem dirac_inverse_cdf_counterexample :
    ∃ d : Dirac ℝ, ∀ p : ℝ, 0 < p → p < 1 →
      Dirac.inverse_cdf d p < Dirac.min d ∧ Dirac.cdf d (Dirac.inverse_cdf d p) ≠ p := by
  refine ⟨⟨0⟩, fun p hp0 hp1 => ?_⟩
  rw [dirac0_inverse_cdf p hp0 hp1]
  constructor
  · unfold Dirac.min; norm_num
  · rw [dirac0_cdf, if_pos (by norm_num)]; exact hp0.ne

end Statrs.Props.C05
