/-
  C05 (discrete clause) for Categorical.  `Categorical::inverse_cdf` (src/distribution/categorical.rs:203)
  does not use the trait default: it is `binary_index(&self.cdf, p · cdf_max)`, a lower-bound binary
  search in the (unnormalised) cumulative table `f_cdf`, and `Categorical::cdf(k) = f_cdf[k] / cdf_max`
  (`1` for `k ≥ K`).

  For EVERY non-decreasing table (weights `≥ 0`; zero-mass categories = repeated entries allowed) with
  positive last entry, length `≤ isize::MAX`, and `0 < p < 1`:
    * `categorical_inverse_cdf_eq_findIdx` — the result is the first index whose entry is `≥ p · cdf_max`;
    * `categorical_inverse_cdf_smallest`   — it is THE SMALLEST `k ≥ 0` with `cdf k ≥ p`
                                             (`IsLeast {k | 0 ≤ k ∧ p ≤ cdf k}`), and it is `< K`;
    * `categorical_inverse_cdf_quantile`   — `cdf j < p` for all `0 ≤ j < r`, `p ≤ cdf r`;
    * `categorical_inverse_cdf_le_iff`     — Galois connection `inverse_cdf p ≤ k ↔ p ≤ cdf k`;
    * `categorical_inverse_cdf_mono`       — non-decreasing in `p`;
    * `categorical_inverse_cdf_pos_mass`   — the result is never a zero-mass category
                                             (`f_cdf[r−1] < f_cdf[r]`, resp. `0 < f_cdf[0]`);
    * `…_new`                              — all hypotheses on the table are discharged for whatever
                                             `Categorical::new` returns (rel hand transcription
                                             `Model.Categorical.new`).
  History: before `binary_index` became a lower-bound search (three-way compare with early `return mid`
  on equality) a repeated entry equal to `p · cdf_max` could be hit in the middle of its run: table
  (1, 1, 1, 2), `p = 1/2` gave the zero-mass category 1; the smallest `k` with `cdf k ≥ 1/2` is 0, and
  that is what the code returns now (`categorical_inverse_cdf_repeated_entry`).
-/
import Statrs.Real.Simp
import Statrs.Lemmas.CategoricalSearch
import Statrs.Gen.D_categorical
import Mathlib.Tactic
set_option linter.unusedVariables false
namespace Statrs.Props.C05
open Statrs Statrs.Gen Statrs.Lemmas.CategoricalSearch

section categorical
variable (d : Categorical ℝ)

/-- `cdf_max` is the last entry of the table -/
theorem categorical_cdf_max_eq (hne : d.f_cdf ≠ []) :
    Categorical.cdf_max d = d.f_cdf.getLast hne := by
  unfold Categorical.cdf_max
  rw [List.getLast?_eq_some_getLast hne]; rfl

/-- `cdf k = f_cdf[k] / cdf_max` inside the table -/
theorem categorical_cdf_of_lt (k : ℕ) (hk : k < d.f_cdf.length) :
    Categorical.cdf d (k : ℤ) = d.f_cdf[k] / Categorical.cdf_max d := by
  unfold Categorical.cdf listLen listGet?
  rw [if_neg (by omega), if_neg (by omega), Int.toNat_natCast, List.getElem?_eq_getElem hk]
  rfl

/-- `cdf k = 1` from the table length on -/
theorem categorical_cdf_of_ge (k : ℤ) (hk : (d.f_cdf.length : ℤ) ≤ k) : Categorical.cdf d k = 1 := by
  unfold Categorical.cdf listLen
  rw [if_pos hk]; norm_num

/-- every entry is `≤` the last one in a non-decreasing table -/
theorem categorical_entry_le_max (hne : d.f_cdf ≠ []) (hs : d.f_cdf.Pairwise (· ≤ ·))
    (k : ℕ) (hk : k < d.f_cdf.length) : d.f_cdf[k] ≤ Categorical.cdf_max d := by
  rw [categorical_cdf_max_eq d hne, List.getLast_eq_getElem]
  rcases Nat.lt_or_ge k (d.f_cdf.length - 1) with h | h
  · exact List.pairwise_iff_getElem.mp hs k (d.f_cdf.length - 1) hk (by omega) h
  · have : k = d.f_cdf.length - 1 := by omega
    subst this; exact le_refl _

/-- `Categorical.cdf` is non-decreasing on `k ≥ 0` (non-decreasing table, positive last entry) -/
theorem categorical_cdf_mono (hne : d.f_cdf ≠ []) (hs : d.f_cdf.Pairwise (· ≤ ·))
    (hpos : 0 < Categorical.cdf_max d) (a b : ℤ) (ha : 0 ≤ a) (hab : a ≤ b) :
    Categorical.cdf d a ≤ Categorical.cdf d b := by
  obtain ⟨i, rfl⟩ := Int.eq_ofNat_of_zero_le ha
  obtain ⟨j, rfl⟩ := Int.eq_ofNat_of_zero_le (ha.trans hab)
  have hij : i ≤ j := by exact_mod_cast hab
  rcases Nat.lt_or_ge j d.f_cdf.length with hj | hj
  · have hi : i < d.f_cdf.length := by omega
    rw [categorical_cdf_of_lt d i hi, categorical_cdf_of_lt d j hj]
    apply div_le_div_of_nonneg_right _ hpos.le
    rcases Nat.lt_or_ge i j with h | h
    · exact List.pairwise_iff_getElem.mp hs i j hi hj h
    · have : i = j := by omega
      subst this; exact le_refl _
  · rw [categorical_cdf_of_ge d j (by exact_mod_cast hj)]
    rcases Nat.lt_or_ge i d.f_cdf.length with hi | hi
    · rw [categorical_cdf_of_lt d i hi, div_le_one hpos]
      exact categorical_entry_le_max d hne hs i hi
    · rw [categorical_cdf_of_ge d i (by exact_mod_cast hi)]

/-- `inverse_cdf p` is the lower-bound search for `p · cdf_max`: the FIRST index whose table entry is
    `≥ p · cdf_max` (non-decreasing table, repeated entries allowed, `0 < p < 1`) -/
theorem categorical_inverse_cdf_eq_findIdx (hs : d.f_cdf.Pairwise (· ≤ ·))
    (hn : (d.f_cdf.length : ℤ) ≤ i64Max) (p : ℝ) (hp0 : 0 < p) (hp1 : p < 1) :
    Categorical.inverse_cdf d p
      = ((d.f_cdf.findIdx (fun e => decide (p * Categorical.cdf_max d ≤ e)) : ℕ) : ℤ) := by
  unfold Categorical.inverse_cdf
  rw [if_neg (by
    rw [show (1.0 : ℝ) = 1 by norm_num, show (0.0 : ℝ) = 0 by norm_num]
    rintro (h | h) <;> linarith)]
  exact binary_index_spec _ _ hs hn

/-- the search result lies inside the table: `p · cdf_max < cdf_max` is reached by the last entry -/
theorem categorical_findIdx_lt (hne : d.f_cdf ≠ []) (hpos : 0 < Categorical.cdf_max d)
    (p : ℝ) (hp1 : p < 1) :
    d.f_cdf.findIdx (fun e => decide (p * Categorical.cdf_max d ≤ e)) < d.f_cdf.length := by
  rw [List.findIdx_lt_length]
  refine ⟨d.f_cdf.getLast hne, List.getLast_mem hne, ?_⟩
  rw [← categorical_cdf_max_eq d hne]
  have : p * Categorical.cdf_max d ≤ Categorical.cdf_max d := by nlinarith
  simpa using this

/-- C05 for Categorical: `inverse_cdf p` is THE SMALLEST `k ≥ 0` with `cdf k ≥ p` — for every
    non-decreasing table with positive last entry (zero-mass categories included), `0 < p < 1` -/
theorem categorical_inverse_cdf_smallest (hne : d.f_cdf ≠ []) (hs : d.f_cdf.Pairwise (· ≤ ·))
    (hpos : 0 < Categorical.cdf_max d) (hn : (d.f_cdf.length : ℤ) ≤ i64Max)
    (p : ℝ) (hp0 : 0 < p) (hp1 : p < 1) :
    IsLeast {k : ℤ | 0 ≤ k ∧ p ≤ Categorical.cdf d k} (Categorical.inverse_cdf d p)
      ∧ Categorical.inverse_cdf d p < (d.f_cdf.length : ℤ) := by
  rw [categorical_inverse_cdf_eq_findIdx d hs hn p hp0 hp1]
  have hlt := categorical_findIdx_lt d hne hpos p hp1
  set r := d.f_cdf.findIdx (fun e => decide (p * Categorical.cdf_max d ≤ e)) with hr
  refine ⟨⟨⟨by omega, ?_⟩, ?_⟩, by exact_mod_cast hlt⟩
  · rw [categorical_cdf_of_lt d r hlt, le_div_iff₀ hpos]
    have := List.findIdx_getElem (w := hlt)
    simpa using this
  · rintro k ⟨hk0, hk⟩
    obtain ⟨j, rfl⟩ := Int.eq_ofNat_of_zero_le hk0
    rcases Nat.lt_or_ge j d.f_cdf.length with hj | hj
    · rw [categorical_cdf_of_lt d j hj, le_div_iff₀ hpos] at hk
      by_contra hlt'
      have hjr : j < r := by
        have : (j : ℤ) < (r : ℤ) := not_le.mp hlt'
        exact_mod_cast this
      have := List.not_of_lt_findIdx hjr
      simp at this
      linarith
    · have : (r : ℤ) < (j : ℤ) := by exact_mod_cast lt_of_lt_of_le hlt hj
      exact this.le

/-- quantile form: the result `r` satisfies `0 ≤ r < K`, `p ≤ cdf r`, and `cdf j < p` for every
    `0 ≤ j < r` (in particular `cdf (r−1) < p ≤ cdf r` when `r ≥ 1`) -/
theorem categorical_inverse_cdf_quantile (hne : d.f_cdf ≠ []) (hs : d.f_cdf.Pairwise (· ≤ ·))
    (hpos : 0 < Categorical.cdf_max d) (hn : (d.f_cdf.length : ℤ) ≤ i64Max)
    (p : ℝ) (hp0 : 0 < p) (hp1 : p < 1) :
    0 ≤ Categorical.inverse_cdf d p ∧ Categorical.inverse_cdf d p < (d.f_cdf.length : ℤ)
      ∧ p ≤ Categorical.cdf d (Categorical.inverse_cdf d p)
      ∧ ∀ j : ℤ, 0 ≤ j → j < Categorical.inverse_cdf d p → Categorical.cdf d j < p := by
  obtain ⟨⟨⟨h0, hreach⟩, hleast⟩, hlt⟩ := categorical_inverse_cdf_smallest d hne hs hpos hn p hp0 hp1
  refine ⟨h0, hlt, hreach, ?_⟩
  intro j hj0 hjr
  by_contra hnot
  have := hleast ⟨hj0, not_lt.mp hnot⟩
  omega

/-- Galois connection between the quantile function and the cdf: `inverse_cdf p ≤ k ↔ p ≤ cdf k` -/
theorem categorical_inverse_cdf_le_iff (hne : d.f_cdf ≠ []) (hs : d.f_cdf.Pairwise (· ≤ ·))
    (hpos : 0 < Categorical.cdf_max d) (hn : (d.f_cdf.length : ℤ) ≤ i64Max)
    (p : ℝ) (hp0 : 0 < p) (hp1 : p < 1) (k : ℤ) (hk : 0 ≤ k) :
    Categorical.inverse_cdf d p ≤ k ↔ p ≤ Categorical.cdf d k := by
  obtain ⟨⟨⟨h0, hreach⟩, hleast⟩, _⟩ := categorical_inverse_cdf_smallest d hne hs hpos hn p hp0 hp1
  constructor
  · intro h
    exact hreach.trans (categorical_cdf_mono d hne hs hpos _ _ h0 h)
  · intro h
    exact hleast ⟨hk, h⟩

/-- `inverse_cdf` is non-decreasing in `p` on `(0, 1)` -/
theorem categorical_inverse_cdf_mono (hne : d.f_cdf ≠ []) (hs : d.f_cdf.Pairwise (· ≤ ·))
    (hpos : 0 < Categorical.cdf_max d) (hn : (d.f_cdf.length : ℤ) ≤ i64Max)
    (p q : ℝ) (hp0 : 0 < p) (hpq : p ≤ q) (hq1 : q < 1) :
    Categorical.inverse_cdf d p ≤ Categorical.inverse_cdf d q := by
  obtain ⟨⟨⟨h0, hreach⟩, _⟩, _⟩ :=
    categorical_inverse_cdf_smallest d hne hs hpos hn q (lt_of_lt_of_le hp0 hpq) hq1
  obtain ⟨⟨_, hleast⟩, _⟩ :=
    categorical_inverse_cdf_smallest d hne hs hpos hn p hp0 (lt_of_le_of_lt hpq hq1)
  exact hleast ⟨h0, hpq.trans hreach⟩

/-- the result is never a zero-mass category: the table strictly increases INTO index `r`
    (`f_cdf[r−1] < f_cdf[r]` for `r ≥ 1`, `0 < f_cdf[0]` for `r = 0`) -/
theorem categorical_inverse_cdf_pos_mass (hne : d.f_cdf ≠ []) (hs : d.f_cdf.Pairwise (· ≤ ·))
    (hpos : 0 < Categorical.cdf_max d) (hn : (d.f_cdf.length : ℤ) ≤ i64Max)
    (p : ℝ) (hp0 : 0 < p) (hp1 : p < 1) :
    ∃ r : ℕ, Categorical.inverse_cdf d p = (r : ℤ) ∧ ∃ hr : r < d.f_cdf.length,
      (r = 0 → 0 < d.f_cdf[r]) ∧ (∀ h : 1 ≤ r, d.f_cdf[r - 1] < d.f_cdf[r]) := by
  have hlt := categorical_findIdx_lt d hne hpos p hp1
  refine ⟨_, categorical_inverse_cdf_eq_findIdx d hs hn p hp0 hp1, hlt, ?_, ?_⟩
  · intro _
    have h1 := List.findIdx_getElem (w := hlt)
    have h2 : 0 < p * Categorical.cdf_max d := mul_pos hp0 hpos
    exact lt_of_lt_of_le h2 (by simpa using h1)
  · intro h
    have h1 := List.findIdx_getElem (w := hlt)
    have h3 := of_decide_eq_true h1
    have h4 := List.not_of_lt_findIdx
      (p := fun e => decide (p * Categorical.cdf_max d ≤ e)) (xs := d.f_cdf)
      (i := d.f_cdf.findIdx (fun e => decide (p * Categorical.cdf_max d ≤ e)) - 1) (by omega)
    simp at h4
    exact lt_of_lt_of_le h4 h3

/-! ### constructed objects: everything `Categorical::new` returns satisfies the table hypotheses -/

/-- rel(hand transcription `Model.Categorical.new`): for whatever `Categorical::new` accepts (masses
    `≥ 0` with positive sum, at most `isize::MAX` of them) and `0 < p < 1`, `inverse_cdf p` is the
    smallest `k ≥ 0` with `cdf k ≥ p`, and `k < K` -/
theorem categorical_inverse_cdf_smallest_new (m : List ℝ) (hnew : Model.Categorical.new m = .ok d)
    (hn : (m.length : ℤ) ≤ i64Max) (p : ℝ) (hp0 : 0 < p) (hp1 : p < 1) :
    IsLeast {k : ℤ | 0 ≤ k ∧ p ≤ Categorical.cdf d k} (Categorical.inverse_cdf d p)
      ∧ Categorical.inverse_cdf d p < (m.length : ℤ) := by
  obtain ⟨_, hsum, _, hne, hlen, hs, hlast⟩ := categorical_new_table m d hnew
  have hpos : 0 < Categorical.cdf_max d := by
    unfold Categorical.cdf_max; rw [hlast]; exact hsum
  rw [← hlen]
  exact categorical_inverse_cdf_smallest d hne hs hpos (by rw [hlen]; exact hn) p hp0 hp1

/-- rel(hand transcription): the quantile of a constructed object is a category of positive mass,
    `m[r] > 0` is visible in the table as a strict increase into `r` -/
theorem categorical_inverse_cdf_pos_mass_new (m : List ℝ) (hnew : Model.Categorical.new m = .ok d)
    (hn : (m.length : ℤ) ≤ i64Max) (p : ℝ) (hp0 : 0 < p) (hp1 : p < 1) :
    ∃ r : ℕ, Categorical.inverse_cdf d p = (r : ℤ) ∧ ∃ hr : r < d.f_cdf.length,
      (r = 0 → 0 < d.f_cdf[r]) ∧ (∀ h : 1 ≤ r, d.f_cdf[r - 1] < d.f_cdf[r]) := by
  obtain ⟨_, hsum, _, hne, hlen, hs, hlast⟩ := categorical_new_table m d hnew
  have hpos : 0 < Categorical.cdf_max d := by
    unfold Categorical.cdf_max; rw [hlast]; exact hsum
  exact categorical_inverse_cdf_pos_mass d hne hs hpos (by rw [hlen]; exact hn) p hp0 hp1

end categorical

/-! ### instances with zero-mass categories -/

/-- weights (1, 0, 0, 1), table (1, 1, 1, 2), `p = 1/2`: `cdf 0 = 1/2`, so the smallest `k` with
    `cdf k ≥ 1/2` is 0 — and `inverse_cdf` returns 0 (before the lower-bound fix: the zero-mass
    category 1) -/
theorem categorical_inverse_cdf_repeated_entry :
    Categorical.inverse_cdf (⟨[1 / 2, 0, 0, 1 / 2], [1, 1, 1, 2], [1, 1, 1, 0]⟩ : Categorical ℝ) (1 / 2) = 0 := by
  rw [categorical_inverse_cdf_eq_findIdx _ (by simp) (by simp [i64Max]) _ (by norm_num) (by norm_num)]
  norm_num [Categorical.cdf_max, unwrapO, List.findIdx_cons]

/-- same table, `p = 3/4`: the zero-mass categories 1, 2 are skipped, the quantile is 3 -/
theorem categorical_inverse_cdf_skips_zero_mass :
    Categorical.inverse_cdf (⟨[1 / 2, 0, 0, 1 / 2], [1, 1, 1, 2], [1, 1, 1, 0]⟩ : Categorical ℝ) (3 / 4) = 3 := by
  rw [categorical_inverse_cdf_eq_findIdx _ (by simp) (by simp [i64Max]) _ (by norm_num) (by norm_num)]
  norm_num [Categorical.cdf_max, unwrapO, List.findIdx_cons]

/-- non-vacuity: a table with a repeated entry meets every hypothesis; it is the table
    `Categorical::new(&[1.0, 0.0, 0.0, 1.0])` builds -/
example : ∃ d : Categorical ℝ, d.f_cdf ≠ [] ∧ d.f_cdf.Pairwise (· ≤ ·) ∧ ¬ d.f_cdf.Pairwise (· < ·) ∧
    0 < Categorical.cdf_max d ∧ (d.f_cdf.length : ℤ) ≤ i64Max ∧
    Model.Categorical.new ([1, 0, 0, 1] : List ℝ) = .ok d := by
  refine ⟨⟨[1 / 2, 0, 0, 1 / 2], [1, 1, 1, 2], [1, 1, 1, 0]⟩, by simp, by simp, by simp,
    by norm_num [Categorical.cdf_max, unwrapO], by simp [i64Max], ?_⟩
  unfold Model.Categorical.new
  norm_num [Model.Multinomial.newLoop, Model.prob_mass_to_cdf, D.categorical.cdf_to_sf,
    listGet?, usub, listLen, unwrapO]
  show ([1, 1, 1, 2] : List ℝ)[3]⁻¹ = 1 / 2
  norm_num

end Statrs.Props.C05
