/-
  C05 — closed-form quantiles: `cdf (inverse_cdf p) = p`, range, strict monotonicity
  (theorems over the regenerated model, carrier ℝ, under the constructor's acceptance
  predicate and `0 < p < 1`, which routes around the `panicV` branch of the generated code).
  Families: Uniform, Exp, Cauchy, Laplace, Gumbel, Pareto, Weibull, Triangular.
  "never NaN" has no content over ℝ and is not stated.  Range is stated against the finite
  bounds only (`Exp.max`, `Cauchy.min`, … are `RFun.inf`/`negInf`, junk over ℝ).
-/
import Statrs.Real.Simp
import Statrs.Lemmas.Quantile
import Statrs.Gen.D_uniform
import Statrs.Gen.D_exponential
import Statrs.Gen.D_cauchy
import Statrs.Gen.D_laplace
import Statrs.Gen.D_gumbel
import Statrs.Gen.D_pareto
import Statrs.Gen.D_triangular
import Statrs.Gen.D_weibull
import Mathlib.Tactic
set_option linter.unusedVariables false
namespace Statrs.Props.C05
open Statrs Statrs.Gen Statrs.Lemmas.Quantile

/-! ## Uniform -/

/-- closed form of the quantile on the open unit interval (routes around the `panicV` branch) -/
theorem uniform_inverse_cdf_eq (d : Uniform ℝ) (p : ℝ) (hp0 : 0 < p) (hp1 : p < 1) :
    Uniform.inverse_cdf d p = (d.f_max - d.f_min) * p + d.f_min := by
  unfold Uniform.inverse_cdf
  rfun_norm
  have h1 : ¬ ¬ ((0.0:ℝ) ≤ p ∧ p ≤ (1.0:ℝ)) := by norm_num; exact ⟨hp0.le, hp1.le⟩
  have h2 : ¬ p = (0.0:ℝ) := by norm_num; exact hp0.ne'
  have h3 : ¬ p = (1.0:ℝ) := by norm_num; exact hp1.ne
  rw [if_neg h1, if_neg h2, if_neg h3]

/-- Uniform: cdf ∘ inverse_cdf = id on (0,1) -/
theorem uniform_cdf_inverse_cdf (d : Uniform ℝ) (h : d.f_min < d.f_max) (p : ℝ) (hp0 : 0 < p) (hp1 : p < 1) :
    Uniform.cdf d (Uniform.inverse_cdf d p) = p := by
  rw [uniform_inverse_cdf_eq d p hp0 hp1]
  unfold Uniform.cdf
  have hw : 0 < d.f_max - d.f_min := by linarith
  have h1 : ¬ ((d.f_max - d.f_min) * p + d.f_min ≤ d.f_min) := by nlinarith
  have h2 : ¬ (d.f_max ≤ (d.f_max - d.f_min) * p + d.f_min) := by nlinarith
  rw [if_neg h1, if_neg h2]
  field_simp
  ring

/-- Uniform: the quantile lies in [min, max] -/
theorem uniform_inverse_cdf_mem (d : Uniform ℝ) (h : d.f_min < d.f_max) (p : ℝ) (hp0 : 0 < p) (hp1 : p < 1) :
    Uniform.min d ≤ Uniform.inverse_cdf d p ∧ Uniform.inverse_cdf d p ≤ Uniform.max d := by
  rw [uniform_inverse_cdf_eq d p hp0 hp1]
  unfold Uniform.min Uniform.max
  constructor <;> nlinarith

/-- Uniform: the quantile is strictly increasing on (0,1) -/
theorem uniform_inverse_cdf_strictMono (d : Uniform ℝ) (h : d.f_min < d.f_max) (p q : ℝ) (hp0 : 0 < p) (hpq : p < q) (hq1 : q < 1) :
    Uniform.inverse_cdf d p < Uniform.inverse_cdf d q := by
  rw [uniform_inverse_cdf_eq d p hp0 (by linarith), uniform_inverse_cdf_eq d q (by linarith) hq1]
  nlinarith

example : ∃ d : Uniform ℝ, d.f_min < d.f_max := ⟨⟨0, 1⟩, by norm_num⟩

/-! ## Exp -/

/-- Exp: closed form of the quantile on (0,1) (routes around the panic branch) -/
theorem exp_inverse_cdf_eq (d : Exp ℝ) (p : ℝ) :
    Exp.inverse_cdf d p = -Real.log (1 - p) / d.f_rate := by
  unfold Exp.inverse_cdf
  rfun_norm
  ring_nf

/-- Exp: cdf ∘ inverse_cdf = id on (0,1) -/
theorem exp_cdf_inverse_cdf (d : Exp ℝ) (h : 0 < d.f_rate) (p : ℝ) (hp0 : 0 < p) (hp1 : p < 1) :
    Exp.cdf d (Exp.inverse_cdf d p) = p := by
  rw [exp_inverse_cdf_eq]
  unfold Exp.cdf
  rfun_norm
  have hl : Real.log (1 - p) < 0 := Real.log_neg (by linarith) (by linarith)
  have h1 : ¬ (-Real.log (1 - p) / d.f_rate < (0.0:ℝ)) := by
    norm_num
    exact div_nonneg (by linarith) h.le
  rw [if_neg h1]
  have : -d.f_rate * (-Real.log (1 - p) / d.f_rate) = Real.log (1 - p) := by field_simp
  rw [this, Real.exp_log (by linarith)]
  norm_num

/-- Exp: the quantile respects the finite support bound(s) -/
theorem exp_inverse_cdf_mem (d : Exp ℝ) (h : 0 < d.f_rate) (p : ℝ) (_hp0 : 0 < p) (hp1 : p < 1) :
    Exp.min d ≤ Exp.inverse_cdf d p := by
  rw [exp_inverse_cdf_eq]
  unfold Exp.min
  have hl : Real.log (1 - p) < 0 := Real.log_neg (by linarith) (by linarith)
  norm_num
  exact div_nonneg (by linarith) h.le

/-- Exp: the quantile is strictly increasing on (0,1) -/
theorem exp_inverse_cdf_strictMono (d : Exp ℝ) (h : 0 < d.f_rate) (p q : ℝ) (hp0 : 0 < p) (hpq : p < q) (hq1 : q < 1) :
    Exp.inverse_cdf d p < Exp.inverse_cdf d q := by
  rw [exp_inverse_cdf_eq, exp_inverse_cdf_eq]
  have hl : Real.log (1 - q) < Real.log (1 - p) := Real.log_lt_log (by linarith) (by linarith)
  exact div_lt_div_of_pos_right (by linarith) h

example : ∃ d : Exp ℝ, 0 < d.f_rate := ⟨⟨1⟩, by norm_num⟩

/-! ## Cauchy -/

/-- Cauchy: closed form of the quantile on (0,1) (routes around the panic branch) -/
theorem cauchy_inverse_cdf_eq (d : Cauchy ℝ) (p : ℝ) (hp0 : 0 < p) (hp1 : p < 1) :
    Cauchy.inverse_cdf d p = d.f_location + d.f_scale * Real.tan (Real.pi * (p - 1/2)) := by
  unfold Cauchy.inverse_cdf
  rfun_norm
  have h1 : ¬ ¬ ((0.0:ℝ) ≤ p ∧ p ≤ (1.0:ℝ)) := by norm_num; exact ⟨hp0.le, hp1.le⟩
  rw [if_neg h1]
  norm_num

/-- Cauchy: cdf ∘ inverse_cdf = id on (0,1) -/
theorem cauchy_cdf_inverse_cdf (d : Cauchy ℝ) (h : 0 < d.f_scale) (p : ℝ) (hp0 : 0 < p) (hp1 : p < 1) :
    Cauchy.cdf d (Cauchy.inverse_cdf d p) = p := by
  rw [cauchy_inverse_cdf_eq d p hp0 hp1]
  unfold Cauchy.cdf
  rfun_norm
  have hpi := Real.pi_pos
  have e : (d.f_location + d.f_scale * Real.tan (Real.pi * (p - 1/2)) - d.f_location) / d.f_scale
      = Real.tan (Real.pi * (p - 1/2)) := by field_simp; ring
  rw [e, Real.arctan_tan (by nlinarith) (by nlinarith)]
  field_simp
  norm_num

/-- Cauchy: the quantile is strictly increasing on (0,1) -/
theorem cauchy_inverse_cdf_strictMono (d : Cauchy ℝ) (h : 0 < d.f_scale) (p q : ℝ) (hp0 : 0 < p) (hpq : p < q) (hq1 : q < 1) :
    Cauchy.inverse_cdf d p < Cauchy.inverse_cdf d q := by
  rw [cauchy_inverse_cdf_eq d p hp0 (by linarith), cauchy_inverse_cdf_eq d q (by linarith) hq1]
  have hpi := Real.pi_pos
  have : Real.tan (Real.pi * (p - 1/2)) < Real.tan (Real.pi * (q - 1/2)) :=
    Real.tan_lt_tan_of_lt_of_lt_pi_div_two (by nlinarith) (by nlinarith) (by nlinarith)
  nlinarith

example : ∃ d : Cauchy ℝ, 0 < d.f_scale := ⟨⟨0, 1⟩, by norm_num⟩

/-! ## Laplace -/

/-- Laplace: closed form of the quantile on (0,1) (routes around the panic branch) -/
theorem laplace_inverse_cdf_eq (d : Laplace ℝ) (p : ℝ) (hp0 : 0 < p) (hp1 : p < 1) :
    Laplace.inverse_cdf d p =
      if p ≤ 1/2 then d.f_location + d.f_scale * Real.log (2 * p)
      else d.f_location - d.f_scale * Real.log (2 - 2 * p) := by
  unfold Laplace.inverse_cdf
  rfun_norm
  have h1 : ¬ (p ≤ (0.0:ℝ) ∨ (1.0:ℝ) ≤ p) := by norm_num; exact ⟨hp0, hp1⟩
  rw [if_neg h1]
  norm_num

/-- Laplace: cdf ∘ inverse_cdf = id on (0,1) -/
theorem laplace_cdf_inverse_cdf (d : Laplace ℝ) (h : 0 < d.f_scale) (p : ℝ) (hp0 : 0 < p) (hp1 : p < 1) :
    Laplace.cdf d (Laplace.inverse_cdf d p) = p := by
  rw [laplace_inverse_cdf_eq d p hp0 hp1]
  unfold Laplace.cdf
  rfun_norm
  split_ifs with hp hx hx
  · -- p ≤ 1/2 and location ≤ x : forces log (2p) = 0
    have hl : Real.log (2 * p) ≤ 0 := Real.log_nonpos (by linarith) (by linarith)
    have hl0 : Real.log (2 * p) = 0 := by nlinarith
    rw [hl0]; norm_num
    have := Real.eq_one_of_pos_of_log_eq_zero (by linarith) hl0
    linarith
  · have hl : Real.log (2 * p) ≤ 0 := Real.log_nonpos (by linarith) (by linarith)
    have e : d.f_location + d.f_scale * Real.log (2 * p) - d.f_location = d.f_scale * Real.log (2 * p) := by ring
    rw [e, abs_of_nonpos (by nlinarith)]
    have e2 : - -(d.f_scale * Real.log (2 * p)) / d.f_scale = Real.log (2 * p) := by field_simp
    rw [e2, Real.exp_log (by linarith)]
    norm_num
  · have hl : Real.log (2 - 2 * p) < 0 := Real.log_neg (by linarith) (by linarith)
    have e : d.f_location - d.f_scale * Real.log (2 - 2 * p) - d.f_location = -(d.f_scale * Real.log (2 - 2 * p)) := by ring
    rw [e, abs_of_nonneg (by nlinarith)]
    have e2 : - -(d.f_scale * Real.log (2 - 2 * p)) / d.f_scale = Real.log (2 - 2 * p) := by field_simp
    rw [e2, Real.exp_log (by linarith)]
    norm_num; ring
  · exfalso
    have hl : Real.log (2 - 2 * p) < 0 := Real.log_neg (by linarith) (by linarith)
    apply hx; nlinarith

/-- Laplace: the quantile is strictly increasing on (0,1) -/
theorem laplace_inverse_cdf_strictMono (d : Laplace ℝ) (h : 0 < d.f_scale) (p q : ℝ) (hp0 : 0 < p) (hpq : p < q) (hq1 : q < 1) :
    Laplace.inverse_cdf d p < Laplace.inverse_cdf d q := by
  rw [laplace_inverse_cdf_eq d p hp0 (by linarith), laplace_inverse_cdf_eq d q (by linarith) hq1]
  split_ifs with h1 h2 h2
  · have : Real.log (2 * p) < Real.log (2 * q) := Real.log_lt_log (by linarith) (by linarith)
    nlinarith
  · have a : Real.log (2 * p) ≤ 0 := Real.log_nonpos (by linarith) (by linarith)
    have b : Real.log (2 - 2 * q) < 0 := Real.log_neg (by linarith) (by linarith)
    nlinarith
  · exfalso; linarith
  · have : Real.log (2 - 2 * q) < Real.log (2 - 2 * p) := Real.log_lt_log (by linarith) (by linarith)
    nlinarith

example : ∃ d : Laplace ℝ, 0 < d.f_scale := ⟨⟨0, 1⟩, by norm_num⟩

/-! ## Gumbel -/

/-- Gumbel: closed form of the quantile on (0,1) (routes around the panic branch) -/
theorem gumbel_inverse_cdf_eq (d : Gumbel ℝ) (p : ℝ) (hp0 : 0 < p) (hp1 : p < 1) :
    Gumbel.inverse_cdf d p = d.f_location - d.f_scale * Real.log (-Real.log p) := by
  unfold Gumbel.inverse_cdf
  rfun_norm
  have h1 : ¬ (p ≤ (0.0:ℝ)) := by norm_num; exact hp0
  have h2 : ¬ ((1.0:ℝ) ≤ p) := by norm_num; exact hp1
  rw [if_neg h1, if_neg h2]

/-- Gumbel: cdf ∘ inverse_cdf = id on (0,1) -/
theorem gumbel_cdf_inverse_cdf (d : Gumbel ℝ) (h : 0 < d.f_scale) (p : ℝ) (hp0 : 0 < p) (hp1 : p < 1) :
    Gumbel.cdf d (Gumbel.inverse_cdf d p) = p := by
  rw [gumbel_inverse_cdf_eq d p hp0 hp1]
  unfold Gumbel.cdf
  rfun_norm
  have hl : Real.log p < 0 := Real.log_neg hp0 hp1
  have e : -(d.f_location - d.f_scale * Real.log (-Real.log p) - d.f_location) / d.f_scale
      = Real.log (-Real.log p) := by field_simp; ring
  rw [e, Real.exp_log (by linarith), neg_neg, Real.exp_log hp0]

/-- Gumbel: the quantile is strictly increasing on (0,1) -/
theorem gumbel_inverse_cdf_strictMono (d : Gumbel ℝ) (h : 0 < d.f_scale) (p q : ℝ) (hp0 : 0 < p) (hpq : p < q) (hq1 : q < 1) :
    Gumbel.inverse_cdf d p < Gumbel.inverse_cdf d q := by
  rw [gumbel_inverse_cdf_eq d p hp0 (by linarith), gumbel_inverse_cdf_eq d q (by linarith) hq1]
  have a : Real.log p < Real.log q := Real.log_lt_log hp0 hpq
  have b : Real.log q < 0 := Real.log_neg (by linarith) hq1
  have : Real.log (-Real.log q) < Real.log (-Real.log p) := Real.log_lt_log (by linarith) (by linarith)
  nlinarith

example : ∃ d : Gumbel ℝ, 0 < d.f_scale := ⟨⟨0, 1⟩, by norm_num⟩

/-! ## Pareto -/

/-- Pareto: closed form of the quantile on (0,1) (routes around the panic branch) -/
theorem pareto_inverse_cdf_eq (d : Pareto ℝ) (p : ℝ) (hp0 : 0 < p) (hp1 : p < 1) :
    Pareto.inverse_cdf d p = d.f_scale * (1 - p) ^ (-1 / d.f_shape) := by
  unfold Pareto.inverse_cdf
  rfun_norm
  have h1 : ¬ ¬ ((0.0:ℝ) ≤ p ∧ p ≤ (1.0:ℝ)) := by norm_num; exact ⟨hp0.le, hp1.le⟩
  rw [if_neg h1]
  norm_num

theorem pareto_one_lt_factor (d : Pareto ℝ) (ha : 0 < d.f_shape) (p : ℝ) (hp0 : 0 < p) (hp1 : p < 1) :
    1 < (1 - p : ℝ) ^ (-1 / d.f_shape) := by
  apply Real.one_lt_rpow_of_pos_of_lt_one_of_neg (by linarith) (by linarith)
  exact div_neg_of_neg_of_pos (by norm_num) ha

/-- Pareto: the quantile respects the finite support bound(s) -/
theorem pareto_inverse_cdf_mem (d : Pareto ℝ) (hs : 0 < d.f_scale) (ha : 0 < d.f_shape) (p : ℝ) (hp0 : 0 < p) (hp1 : p < 1) :
    Pareto.min d ≤ Pareto.inverse_cdf d p := by
  rw [pareto_inverse_cdf_eq d p hp0 hp1]
  unfold Pareto.min
  have := pareto_one_lt_factor d ha p hp0 hp1
  nlinarith

/-- Pareto: cdf ∘ inverse_cdf = id on (0,1) -/
theorem pareto_cdf_inverse_cdf (d : Pareto ℝ) (hs : 0 < d.f_scale) (ha : 0 < d.f_shape) (p : ℝ) (hp0 : 0 < p) (hp1 : p < 1) :
    Pareto.cdf d (Pareto.inverse_cdf d p) = p := by
  rw [pareto_inverse_cdf_eq d p hp0 hp1]
  unfold Pareto.cdf
  rfun_norm
  have hf := pareto_one_lt_factor d ha p hp0 hp1
  have h1 : ¬ (d.f_scale * (1 - p) ^ (-1 / d.f_shape) < d.f_scale) := by nlinarith
  rw [if_neg h1]
  have hq : (0:ℝ) < 1 - p := by linarith
  have e : d.f_scale / (d.f_scale * (1 - p) ^ (-1 / d.f_shape)) = (1 - p) ^ (1 / d.f_shape) := by
    rw [show (-1 / d.f_shape) = -(1 / d.f_shape) by ring, Real.rpow_neg hq.le]
    field_simp
  rw [e, ← Real.rpow_mul hq.le]
  have : 1 / d.f_shape * d.f_shape = 1 := by field_simp
  rw [this, Real.rpow_one]
  norm_num

/-- Pareto: the quantile is strictly increasing on (0,1) -/
theorem pareto_inverse_cdf_strictMono (d : Pareto ℝ) (hs : 0 < d.f_scale) (ha : 0 < d.f_shape) (p q : ℝ) (hp0 : 0 < p) (hpq : p < q) (hq1 : q < 1) :
    Pareto.inverse_cdf d p < Pareto.inverse_cdf d q := by
  rw [pareto_inverse_cdf_eq d p hp0 (by linarith), pareto_inverse_cdf_eq d q (by linarith) hq1]
  have hneg : -1 / d.f_shape < 0 := div_neg_of_neg_of_pos (by norm_num) ha
  have : (1 - p : ℝ) ^ (-1 / d.f_shape) < (1 - q) ^ (-1 / d.f_shape) :=
    Real.rpow_lt_rpow_of_neg (by linarith) (by linarith) hneg
  nlinarith

example : ∃ d : Pareto ℝ, 0 < d.f_scale ∧ 0 < d.f_shape := ⟨⟨1, 1⟩, by norm_num⟩

/-! ## Weibull
The constructor stores `scale^(-shape)` in the field `f_scale_pow_shape_inv`; the hypothesis `hi` records that. -/

/-- Weibull: closed form of the quantile on (0,1) (routes around the panic branch) -/
theorem weibull_inverse_cdf_eq (d : Weibull ℝ) (p : ℝ) (hp0 : 0 < p) (hp1 : p < 1) :
    Weibull.inverse_cdf d p = (-(Real.log (1 - p) / d.f_scale_pow_shape_inv)) ^ (1 / d.f_shape) := by
  unfold Weibull.inverse_cdf
  rfun_norm
  have h1 : ¬ ¬ ((0.0:ℝ) ≤ p ∧ p ≤ (1.0:ℝ)) := by norm_num; exact ⟨hp0.le, hp1.le⟩
  rw [if_neg h1]
  norm_num
  ring_nf

theorem weibull_base_pos (d : Weibull ℝ) (hk : 0 < d.f_shape) (hs : 0 < d.f_scale)
    (hi : d.f_scale_pow_shape_inv = d.f_scale ^ (-d.f_shape)) (p : ℝ) (hp0 : 0 < p) (hp1 : p < 1) :
    0 < -(Real.log (1 - p) / d.f_scale_pow_shape_inv) := by
  have hl : Real.log (1 - p) < 0 := Real.log_neg (by linarith) (by linarith)
  have : 0 < d.f_scale_pow_shape_inv := by rw [hi]; exact Real.rpow_pos_of_pos hs _
  rw [neg_pos]
  exact div_neg_of_neg_of_pos hl this

/-- Weibull: the quantile respects the finite support bound(s) -/
theorem weibull_inverse_cdf_mem (d : Weibull ℝ) (hk : 0 < d.f_shape) (hs : 0 < d.f_scale)
    (hi : d.f_scale_pow_shape_inv = d.f_scale ^ (-d.f_shape)) (p : ℝ) (hp0 : 0 < p) (hp1 : p < 1) :
    Weibull.min d ≤ Weibull.inverse_cdf d p := by
  rw [weibull_inverse_cdf_eq d p hp0 hp1]
  unfold Weibull.min
  norm_num
  exact Real.rpow_nonneg (weibull_base_pos d hk hs hi p hp0 hp1).le _

/-- Weibull: cdf ∘ inverse_cdf = id on (0,1) -/
theorem weibull_cdf_inverse_cdf (d : Weibull ℝ) (hk : 0 < d.f_shape) (hs : 0 < d.f_scale)
    (hi : d.f_scale_pow_shape_inv = d.f_scale ^ (-d.f_shape)) (p : ℝ) (hp0 : 0 < p) (hp1 : p < 1) :
    Weibull.cdf d (Weibull.inverse_cdf d p) = p := by
  rw [weibull_inverse_cdf_eq d p hp0 hp1]
  have hb := weibull_base_pos d hk hs hi p hp0 hp1
  unfold Weibull.cdf
  rfun_norm
  have h1 : ¬ ((-(Real.log (1 - p) / d.f_scale_pow_shape_inv)) ^ (1 / d.f_shape) < (0.0:ℝ)) := by
    norm_num
    exact Real.rpow_nonneg hb.le _
  rw [if_neg h1, ← Real.rpow_mul hb.le]
  have : 1 / d.f_shape * d.f_shape = 1 := by field_simp
  rw [this, Real.rpow_one]
  have hpos : 0 < d.f_scale_pow_shape_inv := by rw [hi]; exact Real.rpow_pos_of_pos hs _
  have e : - -(Real.log (1 - p) / d.f_scale_pow_shape_inv) * d.f_scale_pow_shape_inv = Real.log (1 - p) := by
    field_simp
  rw [e, Real.exp_log (by linarith)]
  ring

/-- Weibull: the quantile is strictly increasing on (0,1) -/
theorem weibull_inverse_cdf_strictMono (d : Weibull ℝ) (hk : 0 < d.f_shape) (hs : 0 < d.f_scale)
    (hi : d.f_scale_pow_shape_inv = d.f_scale ^ (-d.f_shape)) (p q : ℝ) (hp0 : 0 < p) (hpq : p < q) (hq1 : q < 1) :
    Weibull.inverse_cdf d p < Weibull.inverse_cdf d q := by
  rw [weibull_inverse_cdf_eq d p hp0 (by linarith), weibull_inverse_cdf_eq d q (by linarith) hq1]
  have hb := weibull_base_pos d hk hs hi p hp0 (by linarith)
  have hpos : 0 < d.f_scale_pow_shape_inv := by rw [hi]; exact Real.rpow_pos_of_pos hs _
  have hl : Real.log (1 - q) < Real.log (1 - p) := Real.log_lt_log (by linarith) (by linarith)
  apply Real.rpow_lt_rpow hb.le
  · rw [neg_lt_neg_iff]; exact div_lt_div_of_pos_right hl hpos
  · positivity

example : ∃ d : Weibull ℝ, 0 < d.f_shape ∧ 0 < d.f_scale ∧ d.f_scale_pow_shape_inv = d.f_scale ^ (-d.f_shape) :=
  ⟨⟨1, 1, 1⟩, by norm_num⟩

/-! ## Triangular (constructor: min ≤ mode ≤ max, min ≠ max) -/

/-- Triangular: closed form of the quantile on (0,1) (routes around the panic branch) -/
theorem triangular_inverse_cdf_eq (d : Triangular ℝ) (p : ℝ) (hp0 : 0 < p) (hp1 : p < 1) :
    Triangular.inverse_cdf d p =
      if p < (d.f_mode - d.f_min) / (d.f_max - d.f_min)
      then d.f_min + Real.sqrt ((d.f_mode - d.f_min) * (d.f_max - d.f_min) * p)
      else d.f_max - Real.sqrt ((d.f_max - d.f_min) * (d.f_max - d.f_mode) * (1 - p)) := by
  unfold Triangular.inverse_cdf
  rfun_norm
  have h1 : ¬ ¬ ((0.0:ℝ) ≤ p ∧ p ≤ (1.0:ℝ)) := by norm_num; exact ⟨hp0.le, hp1.le⟩
  simp only [if_neg h1]
  norm_num

/-- Triangular: cdf ∘ inverse_cdf = id on (0,1) -/
theorem triangular_cdf_inverse_cdf (d : Triangular ℝ) (h1 : d.f_min ≤ d.f_mode) (h2 : d.f_mode ≤ d.f_max)
    (h3 : d.f_min ≠ d.f_max) (p : ℝ) (hp0 : 0 < p) (hp1 : p < 1) :
    Triangular.cdf d (Triangular.inverse_cdf d p) = p := by
  rw [triangular_inverse_cdf_eq d p hp0 hp1]
  have hab : d.f_min < d.f_max := lt_of_le_of_ne (h1.trans h2) h3
  unfold Triangular.cdf
  simp only []
  by_cases hb : p < (d.f_mode - d.f_min) / (d.f_max - d.f_min)
  · simp only [if_pos hb]
    obtain ⟨hac, hs0, hs1⟩ := tri_lower _ _ _ p hab hp0 hb
    rw [if_neg (by linarith), if_pos (by linarith)]
    have : (d.f_min + Real.sqrt ((d.f_mode - d.f_min) * (d.f_max - d.f_min) * p) - d.f_min) = Real.sqrt ((d.f_mode - d.f_min) * (d.f_max - d.f_min) * p) := by ring
    rw [this, Real.mul_self_sqrt (by have : 0 < d.f_mode - d.f_min := by linarith
                                     have : 0 < d.f_max - d.f_min := by linarith
                                     positivity)]
    have : d.f_mode - d.f_min ≠ 0 := by linarith
    have : d.f_max - d.f_min ≠ 0 := by linarith
    field_simp
  · simp only [if_neg hb]
    obtain ⟨hcb, hs0, hs1⟩ := tri_upper _ _ _ p hab h2 hp1 hb
    have hnn : 0 ≤ (d.f_max - d.f_min) * (d.f_max - d.f_mode) * (1 - p) := by
      have : 0 < d.f_max - d.f_min := by linarith
      have : 0 < d.f_max - d.f_mode := by linarith
      have : 0 < 1 - p := by linarith
      positivity
    have hlt : Real.sqrt ((d.f_max - d.f_min) * (d.f_max - d.f_mode) * (1 - p)) < d.f_max - d.f_min := by
      rw [Real.sqrt_lt' (by linarith)]
      have : 0 < d.f_max - d.f_min := by linarith
      have : (d.f_max - d.f_mode) * (1 - p) < d.f_max - d.f_min := by nlinarith
      nlinarith
    rw [if_neg (by linarith)]
    by_cases hx : d.f_max - Real.sqrt ((d.f_max - d.f_min) * (d.f_max - d.f_mode) * (1 - p)) ≤ d.f_mode
    · rw [if_pos hx]
      have hs : Real.sqrt ((d.f_max - d.f_min) * (d.f_max - d.f_mode) * (1 - p)) = d.f_max - d.f_mode := by linarith
      have hsq := Real.mul_self_sqrt hnn
      rw [hs] at hsq ⊢
      have hba : d.f_max - d.f_min ≠ 0 := by linarith
      have hbc : d.f_max - d.f_mode ≠ 0 := by linarith
      have hp : 1 - p = (d.f_max - d.f_mode) / (d.f_max - d.f_min) := by
        field_simp
        have : (d.f_max - d.f_mode) * ((d.f_max - d.f_min) * (1 - p)) = (d.f_max - d.f_mode) * (d.f_max - d.f_mode) := by linarith
        have := mul_left_cancel₀ hbc this
        linarith
      have hca : d.f_mode - d.f_min ≠ 0 := by
        intro h0
        have : d.f_mode = d.f_min := by linarith
        rw [this] at hp
        have : (d.f_max - d.f_min) / (d.f_max - d.f_min) = 1 := div_self hba
        linarith
      have hpp : p = (d.f_mode - d.f_min) / (d.f_max - d.f_min) := by
        have : p = 1 - (d.f_max - d.f_mode) / (d.f_max - d.f_min) := by linarith
        rw [this]; field_simp; ring
      rw [hpp]
      field_simp
      ring
    · rw [if_neg hx, if_pos (by linarith)]
      have : d.f_max - (d.f_max - Real.sqrt ((d.f_max - d.f_min) * (d.f_max - d.f_mode) * (1 - p))) = Real.sqrt ((d.f_max - d.f_min) * (d.f_max - d.f_mode) * (1 - p)) := by ring
      rw [this, Real.mul_self_sqrt hnn]
      have hba : d.f_max - d.f_min ≠ 0 := by linarith
      have hbc : d.f_max - d.f_mode ≠ 0 := by linarith
      field_simp
      norm_num

/-- Triangular: the quantile respects the finite support bound(s) -/
theorem triangular_inverse_cdf_mem (d : Triangular ℝ) (h1 : d.f_min ≤ d.f_mode) (h2 : d.f_mode ≤ d.f_max)
    (h3 : d.f_min ≠ d.f_max) (p : ℝ) (hp0 : 0 < p) (hp1 : p < 1) :
    Triangular.min d ≤ Triangular.inverse_cdf d p ∧ Triangular.inverse_cdf d p ≤ Triangular.max d := by
  rw [triangular_inverse_cdf_eq d p hp0 hp1]
  have hab : d.f_min < d.f_max := lt_of_le_of_ne (h1.trans h2) h3
  unfold Triangular.min Triangular.max
  split_ifs with hb
  · obtain ⟨hac, hs0, hs1⟩ := tri_lower _ _ _ p hab hp0 hb
    constructor <;> linarith
  · obtain ⟨hcb, hs0, hs1⟩ := tri_upper _ _ _ p hab h2 hp1 hb
    constructor <;> linarith

/-- Triangular: the quantile is strictly increasing on (0,1) -/
theorem triangular_inverse_cdf_strictMono (d : Triangular ℝ) (h1 : d.f_min ≤ d.f_mode) (h2 : d.f_mode ≤ d.f_max)
    (h3 : d.f_min ≠ d.f_max) (p q : ℝ) (hp0 : 0 < p) (hpq : p < q) (hq1 : q < 1) :
    Triangular.inverse_cdf d p < Triangular.inverse_cdf d q := by
  rw [triangular_inverse_cdf_eq d p hp0 (by linarith), triangular_inverse_cdf_eq d q (by linarith) hq1]
  have hab : d.f_min < d.f_max := lt_of_le_of_ne (h1.trans h2) h3
  have hba : 0 < d.f_max - d.f_min := by linarith
  split_ifs with ha hb hb
  · obtain ⟨hac, _, _⟩ := tri_lower _ _ _ p hab hp0 ha
    have : Real.sqrt ((d.f_mode - d.f_min) * (d.f_max - d.f_min) * p) < Real.sqrt ((d.f_mode - d.f_min) * (d.f_max - d.f_min) * q) := by
      apply Real.sqrt_lt_sqrt
      · have : 0 < d.f_mode - d.f_min := by linarith
        positivity
      · have : 0 < (d.f_mode - d.f_min) * (d.f_max - d.f_min) := by
          have : 0 < d.f_mode - d.f_min := by linarith
          positivity
        nlinarith
    linarith
  · obtain ⟨_, _, hs1⟩ := tri_lower _ _ _ p hab hp0 ha
    obtain ⟨_, _, hs2⟩ := tri_upper _ _ _ q hab h2 hq1 hb
    linarith
  · exfalso; linarith
  · obtain ⟨hcb, _, _⟩ := tri_upper _ _ _ q hab h2 hq1 hb
    have : Real.sqrt ((d.f_max - d.f_min) * (d.f_max - d.f_mode) * (1 - q)) < Real.sqrt ((d.f_max - d.f_min) * (d.f_max - d.f_mode) * (1 - p)) := by
      apply Real.sqrt_lt_sqrt
      · have : 0 < d.f_max - d.f_mode := by linarith
        have : 0 < 1 - q := by linarith
        positivity
      · have : 0 < (d.f_max - d.f_min) * (d.f_max - d.f_mode) := by
          have : 0 < d.f_max - d.f_mode := by linarith
          positivity
        nlinarith
    linarith

example : ∃ d : Triangular ℝ, d.f_min ≤ d.f_mode ∧ d.f_mode ≤ d.f_max ∧ d.f_min ≠ d.f_max :=
  ⟨⟨0, 1, 0⟩, by norm_num⟩

end Statrs.Props.C05
