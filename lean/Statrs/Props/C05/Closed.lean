import Statrs.Real.Simp
import Statrs.Gen.D_uniform
import Statrs.Gen.D_exponential
import Statrs.Gen.D_cauchy
import Statrs.Gen.D_laplace
import Statrs.Gen.D_gumbel
import Statrs.Gen.D_pareto
import Statrs.Gen.D_triangular
import Statrs.Gen.D_weibull
import Mathlib.Tactic
namespace Statrs.Props.C05
open Statrs Statrs.Gen

theorem uniform_cdf_inverse_cdf (d : Uniform ℝ) (h : d.f_min < d.f_max) (p : ℝ) (hp0 : 0 < p) (hp1 : p < 1) :
    Uniform.cdf d (Uniform.inverse_cdf d p) = p := by
  unfold Uniform.cdf Uniform.inverse_cdf
  rfun_norm
  norm_num
  sorry

end Statrs.Props.C05
