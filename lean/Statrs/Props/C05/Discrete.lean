/-
  C05 (discrete clause) — for discrete families `inverse_cdf(p)` is the smallest `k` with
  `cdf(k) ≥ p`.  The three families here (DiscreteUniform, Bernoulli, Geometric) all use the
  trait-default `DiscreteCDF::inverse_cdf` (doubling loop + `internal::integral_bisection_search`);
  the algorithm is analysed once in `Statrs.Lemmas.IntBisect` and each family is connected to it by
  `X_inverse_cdf_eq_dinv`.  The analysis needs only that the cdf is non-decreasing (`Adm`): since the
  early exit `f(ub) == z` was removed from `integral_bisection_search`, plateaus are handled.  Carrier ℝ, `0 < p < 1` (this routes around the panic branch), under the
  constructor's acceptance predicate plus the range hypotheses named in each statement (they bound
  the number of loop iterations by the fuel and hold for every `i64`/`u64` value).
-/
import Statrs.Real.Simp
import Statrs.Lemmas.IntBisect
import Statrs.Gen.D_bernoulli
import Statrs.Gen.D_discrete_uniform
import Statrs.Gen.D_geometric
import Mathlib.Tactic
set_option linter.unusedVariables false
namespace Statrs.Props.C05
open Statrs Statrs.Gen Statrs.Lemmas.IntBisect

/-! ## DiscreteUniform -/

theorem discrete_uniform_loop1_eq (d : DiscreteUniform) (p : ℝ) (two : Int) : ∀ (fuel : Nat) (ub : Int),
    DiscreteUniform.inverse_cdf.loop1 fuel p d two ub = dloop (DiscreteUniform.cdf (α := ℝ) d) fuel p two ub := by
  intro fuel
  induction fuel with
  | zero => intro ub; rfl
  | succ f ih =>
    intro ub
    rw [DiscreteUniform.inverse_cdf.loop1, dloop]
    split_ifs
    · exact ih _
    · rfl

theorem discrete_uniform_inverse_cdf_eq_dinv (d : DiscreteUniform) (p : ℝ) :
    DiscreteUniform.inverse_cdf d p =
      dinv (DiscreteUniform.cdf (α := ℝ) d) (DiscreteUniform.min (α := ℝ) d) (DiscreteUniform.max (α := ℝ) d) p := by
  unfold DiscreteUniform.inverse_cdf dinv
  rfun_norm
  rw [show (0.0:ℝ) = 0 by norm_num, show (1.0:ℝ) = 1 by norm_num, show ((1:Int) + 1) = 2 by norm_num]
  rw [discrete_uniform_loop1_eq]
  split_ifs
  · rfl
  · rfl
  · rfl
  · generalize dloop (DiscreteUniform.cdf (α := ℝ) d) loopFuel p 2 2 = r
    cases r <;> rfl

/-- the cdf as a clamped affine function -/
theorem discrete_uniform_cdf_clamp (d : DiscreteUniform) (h : d.f_min ≤ d.f_max) (x : Int) :
    DiscreteUniform.cdf (α := ℝ) d x =
      max 0 (min 1 (((x : ℝ) - d.f_min + 1) / ((d.f_max : ℝ) - d.f_min + 1))) := by
  have hab : (d.f_min : ℝ) ≤ d.f_max := by exact_mod_cast h
  have hden : (0:ℝ) < (d.f_max : ℝ) - d.f_min + 1 := by linarith
  unfold DiscreteUniform.cdf
  rfun_norm
  rw [show (0.0:ℝ) = 0 by norm_num, show (1.0:ℝ) = 1 by norm_num]
  by_cases h1 : x < d.f_min
  · rw [if_pos h1]
    have : (x : ℝ) - d.f_min + 1 ≤ 0 := by
      have : ((x + 1 : Int) : ℝ) ≤ (d.f_min : ℝ) := by exact_mod_cast (show x + 1 ≤ d.f_min by omega)
      push_cast at this; linarith
    have : ((x : ℝ) - d.f_min + 1) / ((d.f_max : ℝ) - d.f_min + 1) ≤ 0 :=
      div_nonpos_of_nonpos_of_nonneg this hden.le
    rw [max_eq_left ((min_le_right _ _).trans this)]
  · rw [if_neg h1]
    have ha : (d.f_min : ℝ) ≤ x := by exact_mod_cast not_lt.mp h1
    by_cases h2 : d.f_max ≤ x
    · rw [if_pos h2]
      have hb : (d.f_max : ℝ) ≤ x := by exact_mod_cast h2
      have : 1 ≤ ((x : ℝ) - d.f_min + 1) / ((d.f_max : ℝ) - d.f_min + 1) := by
        rw [le_div_iff₀ hden]; linarith
      rw [min_eq_left this, max_eq_right (by norm_num)]
    · rw [if_neg h2]
      have hb : (x : ℝ) < d.f_max := by exact_mod_cast not_le.mp h2
      have h01 : ((x : ℝ) - d.f_min + 1) / ((d.f_max : ℝ) - d.f_min + 1) ≤ 1 := by
        rw [div_le_one hden]; linarith
      have h00 : 0 ≤ ((x : ℝ) - d.f_min + 1) / ((d.f_max : ℝ) - d.f_min + 1) :=
        div_nonneg (by linarith) hden.le
      rw [if_neg (not_lt.mpr h01), min_eq_right h01, max_eq_right h00]

/-- the DiscreteUniform cdf is non-decreasing (all the default `inverse_cdf` needs) -/
theorem discrete_uniform_adm (d : DiscreteUniform) (h : d.f_min ≤ d.f_max) (B : Int) :
    Adm (DiscreteUniform.cdf (α := ℝ) d) B := by
  have hab : (d.f_min : ℝ) ≤ d.f_max := by exact_mod_cast h
  have hden : (0:ℝ) < (d.f_max : ℝ) - d.f_min + 1 := by linarith
  constructor
  intro a b _ hle
  rw [discrete_uniform_cdf_clamp d h, discrete_uniform_cdf_clamp d h]
  apply max_le_max le_rfl
  apply min_le_min le_rfl
  apply div_le_div_of_nonneg_right _ hden.le
  have : (a : ℝ) ≤ b := by exact_mod_cast hle
  linarith

/-- the DiscreteUniform cdf has no plateau at a level `0 < p < 1` (no longer needed by the
    `inverse_cdf` theorems — the default bisection now handles plateaus — kept as a fact about the cdf) -/
theorem discrete_uniform_cdf_noflat (d : DiscreteUniform) (h : d.f_min ≤ d.f_max) (p : ℝ) (hp0 : 0 < p) (hp1 : p < 1)
    (k : Int) (hk : DiscreteUniform.cdf (α := ℝ) d k = p) : DiscreteUniform.cdf (α := ℝ) d (k - 1) < p := by
  have hab : (d.f_min : ℝ) ≤ d.f_max := by exact_mod_cast h
  have hden : (0:ℝ) < (d.f_max : ℝ) - d.f_min + 1 := by linarith
  rw [discrete_uniform_cdf_clamp d h] at hk ⊢
  have hg : min 1 (((k : ℝ) - d.f_min + 1) / ((d.f_max : ℝ) - d.f_min + 1)) ≤ p := by
    rw [← hk]; exact le_max_right _ _
  have hg' : ((k : ℝ) - d.f_min + 1) / ((d.f_max : ℝ) - d.f_min + 1) ≤ p := by
    rcases min_le_iff.mp hg with h1 | h1
    · linarith
    · exact h1
  have hlt : (((k - 1 : Int) : ℝ) - d.f_min + 1) / ((d.f_max : ℝ) - d.f_min + 1)
      < ((k : ℝ) - d.f_min + 1) / ((d.f_max : ℝ) - d.f_min + 1) := by
    apply div_lt_div_of_pos_right _ hden
    push_cast; linarith
  exact max_lt hp0 (lt_of_le_of_lt (min_le_right _ _) (lt_of_lt_of_le hlt hg'))

/-- DiscreteUniform (`min ≤ max`, both in the `i64` range): for `0 < p < 1`, `inverse_cdf p` is the
    smallest integer `k` with `cdf k ≥ p`. -/
theorem discrete_uniform_inverse_cdf_smallest (d : DiscreteUniform) (h : d.f_min ≤ d.f_max)
    (hlo : -2 ^ 63 ≤ d.f_min) (hhi : d.f_max ≤ 2 ^ 63) (p : ℝ) (hp0 : 0 < p) (hp1 : p < 1) :
    p ≤ DiscreteUniform.cdf (α := ℝ) d (DiscreteUniform.inverse_cdf d p) ∧
      ∀ j : Int, j < DiscreteUniform.inverse_cdf d p → DiscreteUniform.cdf (α := ℝ) d j < p := by
  rw [discrete_uniform_inverse_cdf_eq_dinv]
  have hbelow : ∀ j : Int, j < d.f_min → DiscreteUniform.cdf (α := ℝ) d j < p := by
    intro j hj
    unfold DiscreteUniform.cdf; rw [if_pos hj]; norm_num; exact hp0
  have hK : p ≤ DiscreteUniform.cdf (α := ℝ) d d.f_max := by
    unfold DiscreteUniform.cdf; rw [if_neg (by omega), if_pos le_rfl]; norm_num; exact hp1.le
  have key := dinv_spec (discrete_uniform_adm d h (min d.f_min 2)) (DiscreteUniform.min (α := ℝ) d)
    (DiscreteUniform.max (α := ℝ) d) d.f_max (min_le_right _ _) (min_le_left _ _)
    (by unfold DiscreteUniform.min; omega) (fun j _ hj => hbelow j hj)
    ((min_le_left _ _).trans h) hK (by omega) hp0 hp1
  refine ⟨key.1, fun j hj => ?_⟩
  by_cases hjm : j < d.f_min
  · exact hbelow j hjm
  · exact key.2 j ((min_le_left _ _).trans (not_lt.mp hjm)) hj

example : ∃ d : DiscreteUniform, d.f_min ≤ d.f_max ∧ -2 ^ 63 ≤ d.f_min ∧ d.f_max ≤ 2 ^ 63 :=
  ⟨⟨0, 1⟩, by norm_num⟩

/-! ## Bernoulli (arguments are `u64`: the range starts at 0) -/

theorem bernoulli_loop1_eq (d : Bernoulli ℝ) (p : ℝ) (two : Int) : ∀ (fuel : Nat) (ub : Int),
    Bernoulli.inverse_cdf.loop1 fuel p d two ub = dloop (Bernoulli.cdf d) fuel p two ub := by
  intro fuel
  induction fuel with
  | zero => intro ub; rfl
  | succ f ih =>
    intro ub
    rw [Bernoulli.inverse_cdf.loop1, dloop]
    split_ifs
    · exact ih _
    · rfl

theorem bernoulli_inverse_cdf_eq_dinv (d : Bernoulli ℝ) (p : ℝ) :
    Bernoulli.inverse_cdf d p = dinv (Bernoulli.cdf d) (Bernoulli.min d) (Bernoulli.max d) p := by
  unfold Bernoulli.inverse_cdf dinv
  rfun_norm
  rw [show (0.0:ℝ) = 0 by norm_num, show (1.0:ℝ) = 1 by norm_num, show ((1:Int) + 1) = 2 by norm_num]
  rw [bernoulli_loop1_eq]
  split_ifs
  · rfl
  · rfl
  · rfl
  · generalize dloop (Bernoulli.cdf d) loopFuel p 2 2 = r
    cases r <;> rfl

theorem bernoulli_adm (d : Bernoulli ℝ) (h0 : 0 ≤ d.f_b.f_p) : Adm (Bernoulli.cdf d) 0 := by
  constructor
  intro a b _ hle
  unfold Bernoulli.cdf Binomial.p
  split_ifs with h1 h2 h2
  · exact le_rfl
  · omega
  · norm_num; exact h0
  · exact le_rfl

/-- Bernoulli (`Binomial p 1`, `0 ≤ p ≤ 1`): for `0 < q < 1`, `inverse_cdf q` is the smallest
    `k ≥ 0` with `cdf k ≥ q`. -/
theorem bernoulli_inverse_cdf_smallest (d : Bernoulli ℝ) (hn : d.f_b.f_n = 1) (h0 : 0 ≤ d.f_b.f_p)
    (h1 : d.f_b.f_p ≤ 1) (q : ℝ) (hq0 : 0 < q) (hq1 : q < 1) :
    q ≤ Bernoulli.cdf d (Bernoulli.inverse_cdf d q) ∧
      ∀ j : Int, 0 ≤ j → j < Bernoulli.inverse_cdf d q → Bernoulli.cdf d j < q := by
  rw [bernoulli_inverse_cdf_eq_dinv]
  have hK : q ≤ Bernoulli.cdf d 1 := by
    unfold Bernoulli.cdf; rw [if_pos le_rfl]; norm_num; exact hq1.le
  exact dinv_spec (bernoulli_adm d h0) (Bernoulli.min d) (Bernoulli.max d) 1 (by norm_num)
    (by unfold Bernoulli.min; norm_num) (by unfold Bernoulli.min; norm_num)
    (fun j hj hj' => by unfold Bernoulli.min at hj'; omega) (by norm_num) hK (by norm_num) hq0 hq1

example : ∃ d : Bernoulli ℝ, d.f_b.f_n = 1 ∧ 0 ≤ d.f_b.f_p ∧ d.f_b.f_p ≤ 1 := ⟨⟨⟨1 / 4, 1⟩⟩, rfl, by norm_num, by norm_num⟩

/-! ## Geometric (arguments are `u64`) -/

theorem geometric_loop1_eq (d : Geometric ℝ) (p : ℝ) (two : Int) : ∀ (fuel : Nat) (ub : Int),
    Geometric.inverse_cdf.loop1 fuel p d two ub = dloop (Geometric.cdf d) fuel p two ub := by
  intro fuel
  induction fuel with
  | zero => intro ub; rfl
  | succ f ih =>
    intro ub
    rw [Geometric.inverse_cdf.loop1, dloop]
    split_ifs
    · exact ih _
    · rfl

theorem geometric_inverse_cdf_eq_dinv (d : Geometric ℝ) (p : ℝ) :
    Geometric.inverse_cdf d p = dinv (Geometric.cdf d) (Geometric.min d) (Geometric.max d) p := by
  unfold Geometric.inverse_cdf dinv
  rfun_norm
  rw [show (0.0:ℝ) = 0 by norm_num, show (1.0:ℝ) = 1 by norm_num, show ((1:Int) + 1) = 2 by norm_num]
  rw [geometric_loop1_eq]
  split_ifs
  · rfl
  · rfl
  · rfl
  · generalize dloop (Geometric.cdf d) loopFuel p 2 2 = r
    cases r <;> rfl

/-- closed form of the model's cdf (the `x = 0` branch agrees with the formula) -/
theorem geometric_cdf_closed (d : Geometric ℝ) (x : Int) :
    Geometric.cdf d x = 1 - Real.exp (Real.log (1 - d.f_p) * x) := by
  unfold Geometric.cdf
  rfun_norm
  split_ifs with hx
  · rw [hx]; norm_num
  · ring_nf

theorem geometric_cdf_strictMono (d : Geometric ℝ) (h0 : 0 < d.f_p) (h1 : d.f_p < 1) (a b : Int) (hab : a < b) :
    Geometric.cdf d a < Geometric.cdf d b := by
  rw [geometric_cdf_closed, geometric_cdf_closed]
  have hL : Real.log (1 - d.f_p) < 0 := Real.log_neg (by linarith) (by linarith)
  have : (a : ℝ) < b := by exact_mod_cast hab
  have : Real.exp (Real.log (1 - d.f_p) * b) < Real.exp (Real.log (1 - d.f_p) * a) :=
    Real.exp_lt_exp.mpr (by nlinarith)
  linarith

theorem geometric_adm (d : Geometric ℝ) (h0 : 0 < d.f_p) (h1 : d.f_p < 1) : Adm (Geometric.cdf d) 0 := by
  constructor
  intro a b _ hle
  rcases lt_or_eq_of_le hle with h | h
  · exact (geometric_cdf_strictMono d h0 h1 a b h).le
  · rw [h]

/-- Geometric, `0 < p < 1` (the constructor also accepts `p = 1`, where the model's `ln(1-p)` is
    junk over ℝ): for `0 < q < 1`, if the quantile is representable — some `K ≤ 2^64` has
    `cdf K ≥ q` — then `inverse_cdf q` is the smallest `k ≥ 0` with `cdf k ≥ q`. -/
theorem geometric_inverse_cdf_smallest_partial (d : Geometric ℝ) (h0 : 0 < d.f_p) (h1 : d.f_p < 1)
    (q : ℝ) (hq0 : 0 < q) (hq1 : q < 1) (K : Int) (hK0 : 0 ≤ K) (hK : q ≤ Geometric.cdf d K) (hK2 : K ≤ 2 ^ 64) :
    q ≤ Geometric.cdf d (Geometric.inverse_cdf d q) ∧
      ∀ j : Int, 0 ≤ j → j < Geometric.inverse_cdf d q → Geometric.cdf d j < q := by
  rw [geometric_inverse_cdf_eq_dinv]
  refine dinv_spec (geometric_adm d h0 h1) (Geometric.min d) (Geometric.max d) K (by norm_num)
    (by unfold Geometric.min; norm_num) (by unfold Geometric.min; norm_num)
    (fun j hj hj' => ?_) hK0 hK hK2 hq0 hq1
  unfold Geometric.min at hj'
  have : j = 0 := by omega
  rw [this, geometric_cdf_closed]; norm_num; exact hq0

example : ∃ (d : Geometric ℝ) (q : ℝ) (K : Int), 0 < d.f_p ∧ d.f_p < 1 ∧ 0 < q ∧ q < 1 ∧ 0 ≤ K ∧
    q ≤ Geometric.cdf d K ∧ K ≤ 2 ^ 64 := by
  refine ⟨⟨1 / 2⟩, 1 / 2, 1, by norm_num, by norm_num, by norm_num, by norm_num, by norm_num, ?_, by norm_num⟩
  rw [geometric_cdf_closed]
  norm_num
  rw [Real.exp_log (by norm_num)]
  norm_num

/-! ## corollaries: range and monotonicity in `p` -/

/-- DiscreteUniform: `min() ≤ inverse_cdf p ≤ max()` -/
theorem discrete_uniform_inverse_cdf_mem (d : DiscreteUniform) (h : d.f_min ≤ d.f_max)
    (hlo : -2 ^ 63 ≤ d.f_min) (hhi : d.f_max ≤ 2 ^ 63) (p : ℝ) (hp0 : 0 < p) (hp1 : p < 1) :
    DiscreteUniform.min (α := ℝ) d ≤ DiscreteUniform.inverse_cdf d p ∧
      DiscreteUniform.inverse_cdf d p ≤ DiscreteUniform.max (α := ℝ) d := by
  obtain ⟨s1, s2⟩ := discrete_uniform_inverse_cdf_smallest d h hlo hhi p hp0 hp1
  unfold DiscreteUniform.min DiscreteUniform.max
  constructor
  · by_contra hlt
    have : DiscreteUniform.cdf (α := ℝ) d (DiscreteUniform.inverse_cdf d p) = 0 := by
      unfold DiscreteUniform.cdf; rw [if_pos (not_le.mp hlt)]; norm_num
    linarith
  · by_contra hlt
    have := s2 d.f_max (not_le.mp hlt)
    have h1 : DiscreteUniform.cdf (α := ℝ) d d.f_max = 1 := by
      unfold DiscreteUniform.cdf; rw [if_neg (by omega), if_pos le_rfl]; norm_num
    linarith

/-- DiscreteUniform: `inverse_cdf` never decreases as `p` increases -/
theorem discrete_uniform_inverse_cdf_mono (d : DiscreteUniform) (h : d.f_min ≤ d.f_max)
    (hlo : -2 ^ 63 ≤ d.f_min) (hhi : d.f_max ≤ 2 ^ 63) (p q : ℝ) (hp0 : 0 < p) (hpq : p ≤ q) (hq1 : q < 1) :
    DiscreteUniform.inverse_cdf d p ≤ DiscreteUniform.inverse_cdf d q := by
  obtain ⟨_, s2⟩ := discrete_uniform_inverse_cdf_smallest d h hlo hhi p hp0 (by linarith)
  obtain ⟨t1, _⟩ := discrete_uniform_inverse_cdf_smallest d h hlo hhi q (by linarith) hq1
  by_contra hlt
  have := s2 _ (not_le.mp hlt)
  linarith

theorem bernoulli_inverse_cdf_nonneg (d : Bernoulli ℝ) (hn : d.f_b.f_n = 1) (h0 : 0 ≤ d.f_b.f_p)
    (h1 : d.f_b.f_p ≤ 1) (q : ℝ) (hq0 : 0 < q) (hq1 : q < 1) : 0 ≤ Bernoulli.inverse_cdf d q := by
  rw [bernoulli_inverse_cdf_eq_dinv]
  have hK : q ≤ Bernoulli.cdf d 1 := by
    unfold Bernoulli.cdf; rw [if_pos le_rfl]; norm_num; exact hq1.le
  have := dinv_ge (bernoulli_adm d h0) (Bernoulli.min d) (Bernoulli.max d) 1 (by norm_num)
    (by unfold Bernoulli.min; norm_num) (by unfold Bernoulli.min; norm_num)
    (fun j hj hj' => by unfold Bernoulli.min at hj'; omega) (by norm_num) hK (by norm_num) hq0 hq1
  unfold Bernoulli.min at this
  exact this

/-- Bernoulli: `min() ≤ inverse_cdf q ≤ max()` -/
theorem bernoulli_inverse_cdf_mem (d : Bernoulli ℝ) (hn : d.f_b.f_n = 1) (h0 : 0 ≤ d.f_b.f_p)
    (h1 : d.f_b.f_p ≤ 1) (q : ℝ) (hq0 : 0 < q) (hq1 : q < 1) :
    Bernoulli.min d ≤ Bernoulli.inverse_cdf d q ∧ Bernoulli.inverse_cdf d q ≤ Bernoulli.max d := by
  obtain ⟨s1, s2⟩ := bernoulli_inverse_cdf_smallest d hn h0 h1 q hq0 hq1
  refine ⟨bernoulli_inverse_cdf_nonneg d hn h0 h1 q hq0 hq1, ?_⟩
  unfold Bernoulli.max
  by_contra hlt
  have := s2 1 (by norm_num) (not_le.mp hlt)
  unfold Bernoulli.cdf at this
  rw [if_pos le_rfl] at this
  norm_num at this
  linarith

/-- Bernoulli: `inverse_cdf` never decreases as `q` increases -/
theorem bernoulli_inverse_cdf_mono (d : Bernoulli ℝ) (hn : d.f_b.f_n = 1) (h0 : 0 ≤ d.f_b.f_p)
    (h1 : d.f_b.f_p ≤ 1) (p q : ℝ) (hp0 : 0 < p) (hpq : p ≤ q) (hq1 : q < 1) :
    Bernoulli.inverse_cdf d p ≤ Bernoulli.inverse_cdf d q := by
  obtain ⟨_, s2⟩ := bernoulli_inverse_cdf_smallest d hn h0 h1 p hp0 (by linarith)
  obtain ⟨t1, _⟩ := bernoulli_inverse_cdf_smallest d hn h0 h1 q (by linarith) hq1
  by_contra hlt
  have := s2 _ (bernoulli_inverse_cdf_nonneg d hn h0 h1 q (by linarith) hq1) (not_le.mp hlt)
  linarith

end Statrs.Props.C05
