/-
  C05 (discrete clause), the trait default `DiscreteCDF::inverse_cdf` (src/distribution/mod.rs:210:
  doubling loop + `internal::integral_bisection_search`) analysed ONCE for an abstract
  non-decreasing `cdf : Int → ℝ`, plateaus included.

  Objects: `Statrs.Lemmas.IntBisect.dinv f mn mx p` is the mirror of the per-family generated
  `X.inverse_cdf` with `X.cdf d = f`, `X.min d = mn`, `X.max d = mx` (each family is tied to it by a
  lemma `X_inverse_cdf_eq_dinv`, see `Props/C05/Discrete.lean` and
  `Props/C05/DiscreteDefaultFamilies.lean`); the bisection inside it is the GENERATED
  `D.internal.integral_bisection_search`.

  Findings (model over ℝ, integers unbounded):
  * For EVERY non-decreasing step cdf (plateaus included, also a plateau exactly at level `p`) and
    `0 < p < 1` the result `r` is THE SMALLEST `k` with `cdf k ≥ p`:
    `cdf (r-1) < p ≤ cdf r`, `min ≤ r`, and `r ≤ K` for every `K` with `p ≤ cdf K`
    (`default_inverse_cdf_quantile`, `default_inverse_cdf_smallest`, `default_inverse_cdf_eq_of_smallest`).
  * History: before the early exit `f(ub) == z` was removed from `integral_bisection_search` a plateau
    exactly at level `p` made the bisection return a later point of the plateau (cdf 1/4, 1/2, 1/2, 1 on
    0,1,2,3 and `p = 1/2` gave 2, the smallest is 1).  On that same input the generated code now
    returns 1 (`integral_bisection_search_plateau`, `default_inverse_cdf_smallest_plateau`).
  * Fuel: the doubling loop needs `n+1` iterations when the quantile is `≤ 2^(n+1)` and the bisection
    at most `max (n+1) m + 2` when moreover `min ≥ -2^m`; the generated code runs both loops with
    `loopFuel = 20000` iterations, which covers every `u64`/`i64` argument type (`n = 63`, `m = 64`:
    `default_inverse_cdf_quantile_u64`).  The largest value the doubling forms is `2` or `≤ 2K − 2`
    (`default_doubling_bound`): in the model integers are unbounded; in Rust `ub *= 2` overflows
    `u64` as soon as the quantile exceeds `2^63` (`i64`: `2^62`) — that range is outside what the
    model can speak about.
  * `p ≤ cdf(min)` (so `p = 0`, and also every NEGATIVE `p` when `cdf(min) ≥ 0`) returns `min`
    without the documented panic; `p = 1` returns `max`; `p > 1` panics.
-/
import Statrs.Real.Simp
import Statrs.Lemmas.IntBisect
import Statrs.Lemmas.IntBisectMono
import Mathlib.Tactic
set_option linter.unusedVariables false
namespace Statrs.Props.C05
open Statrs Statrs.Gen Statrs.Lemmas.IntBisect Statrs.Lemmas.IntBisectMono

/-- Premises on the abstract cdf: non-decreasing on the argument type's range `B ≤ k`, and zero below
    the support minimum `mn`. -/
structure StepCdf (f : Int → ℝ) (B mn : Int) : Prop where
  mono : ∀ a b, B ≤ a → a ≤ b → f a ≤ f b
  below : ∀ k, B ≤ k → k < mn → f k = 0

/-- What the default algorithm guarantees about its result `r` for a merely non-decreasing cdf:
    `r` is the smallest `k ≥ B` with `cdf k ≥ p`. -/
structure IsDefaultQuantile (f : Int → ℝ) (B mn : Int) (p : ℝ) (r : Int) : Prop where
  /-- the result is at least `min()` -/
  ge_min : mn ≤ r
  /-- `cdf r ≥ p` -/
  reach : p ≤ f r
  /-- everything before `r` is strictly below `p`: `r` is the SMALLEST `k` with `cdf k ≥ p` -/
  smallest : ∀ j, B ≤ j → j < r → f j < p
  /-- `r ≤ K` for every `K` whose cdf reaches `p` (e.g. `K = max()`) -/
  le_of_le : ∀ K, B ≤ K → p ≤ f K → r ≤ K

/-- everything before `r` is `≤ p` (so `cdf (r-1) ≤ p ≤ cdf r`: `r` is a `p`-quantile) -/
theorem IsDefaultQuantile.before_le {f : Int → ℝ} {B mn : Int} {p : ℝ} {r : Int}
    (Q : IsDefaultQuantile f B mn p r) : ∀ j, B ≤ j → j < r → f j ≤ p :=
  fun j hj hjr => (Q.smallest j hj hjr).le

/-- `r ≤ K` for every `K` whose cdf is strictly above `p` -/
theorem IsDefaultQuantile.le_of_lt {f : Int → ℝ} {B mn : Int} {p : ℝ} {r : Int}
    (Q : IsDefaultQuantile f B mn p r) : ∀ K, B ≤ K → p < f K → r ≤ K :=
  fun K hK hlt => Q.le_of_le K hK hlt.le

/-- the smallest `k ≥ B` with `cdf k ≥ p` is unique: anything satisfying `IsDefaultQuantile` equals it -/
theorem IsDefaultQuantile.eq_of_smallest {f : Int → ℝ} {B mn : Int} {p : ℝ} {r k : Int}
    (Q : IsDefaultQuantile f B mn p r) (hBmn : B ≤ mn) (hk : B ≤ k) (hreach : p ≤ f k)
    (hsm : ∀ j, B ≤ j → j < k → f j < p) : r = k := by
  have h1 : r ≤ k := Q.le_of_le k hk hreach
  by_contra hne
  have := hsm r (hBmn.trans Q.ge_min) (lt_of_le_of_ne h1 hne)
  exact absurd Q.reach (not_le.mpr this)

variable {f : Int → ℝ} {B mn : Int} {p : ℝ}

private theorem pow_bracket (n m : Nat) : (2:Int) ^ (n + 1) + 2 ^ m ≤ 2 ^ (max (n + 1) m + 1) := by
  have h1 : (2:Int) ^ (n + 1) ≤ 2 ^ (max (n + 1) m) := pow_le_pow_right₀ (by norm_num) (le_max_left _ _)
  have h2 : (2:Int) ^ m ≤ 2 ^ (max (n + 1) m) := pow_le_pow_right₀ (by norm_num) (le_max_right _ _)
  rw [pow_succ (2:Int) (max (n + 1) m)]
  linarith

/-- GENERIC THEOREM (explicit fuel).  `S`: the cdf is non-decreasing and 0 below `mn`; some `K ≤ 2^(n+1)`
    has `cdf K ≥ p`; `mn ≥ -2^m`; the generated loops' fuel `loopFuel` exceeds `n` (doubling) and
    `max (n+1) m + 1` (bisection).  Then for `0 < p < 1` the default `inverse_cdf` returns the
    smallest `k` with `cdf k ≥ p` (`IsDefaultQuantile`), plateaus included. -/
theorem default_inverse_cdf_quantile_fuel (S : StepCdf f B mn) (mx K : Int) (n m : Nat)
    (hB2 : B ≤ 2) (hBmn : B ≤ mn) (hmn : -2 ^ m ≤ mn) (hKB : B ≤ K) (hK : p ≤ f K) (hK2 : K ≤ 2 ^ (n + 1))
    (hfuel1 : n < loopFuel) (hfuel2 : max (n + 1) m + 1 < loopFuel) (hp0 : 0 < p) (hp1 : p < 1) :
    IsDefaultQuantile f B mn p (dinv f mn mx p) := by
  unfold dinv
  by_cases h0 : p ≤ f mn
  · rw [if_pos h0]
    have hb : ∀ j, B ≤ j → j < mn → f j < p := fun j hj hjm => by rw [S.below j hj hjm]; exact hp0
    refine ⟨le_rfl, h0, hb, fun K' hK' hle => ?_⟩
    by_contra hc
    have := S.below K' hK' (not_le.mp hc)
    linarith
  · have c : ¬ ¬ (0 ≤ p ∧ p ≤ 1) := not_not.mpr ⟨hp0.le, hp1.le⟩
    rw [if_neg h0, if_neg hp1.ne, if_neg c]
    obtain ⟨r, e, r1, r2, r3, _⟩ := dloop_reach (z := p) S.mono K hKB hK n loopFuel 2 hfuel1
      (by norm_num) hB2 (by rw [pow_succ] at hK2; linarith)
    rw [e]
    dsimp only
    have hlt : mn < r := by
      by_contra hge
      have := S.mono r mn (by omega) (by omega)
      linarith
    have hw : r - mn ≤ 2 ^ (max (n + 1) m + 1) := by
      have := pow_bracket n m
      have h3 : r ≤ 2 ^ (n + 1) := by rw [pow_succ]; linarith
      linarith
    obtain ⟨k, ek, k1, k2, k3, k4, k5⟩ := search_quantile (z := p) S.mono (max (n + 1) m + 1) hfuel2 mn r hBmn hlt
      (not_le.mp h0) r1 hw
    rw [ek]
    show IsDefaultQuantile f B mn p k
    refine ⟨k1.le, k3, k5, fun K' hK' hle' => ?_⟩
    by_contra hc
    have := k5 K' hK' (not_le.mp hc)
    linarith

/-- The fuel of the generated loops (`loopFuel = 20000`) is enough for every `u64` / `i64`
    argument type: quantile `≤ 2^64` needs 64 doublings, the bracket `[min, ub]` with `min ≥ -2^64`
    is shorter than `2^65`. -/
theorem default_fuel_sufficient_u64 : 63 < loopFuel ∧ max (63 + 1) 64 + 1 < loopFuel := by
  unfold loopFuel; norm_num

/-- GENERIC THEOREM for machine-integer ranges (`K ≤ 2^64`, `mn ≥ -2^64`; fuel discharged). -/
theorem default_inverse_cdf_quantile (S : StepCdf f B mn) (mx K : Int)
    (hB2 : B ≤ 2) (hBmn : B ≤ mn) (hmn : -2 ^ 64 ≤ mn) (hKB : B ≤ K) (hK : p ≤ f K) (hK2 : K ≤ 2 ^ 64)
    (hp0 : 0 < p) (hp1 : p < 1) :
    IsDefaultQuantile f B mn p (dinv f mn mx p) :=
  default_inverse_cdf_quantile_fuel S mx K 63 64 hB2 hBmn hmn hKB hK hK2
    default_fuel_sufficient_u64.1 default_fuel_sufficient_u64.2 hp0 hp1

/-- alias stressing the range -/
theorem default_inverse_cdf_quantile_u64 (S : StepCdf f B mn) (mx K : Int)
    (hB2 : B ≤ 2) (hBmn : B ≤ mn) (hmn : -2 ^ 64 ≤ mn) (hKB : B ≤ K) (hK : p ≤ f K) (hK2 : K ≤ 2 ^ 64)
    (hp0 : 0 < p) (hp1 : p < 1) :
    IsDefaultQuantile f B mn p (dinv f mn mx p) :=
  default_inverse_cdf_quantile S mx K hB2 hBmn hmn hKB hK hK2 hp0 hp1

/-- HEADLINE.  Smallest-`k` statement for EVERY non-decreasing step cdf, plateaus included (also a
    plateau exactly at level `p`): the default `inverse_cdf p`, `0 < p < 1`, is the smallest `k` with
    `cdf k ≥ p`, and lies in `[mn, K]` for every `K` that reaches `p`. -/
theorem default_inverse_cdf_smallest (S : StepCdf f B mn) (mx K : Int)
    (hB2 : B ≤ 2) (hBmn : B ≤ mn) (hmn : -2 ^ 64 ≤ mn) (hKB : B ≤ K) (hK : p ≤ f K) (hK2 : K ≤ 2 ^ 64)
    (hp0 : 0 < p) (hp1 : p < 1) :
    p ≤ f (dinv f mn mx p) ∧ (∀ j, B ≤ j → j < dinv f mn mx p → f j < p) ∧
      mn ≤ dinv f mn mx p ∧ dinv f mn mx p ≤ K :=
  have Q := default_inverse_cdf_quantile S mx K hB2 hBmn hmn hKB hK hK2 hp0 hp1
  ⟨Q.reach, Q.smallest, Q.ge_min, Q.le_of_le K hKB hK⟩

/-- …equivalently: whenever `k` is the smallest argument (`≥ B`) whose cdf reaches `p`, the default
    `inverse_cdf p` IS `k`. -/
theorem default_inverse_cdf_eq_of_smallest (S : StepCdf f B mn) (mx k : Int)
    (hB2 : B ≤ 2) (hBmn : B ≤ mn) (hmn : -2 ^ 64 ≤ mn) (hkB : B ≤ k) (hk : p ≤ f k) (hk2 : k ≤ 2 ^ 64)
    (hsm : ∀ j, B ≤ j → j < k → f j < p) (hp0 : 0 < p) (hp1 : p < 1) :
    dinv f mn mx p = k :=
  (default_inverse_cdf_quantile S mx k hB2 hBmn hmn hkB hk hk2 hp0 hp1).eq_of_smallest hBmn hkB hk hsm

/-- the default `inverse_cdf` is non-decreasing in `p` on `(0,1)` (for every non-decreasing step cdf) -/
theorem default_inverse_cdf_mono {q : ℝ} (S : StepCdf f B mn) (mx K : Int)
    (hB2 : B ≤ 2) (hBmn : B ≤ mn) (hmn : -2 ^ 64 ≤ mn) (hKB : B ≤ K) (hK : q ≤ f K) (hK2 : K ≤ 2 ^ 64)
    (hp0 : 0 < p) (hpq : p ≤ q) (hq1 : q < 1) :
    dinv f mn mx p ≤ dinv f mn mx q := by
  have Qq := default_inverse_cdf_quantile S mx K hB2 hBmn hmn hKB hK hK2 (hp0.trans_le hpq) hq1
  have Qp := default_inverse_cdf_quantile S mx K hB2 hBmn hmn hKB (hpq.trans hK) hK2 hp0 (hpq.trans_lt hq1)
  exact Qp.le_of_le _ (hBmn.trans Qq.ge_min) (hpq.trans Qq.reach)

/-- the value formed by the doubling loop is `2` or at most `2K − 2` (model integers are unbounded;
    for a `u64` argument type this stays `< 2^64` exactly when the quantile `K ≤ 2^63`) -/
theorem default_doubling_bound (S : StepCdf f B mn) (K : Int) (hB2 : B ≤ 2) (hKB : B ≤ K) (hK : p ≤ f K)
    (hK2 : K ≤ 2 ^ 64) :
    ∃ ub, dloop f loopFuel p 2 2 = LoopR.done ub ∧ p ≤ f ub ∧ (ub = 2 ∨ ub ≤ 2 * K - 2) := by
  obtain ⟨r, e, r1, _, _, r4⟩ := dloop_reach (z := p) S.mono K hKB hK 63 loopFuel 2
    (by unfold loopFuel; norm_num) (by norm_num) hB2 (by linarith)
  exact ⟨r, e, r1, r4⟩

/-! ### the guards: `p ≤ cdf(min)`, `p = 1`, `p` outside `[0,1]`, unreachable level -/

/-- `p ≤ cdf(min)` returns `min` — this is the `p = 0` case (`cdf(min) ≥ 0`), and it also swallows
    every negative `p`, which the doc comment says panics. -/
theorem default_inverse_cdf_le_min (mx : Int) (h : p ≤ f mn) : dinv f mn mx p = mn := by
  unfold dinv; rw [if_pos h]

theorem default_inverse_cdf_zero (mx : Int) (h : 0 ≤ f mn) : dinv f mn mx 0 = mn :=
  default_inverse_cdf_le_min mx h

/-- a negative `p` does not panic (contrary to the documented behaviour) -/
theorem default_inverse_cdf_negative_p_no_panic (mx : Int) (h : 0 ≤ f mn) (hp : p < 0) :
    dinv f mn mx p = mn :=
  default_inverse_cdf_le_min mx (by linarith)

/-- `p = 1` returns `max()` (unless already `cdf(min) ≥ 1`, which returns `min()`) -/
theorem default_inverse_cdf_one (mx : Int) (h : f mn < 1) : dinv f mn mx 1 = mx := by
  unfold dinv; rw [if_neg (not_le.mpr h), if_pos rfl]

/-- `p > 1` (above `cdf(min)`) panics -/
theorem default_inverse_cdf_gt_one_panics (mx : Int) (h : f mn < p) (hp : 1 < p) :
    dinv f mn mx p = panicV := by
  unfold dinv
  rw [if_neg (not_le.mpr h), if_neg (by linarith [hp] : ¬ p = 1) , if_pos (by intro hc; linarith [hc.2])]

/-- the reachability premise cannot be dropped: if no argument reaches level `p` the doubling never
    stops (model: fuel runs out, `LoopR.hang` → sentinel) -/
theorem default_inverse_cdf_unreachable_hangs (mx : Int) (hlow : ∀ k, f k < p) (hp0 : 0 ≤ p) (hp1 : p < 1) :
    dinv f mn mx p = panicV := by
  unfold dinv
  rw [if_neg (not_le.mpr (hlow mn)), if_neg hp1.ne, if_neg (not_not.mpr ⟨hp0, hp1.le⟩), dloop_hang hlow]

/-! ### the plateau example (formerly a counterexample) -/

/-- step cdf on the lattice `0,1,2,3` with levels `1/4, 1/2, 1/2, 1` (plateau `{1,2}` at level `1/2`) -/
noncomputable def plateauCdf (k : Int) : ℝ :=
  if k < 0 then 0 else if k = 0 then 1 / 4 else if k ≤ 2 then 1 / 2 else 1

theorem plateauCdf_stepCdf (B : Int) : StepCdf plateauCdf B 0 := by
  constructor
  · intro a b _ hab
    unfold plateauCdf
    split_ifs <;> first | omega | norm_num
  · intro k _ hk
    unfold plateauCdf; rw [if_pos hk]

/-- the GENERATED `integral_bisection_search` on the plateau: asked for the smallest `k ∈ (0,2]` with
    `f k ≥ 1/2` it answers `1`, the first point of the plateau `f 1 = f 2 = 1/2` (with the former
    early exit `f(ub) == z` it answered `2`) -/
theorem integral_bisection_search_plateau :
    D.internal.integral_bisection_search (α := ℝ) plateauCdf (1 / 2) 0 2 = some 1 ∧
      (1 / 2 : ℝ) ≤ plateauCdf 1 ∧ plateauCdf 1 = plateauCdf 2 := by
  have f0 : plateauCdf 0 = 1 / 4 := by unfold plateauCdf; norm_num
  have f1 : plateauCdf 1 = 1 / 2 := by unfold plateauCdf; norm_num
  have f2 : plateauCdf 2 = 1 / 2 := by unfold plateauCdf; norm_num
  refine ⟨?_, by rw [f1], by rw [f1, f2]⟩
  obtain ⟨k, ek, k1, k2, k3, k4, _⟩ := search_quantile (z := (1 / 2 : ℝ)) (B := 0) (plateauCdf_stepCdf 0).mono 1
    (by unfold loopFuel; norm_num) 0 2 le_rfl (by norm_num) (by rw [f0]; norm_num) (by rw [f2]) (by norm_num)
  rw [ek]
  have : k = 1 := by
    by_contra hne
    have hk2 : k = 2 := by omega
    rw [hk2, show (2:Int) - 1 = 1 by norm_num, f1] at k4
    exact lt_irrefl _ k4
  rw [this]

/-- The former COUNTEREXAMPLE input, now a positive instance: for the step cdf with a plateau at
    level `p = 1/2` all premises of `default_inverse_cdf_quantile` hold (`StepCdf`, `0 < p < 1`,
    `K = 1` reaches `p`), and the default `inverse_cdf` returns `1`, the smallest `k` with
    `cdf k ≥ p` (not `2`, the later plateau point the old early exit produced). -/
theorem default_inverse_cdf_smallest_plateau :
    StepCdf plateauCdf 0 0 ∧ (0:ℝ) < 1 / 2 ∧ (1 / 2 : ℝ) < 1 ∧ plateauCdf 1 = 1 / 2 ∧ plateauCdf 2 = 1 / 2 ∧
    dinv plateauCdf 0 3 (1 / 2) = 1 ∧
    (∀ j : Int, 0 ≤ j → j < dinv plateauCdf 0 3 (1 / 2) → plateauCdf j < 1 / 2) := by
  have f0 : plateauCdf 0 = 1 / 4 := by unfold plateauCdf; norm_num
  have f1 : plateauCdf 1 = 1 / 2 := by unfold plateauCdf; norm_num
  have f2 : plateauCdf 2 = 1 / 2 := by unfold plateauCdf; norm_num
  have hsm : ∀ j : Int, 0 ≤ j → j < 1 → plateauCdf j < 1 / 2 := by
    intro j hj hj1
    have : j = 0 := by omega
    rw [this, f0]; norm_num
  have hd : dinv plateauCdf 0 3 (1 / 2) = 1 :=
    default_inverse_cdf_eq_of_smallest (plateauCdf_stepCdf 0) 3 1 (by norm_num) le_rfl (by norm_num)
      (by norm_num) (by rw [f1]) (by norm_num) hsm (by norm_num) (by norm_num)
  refine ⟨plateauCdf_stepCdf 0, by norm_num, by norm_num, f1, f2, hd, ?_⟩
  rw [hd]
  exact hsm

/-- non-vacuity of the generic theorems: the plateau cdf satisfies every premise both at `p = 1/3`
    (no plateau at that level) and at `p = 1/2` (the plateau level) -/
example : (p = 1 / 3 ∨ p = 1 / 2) → (StepCdf plateauCdf 0 0 ∧ 0 < p ∧ p < 1 ∧
    p ≤ plateauCdf 1 ∧ (1:Int) ≤ 2 ^ 64) := by
  have f1 : plateauCdf 1 = 1 / 2 := by unfold plateauCdf; norm_num
  rintro (rfl | rfl) <;>
    exact ⟨plateauCdf_stepCdf 0, by norm_num, by norm_num, by linarith [f1], by norm_num⟩

end Statrs.Props.C05
