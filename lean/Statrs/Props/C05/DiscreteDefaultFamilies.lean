/-
  C05 (discrete clause) — the generic theorems of `Props/C05/DiscreteDefault.lean` instantiated for
  the families whose generated `inverse_cdf` is the trait default: Binomial, Poisson,
  NegativeBinomial, Hypergeometric (Bernoulli, Geometric, DiscreteUniform are in
  `Props/C05/Discrete.lean`; Categorical has its own `inverse_cdf`, a binary search over the
  cumulative table, and is NOT an instance of the default).

  Carrier ℝ with abstract special functions, so each result is `…_rel`: relative to the premise
  structures of `Statrs.Spec.Incomplete` that give the family's cdf monotonicity
  (`Props/C01/Special.lean`).  For every family two statements, both under monotonicity of the cdf
  only (plateaus allowed — the early exit `f(ub) == z` that made a plateau at level `q` return a later
  point is gone from `integral_bisection_search`):
    `X_inverse_cdf_quantile_rel…`  result satisfies `IsDefaultQuantile` (= is the smallest `k`);
    `X_inverse_cdf_smallest_rel…`  the same spelled out, plus the range `[min, max]` / `[min, K]`.
  Poisson / NegativeBinomial have `max() = u64::MAX` standing for +∞: the quantile must be
  representable (`K ≤ 2^64` with `cdf K ≥ q`) — `_partial`.  NegativeBinomial also inherits `r > 0`
  from the C01 theorem.  Hypergeometric needs no special-function premise for monotonicity (its cdf
  is a partial sum of exponentials, strictly increasing inside the support), only `cdf ≤ 1`.
-/
import Statrs.Props.C05.DiscreteDefault
import Statrs.Props.C01.Special
import Statrs.Lemmas.TestsHyper
import Statrs.Gen.D_binomial
import Statrs.Gen.D_poisson
import Statrs.Gen.D_negative_binomial
import Statrs.Gen.D_hypergeometric
import Mathlib.Tactic
set_option linter.unusedVariables false
namespace Statrs.Props.C05
open Statrs Statrs.Gen Statrs.Lemmas.IntBisect Statrs.Lemmas.IntBisectMono Statrs.Spec.Incomplete

section
variable [SF ℝ]

/-! ## Binomial (`0 ≤ p ≤ 1`, `n : u64`; support `{0..n}`) -/

theorem binomial_loop1_eq (d : Binomial ℝ) (p : ℝ) (two : Int) : ∀ (fuel : Nat) (ub : Int),
    Binomial.inverse_cdf.loop1 fuel p d two ub = dloop (Binomial.cdf d) fuel p two ub := by
  intro fuel
  induction fuel with
  | zero => intro ub; rfl
  | succ f ih =>
    intro ub
    rw [Binomial.inverse_cdf.loop1, dloop]
    split_ifs
    · exact ih _
    · rfl

theorem binomial_inverse_cdf_eq_dinv (d : Binomial ℝ) (p : ℝ) :
    Binomial.inverse_cdf d p = dinv (Binomial.cdf d) (Binomial.min d) (Binomial.max d) p := by
  unfold Binomial.inverse_cdf dinv
  rfun_norm
  rw [show (0.0:ℝ) = 0 by norm_num, show (1.0:ℝ) = 1 by norm_num, show ((1:Int) + 1) = 2 by norm_num]
  rw [binomial_loop1_eq]
  split_ifs
  · rfl
  · rfl
  · rfl
  · generalize dloop (Binomial.cdf d) loopFuel p 2 2 = r
    cases r <;> rfl

theorem binomial_stepCdf_rel (S : BetaSpec) (T : BetaShiftSpec) (d : Binomial ℝ)
    (hp0 : 0 ≤ d.f_p) (hp1 : d.f_p ≤ 1) : StepCdf (Binomial.cdf d) 0 0 :=
  ⟨fun a b ha hab => C01.binomial_cdf_mono_rel S T d hp0 hp1 a b ha hab, fun k h0 hk => by omega⟩

/-- Binomial: for `0 < q < 1`, `inverse_cdf q` is the smallest `k ≥ 0` with `cdf k ≥ q`
    (`IsDefaultQuantile`: `cdf (r-1) < q ≤ cdf r`, `0 ≤ r`, `r ≤ K` whenever `cdf K ≥ q`). -/
theorem binomial_inverse_cdf_quantile_rel (S : BetaSpec) (T : BetaShiftSpec) (d : Binomial ℝ)
    (hp0 : 0 ≤ d.f_p) (hp1 : d.f_p ≤ 1) (hn0 : 0 ≤ d.f_n) (hn : d.f_n ≤ 2 ^ 64)
    (q : ℝ) (hq0 : 0 < q) (hq1 : q < 1) :
    IsDefaultQuantile (Binomial.cdf d) 0 0 q (Binomial.inverse_cdf d q) := by
  rw [binomial_inverse_cdf_eq_dinv]
  have hK : q ≤ Binomial.cdf d d.f_n := by
    rw [C01.binomial_cdf_above_max d d.f_n (by unfold Binomial.max; exact le_rfl)]; exact hq1.le
  exact default_inverse_cdf_quantile (binomial_stepCdf_rel S T d hp0 hp1) (Binomial.max d) d.f_n
    (by norm_num) (by norm_num) (by norm_num) hn0 hK hn hq0 hq1

/-- Binomial: `inverse_cdf q` is the smallest `k ≥ 0` with `cdf k ≥ q`, and `0 ≤ inverse_cdf q ≤ n`
    (no plateau hypothesis). -/
theorem binomial_inverse_cdf_smallest_rel (S : BetaSpec) (T : BetaShiftSpec) (d : Binomial ℝ)
    (hp0 : 0 ≤ d.f_p) (hp1 : d.f_p ≤ 1) (hn0 : 0 ≤ d.f_n) (hn : d.f_n ≤ 2 ^ 64)
    (q : ℝ) (hq0 : 0 < q) (hq1 : q < 1) :
    q ≤ Binomial.cdf d (Binomial.inverse_cdf d q) ∧
      (∀ j : Int, 0 ≤ j → j < Binomial.inverse_cdf d q → Binomial.cdf d j < q) ∧
      Binomial.min d ≤ Binomial.inverse_cdf d q ∧ Binomial.inverse_cdf d q ≤ Binomial.max d := by
  rw [binomial_inverse_cdf_eq_dinv]
  have hK : q ≤ Binomial.cdf d d.f_n := by
    rw [C01.binomial_cdf_above_max d d.f_n (by unfold Binomial.max; exact le_rfl)]; exact hq1.le
  exact default_inverse_cdf_smallest (binomial_stepCdf_rel S T d hp0 hp1) (Binomial.max d) d.f_n
    (by norm_num) (by norm_num) (by norm_num) hn0 hK hn hq0 hq1

example : ∃ d : Binomial ℝ, 0 ≤ d.f_p ∧ d.f_p ≤ 1 ∧ 0 ≤ d.f_n ∧ d.f_n ≤ 2 ^ 64 :=
  ⟨⟨0.3, 5⟩, by norm_num, by norm_num, by norm_num, by norm_num⟩

/-! ## Poisson (`λ > 0`; support `{0,1,…}`, `max() = u64::MAX`) -/

theorem poisson_loop1_eq (d : Poisson ℝ) (p : ℝ) (two : Int) : ∀ (fuel : Nat) (ub : Int),
    Poisson.inverse_cdf.loop1 fuel p d two ub = dloop (Poisson.cdf d) fuel p two ub := by
  intro fuel
  induction fuel with
  | zero => intro ub; rfl
  | succ f ih =>
    intro ub
    rw [Poisson.inverse_cdf.loop1, dloop]
    split_ifs
    · exact ih _
    · rfl

theorem poisson_inverse_cdf_eq_dinv (d : Poisson ℝ) (p : ℝ) :
    Poisson.inverse_cdf d p = dinv (Poisson.cdf d) (Poisson.min d) (Poisson.max d) p := by
  unfold Poisson.inverse_cdf dinv
  rfun_norm
  rw [show (0.0:ℝ) = 0 by norm_num, show (1.0:ℝ) = 1 by norm_num, show ((1:Int) + 1) = 2 by norm_num]
  rw [poisson_loop1_eq]
  split_ifs
  · rfl
  · rfl
  · rfl
  · generalize dloop (Poisson.cdf d) loopFuel p 2 2 = r
    cases r <;> rfl

theorem poisson_stepCdf_rel (S : GammaSpec) (T : GammaShiftSpec) (d : Poisson ℝ) (hl : 0 < d.f_lambda) :
    StepCdf (Poisson.cdf d) 0 0 :=
  ⟨fun a b ha hab => C01.poisson_cdf_mono_rel S T d hl a b ha hab, fun k h0 hk => by omega⟩

/-- Poisson, `_partial`: provided the quantile is representable (some `0 ≤ K ≤ 2^64` has
    `cdf K ≥ q`), `inverse_cdf q` is the smallest `k ≥ 0` with `cdf k ≥ q` for `0 < q < 1`. -/
theorem poisson_inverse_cdf_quantile_rel_partial (S : GammaSpec) (T : GammaShiftSpec) (d : Poisson ℝ)
    (hl : 0 < d.f_lambda) (q : ℝ) (hq0 : 0 < q) (hq1 : q < 1)
    (K : Int) (hK0 : 0 ≤ K) (hK : q ≤ Poisson.cdf d K) (hK2 : K ≤ 2 ^ 64) :
    IsDefaultQuantile (Poisson.cdf d) 0 0 q (Poisson.inverse_cdf d q) := by
  rw [poisson_inverse_cdf_eq_dinv]
  exact default_inverse_cdf_quantile (poisson_stepCdf_rel S T d hl) (Poisson.max d) K
    (by norm_num) (by norm_num) (by norm_num) hK0 hK hK2 hq0 hq1

/-- Poisson, `_partial` (representable quantile only; no plateau hypothesis): `inverse_cdf q` is the
    smallest `k ≥ 0` with `cdf k ≥ q`, and lies in `[min(), K]`. -/
theorem poisson_inverse_cdf_smallest_rel_partial (S : GammaSpec) (T : GammaShiftSpec) (d : Poisson ℝ)
    (hl : 0 < d.f_lambda) (q : ℝ) (hq0 : 0 < q) (hq1 : q < 1)
    (K : Int) (hK0 : 0 ≤ K) (hK : q ≤ Poisson.cdf d K) (hK2 : K ≤ 2 ^ 64) :
    q ≤ Poisson.cdf d (Poisson.inverse_cdf d q) ∧
      (∀ j : Int, 0 ≤ j → j < Poisson.inverse_cdf d q → Poisson.cdf d j < q) ∧
      Poisson.min d ≤ Poisson.inverse_cdf d q ∧ Poisson.inverse_cdf d q ≤ K := by
  rw [poisson_inverse_cdf_eq_dinv]
  exact default_inverse_cdf_smallest (poisson_stepCdf_rel S T d hl) (Poisson.max d) K
    (by norm_num) (by norm_num) (by norm_num) hK0 hK hK2 hq0 hq1

example : ∃ d : Poisson ℝ, 0 < d.f_lambda := ⟨⟨2.5⟩, by norm_num⟩

/-! ## NegativeBinomial (`r > 0` — the constructor also accepts `r = 0`, where `beta_reg` rejects its
  first argument — `0 ≤ p ≤ 1`; support `{0,1,…}`, `max() = u64::MAX`) -/

theorem negative_binomial_loop1_eq (d : NegativeBinomial ℝ) (p : ℝ) (two : Int) : ∀ (fuel : Nat) (ub : Int),
    NegativeBinomial.inverse_cdf.loop1 fuel p d two ub = dloop (NegativeBinomial.cdf d) fuel p two ub := by
  intro fuel
  induction fuel with
  | zero => intro ub; rfl
  | succ f ih =>
    intro ub
    rw [NegativeBinomial.inverse_cdf.loop1, dloop]
    split_ifs
    · exact ih _
    · rfl

theorem negative_binomial_inverse_cdf_eq_dinv (d : NegativeBinomial ℝ) (p : ℝ) :
    NegativeBinomial.inverse_cdf d p =
      dinv (NegativeBinomial.cdf d) (NegativeBinomial.min d) (NegativeBinomial.max d) p := by
  unfold NegativeBinomial.inverse_cdf dinv
  rfun_norm
  rw [show (0.0:ℝ) = 0 by norm_num, show (1.0:ℝ) = 1 by norm_num, show ((1:Int) + 1) = 2 by norm_num]
  rw [negative_binomial_loop1_eq]
  split_ifs
  · rfl
  · rfl
  · rfl
  · generalize dloop (NegativeBinomial.cdf d) loopFuel p 2 2 = r
    cases r <;> rfl

theorem negative_binomial_stepCdf_rel (T : BetaShiftSpec) (d : NegativeBinomial ℝ)
    (hr : 0 < d.f_r) (hp0 : 0 ≤ d.f_p) (hp1 : d.f_p ≤ 1) : StepCdf (NegativeBinomial.cdf d) 0 0 :=
  ⟨fun a b ha hab => C01.negative_binomial_cdf_mono_rel_partial T d hr hp0 hp1 a b ha hab,
    fun k h0 hk => by omega⟩

/-- NegativeBinomial, `_partial` (`r = 0` excluded; quantile representable): `inverse_cdf q` is the
    smallest `k ≥ 0` with `cdf k ≥ q` for `0 < q < 1`. -/
theorem negative_binomial_inverse_cdf_quantile_rel_partial (T : BetaShiftSpec) (d : NegativeBinomial ℝ)
    (hr : 0 < d.f_r) (hp0 : 0 ≤ d.f_p) (hp1 : d.f_p ≤ 1) (q : ℝ) (hq0 : 0 < q) (hq1 : q < 1)
    (K : Int) (hK0 : 0 ≤ K) (hK : q ≤ NegativeBinomial.cdf d K) (hK2 : K ≤ 2 ^ 64) :
    IsDefaultQuantile (NegativeBinomial.cdf d) 0 0 q (NegativeBinomial.inverse_cdf d q) := by
  rw [negative_binomial_inverse_cdf_eq_dinv]
  exact default_inverse_cdf_quantile (negative_binomial_stepCdf_rel T d hr hp0 hp1) (NegativeBinomial.max d) K
    (by norm_num) (by norm_num) (by norm_num)
    hK0 hK hK2 hq0 hq1

/-- NegativeBinomial, `_partial` (`r = 0` excluded; quantile representable; no plateau hypothesis):
    `inverse_cdf q` is the smallest `k ≥ 0` with `cdf k ≥ q`, and lies in `[min(), K]`. -/
theorem negative_binomial_inverse_cdf_smallest_rel_partial (T : BetaShiftSpec) (d : NegativeBinomial ℝ)
    (hr : 0 < d.f_r) (hp0 : 0 ≤ d.f_p) (hp1 : d.f_p ≤ 1) (q : ℝ) (hq0 : 0 < q) (hq1 : q < 1)
    (K : Int) (hK0 : 0 ≤ K) (hK : q ≤ NegativeBinomial.cdf d K) (hK2 : K ≤ 2 ^ 64) :
    q ≤ NegativeBinomial.cdf d (NegativeBinomial.inverse_cdf d q) ∧
      (∀ j : Int, 0 ≤ j → j < NegativeBinomial.inverse_cdf d q → NegativeBinomial.cdf d j < q) ∧
      NegativeBinomial.min d ≤ NegativeBinomial.inverse_cdf d q ∧ NegativeBinomial.inverse_cdf d q ≤ K := by
  rw [negative_binomial_inverse_cdf_eq_dinv]
  exact default_inverse_cdf_smallest (negative_binomial_stepCdf_rel T d hr hp0 hp1) (NegativeBinomial.max d) K
    (by norm_num) (by norm_num)
    (by norm_num) hK0 hK hK2 hq0 hq1

example : ∃ d : NegativeBinomial ℝ, 0 < d.f_r ∧ 0 ≤ d.f_p ∧ d.f_p ≤ 1 :=
  ⟨⟨4, 0.5⟩, by norm_num, by norm_num, by norm_num⟩

/-! ## Hypergeometric (`successes ≤ population`, `draws ≤ population`, all `u64`) -/

theorem hypergeometric_loop1_eq (d : Hypergeometric) (p : ℝ) (two : Int) : ∀ (fuel : Nat) (ub : Int),
    Hypergeometric.inverse_cdf.loop1 fuel p d two ub = dloop (Hypergeometric.cdf (α := ℝ) d) fuel p two ub := by
  intro fuel
  induction fuel with
  | zero => intro ub; rfl
  | succ f ih =>
    intro ub
    rw [Hypergeometric.inverse_cdf.loop1, dloop]
    split_ifs
    · exact ih _
    · rfl

theorem hypergeometric_inverse_cdf_eq_dinv (d : Hypergeometric) (p : ℝ) :
    Hypergeometric.inverse_cdf d p =
      dinv (Hypergeometric.cdf (α := ℝ) d) (Hypergeometric.min (α := ℝ) d) (Hypergeometric.max (α := ℝ) d) p := by
  unfold Hypergeometric.inverse_cdf dinv
  rfun_norm
  rw [show (0.0:ℝ) = 0 by norm_num, show (1.0:ℝ) = 1 by norm_num, show ((1:Int) + 1) = 2 by norm_num]
  rw [hypergeometric_loop1_eq]
  split_ifs
  · rfl
  · rfl
  · rfl
  · generalize dloop (Hypergeometric.cdf (α := ℝ) d) loopFuel p 2 2 = r
    cases r <;> rfl

/-- the summand of the generated cdf: `exp(ln C(K,i) + ln C(N−K, n−i) − ln C(N,n))` -/
noncomputable def hyperTerm (d : Hypergeometric) (i : Int) : ℝ :=
  Real.exp (((SF.ln_binomial d.f_successes i : ℝ) +
    (SF.ln_binomial (usub d.f_population d.f_successes) (usub d.f_draws i))) -
    (SF.ln_binomial d.f_population d.f_draws))

theorem hyperTerm_pos (d : Hypergeometric) (i : Int) : 0 < hyperTerm d i := Real.exp_pos _

theorem hypergeometric_cdf_below (d : Hypergeometric) (k : Int) (hk : k < Hypergeometric.min (α := ℝ) d) :
    Hypergeometric.cdf (α := ℝ) d k = 0 := by
  unfold Hypergeometric.cdf; rw [if_pos hk]; norm_num

theorem hypergeometric_cdf_above (d : Hypergeometric) (k : Int) (hk1 : ¬ k < Hypergeometric.min (α := ℝ) d)
    (hk : Hypergeometric.max (α := ℝ) d ≤ k) : Hypergeometric.cdf (α := ℝ) d k = 1 := by
  unfold Hypergeometric.cdf; rw [if_neg hk1, if_pos hk]; norm_num

/-- inside the support the generated cdf is a partial sum of positive terms -/
theorem hypergeometric_cdf_mid (d : Hypergeometric) (k : ℕ) (hk1 : ¬ (k : Int) < Hypergeometric.min (α := ℝ) d)
    (hk2 : ¬ Hypergeometric.max (α := ℝ) d ≤ (k : Int)) :
    Hypergeometric.cdf (α := ℝ) d k = ∑ i ∈ Finset.range (k + 1), hyperTerm d (i : Int) := by
  unfold Hypergeometric.cdf
  rw [if_neg hk1, if_neg hk2]
  dsimp only
  have e : ((k : ℤ) + 1) = ((k + 1 : ℕ) : ℤ) := by push_cast; ring
  rw [e, Statrs.Lemmas.TestsHyper.foldl_rangeList_sum]
  rfl

omit [SF ℝ] in
theorem hypergeometric_min_nonneg (d : Hypergeometric) : 0 ≤ Hypergeometric.min (α := ℝ) d := by
  unfold Hypergeometric.min usatSub; split_ifs <;> omega

omit [SF ℝ] in
theorem hypergeometric_min_le_max (d : Hypergeometric) (hS0 : 0 ≤ d.f_successes) (hD0 : 0 ≤ d.f_draws)
    (hS : d.f_successes ≤ d.f_population) (hD : d.f_draws ≤ d.f_population) :
    Hypergeometric.min (α := ℝ) d ≤ Hypergeometric.max (α := ℝ) d := by
  unfold Hypergeometric.min Hypergeometric.max usatSub
  rw [le_min_iff]
  split_ifs <;> constructor <;> omega

theorem hypergeometric_cdf_nonneg (d : Hypergeometric) (k : Int) : 0 ≤ Hypergeometric.cdf (α := ℝ) d k := by
  by_cases h1 : k < Hypergeometric.min (α := ℝ) d
  · rw [hypergeometric_cdf_below d k h1]
  · by_cases h2 : Hypergeometric.max (α := ℝ) d ≤ k
    · rw [hypergeometric_cdf_above d k h1 h2]; norm_num
    · have hk0 : 0 ≤ k := (hypergeometric_min_nonneg d).trans (not_lt.mp h1)
      obtain ⟨n, rfl⟩ := Int.eq_ofNat_of_zero_le hk0
      rw [hypergeometric_cdf_mid d n h1 h2]
      exact Finset.sum_nonneg fun i _ => (hyperTerm_pos d i).le

/-- Hypergeometric: the cdf is non-decreasing on `k ≥ 0` and zero below `min()`, given only that the
    partial sums inside the support do not exceed 1 (premise `hle`; it fails for the IEEE
    evaluation — "cdf overshoots 1" — but holds for the exact binomial coefficients). -/
theorem hypergeometric_stepCdf_rel (d : Hypergeometric)
    (hle : ∀ k : Int, Hypergeometric.min (α := ℝ) d ≤ k → k < Hypergeometric.max (α := ℝ) d →
      Hypergeometric.cdf (α := ℝ) d k ≤ 1) :
    StepCdf (Hypergeometric.cdf (α := ℝ) d) 0 (Hypergeometric.min (α := ℝ) d) := by
  refine ⟨fun a b ha hab => ?_, fun k _ hk => hypergeometric_cdf_below d k hk⟩
  by_cases h1 : a < Hypergeometric.min (α := ℝ) d
  · rw [hypergeometric_cdf_below d a h1]; exact hypergeometric_cdf_nonneg d b
  · have hb1 : ¬ b < Hypergeometric.min (α := ℝ) d := by omega
    by_cases h2 : Hypergeometric.max (α := ℝ) d ≤ b
    · rw [hypergeometric_cdf_above d b hb1 h2]
      by_cases h3 : Hypergeometric.max (α := ℝ) d ≤ a
      · rw [hypergeometric_cdf_above d a h1 h3]
      · exact hle a (not_lt.mp h1) (not_le.mp h3)
    · have ha2 : ¬ Hypergeometric.max (α := ℝ) d ≤ a := by omega
      obtain ⟨n, rfl⟩ := Int.eq_ofNat_of_zero_le ha
      obtain ⟨m, rfl⟩ := Int.eq_ofNat_of_zero_le (ha.trans hab)
      rw [hypergeometric_cdf_mid d n h1 ha2, hypergeometric_cdf_mid d m hb1 h2]
      apply Finset.sum_le_sum_of_subset_of_nonneg
      · intro i hi; simp only [Finset.mem_range] at hi ⊢; omega
      · intro i _ _; exact (hyperTerm_pos d i).le

/-- Hypergeometric: strictly increasing wherever the value is strictly between 0 and 1 (no premise) -/
theorem hypergeometric_cdf_strict (d : Hypergeometric) (k : Int) (hk : 0 < k)
    (h0 : 0 < Hypergeometric.cdf (α := ℝ) d k) (h1 : Hypergeometric.cdf (α := ℝ) d k < 1) :
    Hypergeometric.cdf (α := ℝ) d (k - 1) < Hypergeometric.cdf (α := ℝ) d k := by
  have hk1 : ¬ k < Hypergeometric.min (α := ℝ) d := fun h => by
    rw [hypergeometric_cdf_below d k h] at h0; exact lt_irrefl _ h0
  have hk2 : ¬ Hypergeometric.max (α := ℝ) d ≤ k := fun h => by
    rw [hypergeometric_cdf_above d k hk1 h] at h1; exact lt_irrefl _ h1
  by_cases hp : k - 1 < Hypergeometric.min (α := ℝ) d
  · rw [hypergeometric_cdf_below d _ hp]; exact h0
  · obtain ⟨n, hn⟩ := Int.eq_ofNat_of_zero_le (show 0 ≤ k - 1 by omega)
    have hkn : k = ((n + 1 : ℕ) : ℤ) := by push_cast; omega
    rw [hn] at hp ⊢
    rw [hkn] at hk1 hk2 ⊢
    rw [hypergeometric_cdf_mid d n hp (by omega), hypergeometric_cdf_mid d (n + 1) hk1 hk2,
      Finset.sum_range_succ (fun i : ℕ => hyperTerm d (i : Int)) (n + 1)]
    have := hyperTerm_pos d ((n + 1 : ℕ) : ℤ)
    linarith

/-- Hypergeometric (constructor's conditions; all fields `u64`): relative to `cdf ≤ 1` inside the
    support, for `0 < q < 1` `inverse_cdf q` is the smallest `k ≥ 0` with `cdf k ≥ q`, and lies in
    `[min(), max()]`.  (No plateau hypothesis: the default handles plateaus; besides, inside the support
    this cdf is strictly increasing, `hypergeometric_cdf_strict`.) -/
theorem hypergeometric_inverse_cdf_smallest_rel (d : Hypergeometric)
    (hS0 : 0 ≤ d.f_successes) (hD0 : 0 ≤ d.f_draws)
    (hS : d.f_successes ≤ d.f_population) (hD : d.f_draws ≤ d.f_population) (hS64 : d.f_successes ≤ 2 ^ 64)
    (hle : ∀ k : Int, Hypergeometric.min (α := ℝ) d ≤ k → k < Hypergeometric.max (α := ℝ) d →
      Hypergeometric.cdf (α := ℝ) d k ≤ 1)
    (q : ℝ) (hq0 : 0 < q) (hq1 : q < 1) :
    q ≤ Hypergeometric.cdf (α := ℝ) d (Hypergeometric.inverse_cdf d q) ∧
      (∀ j : Int, 0 ≤ j → j < Hypergeometric.inverse_cdf d q → Hypergeometric.cdf (α := ℝ) d j < q) ∧
      Hypergeometric.min (α := ℝ) d ≤ Hypergeometric.inverse_cdf d q ∧
      Hypergeometric.inverse_cdf d q ≤ Hypergeometric.max (α := ℝ) d := by
  rw [hypergeometric_inverse_cdf_eq_dinv]
  have hmm := hypergeometric_min_le_max d hS0 hD0 hS hD
  have hm0 := hypergeometric_min_nonneg d
  have hK : q ≤ Hypergeometric.cdf (α := ℝ) d (Hypergeometric.max (α := ℝ) d) := by
    rw [hypergeometric_cdf_above d _ (not_lt.mpr hmm) le_rfl]; exact hq1.le
  have hK2 : Hypergeometric.max (α := ℝ) d ≤ 2 ^ 64 := (min_le_left _ _).trans hS64
  exact default_inverse_cdf_smallest (hypergeometric_stepCdf_rel d hle) _ _ (by norm_num) hm0
    (by linarith) (hm0.trans hmm) hK hK2 hq0 hq1

example : ∃ d : Hypergeometric, 0 ≤ d.f_successes ∧ 0 ≤ d.f_draws ∧ d.f_successes ≤ d.f_population ∧
    d.f_draws ≤ d.f_population ∧ d.f_successes ≤ 2 ^ 64 := ⟨⟨10, 4, 3⟩, by norm_num⟩

/-- the premise `hle` discharged from `LnBinomialSpec` (`exp (ln_binomial n k) = C(n,k)` on the
    triangle) when the summation never reaches below the support (`draws + successes ≤ population`,
    i.e. `min() = 0`): there the generated cdf is the exact lower tail -/
theorem hypergeometric_cdf_le_one_rel (L : Statrs.Spec.TestsSF.LnBinomialSpec) (N K n : ℕ) (hK : K ≤ N)
    (hn : n ≤ N) (hs : n + K ≤ N) (k : Int) (hk0 : 0 ≤ k) :
    Hypergeometric.cdf (α := ℝ) ⟨(N : ℤ), (K : ℤ), (n : ℤ)⟩ k ≤ 1 := by
  obtain ⟨x, rfl⟩ := Int.eq_ofNat_of_zero_le hk0
  rw [Statrs.Lemmas.TestsHyper.hyper_cdf_rel L N K n x hK hn (Or.inl hs)]
  exact Statrs.Lemmas.TestsHyper.hyperLower_le_one N K n x hK hn

/-- Hypergeometric, `_partial` (`draws + successes ≤ population` only): relative to `LnBinomialSpec`
    alone, `inverse_cdf q` is the smallest `k ≥ 0` with `cdf k ≥ q` and lies in `[min(), max()]`. -/
theorem hypergeometric_inverse_cdf_smallest_rel_partial (L : Statrs.Spec.TestsSF.LnBinomialSpec) (N K n : ℕ)
    (hK : K ≤ N) (hn : n ≤ N) (hs : n + K ≤ N) (hK64 : (K : ℤ) ≤ 2 ^ 64) (q : ℝ) (hq0 : 0 < q) (hq1 : q < 1) :
    let d : Hypergeometric := ⟨(N : ℤ), (K : ℤ), (n : ℤ)⟩
    q ≤ Hypergeometric.cdf (α := ℝ) d (Hypergeometric.inverse_cdf d q) ∧
      (∀ j : Int, 0 ≤ j → j < Hypergeometric.inverse_cdf d q → Hypergeometric.cdf (α := ℝ) d j < q) ∧
      Hypergeometric.min (α := ℝ) d ≤ Hypergeometric.inverse_cdf d q ∧
      Hypergeometric.inverse_cdf d q ≤ Hypergeometric.max (α := ℝ) d := by
  intro d
  exact hypergeometric_inverse_cdf_smallest_rel d (by simp [d]) (by simp [d]) (by simp [d]; exact_mod_cast hK)
    (by simp [d]; exact_mod_cast hn) hK64
    (fun k hk _ => hypergeometric_cdf_le_one_rel L N K n hK hn hs k ((hypergeometric_min_nonneg d).trans hk))
    q hq0 hq1

example : ∃ N K n : ℕ, K ≤ N ∧ n ≤ N ∧ n + K ≤ N ∧ (K : ℤ) ≤ 2 ^ 64 := ⟨10, 4, 3, by norm_num⟩

end

end Statrs.Props.C05

