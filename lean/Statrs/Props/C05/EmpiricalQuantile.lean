/-
  C05 — `Empirical::inverse_cdf` (src/distribution/empirical.rs:153 `__inverse_cdf`, the private copy of the
  trait-default 16-step bisection, after the repair 7d48d82 `while self.cdf(low) >= p`; hand model
  `Statrs.Model.Empirical.inverse_cdf` in `Model/VecSamplers.lean`) and the trait-default `std_dev`.

  Every carrier (branch logic only, so also IEEE `Float`):
    * `empirical_inverse_cdf_zero_any` / `_one_any`   — `p == 0.0 ↦ min()`, `p == 1.0 ↦ max()`;
    * `empirical_inverse_cdf_eq_none_iff_any`         — the model returns `none` exactly when `p ∉ {0,1}` and one of the
                                                         two doubling loops exhausts its fuel;
    * `empirical_std_dev_eq_any`                      — `std_dev = variance().map(sqrt)`.
  Over ℝ:
    * `empirical_inverse_cdf_eq_bisect`               — whenever it is not `none`, `inverse_cdf e p` IS the abstract default
                                                         bisection `Lemmas.Bisect.bisect (cdf e) (min e) (max e) p`; `none` is
                                                         characterised by the values of `cdf e` at `∓2^(k+1)`, `k < 20000`;
    * `empirical_inverse_cdf_bracket`                 — for ANY state: the result is the midpoint of a bracket `[l,h]` with
                                                         `cdf l < p ≤ cdf h` ("the bisection keeps `cdf(high) ≥ p`");
    * for an invariant state `Inv e m`, `m ≠ 0` (C15) and EVERY `0 < p < 1` — level `k/n` of the step cdf or not:
      `empirical_isQuantileLE` (the order statistic `⌈p·n⌉` of `m` is the smallest `x` with `cdf x ≥ p`),
      `empirical_inverse_cdf_bound` (`|inverse_cdf p − Q| ≤ 2⁻¹⁵·max 1 |Q|`), `empirical_inverse_cdf_range` (within the
      bound of `[min, max]`), `empirical_inverse_cdf_mono_partial` (monotone in `p` up to the two bounds),
      `empirical_isQuantile` (strong quantile when `p·n ∉ ℤ`), `empirical_std_dev_sq`, `empirical_std_dev_inv`.
  The statements that are FALSE for the model (result outside `[min,max]`, exact monotonicity in `p`) are in
  `Draft/C05/EmpiricalQuantileWitness.lean`.
-/
import Statrs.Model.VecSamplers
import Statrs.Props.C15.Observations
import Statrs.Lemmas.EmpiricalOrder
set_option linter.unusedVariables false
set_option linter.unusedSectionVars false
namespace Statrs.Props.C05
open Statrs Statrs.Gen Statrs.Model Statrs.Spec
open Statrs.Lemmas.Bisect Statrs.Lemmas.EmpiricalOrder Statrs.Props.C15

/-! ## every carrier -/

section generic
variable {α : Type} [Add α] [Sub α] [Mul α] [Div α] [Neg α] [LT α] [LE α] [BEq α]
  [DecidableLT α] [DecidableLE α] [OfScientific α] [Inhabited α] [RFun α]

/-- full(∀α): `p == 0.0` returns `self.min()` (no loop is run). -/
theorem empirical_inverse_cdf_zero_any (e : Empirical α) (p : α) (h : (p == (0.0 : α)) = true) :
    Empirical.inverse_cdf e p = some (Empirical.min e) := by
  unfold Empirical.inverse_cdf
  rw [if_pos h]

/-- full(∀α): `p == 1.0` (and not `== 0.0`) returns `self.max()` (no loop is run). -/
theorem empirical_inverse_cdf_one_any (e : Empirical α) (p : α) (h0 : ¬ (p == (0.0 : α)) = true)
    (h1 : (p == (1.0 : α)) = true) : Empirical.inverse_cdf e p = some (Empirical.max e) := by
  unfold Empirical.inverse_cdf
  rw [if_neg h0, if_pos h1]

/-- full(∀α): the first doubling loop has no early `return` -/
theorem empirical_invLow_ne_ret (e : Empirical α) (p : α) : ∀ (fuel : Nat) (low v : α),
    Empirical.invLow e p fuel low ≠ LoopR.ret v := by
  intro fuel
  induction fuel with
  | zero => intro low v h; simp [Empirical.invLow] at h
  | succ f ih =>
    intro low v
    rw [Empirical.invLow]
    split_ifs
    · exact ih _ v
    · simp

/-- full(∀α): the second doubling loop has no early `return` -/
theorem empirical_invHigh_ne_ret (e : Empirical α) (p : α) : ∀ (fuel : Nat) (high v : α),
    Empirical.invHigh e p fuel high ≠ LoopR.ret v := by
  intro fuel
  induction fuel with
  | zero => intro high v h; simp [Empirical.invHigh] at h
  | succ f ih =>
    intro high v
    rw [Empirical.invHigh]
    split_ifs
    · exact ih _ v
    · simp

/-- full(∀α): the model's `inverse_cdf` is `none` ("the real loop does not terminate within 20000 doublings")
    exactly when `p` is neither `0.0` nor `1.0` and one of the two doubling loops exhausts its fuel. -/
theorem empirical_inverse_cdf_eq_none_iff_any (e : Empirical α) (p : α) :
    Empirical.inverse_cdf e p = none ↔
      ¬ (p == (0.0 : α)) = true ∧ ¬ (p == (1.0 : α)) = true ∧
      (Empirical.invLow e p loopFuel (-(2.0 : α)) = LoopR.hang ∨
       Empirical.invHigh e p loopFuel (2.0 : α) = LoopR.hang) := by
  unfold Empirical.inverse_cdf
  by_cases h0 : (p == (0.0 : α)) = true
  · rw [if_pos h0]; simp [h0]
  · rw [if_neg h0]
    by_cases h1 : (p == (1.0 : α)) = true
    · rw [if_pos h1]; simp [h1]
    · rw [if_neg h1]
      simp only [h0, h1]
      cases hl : Empirical.invLow e p loopFuel (-(2.0 : α)) with
      | ret v => exact absurd hl (empirical_invLow_ne_ret e p _ _ v)
      | hang => simp
      | done low =>
        cases hh : Empirical.invHigh e p loopFuel (2.0 : α) with
        | ret v => exact absurd hh (empirical_invHigh_ne_ret e p _ _ v)
        | hang => simp
        | done high => simp

/-- full(∀α): the trait-default `std_dev` is `variance().map(sqrt)` — `None` on the empty distribution. -/
theorem empirical_std_dev_eq_any (e : Empirical α) :
    Empirical.std_dev e = (Empirical.variance e).map (fun v => RFun.sqrt v) := rfl

/-- full(∀α): `std_dev` is `None` exactly when `variance` is (the empty distribution). -/
theorem empirical_std_dev_eq_none_iff_any (e : Empirical α) :
    Empirical.std_dev e = none ↔ e.f_data.isEmpty = true := by
  unfold Empirical.std_dev Empirical.variance
  split_ifs with h <;> simp [h]

end generic

/-! ## over ℝ: the model is the abstract default bisection -/

/-- full(ℝ): the first doubling loop of the model is `Bisect.loop1` on `cdf e` -/
theorem empirical_invLow_eq_loop1 (e : Empirical ℝ) (p : ℝ) : ∀ (fuel : Nat) (low : ℝ),
    Empirical.invLow e p fuel low = loop1 (Empirical.cdf e) fuel p low := by
  intro fuel
  induction fuel with
  | zero => intro low; rfl
  | succ f ih => intro low; rw [Empirical.invLow, loop1, ih]

/-- full(ℝ): the second doubling loop of the model is `Bisect.loop3` on `cdf e` -/
theorem empirical_invHigh_eq_loop3 (e : Empirical ℝ) (p : ℝ) : ∀ (fuel : Nat) (high : ℝ),
    Empirical.invHigh e p fuel high = loop3 (Empirical.cdf e) fuel p high := by
  intro fuel
  induction fuel with
  | zero => intro high; rfl
  | succ f ih => intro high; rw [Empirical.invHigh, loop3, ih]

/-- full(ℝ): the model's `n` bisection steps are `Bisect.loop5` on `cdf e` (counter `n ↦ 0`) -/
theorem empirical_invBisect_eq_loop5 (e : Empirical ℝ) (p : ℝ) (n : Nat) : ∀ (fuel : Nat) (high low : ℝ),
    n < fuel → loop5 (Empirical.cdf e) fuel p 2 high low (n : Int) =
      LoopR.done ((Empirical.invBisect e p n high low).1, (Empirical.invBisect e p n high low).2, 0) := by
  have two : (2.0 : ℝ) = 2 := by norm_num
  induction n with
  | zero =>
    intro fuel high low hf
    obtain ⟨f, rfl⟩ : ∃ f, fuel = f + 1 := ⟨fuel - 1, by omega⟩
    simp [loop5, Empirical.invBisect]
  | succ n ih =>
    intro fuel high low hf
    obtain ⟨f, rfl⟩ : ∃ f, fuel = f + 1 := ⟨fuel - 1, by omega⟩
    have hi : ((n + 1 : Nat) : Int) ≠ 0 := by omega
    have hi2 : ((n + 1 : Nat) : Int) - 1 = (n : Int) := by push_cast; ring
    rw [loop5, if_pos hi, hi2, Empirical.invBisect]
    simp only [two]
    by_cases hb : p ≤ Empirical.cdf e ((high + low) / 2)
    · rw [if_pos hb, if_pos hb]; exact ih f _ _ (by omega)
    · rw [if_neg hb, if_neg hb]; exact ih f _ _ (by omega)

/-- full(ℝ): for EVERY state `e` and every `p`, the model's `inverse_cdf` is either `none` (a doubling loop
    exhausted its fuel, see `empirical_inverse_cdf_eq_none_iff`) or the abstract default bisection of
    `Lemmas/Bisect.lean` run on `cdf e`, with `min e`/`max e` at `p = 0`/`p = 1`. -/
theorem empirical_inverse_cdf_eq_bisect (e : Empirical ℝ) (p : ℝ) (h : Empirical.inverse_cdf e p ≠ none) :
    Empirical.inverse_cdf e p =
      some (bisect (Empirical.cdf e) (Empirical.min e) (Empirical.max e) p) := by
  have two : (2.0 : ℝ) = 2 := by norm_num
  have zero : (0.0 : ℝ) = 0 := by norm_num
  have one : (1.0 : ℝ) = 1 := by norm_num
  revert h
  unfold Empirical.inverse_cdf bisect
  simp only [real_beq, zero, one, two]
  rw [empirical_invLow_eq_loop1, empirical_invHigh_eq_loop3]
  by_cases h0 : p = 0
  · simp [h0]
  · rw [if_neg h0, if_neg h0]
    by_cases h1 : p = 1
    · simp [h1]
    · rw [if_neg h1, if_neg h1]
      cases hl : loop1 (Empirical.cdf e) loopFuel p (-2) with
      | ret v => simp
      | hang => simp
      | done low =>
        cases hh : loop3 (Empirical.cdf e) loopFuel p 2 with
        | ret v => simp
        | hang => simp
        | done high =>
          intro _
          have h5 := empirical_invBisect_eq_loop5 e p 16 loopFuel high low (by unfold loopFuel; norm_num)
          have h5' : loop5 (Empirical.cdf e) loopFuel p 2 high low 16 =
              LoopR.done ((Empirical.invBisect e p 16 high low).1, (Empirical.invBisect e p 16 high low).2, 0) := by
            exact_mod_cast h5
          simp only [h5']

/-- full(ℝ): the same, with the hypothesis in the form "the two doubling loops finish". -/
theorem empirical_inverse_cdf_eq_bisect_of_done (e : Empirical ℝ) (p low high : ℝ)
    (hl : Empirical.invLow e p loopFuel (-2) = LoopR.done low)
    (hh : Empirical.invHigh e p loopFuel 2 = LoopR.done high) :
    Empirical.inverse_cdf e p =
      some (bisect (Empirical.cdf e) (Empirical.min e) (Empirical.max e) p) := by
  apply empirical_inverse_cdf_eq_bisect
  rw [Ne, empirical_inverse_cdf_eq_none_iff_any]
  have two : (2.0 : ℝ) = 2 := by norm_num
  rw [two, hl, hh]
  simp

/-- full(ℝ): `none` exactly: `p ∉ {0, 1}` and either `cdf(−2^(k+1)) ≥ p` for all `k < 20000` or
    `cdf(2^(k+1)) < p` for all `k < 20000`. -/
theorem empirical_inverse_cdf_eq_none_iff (e : Empirical ℝ) (p : ℝ) :
    Empirical.inverse_cdf e p = none ↔
      p ≠ 0 ∧ p ≠ 1 ∧ ((∀ k, k < loopFuel → p ≤ Empirical.cdf e (-2 * 2 ^ k)) ∨
                        (∀ k, k < loopFuel → Empirical.cdf e (2 * 2 ^ k) < p)) := by
  have two : (2.0 : ℝ) = 2 := by norm_num
  have zero : (0.0 : ℝ) = 0 := by norm_num
  have one : (1.0 : ℝ) = 1 := by norm_num
  rw [empirical_inverse_cdf_eq_none_iff_any, empirical_invLow_eq_loop1, empirical_invHigh_eq_loop3,
    loop1_eq_hang_iff, loop3_eq_hang_iff]
  simp only [real_beq, zero, one, two]

/-- full(ℝ): either `none` or the abstract bisection — the two cases of `inverse_cdf`, in one statement. -/
theorem empirical_inverse_cdf_cases (e : Empirical ℝ) (p : ℝ) :
    Empirical.inverse_cdf e p = none ∨
    Empirical.inverse_cdf e p = some (bisect (Empirical.cdf e) (Empirical.min e) (Empirical.max e) p) := by
  by_cases h : Empirical.inverse_cdf e p = none
  · exact Or.inl h
  · exact Or.inr (empirical_inverse_cdf_eq_bisect e p h)

/-- full(ℝ): `p = 0 ↦ min()`. -/
theorem empirical_inverse_cdf_zero (e : Empirical ℝ) : Empirical.inverse_cdf e 0 = some (Empirical.min e) :=
  empirical_inverse_cdf_zero_any e 0 (by rw [real_beq]; norm_num)

/-- full(ℝ): `p = 1 ↦ max()`. -/
theorem empirical_inverse_cdf_one (e : Empirical ℝ) : Empirical.inverse_cdf e 1 = some (Empirical.max e) :=
  empirical_inverse_cdf_one_any e 1 (by rw [real_beq]; norm_num) (by rw [real_beq]; norm_num)

/-- full(ℝ): for ANY state (no invariant, no quantile assumption): if the loops finish, the result `v` is the
    midpoint of a bracket `[l, h]` of width `(high₀ − low₀)/2^16` inside `[low₀, high₀]` (the points where the two
    doubling loops stopped) with `cdf h ≥ p` — the bisection keeps `cdf(high) ≥ p` — and `cdf l < p`. -/
theorem empirical_inverse_cdf_bracket (e : Empirical ℝ) (p v : ℝ) (hp0 : p ≠ 0) (hp1 : p ≠ 1)
    (hv : Empirical.inverse_cdf e p = some v) :
    ∃ low₀ high₀ h l, Empirical.invLow e p loopFuel (-2) = LoopR.done low₀ ∧
      Empirical.invHigh e p loopFuel 2 = LoopR.done high₀ ∧
      v = (h + l) / 2 ∧ h - l = (high₀ - low₀) / 2 ^ 16 ∧ low₀ ≤ l ∧ h ≤ high₀ ∧ l ≤ h ∧
      p ≤ Empirical.cdf e h ∧ Empirical.cdf e l < p := by
  have hne : Empirical.inverse_cdf e p ≠ none := by rw [hv]; simp
  have hb := empirical_inverse_cdf_eq_bisect e p hne
  rw [hv] at hb
  have hnn := (not_congr (empirical_inverse_cdf_eq_none_iff_any e p)).1 hne
  have two : (2.0 : ℝ) = 2 := by norm_num
  have zero : (0.0 : ℝ) = 0 := by norm_num
  have one : (1.0 : ℝ) = 1 := by norm_num
  simp only [real_beq, zero, one, two, hp0, hp1, not_false_eq_true, true_and, not_or] at hnn
  obtain ⟨n1, n3⟩ := hnn
  rw [empirical_invLow_eq_loop1] at n1 ⊢
  rw [empirical_invHigh_eq_loop3] at n3 ⊢
  cases hl : loop1 (Empirical.cdf e) loopFuel p (-2) with
  | ret w => exact absurd hl (loop1_ne_ret _ _ _ _ _)
  | hang => exact absurd hl n1
  | done low =>
    cases hh : loop3 (Empirical.cdf e) loopFuel p 2 with
    | ret w => exact absurd hh (loop3_ne_ret _ _ _ _ _)
    | hang => exact absurd hh n3
    | done high =>
      obtain ⟨h, l, eb, r⟩ := bisect_bracket (Empirical.cdf e) (Empirical.min e) (Empirical.max e) p hp0 hp1 hl hh
      exact ⟨low, high, h, l, rfl, rfl, by rw [← eb]; exact Option.some.inj hb, r⟩

/-! ## invariant states (C15): the order statistic `⌈p·n⌉` -/

/-- full(ℝ): on an invariant state the model's `cdf` is the step cdf of the held multiset, as functions -/
theorem inv_cdf_fun_eq {e : Empirical ℝ} {m : Multiset ℝ} (h : Inv e m) :
    Empirical.cdf e = EmpiricalSpec.cdf m := funext h.cdf_eq

/-- full(ℝ): on a state holding the non-empty multiset `m`, for EVERY `0 < p ≤ 1` (levels `k/n` of the step cdf
    included) the order statistic `⌈p·n⌉` (`Lemmas.EmpiricalOrder.quantile m p`, via the sorted list of `m`) is the
    smallest `x` with `cdf x ≥ p` — the premise `IsQuantileLE` of the bisection bound. -/
theorem empirical_isQuantileLE {e : Empirical ℝ} {m : Multiset ℝ} (h : Inv e m) (hm : m ≠ 0) {p : ℝ}
    (hp0 : 0 < p) (hp1 : p ≤ 1) : IsQuantileLE (Empirical.cdf e) p (quantile m p) := by
  rw [inv_cdf_fun_eq h]; exact cdf_isQuantileLE hm hp0 hp1

/-- full(ℝ): if moreover `p·n` is not an integer (`p` is not a level of the step cdf), it is the `p`-quantile in
    the older strong sense (`cdf > p` from `Q` on). -/
theorem empirical_isQuantile {e : Empirical ℝ} {m : Multiset ℝ} (h : Inv e m) (hm : m ≠ 0) {p : ℝ}
    (hp0 : 0 < p) (hp1 : p ≤ 1) (hlev : ∀ k : ℤ, p * (Multiset.card m : ℝ) ≠ (k : ℝ)) :
    IsQuantile (Empirical.cdf e) p (quantile m p) := by
  rw [inv_cdf_fun_eq h]; exact cdf_isQuantile hm hp0 hp1 hlev

/-- full(ℝ): `Q(p)` is one of the held values, `min() ≤ Q(p) ≤ max()`, `cdf(Q(p)) ≥ p`, and it is the ONLY
    point with the `IsQuantileLE` property. -/
theorem empirical_quantile_mem_range {e : Empirical ℝ} {m : Multiset ℝ} (h : Inv e m) (hm : m ≠ 0) {p : ℝ}
    (hp0 : 0 < p) (hp1 : p ≤ 1) :
    quantile m p ∈ m ∧ Empirical.min e ≤ quantile m p ∧ quantile m p ≤ Empirical.max e ∧
      p ≤ Empirical.cdf e (quantile m p) ∧
      ∀ Q', IsQuantileLE (Empirical.cdf e) p Q' → Q' = quantile m p := by
  have hmem := quantile_mem hm hp0 hp1
  have hq := empirical_isQuantileLE h hm hp0 hp1
  exact ⟨hmem, (h.min_isMin hm).2 hmem, (h.max_isMax hm).2 hmem, hq.atOrAbove _ le_rfl,
    fun Q' hQ' => hQ'.unique hq⟩

/-- full(ℝ): on an invariant non-empty state both doubling loops finish for every `p ∈ (0, 1]` when the quantile
    is a finite double, i.e. the model's `inverse_cdf` is not `none` -/
theorem empirical_inverse_cdf_isSome {e : Empirical ℝ} {m : Multiset ℝ} (h : Inv e m) (hm : m ≠ 0) {p : ℝ}
    (hp0 : 0 < p) (hp1 : p ≤ 1) (hQb : |quantile m p| ≤ 2 ^ 1024) :
    Empirical.inverse_cdf e p ≠ none := by
  rw [Ne, empirical_inverse_cdf_eq_none_iff_any, empirical_invLow_eq_loop1, empirical_invHigh_eq_loop3]
  obtain ⟨low, high, e1, e3⟩ := loops_finish (empirical_isQuantileLE h hm hp0 hp1) hQb
  have two : (2.0 : ℝ) = 2 := by norm_num
  rw [two, e1, e3]
  simp

/-- full(ℝ): **the property's generic-fallback bound for Empirical, levels included.**  State holding `m ≠ 0`, any
    `0 < p < 1`, `Q` = order statistic `⌈p·n⌉` = the smallest held value with `cdf ≥ p`, `|Q| ≤ 2^1024` (any finite
    double): `inverse_cdf p` terminates and is within `2⁻¹⁵·max 1 |Q|` of `Q`.  (Before the repair 7d48d82 this failed
    at the levels `p = k/n`: the first doubling loop stopped on the plateau.) -/
theorem empirical_inverse_cdf_bound {e : Empirical ℝ} {m : Multiset ℝ} (h : Inv e m) (hm : m ≠ 0) {p : ℝ}
    (hp0 : 0 < p) (hp1 : p < 1) (hQb : |quantile m p| ≤ 2 ^ 1024) :
    ∃ v, Empirical.inverse_cdf e p = some v ∧ |v - quantile m p| ≤ 2⁻¹ ^ 15 * max 1 |quantile m p| := by
  have hs := empirical_inverse_cdf_isSome h hm hp0 hp1.le hQb
  refine ⟨_, empirical_inverse_cdf_eq_bisect e p hs, ?_⟩
  exact bisect_bound_le (empirical_isQuantileLE h hm hp0 hp1.le) _ _ hp0.ne' hp1.ne hQb

/-- full(ℝ): … and the final bracket really contains the quantile: the result is `(h + l)/2` with
    `l < Q ≤ h` and `cdf l < p ≤ cdf h`. -/
theorem empirical_inverse_cdf_bracket_quantile {e : Empirical ℝ} {m : Multiset ℝ} (h : Inv e m) (hm : m ≠ 0)
    {p : ℝ} (hp0 : 0 < p) (hp1 : p < 1) (hQb : |quantile m p| ≤ 2 ^ 1024) :
    ∃ hi lo, Empirical.inverse_cdf e p = some ((hi + lo) / 2) ∧ lo < quantile m p ∧ quantile m p ≤ hi ∧
      Empirical.cdf e lo < p ∧ p ≤ Empirical.cdf e hi := by
  have hs := empirical_inverse_cdf_isSome h hm hp0 hp1.le hQb
  have hq := empirical_isQuantileLE h hm hp0 hp1.le
  obtain ⟨low, high, e1, e3⟩ := loops_finish hq hQb
  obtain ⟨hi, lo, eb, _, _, _, _, fh, fl⟩ :=
    bisect_bracket (Empirical.cdf e) (Empirical.min e) (Empirical.max e) p hp0.ne' hp1.ne e1 e3
  obtain ⟨m1, m2⟩ := bisect_bracket_mem hq fh fl
  exact ⟨hi, lo, by rw [empirical_inverse_cdf_eq_bisect e p hs, eb], m1, m2, fl, fh⟩

/-- full(ℝ): … consequently the result lies in `[min() − ε, max() + ε]`, `ε = 2⁻¹⁵·max 1 |Q|`.  (It can really
    leave `[min(), max()]` on either side: `EmpiricalQuantileWitness.lean`.) -/
theorem empirical_inverse_cdf_range {e : Empirical ℝ} {m : Multiset ℝ} (h : Inv e m) (hm : m ≠ 0) {p : ℝ}
    (hp0 : 0 < p) (hp1 : p < 1) (hQb : |quantile m p| ≤ 2 ^ 1024) :
    ∃ v, Empirical.inverse_cdf e p = some v ∧
      Empirical.min e - 2⁻¹ ^ 15 * max 1 |quantile m p| ≤ v ∧
      v ≤ Empirical.max e + 2⁻¹ ^ 15 * max 1 |quantile m p| := by
  obtain ⟨v, hv, hb⟩ := empirical_inverse_cdf_bound h hm hp0 hp1 hQb
  obtain ⟨_, h1, h2, _⟩ := empirical_quantile_mem_range h hm hp0 hp1.le
  obtain ⟨b1, b2⟩ := abs_le.mp hb
  exact ⟨v, hv, by linarith, by linarith⟩

/-- partial(exact monotonicity is false, see `empirical_inverse_cdf_mono_counterexample`): for `p ≤ q` in `(0,1)`
    the results are ordered up to the two error bounds:
    `inverse_cdf p ≤ inverse_cdf q + 2⁻¹⁵·(max 1 |Q(p)| + max 1 |Q(q)|)`; the quantiles themselves are ordered. -/
theorem empirical_inverse_cdf_mono_partial {e : Empirical ℝ} {m : Multiset ℝ} (h : Inv e m) (hm : m ≠ 0)
    {p q : ℝ} (hp0 : 0 < p) (hpq : p ≤ q) (hq1 : q < 1)
    (hQp : |quantile m p| ≤ 2 ^ 1024) (hQq : |quantile m q| ≤ 2 ^ 1024) :
    quantile m p ≤ quantile m q ∧
    ∃ v w, Empirical.inverse_cdf e p = some v ∧ Empirical.inverse_cdf e q = some w ∧
      v ≤ w + 2⁻¹ ^ 15 * (max 1 |quantile m p| + max 1 |quantile m q|) := by
  obtain ⟨v, hv, bv⟩ := empirical_inverse_cdf_bound h hm hp0 (lt_of_le_of_lt hpq hq1) hQp
  obtain ⟨w, hw, bw⟩ := empirical_inverse_cdf_bound h hm (lt_of_lt_of_le hp0 hpq) hq1 hQq
  have hmono := quantile_mono hm hp0 hpq hq1.le
  obtain ⟨_, b2⟩ := abs_le.mp bv
  obtain ⟨c1, _⟩ := abs_le.mp bw
  exact ⟨hmono, v, w, hv, hw, by linarith⟩

/-- full(ℝ): the bound after any history of `add`/`remove` calls (C15 `inv_run`). -/
theorem empirical_inverse_cdf_bound_run (ops : List (EmpiricalSpec.Op ℝ)) (hm : EmpiricalSpec.surviving ops ≠ 0)
    {p : ℝ} (hp0 : 0 < p) (hp1 : p < 1)
    (hQb : |quantile (EmpiricalSpec.surviving ops) p| ≤ 2 ^ 1024) :
    ∃ v, Empirical.inverse_cdf (run ops) p = some v ∧
      |v - quantile (EmpiricalSpec.surviving ops) p| ≤ 2⁻¹ ^ 15 * max 1 |quantile (EmpiricalSpec.surviving ops) p| :=
  empirical_inverse_cdf_bound (inv_run ops) hm hp0 hp1 hQb

/-- full(ℝ): the bound for `Empirical::from_iter(l)`, with the quantile written as the `Spec.OrderStats.kth`
    order statistic (0-based index `⌈p·n⌉ − 1`) of the data list. -/
theorem empirical_inverse_cdf_bound_from_iter (l : List ℝ) (hl : l ≠ []) {p : ℝ} (hp0 : 0 < p) (hp1 : p < 1)
    (hQb : |Spec.OrderStats.kth l (quantileIdx p l.length)| ≤ 2 ^ 1024) :
    ∃ v, Empirical.inverse_cdf (Empirical.from_iter l) p = some v ∧
      |v - Spec.OrderStats.kth l (quantileIdx p l.length)|
        ≤ 2⁻¹ ^ 15 * max 1 |Spec.OrderStats.kth l (quantileIdx p l.length)| := by
  have hq : quantile (l : Multiset ℝ) p = Spec.OrderStats.kth l (quantileIdx p l.length) := by
    unfold quantile; rw [orderStat_coe, Multiset.coe_card]
  have hm : (l : Multiset ℝ) ≠ 0 := by simpa using hl
  have := empirical_inverse_cdf_bound (inv_from_iter l) hm hp0 hp1 (by rw [hq]; exact hQb)
  rwa [hq] at this

/-! ### non-vacuity -/

example : ∃ (e : Empirical ℝ) (m : Multiset ℝ) (p : ℝ), Inv e m ∧ m ≠ 0 ∧ 0 < p ∧ p < 1 ∧
    |quantile m p| ≤ 2 ^ 1024 := by
  refine ⟨Empirical.from_iter [3], ((([3] : List ℝ)) : Multiset ℝ), 1 / 2, inv_from_iter [3], by simp,
    by norm_num, by norm_num, ?_⟩
  have hq : quantile ((([3] : List ℝ)) : Multiset ℝ) (1 / 2) = 3 := by
    have hmem := quantile_mem (m := ((([3] : List ℝ)) : Multiset ℝ)) (by simp) (p := 1 / 2) (by norm_num) (by norm_num)
    simpa using hmem
  rw [hq]
  have : (3 : ℝ) ≤ 2 ^ 1024 := by
    calc (3 : ℝ) ≤ 2 ^ 2 := by norm_num
      _ ≤ 2 ^ 1024 := pow_le_pow_right₀ (by norm_num) (by norm_num)
  rw [abs_of_pos (by norm_num)]; exact this

/-! ## `std_dev` -/

/-- full(ℝ): `std_dev = variance.map √`, and when the variance is `≥ 0` the square of `std_dev` is the variance. -/
theorem empirical_std_dev_sq (e : Empirical ℝ) (v : ℝ) (hv : Empirical.variance e = some v) (h0 : 0 ≤ v) :
    Empirical.std_dev e = some (Real.sqrt v) ∧ Real.sqrt v * Real.sqrt v = v ∧ 0 ≤ Real.sqrt v := by
  refine ⟨?_, Real.mul_self_sqrt h0, Real.sqrt_nonneg v⟩
  rw [empirical_std_dev_eq_any, hv]; rfl

/-- full(ℝ): the textbook variance `Σ (x − x̄)²/(n − 1)` of a non-empty multiset is `≥ 0` (`0/0 = 0` for `n = 1`) -/
theorem spec_variance_nonneg {m : Multiset ℝ} (hm : m ≠ 0) : 0 ≤ EmpiricalSpec.variance m := by
  unfold EmpiricalSpec.variance
  apply div_nonneg
  · unfold EmpiricalSpec.ssd
    apply Multiset.sum_nonneg
    intro x hx
    obtain ⟨y, _, rfl⟩ := Multiset.mem_map.1 hx
    positivity
  · have : 1 ≤ Multiset.card m := Multiset.card_pos.2 hm
    have : (1 : ℝ) ≤ EmpiricalSpec.count m := by unfold EmpiricalSpec.count; exact_mod_cast this
    linarith

/-- full(ℝ): on every invariant state (any history of `add`/`remove`, C15) `std_dev` is `None` when nothing is
    held, else the square root of the textbook variance of the held values; its square is that variance. -/
theorem empirical_std_dev_inv {e : Empirical ℝ} {m : Multiset ℝ} (h : Inv e m) :
    Empirical.std_dev e = (if m = 0 then none else some (Real.sqrt (EmpiricalSpec.variance m))) ∧
    (m ≠ 0 → Real.sqrt (EmpiricalSpec.variance m) * Real.sqrt (EmpiricalSpec.variance m)
      = EmpiricalSpec.variance m) := by
  refine ⟨?_, fun hm => Real.mul_self_sqrt (spec_variance_nonneg hm)⟩
  rw [empirical_std_dev_eq_any, h.variance_eq]
  split_ifs <;> rfl

end Statrs.Props.C05
