/-
  C05 — `Empirical::inverse_cdf` (hand model `Statrs.Model.Empirical.inverse_cdf`, current tree: first doubling loop
  `while cdf(low) >= p`): statements that are FALSE for the model, each proved on a concrete witness by running the
  model (two doubling loops + 16 bisection steps) in exact arithmetic.  The states are `Empirical::from_iter` of
  one or two points; the same values come out of the real crate (replayed on /repo, f64).

    * `empirical_inverse_cdf_lt_min_counterexample` — data `{0}`, `p = 1/2`: the result is `−2⁻¹⁵ < min() = 0`;
    * `empirical_inverse_cdf_gt_max_counterexample` — data `{3}`, `p = 1/2`: the result is `3 + 2⁻¹⁶ > max() = 3`
      (so `inverse_cdf` does not map `(0,1)` into `[min(), max()]`; it does up to the bisection bound,
      `empirical_inverse_cdf_range`);
    * `empirical_inverse_cdf_mono_counterexample` — data `{−8, −8 + 2⁻¹⁶}`, `p = 1/4 < q = 3/4` (not levels):
      `inverse_cdf p = −8 + 7·2⁻¹⁶ > inverse_cdf q = −8 + 5·2⁻¹⁶` (different initial brackets `[−16,2]`, `[−8,2]`):
      `inverse_cdf` is not monotone in `p` (it is up to the bound, `empirical_inverse_cdf_mono_partial`).
  And one positive evaluation, the level case that the repair 7d48d82 is about:
    * `empirical_inverse_cdf_level_example` — data `{−3, 5}`, `p = 1/2` (a level of the step cdf): the result is
      `−3 − 2⁻¹⁶`, within the bound of the smallest `x` with `cdf x ≥ p` (`−3`).  (With the former `while cdf(low) > p`
      the first loop stopped at `−2` and the result was `−2 + 2⁻¹⁵`.)
-/
import Statrs.Props.C05.EmpiricalQuantile
set_option linter.unusedVariables false
namespace Statrs.Props.C05
open Statrs Statrs.Gen Statrs.Model Statrs.Spec
open Statrs.Lemmas.Bisect Statrs.Lemmas.EmpiricalOrder Statrs.Props.C15

/-! ### evaluation helpers -/

/-- full(ℝ): one bisection step of the model taking the upper half-bracket (`cdf(mid) ≥ p`) -/
theorem bis_le (e : Empirical ℝ) (p : ℝ) (n : ℕ) (hi lo mid : ℝ) (r : ℝ × ℝ) (hm : (hi + lo) / 2 = mid)
    (h : p ≤ Empirical.cdf e mid) (hr : Empirical.invBisect e p n mid lo = r) :
    Empirical.invBisect e p (n + 1) hi lo = r := by
  have two : (2.0 : ℝ) = 2 := by norm_num
  rw [Empirical.invBisect]
  simp only [two, hm]
  rw [if_pos h, hr]

/-- full(ℝ): one bisection step of the model taking the lower half-bracket (`cdf(mid) < p`) -/
theorem bis_lt (e : Empirical ℝ) (p : ℝ) (n : ℕ) (hi lo mid : ℝ) (r : ℝ × ℝ) (hm : (hi + lo) / 2 = mid)
    (h : Empirical.cdf e mid < p) (hr : Empirical.invBisect e p n hi mid = r) :
    Empirical.invBisect e p (n + 1) hi lo = r := by
  have two : (2.0 : ℝ) = 2 := by norm_num
  rw [Empirical.invBisect]
  simp only [two, hm]
  rw [if_neg (not_le.mpr h), hr]

/-- full(ℝ): assembling the three phases of `__inverse_cdf` -/
theorem inverse_cdf_eval (e : Empirical ℝ) (p low high h l : ℝ) (hp0 : p ≠ 0) (hp1 : p ≠ 1)
    (h1 : loop1 (Empirical.cdf e) loopFuel p (-2) = LoopR.done low)
    (h3 : loop3 (Empirical.cdf e) loopFuel p 2 = LoopR.done high)
    (h5 : Empirical.invBisect e p 16 high low = (h, l)) :
    Empirical.inverse_cdf e p = some ((h + l) / 2) := by
  have two : (2.0 : ℝ) = 2 := by norm_num
  have zero : (0.0 : ℝ) = 0 := by norm_num
  have one : (1.0 : ℝ) = 1 := by norm_num
  unfold Empirical.inverse_cdf
  simp only [real_beq, zero, one, two]
  rw [if_neg hp0, if_neg hp1, empirical_invLow_eq_loop1, empirical_invHigh_eq_loop3, h1]
  simp only
  rw [h3]
  simp only
  rw [h5]

/-- full(ℝ): the step cdf of one point -/
theorem cdf_from_iter_one (a x : ℝ) :
    Empirical.cdf (Empirical.from_iter (α := ℝ) [a]) x = if a ≤ x then 1 else 0 := by
  rw [(inv_from_iter [a]).cdf_eq]
  unfold EmpiricalSpec.cdf EmpiricalSpec.count
  rw [Multiset.filter_coe]
  by_cases h : a ≤ x <;> simp [h]

/-- full(ℝ): the step cdf of two points -/
theorem cdf_from_iter_two (a b x : ℝ) :
    Empirical.cdf (Empirical.from_iter (α := ℝ) [a, b]) x =
      ((if a ≤ x then 1 else 0) + (if b ≤ x then 1 else 0)) / 2 := by
  rw [(inv_from_iter [a, b]).cdf_eq]
  unfold EmpiricalSpec.cdf EmpiricalSpec.count
  rw [Multiset.filter_coe]
  by_cases h : a ≤ x <;> by_cases h' : b ≤ x <;> simp [h, h']

/-- full(ℝ): `min()` of `from_iter l` is the least element of `l` -/
theorem min_from_iter (l : List ℝ) (hl : l ≠ []) (a : ℝ) (ha : a ∈ l) (hmin : ∀ y ∈ l, a ≤ y) :
    Empirical.min (Empirical.from_iter l) = a := by
  have hm : (l : Multiset ℝ) ≠ 0 := by simpa using hl
  have := (inv_from_iter l).min_isMin hm
  exact this.unique ⟨by simpa using ha, fun y hy => hmin y (by simpa using hy)⟩

/-- full(ℝ): `max()` of `from_iter l` is the greatest element of `l` -/
theorem max_from_iter (l : List ℝ) (hl : l ≠ []) (a : ℝ) (ha : a ∈ l) (hmax : ∀ y ∈ l, y ≤ a) :
    Empirical.max (Empirical.from_iter l) = a := by
  have hm : (l : Multiset ℝ) ≠ 0 := by simpa using hl
  have := (inv_from_iter l).max_isMax hm
  exact this.unique ⟨by simpa using ha, fun y hy => hmax y (by simpa using hy)⟩

/-! ### below `min()` -/

/-- full(ℝ): the model run on data `{0}`, `p = 1/2`: result `−2⁻¹⁵` -/
theorem inverse_cdf_zero_half :
    Empirical.inverse_cdf (Empirical.from_iter (α := ℝ) [0]) (1 / 2) = some (-1 / 32768) := by
  have hc := cdf_from_iter_one 0
  have h1 : loop1 (Empirical.cdf (Empirical.from_iter (α := ℝ) [0])) loopFuel (1 / 2) (-2) = LoopR.done (-2) :=
    (loop1_eq_done_iff _ _ _ _ _).2 ⟨0, by unfold loopFuel; norm_num, by norm_num, by rw [hc]; norm_num,
      fun j hj => absurd hj (by omega)⟩
  have h3 : loop3 (Empirical.cdf (Empirical.from_iter (α := ℝ) [0])) loopFuel (1 / 2) 2 = LoopR.done 2 :=
    (loop3_eq_done_iff _ _ _ _ _).2 ⟨0, by unfold loopFuel; norm_num, by norm_num, by rw [hc]; norm_num,
      fun j hj => absurd hj (by omega)⟩
  have h5 : Empirical.invBisect (Empirical.from_iter (α := ℝ) [0]) (1 / 2) 16 2 (-2) = (0, -1 / 16384) := by
    refine bis_le _ _ 15 _ _ 0 _ (by norm_num) (by rw [hc]; norm_num) ?_
    refine bis_lt _ _ 14 _ _ (-1) _ (by norm_num) (by rw [hc]; norm_num) ?_
    refine bis_lt _ _ 13 _ _ (-1 / 2) _ (by norm_num) (by rw [hc]; norm_num) ?_
    refine bis_lt _ _ 12 _ _ (-1 / 4) _ (by norm_num) (by rw [hc]; norm_num) ?_
    refine bis_lt _ _ 11 _ _ (-1 / 8) _ (by norm_num) (by rw [hc]; norm_num) ?_
    refine bis_lt _ _ 10 _ _ (-1 / 16) _ (by norm_num) (by rw [hc]; norm_num) ?_
    refine bis_lt _ _ 9 _ _ (-1 / 32) _ (by norm_num) (by rw [hc]; norm_num) ?_
    refine bis_lt _ _ 8 _ _ (-1 / 64) _ (by norm_num) (by rw [hc]; norm_num) ?_
    refine bis_lt _ _ 7 _ _ (-1 / 128) _ (by norm_num) (by rw [hc]; norm_num) ?_
    refine bis_lt _ _ 6 _ _ (-1 / 256) _ (by norm_num) (by rw [hc]; norm_num) ?_
    refine bis_lt _ _ 5 _ _ (-1 / 512) _ (by norm_num) (by rw [hc]; norm_num) ?_
    refine bis_lt _ _ 4 _ _ (-1 / 1024) _ (by norm_num) (by rw [hc]; norm_num) ?_
    refine bis_lt _ _ 3 _ _ (-1 / 2048) _ (by norm_num) (by rw [hc]; norm_num) ?_
    refine bis_lt _ _ 2 _ _ (-1 / 4096) _ (by norm_num) (by rw [hc]; norm_num) ?_
    refine bis_lt _ _ 1 _ _ (-1 / 8192) _ (by norm_num) (by rw [hc]; norm_num) ?_
    refine bis_lt _ _ 0 _ _ (-1 / 16384) _ (by norm_num) (by rw [hc]; norm_num) ?_
    simp [Empirical.invBisect]
  have := inverse_cdf_eval _ _ _ _ _ _ (by norm_num) (by norm_num) h1 h3 h5
  rw [this]; norm_num

/-- counterexample: `inverse_cdf` can return a value BELOW `min()`.  One point mass at `0`, `p = 1/2`: the
    result is `−2⁻¹⁵`, while `min() = max() = 0` (and the `1/2`-quantile is `0`). -/
theorem empirical_inverse_cdf_lt_min_counterexample :
    ∃ (e : Empirical ℝ) (m : Multiset ℝ) (p v : ℝ), Inv e m ∧ m ≠ 0 ∧ 0 < p ∧ p < 1 ∧
      Empirical.inverse_cdf e p = some v ∧ v < Empirical.min e :=
  ⟨Empirical.from_iter (α := ℝ) [0], (([0] : List ℝ) : Multiset ℝ), 1 / 2, -1 / 32768, inv_from_iter [0], by simp,
    by norm_num, by norm_num, inverse_cdf_zero_half, by
      rw [min_from_iter [0] (by simp) 0 (by simp) (by simp)]; norm_num⟩

/-! ### above `max()` -/

/-- full(ℝ): the model run on data `{3}`, `p = 1/2`: result `3 + 2⁻¹⁶` -/
theorem inverse_cdf_three_half :
    Empirical.inverse_cdf (Empirical.from_iter (α := ℝ) [3]) (1 / 2) = some (196609 / 65536) := by
  have hc := cdf_from_iter_one 3
  have h1 : loop1 (Empirical.cdf (Empirical.from_iter (α := ℝ) [3])) loopFuel (1 / 2) (-2) = LoopR.done (-2) :=
    (loop1_eq_done_iff _ _ _ _ _).2 ⟨0, by unfold loopFuel; norm_num, by norm_num, by rw [hc]; norm_num,
      fun j hj => absurd hj (by omega)⟩
  have h3 : loop3 (Empirical.cdf (Empirical.from_iter (α := ℝ) [3])) loopFuel (1 / 2) 2 = LoopR.done 4 :=
    (loop3_eq_done_iff _ _ _ _ _).2 ⟨1, by unfold loopFuel; norm_num, by norm_num, by rw [hc]; norm_num,
      fun j hj => by interval_cases j; rw [hc]; norm_num⟩
  have h5 : Empirical.invBisect (Empirical.from_iter (α := ℝ) [3]) (1 / 2) 16 4 (-2) = (49153 / 16384, 98303 / 32768) := by
    refine bis_lt _ _ 15 _ _ 1 _ (by norm_num) (by rw [hc]; norm_num) ?_
    refine bis_lt _ _ 14 _ _ (5 / 2) _ (by norm_num) (by rw [hc]; norm_num) ?_
    refine bis_le _ _ 13 _ _ (13 / 4) _ (by norm_num) (by rw [hc]; norm_num) ?_
    refine bis_lt _ _ 12 _ _ (23 / 8) _ (by norm_num) (by rw [hc]; norm_num) ?_
    refine bis_le _ _ 11 _ _ (49 / 16) _ (by norm_num) (by rw [hc]; norm_num) ?_
    refine bis_lt _ _ 10 _ _ (95 / 32) _ (by norm_num) (by rw [hc]; norm_num) ?_
    refine bis_le _ _ 9 _ _ (193 / 64) _ (by norm_num) (by rw [hc]; norm_num) ?_
    refine bis_lt _ _ 8 _ _ (383 / 128) _ (by norm_num) (by rw [hc]; norm_num) ?_
    refine bis_le _ _ 7 _ _ (769 / 256) _ (by norm_num) (by rw [hc]; norm_num) ?_
    refine bis_lt _ _ 6 _ _ (1535 / 512) _ (by norm_num) (by rw [hc]; norm_num) ?_
    refine bis_le _ _ 5 _ _ (3073 / 1024) _ (by norm_num) (by rw [hc]; norm_num) ?_
    refine bis_lt _ _ 4 _ _ (6143 / 2048) _ (by norm_num) (by rw [hc]; norm_num) ?_
    refine bis_le _ _ 3 _ _ (12289 / 4096) _ (by norm_num) (by rw [hc]; norm_num) ?_
    refine bis_lt _ _ 2 _ _ (24575 / 8192) _ (by norm_num) (by rw [hc]; norm_num) ?_
    refine bis_le _ _ 1 _ _ (49153 / 16384) _ (by norm_num) (by rw [hc]; norm_num) ?_
    refine bis_lt _ _ 0 _ _ (98303 / 32768) _ (by norm_num) (by rw [hc]; norm_num) ?_
    simp [Empirical.invBisect]
  have := inverse_cdf_eval _ _ _ _ _ _ (by norm_num) (by norm_num) h1 h3 h5
  rw [this]; norm_num

/-- counterexample: `inverse_cdf` can return a value ABOVE `max()`.  One point mass at `3`, `p = 1/2`: the
    result is `3 + 2⁻¹⁶`, while `min() = max() = 3`. -/
theorem empirical_inverse_cdf_gt_max_counterexample :
    ∃ (e : Empirical ℝ) (m : Multiset ℝ) (p v : ℝ), Inv e m ∧ m ≠ 0 ∧ 0 < p ∧ p < 1 ∧
      Empirical.inverse_cdf e p = some v ∧ Empirical.max e < v :=
  ⟨Empirical.from_iter (α := ℝ) [3], (([3] : List ℝ) : Multiset ℝ), 1 / 2, 196609 / 65536, inv_from_iter [3], by simp,
    by norm_num, by norm_num, inverse_cdf_three_half, by
      rw [max_from_iter [3] (by simp) 3 (by simp) (by simp)]; norm_num⟩

/-! ### the level case (positive) -/

/-- full(ℝ): the model run on data `{−3, 5}`, `p = 1/2`: result `−3 − 2⁻¹⁶` -/
theorem inverse_cdf_level_half :
    Empirical.inverse_cdf (Empirical.from_iter (α := ℝ) [-3, 5]) (1 / 2) = some (-196609 / 65536) := by
  have hc := cdf_from_iter_two (-3) 5
  have h1 : loop1 (Empirical.cdf (Empirical.from_iter (α := ℝ) [-3, 5])) loopFuel (1 / 2) (-2) = LoopR.done (-4) :=
    (loop1_eq_done_iff _ _ _ _ _).2 ⟨1, by unfold loopFuel; norm_num, by norm_num, by rw [hc]; norm_num,
      fun j hj => by interval_cases j; rw [hc]; norm_num⟩
  have h3 : loop3 (Empirical.cdf (Empirical.from_iter (α := ℝ) [-3, 5])) loopFuel (1 / 2) 2 = LoopR.done 2 :=
    (loop3_eq_done_iff _ _ _ _ _).2 ⟨0, by unfold loopFuel; norm_num, by norm_num, by rw [hc]; norm_num,
      fun j hj => absurd hj (by omega)⟩
  have h5 : Empirical.invBisect (Empirical.from_iter (α := ℝ) [-3, 5]) (1 / 2) 16 2 (-4)
      = (-98303 / 32768, -49153 / 16384) := by
    refine bis_le _ _ 15 _ _ (-1) _ (by norm_num) (by rw [hc]; norm_num) ?_
    refine bis_le _ _ 14 _ _ (-5 / 2) _ (by norm_num) (by rw [hc]; norm_num) ?_
    refine bis_lt _ _ 13 _ _ (-13 / 4) _ (by norm_num) (by rw [hc]; norm_num) ?_
    refine bis_le _ _ 12 _ _ (-23 / 8) _ (by norm_num) (by rw [hc]; norm_num) ?_
    refine bis_lt _ _ 11 _ _ (-49 / 16) _ (by norm_num) (by rw [hc]; norm_num) ?_
    refine bis_le _ _ 10 _ _ (-95 / 32) _ (by norm_num) (by rw [hc]; norm_num) ?_
    refine bis_lt _ _ 9 _ _ (-193 / 64) _ (by norm_num) (by rw [hc]; norm_num) ?_
    refine bis_le _ _ 8 _ _ (-383 / 128) _ (by norm_num) (by rw [hc]; norm_num) ?_
    refine bis_lt _ _ 7 _ _ (-769 / 256) _ (by norm_num) (by rw [hc]; norm_num) ?_
    refine bis_le _ _ 6 _ _ (-1535 / 512) _ (by norm_num) (by rw [hc]; norm_num) ?_
    refine bis_lt _ _ 5 _ _ (-3073 / 1024) _ (by norm_num) (by rw [hc]; norm_num) ?_
    refine bis_le _ _ 4 _ _ (-6143 / 2048) _ (by norm_num) (by rw [hc]; norm_num) ?_
    refine bis_lt _ _ 3 _ _ (-12289 / 4096) _ (by norm_num) (by rw [hc]; norm_num) ?_
    refine bis_le _ _ 2 _ _ (-24575 / 8192) _ (by norm_num) (by rw [hc]; norm_num) ?_
    refine bis_lt _ _ 1 _ _ (-49153 / 16384) _ (by norm_num) (by rw [hc]; norm_num) ?_
    refine bis_le _ _ 0 _ _ (-98303 / 32768) _ (by norm_num) (by rw [hc]; norm_num) ?_
    simp [Empirical.invBisect]
  have := inverse_cdf_eval _ _ _ _ _ _ (by norm_num) (by norm_num) h1 h3 h5
  rw [this]; norm_num

/-- full(ℝ): the level case on a concrete state.  Data `{−3, 5}`, `p = 1/2` is a level of the step cdf
    (`cdf = 1/2` on `[−3, 5)`); the smallest `x` with `cdf x ≥ p` is `−3` and the model returns `−3 − 2⁻¹⁶`,
    inside the generic bound (instance of `empirical_inverse_cdf_bound`; the pre-repair loop returned `−2 + 2⁻¹⁵`). -/
theorem empirical_inverse_cdf_level_example :
    Empirical.inverse_cdf (Empirical.from_iter (α := ℝ) [-3, 5]) (1 / 2) = some (-3 - 1 / 65536) ∧
    IsQuantileLE (Empirical.cdf (Empirical.from_iter (α := ℝ) [-3, 5])) (1 / 2) (-3) ∧
    |(-3 - 1 / 65536 : ℝ) - (-3)| ≤ 2⁻¹ ^ 15 * max 1 |(-3 : ℝ)| := by
  refine ⟨by rw [inverse_cdf_level_half]; norm_num, ⟨fun x hx => ?_, fun x hx => ?_⟩, ?_⟩
  · rw [cdf_from_iter_two, if_neg (not_le.mpr hx), if_neg (by linarith)]; norm_num
  · rw [cdf_from_iter_two, if_pos hx]; split_ifs <;> norm_num
  · rw [show |(-3 : ℝ)| = 3 by rw [abs_of_neg (by norm_num)]; norm_num,
      show |(-3 - 1 / 65536 : ℝ) - -3| = 1 / 65536 by rw [abs_of_neg (by norm_num)]; norm_num,
      max_eq_right (by norm_num)]
    norm_num

/-! ### monotonicity in `p` -/

/-- full(ℝ): the model run on data `{−8, −8+2⁻¹⁶}`, `p = 1/4`: result `−8 + 7·2⁻¹⁶` -/
theorem inverse_cdf_mono_p :
    Empirical.inverse_cdf (Empirical.from_iter (α := ℝ) [-8, -524287 / 65536]) (1 / 4) = some (-524281 / 65536) := by
  have hc := cdf_from_iter_two (-8) (-524287 / 65536)
  have h1 : loop1 (Empirical.cdf (Empirical.from_iter (α := ℝ) [-8, -524287 / 65536])) loopFuel (1 / 4) (-2)
      = LoopR.done (-16) :=
    (loop1_eq_done_iff _ _ _ _ _).2 ⟨3, by unfold loopFuel; norm_num, by norm_num, by rw [hc]; norm_num,
      fun j hj => by interval_cases j <;> (rw [hc]; norm_num)⟩
  have h3 : loop3 (Empirical.cdf (Empirical.from_iter (α := ℝ) [-8, -524287 / 65536])) loopFuel (1 / 4) 2
      = LoopR.done 2 :=
    (loop3_eq_done_iff _ _ _ _ _).2 ⟨0, by unfold loopFuel; norm_num, by norm_num, by rw [hc]; norm_num,
      fun j hj => absurd hj (by omega)⟩
  have h5 : Empirical.invBisect (Empirical.from_iter (α := ℝ) [-8, -524287 / 65536]) (1 / 4) 16 2 (-16)
      = (-32767 / 4096, -262145 / 32768) := by
    refine bis_le _ _ 15 _ _ (-7) _ (by norm_num) (by rw [hc]; norm_num) ?_
    refine bis_lt _ _ 14 _ _ (-23 / 2) _ (by norm_num) (by rw [hc]; norm_num) ?_
    refine bis_lt _ _ 13 _ _ (-37 / 4) _ (by norm_num) (by rw [hc]; norm_num) ?_
    refine bis_lt _ _ 12 _ _ (-65 / 8) _ (by norm_num) (by rw [hc]; norm_num) ?_
    refine bis_le _ _ 11 _ _ (-121 / 16) _ (by norm_num) (by rw [hc]; norm_num) ?_
    refine bis_le _ _ 10 _ _ (-251 / 32) _ (by norm_num) (by rw [hc]; norm_num) ?_
    refine bis_le _ _ 9 _ _ (-511 / 64) _ (by norm_num) (by rw [hc]; norm_num) ?_
    refine bis_lt _ _ 8 _ _ (-1031 / 128) _ (by norm_num) (by rw [hc]; norm_num) ?_
    refine bis_lt _ _ 7 _ _ (-2053 / 256) _ (by norm_num) (by rw [hc]; norm_num) ?_
    refine bis_lt _ _ 6 _ _ (-4097 / 512) _ (by norm_num) (by rw [hc]; norm_num) ?_
    refine bis_le _ _ 5 _ _ (-8185 / 1024) _ (by norm_num) (by rw [hc]; norm_num) ?_
    refine bis_le _ _ 4 _ _ (-16379 / 2048) _ (by norm_num) (by rw [hc]; norm_num) ?_
    refine bis_le _ _ 3 _ _ (-32767 / 4096) _ (by norm_num) (by rw [hc]; norm_num) ?_
    refine bis_lt _ _ 2 _ _ (-65543 / 8192) _ (by norm_num) (by rw [hc]; norm_num) ?_
    refine bis_lt _ _ 1 _ _ (-131077 / 16384) _ (by norm_num) (by rw [hc]; norm_num) ?_
    refine bis_lt _ _ 0 _ _ (-262145 / 32768) _ (by norm_num) (by rw [hc]; norm_num) ?_
    simp [Empirical.invBisect]
  have := inverse_cdf_eval _ _ _ _ _ _ (by norm_num) (by norm_num) h1 h3 h5
  rw [this]; norm_num

/-- full(ℝ): the model run on data `{−8, −8+2⁻¹⁶}`, `p = 3/4`: result `−8 + 5·2⁻¹⁶` -/
theorem inverse_cdf_mono_q :
    Empirical.inverse_cdf (Empirical.from_iter (α := ℝ) [-8, -524287 / 65536]) (3 / 4) = some (-524283 / 65536) := by
  have hc := cdf_from_iter_two (-8) (-524287 / 65536)
  have h1 : loop1 (Empirical.cdf (Empirical.from_iter (α := ℝ) [-8, -524287 / 65536])) loopFuel (3 / 4) (-2)
      = LoopR.done (-8) :=
    (loop1_eq_done_iff _ _ _ _ _).2 ⟨2, by unfold loopFuel; norm_num, by norm_num, by rw [hc]; norm_num,
      fun j hj => by interval_cases j <;> (rw [hc]; norm_num)⟩
  have h3 : loop3 (Empirical.cdf (Empirical.from_iter (α := ℝ) [-8, -524287 / 65536])) loopFuel (3 / 4) 2
      = LoopR.done 2 :=
    (loop3_eq_done_iff _ _ _ _ _).2 ⟨0, by unfold loopFuel; norm_num, by norm_num, by rw [hc]; norm_num,
      fun j hj => absurd hj (by omega)⟩
  have h5 : Empirical.invBisect (Empirical.from_iter (α := ℝ) [-8, -524287 / 65536]) (3 / 4) 16 2 (-8)
      = (-262139 / 32768, -8) := by
    refine bis_le _ _ 15 _ _ (-3) _ (by norm_num) (by rw [hc]; norm_num) ?_
    refine bis_le _ _ 14 _ _ (-11 / 2) _ (by norm_num) (by rw [hc]; norm_num) ?_
    refine bis_le _ _ 13 _ _ (-27 / 4) _ (by norm_num) (by rw [hc]; norm_num) ?_
    refine bis_le _ _ 12 _ _ (-59 / 8) _ (by norm_num) (by rw [hc]; norm_num) ?_
    refine bis_le _ _ 11 _ _ (-123 / 16) _ (by norm_num) (by rw [hc]; norm_num) ?_
    refine bis_le _ _ 10 _ _ (-251 / 32) _ (by norm_num) (by rw [hc]; norm_num) ?_
    refine bis_le _ _ 9 _ _ (-507 / 64) _ (by norm_num) (by rw [hc]; norm_num) ?_
    refine bis_le _ _ 8 _ _ (-1019 / 128) _ (by norm_num) (by rw [hc]; norm_num) ?_
    refine bis_le _ _ 7 _ _ (-2043 / 256) _ (by norm_num) (by rw [hc]; norm_num) ?_
    refine bis_le _ _ 6 _ _ (-4091 / 512) _ (by norm_num) (by rw [hc]; norm_num) ?_
    refine bis_le _ _ 5 _ _ (-8187 / 1024) _ (by norm_num) (by rw [hc]; norm_num) ?_
    refine bis_le _ _ 4 _ _ (-16379 / 2048) _ (by norm_num) (by rw [hc]; norm_num) ?_
    refine bis_le _ _ 3 _ _ (-32763 / 4096) _ (by norm_num) (by rw [hc]; norm_num) ?_
    refine bis_le _ _ 2 _ _ (-65531 / 8192) _ (by norm_num) (by rw [hc]; norm_num) ?_
    refine bis_le _ _ 1 _ _ (-131067 / 16384) _ (by norm_num) (by rw [hc]; norm_num) ?_
    refine bis_le _ _ 0 _ _ (-262139 / 32768) _ (by norm_num) (by rw [hc]; norm_num) ?_
    simp [Empirical.invBisect]
  have := inverse_cdf_eval _ _ _ _ _ _ (by norm_num) (by norm_num) h1 h3 h5
  rw [this]; norm_num

/-- counterexample: `inverse_cdf` is NOT monotone in `p` (here even away from the levels of the step cdf).  Data
    `{−8, −8 + 2⁻¹⁶}` (`n = 2`), `p = 1/4 < q = 3/4` (`p·n`, `q·n ∉ ℤ`): the first doubling loop stops at `−16` for
    `p` (because `cdf(−8) = 1/2 ≥ p`) but at `−8` for `q`, the two bisections run on the different grids
    `[−16, 2]`, `[−8, 2]`, and `inverse_cdf p = −8 + 7·2⁻¹⁶ > inverse_cdf q = −8 + 5·2⁻¹⁶`. -/
theorem empirical_inverse_cdf_mono_counterexample :
    ∃ (e : Empirical ℝ) (m : Multiset ℝ) (p q v w : ℝ), Inv e m ∧ m ≠ 0 ∧ 0 < p ∧ p < q ∧ q < 1 ∧
      (∀ k : ℤ, p * (Multiset.card m : ℝ) ≠ (k : ℝ)) ∧ (∀ k : ℤ, q * (Multiset.card m : ℝ) ≠ (k : ℝ)) ∧
      Empirical.inverse_cdf e p = some v ∧ Empirical.inverse_cdf e q = some w ∧ w < v := by
  refine ⟨Empirical.from_iter (α := ℝ) [-8, -524287 / 65536], (([-8, -524287 / 65536] : List ℝ) : Multiset ℝ),
    1 / 4, 3 / 4, -524281 / 65536, -524283 / 65536, inv_from_iter _, by simp, by norm_num, by norm_num,
    by norm_num, ?_, ?_, inverse_cdf_mono_p, inverse_cdf_mono_q, by norm_num⟩
  · intro k hk
    have h2 : (2 : ℝ) * k = 1 := by
      simp only [Multiset.coe_card, List.length_cons, List.length_nil] at hk; push_cast at hk; linarith
    have h3 : (2 : ℤ) * k = 1 := by exact_mod_cast h2
    omega
  · intro k hk
    have h2 : (2 : ℝ) * k = 3 := by
      simp only [Multiset.coe_card, List.length_cons, List.length_nil] at hk; push_cast at hk; linarith
    have h3 : (2 : ℤ) * k = 3 := by exact_mod_cast h2
    omega

end Statrs.Props.C05
