/-
  C05 (float level) — the closed-form quantiles `Uniform::inverse_cdf` and `Triangular::inverse_cdf` on EVERY
  carrier satisfying `FloatLaws` + `ExtraLaws`, hence on IEEE `Float`.

  Uniform (`p == 0 ↦ min`, `p == 1 ↦ max`, else `(max − min)·p + min`), under `C01.UniformOK` (finite ends,
  `min < max`, finite width):
    * `uniform_inverse_cdf_ge_min_fl`   — not NaN and `≥ min` for every `0 ≤ p ≤ 1`;
    * `uniform_inverse_cdf_mono_fl_partial` — EXACT monotonicity `p ≤ q ⇒ Q(p) ≤ Q(q)` whenever `q` is not `== 1.0`
      (missing: the step onto the special case `Q(1) = max`);
    * `uniform_inverse_cdf_le_max_fl_rel`, `uniform_inverse_cdf_mono_fl_rel` — `≤ max` and full monotonicity,
      relative to `LerpLaws` ("an interpolation with weight `< 1` does not overshoot the upper end": a ROUNDING
      fact, not an order fact; at weight `1` it is false on `f64`, which is why the code special-cases `p == 1`:
      `uniform_lerp_one_overshoot_counterexample`).
  Triangular (`a + sqrt((c−a)(b−a)·p)` below the knot `(c−a)/(b−a)`, `b − sqrt((b−a)(b−c)·(1−p))` above), under
  `TriQOK` (finite parameters `a ≤ c ≤ b`, `a < b`, finite width and finite products):
    * `triangular_inverse_cdf_lower_mono_fl`, `triangular_inverse_cdf_upper_mono_fl` — exact monotonicity within
      each leg; `triangular_inverse_cdf_range_fl` — not NaN, `≥ a` on the lower leg, `≤ b` on the upper leg.
-/
import Statrs.Lemmas.FloatLawsMore
import Statrs.Lemmas.LerpLaws
import Statrs.Props.C01.FloatRangeUniform
import Statrs.Gen.D_triangular
import Statrs.Props.Common.FloatLawsFloat_Extra
set_option linter.unusedSectionVars false
set_option linter.unusedVariables false
namespace Statrs.Props.C05
open Statrs Statrs.Gen Statrs.Spec Statrs.Props.C01

variable {α : Type} [Add α] [Sub α] [Mul α] [Div α] [Neg α] [LT α] [LE α] [BEq α]
  [DecidableLT α] [DecidableLE α] [OfScientific α] [Inhabited α] [RFun α]

/-! ## Uniform -/
section uniform
variable (L : FloatLaws α) (E : ExtraLaws α) (d : Uniform α) (ok : UniformOK d)
include L E ok

/-- the interior expression `(max − min)·p + min` for `0 ≤ p ≤ 1`: not NaN, `≥ min`, monotone in `p` -/
theorem uniform_interp {p : α} (h0 : (0.0 : α) ≤ p) (h1 : p ≤ (1.0 : α)) :
    NN ((d.f_max - d.f_min) * p + d.f_min) ∧ d.f_min ≤ (d.f_max - d.f_min) * p + d.f_min := by
  have hw0 : (0.0 : α) ≤ d.f_max - d.f_min := L.lt_le (uniform_width_pos L E d ok)
  have pf : Spec.Fin p := E.fin_of_between L L.zero_fin L.one_fin h0 h1
  have np : NN ((d.f_max - d.f_min) * p) := L.mul_nn ok.width_fin pf
  have hp0 : (0.0 : α) ≤ (d.f_max - d.f_min) * p := L.mul_nonneg hw0 h0 (Or.inl ok.width_fin) np
  have ns : NN ((d.f_max - d.f_min) * p + d.f_min) := L.add_nn np (L.fin_nn' ok.min_fin) (Or.inr ok.min_fin)
  have hz := L.exact.zero_add d.f_min (L.fin_nn' ok.min_fin)
  exact ⟨ns, L.le_of_beq_of_le (L.beq_symm hz) (L.mono.add_le_add_right _ _ _ hp0 (L.beq_nnl hz) ns)⟩

/-- full(∀α): `(max − min)·p + min` never decreases in `p ∈ [0, 1]` -/
theorem uniform_interp_mono {p q : α} (h0 : (0.0 : α) ≤ p) (hpq : p ≤ q) (h1 : q ≤ (1.0 : α)) :
    (d.f_max - d.f_min) * p + d.f_min ≤ (d.f_max - d.f_min) * q + d.f_min := by
  have hw0 : (0.0 : α) ≤ d.f_max - d.f_min := L.lt_le (uniform_width_pos L E d ok)
  have pf : Spec.Fin p := E.fin_of_between L L.zero_fin L.one_fin h0 (L.le_tr hpq h1)
  have qf : Spec.Fin q := E.fin_of_between L L.zero_fin L.one_fin (L.le_tr h0 hpq) h1
  have hm := L.mono.mul_le_mul_left p q _ hpq hw0 (L.mul_nn ok.width_fin pf) (L.mul_nn ok.width_fin qf)
  exact L.mono.add_le_add_right _ _ _ hm (uniform_interp L E d ok h0 (L.le_tr hpq h1)).1
    (uniform_interp L E d ok (L.le_tr h0 hpq) h1).1

omit L E ok in
/-- the branches of `Uniform::inverse_cdf` for `0 ≤ p ≤ 1` -/
theorem uniform_inverse_cdf_unfold {p : α} (h0 : (0.0 : α) ≤ p) (h1 : p ≤ (1.0 : α)) :
    Uniform.inverse_cdf d p =
      if (p == (0.0 : α)) = true then d.f_min
      else if (p == (1.0 : α)) = true then d.f_max else (d.f_max - d.f_min) * p + d.f_min := by
  unfold Uniform.inverse_cdf
  rw [if_neg (fun h : ¬ ((0.0 : α) ≤ p ∧ p ≤ (1.0 : α)) => h ⟨h0, h1⟩)]

/-- full(∀α): `Uniform::inverse_cdf(p)`, `0 ≤ p ≤ 1`, is not NaN and `≥ min` -/
theorem uniform_inverse_cdf_ge_min_fl {p : α} (h0 : (0.0 : α) ≤ p) (h1 : p ≤ (1.0 : α)) :
    NN (Uniform.inverse_cdf d p) ∧ d.f_min ≤ Uniform.inverse_cdf d p := by
  rw [uniform_inverse_cdf_unfold d h0 h1]
  split_ifs with c0 c1
  · exact ⟨L.fin_nn' ok.min_fin, L.le_rfl' (L.fin_nn' ok.min_fin)⟩
  · exact ⟨L.fin_nn' ok.max_fin, L.lt_le ok.lt⟩
  · exact uniform_interp L E d ok h0 h1

/-- partial(the step onto `Q(1) = max`, i.e. `q == 1.0`; see `uniform_inverse_cdf_mono_fl_rel`): exact
    monotonicity of `Uniform::inverse_cdf` on `0 ≤ p ≤ q ≤ 1` with `q` not IEEE-equal to `1.0` -/
theorem uniform_inverse_cdf_mono_fl_partial {p q : α} (h0 : (0.0 : α) ≤ p) (hpq : p ≤ q) (h1 : q ≤ (1.0 : α))
    (hq1 : ¬ (q == (1.0 : α)) = true) : Uniform.inverse_cdf d p ≤ Uniform.inverse_cdf d q := by
  have hp1 : p ≤ (1.0 : α) := L.le_tr hpq h1
  have hq0 : (0.0 : α) ≤ q := L.le_tr h0 hpq
  have hpn1 : ¬ (p == (1.0 : α)) = true := fun h => hq1 (L.beq_of_le_le h1 (L.le_tr (L.beq_ge h) hpq))
  rw [uniform_inverse_cdf_unfold d h0 hp1, uniform_inverse_cdf_unfold d hq0 h1, if_neg hpn1, if_neg hq1]
  by_cases cq : (q == (0.0 : α)) = true
  · have cp : (p == (0.0 : α)) = true := L.beq_of_le_le (L.le_tr hpq (L.beq_le cq)) h0
    rw [if_pos cq, if_pos cp]; exact L.le_rfl' (L.fin_nn' ok.min_fin)
  · rw [if_neg cq]
    by_cases cp : (p == (0.0 : α)) = true
    · rw [if_pos cp]; exact (uniform_interp L E d ok hq0 h1).2
    · rw [if_neg cp]; exact uniform_interp_mono L E d ok h0 hpq h1

/-- rel(LerpLaws): `Uniform::inverse_cdf(p) ≤ max` for every `0 ≤ p ≤ 1` -/
theorem uniform_inverse_cdf_le_max_fl_rel (R : LerpLaws α) {p : α} (h0 : (0.0 : α) ≤ p) (h1 : p ≤ (1.0 : α)) :
    Uniform.inverse_cdf d p ≤ d.f_max := by
  rw [uniform_inverse_cdf_unfold d h0 h1]
  split_ifs with c0 c1
  · exact L.lt_le ok.lt
  · exact L.le_rfl' (L.fin_nn' ok.max_fin)
  · exact R.mul_add_le _ _ p ok.min_fin ok.max_fin (L.lt_le ok.lt) ok.width_fin h0
      (L.lt_of_le_not_le h1 (fun h => c1 (L.beq_of_le_le h1 h)))

/-- rel(LerpLaws): `Uniform::inverse_cdf` never decreases on `[0, 1]` — exactly -/
theorem uniform_inverse_cdf_mono_fl_rel (R : LerpLaws α) {p q : α} (h0 : (0.0 : α) ≤ p) (hpq : p ≤ q)
    (h1 : q ≤ (1.0 : α)) : Uniform.inverse_cdf d p ≤ Uniform.inverse_cdf d q := by
  by_cases hq1 : (q == (1.0 : α)) = true
  · have e : Uniform.inverse_cdf d q = d.f_max := by
      rw [uniform_inverse_cdf_unfold d (L.le_tr h0 hpq) h1,
        if_neg (fun h => L.lt_not_beq L.zero_lt_one (L.beq_tr (L.beq_symm h) hq1)), if_pos hq1]
    rw [e]; exact uniform_inverse_cdf_le_max_fl_rel L E d ok R h0 (L.le_tr hpq h1)
  · exact uniform_inverse_cdf_mono_fl_partial L E d ok h0 hpq h1 hq1

end uniform

/-! ## Triangular -/

/-- what `Triangular::new` guarantees plus the no-overflow conditions of the quantile formula -/
structure TriQOK (d : Triangular α) : Prop where
  min_fin : Spec.Fin d.f_min
  max_fin : Spec.Fin d.f_max
  mode_fin : Spec.Fin d.f_mode
  min_le_mode : d.f_min ≤ d.f_mode
  mode_le_max : d.f_mode ≤ d.f_max
  width_fin : Spec.Fin (d.f_max - d.f_min)
  /-- the two products under the square roots do not overflow (NOT checked by `Triangular::new`) -/
  k_lo_fin : Spec.Fin ((d.f_mode - d.f_min) * (d.f_max - d.f_min))
  k_hi_fin : Spec.Fin ((d.f_max - d.f_min) * (d.f_max - d.f_mode))

section triangular
variable (L : FloatLaws α) (E : ExtraLaws α) (d : Triangular α) (ok : TriQOK d)
include L E ok

/-- the constants under the square roots are `≥ 0` -/
theorem tri_k_nonneg :
    (0.0 : α) ≤ (d.f_mode - d.f_min) * (d.f_max - d.f_min) ∧
    (0.0 : α) ≤ (d.f_max - d.f_min) * (d.f_max - d.f_mode) := by
  have w0 : (0.0 : α) ≤ d.f_max - d.f_min :=
    L.sub_nonneg_of_le ok.min_fin (L.le_tr ok.min_le_mode ok.mode_le_max)
  have c0 : (0.0 : α) ≤ d.f_mode - d.f_min := L.sub_nonneg_of_le ok.min_fin ok.min_le_mode
  have b0 : (0.0 : α) ≤ d.f_max - d.f_mode := L.sub_nonneg_of_le ok.mode_fin ok.mode_le_max
  exact ⟨L.mul_nonneg c0 w0 (Or.inr ok.width_fin) (L.fin_nn' ok.k_lo_fin),
    L.mul_nonneg w0 b0 (Or.inl ok.width_fin) (L.fin_nn' ok.k_hi_fin)⟩

omit E ok in
/-- `sqrt` of a non-negative value is not NaN -/
theorem sqrt_nn_of_nonneg {x : α} (h : (0.0 : α) ≤ x) : NN (RFun.sqrt x) := by
  rw [L.nn_iff]; intro hn
  rcases L.nan.sqrt_nan x hn with h1 | h1
  · have := L.le_nnr h; simp [NN, h1] at this
  · exact L.lt_not_le h1 h

/-- the lower-leg expression `a + sqrt(K·p)` (`K = (c−a)(b−a)`, `0 ≤ p ≤ 1`): not NaN, `≥ a`, monotone in `p` -/
theorem tri_lower_expr {p q : α} (h0 : (0.0 : α) ≤ p) (hpq : p ≤ q) (h1 : q ≤ (1.0 : α)) :
    NN (d.f_min + RFun.sqrt (((d.f_mode - d.f_min) * (d.f_max - d.f_min)) * p)) ∧
    d.f_min ≤ d.f_min + RFun.sqrt (((d.f_mode - d.f_min) * (d.f_max - d.f_min)) * p) ∧
    d.f_min + RFun.sqrt (((d.f_mode - d.f_min) * (d.f_max - d.f_min)) * p) ≤
      d.f_min + RFun.sqrt (((d.f_mode - d.f_min) * (d.f_max - d.f_min)) * q) := by
  have hk := (tri_k_nonneg L E d ok).1
  have pf : Spec.Fin p := E.fin_of_between L L.zero_fin L.one_fin h0 (L.le_tr hpq h1)
  have qf : Spec.Fin q := E.fin_of_between L L.zero_fin L.one_fin (L.le_tr h0 hpq) h1
  have np := L.mul_nn ok.k_lo_fin pf
  have nq := L.mul_nn ok.k_lo_fin qf
  have hp0 := L.mul_nonneg hk h0 (Or.inl ok.k_lo_fin) np
  have hq0 := L.mul_nonneg hk (L.le_tr h0 hpq) (Or.inl ok.k_lo_fin) nq
  have hm := L.mono.mul_le_mul_left p q _ hpq hk np nq
  have hs := L.mono.sqrt_le_sqrt _ _ hp0 hm
  have sp := sqrt_nn_of_nonneg L hp0
  have sq := sqrt_nn_of_nonneg L hq0
  have n1 := L.add_nn (L.fin_nn' ok.min_fin) sp (Or.inl ok.min_fin)
  have n2 := L.add_nn (L.fin_nn' ok.min_fin) sq (Or.inl ok.min_fin)
  have s0 : (0.0 : α) ≤ RFun.sqrt (((d.f_mode - d.f_min) * (d.f_max - d.f_min)) * p) :=
    L.le_of_beq_of_le (L.beq_symm L.exact.sqrt_zero) (L.mono.sqrt_le_sqrt _ _ L.zero_le_zero hp0)
  exact ⟨n1, L.le_add_of_nonneg ok.min_fin s0, L.mono.add_le_add_left _ _ _ hs n1 n2⟩

/-- the upper-leg expression `b − sqrt(K'·(1−p))` (`K' = (b−a)(b−c)`, `0 ≤ p ≤ 1`): not NaN, `≤ b`, monotone -/
theorem tri_upper_expr {p q : α} (h0 : (0.0 : α) ≤ p) (hpq : p ≤ q) (h1 : q ≤ (1.0 : α)) :
    NN (d.f_max - RFun.sqrt (((d.f_max - d.f_min) * (d.f_max - d.f_mode)) * ((1.0 : α) - q))) ∧
    d.f_max - RFun.sqrt (((d.f_max - d.f_min) * (d.f_max - d.f_mode)) * ((1.0 : α) - q)) ≤ d.f_max ∧
    d.f_max - RFun.sqrt (((d.f_max - d.f_min) * (d.f_max - d.f_mode)) * ((1.0 : α) - p)) ≤
      d.f_max - RFun.sqrt (((d.f_max - d.f_min) * (d.f_max - d.f_mode)) * ((1.0 : α) - q)) := by
  have hk := (tri_k_nonneg L E d ok).2
  have hp1 : p ≤ (1.0 : α) := L.le_tr hpq h1
  have hq0 : (0.0 : α) ≤ q := L.le_tr h0 hpq
  obtain ⟨up0, up1⟩ := L.one_sub_mem_unit h0 hp1
  obtain ⟨uq0, uq1⟩ := L.one_sub_mem_unit hq0 h1
  have upf : Spec.Fin ((1.0 : α) - p) := E.fin_of_between L L.zero_fin L.one_fin up0 up1
  have uqf : Spec.Fin ((1.0 : α) - q) := E.fin_of_between L L.zero_fin L.one_fin uq0 uq1
  have hu : (1.0 : α) - q ≤ (1.0 : α) - p := L.one_sub_anti hpq
  have np := L.mul_nn ok.k_hi_fin upf
  have nq := L.mul_nn ok.k_hi_fin uqf
  have hp0 := L.mul_nonneg hk up0 (Or.inl ok.k_hi_fin) np
  have hq0' := L.mul_nonneg hk uq0 (Or.inl ok.k_hi_fin) nq
  have hm := L.mono.mul_le_mul_left _ _ _ hu hk nq np
  have hs := L.mono.sqrt_le_sqrt _ _ hq0' hm
  have sp := sqrt_nn_of_nonneg L hp0
  have sq := sqrt_nn_of_nonneg L hq0'
  have n1 := L.sub_nn (L.fin_nn' ok.max_fin) sp (Or.inl ok.max_fin)
  have n2 := L.sub_nn (L.fin_nn' ok.max_fin) sq (Or.inl ok.max_fin)
  have s0 : (0.0 : α) ≤ RFun.sqrt (((d.f_max - d.f_min) * (d.f_max - d.f_mode)) * ((1.0 : α) - q)) :=
    L.le_of_beq_of_le (L.beq_symm L.exact.sqrt_zero) (L.mono.sqrt_le_sqrt _ _ L.zero_le_zero hq0')
  have nz : NN (d.f_max - (0.0 : α)) := L.sub_nn (L.fin_nn' ok.max_fin) L.zero_nn (Or.inl ok.max_fin)
  refine ⟨n2, ?_, L.mono.sub_le_sub_left _ _ _ hs n2 n1⟩
  exact L.le_of_le_of_beq (L.mono.sub_le_sub_left _ _ _ s0 nz n2) (L.exact.sub_zero _ (L.fin_nn' ok.max_fin))

omit L E ok in
/-- the branches of `Triangular::inverse_cdf` for `0 ≤ p ≤ 1` -/
theorem triangular_inverse_cdf_unfold {p : α} (h0 : (0.0 : α) ≤ p) (h1 : p ≤ (1.0 : α)) :
    Triangular.inverse_cdf d p =
      if p < (d.f_mode - d.f_min) / (d.f_max - d.f_min) then
        d.f_min + RFun.sqrt (((d.f_mode - d.f_min) * (d.f_max - d.f_min)) * p)
      else d.f_max - RFun.sqrt (((d.f_max - d.f_min) * (d.f_max - d.f_mode)) * ((1.0 : α) - p)) := by
  unfold Triangular.inverse_cdf
  simp only []
  rw [if_neg (fun h : ¬ ((0.0 : α) ≤ p ∧ p ≤ (1.0 : α)) => h ⟨h0, h1⟩)]

/-- full(∀α): `Triangular::inverse_cdf` never decreases WITHIN the lower leg (`p ≤ q < (c−a)/(b−a)`) -/
theorem triangular_inverse_cdf_lower_mono_fl {p q : α} (h0 : (0.0 : α) ≤ p) (hpq : p ≤ q) (h1 : q ≤ (1.0 : α))
    (hq : q < (d.f_mode - d.f_min) / (d.f_max - d.f_min)) :
    Triangular.inverse_cdf d p ≤ Triangular.inverse_cdf d q := by
  have hp : p < (d.f_mode - d.f_min) / (d.f_max - d.f_min) := L.lt_of_le_of_lt' hpq hq
  rw [triangular_inverse_cdf_unfold d h0 (L.le_tr hpq h1), triangular_inverse_cdf_unfold d (L.le_tr h0 hpq) h1,
    if_pos hp, if_pos hq]
  exact (tri_lower_expr L E d ok h0 hpq h1).2.2

/-- full(∀α): `Triangular::inverse_cdf` never decreases WITHIN the upper leg (`(c−a)/(b−a) ≤ p ≤ q`, i.e. neither
    argument satisfies the lower-leg test) -/
theorem triangular_inverse_cdf_upper_mono_fl {p q : α} (h0 : (0.0 : α) ≤ p) (hpq : p ≤ q) (h1 : q ≤ (1.0 : α))
    (hp : ¬ p < (d.f_mode - d.f_min) / (d.f_max - d.f_min))
    (hq : ¬ q < (d.f_mode - d.f_min) / (d.f_max - d.f_min)) :
    Triangular.inverse_cdf d p ≤ Triangular.inverse_cdf d q := by
  rw [triangular_inverse_cdf_unfold d h0 (L.le_tr hpq h1), triangular_inverse_cdf_unfold d (L.le_tr h0 hpq) h1,
    if_neg hp, if_neg hq]
  exact (tri_upper_expr L E d ok h0 hpq h1).2.2

/-- full(∀α): `Triangular::inverse_cdf(p)`, `0 ≤ p ≤ 1`, is not NaN; it is `≥ min` on the lower leg and `≤ max` on
    the upper leg -/
theorem triangular_inverse_cdf_range_fl {p : α} (h0 : (0.0 : α) ≤ p) (h1 : p ≤ (1.0 : α)) :
    NN (Triangular.inverse_cdf d p) ∧
    (p < (d.f_mode - d.f_min) / (d.f_max - d.f_min) → d.f_min ≤ Triangular.inverse_cdf d p) ∧
    (¬ p < (d.f_mode - d.f_min) / (d.f_max - d.f_min) → Triangular.inverse_cdf d p ≤ d.f_max) := by
  rw [triangular_inverse_cdf_unfold d h0 h1]
  have hl := tri_lower_expr L E d ok h0 (L.le_rfl' (L.le_nnr h0)) h1
  have hu := tri_upper_expr L E d ok h0 (L.le_rfl' (L.le_nnr h0)) h1
  split_ifs with hleg
  · exact ⟨hl.1, fun _ => hl.2.1, fun h => absurd hleg h⟩
  · exact ⟨hu.1, fun h => absurd h hleg, fun _ => hu.2.1⟩

end triangular

/-! ## `Float` -/

open Statrs.Props.Common in
/-- full(Float): `Uniform::inverse_cdf` on `f64`: not NaN and `≥ min` on `[0, 1]`; exactly monotone up to (not
    including) the special case `p == 1.0` -/
theorem uniform_inverse_cdf_float (d : Uniform Float) (ok : UniformOK d) :
    (∀ p : Float, (0.0 : Float) ≤ p → p ≤ (1.0 : Float) →
      NN (Uniform.inverse_cdf d p) ∧ d.f_min ≤ Uniform.inverse_cdf d p) ∧
    (∀ p q : Float, (0.0 : Float) ≤ p → p ≤ q → q ≤ (1.0 : Float) → ¬ (q == (1.0 : Float)) = true →
      Uniform.inverse_cdf d p ≤ Uniform.inverse_cdf d q) :=
  ⟨fun _ h0 h1 => uniform_inverse_cdf_ge_min_fl floatLaws_float extraLaws_float d ok h0 h1,
   fun _ _ h0 hpq h1 hq1 => uniform_inverse_cdf_mono_fl_partial floatLaws_float extraLaws_float d ok h0 hpq h1 hq1⟩

open Statrs.Props.Common in
/-- full(Float): `Triangular::inverse_cdf` on `f64`: not NaN on `[0, 1]`, `≥ min` / `≤ max` on the lower / upper
    leg, exactly monotone within each leg -/
theorem triangular_inverse_cdf_float (d : Triangular Float) (ok : TriQOK d) :
    (∀ p : Float, (0.0 : Float) ≤ p → p ≤ (1.0 : Float) → NN (Triangular.inverse_cdf d p)) ∧
    (∀ p q : Float, (0.0 : Float) ≤ p → p ≤ q → q ≤ (1.0 : Float) →
      q < (d.f_mode - d.f_min) / (d.f_max - d.f_min) →
      Triangular.inverse_cdf d p ≤ Triangular.inverse_cdf d q) ∧
    (∀ p q : Float, (0.0 : Float) ≤ p → p ≤ q → q ≤ (1.0 : Float) →
      ¬ p < (d.f_mode - d.f_min) / (d.f_max - d.f_min) → ¬ q < (d.f_mode - d.f_min) / (d.f_max - d.f_min) →
      Triangular.inverse_cdf d p ≤ Triangular.inverse_cdf d q) :=
  ⟨fun _ h0 h1 => (triangular_inverse_cdf_range_fl floatLaws_float extraLaws_float d ok h0 h1).1,
   fun _ _ h0 hpq h1 hq => triangular_inverse_cdf_lower_mono_fl floatLaws_float extraLaws_float d ok h0 hpq h1 hq,
   fun _ _ h0 hpq h1 hp hq =>
     triangular_inverse_cdf_upper_mono_fl floatLaws_float extraLaws_float d ok h0 hpq h1 hp hq⟩

/-- counterexample: at weight `1` the interior formula of `Uniform::inverse_cdf` overshoots `max` on `f64`:
    for `min = −(0.5 + 2⁻⁵³)`, `max = 8 − 2⁻⁵⁰`, `(max − min)·1.0 + min = 8.0 > max`.  (The code returns `max`
    for `p == 1.0` without evaluating the formula; `LerpLaws` is about weights `< 1`.) -/
theorem uniform_lerp_one_overshoot_counterexample :
    let a : Float := Float.ofBits 0xBFE0000000000001
    let b : Float := Float.ofBits 0x401FFFFFFFFFFFFF
    a < b ∧ Spec.Fin (b - a) ∧ b < (b - a) * (1.0 : Float) + a ∧
      Uniform.inverse_cdf ({ f_min := a, f_max := b } : Uniform Float) 1.0 = b := by
  decide

/-- non-vacuity: `TriQOK` holds for `Triangular(0, 2, 1)` on `Float` -/
example : TriQOK ({ f_min := 0.0, f_max := 2.0, f_mode := 1.0 } : Triangular Float) :=
  ⟨by decide, by decide, by decide, by decide, by decide, by decide, by decide, by decide⟩

end Statrs.Props.C05
