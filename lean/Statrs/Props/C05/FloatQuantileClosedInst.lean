/-
  C05 (float level) — `FloatQuantileClosed.lean` with `LerpLaws Float` discharged (`lerpLaws_float`,
  `Draft/Lemmas/LerpLawsFloat.lean`): UNCONDITIONAL statements on `f64`:
    * `uniform_inverse_cdf_range_float` — `Uniform::inverse_cdf(p) ∈ [min, max]`, not NaN, for `0 ≤ p ≤ 1`;
    * `uniform_inverse_cdf_mono_float`  — it never decreases on `[0, 1]`, exactly (no ulp slack), including the
      special cases `p == 0.0`, `p == 1.0`.
-/
import Statrs.Props.C05.FloatQuantileClosed
import Statrs.Lemmas.LerpLawsFloat
namespace Statrs.Props.C05
open Statrs Statrs.Gen Statrs.Spec Statrs.Props.Common Statrs.Props.C01

private abbrev L := floatLaws_float
private abbrev E := extraLaws_float

/-! ### consequences on `f64` -/

/-- full(Float): `Uniform::inverse_cdf(p)` for `0 ≤ p ≤ 1` is not NaN and lies in `[min, max]` — exactly -/
theorem uniform_inverse_cdf_range_float (d : Uniform Float) (ok : UniformOK d) {p : Float}
    (h0 : (0.0 : Float) ≤ p) (h1 : p ≤ (1.0 : Float)) :
    NN (Uniform.inverse_cdf d p) ∧ d.f_min ≤ Uniform.inverse_cdf d p ∧ Uniform.inverse_cdf d p ≤ d.f_max :=
  ⟨(uniform_inverse_cdf_ge_min_fl L E d ok h0 h1).1, (uniform_inverse_cdf_ge_min_fl L E d ok h0 h1).2,
   uniform_inverse_cdf_le_max_fl_rel L E d ok lerpLaws_float h0 h1⟩

/-- full(Float): `Uniform::inverse_cdf` never decreases on `[0, 1]` — exactly, including the special cases
    `p == 0.0` and `p == 1.0` -/
theorem uniform_inverse_cdf_mono_float (d : Uniform Float) (ok : UniformOK d) {p q : Float}
    (h0 : (0.0 : Float) ≤ p) (hpq : p ≤ q) (h1 : q ≤ (1.0 : Float)) :
    Uniform.inverse_cdf d p ≤ Uniform.inverse_cdf d q :=
  uniform_inverse_cdf_mono_fl_rel L E d ok lerpLaws_float h0 hpq h1

end Statrs.Props.C05
