/-
  C06 — statements of the property that are FALSE for the current tree, with witnesses.

  * `uniform_sample_range_overflow_counterexample` (carrier `Float`, kernel-evaluated): for the
    constructed distribution `Uniform::new(-1e308, 1e308)` the sampler panics — rand's
    `Uniform::new_inclusive` asserts that `(high − low) / max_rand` is finite ("range overflow").
    `Uniform::new` accepts every finite `min < max`, so "sampling terminates (with a value in
    [min,max]) for every constructed distribution" fails.  The general form, for every carrier, is
    `uniform_sample_range_overflow`.
  * Geometric returning `0 < min = 1` for the top 2¹¹ words: `geometric_sample_below_min_counterexample`
    in `Discrete.lean`.

  Reproduced by execution of the Rust code only (the model agrees at `Float`, but `ln`/`exp` are
  opaque to the kernel, and over ℝ the values involved are `±∞`/NaN): `NegativeBinomial::new(r, 0.0)`
  and `Poisson::new(+∞)` never terminate (`poisson::sample_unchecked(+∞)`: `alpha = 0·∞ = NaN`, the
  acceptance test is never true).  (`StudentsT::new(0, 1, +∞).sample()` used to be NaN; since the
  source fix it is the Normal(location, scale) draw: `studentsT_sample_inf_eq_normal` in `Structure.lean`.)

  Strength: counterexample.
-/
import Statrs.Model.Samplers
import Statrs.Inst.Float
import Statrs.Gen.D_uniform
set_option linter.unusedVariables false
set_option linter.unusedSectionVars false
namespace Statrs.Props.C06
open Statrs Statrs.Gen Statrs.Model

section generic
variable {α : Type} [Add α] [Sub α] [Mul α] [Div α] [Neg α] [LT α] [LE α] [BEq α]
  [DecidableLT α] [DecidableLE α] [OfScientific α] [Inhabited α] [RFun α] [RngFloat α]

/-- for every carrier: finite bounds whose scaled difference is not finite make the sampler panic
    (no word consumed) -/
theorem uniform_sample_range_overflow (d : Uniform α) (rng : Rng)
    (h1 : (RFun.isFinite d.f_min) = true) (h2 : (RFun.isFinite d.f_max) = true)
    (h4 : ¬ ((RFun.isFinite ((d.f_max - d.f_min) / (cMaxRand : α))) = true)) :
    Model.Uniform.sample_f64 d rng = (panicV, rng) := by
  have : uniformNewInclusive (α := α) d.f_min d.f_max = none := by
    unfold uniformNewInclusive
    simp only [h1, h2, not_true_eq_false, if_false]
    by_cases h3 : ¬ d.f_min ≤ d.f_max
    · rw [if_pos h3]
    · rw [if_neg h3, if_pos h4]
  unfold Model.Uniform.sample_f64
  rw [this]

end generic

/-- `-1e308` and `1e308` as bit patterns -/
def uLo : Float := Float.ofBits 0xFFE1CCF385EBC8A0
def uHi : Float := Float.ofBits 0x7FE1CCF385EBC8A0

/-- FALSE for the model at `Float` (and, by execution, for the Rust code): the constructor accepts
    `(-1e308, 1e308)` and the sampler panics for every stream. -/
theorem uniform_sample_range_overflow_counterexample (rng : Rng) :
    (∃ d : Uniform Float, Gen.Uniform.new (α := Float) uLo uHi = .ok d ∧ d.f_min = uLo ∧ d.f_max = uHi)
      ∧ Model.Uniform.sample_f64 (α := Float) ⟨uLo, uHi⟩ rng = (panicV, rng) := by
  constructor
  · refine ⟨⟨uLo, uHi⟩, ?_, rfl, rfl⟩
    unfold Gen.Uniform.new
    have a : (RFun.isFinite uLo) = true := by decide
    have b : (RFun.isFinite uHi) = true := by decide
    have c : uLo < uHi := by decide
    simp [a, b, c]
  · apply uniform_sample_range_overflow
    · decide
    · decide
    · decide

end Statrs.Props.C06
