/-
  C06 — discrete samplers over ℝ: what the code's formula actually returns.

  * Geometric: `k = ⌈ln u / ln(1−p)⌉` with `u ∈ (0,1]` from `OpenClosed01`; for `u < 1` it is the
    inverse-cdf value w.r.t. `1 − u`: `k ≥ 1` and `cdf (k−1) < 1 − u ≤ cdf k`.  For `u = 1`
    (top 2¹¹ words) the formula gives `0`, below `min = 1` — see `geometric_sample_below_min_counterexample`.
  * Categorical: the returned index is the FIRST `i` with `draw ≤ cdf[i]`, `draw = u·last`; it exists
    because `draw ≤ last`; hence `cdf[j] < draw ≤ cdf[i]` for `j < i`.  (The search is `≥`, not `>`:
    with `u = 0` a leading zero-mass category is returned.)
  * Bernoulli: `true` iff `w < ⌊p·2⁶⁴⌋` (one word), i.e. success probability `⌊p·2⁶⁴⌋/2⁶⁴`.

  Strength: full(ℝ); `positionGe` facts full(∀α).
-/
import Statrs.Lemmas.Sampling
import Statrs.Gen.D_geometric
import Statrs.Gen.D_categorical
import Statrs.Gen.D_bernoulli
set_option linter.unusedVariables false
set_option linter.unusedSectionVars false
namespace Statrs.Props.C06
open Statrs Statrs.Gen Statrs.Model Statrs.Lemmas.Sampling

/-! ## Geometric -/

theorem geometric_cdf_real (d : Geometric ℝ) (x : Int) :
    Gen.Geometric.cdf d x = if x = 0 then 0 else 1 - Real.exp (Real.log (1 - d.f_p) * (x : ℝ)) := by
  unfold Gen.Geometric.cdf
  rfun_norm
  split_ifs
  · norm_num
  · rw [show (1 : ℝ) + -d.f_p = 1 - d.f_p by ring]; ring

/-- the value the sampler computes, for `p ≠ 1` -/
theorem geometric_sample_eq (d : Geometric ℝ) (hp : d.f_p ≠ 1) (rng : Rng) :
    Model.Geometric.sample_u64 d rng
      = (max 0 ⌈Real.log (genOpenClosed01 (α := ℝ) rng).1 / Real.log (1 - d.f_p)⌉,
         (genOpenClosed01 (α := ℝ) rng).2) := by
  have h1 : ¬ (d.f_p = (1.0 : ℝ)) := by norm_num; exact hp
  simp only [Model.Geometric.sample_u64, rfun_ulpsEq, decide_eq_true_eq, h1, if_false]
  rfun_norm
  show (RFun.toU64 ((⌈Real.log (genOpenClosed01 (α := ℝ) rng).1 / Real.log (1.0 - d.f_p)⌉ : ℤ) : ℝ), _) = _
  rw [show ((1.0 : ℝ)) = 1 by norm_num]
  show (max 0 ⌊((⌈Real.log (genOpenClosed01 (α := ℝ) rng).1 / Real.log (1 - d.f_p)⌉ : ℤ) : ℝ)⌋, _) = _
  rw [Int.floor_intCast]

/-- `p = 1`: the constant `1`, no word consumed -/
theorem geometric_sample_p_one (d : Geometric ℝ) (hp : d.f_p = 1) (rng : Rng) :
    Model.Geometric.sample_u64 d rng = (1, rng) := by
  have h1 : d.f_p = (1.0 : ℝ) := by norm_num; exact hp
  simp [Model.Geometric.sample_u64, rfun_ulpsEq, h1]

/-- Geometric: for `0 < p < 1` and `u ∈ (0,1)`, `k = ⌈ln u / ln(1−p)⌉` satisfies `k ≥ 1` and
    `cdf (k − 1) < 1 − u ≤ cdf k` -/
theorem geometric_k_spec (d : Geometric ℝ) (hp0 : 0 < d.f_p) (hp1 : d.f_p < 1) (u : ℝ)
    (h0 : 0 < u) (h1 : u < 1) :
    let k := ⌈Real.log u / Real.log (1 - d.f_p)⌉
    1 ≤ k ∧ Gen.Geometric.cdf d (k - 1) < 1 - u ∧ 1 - u ≤ Gen.Geometric.cdf d k := by
  intro k
  have hL : Real.log (1 - d.f_p) < 0 := Real.log_neg (by linarith) (by linarith)
  have hlu : Real.log u < 0 := Real.log_neg h0 h1
  have hr : 0 < Real.log u / Real.log (1 - d.f_p) := div_pos_of_neg_of_neg hlu hL
  have hk1 : 1 ≤ k := by
    have : 0 < k := Int.ceil_pos.mpr hr
    omega
  have hle : Real.log u / Real.log (1 - d.f_p) ≤ (k : ℝ) := Int.le_ceil _
  have hlt : (k : ℝ) < Real.log u / Real.log (1 - d.f_p) + 1 := Int.ceil_lt_add_one _
  have hmul : Real.log (1 - d.f_p) * (Real.log u / Real.log (1 - d.f_p)) = Real.log u :=
    mul_div_cancel₀ _ hL.ne
  have e1 : Real.log (1 - d.f_p) * (k : ℝ) ≤ Real.log u := by
    have := mul_le_mul_of_nonpos_left hle hL.le
    linarith
  have e2 : Real.log u < Real.log (1 - d.f_p) * ((k : ℝ) - 1) := by
    have : Real.log (1 - d.f_p) * (Real.log u / Real.log (1 - d.f_p)) < Real.log (1 - d.f_p) * ((k : ℝ) - 1) :=
      mul_lt_mul_of_neg_left (by linarith) hL
    linarith
  have x1 : Real.exp (Real.log (1 - d.f_p) * (k : ℝ)) ≤ u := by
    calc Real.exp (Real.log (1 - d.f_p) * (k : ℝ)) ≤ Real.exp (Real.log u) := Real.exp_le_exp.mpr e1
      _ = u := Real.exp_log h0
  have x2 : u < Real.exp (Real.log (1 - d.f_p) * ((k : ℝ) - 1)) := by
    calc u = Real.exp (Real.log u) := (Real.exp_log h0).symm
      _ < _ := Real.exp_lt_exp.mpr e2
  refine ⟨hk1, ?_, ?_⟩
  · rw [geometric_cdf_real]
    split_ifs with hz
    · linarith
    · push_cast; linarith
  · rw [geometric_cdf_real, if_neg (by omega)]
    linarith

/-- Geometric, on the word stream: for every word below the top 2¹¹ (`u < 1`) the returned `k`
    satisfies `min ≤ k` and `cdf (k−1) < 1 − u ≤ cdf k`; one word is consumed -/
theorem geometric_sample_spec (d : Geometric ℝ) (hp0 : 0 < d.f_p) (hp1 : d.f_p < 1)
    (w : Int) (t : List Int) (h0 : 0 ≤ w) (h1 : w < 18446744073709549568) :
    let k := (Model.Geometric.sample_u64 d ⟨w :: t⟩).1
    Gen.Geometric.min d ≤ k ∧ Gen.Geometric.cdf d (k - 1) < 1 - unit53oc w
      ∧ 1 - unit53oc w ≤ Gen.Geometric.cdf d k
      ∧ (Model.Geometric.sample_u64 d ⟨w :: t⟩).2 = ⟨t⟩ := by
  intro k
  have hk : k = max 0 ⌈Real.log (unit53oc w) / Real.log (1 - d.f_p)⌉ := by
    show (Model.Geometric.sample_u64 d ⟨w :: t⟩).1 = _
    rw [geometric_sample_eq d (by linarith), genOpenClosed01_cons]
  obtain ⟨a, b, c⟩ := geometric_k_spec d hp0 hp1 (unit53oc w) (unit53oc_mem h0 (by omega)).1
    (unit53oc_lt_one h0 h1)
  rw [max_eq_right (by omega)] at hk
  rw [hk]
  refine ⟨by unfold Gen.Geometric.min; exact a, b, c, ?_⟩
  rw [geometric_sample_eq d (by linarith), genOpenClosed01_cons]

example : ∃ d : Geometric ℝ, 0 < d.f_p ∧ d.f_p < 1 := ⟨⟨1 / 2⟩, by norm_num⟩

/-- FALSE for the model (and, checked by execution, for the Rust code): "values lie within
    [min,max]".  When `OpenClosed01` returns exactly `1.0` (the top 2¹¹ words) the formula
    `⌈ln 1 / ln(1−p)⌉ = 0` returns `0 < min = 1`.  Witness: `p = ½`, word `2⁶⁴ − 1`. -/
theorem geometric_sample_below_min_counterexample :
    ∃ (d : Geometric ℝ) (rng : Rng), 0 < d.f_p ∧ d.f_p < 1 ∧ rng.WF ∧
      (Model.Geometric.sample_u64 d rng).1 < Gen.Geometric.min d := by
  refine ⟨⟨1 / 2⟩, ⟨[18446744073709551615]⟩, by norm_num, by norm_num, ?_, ?_⟩
  · intro w hw; simp at hw; subst hw; norm_num
  · rw [geometric_sample_eq _ (by norm_num), genOpenClosed01_cons,
      unit53oc_top (by norm_num) (by norm_num)]
    unfold Gen.Geometric.min
    simp

/-! ## Categorical -/

section position
variable {α : Type} [LE α] [DecidableLE α]

/-- `positionGe` returns the first index whose entry is `≥ draw` -/
theorem positionGe_spec (draw : α) : ∀ (l : List α) (i j : Int), positionGe draw l i = some j →
    ∃ k : Nat, j = i + k ∧ k < l.length ∧ (∃ v, l[k]? = some v ∧ draw ≤ v)
      ∧ ∀ m : Nat, m < k → ∀ v, l[m]? = some v → ¬ draw ≤ v := by
  intro l
  induction l with
  | nil => intro i j h; simp [positionGe] at h
  | cons a t ih =>
    intro i j h
    unfold positionGe at h
    split_ifs at h with hle
    · refine ⟨0, by simpa using (Option.some.inj h).symm, by simp, ⟨a, by simp, hle⟩, by simp⟩
    · obtain ⟨k, hj, hk, ⟨v, hv, hdv⟩, hmin⟩ := ih (i + 1) j h
      refine ⟨k + 1, by rw [hj]; push_cast; ring, by simp; omega, ⟨v, by simpa using hv, hdv⟩, ?_⟩
      intro m hm v' hv'
      cases m with
      | zero => simp at hv'; rw [← hv']; exact hle
      | succ m => exact hmin m (by omega) v' (by simpa using hv')

/-- `positionGe` finds an index as soon as some entry is `≥ draw` -/
theorem positionGe_isSome (draw : α) : ∀ (l : List α) (i : Int), (∃ v ∈ l, draw ≤ v) →
    (positionGe draw l i).isSome := by
  intro l
  induction l with
  | nil => intro i h; simp at h
  | cons a t ih =>
    intro i h
    unfold positionGe
    split_ifs with hle
    · simp
    · apply ih
      obtain ⟨v, hv, hd⟩ := h
      rcases List.mem_cons.mp hv with rfl | hv'
      · exact absurd hd hle
      · exact ⟨v, hv', hd⟩

end position

/-- Categorical over ℝ: for a non-empty table with last entry `≥ 0` (what `new` builds: running sums
    of non-negative masses), and any draw `u ∈ [0,1]`, the returned index `i` is a valid index, it is
    the first with `u·last ≤ cdf[i]`, and every earlier entry is `< u·last`.  One word is consumed. -/
theorem categorical_sample_spec (cdf : List ℝ) (hne : cdf ≠ []) (hlast : 0 ≤ cdf.getLast hne)
    (w : Int) (t : List Int) (h0 : 0 ≤ w) (h1 : w < 18446744073709551616) :
    let i := (categorical_sample_unchecked (α := ℝ) ⟨w :: t⟩ cdf).1
    let draw := unit53 w * cdf.getLast hne
    ∃ k : Nat, i = (k : Int) ∧ k < cdf.length
      ∧ (∃ v, cdf[k]? = some v ∧ draw ≤ v)
      ∧ (∀ m : Nat, m < k → ∀ v, cdf[m]? = some v → v < draw)
      ∧ (categorical_sample_unchecked (α := ℝ) ⟨w :: t⟩ cdf).2 = ⟨t⟩ := by
  intro i draw
  obtain ⟨hu0, hu1⟩ := unit53_mem h0 h1
  have hgl : cdf.getLast? = some (cdf.getLast hne) := List.getLast?_eq_some_getLast hne
  have hdraw : draw ≤ cdf.getLast hne := by
    show unit53 w * cdf.getLast hne ≤ cdf.getLast hne
    nlinarith
  have hsome := positionGe_isSome draw cdf 0 ⟨cdf.getLast hne, List.getLast_mem hne, hdraw⟩
  obtain ⟨j, hj⟩ := Option.isSome_iff_exists.mp hsome
  have hi : i = j := by
    show (categorical_sample_unchecked (α := ℝ) ⟨w :: t⟩ cdf).1 = j
    simp only [categorical_sample_unchecked, genF64_cons, hgl, unwrapO]
    show unwrapO (positionGe draw cdf 0) = j
    rw [hj]; rfl
  obtain ⟨k, hjk, hk, hv, hmin⟩ := positionGe_spec draw cdf 0 j hj
  refine ⟨k, by rw [hi, hjk]; simp, hk, hv, ?_, ?_⟩
  · intro m hm v hv'; exact not_le.mp (hmin m hm v hv')
  · simp only [categorical_sample_unchecked, genF64_cons]

example : ∃ (cdf : List ℝ) (hne : cdf ≠ []), 0 ≤ cdf.getLast hne := ⟨[0.25, 1], by simp, by simp⟩

/-- the `≥` in the search: with `u = 0` (the 2¹¹ lowest words) a leading category of mass `0` is
    returned although its pmf is `0`.  Witness: table `[0, 1]`, word `0` ↦ index `0`. -/
theorem categorical_zero_mass_counterexample :
    (categorical_sample_unchecked (α := ℝ) ⟨[0]⟩ [0, 1]).1 = 0 := by
  simp [categorical_sample_unchecked, genF64_cons, unit53, positionGe, unwrapO]

/-! ## Bernoulli -/

/-- Bernoulli over ℝ for `0 ≤ p < 1`: with `P = ⌊p·2⁶⁴⌋`, the draw is `w < P` and consumes one word
    (unless `P = 2⁶⁴ − 1`, which rand treats as "always true" without drawing; in `f64` arithmetic
    `p < 1` gives `P ≤ 2⁶⁴ − 2¹¹`, so that branch is only reachable for `p = 1`). -/
theorem bernoulli_sample_bool_eq (d : Bernoulli ℝ) (hp0 : 0 ≤ d.f_b.f_p) (hp1 : d.f_b.f_p < 1)
    (w : Int) (t : List Int) :
    Model.Bernoulli.sample_bool d ⟨w :: t⟩
      = if ⌊d.f_b.f_p * 2 ^ 64⌋ = 18446744073709551615 then (true, ⟨w :: t⟩)
        else (decide (w < ⌊d.f_b.f_p * 2 ^ 64⌋), ⟨t⟩) := by
  have hfl : 0 ≤ ⌊d.f_b.f_p * 2 ^ 64⌋ := Int.floor_nonneg.mpr (by positivity)
  have hin : ((0.0 : ℝ) ≤ d.f_b.f_p) ∧ (d.f_b.f_p < (1.0 : ℝ)) := by norm_num; exact ⟨hp0, hp1⟩
  unfold Model.Bernoulli.sample_bool genBool Gen.Bernoulli.p Gen.Binomial.p
  rw [if_neg (not_not.mpr hin)]
  have ht : RFun.toU64 (d.f_b.f_p * 2 ^ 64 : ℝ) = ⌊d.f_b.f_p * 2 ^ 64⌋ := max_eq_right hfl
  simp only [cTwo64_real, nextU64_cons, u64Max, ht]

/-- `p = 1`: always `true`, no word consumed -/
theorem bernoulli_sample_bool_one (d : Bernoulli ℝ) (hp : d.f_b.f_p = 1) (rng : Rng) :
    Model.Bernoulli.sample_bool d rng = (true, rng) := by
  unfold Model.Bernoulli.sample_bool genBool Gen.Bernoulli.p Gen.Binomial.p
  rw [hp]; norm_num

example : ∃ d : Bernoulli ℝ, 0 ≤ d.f_b.f_p ∧ d.f_b.f_p < 1 := ⟨⟨⟨1 / 2, 1⟩⟩, by norm_num⟩

end Statrs.Props.C06
