/-
  C06 — HISTORICAL NOTES: counterexamples about sampler bodies as they were in the snapshot
  042d43d, i.e. BEFORE the `fix:` commits 9156d3e (Gumbel), 9e91cab (Dirichlet), 5adbc7f
  (Hypergeometric).  The `*_orig` models in `Statrs/Model/Samplers.lean` transcribe the OLD bodies
  and are NOT pinned to the current code; the theorems about the current code are in
  `InverseTransform.lean` (`gumbel_cdf_T`), `Structure.lean` (`hypergeometric_sample_spec`) and
  `Vectors.lean` (`dirichlet_sample_sum_one`).

  Strength: counterexample (of the pre-fix code).
-/
import Statrs.Lemmas.Sampling
import Mathlib.Tactic
set_option linter.unusedVariables false
set_option linter.unusedSectionVars false
set_option linter.unusedSimpArgs false
namespace Statrs.Props.C06
open Statrs Statrs.Gen Statrs.Model Statrs.Lemmas.Sampling

/-! ### Gumbel (pre-fix): `location − scale · ln(ln(−u))` -/

/-- the pre-fix sampler, as a function of the word: the inner logarithm is taken of `−u` -/
theorem gumbel_sample_orig_eq (d : Gumbel ℝ) (w : Int) (t : List Int) :
    Model.Gumbel.sample_f64_orig d ⟨w :: t⟩
      = (d.f_location - d.f_scale * Real.log (Real.log (-(unit53 w))), ⟨t⟩) := by
  simp only [Model.Gumbel.sample_f64_orig, genF64_cons]
  rfun_norm

/-- pre-fix Gumbel: for EVERY word the argument of the inner `ln` is `≤ 0`, outside the domain of
    the logarithm (in IEEE arithmetic: `ln` of a negative number is NaN, `ln(−0.0) = −∞` and
    `ln(−∞)` is NaN — every draw is NaN). -/
theorem gumbel_sample_orig_counterexample (w : Int) (h0 : 0 ≤ w) (h1 : w < 18446744073709551616) :
    -(unit53 w) ≤ 0 := by
  have := (unit53_mem h0 h1).1; linarith

/-! ### Hypergeometric (pre-fix): no `draws == 0` guard -/

section generic
variable {α : Type} [Add α] [Sub α] [Mul α] [Div α] [Neg α] [LT α] [LE α] [BEq α]
  [DecidableLT α] [DecidableLE α] [OfScientific α] [Inhabited α] [RFun α]

/-- pre-fix Hypergeometric with `draws = 0` (accepted by `new`): the loop body runs once, draws a
    word, and `draws -= 1` underflows — the panic sentinel is returned, for every carrier, every
    population/successes and every stream. -/
theorem hypergeometric_sample_orig_counterexample (P S : Int) (r : Rng) :
    Model.Hypergeometric.sample_u64_orig (α := α) ⟨P, S, 0⟩ r = (panicInt, (genF64 (α := α) r).2) := by
  unfold Model.Hypergeometric.sample_u64_orig
  have hf : max loopFuel ((0 : Int).toNat + 1) = 19999 + 1 := by decide
  simp only [hf]
  rw [Hypergeometric.sample_u64.loop]
  rcases hg : genF64 (α := α) r with ⟨next, r1⟩
  have hu : usub 0 1 = panicInt := by decide
  by_cases hc : next < (RFun.ofInt S : α) / (RFun.ofInt P : α) <;> simp [hc, hu]

end generic

/-! ### Dirichlet (pre-fix): the accumulated `sum` was never used -/

/-- pre-fix Dirichlet returned the raw gamma draws, the current one divides each by their sum -/
theorem dirichlet_sample_orig_counterexample (alpha : List ℝ) (r : Rng) :
    (dirichlet_sample_orig (α := ℝ) alpha r).1 = (dirichlet_sample.draws (α := ℝ) alpha r).2.1
      ∧ (dirichlet_sample (α := ℝ) alpha r).1
          = ((dirichlet_sample.draws (α := ℝ) alpha r).2.1).map
              (fun e => e / (dirichlet_sample.draws (α := ℝ) alpha r).1) := ⟨rfl, rfl⟩

end Statrs.Props.C06
