/-
  Statrs.Props.C06.GenSamplersTransfer — how the C06 theorems, stated about the hand models
  `Statrs.Model.X.sample_T`, carry over to the definitions GENERATED from the source
  (`Statrs.Gen.X.sample_T`, `Statrs/Gen/Smp_*.lean`): rewrite with the equation of
  `Props/C06/GenSamplersEq.lean`.  A few instances (one per kind of sampler) are spelled out; every
  other theorem transfers by the same one-line proof.
-/
import Statrs.Props.C06.GenSamplersEq
import Statrs.Props.C06.Structure
set_option linter.unusedVariables false
set_option linter.unusedSectionVars false
namespace Statrs.Props.C06.GenSamplersTransfer
open Statrs Statrs.Props.C06 Statrs.Props.C06.GenSamplersEq

section generic
variable {α : Type} [Add α] [Sub α] [Mul α] [Div α] [Neg α] [LT α] [LE α] [BEq α]
  [DecidableLT α] [DecidableLE α] [OfScientific α] [Inhabited α] [RFun α]

/-- a single-uniform transform (generated `Cauchy::sample`) consumes exactly one word -/
theorem gen_cauchy_consumes (d : Gen.Cauchy α) (r : Model.Rng) :
    Consumes r (Gen.Cauchy.sample_f64 d r).2 1 := by
  rw [Cauchy_sample_f64_eq]; exact cauchy_consumes d r

/-- a fold (generated `Binomial::sample`): count in `[min, max]`, exactly `n` words consumed -/
theorem gen_binomial_sample_spec (d : Gen.Binomial α) (hn : 0 ≤ d.f_n) (r : Model.Rng) :
    Gen.Binomial.min d ≤ (Gen.Binomial.sample_u64 d r).1
      ∧ (Gen.Binomial.sample_u64 d r).1 ≤ Gen.Binomial.max d
      ∧ Consumes r (Gen.Binomial.sample_u64 d r).2 d.f_n.toNat := by
  rw [Binomial_sample_u64_eq]; exact binomial_sample_spec d hn r

/-- a loop (generated `Hypergeometric::sample`), within the translator's loop fuel -/
theorem gen_hypergeometric_sample_spec (d : Gen.Hypergeometric) (hd : 0 ≤ d.f_draws)
    (hf : d.f_draws ≤ (loopFuel : Int)) (r : Model.Rng) :
    0 ≤ (Gen.Hypergeometric.sample_u64 (α := α) d r).1
      ∧ (Gen.Hypergeometric.sample_u64 (α := α) d r).1 ≤ d.f_draws
      ∧ Consumes r (Gen.Hypergeometric.sample_u64 (α := α) d r).2 d.f_draws.toNat := by
  rw [Hypergeometric_sample_u64_eq_of_le (α := α) d r hd hf]; exact hypergeometric_sample_spec d hd r

/-- a branch with an early `return` (generated `StudentsT::sample`, `freedom = inf`) -/
theorem gen_studentsT_sample_inf_eq (d : Gen.StudentsT α) (hinf : RFun.isInf d.f_freedom = true) (r : Model.Rng) :
    Gen.StudentsT.sample_f64 d r = Gen.D.normal.sample_unchecked r d.f_location d.f_scale := by
  rw [StudentsT_sample_f64_eq, normal_sample_unchecked_eq]
  simp only [Model.StudentsT.sample_f64, hinf, if_true]

end generic
end Statrs.Props.C06.GenSamplersTransfer
