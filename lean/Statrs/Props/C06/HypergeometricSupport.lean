/-
  C06 — Hypergeometric: the count returned by the sampler lies in the support
  `[min, max] = [max(0, draws + successes − population), min(successes, draws)]`, over ℝ, for every
  constructed object and every well-formed stream.  (The loop draws without replacement with
  success probability `successes_left / population_left`; with `u ∈ [0,1)` a success is impossible
  when no successes are left and certain when only successes are left.)

  Strength: full(ℝ).
-/
import Statrs.Lemmas.Sampling
import Statrs.Props.C06.Structure
import Statrs.Props.C06.Vectors
import Statrs.Gen.D_hypergeometric
set_option linter.unusedVariables false
namespace Statrs.Props.C06
open Statrs Statrs.Gen Statrs.Model Statrs.Lemmas.Sampling

/-- loop invariant over ℝ: with `Si` successes among `Pi ≥ n+1` items left and `n+1` draws to go,
    the number of successes drawn is `≤ Si` and the number of failures drawn is `≤ Pi − Si` -/
theorem hypergeometric_loop_support : ∀ (n fuel : Nat), n + 1 ≤ fuel →
    ∀ (Pi Si : Int) (x : Int) (r : Rng), 0 ≤ Si → Si ≤ Pi → (n : Int) + 1 ≤ Pi → r.WF →
    ∃ (pop' succ' : ℝ) (x' : Int) (r' : Rng),
      Hypergeometric.sample_u64.loop (α := ℝ) fuel (Pi : ℝ) (Si : ℝ) ((n : Int) + 1) x r
        = LoopR.done (pop', succ', 0, x', r')
      ∧ x' - x ≤ Si ∧ ((n : Int) + 1) - (x' - x) ≤ Pi - Si := by
  intro n
  induction n with
  | zero =>
    intro fuel hf Pi Si x r hS hSP hP hwf
    obtain ⟨fuel, rfl⟩ : ∃ f, fuel = f + 1 := ⟨fuel - 1, by omega⟩
    rw [Hypergeometric.sample_u64.loop]
    obtain ⟨hu0, hu1, hwf'⟩ := genF64_mem_of_WF r hwf
    rcases hg : genF64 (α := ℝ) r with ⟨next, r1⟩
    rw [hg] at hu0 hu1
    simp only at hu0 hu1
    have hne : ¬ ((0 : Int) = panicInt) := by decide
    have hPpos : (0 : ℝ) < (Pi : ℝ) := by exact_mod_cast (by omega : 0 < Pi)
    by_cases hc : next < (Si : ℝ) / (Pi : ℝ)
    · have hSpos : 0 < Si := by
        by_contra hcon
        have : Si = 0 := by omega
        rw [this] at hc; simp at hc; linarith
      refine ⟨(Pi : ℝ) - (1.0 : ℝ), (Si : ℝ) - (1.0 : ℝ), x + 1, r1, ?_, by omega, by push_cast; omega⟩
      simp [hc, usub, hne]
    · have hlt : Si < Pi := by
        rw [not_lt, div_le_iff₀ hPpos] at hc
        have : (Si : ℝ) < (Pi : ℝ) := by nlinarith
        exact_mod_cast this
      refine ⟨(Pi : ℝ) - (1.0 : ℝ), (Si : ℝ), x, r1, ?_, by omega, by push_cast; omega⟩
      simp [hc, usub, hne]
  | succ n ih =>
    intro fuel hf Pi Si x r hS hSP hP hwf
    obtain ⟨fuel, rfl⟩ : ∃ f, fuel = f + 1 := ⟨fuel - 1, by omega⟩
    have hf' : n + 1 ≤ fuel := by omega
    rw [Hypergeometric.sample_u64.loop]
    obtain ⟨hu0, hu1, hwf'⟩ := genF64_mem_of_WF r hwf
    rcases hg : genF64 (α := ℝ) r with ⟨next, r1⟩
    rw [hg] at hu0 hu1 hwf'
    simp only at hu0 hu1 hwf'
    have hus : usub (((n + 1 : Nat) : Int) + 1) 1 = (n : Int) + 1 := by
      unfold usub; rw [if_neg (by push_cast; omega)]; push_cast; ring
    have hne1 : ¬ ((n : Int) + 1 = panicInt) := by
      have : panicInt < 0 := by decide
      omega
    have hne0 : ¬ ((n : Int) + 1 = 0) := by omega
    push_cast at hP
    have hPpos : (0 : ℝ) < (Pi : ℝ) := by exact_mod_cast (by omega : 0 < Pi)
    by_cases hc : next < (Si : ℝ) / (Pi : ℝ)
    · have hSpos : 0 < Si := by
        by_contra hcon
        have : Si = 0 := by omega
        rw [this] at hc; simp at hc; linarith
      obtain ⟨pop', succ', x', r', he, h1, h2⟩ :=
        ih fuel hf' (Pi - 1) (Si - 1) (x + 1) r1 (by omega) (by omega) (by omega) hwf'
      refine ⟨pop', succ', x', r', ?_, by omega, by push_cast; omega⟩
      simp only [hc, if_true, hus, hne1, hne0, if_false]
      have e1 : (Pi : ℝ) - (1.0 : ℝ) = ((Pi - 1 : Int) : ℝ) := by push_cast; norm_num
      have e2 : (Si : ℝ) - (1.0 : ℝ) = ((Si - 1 : Int) : ℝ) := by push_cast; norm_num
      rw [e1, e2]; exact he
    · have hlt : Si < Pi := by
        rw [not_lt, div_le_iff₀ hPpos] at hc
        have : (Si : ℝ) < (Pi : ℝ) := by nlinarith
        exact_mod_cast this
      obtain ⟨pop', succ', x', r', he, h1, h2⟩ :=
        ih fuel hf' (Pi - 1) Si x r1 hS (by omega) (by omega) hwf'
      refine ⟨pop', succ', x', r', ?_, by omega, by push_cast; omega⟩
      simp only [hc, if_false, hus, hne1, hne0]
      have e1 : (Pi : ℝ) - (1.0 : ℝ) = ((Pi - 1 : Int) : ℝ) := by push_cast; norm_num
      rw [e1]; exact he

/-- Hypergeometric: `min ≤ x ≤ max` for every constructed object (`0 ≤ successes ≤ population`,
    `0 ≤ draws ≤ population`: the `u64` range and what `new` enforces) and every well-formed stream -/
theorem hypergeometric_sample_mem (d : Hypergeometric) (hS : 0 ≤ d.f_successes)
    (hSP : d.f_successes ≤ d.f_population) (hd : 0 ≤ d.f_draws) (hdP : d.f_draws ≤ d.f_population)
    (r : Rng) (hwf : r.WF) :
    Gen.Hypergeometric.min (α := ℝ) d ≤ (Model.Hypergeometric.sample_u64 (α := ℝ) d r).1
      ∧ (Model.Hypergeometric.sample_u64 (α := ℝ) d r).1 ≤ Gen.Hypergeometric.max (α := ℝ) d := by
  obtain ⟨g0, g1, _⟩ := hypergeometric_sample_spec (α := ℝ) d hd r
  unfold Gen.Hypergeometric.min Gen.Hypergeometric.max usatSub
  by_cases h0 : d.f_draws = 0
  · rw [hypergeometric_sample_zero_draws (α := ℝ) d h0 r]
    simp only [h0]
    split_ifs <;> omega
  · obtain ⟨n, hn⟩ : ∃ n : Nat, d.f_draws = (n : Int) + 1 := ⟨(d.f_draws - 1).toNat, by omega⟩
    have hfuel : n + 1 ≤ max loopFuel (d.f_draws.toNat + 1) := by
      have : d.f_draws.toNat = n + 1 := by omega
      omega
    obtain ⟨pop', succ', x', r', he, h1, h2⟩ :=
      hypergeometric_loop_support n _ hfuel d.f_population d.f_successes 0 r hS hSP (by omega) hwf
    have hval : (Model.Hypergeometric.sample_u64 (α := ℝ) d r).1 = x' := by
      unfold Model.Hypergeometric.sample_u64
      simp only [rfun_ofInt]
      rw [if_neg h0]
      rw [hn] at he
      rw [hn, he]
    rw [hval] at g0 g1 ⊢
    constructor
    · split_ifs <;> omega
    · simp only [le_min_iff]; omega

example : ∃ d : Hypergeometric, 0 ≤ d.f_successes ∧ d.f_successes ≤ d.f_population ∧ 0 ≤ d.f_draws
    ∧ d.f_draws ≤ d.f_population := ⟨⟨10, 3, 4⟩, by decide⟩

end Statrs.Props.C06
