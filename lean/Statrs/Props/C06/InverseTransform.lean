/-
  C06 — inverse-transform samplers (Cauchy, Weibull, Pareto, Gumbel): over ℝ, the value the sampler
  returns for the uniform `u` it draws satisfies `cdf d x = u` (or `1 − u`), the map `u ↦ x` is
  strictly monotone, the value respects the finite support bound, and exactly the words of the one
  uniform draw are consumed.

  The samplers are the hand models of `Statrs/Model/Samplers.lean` (pinned to the Rust code by the
  correspondence check); the cdfs are the generated ones.  `X.T d u` is the sampler written as a
  function of the uniform (`X.sample_eq`, by `rfl`).

  Strength: full(ℝ).  The uniform `u` ranges over the open (half-open) unit interval; the primitive
  produces `0` for the 2¹¹ lowest words (`gen::<f64>()`), where the closed forms leave ℝ (ln 0,
  tan(−π/2)): those end-points are stated separately in `Props/C06/Range.lean` as facts about which
  words produce them.
-/
import Statrs.Lemmas.Sampling
import Statrs.Gen.D_cauchy
import Statrs.Gen.D_weibull
import Statrs.Gen.D_pareto
import Statrs.Gen.D_gumbel
namespace Statrs.Props.C06
open Statrs Statrs.Gen Statrs.Model Statrs.Lemmas.Sampling

/-! ## Cauchy -/

/-- Cauchy sampler as a function of the uniform -/
noncomputable def Cauchy.T (d : Cauchy ℝ) (u : ℝ) : ℝ :=
  d.f_location + d.f_scale * Real.tan (Real.pi * (u - 1 / 2))

/-- the sampler is `T` of one `gen::<f64>()` draw and consumes exactly that draw -/
theorem cauchy_sample_eq (d : Cauchy ℝ) (rng : Rng) :
    Model.Cauchy.sample_f64 d rng = (Cauchy.T d (genF64 (α := ℝ) rng).1, (genF64 (α := ℝ) rng).2) := by
  simp only [Model.Cauchy.sample_f64, Cauchy.T]
  rfun_norm; norm_num

/-- Cauchy: `cdf (T u) = u` for every `u ∈ (0,1)` -/
theorem cauchy_cdf_T (d : Cauchy ℝ) (hs : 0 < d.f_scale) (u : ℝ) (h0 : 0 < u) (h1 : u < 1) :
    Gen.Cauchy.cdf d (Cauchy.T d u) = u := by
  unfold Gen.Cauchy.cdf Cauchy.T
  rfun_norm
  have hpi := Real.pi_pos
  have e : (d.f_location + d.f_scale * Real.tan (Real.pi * (u - 1 / 2)) - d.f_location) / d.f_scale
      = Real.tan (Real.pi * (u - 1 / 2)) := by
    rw [add_sub_cancel_left, mul_div_cancel_left₀ _ hs.ne']
  rw [e, Real.arctan_tan (by nlinarith) (by nlinarith)]
  norm_num

/-- Cauchy: `T` is strictly increasing on `(0,1)` -/
theorem cauchy_T_strictMono (d : Cauchy ℝ) (hs : 0 < d.f_scale) :
    StrictMonoOn (Cauchy.T d) (Set.Ioo 0 1) := by
  intro a ha b hb hab
  have hpi := Real.pi_pos
  unfold Cauchy.T
  have := Real.tan_lt_tan_of_lt_of_lt_pi_div_two (x := Real.pi * (a - 1 / 2)) (y := Real.pi * (b - 1 / 2))
    (by nlinarith [ha.1]) (by nlinarith [hb.2]) (by nlinarith)
  nlinarith

/-- Cauchy, on the word stream: for a word `w ≥ 2^11` (i.e. `u > 0`) the returned value has
    `cdf = u = (w >> 11)·2⁻⁵³`, and one word is consumed -/
theorem cauchy_sample_cdf (d : Cauchy ℝ) (hs : 0 < d.f_scale) (w : Int) (t : List Int)
    (h0 : 2048 ≤ w) (h1 : w < 18446744073709551616) :
    Gen.Cauchy.cdf d (Model.Cauchy.sample_f64 d ⟨w :: t⟩).1 = unit53 w
      ∧ (Model.Cauchy.sample_f64 d ⟨w :: t⟩).2 = ⟨t⟩ := by
  rw [cauchy_sample_eq, genF64_cons]
  exact ⟨cauchy_cdf_T d hs _ (unit53_pos h0) (unit53_mem (by omega) h1).2, rfl⟩

example : ∃ d : Cauchy ℝ, 0 < d.f_scale := ⟨⟨0, 1⟩, by norm_num⟩

/-! ## Weibull -/

/-- Weibull sampler as a function of the uniform -/
noncomputable def Weibull.T (d : Weibull ℝ) (u : ℝ) : ℝ :=
  d.f_scale * (-Real.log u) ^ (1 / d.f_shape)

theorem weibull_sample_eq (d : Weibull ℝ) (rng : Rng) :
    Model.Weibull.sample_f64 d rng = (Weibull.T d (genF64 (α := ℝ) rng).1, (genF64 (α := ℝ) rng).2) := by
  simp only [Model.Weibull.sample_f64, Weibull.T]
  rfun_norm; norm_num

/-- Weibull: `cdf (T u) = 1 − u` for every `u ∈ (0,1)`.  The third hypothesis is the value `new`
    stores in the cached field. -/
theorem weibull_cdf_T (d : Weibull ℝ) (hk : 0 < d.f_shape) (hs : 0 < d.f_scale)
    (hc : d.f_scale_pow_shape_inv = d.f_scale ^ (-d.f_shape)) (u : ℝ) (h0 : 0 < u) (h1 : u < 1) :
    Gen.Weibull.cdf d (Weibull.T d u) = 1 - u := by
  have hl : 0 < -Real.log u := by have := Real.log_neg h0 h1; linarith
  have hp : 0 < (-Real.log u) ^ (1 / d.f_shape) := Real.rpow_pos_of_pos hl _
  have hT : 0 < Weibull.T d u := mul_pos hs hp
  unfold Gen.Weibull.cdf
  rw [if_neg (by norm_num; exact hT.le)]
  rfun_norm
  have e1 : (Weibull.T d u) ^ d.f_shape = d.f_scale ^ d.f_shape * (-Real.log u) := by
    unfold Weibull.T
    rw [Real.mul_rpow hs.le hp.le, ← Real.rpow_mul hl.le, one_div, inv_mul_cancel₀ hk.ne', Real.rpow_one]
  have e2 : d.f_scale ^ d.f_shape * d.f_scale ^ (-d.f_shape) = 1 := by
    rw [← Real.rpow_add hs]; simp
  rw [hc, e1]
  have : -(d.f_scale ^ d.f_shape * -Real.log u) * d.f_scale ^ (-d.f_shape) = Real.log u := by
    calc -(d.f_scale ^ d.f_shape * -Real.log u) * d.f_scale ^ (-d.f_shape)
        = (d.f_scale ^ d.f_shape * d.f_scale ^ (-d.f_shape)) * Real.log u := by ring
      _ = Real.log u := by rw [e2, one_mul]
  rw [this, Real.exp_log h0]; ring

/-- Weibull: `T` is strictly decreasing on `(0,1)` -/
theorem weibull_T_strictAnti (d : Weibull ℝ) (hk : 0 < d.f_shape) (hs : 0 < d.f_scale) :
    StrictAntiOn (Weibull.T d) (Set.Ioo 0 1) := by
  intro a ha b hb hab
  unfold Weibull.T
  have hla : 0 < -Real.log a := by have := Real.log_neg ha.1 ha.2; linarith
  have hlb : 0 < -Real.log b := by have := Real.log_neg hb.1 hb.2; linarith
  have hlt : -Real.log b < -Real.log a := by have := Real.log_lt_log ha.1 hab; linarith
  have := Real.rpow_lt_rpow hlb.le hlt (show 0 < 1 / d.f_shape by positivity)
  exact mul_lt_mul_of_pos_left this hs

/-- Weibull: the variate respects the lower support bound (`min = 0`) -/
theorem weibull_T_ge_min (d : Weibull ℝ) (hs : 0 < d.f_scale) (u : ℝ) (h0 : 0 < u) (h1 : u < 1) :
    Gen.Weibull.min d ≤ Weibull.T d u := by
  have hl : 0 < -Real.log u := by have := Real.log_neg h0 h1; linarith
  unfold Gen.Weibull.min Weibull.T
  norm_num
  exact mul_nonneg hs.le (Real.rpow_nonneg hl.le _)

theorem weibull_sample_cdf (d : Weibull ℝ) (hk : 0 < d.f_shape) (hs : 0 < d.f_scale)
    (hc : d.f_scale_pow_shape_inv = d.f_scale ^ (-d.f_shape)) (w : Int) (t : List Int)
    (h0 : 2048 ≤ w) (h1 : w < 18446744073709551616) :
    Gen.Weibull.cdf d (Model.Weibull.sample_f64 d ⟨w :: t⟩).1 = 1 - unit53 w
      ∧ (Model.Weibull.sample_f64 d ⟨w :: t⟩).2 = ⟨t⟩ := by
  rw [weibull_sample_eq, genF64_cons]
  exact ⟨weibull_cdf_T d hk hs hc _ (unit53_pos h0) (unit53_mem (by omega) h1).2, rfl⟩

example : ∃ d : Weibull ℝ, 0 < d.f_shape ∧ 0 < d.f_scale ∧
    d.f_scale_pow_shape_inv = d.f_scale ^ (-d.f_shape) := ⟨⟨1, 1, 1⟩, by norm_num⟩

/-! ## Pareto -/

/-- Pareto sampler as a function of the (`OpenClosed01`) uniform -/
noncomputable def Pareto.T (d : Pareto ℝ) (u : ℝ) : ℝ :=
  d.f_scale * u ^ (-1 / d.f_shape)

theorem pareto_sample_eq (d : Pareto ℝ) (rng : Rng) :
    Model.Pareto.sample_f64 d rng
      = (Pareto.T d (genOpenClosed01 (α := ℝ) rng).1, (genOpenClosed01 (α := ℝ) rng).2) := by
  simp only [Model.Pareto.sample_f64, Pareto.T]
  rfun_norm; norm_num

theorem pareto_T_ge_scale (d : Pareto ℝ) (hk : 0 < d.f_shape) (hs : 0 < d.f_scale)
    (u : ℝ) (h0 : 0 < u) (h1 : u ≤ 1) : d.f_scale ≤ Pareto.T d u := by
  unfold Pareto.T
  have : (1 : ℝ) ≤ u ^ (-1 / d.f_shape) :=
    Real.one_le_rpow_of_pos_of_le_one_of_nonpos h0 h1 (by
      have : 0 < 1 / d.f_shape := by positivity
      have e : -1 / d.f_shape = -(1 / d.f_shape) := by ring
      linarith)
  nlinarith

/-- Pareto: `cdf (T u) = 1 − u` for every `u ∈ (0,1]` (the whole range of `OpenClosed01`) -/
theorem pareto_cdf_T (d : Pareto ℝ) (hk : 0 < d.f_shape) (hs : 0 < d.f_scale)
    (u : ℝ) (h0 : 0 < u) (h1 : u ≤ 1) :
    Gen.Pareto.cdf d (Pareto.T d u) = 1 - u := by
  have hge := pareto_T_ge_scale d hk hs u h0 h1
  unfold Gen.Pareto.cdf
  rw [if_neg (by linarith)]
  rfun_norm
  have hp : 0 < u ^ (-1 / d.f_shape) := Real.rpow_pos_of_pos h0 _
  have e : d.f_scale / Pareto.T d u = u ^ (1 / d.f_shape) := by
    unfold Pareto.T
    rw [show (-1 / d.f_shape) = -(1 / d.f_shape) by ring, Real.rpow_neg h0.le]
    have : 0 < u ^ (1 / d.f_shape) := Real.rpow_pos_of_pos h0 _
    field_simp
  rw [e, ← Real.rpow_mul h0.le, one_div, inv_mul_cancel₀ hk.ne', Real.rpow_one]
  norm_num

/-- Pareto: `T` is strictly decreasing on `(0,1]` -/
theorem pareto_T_strictAnti (d : Pareto ℝ) (hk : 0 < d.f_shape) (hs : 0 < d.f_scale) :
    StrictAntiOn (Pareto.T d) (Set.Ioc 0 1) := by
  intro a ha b hb hab
  unfold Pareto.T
  have hneg : -1 / d.f_shape < 0 := by
    have : 0 < 1 / d.f_shape := by positivity
    have e : -1 / d.f_shape = -(1 / d.f_shape) := by ring
    linarith
  have := Real.rpow_lt_rpow_of_neg ha.1 hab hneg
  exact mul_lt_mul_of_pos_left this hs

/-- Pareto: the variate respects the lower support bound (`min = scale`) -/
theorem pareto_T_ge_min (d : Pareto ℝ) (hk : 0 < d.f_shape) (hs : 0 < d.f_scale)
    (u : ℝ) (h0 : 0 < u) (h1 : u ≤ 1) : Gen.Pareto.min d ≤ Pareto.T d u := by
  unfold Gen.Pareto.min; exact pareto_T_ge_scale d hk hs u h0 h1

/-- Pareto, on the word stream: every word gives `cdf = 1 − u`, `u = ((w >> 11) + 1)·2⁻⁵³ ∈ (0,1]` -/
theorem pareto_sample_cdf (d : Pareto ℝ) (hk : 0 < d.f_shape) (hs : 0 < d.f_scale)
    (w : Int) (t : List Int) (h0 : 0 ≤ w) (h1 : w < 18446744073709551616) :
    Gen.Pareto.cdf d (Model.Pareto.sample_f64 d ⟨w :: t⟩).1 = 1 - unit53oc w
      ∧ Gen.Pareto.min d ≤ (Model.Pareto.sample_f64 d ⟨w :: t⟩).1
      ∧ (Model.Pareto.sample_f64 d ⟨w :: t⟩).2 = ⟨t⟩ := by
  rw [pareto_sample_eq, genOpenClosed01_cons]
  obtain ⟨a, b⟩ := unit53oc_mem h0 h1
  exact ⟨pareto_cdf_T d hk hs _ a b, pareto_T_ge_min d hk hs _ a b, rfl⟩

example : ∃ d : Pareto ℝ, 0 < d.f_shape ∧ 0 < d.f_scale := ⟨⟨1, 1⟩, by norm_num⟩

/-! ## Gumbel (current tree: `location − scale·ln(−ln u)`) -/

/-- Gumbel sampler as a function of the uniform -/
noncomputable def Gumbel.T (d : Gumbel ℝ) (u : ℝ) : ℝ :=
  d.f_location - d.f_scale * Real.log (-Real.log u)

theorem gumbel_sample_eq (d : Gumbel ℝ) (rng : Rng) :
    Model.Gumbel.sample_f64 d rng = (Gumbel.T d (genF64 (α := ℝ) rng).1, (genF64 (α := ℝ) rng).2) := by
  simp only [Model.Gumbel.sample_f64, Gumbel.T]
  rfun_norm

/-- Gumbel: `cdf (T u) = u` for every `u ∈ (0,1)` -/
theorem gumbel_cdf_T (d : Gumbel ℝ) (hs : 0 < d.f_scale) (u : ℝ) (h0 : 0 < u) (h1 : u < 1) :
    Gen.Gumbel.cdf d (Gumbel.T d u) = u := by
  have hl : 0 < -Real.log u := by have := Real.log_neg h0 h1; linarith
  unfold Gen.Gumbel.cdf Gumbel.T
  rfun_norm
  have e : -(d.f_location - d.f_scale * Real.log (-Real.log u) - d.f_location) / d.f_scale
      = Real.log (-Real.log u) := by
    rw [sub_sub_cancel_left, neg_neg, mul_div_cancel_left₀ _ hs.ne']
  rw [e, Real.exp_log hl, neg_neg, Real.exp_log h0]

/-- Gumbel: `T` is strictly increasing on `(0,1)` -/
theorem gumbel_T_strictMono (d : Gumbel ℝ) (hs : 0 < d.f_scale) :
    StrictMonoOn (Gumbel.T d) (Set.Ioo 0 1) := by
  intro a ha b hb hab
  unfold Gumbel.T
  have hlb : 0 < -Real.log b := by have := Real.log_neg hb.1 hb.2; linarith
  have hlt : -Real.log b < -Real.log a := by have := Real.log_lt_log ha.1 hab; linarith
  have := Real.log_lt_log hlb hlt
  nlinarith

theorem gumbel_sample_cdf (d : Gumbel ℝ) (hs : 0 < d.f_scale) (w : Int) (t : List Int)
    (h0 : 2048 ≤ w) (h1 : w < 18446744073709551616) :
    Gen.Gumbel.cdf d (Model.Gumbel.sample_f64 d ⟨w :: t⟩).1 = unit53 w
      ∧ (Model.Gumbel.sample_f64 d ⟨w :: t⟩).2 = ⟨t⟩ := by
  rw [gumbel_sample_eq, genF64_cons]
  exact ⟨gumbel_cdf_T d hs _ (unit53_pos h0) (unit53_mem (by omega) h1).2, rfl⟩

example : ∃ d : Gumbel ℝ, 0 < d.f_scale := ⟨⟨0, 1⟩, by norm_num⟩

end Statrs.Props.C06
