/-
  C06 — inverse-transform samplers, part 2: Laplace (uniform on (−½,½)), Triangular, Uniform
  (affine map of a 52-bit uniform), Levy (relative to a premise on the abstract `erfc_inv`).
  Same conventions as `InverseTransform.lean`.

  Strength: full(ℝ) for Laplace, Triangular, Uniform; rel(ErfcInvSpec) for Levy.
-/
import Statrs.Lemmas.Sampling
import Statrs.Lemmas.ClosedCdfErfc
import Statrs.Props.C01.Closed
import Statrs.Spec.SFSpec_sampling
import Statrs.Gen.D_laplace
import Statrs.Gen.D_triangular
import Statrs.Gen.D_uniform
import Statrs.Gen.D_levy
set_option linter.unusedVariables false
namespace Statrs.Props.C06
open Statrs Statrs.Gen Statrs.Model Statrs.Lemmas.Sampling Statrs.Lemmas.ClosedCdf
  Statrs.Lemmas.ClosedCdfErfc Statrs.Spec.Sampling

private theorem rfun_signum (x : ℝ) : RFun.signum x = if 0 ≤ x then 1 else -1 := rfl

/-! ## Laplace -/

/-- Laplace sampler as a function of the uniform `x ∈ [−½, ½)` it draws with `gen_range(-0.5..0.5)` -/
noncomputable def Laplace.T (d : Laplace ℝ) (x : ℝ) : ℝ :=
  d.f_location - d.f_scale * (if 0 ≤ x then 1 else -1) * Real.log (1 - 2 * |x|)

theorem laplace_sample_eq (d : Laplace ℝ) (rng : Rng) :
    Model.Laplace.sample_f64 d rng
      = (Laplace.T d (genRangeF64 (α := ℝ) (-(0.5 : ℝ)) (0.5 : ℝ) rng).1,
         (genRangeF64 (α := ℝ) (-(0.5 : ℝ)) (0.5 : ℝ) rng).2) := by
  simp only [Model.Laplace.sample_f64, Laplace.T, rfun_signum]
  rfun_norm; norm_num

/-- Laplace: `cdf (T x) = x + ½` for every `x ∈ (−½, ½)` -/
theorem laplace_cdf_T (d : Laplace ℝ) (hs : 0 < d.f_scale) (x : ℝ) (h0 : -(1 / 2) < x) (h1 : x < 1 / 2) :
    Gen.Laplace.cdf d (Laplace.T d x) = x + 1 / 2 := by
  rw [laplace_cdf_eq]
  unfold Laplace.T
  by_cases hx : 0 ≤ x
  · have hpos : 0 < 1 - 2 * x := by linarith
    have hl : Real.log (1 - 2 * x) ≤ 0 := Real.log_nonpos hpos.le (by linarith)
    rw [if_pos hx, abs_of_nonneg hx]
    have hge : d.f_location ≤ d.f_location - d.f_scale * 1 * Real.log (1 - 2 * x) := by nlinarith
    rw [if_pos hge]
    have e : -|d.f_location - d.f_scale * 1 * Real.log (1 - 2 * x) - d.f_location| / d.f_scale
        = Real.log (1 - 2 * x) := by
      rw [abs_of_nonneg (by nlinarith)]; field_simp; ring
    rw [e, Real.exp_log hpos]; ring
  · have hnx : ¬ 0 ≤ x := hx
    rw [not_le] at hx
    have hpos : 0 < 1 + 2 * x := by linarith
    have hl : Real.log (1 + 2 * x) < 0 := Real.log_neg hpos (by linarith)
    rw [if_neg hnx, abs_of_neg hx]
    have e0 : (1 : ℝ) - 2 * -x = 1 + 2 * x := by ring
    rw [e0]
    have hlt : ¬ d.f_location ≤ d.f_location - d.f_scale * -1 * Real.log (1 + 2 * x) := by
      rw [not_le]; nlinarith
    rw [if_neg hlt]
    have e : -|d.f_location - d.f_scale * -1 * Real.log (1 + 2 * x) - d.f_location| / d.f_scale
        = Real.log (1 + 2 * x) := by
      rw [abs_of_nonpos (by nlinarith)]; field_simp; ring
    rw [e, Real.exp_log hpos]; ring

/-- Laplace: `T` is strictly increasing on `(−½, ½)` (from `cdf ∘ T = id + ½` and monotonicity of
    the cdf, C01) -/
theorem laplace_T_strictMono (d : Laplace ℝ) (hs : 0 < d.f_scale) :
    StrictMonoOn (Laplace.T d) (Set.Ioo (-(1 / 2)) (1 / 2)) := by
  intro a ha b hb hab
  by_contra hcon
  rw [not_lt] at hcon
  have := Statrs.Props.C01.laplace_cdf_mono d hs hcon
  rw [laplace_cdf_T d hs a ha.1 ha.2, laplace_cdf_T d hs b hb.1 hb.2] at this
  linarith

/-- Laplace, on the word stream: one word is consumed; for `w ≥ 2^12` the value has
    `cdf = (w >> 12)·2⁻⁵²` (for the 2¹² lowest words the draw is exactly −½, i.e. `ln 0`) -/
theorem laplace_sample_cdf (d : Laplace ℝ) (hs : 0 < d.f_scale) (w : Int) (t : List Int)
    (h0 : 4096 ≤ w) (h1 : w < 18446744073709551616) :
    Gen.Laplace.cdf d (Model.Laplace.sample_f64 d ⟨w :: t⟩).1 = unit52 w
      ∧ (Model.Laplace.sample_f64 d ⟨w :: t⟩).2 = ⟨t⟩ := by
  have hr : genRangeF64 (α := ℝ) (-(0.5 : ℝ)) (0.5 : ℝ) ⟨w :: t⟩ = (unit52 w - 1 / 2, ⟨t⟩) := by
    rw [genRangeF64_cons _ _ (by norm_num) w t (by omega) h1]
    congr 1; norm_num; ring
  rw [laplace_sample_eq, hr]
  obtain ⟨a, b⟩ := unit52_mem (w := w) (by omega) h1
  have hp := unit52_pos h0
  refine ⟨?_, rfl⟩
  rw [laplace_cdf_T d hs _ (by linarith) (by linarith)]; ring

example : ∃ d : Laplace ℝ, 0 < d.f_scale := ⟨⟨0, 1⟩, by norm_num⟩

/-! ## Triangular -/

/-- Triangular sampler as a function of the uniform -/
noncomputable def Triangular.T (d : Triangular ℝ) (f : ℝ) : ℝ :=
  if f < (d.f_mode - d.f_min) / (d.f_max - d.f_min) then
    d.f_min + Real.sqrt (f * (d.f_max - d.f_min) * (d.f_mode - d.f_min))
  else d.f_max - Real.sqrt ((1 - f) * (d.f_max - d.f_min) * (d.f_max - d.f_mode))

theorem triangular_sample_eq (d : Triangular ℝ) (rng : Rng) :
    Model.Triangular.sample_f64 d rng
      = (Triangular.T d (genF64 (α := ℝ) rng).1, (genF64 (α := ℝ) rng).2) := by
  simp only [Model.Triangular.sample_f64, triangular_sample_unchecked, Triangular.T]
  rfun_norm
  split_ifs <;> norm_num

/-- Triangular: `min ≤ T f ≤ max`, and which side of the mode the value falls on -/
theorem triangular_T_mem (d : Triangular ℝ) (h1 : d.f_min ≤ d.f_mode) (h2 : d.f_mode ≤ d.f_max)
    (h3 : d.f_min ≠ d.f_max) (f : ℝ) (hf0 : 0 ≤ f) (hf1 : f < 1) :
    d.f_min ≤ Triangular.T d f ∧ Triangular.T d f ≤ d.f_max := by
  have hab : d.f_min < d.f_max := lt_of_le_of_ne (h1.trans h2) h3
  have hba : 0 < d.f_max - d.f_min := by linarith
  unfold Triangular.T
  split_ifs with hb
  · rw [lt_div_iff₀ hba] at hb
    have hs : Real.sqrt (f * (d.f_max - d.f_min) * (d.f_mode - d.f_min)) ≤ d.f_mode - d.f_min := by
      exact Real.sqrt_le_iff.mpr ⟨by linarith, by nlinarith⟩
    have := Real.sqrt_nonneg (f * (d.f_max - d.f_min) * (d.f_mode - d.f_min))
    constructor <;> linarith
  · rw [not_lt, div_le_iff₀ hba] at hb
    have hs : Real.sqrt ((1 - f) * (d.f_max - d.f_min) * (d.f_max - d.f_mode)) ≤ d.f_max - d.f_mode := by
      exact Real.sqrt_le_iff.mpr ⟨by linarith, by nlinarith⟩
    have := Real.sqrt_nonneg ((1 - f) * (d.f_max - d.f_min) * (d.f_max - d.f_mode))
    constructor <;> linarith

/-- Triangular: `cdf (T f) = f` for every `f ∈ [0,1)` (the whole range of `gen::<f64>()`) -/
theorem triangular_cdf_T (d : Triangular ℝ) (h1 : d.f_min ≤ d.f_mode) (h2 : d.f_mode ≤ d.f_max)
    (h3 : d.f_min ≠ d.f_max) (f : ℝ) (hf0 : 0 ≤ f) (hf1 : f < 1) :
    Gen.Triangular.cdf d (Triangular.T d f) = f := by
  have hab : d.f_min < d.f_max := lt_of_le_of_ne (h1.trans h2) h3
  have hba : 0 < d.f_max - d.f_min := by linarith
  rw [triangular_cdf_eq]
  unfold Triangular.T
  by_cases hb : f < (d.f_mode - d.f_min) / (d.f_max - d.f_min)
  · rw [if_pos hb]
    rw [lt_div_iff₀ hba] at hb
    have hca : 0 < d.f_mode - d.f_min := by nlinarith
    set s := Real.sqrt (f * (d.f_max - d.f_min) * (d.f_mode - d.f_min)) with hsdef
    have hs0 : 0 ≤ s := Real.sqrt_nonneg _
    have hss : s * s = f * (d.f_max - d.f_min) * (d.f_mode - d.f_min) :=
      Real.mul_self_sqrt (by positivity)
    have hsle : s ≤ d.f_mode - d.f_min := by
      exact Real.sqrt_le_iff.mpr ⟨by linarith, by nlinarith⟩
    by_cases hf : f = 0
    · have : s = 0 := by rw [hsdef, hf]; simp
      rw [this, hf]; simp
    · have hfpos : 0 < f := lt_of_le_of_ne hf0 (Ne.symm hf)
      have hspos : 0 < s := Real.sqrt_pos.mpr (by positivity)
      rw [if_neg (by linarith), if_pos (by linarith)]
      rw [add_sub_cancel_left, hss]
      field_simp
  · rw [if_neg hb]
    rw [not_lt, div_le_iff₀ hba] at hb
    have h1f : 0 < 1 - f := by linarith
    have hbc : (1 - f) * (d.f_max - d.f_min) ≤ d.f_max - d.f_mode := by nlinarith
    have hbcpos : 0 < d.f_max - d.f_mode := by nlinarith
    set s := Real.sqrt ((1 - f) * (d.f_max - d.f_min) * (d.f_max - d.f_mode)) with hsdef
    have hspos : 0 < s := Real.sqrt_pos.mpr (by positivity)
    have hss : s * s = (1 - f) * (d.f_max - d.f_min) * (d.f_max - d.f_mode) :=
      Real.mul_self_sqrt (by positivity)
    have hsle : s ≤ d.f_max - d.f_mode := by
      exact Real.sqrt_le_iff.mpr ⟨by linarith, by nlinarith⟩
    by_cases hxa : d.f_max - s ≤ d.f_min
    · -- then mode = min and s = max − mode, which forces f = 0
      rw [if_pos hxa]
      have hca : d.f_mode = d.f_min := by linarith
      have hs : s = d.f_max - d.f_mode := by linarith
      rw [hs] at hss
      have : (1 - f) * (d.f_max - d.f_min) = d.f_max - d.f_mode := by
        have := mul_right_cancel₀ hbcpos.ne' (by linarith : (d.f_max - d.f_mode) * (d.f_max - d.f_mode)
          = ((1 - f) * (d.f_max - d.f_min)) * (d.f_max - d.f_mode))
        linarith
      rw [hca] at this
      have : (1 - f) = 1 := by
        have := mul_right_cancel₀ hba.ne' (by linarith : (1 - f) * (d.f_max - d.f_min) = 1 * (d.f_max - d.f_min))
        exact this
      linarith
    · rw [if_neg hxa]
      by_cases hxc : d.f_max - s ≤ d.f_mode
      · -- the value is exactly the mode
        rw [if_pos hxc]
        have hs : s = d.f_max - d.f_mode := by linarith
        have hx : d.f_max - s = d.f_mode := by linarith
        rw [hs] at hss
        have e : (1 - f) * (d.f_max - d.f_min) = d.f_max - d.f_mode := by
          have := mul_right_cancel₀ hbcpos.ne' (by linarith : (d.f_max - d.f_mode) * (d.f_max - d.f_mode)
            = ((1 - f) * (d.f_max - d.f_min)) * (d.f_max - d.f_mode))
          linarith
        have hca : 0 < d.f_mode - d.f_min := by rw [not_le] at hxa; linarith
        rw [hx]
        field_simp
        linarith
      · rw [if_neg hxc, if_pos (by linarith)]
        rw [sub_sub_cancel, hss]
        field_simp
        ring

/-- Triangular: `T` is strictly increasing on `[0,1)` (from `cdf ∘ T = id` and monotonicity of the
    cdf, C01) -/
theorem triangular_T_strictMono (d : Triangular ℝ) (h1 : d.f_min ≤ d.f_mode) (h2 : d.f_mode ≤ d.f_max)
    (h3 : d.f_min ≠ d.f_max) : StrictMonoOn (Triangular.T d) (Set.Ico 0 1) := by
  intro a ha b hb hab
  by_contra hcon
  rw [not_lt] at hcon
  have := Statrs.Props.C01.triangular_cdf_mono d h1 h2 h3 hcon
  rw [triangular_cdf_T d h1 h2 h3 a ha.1 ha.2, triangular_cdf_T d h1 h2 h3 b hb.1 hb.2] at this
  linarith

/-- Triangular, on the word stream: every word gives a value in `[min, max]` with
    `cdf = u = (w >> 11)·2⁻⁵³`; one word is consumed -/
theorem triangular_sample_cdf (d : Triangular ℝ) (h1 : d.f_min ≤ d.f_mode) (h2 : d.f_mode ≤ d.f_max)
    (h3 : d.f_min ≠ d.f_max) (w : Int) (t : List Int) (h0 : 0 ≤ w) (hw : w < 18446744073709551616) :
    Gen.Triangular.cdf d (Model.Triangular.sample_f64 d ⟨w :: t⟩).1 = unit53 w
      ∧ Gen.Triangular.min d ≤ (Model.Triangular.sample_f64 d ⟨w :: t⟩).1
      ∧ (Model.Triangular.sample_f64 d ⟨w :: t⟩).1 ≤ Gen.Triangular.max d
      ∧ (Model.Triangular.sample_f64 d ⟨w :: t⟩).2 = ⟨t⟩ := by
  rw [triangular_sample_eq, genF64_cons]
  obtain ⟨a, b⟩ := unit53_mem h0 hw
  obtain ⟨m1, m2⟩ := triangular_T_mem d h1 h2 h3 _ a b
  exact ⟨triangular_cdf_T d h1 h2 h3 _ a b, m1, m2, rfl⟩

example : ∃ d : Triangular ℝ, d.f_min ≤ d.f_mode ∧ d.f_mode ≤ d.f_max ∧ d.f_min ≠ d.f_max :=
  ⟨⟨0, 1, 0⟩, by norm_num⟩

/-! ## Uniform (`rand::distributions::Uniform::new_inclusive(min, max)` + `sample`) -/

/-- Uniform, on the word stream: one word is consumed, the value is
    `min + k·(max − min)/(2⁵² − 1)` with `k = w >> 12`, it lies in `[min, max]` (both ends attained),
    and its cdf is `k/(2⁵² − 1)`. -/
theorem uniform_sample (d : Uniform ℝ) (h : d.f_min < d.f_max) (w : Int) (t : List Int)
    (h0 : 0 ≤ w) (hw : w < 18446744073709551616) :
    (Model.Uniform.sample_f64 d ⟨w :: t⟩).1
        = d.f_min + ((w / 4096 : Int) : ℝ) * (d.f_max - d.f_min) / (2 ^ 52 - 1)
      ∧ Gen.Uniform.min d ≤ (Model.Uniform.sample_f64 d ⟨w :: t⟩).1
      ∧ (Model.Uniform.sample_f64 d ⟨w :: t⟩).1 ≤ Gen.Uniform.max d
      ∧ Gen.Uniform.cdf d (Model.Uniform.sample_f64 d ⟨w :: t⟩).1 = ((w / 4096 : Int) : ℝ) / (2 ^ 52 - 1)
      ∧ (Model.Uniform.sample_f64 d ⟨w :: t⟩).2 = ⟨t⟩ := by
  have ha : 0 ≤ w / 4096 := by omega
  have hb : w / 4096 ≤ 4503599627370495 := by omega
  have ha' : (0 : ℝ) ≤ ((w / 4096 : Int) : ℝ) := by exact_mod_cast ha
  have hb' : ((w / 4096 : Int) : ℝ) ≤ 4503599627370495 := by exact_mod_cast hb
  have hd : 0 < d.f_max - d.f_min := by linarith
  have hval : Model.Uniform.sample_f64 d ⟨w :: t⟩
      = (d.f_min + ((w / 4096 : Int) : ℝ) * (d.f_max - d.f_min) / (2 ^ 52 - 1), ⟨t⟩) := by
    simp only [Model.Uniform.sample_f64, uniformNewInclusive_real _ _ h.le, uniformSample_cons, unit52]
    congr 1
    field_simp
    ring
  rw [hval]
  set k : ℝ := ((w / 4096 : Int) : ℝ) with hk
  have hq0 : 0 ≤ k * (d.f_max - d.f_min) / (2 ^ 52 - 1) := by positivity
  have hq1 : k * (d.f_max - d.f_min) / (2 ^ 52 - 1) ≤ d.f_max - d.f_min := by
    rw [div_le_iff₀ (by norm_num)]; nlinarith
  refine ⟨rfl, ?_, ?_, ?_, rfl⟩
  · unfold Gen.Uniform.min; simp only; linarith
  · unfold Gen.Uniform.max; simp only; linarith
  · unfold Gen.Uniform.cdf
    simp only
    by_cases hk0 : k = 0
    · rw [hk0]; norm_num
    · have hkpos : 0 < k := lt_of_le_of_ne ha' (Ne.symm hk0)
      have hqpos : 0 < k * (d.f_max - d.f_min) / (2 ^ 52 - 1) := by positivity
      rw [if_neg (by linarith)]
      by_cases hk1 : k = 4503599627370495
      · rw [hk1]
        have : d.f_min + 4503599627370495 * (d.f_max - d.f_min) / (2 ^ 52 - 1) = d.f_max := by
          norm_num
        rw [this]; norm_num
      · have hklt : k < 4503599627370495 := lt_of_le_of_ne hb' hk1
        have : k * (d.f_max - d.f_min) / (2 ^ 52 - 1) < d.f_max - d.f_min := by
          rw [div_lt_iff₀ (by norm_num)]; nlinarith
        rw [if_neg (by linarith)]
        field_simp
        ring

example : ∃ d : Uniform ℝ, d.f_min < d.f_max := ⟨⟨0, 1⟩, by norm_num⟩

/-! ## Levy (relative to `ErfcInvSpec`) -/

section levy
variable [SF ℝ]

/-- Levy sampler as a function of the (`OpenClosed01`) uniform -/
noncomputable def Levy.T (d : Levy ℝ) (u : ℝ) : ℝ :=
  d.f_mu + (1 / 2 * d.f_c) / (SF.erfc_inv u : ℝ) ^ 2

theorem levy_sample_eq (d : Levy ℝ) (rng : Rng) :
    Model.Levy.sample_f64 d rng
      = (Levy.T d (genOpenClosed01 (α := ℝ) rng).1, (genOpenClosed01 (α := ℝ) rng).2) := by
  simp only [Model.Levy.sample_f64, Levy.T]
  rfun_norm; norm_num

/-- Levy: `cdf (T u) = u` for `u ∈ (0,1)`, given that `erfc_inv` is a positive right inverse of
    `erfc` there -/
theorem levy_cdf_T_rel (S : ErfcInvSpec) (d : Levy ℝ) (hc : 0 < d.f_c) (u : ℝ) (h0 : 0 < u) (h1 : u < 1) :
    Gen.Levy.cdf d (Levy.T d u) = u := by
  have he := S.inv_pos u h0 h1
  have hq : 0 < (1 / 2 * d.f_c) / (SF.erfc_inv u : ℝ) ^ 2 := by positivity
  rw [levy_cdf_eq]
  unfold Levy.T
  rw [if_neg (by linarith), add_sub_cancel_left]
  have : 1 / 2 * d.f_c / (1 / 2 * d.f_c / (SF.erfc_inv u : ℝ) ^ 2) = (SF.erfc_inv u : ℝ) ^ 2 := by
    field_simp
  rw [this, Real.sqrt_sq he.le, S.erfc_inv_right u h0 h1]

/-- Levy: the variate respects the lower support bound (`min = μ`), strictly -/
theorem levy_T_gt_min_rel (S : ErfcInvSpec) (d : Levy ℝ) (hc : 0 < d.f_c) (u : ℝ) (h0 : 0 < u) (h1 : u < 1) :
    Gen.Levy.min d < Levy.T d u := by
  have he := S.inv_pos u h0 h1
  have hq : 0 < (1 / 2 * d.f_c) / (SF.erfc_inv u : ℝ) ^ 2 := by positivity
  unfold Gen.Levy.min Levy.T; linarith

/-- Levy: `T` is strictly increasing on `(0,1)`, given that `erfc_inv` is strictly decreasing there -/
theorem levy_T_strictMono_rel (S : ErfcInvSpec) (d : Levy ℝ) (hc : 0 < d.f_c) :
    StrictMonoOn (Levy.T d) (Set.Ioo 0 1) := by
  intro a ha b hb hab
  have hea := S.inv_pos a ha.1 ha.2
  have heb := S.inv_pos b hb.1 hb.2
  have hlt := S.inv_anti a b ha.1 hab hb.2
  unfold Levy.T
  have hsq : (SF.erfc_inv b : ℝ) ^ 2 < (SF.erfc_inv a : ℝ) ^ 2 := by nlinarith
  have : (1 / 2 * d.f_c) / (SF.erfc_inv a : ℝ) ^ 2 < (1 / 2 * d.f_c) / (SF.erfc_inv b : ℝ) ^ 2 :=
    div_lt_div_of_pos_left (by positivity) (by positivity) hsq
  linarith

/-- Levy, on the word stream: one word; for every word below the top 2¹¹ (where `OpenClosed01`
    returns exactly 1 and `erfc_inv 1 = 0` is divided by) the value has `cdf = u` -/
theorem levy_sample_cdf_rel (S : ErfcInvSpec) (d : Levy ℝ) (hc : 0 < d.f_c) (w : Int) (t : List Int)
    (h0 : 0 ≤ w) (h1 : w < 18446744073709549568) :
    Gen.Levy.cdf d (Model.Levy.sample_f64 d ⟨w :: t⟩).1 = unit53oc w
      ∧ (Model.Levy.sample_f64 d ⟨w :: t⟩).2 = ⟨t⟩ := by
  rw [levy_sample_eq, genOpenClosed01_cons]
  exact ⟨levy_cdf_T_rel S d hc _ (unit53oc_mem h0 (by omega)).1 (unit53oc_lt_one h0 h1), rfl⟩

example : ∃ d : Levy ℝ, 0 < d.f_c := ⟨⟨0, 1⟩, by norm_num⟩

end levy

end Statrs.Props.C06
