/-
  C06 — "variates are distributed according to the same object's cdf": the probabilistic conclusion
  for the inverse-transform samplers Cauchy, Weibull, Pareto, Gumbel.

  `X.T d` is the sampler of `Model/Samplers.lean` written as a function of the one uniform it draws
  (`Props/C06/InverseTransform.lean`: `X_sample_eq`, by unfolding; the hand model is pinned to the
  Rust code by the scripted-RNG correspondence).  `unif01 = volume.restrict (Ioo 0 1)` is the uniform
  probability law on the unit interval (end points carry no mass: `unif01_eq_Ico` is the range `[0,1)`
  of `gen::<f64>()`, `unif01_eq_Ioc` the range `(0,1]` of `OpenClosed01`).  For every constructed
  object and EVERY real `x`:

      ProbabilityTheory.cdf (Measure.map (X.T d) unif01) x = X.cdf d x        (`X_sampler_law`)

  i.e. the law of the transform under an exactly uniform input is a probability measure whose
  distribution function is the generated cdf; hence it IS the probability measure with that
  distribution function (`X_sampler_law_unique`), and for the two families with a Mathlib measure
  identified in `Props/C01/ClosedMathlib.lean`

      Measure.map (Cauchy.T d) unif01 = cauchyMeasure location scale
      Measure.map (Pareto.T d) unif01 = paretoMeasure scale shape.

  SCOPE.  These are theorems about the IDEAL real-valued transform applied to an IDEAL uniform
  variable.  The 53-bit grid `{k·2⁻⁵³}` the generator actually produces, the words on which the
  closed form leaves ℝ (`u = 0`: `ln 0`, `tan(−π/2)`), and floating-point rounding of `T` are outside
  (covered by the word-level theorems `X_sample_cdf` of `InverseTransform.lean`, the correspondence
  check and the statistical search).  Strength: full(ℝ).
-/
import Statrs.Lemmas.PushforwardCdf
import Statrs.Props.C06.InverseTransform
import Statrs.Props.C01.Closed
import Statrs.Props.C01.ClosedMathlib
namespace Statrs.Props.C06
open Statrs Statrs.Gen Statrs.Lemmas.PushforwardCdf
open MeasureTheory ProbabilityTheory Set
open scoped NNReal

/-! ## Cauchy -/

theorem cauchy_T_monotoneOn (d : Cauchy ℝ) (hs : 0 < d.f_scale) : MonotoneOn (Cauchy.T d) (Ioo 0 1) :=
  (cauchy_T_strictMono d hs).monotoneOn

/-- Cauchy: the law of the sampler's transform is a probability measure -/
theorem cauchy_sampler_isProbabilityMeasure (d : Cauchy ℝ) (hs : 0 < d.f_scale) :
    IsProbabilityMeasure (Measure.map (Cauchy.T d) unif01) :=
  isProb_map_unif01_of_monotoneOn (cauchy_T_monotoneOn d hs)

/-- **Cauchy: the sampler's law has the generated cdf as distribution function**, every `x` -/
theorem cauchy_sampler_law (d : Cauchy ℝ) (hs : 0 < d.f_scale) (x : ℝ) :
    cdf (Measure.map (Cauchy.T d) unif01) x = Gen.Cauchy.cdf d x :=
  cdf_map_unif01_of_monotoneOn (cauchy_T_monotoneOn d hs)
    (fun _ _ h => C01.cauchy_cdf_mono d hs h) (C01.cauchy_cdf_nonneg d) (C01.cauchy_cdf_le_one d)
    (cauchy_cdf_T d hs) x

/-- **Cauchy: the sampler's law is Mathlib's `cauchyMeasure location scale`** -/
theorem cauchy_sampler_law_eq_mathlib (d : Cauchy ℝ) (hs : 0 < d.f_scale) :
    Measure.map (Cauchy.T d) unif01 = cauchyMeasure d.f_location ⟨d.f_scale, hs.le⟩ := by
  have := cauchy_sampler_isProbabilityMeasure d hs
  have : IsProbabilityMeasure (cauchyMeasure d.f_location ⟨d.f_scale, hs.le⟩) :=
    instIsProbabilityMeasure_cauchyMeasure _ _
  exact map_eq_of_cdf_eq _ _ (Gen.Cauchy.cdf d) (cauchy_sampler_law d hs)
    (fun x => (C01.cauchy_cdf_eq_mathlib d hs x).symm)

/-- Cauchy: any probability measure with the generated cdf is the sampler's law -/
theorem cauchy_sampler_law_unique (d : Cauchy ℝ) (hs : 0 < d.f_scale) (ν : Measure ℝ)
    [IsProbabilityMeasure ν] (hν : ∀ x, cdf ν x = Gen.Cauchy.cdf d x) :
    Measure.map (Cauchy.T d) unif01 = ν := by
  have := cauchy_sampler_isProbabilityMeasure d hs
  exact map_eq_of_cdf_eq _ _ _ (cauchy_sampler_law d hs) hν

example : ∃ d : Cauchy ℝ, 0 < d.f_scale := ⟨⟨0, 1⟩, by norm_num⟩

/-! ## Weibull -/

theorem weibull_T_antitoneOn (d : Weibull ℝ) (hk : 0 < d.f_shape) (hs : 0 < d.f_scale) :
    AntitoneOn (Weibull.T d) (Ioo 0 1) :=
  (weibull_T_strictAnti d hk hs).antitoneOn

theorem weibull_sampler_isProbabilityMeasure (d : Weibull ℝ) (hk : 0 < d.f_shape)
    (hs : 0 < d.f_scale) : IsProbabilityMeasure (Measure.map (Weibull.T d) unif01) :=
  isProb_map_unif01_of_antitoneOn (weibull_T_antitoneOn d hk hs)

/-- **Weibull: the sampler's law has the generated cdf as distribution function**, every `x`
    (third hypothesis: the value `new` stores in the cached field) -/
theorem weibull_sampler_law (d : Weibull ℝ) (hk : 0 < d.f_shape) (hs : 0 < d.f_scale)
    (hc : d.f_scale_pow_shape_inv = d.f_scale ^ (-d.f_shape)) (x : ℝ) :
    cdf (Measure.map (Weibull.T d) unif01) x = Gen.Weibull.cdf d x :=
  cdf_map_unif01_of_antitoneOn (weibull_T_antitoneOn d hk hs)
    (fun _ _ h => C01.weibull_cdf_mono d hk hs hc h) (C01.weibull_cdf_nonneg d hs hc)
    (C01.weibull_cdf_le_one d) (weibull_cdf_T d hk hs hc) x

theorem weibull_sampler_law_unique (d : Weibull ℝ) (hk : 0 < d.f_shape) (hs : 0 < d.f_scale)
    (hc : d.f_scale_pow_shape_inv = d.f_scale ^ (-d.f_shape)) (ν : Measure ℝ)
    [IsProbabilityMeasure ν] (hν : ∀ x, cdf ν x = Gen.Weibull.cdf d x) :
    Measure.map (Weibull.T d) unif01 = ν := by
  have := weibull_sampler_isProbabilityMeasure d hk hs
  exact map_eq_of_cdf_eq _ _ _ (weibull_sampler_law d hk hs hc) hν

example : ∃ d : Weibull ℝ, 0 < d.f_shape ∧ 0 < d.f_scale ∧
    d.f_scale_pow_shape_inv = d.f_scale ^ (-d.f_shape) := ⟨⟨1, 1, 1⟩, by norm_num⟩

/-! ## Pareto -/

theorem pareto_T_antitoneOn (d : Pareto ℝ) (hk : 0 < d.f_shape) (hs : 0 < d.f_scale) :
    AntitoneOn (Pareto.T d) (Ioo 0 1) :=
  ((pareto_T_strictAnti d hk hs).mono Ioo_subset_Ioc_self).antitoneOn

theorem pareto_sampler_isProbabilityMeasure (d : Pareto ℝ) (hk : 0 < d.f_shape)
    (hs : 0 < d.f_scale) : IsProbabilityMeasure (Measure.map (Pareto.T d) unif01) :=
  isProb_map_unif01_of_antitoneOn (pareto_T_antitoneOn d hk hs)

/-- **Pareto: the sampler's law has the generated cdf as distribution function**, every `x` -/
theorem pareto_sampler_law (d : Pareto ℝ) (hk : 0 < d.f_shape) (hs : 0 < d.f_scale) (x : ℝ) :
    cdf (Measure.map (Pareto.T d) unif01) x = Gen.Pareto.cdf d x :=
  cdf_map_unif01_of_antitoneOn (pareto_T_antitoneOn d hk hs)
    (fun _ _ h => C01.pareto_cdf_mono d hs hk h) (C01.pareto_cdf_nonneg d hs hk)
    (C01.pareto_cdf_le_one d hs) (fun u h0 h1 => pareto_cdf_T d hk hs u h0 h1.le) x

/-- **Pareto: the sampler's law is Mathlib's `paretoMeasure scale shape`** -/
theorem pareto_sampler_law_eq_mathlib (d : Pareto ℝ) (hk : 0 < d.f_shape) (hs : 0 < d.f_scale) :
    Measure.map (Pareto.T d) unif01 = paretoMeasure d.f_scale d.f_shape := by
  have := pareto_sampler_isProbabilityMeasure d hk hs
  have := isProbabilityMeasure_paretoMeasure hs hk
  exact map_eq_of_cdf_eq _ _ (Gen.Pareto.cdf d) (pareto_sampler_law d hk hs)
    (fun x => (C01.pareto_cdf_eq_mathlib d hs hk x).symm)

theorem pareto_sampler_law_unique (d : Pareto ℝ) (hk : 0 < d.f_shape) (hs : 0 < d.f_scale)
    (ν : Measure ℝ) [IsProbabilityMeasure ν] (hν : ∀ x, cdf ν x = Gen.Pareto.cdf d x) :
    Measure.map (Pareto.T d) unif01 = ν := by
  have := pareto_sampler_isProbabilityMeasure d hk hs
  exact map_eq_of_cdf_eq _ _ _ (pareto_sampler_law d hk hs) hν

example : ∃ d : Pareto ℝ, 0 < d.f_shape ∧ 0 < d.f_scale := ⟨⟨1, 1⟩, by norm_num⟩

/-! ## Gumbel (current tree) -/

theorem gumbel_T_monotoneOn (d : Gumbel ℝ) (hs : 0 < d.f_scale) : MonotoneOn (Gumbel.T d) (Ioo 0 1) :=
  (gumbel_T_strictMono d hs).monotoneOn

theorem gumbel_sampler_isProbabilityMeasure (d : Gumbel ℝ) (hs : 0 < d.f_scale) :
    IsProbabilityMeasure (Measure.map (Gumbel.T d) unif01) :=
  isProb_map_unif01_of_monotoneOn (gumbel_T_monotoneOn d hs)

/-- **Gumbel: the sampler's law has the generated cdf as distribution function**, every `x` -/
theorem gumbel_sampler_law (d : Gumbel ℝ) (hs : 0 < d.f_scale) (x : ℝ) :
    cdf (Measure.map (Gumbel.T d) unif01) x = Gen.Gumbel.cdf d x :=
  cdf_map_unif01_of_monotoneOn (gumbel_T_monotoneOn d hs)
    (fun _ _ h => C01.gumbel_cdf_mono d hs h) (C01.gumbel_cdf_nonneg d) (C01.gumbel_cdf_le_one d)
    (gumbel_cdf_T d hs) x

theorem gumbel_sampler_law_unique (d : Gumbel ℝ) (hs : 0 < d.f_scale) (ν : Measure ℝ)
    [IsProbabilityMeasure ν] (hν : ∀ x, cdf ν x = Gen.Gumbel.cdf d x) :
    Measure.map (Gumbel.T d) unif01 = ν := by
  have := gumbel_sampler_isProbabilityMeasure d hs
  exact map_eq_of_cdf_eq _ _ _ (gumbel_sampler_law d hs) hν

example : ∃ d : Gumbel ℝ, 0 < d.f_scale := ⟨⟨0, 1⟩, by norm_num⟩

end Statrs.Props.C06
