/-
  C06 — "variates are distributed according to the same object's cdf", part 2: the probabilistic
  conclusion for the inverse-transform samplers Laplace (uniform on (−½,½)), Triangular, Uniform
  (affine map of a unit uniform), Levy (relative to `ErfcInvSpec` + `ErfcSpec`).
  Same conventions and SCOPE as `SamplerLawA.lean`: theorems about the IDEAL real-valued transform
  `X.T d` (`Props/C06/InverseTransform2.lean`) applied to an IDEAL uniform variable; the 52/53-bit
  grid of the generator and floating-point rounding are outside.

      ProbabilityTheory.cdf (Measure.map (X.T d) U) x = X.cdf d x     for every real x,

  `U = unif01` (Triangular, Uniform, Levy) or `volume.restrict (Ioo (−½) ½)` (Laplace, the law of
  `gen_range(-0.5..0.5)`).  Uniform additionally: the law IS normalised Lebesgue measure on
  `[min, max]` (`ProbabilityTheory.cond volume (Icc min max)`).

  Strength: full(ℝ) for Laplace, Triangular, Uniform; rel(ErfcInvSpec, ErfcSpec) for Levy.
-/
import Statrs.Lemmas.PushforwardCdf
import Statrs.Props.C06.InverseTransform2
import Statrs.Props.C01.Closed
import Statrs.Props.C01.ClosedErfc
import Mathlib.Probability.ConditionalProbability
set_option linter.unusedVariables false
namespace Statrs.Props.C06
open Statrs Statrs.Gen Statrs.Lemmas.PushforwardCdf Statrs.Lemmas.Sampling
open MeasureTheory ProbabilityTheory Set

/-! ## Laplace -/

/-- the law of `gen_range(-0.5..0.5)`: uniform on `(−½, ½)` -/
noncomputable def unifHalf : Measure ℝ := volume.restrict (Ioo (-(1 / 2)) (1 / 2))

private theorem half_len : (1 / 2 : ℝ) - (-(1 / 2)) = 1 := by norm_num

instance : IsProbabilityMeasure unifHalf := isProbabilityMeasure_restrict_Ioo half_len

/-- `[−½, ½)`, the actual range of `gen_range(-0.5..0.5)`, is the same law -/
theorem unifHalf_eq_Ico : unifHalf = volume.restrict (Ico (-(1 / 2)) (1 / 2)) :=
  Measure.restrict_congr_set Ioo_ae_eq_Ico

theorem laplace_sampler_isProbabilityMeasure (d : Laplace ℝ) (hs : 0 < d.f_scale) :
    IsProbabilityMeasure (Measure.map (Laplace.T d) unifHalf) :=
  isProbabilityMeasure_map_of_monotoneOn half_len (laplace_T_strictMono d hs).monotoneOn

/-- **Laplace: the sampler's law has the generated cdf as distribution function**, every `x` -/
theorem laplace_sampler_law (d : Laplace ℝ) (hs : 0 < d.f_scale) (x : ℝ) :
    cdf (Measure.map (Laplace.T d) unifHalf) x = Gen.Laplace.cdf d x :=
  cdf_map_eq_of_monotoneOn half_len (laplace_T_strictMono d hs).monotoneOn
    (fun _ _ h => C01.laplace_cdf_mono d hs h) (C01.laplace_cdf_nonneg d hs)
    (C01.laplace_cdf_le_one d hs)
    (fun u hu => by rw [laplace_cdf_T d hs u hu.1 hu.2]; ring) x

theorem laplace_sampler_law_unique (d : Laplace ℝ) (hs : 0 < d.f_scale) (ν : Measure ℝ)
    [IsProbabilityMeasure ν] (hν : ∀ x, cdf ν x = Gen.Laplace.cdf d x) :
    Measure.map (Laplace.T d) unifHalf = ν := by
  have := laplace_sampler_isProbabilityMeasure d hs
  exact map_eq_of_cdf_eq _ _ _ (laplace_sampler_law d hs) hν

example : ∃ d : Laplace ℝ, 0 < d.f_scale := ⟨⟨0, 1⟩, by norm_num⟩

/-! ## Triangular -/

theorem triangular_T_monotoneOn (d : Triangular ℝ) (h1 : d.f_min ≤ d.f_mode)
    (h2 : d.f_mode ≤ d.f_max) (h3 : d.f_min ≠ d.f_max) : MonotoneOn (Triangular.T d) (Ioo 0 1) :=
  ((triangular_T_strictMono d h1 h2 h3).mono Ioo_subset_Ico_self).monotoneOn

theorem triangular_sampler_isProbabilityMeasure (d : Triangular ℝ) (h1 : d.f_min ≤ d.f_mode)
    (h2 : d.f_mode ≤ d.f_max) (h3 : d.f_min ≠ d.f_max) :
    IsProbabilityMeasure (Measure.map (Triangular.T d) unif01) :=
  isProb_map_unif01_of_monotoneOn (triangular_T_monotoneOn d h1 h2 h3)

/-- **Triangular: the sampler's law has the generated cdf as distribution function**, every `x` -/
theorem triangular_sampler_law (d : Triangular ℝ) (h1 : d.f_min ≤ d.f_mode)
    (h2 : d.f_mode ≤ d.f_max) (h3 : d.f_min ≠ d.f_max) (x : ℝ) :
    cdf (Measure.map (Triangular.T d) unif01) x = Gen.Triangular.cdf d x :=
  cdf_map_unif01_of_monotoneOn (triangular_T_monotoneOn d h1 h2 h3)
    (fun _ _ h => C01.triangular_cdf_mono d h1 h2 h3 h) (C01.triangular_cdf_nonneg d h1 h2 h3)
    (C01.triangular_cdf_le_one d h1 h2 h3)
    (fun u hu0 hu1 => triangular_cdf_T d h1 h2 h3 u hu0.le hu1) x

theorem triangular_sampler_law_unique (d : Triangular ℝ) (h1 : d.f_min ≤ d.f_mode)
    (h2 : d.f_mode ≤ d.f_max) (h3 : d.f_min ≠ d.f_max) (ν : Measure ℝ)
    [IsProbabilityMeasure ν] (hν : ∀ x, cdf ν x = Gen.Triangular.cdf d x) :
    Measure.map (Triangular.T d) unif01 = ν := by
  have := triangular_sampler_isProbabilityMeasure d h1 h2 h3
  exact map_eq_of_cdf_eq _ _ _ (triangular_sampler_law d h1 h2 h3) hν

example : ∃ d : Triangular ℝ, d.f_min ≤ d.f_mode ∧ d.f_mode ≤ d.f_max ∧ d.f_min ≠ d.f_max :=
  ⟨⟨0, 1, 0⟩, by norm_num⟩

/-! ## Uniform -/

/-- Uniform sampler as a function of the unit uniform: `low + u·scale`, `scale = max − min` -/
noncomputable def Uniform.T (d : Uniform ℝ) (u : ℝ) : ℝ := d.f_min + u * (d.f_max - d.f_min)

/-- the model's sampler is `T` at the grid point `k/(2⁵² − 1) ∈ [0,1]`, `k = w >> 12` -/
theorem uniform_sample_eq_T (d : Uniform ℝ) (h : d.f_min < d.f_max) (w : Int) (t : List Int)
    (h0 : 0 ≤ w) (hw : w < 18446744073709551616) :
    (Model.Uniform.sample_f64 d ⟨w :: t⟩).1 = Uniform.T d (((w / 4096 : Int) : ℝ) / (2 ^ 52 - 1)) := by
  rw [(uniform_sample d h w t h0 hw).1]
  unfold Uniform.T
  ring

/-- Uniform: `cdf (T u) = u` on `(0,1)` -/
theorem uniform_cdf_T (d : Uniform ℝ) (h : d.f_min < d.f_max) (u : ℝ) (h0 : 0 < u) (h1 : u < 1) :
    Gen.Uniform.cdf d (Uniform.T d u) = u := by
  have hd : 0 < d.f_max - d.f_min := by linarith
  unfold Gen.Uniform.cdf Uniform.T
  rw [if_neg (by nlinarith), if_neg (by nlinarith)]
  field_simp
  ring

theorem uniform_T_strictMono (d : Uniform ℝ) (h : d.f_min < d.f_max) : StrictMono (Uniform.T d) := by
  intro a b hab
  have hd : 0 < d.f_max - d.f_min := by linarith
  unfold Uniform.T
  nlinarith

theorem uniform_sampler_isProbabilityMeasure (d : Uniform ℝ) (h : d.f_min < d.f_max) :
    IsProbabilityMeasure (Measure.map (Uniform.T d) unif01) :=
  isProb_map_unif01_of_monotoneOn ((uniform_T_strictMono d h).monotone.monotoneOn _)

/-- **Uniform: the sampler's law has the generated cdf as distribution function**, every `x` -/
theorem uniform_sampler_law (d : Uniform ℝ) (h : d.f_min < d.f_max) (x : ℝ) :
    cdf (Measure.map (Uniform.T d) unif01) x = Gen.Uniform.cdf d x :=
  cdf_map_unif01_of_monotoneOn ((uniform_T_strictMono d h).monotone.monotoneOn _)
    (fun _ _ hxy => C01.uniform_cdf_mono d h hxy) (C01.uniform_cdf_nonneg d)
    (C01.uniform_cdf_le_one d h) (uniform_cdf_T d h) x

/-- distribution function of normalised Lebesgue measure on `[a,b]` -/
theorem cdf_cond_volume_Icc {a b : ℝ} (hab : a < b) (x : ℝ) :
    cdf (cond volume (Icc a b)) x
      = if x ≤ a then 0 else if b ≤ x then 1 else (x - a) / (b - a) := by
  have hd : 0 < b - a := by linarith
  have : IsProbabilityMeasure (cond volume (Icc a b)) :=
    cond_isProbabilityMeasure_of_finite (by rw [Real.volume_Icc]; simpa using hab)
      (by rw [Real.volume_Icc]; exact ENNReal.ofReal_ne_top)
  have hI : Icc a b ∩ Iic x = Icc a (min b x) := by
    ext y; simp only [mem_inter_iff, mem_Icc, mem_Iic, le_min_iff]; tauto
  rw [cdf_eq_real, Measure.real, cond_apply measurableSet_Icc, hI, Real.volume_Icc,
    Real.volume_Icc, ENNReal.toReal_mul, ENNReal.toReal_inv, ENNReal.toReal_ofReal hd.le,
    ENNReal.toReal_ofReal']
  split_ifs with h1 h2
  · rw [min_eq_right (by linarith), max_eq_right (by linarith), mul_zero]
  · rw [min_eq_left h2, max_eq_left hd.le, inv_mul_cancel₀ hd.ne']
  · rw [min_eq_right (by linarith), max_eq_left (by linarith)]
    field_simp

/-- **Uniform: the sampler's law is normalised Lebesgue measure on `[min, max]`** -/
theorem uniform_sampler_law_eq_cond (d : Uniform ℝ) (h : d.f_min < d.f_max) :
    Measure.map (Uniform.T d) unif01 = cond volume (Icc d.f_min d.f_max) := by
  have := uniform_sampler_isProbabilityMeasure d h
  have : IsProbabilityMeasure (cond volume (Icc d.f_min d.f_max)) :=
    cond_isProbabilityMeasure_of_finite (by rw [Real.volume_Icc]; simpa using h)
      (by rw [Real.volume_Icc]; exact ENNReal.ofReal_ne_top)
  refine map_eq_of_cdf_eq _ _ (Gen.Uniform.cdf d) (uniform_sampler_law d h) (fun x => ?_)
  rw [cdf_cond_volume_Icc h]
  unfold Gen.Uniform.cdf
  split_ifs <;> norm_num

theorem uniform_sampler_law_unique (d : Uniform ℝ) (h : d.f_min < d.f_max) (ν : Measure ℝ)
    [IsProbabilityMeasure ν] (hν : ∀ x, cdf ν x = Gen.Uniform.cdf d x) :
    Measure.map (Uniform.T d) unif01 = ν := by
  have := uniform_sampler_isProbabilityMeasure d h
  exact map_eq_of_cdf_eq _ _ _ (uniform_sampler_law d h) hν

example : ∃ d : Uniform ℝ, d.f_min < d.f_max := ⟨⟨0, 1⟩, by norm_num⟩

/-! ## Levy (relative to `ErfcInvSpec`, `ErfcSpec`) -/

section levy
variable [SF ℝ]
open Statrs.Spec.Sampling Statrs.Spec.Erfc

theorem levy_sampler_isProbabilityMeasure_rel (S : ErfcInvSpec) (d : Levy ℝ) (hc : 0 < d.f_c) :
    IsProbabilityMeasure (Measure.map (Levy.T d) unif01) :=
  isProb_map_unif01_of_monotoneOn (levy_T_strictMono_rel S d hc).monotoneOn

/-- **Levy: the sampler's law has the generated cdf as distribution function**, every `x`, given
    that `erfc_inv` is a positive decreasing right inverse of `erfc` on `(0,1)` and `erfc` is
    antitone with values in `[0,2]` and `erfc(−z) = 2 − erfc z` -/
theorem levy_sampler_law_rel (S : ErfcInvSpec) (E : ErfcSpec) (d : Levy ℝ) (hc : 0 < d.f_c) (x : ℝ) :
    cdf (Measure.map (Levy.T d) unif01) x = Gen.Levy.cdf d x :=
  cdf_map_unif01_of_monotoneOn (levy_T_strictMono_rel S d hc).monotoneOn
    (fun _ _ h => C01.levy_cdf_mono_rel E d hc h) (C01.levy_cdf_nonneg_rel E d)
    (C01.levy_cdf_le_one_rel E d) (levy_cdf_T_rel S d hc) x

theorem levy_sampler_law_unique_rel (S : ErfcInvSpec) (E : ErfcSpec) (d : Levy ℝ) (hc : 0 < d.f_c)
    (ν : Measure ℝ) [IsProbabilityMeasure ν] (hν : ∀ x, cdf ν x = Gen.Levy.cdf d x) :
    Measure.map (Levy.T d) unif01 = ν := by
  have := levy_sampler_isProbabilityMeasure_rel S d hc
  exact map_eq_of_cdf_eq _ _ _ (levy_sampler_law_rel S E d hc) hν

example : ∃ d : Levy ℝ, 0 < d.f_c := ⟨⟨0, 1⟩, by norm_num⟩

end levy

end Statrs.Props.C06
