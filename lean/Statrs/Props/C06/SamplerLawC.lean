/-
  C06 — "variates are distributed according to the same object's pmf": discrete index samplers that
  transform ONE uniform — Geometric (`⌈ln u / ln(1−p)⌉`), Bernoulli (`(w+1)/2⁶⁴ ≤ p`),
  DiscreteUniform (`min + ⌊u·(max−min+1)⌋`, the high word of the widening multiply).
  For each, `X.K d u` is the index the hand model of `Model/Samplers.lean` returns, written as a
  function of the uniform (bridge theorems `…_sample_eq_K`), and

      unif01 {u | X.K d u = k} = ENNReal.ofReal (X.pmf d k)          (`X_sampler_pmf`)

  (Lebesgue measure of the pre-image interval), for every constructed object and every `k`.
  (Categorical: `SamplerLawD.lean`.)

  SCOPE.  Theorems about the IDEAL real-valued transform applied to an IDEAL uniform variable
  (`unif01 = volume.restrict (Ioo 0 1)`, same law as on `[0,1)` / `(0,1]`).  The 53- or 64-bit grid of
  the actual generator, the words on which the formula leaves the support (`u = 1` for Geometric:
  `geometric_sample_below_min_counterexample`), floating-point rounding, and — for DiscreteUniform —
  the rejection of words whose low product word exceeds `zone` (which only removes the grid bias
  `2⁶⁴ mod range`, absent for an ideal uniform) are outside.
  Strength: full(ℝ) for Geometric, DiscreteUniform; Bernoulli full(ℝ) against `p` / `1 − p` and
  rel(LnBinomialOneSpec) against the generated `pmf` (which calls `SF.ln_binomial`).
-/
import Statrs.Lemmas.PushforwardCdf
import Statrs.Props.C06.Discrete
import Statrs.Props.C03.Discrete
import Statrs.Gen.D_discrete_uniform
set_option linter.unusedVariables false
namespace Statrs.Props.C06
open Statrs Statrs.Gen Statrs.Model Statrs.Lemmas.PushforwardCdf Statrs.Lemmas.Sampling
open MeasureTheory ProbabilityTheory Set

/-! ## Geometric -/

/-- Geometric sampler as a function of the (`OpenClosed01`) uniform -/
noncomputable def Geometric.K (d : Geometric ℝ) (u : ℝ) : Int :=
  if d.f_p = 1 then 1 else max 0 ⌈Real.log u / Real.log (1 - d.f_p)⌉

/-- the model's sampler returns `K` of the one `OpenClosed01` draw (no draw for `p = 1`) -/
theorem geometric_sample_eq_K (d : Geometric ℝ) (rng : Rng) :
    (Model.Geometric.sample_u64 d rng).1 = Geometric.K d (genOpenClosed01 (α := ℝ) rng).1 := by
  unfold Geometric.K
  by_cases hp : d.f_p = 1
  · rw [if_pos hp, geometric_sample_p_one d hp]
  · rw [if_neg hp, geometric_sample_eq d hp]

theorem geometric_pmf_real (d : Geometric ℝ) (k : Int) (hk : 1 ≤ k) :
    Gen.Geometric.pmf d k = (1 - d.f_p) ^ (((k - 1 : Int)) : ℝ) * d.f_p := by
  unfold Gen.Geometric.pmf
  rfun_norm
  rw [if_neg (by omega)]
  have : usub k 1 = k - 1 := by unfold usub; rw [if_neg (by omega)]
  rw [this]; norm_num

/-- for `0 < p < 1`, `u ∈ (0,1)`, `k ≥ 1`: the index is `k` iff `(1−p)^k ≤ u < (1−p)^(k−1)` -/
theorem geometric_K_eq_iff (d : Geometric ℝ) (hp0 : 0 < d.f_p) (hp1 : d.f_p < 1) (u : ℝ)
    (h0 : 0 < u) (h1 : u < 1) (k : Int) (hk : 1 ≤ k) :
    Geometric.K d u = k ↔ Real.exp (Real.log (1 - d.f_p) * (k : ℝ)) ≤ u
      ∧ u < Real.exp (Real.log (1 - d.f_p) * ((k : ℝ) - 1)) := by
  have hL : Real.log (1 - d.f_p) < 0 := Real.log_neg (by linarith) (by linarith)
  unfold Geometric.K
  rw [if_neg (by linarith)]
  have hmax : max 0 ⌈Real.log u / Real.log (1 - d.f_p)⌉ = k
      ↔ ⌈Real.log u / Real.log (1 - d.f_p)⌉ = k := by
    constructor
    · intro h; rcases max_cases 0 ⌈Real.log u / Real.log (1 - d.f_p)⌉ with ⟨a, b⟩ | ⟨a, b⟩ <;> omega
    · intro h; rw [h]; omega
  rw [hmax, Int.ceil_eq_iff]
  have e1 : (k : ℝ) - 1 < Real.log u / Real.log (1 - d.f_p)
      ↔ Real.log u < Real.log (1 - d.f_p) * ((k : ℝ) - 1) := by
    rw [lt_div_iff_of_neg hL, mul_comm]
  have e2 : Real.log u / Real.log (1 - d.f_p) ≤ (k : ℝ)
      ↔ Real.log (1 - d.f_p) * (k : ℝ) ≤ Real.log u := by
    rw [div_le_iff_of_neg hL, mul_comm]
  rw [e1, e2, Real.log_lt_iff_lt_exp h0, Real.le_log_iff_exp_le h0]
  exact and_comm

/-- **Geometric: the ideal sampler hits `k` with probability `pmf k`**, every `0 < p ≤ 1`
    (what `new` accepts), every `k : u64` -/
theorem geometric_sampler_pmf (d : Geometric ℝ) (hp0 : 0 < d.f_p) (hp1 : d.f_p ≤ 1) (k : Int)
    (hk : 0 ≤ k) :
    unif01 {u | Geometric.K d u = k} = ENNReal.ofReal (Gen.Geometric.pmf d k) := by
  rcases hp1.lt_or_eq with hlt | heq
  · have hL : Real.log (1 - d.f_p) < 0 := Real.log_neg (by linarith) (by linarith)
    rcases hk.lt_or_eq with hpos | hz
    · -- k ≥ 1
      have hk1 : 1 ≤ k := by omega
      have hE : Real.exp (Real.log (1 - d.f_p) * (k : ℝ))
          = Real.exp (Real.log (1 - d.f_p) * ((k : ℝ) - 1)) * (1 - d.f_p) := by
        rw [show Real.log (1 - d.f_p) * (k : ℝ)
            = Real.log (1 - d.f_p) * ((k : ℝ) - 1) + Real.log (1 - d.f_p) by ring,
          Real.exp_add, Real.exp_log (by linarith)]
      have hr1 : Real.exp (Real.log (1 - d.f_p) * ((k : ℝ) - 1)) ≤ 1 := by
        apply Real.exp_le_one_iff.mpr
        have : (0 : ℝ) ≤ (k : ℝ) - 1 := by
          have : (1 : ℝ) ≤ (k : ℝ) := by exact_mod_cast hk1
          linarith
        nlinarith
      rw [unif01_of_squeeze (S := {u | Geometric.K d u = k})
        (l := Real.exp (Real.log (1 - d.f_p) * (k : ℝ)))
        (r := Real.exp (Real.log (1 - d.f_p) * ((k : ℝ) - 1))) (Real.exp_pos _).le hr1
        (fun u h0 h1 hl hr => (geometric_K_eq_iff d hp0 hlt u h0 h1 k hk1).mpr ⟨hl.le, hr⟩)
        (fun u h0 h1 hu => by
          obtain ⟨a, b⟩ := (geometric_K_eq_iff d hp0 hlt u h0 h1 k hk1).mp hu
          exact ⟨a, b.le⟩)]
      congr 1
      rw [geometric_pmf_real d k hk1, hE, Real.rpow_def_of_pos (by linarith)]
      push_cast
      ring
    · -- k = 0: never returned, pmf 0 = 0
      subst hz
      have hpmf : Gen.Geometric.pmf d 0 = 0 := by
        unfold Gen.Geometric.pmf; rw [if_pos rfl]; norm_num
      rw [hpmf, ENNReal.ofReal_zero, unif01_apply]
      apply measure_mono_null (t := (∅ : Set ℝ)) _ measure_empty
      rintro u ⟨hu, h0, h1⟩
      exfalso
      have hlu : Real.log u < 0 := Real.log_neg h0 h1
      have hr : 0 < Real.log u / Real.log (1 - d.f_p) := div_pos_of_neg_of_neg hlu hL
      have : 0 < ⌈Real.log u / Real.log (1 - d.f_p)⌉ := Int.ceil_pos.mpr hr
      simp only [Geometric.K, Set.mem_ofPred_eq] at hu
      rw [if_neg (by linarith)] at hu
      omega
  · -- p = 1: the constant 1
    have hK : ∀ u, Geometric.K d u = 1 := fun u => by unfold Geometric.K; rw [if_pos heq]
    by_cases hk1 : k = 1
    · subst hk1
      have hset : {u | Geometric.K d u = 1} = univ := by ext u; simp [hK u]
      have hpmf : Gen.Geometric.pmf d 1 = 1 := by
        rw [geometric_pmf_real d 1 le_rfl, heq]; norm_num
      rw [hset, hpmf, measure_univ, ENNReal.ofReal_one]
    · have hset : {u | Geometric.K d u = k} = ∅ := by
        ext u; simp [hK u]; omega
      have hpmf : Gen.Geometric.pmf d k = 0 := by
        rcases hk.lt_or_eq with hpos | hz
        · rw [geometric_pmf_real d k (by omega), heq, sub_self, Real.zero_rpow, zero_mul]
          have : k - 1 ≠ 0 := by omega
          exact_mod_cast this
        · subst hz; unfold Gen.Geometric.pmf; rw [if_pos rfl]; norm_num
      rw [hset, hpmf, measure_empty, ENNReal.ofReal_zero]

example : ∃ d : Geometric ℝ, 0 < d.f_p ∧ d.f_p ≤ 1 := ⟨⟨1 / 2⟩, by norm_num⟩

/-! ## Bernoulli -/

/-- Bernoulli draw as a function of the uniform `u = (w+1)/2⁶⁴ ∈ (0,1]` -/
noncomputable def Bernoulli.B (d : Bernoulli ℝ) (u : ℝ) : Bool := decide (u ≤ d.f_b.f_p)

/-- the model's draw `w < ⌊p·2⁶⁴⌋` IS `B` at the grid point `(w+1)/2⁶⁴` (for `0 ≤ p < 1` with
    `⌊p·2⁶⁴⌋ ≠ 2⁶⁴ − 1`, the branch in which a word is drawn) -/
theorem bernoulli_sample_eq_B (d : Bernoulli ℝ) (hp0 : 0 ≤ d.f_b.f_p) (hp1 : d.f_b.f_p < 1)
    (hP : ⌊d.f_b.f_p * 2 ^ 64⌋ ≠ 18446744073709551615) (w : Int) (t : List Int) :
    (Model.Bernoulli.sample_bool d ⟨w :: t⟩).1 = Bernoulli.B d (((w : ℝ) + 1) / 2 ^ 64) := by
  rw [bernoulli_sample_bool_eq d hp0 hp1, if_neg hP]
  unfold Bernoulli.B
  simp only
  congr 1
  rw [div_le_iff₀ (by positivity)]
  have : w < ⌊d.f_b.f_p * 2 ^ 64⌋ ↔ w + 1 ≤ ⌊d.f_b.f_p * 2 ^ 64⌋ := by omega
  rw [this, Int.le_floor]
  push_cast
  rfl

/-- **Bernoulli: the ideal draw is `true` with probability `p`** -/
theorem bernoulli_sampler_true (d : Bernoulli ℝ) (hp0 : 0 ≤ d.f_b.f_p) (hp1 : d.f_b.f_p ≤ 1) :
    unif01 {u | Bernoulli.B d u = true} = ENNReal.ofReal d.f_b.f_p := by
  rw [unif01_of_squeeze (S := {u | Bernoulli.B d u = true}) (l := 0) (r := d.f_b.f_p) le_rfl hp1
    (fun u h0 h1 _ hr => by simp [Bernoulli.B]; exact hr.le)
    (fun u h0 h1 hu => by simp [Bernoulli.B] at hu; exact ⟨h0.le, hu⟩), sub_zero]

/-- **Bernoulli: the ideal draw is `false` with probability `1 − p`** -/
theorem bernoulli_sampler_false (d : Bernoulli ℝ) (hp0 : 0 ≤ d.f_b.f_p) (hp1 : d.f_b.f_p ≤ 1) :
    unif01 {u | Bernoulli.B d u = false} = ENNReal.ofReal (1 - d.f_b.f_p) := by
  rw [unif01_of_squeeze (S := {u | Bernoulli.B d u = false}) (l := d.f_b.f_p) (r := 1) hp0 le_rfl
    (fun u h0 h1 hl _ => by simp [Bernoulli.B]; exact hl)
    (fun u h0 h1 hu => by simp [Bernoulli.B] at hu; exact ⟨hu.le, h1.le⟩)]

/-- the strict comparison `u < p` has the same law -/
theorem bernoulli_sampler_true_strict (d : Bernoulli ℝ) (hp0 : 0 ≤ d.f_b.f_p) (hp1 : d.f_b.f_p ≤ 1) :
    unif01 {u | u < d.f_b.f_p} = ENNReal.ofReal d.f_b.f_p := by
  rw [unif01_of_squeeze (S := {u | u < d.f_b.f_p}) (l := 0) (r := d.f_b.f_p) le_rfl hp1
    (fun u h0 h1 _ hr => hr) (fun u h0 h1 hu => ⟨h0.le, (show u < d.f_b.f_p from hu).le⟩), sub_zero]

/-- **Bernoulli against the generated `pmf`** (`u8`/`f64` output `b as u8`): relative to
    `ln C(1,0) = ln C(1,1) = 0` -/
theorem bernoulli_sampler_pmf_rel [SF ℝ] (S : Statrs.Spec.LnBinomialOneSpec) (d : Bernoulli ℝ)
    (hn : d.f_b.f_n = 1) (hp0 : 0 ≤ d.f_b.f_p) (hp1 : d.f_b.f_p ≤ 1) :
    unif01 {u | (if Bernoulli.B d u then (1 : Int) else 0) = 1} = ENNReal.ofReal (Gen.Bernoulli.pmf d 1)
      ∧ unif01 {u | (if Bernoulli.B d u then (1 : Int) else 0) = 0}
          = ENNReal.ofReal (Gen.Bernoulli.pmf d 0) := by
  rw [C03.bernoulli_pmf_one_rel S d hn hp0, C03.bernoulli_pmf_zero_rel S d hn hp1,
    ← bernoulli_sampler_true d hp0 hp1, ← bernoulli_sampler_false d hp0 hp1]
  constructor
  · congr 1; ext u; cases Bernoulli.B d u <;> simp
  · congr 1; ext u; cases Bernoulli.B d u <;> simp

example : ∃ d : Bernoulli ℝ, d.f_b.f_n = 1 ∧ 0 ≤ d.f_b.f_p ∧ d.f_b.f_p ≤ 1 :=
  ⟨⟨⟨1 / 2, 1⟩⟩, by norm_num⟩

/-! ## DiscreteUniform -/

/-- DiscreteUniform sampler as a function of the uniform `u = w/2⁶⁴`: `low + hi`, `hi` the high word
    of the widening multiply `w · range` -/
noncomputable def DiscreteUniform.K (d : DiscreteUniform) (u : ℝ) : Int :=
  d.f_min + ⌊u * ((d.f_max - d.f_min + 1 : Int) : ℝ)⌋

/-- the high word of `w.wmul(range)` is `⌊(w/2⁶⁴)·range⌋` -/
theorem wmul_hi_eq_floor (w range : Int) :
    (w * range) / 18446744073709551616 = ⌊((w : ℝ) / 2 ^ 64) * (range : ℝ)⌋ := by
  have h : ((w : ℝ) / 2 ^ 64) * (range : ℝ) = ((w * range : Int) : ℝ) / ((18446744073709551616 : Int) : ℝ) := by
    push_cast; ring
  rw [h]
  symm
  rw [Int.floor_eq_iff]
  have hpos : (0 : ℝ) < ((18446744073709551616 : Int) : ℝ) := by norm_num
  constructor
  · rw [le_div_iff₀ hpos]
    exact_mod_cast Int.ediv_mul_le (w * range) (by norm_num)
  · rw [div_lt_iff₀ hpos]
    have := Int.lt_ediv_add_one_mul_self (w * range) (show (0 : Int) < 18446744073709551616 by norm_num)
    exact_mod_cast this

/-- one accepted round of the model's loop returns `K` at `u = w/2⁶⁴` (added to `low`) -/
theorem uniformIntLoop_accept (range zone : Int) (fuel : Nat) (w : Int) (t : List Int)
    (hz : (w * range) % 18446744073709551616 ≤ zone) :
    uniformIntLoop Rng.nextU64 18446744073709551616 range zone (fuel + 1) ⟨w :: t⟩
      = LoopR.ret (⌊((w : ℝ) / 2 ^ 64) * (range : ℝ)⌋, ⟨t⟩) := by
  simp only [uniformIntLoop, nextU64_cons, if_pos hz, wmul_hi_eq_floor]

/-- **DiscreteUniform: the ideal sampler hits every `k` with probability `pmf k`** (`min ≤ max`
    is what `new` enforces; outside `[min, max]` both sides are `0`) -/
theorem discrete_uniform_sampler_pmf (d : DiscreteUniform) (h : d.f_min ≤ d.f_max) (k : Int) :
    unif01 {u | DiscreteUniform.K d u = k} = ENNReal.ofReal (Gen.DiscreteUniform.pmf (α := ℝ) d k) := by
  have hn : (0 : ℝ) < ((d.f_max - d.f_min + 1 : Int) : ℝ) := by
    have : 0 < d.f_max - d.f_min + 1 := by omega
    exact_mod_cast this
  set n : ℝ := ((d.f_max - d.f_min + 1 : Int) : ℝ) with hndef
  have hiff : ∀ u, DiscreteUniform.K d u = k ↔
      ((k - d.f_min : Int) : ℝ) / n ≤ u ∧ u < (((k - d.f_min : Int) : ℝ) + 1) / n := by
    intro u
    unfold DiscreteUniform.K
    rw [← hndef, div_le_iff₀ hn, lt_div_iff₀ hn]
    constructor
    · intro hu
      have : ⌊u * n⌋ = k - d.f_min := by omega
      exact Int.floor_eq_iff.mp this
    · intro hu
      have : ⌊u * n⌋ = k - d.f_min := Int.floor_eq_iff.mpr hu
      omega
  unfold Gen.DiscreteUniform.pmf
  rfun_norm
  by_cases hk : d.f_min ≤ k ∧ k ≤ d.f_max
  · rw [if_pos hk]
    have hj0 : (0 : ℝ) ≤ ((k - d.f_min : Int) : ℝ) := by
      have : 0 ≤ k - d.f_min := by omega
      exact_mod_cast this
    have hj1 : ((k - d.f_min : Int) : ℝ) + 1 ≤ n := by
      have : k - d.f_min + 1 ≤ d.f_max - d.f_min + 1 := by omega
      rw [hndef]; exact_mod_cast this
    rw [unif01_of_squeeze (S := {u | DiscreteUniform.K d u = k}) (l := ((k - d.f_min : Int) : ℝ) / n)
      (r := (((k - d.f_min : Int) : ℝ) + 1) / n) (by positivity)
      (by rw [div_le_one hn]; exact hj1)
      (fun u h0 h1 hl hr => (hiff u).mpr ⟨hl.le, hr⟩)
      (fun u h0 h1 hu => by obtain ⟨a, b⟩ := (hiff u).mp hu; exact ⟨a, b.le⟩)]
    congr 1
    rw [show (1.0 : ℝ) = 1 by norm_num, ← hndef, ← sub_div]
    congr 1
    ring
  · rw [if_neg hk, show (0.0 : ℝ) = 0 by norm_num, ENNReal.ofReal_zero, unif01_apply]
    apply measure_mono_null (t := (∅ : Set ℝ)) _ measure_empty
    rintro u ⟨hu, h0, h1⟩
    exfalso
    obtain ⟨a, b⟩ := (hiff u).mp hu
    rw [div_le_iff₀ hn] at a
    rw [lt_div_iff₀ hn] at b
    rcases not_and_or.mp hk with hlo | hhi
    · -- k < min: then (k − min) + 1 ≤ 0 < u·n
      have : ((k - d.f_min : Int) : ℝ) + 1 ≤ 0 := by
        have : k - d.f_min + 1 ≤ 0 := by omega
        exact_mod_cast this
      nlinarith
    · -- k > max: then n ≤ k − min ≤ u·n < n
      have : n ≤ ((k - d.f_min : Int) : ℝ) := by
        have : d.f_max - d.f_min + 1 ≤ k - d.f_min := by omega
        rw [hndef]; exact_mod_cast this
      nlinarith

example : ∃ d : DiscreteUniform, d.f_min ≤ d.f_max := ⟨⟨-3, 5⟩, by norm_num⟩

end Statrs.Props.C06
