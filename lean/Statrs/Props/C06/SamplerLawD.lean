/-
  C06 — "variates are distributed according to the same object's pmf": Categorical
  (`categorical::sample_unchecked`: `draw = u·cdf.last(); cdf.iter().position(|v| *v >= draw)`).

  `Categorical.K d u` is the index the hand model returns, as a function of the one uniform `u` it
  draws (`categorical_sample_eq_K`, by `rfl`).  For every object `Categorical::new(prob_mass)`
  returns `Ok` (hand model `Model.Categorical.new`, pinned by the `categorical` correspondence suite)
  and every index `k`:

      unif01 {u | Categorical.K d u = k} = ENNReal.ofReal (Categorical.pmf d k)

  — Lebesgue measure of the pre-image interval `(cdf[k−1]/last, cdf[k]/last]`, whose length is
  `prob_mass[k] / Σ prob_mass = norm_pmf[k]` because `cdf` is the table of running sums
  (`prob_mass_to_cdf_getElem?`).  A category of mass `0` is hit with probability `0` (the `≥` of the
  search returns it only on the null set `u = 0`: `categorical_zero_mass_counterexample`).

  SCOPE.  A theorem about the IDEAL real-valued transform applied to an IDEAL uniform variable
  (`unif01`); the 53-bit grid of `gen::<f64>()` and floating-point rounding of the running sums and
  of `u·last` are outside.  Strength: full(ℝ), relative to the hand transcription of `new`.
-/
import Statrs.Lemmas.PushforwardCdf
import Statrs.Props.C06.Discrete
import Statrs.Props.C09.CategoricalNew
import Statrs.Lemmas.CategoricalSearch
set_option linter.unusedVariables false
namespace Statrs.Props.C06
open Statrs Statrs.Gen Statrs.Model Statrs.Lemmas.PushforwardCdf Statrs.Lemmas.Sampling
open MeasureTheory ProbabilityTheory Set

/-! ### running sums -/

/-- running sums of `q` started at `s` -/
def scanSums : ℝ → List ℝ → List ℝ
  | _, [] => []
  | s, a :: t => (s + a) :: scanSums (s + a) t

theorem fold_eq_scanSums (q : List ℝ) (s : ℝ) (acc : List ℝ) :
    (q.foldl (fun (st : ℝ × List ℝ) p => let sum := st.1 + p; (sum, st.2 ++ [sum])) (s, acc)).2
      = acc ++ scanSums s q := by
  induction q generalizing s acc with
  | nil => simp [scanSums]
  | cons a t ih => simp only [List.foldl_cons]; rw [ih]; simp [scanSums]

theorem scanSums_getElem? (q : List ℝ) (s : ℝ) (k : ℕ) (hk : k < q.length) :
    (scanSums s q)[k]? = some (s + (q.take (k + 1)).sum) := by
  induction q generalizing s k with
  | nil => simp at hk
  | cons a t ih =>
    cases k with
    | zero => simp [scanSums]
    | succ k =>
      simp only [scanSums, List.getElem?_cons_succ]
      rw [ih (s + a) k (by simpa using hk)]
      simp [List.take_succ_cons]; ring

/-- **the cdf table is the table of prefix sums**: `prob_mass_to_cdf p [k] = p[0] + … + p[k]` -/
theorem prob_mass_to_cdf_getElem? (p : List ℝ) (k : ℕ) (hk : k < p.length) :
    (prob_mass_to_cdf (α := ℝ) p)[k]? = some ((p.take (k + 1)).sum) := by
  unfold prob_mass_to_cdf
  rw [fold_eq_scanSums, List.nil_append, scanSums_getElem? p _ k hk]
  norm_num

theorem take_sum_mono (p : List ℝ) (hp : ∀ x ∈ p, 0 ≤ x) (i j : ℕ) (hij : i ≤ j) :
    (p.take i).sum ≤ (p.take j).sum := by
  induction p generalizing i j with
  | nil => simp
  | cons a t ih =>
    cases i with
    | zero =>
      simp only [List.take_zero, List.sum_nil]
      exact List.sum_nonneg (fun x hx => hp x (List.mem_of_mem_take hx))
    | succ i =>
      cases j with
      | zero => omega
      | succ j =>
        simp only [List.take_succ_cons, List.sum_cons]
        have := ih (fun x hx => hp x (by simp [hx])) i j (by omega)
        linarith

/-! ### the search -/

/-- converse of `positionGe_spec`: the first index whose entry is `≥ draw` is what is returned -/
theorem positionGe_of_first (draw : ℝ) : ∀ (l : List ℝ) (i : Int) (k : ℕ) (v : ℝ),
    l[k]? = some v → draw ≤ v → (∀ m : ℕ, m < k → ∀ w, l[m]? = some w → w < draw) →
    positionGe draw l i = some (i + k) := by
  intro l
  induction l with
  | nil => intro i k v hv; simp at hv
  | cons a t ih =>
    intro i k v hv hdv hmin
    cases k with
    | zero =>
      simp at hv; subst hv
      unfold positionGe; rw [if_pos hdv]; simp
    | succ k =>
      have ha : ¬ draw ≤ a := not_le.mpr (hmin 0 (by omega) a (by simp))
      unfold positionGe; rw [if_neg ha]
      rw [ih (i + 1) k v (by simpa using hv) hdv
        (fun m hm w hw => hmin (m + 1) (by omega) w (by simpa using hw))]
      congr 1; push_cast; ring

/-! ### Categorical -/

/-- Categorical sampler as a function of the uniform -/
noncomputable def Categorical.K (d : Categorical ℝ) (u : ℝ) : Int :=
  unwrapO (positionGe (u * unwrapO d.f_cdf.getLast?) d.f_cdf 0)

/-- the model's sampler returns `K` of the one `gen::<f64>()` draw -/
theorem categorical_sample_eq_K (d : Categorical ℝ) (rng : Rng) :
    Model.Categorical.sample_usize d rng
      = (Categorical.K d (genF64 (α := ℝ) rng).1, (genF64 (α := ℝ) rng).2) := rfl

/-- **Categorical: the ideal sampler hits `k` with probability `pmf k`**, every object `new`
    builds, every valid index (zero-mass categories included: probability `0`) -/
theorem categorical_sampler_pmf (p : List ℝ) (d : Categorical ℝ)
    (hnew : Model.Categorical.new p = .ok d) (k : ℕ) (hk : k < p.length) :
    unif01 {u | Categorical.K d u = (k : Int)} = ENNReal.ofReal (Gen.Categorical.pmf d (k : Int)) := by
  obtain ⟨hnn, hL, hcdf, hne, hlen, hpair, hlast⟩ :=
    Statrs.Lemmas.CategoricalSearch.categorical_new_table p d hnew
  obtain ⟨hpmf, -, -, -⟩ := Statrs.Props.C09.categorical_new_ok_params_real p d hnew
  set L := p.sum with hLdef
  have hLmem : L ∈ d.f_cdf := by
    have := List.getLast?_eq_some_getLast hne
    rw [hlast] at this
    rw [Option.some.inj this]; exact List.getLast_mem hne
  have hK : ∀ u, Categorical.K d u = unwrapO (positionGe (u * L) d.f_cdf 0) := by
    intro u; unfold Categorical.K; rw [hlast]; rfl
  have hget : ∀ m : ℕ, m < p.length → d.f_cdf[m]? = some ((p.take (m + 1)).sum) := by
    intro m hm; rw [hcdf]; exact prob_mass_to_cdf_getElem? p m hm
  have hsucc : (p.take (k + 1)).sum = (p.take k).sum + p[k] := by
    rw [List.sum_take_succ p k hk]
  have hlo0 : 0 ≤ (p.take k).sum := List.sum_nonneg (fun x hx => hnn x (List.mem_of_mem_take hx))
  have hhi1 : (p.take (k + 1)).sum ≤ L := by
    have := take_sum_mono p hnn (k + 1) p.length (by omega)
    rwa [List.take_length] at this
  -- the pmf value
  have hpmfk : Gen.Categorical.pmf d (k : Int) = p[k] / L := by
    unfold Gen.Categorical.pmf listGet?
    rw [if_neg (by omega), Int.toNat_natCast, hpmf]
    simp [hk]
  rw [hpmfk]
  rw [unif01_of_squeeze (S := {u | Categorical.K d u = (k : Int)}) (l := (p.take k).sum / L)
    (r := (p.take (k + 1)).sum / L) (by positivity) (by rw [div_le_one hL]; exact hhi1)]
  · congr 1; rw [hsucc]; field_simp; ring
  · -- inside the open interval the search returns k
    intro u h0 h1 hl hr
    rw [div_lt_iff₀ hL] at hl
    rw [lt_div_iff₀ hL] at hr
    show Categorical.K d u = (k : Int)
    rw [hK u, positionGe_of_first (u * L) d.f_cdf 0 k _ (hget k hk) hr.le ?_]
    · simp [unwrapO]
    · intro m hm w hw
      rw [hget m (by omega)] at hw
      rw [← Option.some.inj hw]
      have := take_sum_mono p hnn (m + 1) k (by omega)
      linarith
  · -- conversely
    intro u h0 h1 hu
    have hu' : Categorical.K d u = (k : Int) := hu
    have hdraw : u * L ≤ L := by nlinarith
    have hsome := positionGe_isSome (u * L) d.f_cdf 0 ⟨L, hLmem, hdraw⟩
    obtain ⟨j, hj⟩ := Option.isSome_iff_exists.mp hsome
    obtain ⟨k', hjk, hk', ⟨v, hv, hdv⟩, hmin⟩ := positionGe_spec (u * L) d.f_cdf 0 j hj
    rw [hK u, hj] at hu'
    have hkk : k' = k := by
      have : j = (k : Int) := hu'
      omega
    subst hkk
    rw [hget k' hk] at hv
    rw [← Option.some.inj hv] at hdv
    constructor
    · rw [div_le_iff₀ hL]
      cases k' with
      | zero => simp; positivity
      | succ m =>
        have := hmin m (by omega) _ (hget m (by omega))
        linarith [not_le.mp this]
    · rw [le_div_iff₀ hL]; exact hdv

/-- outside the table the sampler never lands, and `pmf` is `0` there -/
theorem categorical_sampler_pmf_outside (p : List ℝ) (d : Categorical ℝ)
    (hnew : Model.Categorical.new p = .ok d) (k : ℕ) (hk : p.length ≤ k) :
    unif01 {u | Categorical.K d u = (k : Int)} = ENNReal.ofReal (Gen.Categorical.pmf d (k : Int)) := by
  obtain ⟨hnn, hL, hcdf, hne, hlen, hpair, hlast⟩ :=
    Statrs.Lemmas.CategoricalSearch.categorical_new_table p d hnew
  obtain ⟨hpmf, -, -, -⟩ := Statrs.Props.C09.categorical_new_ok_params_real p d hnew
  have hpmfk : Gen.Categorical.pmf d (k : Int) = 0 := by
    unfold Gen.Categorical.pmf listGet?
    rw [if_neg (by omega), Int.toNat_natCast, hpmf]
    simp [hk]; norm_num
  rw [hpmfk, ENNReal.ofReal_zero, unif01_apply]
  apply measure_mono_null (t := (∅ : Set ℝ)) _ measure_empty
  rintro u ⟨hu, h0, h1⟩
  exfalso
  have hu' : Categorical.K d u = (k : Int) := hu
  have hLmem : p.sum ∈ d.f_cdf := by
    have := List.getLast?_eq_some_getLast hne
    rw [hlast] at this
    rw [Option.some.inj this]; exact List.getLast_mem hne
  have hdraw : u * p.sum ≤ p.sum := by nlinarith
  have hsome := positionGe_isSome (u * p.sum) d.f_cdf 0 ⟨p.sum, hLmem, hdraw⟩
  obtain ⟨j, hj⟩ := Option.isSome_iff_exists.mp hsome
  obtain ⟨k', hjk, hk', -, -⟩ := positionGe_spec (u * p.sum) d.f_cdf 0 j hj
  unfold Categorical.K at hu'
  rw [hlast] at hu'
  change unwrapO (positionGe (u * p.sum) d.f_cdf 0) = (k : Int) at hu'
  rw [hj] at hu'
  have : j = (k : Int) := hu'
  omega

example : ∃ (p : List ℝ) (d : Categorical ℝ), Model.Categorical.new p = .ok d := by
  obtain ⟨d, hd⟩ := (Statrs.Props.C09.categorical_new_ok_iff_generic (α := ℝ) [1, 3]).mpr
    ⟨by simp, by
      intro x hx
      unfold Statrs.Props.C09.MassOk
      simp at hx
      rcases hx with rfl | rfl <;> norm_num, by
      unfold Statrs.Props.C09.massSum; norm_num⟩
  exact ⟨_, d, hd⟩

end Statrs.Props.C06
