/-
  C06 — structural facts about the samplers that depend only on branch logic, stated for EVERY
  carrier `α` (so they hold for IEEE `Float` as well as for ℝ):

  * how many words each primitive / one-word sampler consumes (the stream after the call is the
    stream before with a fixed number of words dropped);
  * Binomial: exactly `n` words, count in `[0, n]` = `[min, max]`;
  * Bernoulli: the `f64` variate is `0` or `1`;
  * StudentsT: with `freedom = ∞` the sampler is the Normal(location, scale) sampler (new guard);
  * Hypergeometric (current tree): `draws = 0` returns `0` without touching the RNG; for
    `draws ≥ 1` the loop runs exactly `draws` times (one word each) and the count is in `[0, draws]`;
  * DiscreteUniform: the value is in `[min, max]` (or the fuel sentinel) for every well-formed stream;
  * purity: the models are functions of (parameters, stream) — equal streams give equal values
    (true by construction; stated once, generically).

  Strength: full(∀α).
-/
import Statrs.Model.Samplers
import Statrs.Inst.Float
import Statrs.Gen.D_binomial
import Statrs.Gen.D_hypergeometric
import Statrs.Gen.D_discrete_uniform
import Mathlib.Tactic
set_option linter.unusedVariables false
set_option linter.unusedSectionVars false
namespace Statrs.Props.C06
open Statrs Statrs.Gen Statrs.Model

/-- "the call consumed exactly `k` words" (on an exhausted script the stream stays empty, which
    `List.drop` also describes) -/
def Consumes (before after : Rng) (k : Nat) : Prop := after.ws = before.ws.drop k

theorem nextU64_consumes (r : Rng) : Consumes r (r.nextU64).2 1 := by
  rcases r with ⟨ws⟩; cases ws <;> simp [Consumes, Rng.nextU64]

theorem Consumes.trans {a b c : Rng} {m n : Nat} (h1 : Consumes a b m) (h2 : Consumes b c n) :
    Consumes a c (m + n) := by
  unfold Consumes at *; rw [h2, h1, List.drop_drop]

theorem Consumes.zero (a : Rng) : Consumes a a 0 := by simp [Consumes]

section generic
variable {α : Type} [Add α] [Sub α] [Mul α] [Div α] [Neg α] [LT α] [LE α] [BEq α]
  [DecidableLT α] [DecidableLE α] [OfScientific α] [Inhabited α] [RFun α]

/-! ### purity -/

/-- Sampling is a function of the word stream: equal parameters and equal streams give equal
    variates and equal remaining streams.  (Instance for one sampler; the same one-line proof
    applies to every model, they are all plain functions.) -/
theorem sample_pure (f : Rng → α × Rng) (r₁ r₂ : Rng) (h : r₁ = r₂) : f r₁ = f r₂ := by rw [h]

/-! ### one-word primitives -/

theorem genF64_consumes (r : Rng) : Consumes r (genF64 (α := α) r).2 1 := nextU64_consumes r
theorem genOpenClosed01_consumes (r : Rng) : Consumes r (genOpenClosed01 (α := α) r).2 1 := nextU64_consumes r
theorem genOpen01_consumes (r : Rng) : Consumes r (genOpen01 (α := α) r).2 1 := nextU64_consumes r

/-! ### one-word samplers (the inverse-transform families and Categorical) -/

theorem cauchy_consumes (d : Cauchy α) (r : Rng) : Consumes r (Model.Cauchy.sample_f64 d r).2 1 :=
  nextU64_consumes r
theorem weibull_consumes (d : Weibull α) (r : Rng) : Consumes r (Model.Weibull.sample_f64 d r).2 1 :=
  nextU64_consumes r
theorem pareto_consumes (d : Pareto α) (r : Rng) : Consumes r (Model.Pareto.sample_f64 d r).2 1 :=
  nextU64_consumes r
theorem gumbel_consumes (d : Gumbel α) (r : Rng) : Consumes r (Model.Gumbel.sample_f64 d r).2 1 :=
  nextU64_consumes r
theorem levy_consumes [SF α] (d : Levy α) (r : Rng) : Consumes r (Model.Levy.sample_f64 d r).2 1 :=
  nextU64_consumes r
theorem triangular_consumes (d : Triangular α) (r : Rng) :
    Consumes r (Model.Triangular.sample_f64 d r).2 1 := by
  unfold Model.Triangular.sample_f64 triangular_sample_unchecked
  simp only
  split_ifs <;> exact nextU64_consumes r
theorem categorical_consumes (d : Categorical α) (r : Rng) :
    Consumes r (Model.Categorical.sample_usize d r).2 1 := nextU64_consumes r
theorem dirac_consumes (d : Dirac α) (r : Rng) : Consumes r (Model.Dirac.sample_f64 d r).2 0 :=
  Consumes.zero r

/-- Geometric: no word when `ulps_eq!(p, 1.0)`, otherwise one -/
theorem geometric_consumes (d : Geometric α) (r : Rng) :
    Consumes r (Model.Geometric.sample_u64 d r).2 (if (RFun.ulpsEq d.f_p (1.0 : α)) = true then 0 else 1) := by
  unfold Model.Geometric.sample_u64
  split_ifs
  · exact Consumes.zero r
  · exact nextU64_consumes r

/-! ### StudentsT: the `freedom = ∞` branch -/

/-- StudentsT with `freedom = ∞` (after the source fix: `if self.freedom.is_infinite() { return
    normal::sample_unchecked(r, location, scale) }`): the sampler IS the Normal(location, scale)
    sampler — same variate, same remaining stream, on every carrier.  (Before the fix the gamma mixing
    variate was drawn with shape `∞` and the draw was `∞/∞` = NaN.) -/
theorem studentsT_sample_inf_eq_normal (d : StudentsT α) (hinf : RFun.isInf d.f_freedom = true)
    (r : Rng) :
    Model.StudentsT.sample_f64 d r = Model.Normal.sample_f64 ⟨d.f_location, d.f_scale⟩ r := by
  unfold Model.StudentsT.sample_f64 Model.Normal.sample_f64
  rw [if_pos hinf]

/-- … in particular no gamma variate is drawn: the draw is `location + scale·z` for the one standard
    normal `z` taken from the stream -/
theorem studentsT_sample_inf_eq (d : StudentsT α) (hinf : RFun.isInf d.f_freedom = true) (r : Rng) :
    Model.StudentsT.sample_f64 d r
      = (d.f_location + d.f_scale * (sample_std_normal (α := α) r).1, (sample_std_normal (α := α) r).2) := by
  rw [studentsT_sample_inf_eq_normal d hinf]
  unfold Model.Normal.sample_f64 normal_sample_unchecked
  rfl

/-- for FINITE `freedom` the sampler is Devroye's method: `Normal(location, scale·√(ν/G))` with
    `G ~ Gamma(ν/2, 1/2)` drawn first -/
theorem studentsT_sample_of_finite (d : StudentsT α) (hfin : RFun.isInf d.f_freedom = false)
    (r : Rng) :
    Model.StudentsT.sample_f64 d r
      = normal_sample_unchecked (α := α)
          (gamma_sample_unchecked (α := α) r ((0.5 : α) * d.f_freedom) (0.5 : α)).2 d.f_location
          (d.f_scale * (RFun.sqrt (d.f_freedom /
            (gamma_sample_unchecked (α := α) r ((0.5 : α) * d.f_freedom) (0.5 : α)).1))) := by
  unfold Model.StudentsT.sample_f64
  rw [if_neg (by rw [hfin]; exact Bool.false_ne_true)]

example : ∃ d : StudentsT Float, RFun.isInf d.f_freedom = true := ⟨⟨0, 1, RFun.inf⟩, by decide⟩

/-! ### Bernoulli -/

/-- the `f64` variate is `1 as f64` or `0 as f64` -/
theorem bernoulli_sample_f64_values (d : Bernoulli α) (r : Rng) :
    (Model.Bernoulli.sample_f64 d r).1 = (RFun.ofInt 1 : α) ∨ (Model.Bernoulli.sample_f64 d r).1 = (RFun.ofInt 0 : α) := by
  unfold Model.Bernoulli.sample_f64
  simp only
  cases (Model.Bernoulli.sample_bool d r).1 <;> simp

/-- at most one word is consumed -/
theorem bernoulli_consumes (d : Bernoulli α) (r : Rng) :
    Consumes r (Model.Bernoulli.sample_bool d r).2 0 ∨ Consumes r (Model.Bernoulli.sample_bool d r).2 1 := by
  unfold Model.Bernoulli.sample_bool genBool
  by_cases h1 : ¬ (((0.0 : α) ≤ Bernoulli.p d) ∧ (Bernoulli.p d < (1.0 : α)))
  · rw [if_pos h1]
    by_cases h2 : (Bernoulli.p d == (1.0 : α)) = true
    · rw [if_pos h2]; exact Or.inl (Consumes.zero r)
    · rw [if_neg h2]; exact Or.inl (Consumes.zero r)
  · rw [if_neg h1]
    simp only
    by_cases h3 : RFun.toU64 (Bernoulli.p d * (cTwo64 : α)) = u64Max
    · rw [if_pos h3]; exact Or.inl (Consumes.zero r)
    · rw [if_neg h3]; exact Or.inr (nextU64_consumes r)

/-! ### Binomial -/

theorem binomial_step_spec (p : α) (st : Int × Rng) :
    (st.1 ≤ (Binomial.sample_u64.step p st).1 ∧ (Binomial.sample_u64.step p st).1 ≤ st.1 + 1)
      ∧ Consumes st.2 (Binomial.sample_u64.step p st).2 1 := by
  unfold Binomial.sample_u64.step
  simp only
  split_ifs
  · exact ⟨⟨by simp, le_refl _⟩, nextU64_consumes st.2⟩
  · exact ⟨⟨le_refl _, by simp⟩, nextU64_consumes st.2⟩

theorem binomial_fold_spec (p : α) : ∀ (k : Nat) (st : Int × Rng),
    (st.1 ≤ (foldTimes (Binomial.sample_u64.step p) k st).1
      ∧ (foldTimes (Binomial.sample_u64.step p) k st).1 ≤ st.1 + k)
      ∧ Consumes st.2 (foldTimes (Binomial.sample_u64.step p) k st).2 k := by
  intro k
  induction k with
  | zero => intro st; simp [foldTimes, Consumes]
  | succ k ih =>
    intro st
    obtain ⟨⟨a, b⟩, c⟩ := binomial_step_spec p st
    obtain ⟨⟨a', b'⟩, c'⟩ := ih (Binomial.sample_u64.step p st)
    simp only [foldTimes]
    refine ⟨⟨by linarith, by push_cast; linarith⟩, ?_⟩
    have := Consumes.trans c c'
    rwa [Nat.add_comm] at this

/-- Binomial: the count lies in `[min, max] = [0, n]` and exactly `n` words are consumed, for every
    carrier, every `p` and every stream (`n ≥ 0` is the `u64` range). -/
theorem binomial_sample_spec (d : Binomial α) (hn : 0 ≤ d.f_n) (r : Rng) :
    Binomial.min d ≤ (Model.Binomial.sample_u64 d r).1
      ∧ (Model.Binomial.sample_u64 d r).1 ≤ Binomial.max d
      ∧ Consumes r (Model.Binomial.sample_u64 d r).2 d.f_n.toNat := by
  obtain ⟨⟨a, b⟩, c⟩ := binomial_fold_spec d.f_p d.f_n.toNat (0, r)
  unfold Model.Binomial.sample_u64 Binomial.min Binomial.max
  have : ((d.f_n.toNat : Nat) : Int) = d.f_n := Int.toNat_of_nonneg hn
  refine ⟨by simpa using a, ?_, c⟩
  simp only at b; linarith

example : ∃ d : Binomial Float, 0 ≤ d.f_n := ⟨⟨0.5, 3⟩, by decide⟩

/-! ### Hypergeometric -/

/-- the loop, entered with `draws = n + 1 ≥ 1` and enough fuel, runs exactly `n + 1` times: it ends
    normally with `draws = 0`, consumed `n + 1` words, and incremented `x` at most `n + 1` times -/
theorem hypergeometric_loop_spec : ∀ (n fuel : Nat), n + 1 ≤ fuel → ∀ (pop succ : α) (x : Int) (r : Rng),
    ∃ (pop' succ' : α) (x' : Int) (r' : Rng),
      Hypergeometric.sample_u64.loop (α := α) fuel pop succ ((n : Int) + 1) x r
        = LoopR.done (pop', succ', 0, x', r')
      ∧ x ≤ x' ∧ x' ≤ x + (n + 1) ∧ Consumes r r' (n + 1) := by
  intro n
  induction n with
  | zero =>
    intro fuel hf pop succ x r
    obtain ⟨fuel, rfl⟩ : ∃ f, fuel = f + 1 := ⟨fuel - 1, by omega⟩
    rw [Hypergeometric.sample_u64.loop]
    have hcons := genF64_consumes (α := α) r
    rcases hg : genF64 (α := α) r with ⟨next, r1⟩
    rw [hg] at hcons
    have hne : ¬ ((0 : Int) = panicInt) := by decide
    by_cases hc : next < succ / pop
    · refine ⟨pop - (1.0 : α), succ - (1.0 : α), x + 1, r1, ?_, by simp, by simp, hcons⟩
      simp [hc, usub, hne]
    · refine ⟨pop - (1.0 : α), succ, x, r1, ?_, by simp, by simp, hcons⟩
      simp [hc, usub, hne]
  | succ n ih =>
    intro fuel hf pop succ x r
    obtain ⟨fuel, rfl⟩ : ∃ f, fuel = f + 1 := ⟨fuel - 1, by omega⟩
    have hf' : n + 1 ≤ fuel := by omega
    rw [Hypergeometric.sample_u64.loop]
    have hcons := genF64_consumes (α := α) r
    rcases hg : genF64 (α := α) r with ⟨next, r1⟩
    rw [hg] at hcons
    have hus : usub (((n + 1 : Nat) : Int) + 1) 1 = (n : Int) + 1 := by
      unfold usub; rw [if_neg (by push_cast; omega)]; push_cast; ring
    have hne1 : ¬ ((n : Int) + 1 = panicInt) := by
      have : panicInt < 0 := by decide
      omega
    have hne0 : ¬ ((n : Int) + 1 = 0) := by omega
    by_cases hc : next < succ / pop
    · obtain ⟨pop', succ', x', r', he, h1, h2, h3⟩ :=
        ih fuel hf' (pop - (1.0 : α)) (succ - (1.0 : α)) (x + 1) r1
      refine ⟨pop', succ', x', r', ?_, by linarith, by push_cast; linarith, ?_⟩
      · simp only [hc, if_true, hus, hne1, hne0, if_false]
        exact he
      · have := Consumes.trans hcons h3
        rwa [Nat.add_comm] at this
    · obtain ⟨pop', succ', x', r', he, h1, h2, h3⟩ :=
        ih fuel hf' (pop - (1.0 : α)) succ x r1
      refine ⟨pop', succ', x', r', ?_, by linarith, by push_cast; linarith, ?_⟩
      · simp only [hc, if_false, hus, hne1, hne0]
        exact he
      · have := Consumes.trans hcons h3
        rwa [Nat.add_comm] at this

/-- Hypergeometric (current tree): for every constructed object (`draws ≥ 0`) the sampler
    terminates normally, consumes exactly `draws` words, and returns a count in `[0, draws]`.
    In particular `draws = 0` returns `0` without touching the RNG. -/
theorem hypergeometric_sample_spec (d : Hypergeometric) (hd : 0 ≤ d.f_draws) (r : Rng) :
    0 ≤ (Model.Hypergeometric.sample_u64 (α := α) d r).1
      ∧ (Model.Hypergeometric.sample_u64 (α := α) d r).1 ≤ d.f_draws
      ∧ Consumes r (Model.Hypergeometric.sample_u64 (α := α) d r).2 d.f_draws.toNat := by
  unfold Model.Hypergeometric.sample_u64
  simp only
  by_cases h0 : d.f_draws = 0
  · simp [h0, Consumes]
  · rw [if_neg h0]
    obtain ⟨n, hn⟩ : ∃ n : Nat, d.f_draws = (n : Int) + 1 := ⟨(d.f_draws - 1).toNat, by omega⟩
    have hfuel : n + 1 ≤ max loopFuel (d.f_draws.toNat + 1) := by
      have : d.f_draws.toNat = n + 1 := by omega
      omega
    obtain ⟨pop', succ', x', r', he, h1, h2, h3⟩ :=
      hypergeometric_loop_spec (α := α) n _ hfuel (RFun.ofInt d.f_population) (RFun.ofInt d.f_successes) 0 r
    rw [hn] at *
    rw [he]
    have : ((n : Int) + 1).toNat = n + 1 := by omega
    simp only [this]
    exact ⟨by linarith, by linarith, h3⟩

/-- the special case the `fix:` commit 5adbc7f is about -/
theorem hypergeometric_sample_zero_draws (d : Hypergeometric) (h0 : d.f_draws = 0) (r : Rng) :
    Model.Hypergeometric.sample_u64 (α := α) d r = (0, r) := by
  unfold Model.Hypergeometric.sample_u64; simp [h0]

example : ∃ d : Hypergeometric, 0 ≤ d.f_draws := ⟨⟨10, 3, 0⟩, by decide⟩

end generic

/-! ### DiscreteUniform (`gen_range(min..=max)`, widening-multiply rejection) -/

/-- the rejection loop returns a high word in `[0, range)` (or runs out of fuel), and keeps the
    stream well formed -/
theorem uniformIntLoop_spec (range zone : Int) (hr : 0 < range) :
    ∀ (fuel : Nat) (r : Rng), r.WF →
      match uniformIntLoop Rng.nextU64 18446744073709551616 range zone fuel r with
      | LoopR.ret v => 0 ≤ v.1 ∧ v.1 < range ∧ v.2.WF
      | LoopR.hang => True
      | LoopR.done _ => False := by
  intro fuel
  induction fuel with
  | zero => intro r _; simp [uniformIntLoop]
  | succ fuel ih =>
    intro r hwf
    have hnext : 0 ≤ (r.nextU64).1 ∧ (r.nextU64).1 < 18446744073709551616 ∧ (r.nextU64).2.WF := by
      rcases r with ⟨ws⟩
      cases ws with
      | nil => exact ⟨by simp [Rng.nextU64], by simp [Rng.nextU64], by simpa [Rng.nextU64] using hwf⟩
      | cons w t =>
        have := hwf w (by simp)
        refine ⟨this.1, this.2, ?_⟩
        intro v hv; exact hwf v (by simp [Rng.nextU64] at hv; simp [hv])
    obtain ⟨h0, h1, h2⟩ := hnext
    rw [uniformIntLoop]
    split_ifs with hz
    · refine ⟨?_, ?_, h2⟩
      · exact Int.ediv_nonneg (mul_nonneg h0 hr.le) (by norm_num)
      · apply Int.ediv_lt_of_lt_mul (by norm_num)
        nlinarith
    · exact ih _ h2

/-- DiscreteUniform: for bounds in the `i64` range with `min ≤ max` (what `new` enforces) and a
    well-formed stream, the value is in `[min, max]` (`DiscreteUniform.min d = d.f_min`,
    `DiscreteUniform.max d = d.f_max` by definition) — unless the rejection loop exhausted its
    fuel (20000 consecutive rejections; each word is rejected with probability < ½), in which
    case the model returns the panic sentinel. -/
theorem discrete_uniform_sample_mem (d : DiscreteUniform) (h : d.f_min ≤ d.f_max)
    (hlo : i64Min ≤ d.f_min) (hhi : d.f_max ≤ i64Max) (r : Rng) (hwf : r.WF) :
    (Model.DiscreteUniform.sample_i64 d r).1 = panicInt
      ∨ (d.f_min ≤ (Model.DiscreteUniform.sample_i64 d r).1
          ∧ (Model.DiscreteUniform.sample_i64 d r).1 ≤ d.f_max) := by
  unfold Model.DiscreteUniform.sample_i64 genRangeI64Inclusive
  unfold i64Min at hlo; unfold i64Max at hhi
  rw [if_neg (by simpa using h)]
  simp only
  by_cases hfull : wrapU64 (d.f_max - d.f_min + 1) = 0
  · rw [if_pos hfull]
    right
    unfold wrapU64 at hfull
    have hw : 0 ≤ (r.nextU64).1 ∧ (r.nextU64).1 < 18446744073709551616 := by
      rcases r with ⟨ws⟩
      cases ws with
      | nil => simp [Rng.nextU64]
      | cons w t => exact hwf w (by simp)
    unfold wrapI64
    omega
  · rw [if_neg hfull]
    have hrange : wrapU64 (d.f_max - d.f_min + 1) = d.f_max - d.f_min + 1 := by
      unfold wrapU64 at hfull ⊢; omega
    have hpos : 0 < wrapU64 (d.f_max - d.f_min + 1) := by rw [hrange]; omega
    have := uniformIntLoop_spec (wrapU64 (d.f_max - d.f_min + 1))
      (wrapU64 (wrapU64 (wrapU64 (d.f_max - d.f_min + 1) * 2 ^ leadingZeros 64 (wrapU64 (d.f_max - d.f_min + 1))) - 1))
      hpos loopFuel r hwf
    revert this
    cases uniformIntLoop Rng.nextU64 18446744073709551616 (wrapU64 (d.f_max - d.f_min + 1))
      (wrapU64 (wrapU64 (wrapU64 (d.f_max - d.f_min + 1) * 2 ^ leadingZeros 64 (wrapU64 (d.f_max - d.f_min + 1))) - 1))
      loopFuel r with
    | ret v =>
      intro hv
      right
      obtain ⟨a, b, _⟩ := hv
      rw [hrange] at b
      simp only
      unfold wrapI64
      omega
    | hang => intro _; left; rfl
    | done s => intro hv; exact hv.elim

example : ∃ d : DiscreteUniform, d.f_min ≤ d.f_max ∧ i64Min ≤ d.f_min ∧ d.f_max ≤ i64Max :=
  ⟨⟨-3, 5⟩, by decide⟩

end Statrs.Props.C06
