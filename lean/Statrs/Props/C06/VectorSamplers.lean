/-
  C06 — structure of the vector samplers and of `Empirical::sample` (hand models in
  `Statrs/Model/VecSamplers.lean`), for EVERY carrier `α` (branch logic and list bookkeeping only, so the
  statements hold for IEEE `Float` as well as for ℝ):

    * `normal_sample_unchecked_consumes` — one ziggurat draw consumes a finite prefix of the word stream
      (`∃ k, Consumes …`; the number of words depends on the words themselves: rejection sampling);
    * `stdNormalVec_eq` — `OVector::from_distribution(n, N(0,1))` is exactly `n` successive
      `normal::sample_unchecked(rng, 0.0, 1.0)` calls in index order (`normalState rng k` = the stream after
      `k` draws); `stdNormalVec_length`; `stdNormalVec_consumes` — words consumed = sum of the words of the draws;
    * `mvn_sample_eq`, `mvn_sample_length`, `mvn_sample_consumes` — `MultivariateNormal::sample` is
      `L·z + μ` (`LA.matvec`, `vadd`) with `z` those `n = dim` draws; the result has `dim` entries;
    * `mvt_sample_of_inf`, `mvt_sample_of_inf_ne_none`, `mvt_sample_consumes_of_inf` — since 864abd5, for
      `freedom = ±inf` (`is_infinite()`) `MultivariateStudent::sample` draws NO chi-squared variate and never panics: it
      is `(1.0·L)·z + location` with `z` the `dim` normals drawn from the ORIGINAL stream;
      `mvt_sample_of_inf_eq_affine`, `mvt_sample_of_inf_eq_mvn` — where `e * 1.0 = e` on the stored entries this is
      `L·z + location`, i.e. `MultivariateNormal::sample` of the object with the same location and factor;
    * `mvt_sample_eq_none_iff_all`, `mvt_sample_eq_none_iff`, `mvt_sample_of_ok`, `mvt_sample_length`,
      `mvt_sample_consumes` — for a non-infinite `freedom` the sampler panics (`none`) iff `ChiSquared::new(freedom)`
      fails; otherwise it is `(w·L)·z + location`, `w = sqrt(ν / c)` with `c` the chi-squared (= `Gamma(ν/2, 1/2)`)
      variate drawn FIRST, the normals being drawn from the stream after it;
    * `matvec_scale_rows` is in `VectorSamplersReal.lean` (needs commutativity);
    * `empirical_sample_eq`, `empirical_sample_consumes_any` — `Empirical::sample` is `__inverse_cdf` of one
      `Uniform::new(0.0, 1.0)` draw; at most one word.
-/
import Statrs.Model.VecSamplers
import Statrs.Props.C06.Structure
import Statrs.Spec.FloatLaws
set_option linter.unusedVariables false
set_option linter.unusedSectionVars false
namespace Statrs.Props.C06
open Statrs Statrs.Gen Statrs.Model

section generic
variable {α : Type} [Add α] [Sub α] [Mul α] [Div α] [Neg α] [LT α] [LE α] [BEq α]
  [DecidableLT α] [DecidableLE α] [OfScientific α] [Inhabited α] [RFun α]

/-! ### one ziggurat draw consumes a prefix of the stream -/

/-- "the call consumed some finite number of words" -/
def ConsumesSome (before after : Rng) : Prop := ∃ k, Consumes before after k

/-- full(∀α): consuming nothing -/
theorem ConsumesSome.refl (a : Rng) : ConsumesSome a a := ⟨0, Consumes.zero a⟩

/-- full(∀α): consumption composes -/
theorem ConsumesSome.trans {a b c : Rng} (h1 : ConsumesSome a b) (h2 : ConsumesSome b c) : ConsumesSome a c := by
  obtain ⟨m, hm⟩ := h1
  obtain ⟨n, hn⟩ := h2
  exact ⟨m + n, hm.trans hn⟩

/-- full(∀α): an exact count gives `ConsumesSome` -/
theorem Consumes.some {a b : Rng} {k : Nat} (h : Consumes a b k) : ConsumesSome a b := ⟨k, h⟩

/-- full(∀α): the tail loop of the normal ziggurat (`zero_case`): two `Open01` words per iteration -/
theorem zero_case_loop_consumes : ∀ (fuel : Nat) (x y : α) (r : Rng),
    match sample_std_normal.zero_case.loop (α := α) fuel x y r with
    | LoopR.ret v => ConsumesSome r v.2
    | LoopR.hang => True
    | LoopR.done s => ConsumesSome r s.2.2 := by
  intro fuel
  induction fuel with
  | zero => intro x y r; simp [sample_std_normal.zero_case.loop]
  | succ f ih =>
    intro x y r
    rw [sample_std_normal.zero_case.loop]
    split_ifs with hc
    · have h1 := (genOpen01_consumes (α := α) r).some
      have h2 := (genOpen01_consumes (α := α) (genOpen01 (α := α) r).2).some
      have h12 := h1.trans h2
      have := ih (RFun.ln (genOpen01 (α := α) r).1 / D.ziggurat_tables.ZIG_NORM_R)
        (RFun.ln (genOpen01 (α := α) (genOpen01 (α := α) r).2).1) (genOpen01 (α := α) (genOpen01 (α := α) r).2).2
      revert this
      simp only
      cases sample_std_normal.zero_case.loop (α := α) f
          (RFun.ln (genOpen01 (α := α) r).1 / D.ziggurat_tables.ZIG_NORM_R)
          (RFun.ln (genOpen01 (α := α) (genOpen01 (α := α) r).2).1)
          (genOpen01 (α := α) (genOpen01 (α := α) r).2).2 with
      | ret v => intro h; exact h12.trans h
      | hang => intro _; trivial
      | done s => intro h; exact h12.trans h
    · exact ConsumesSome.refl r

/-- full(∀α): the tail case of the normal ziggurat consumes a finite prefix of the stream -/
theorem zero_case_consumes (r : Rng) (u : α) : ConsumesSome r (sample_std_normal.zero_case (α := α) r u).2 := by
  unfold sample_std_normal.zero_case
  have := zero_case_loop_consumes (α := α) loopFuel (1.0 : α) (0.0 : α) r
  revert this
  simp only
  cases sample_std_normal.zero_case.loop (α := α) loopFuel (1.0 : α) (0.0 : α) r with
  | ret v => intro h; exact h
  | hang => intro _; exact ConsumesSome.refl r
  | done s =>
    obtain ⟨x, y, r'⟩ := s
    intro h
    simp only
    split_ifs <;> exact h

/-- full(∀α): the ziggurat rejection loop: every exit has consumed a finite prefix of the stream -/
theorem ziggurat_loop_consumes (symmetric : Bool) (x_tab f_tab : List α) (pdf : α → α)
    (zero_case : Rng → α → α × Rng) (hz : ∀ r u, ConsumesSome r (zero_case r u).2) : ∀ (fuel : Nat) (r : Rng),
    match ziggurat.loop (α := α) symmetric x_tab f_tab pdf zero_case fuel r with
    | LoopR.ret v => ConsumesSome r v.2
    | LoopR.hang => True
    | LoopR.done _ => True := by
  intro fuel
  induction fuel with
  | zero => intro r; simp [ziggurat.loop]
  | succ f ih =>
    intro r
    rw [ziggurat.loop]
    have h1 := (nextU64_consumes r).some
    simp only
    split_ifs <;>
    first
    | exact h1
    | exact h1.trans (hz _ _)
    | exact h1.trans (genF64_consumes (α := α) r.nextU64.2).some
    | (have h2 := h1.trans (genF64_consumes (α := α) r.nextU64.2).some
       have := ih (genF64 (α := α) r.nextU64.2).2
       revert this
       generalize ziggurat.loop (α := α) symmetric x_tab f_tab pdf zero_case f (genF64 (α := α) r.nextU64.2).2 = res
       cases res with
       | ret v => intro h; exact h2.trans h
       | hang => intro _; trivial
       | done s => intro _; trivial)

/-- full(∀α): `ziggurat` consumes a finite prefix of the stream (none when the fuel runs out) -/
theorem ziggurat_consumes (r : Rng) (symmetric : Bool) (x_tab f_tab : List α) (pdf : α → α)
    (zero_case : Rng → α → α × Rng) (hz : ∀ r u, ConsumesSome r (zero_case r u).2) :
    ConsumesSome r (ziggurat (α := α) r symmetric x_tab f_tab pdf zero_case).2 := by
  unfold ziggurat
  have := ziggurat_loop_consumes symmetric x_tab f_tab pdf zero_case hz loopFuel r
  revert this
  cases ziggurat.loop (α := α) symmetric x_tab f_tab pdf zero_case loopFuel r with
  | ret v => intro h; exact h
  | hang => intro _; exact ConsumesSome.refl r
  | done s => intro _; exact ConsumesSome.refl r

/-- full(∀α): `ziggurat::sample_std_normal` consumes a finite prefix of the word stream (how many words depends
    on the words: one per accepted rectangle, more on rejections and in the tail). -/
theorem sample_std_normal_consumes (r : Rng) : ConsumesSome r (sample_std_normal (α := α) r).2 :=
  ziggurat_consumes r true _ _ _ _ (zero_case_consumes (α := α))

/-- full(∀α): `normal::sample_unchecked(rng, mean, std_dev)` is `mean + std_dev * z` for ONE standard-normal
    ziggurat draw `z`; the stream afterwards does not depend on `mean`/`std_dev`. -/
theorem normal_sample_unchecked_eq (r : Rng) (mean std_dev : α) :
    normal_sample_unchecked (α := α) r mean std_dev
      = (mean + std_dev * (sample_std_normal (α := α) r).1, (sample_std_normal (α := α) r).2) := rfl

/-- full(∀α): `normal::sample_unchecked` consumes a finite prefix of the word stream -/
theorem normal_sample_unchecked_consumes (r : Rng) (mean std_dev : α) :
    ConsumesSome r (normal_sample_unchecked (α := α) r mean std_dev).2 :=
  sample_std_normal_consumes r

/-! ### `stdNormalVec`: `n` successive standard-normal draws -/

/-- the word stream after `k` calls of `normal::sample_unchecked(rng, 0.0, 1.0)` -/
def normalState (r : Rng) : Nat → Rng
  | 0 => r
  | k + 1 => (normal_sample_unchecked (α := α) (normalState r k) (0.0 : α) (1.0 : α)).2

/-- the `k`-th (0-based) standard-normal variate drawn from `r` -/
def normalDraw (r : Rng) (k : Nat) : α :=
  (normal_sample_unchecked (α := α) (normalState (α := α) r k) (0.0 : α) (1.0 : α)).1

/-- full(∀α): shifting the stream by one normal draw -/
theorem normalState_succ' (r : Rng) (k : Nat) :
    normalState (α := α) r (k + 1)
      = normalState (α := α) (normal_sample_unchecked (α := α) r (0.0 : α) (1.0 : α)).2 k := by
  induction k with
  | zero => rfl
  | succ k ih => rw [normalState, ih]; rfl

/-- full(∀α): shifting the draws by one -/
theorem normalDraw_succ' (r : Rng) (k : Nat) :
    normalDraw (α := α) r (k + 1)
      = normalDraw (α := α) (normal_sample_unchecked (α := α) r (0.0 : α) (1.0 : α)).2 k := by
  unfold normalDraw; rw [normalState_succ']

/-- full(∀α): unfolding one draw of `stdNormalVec` -/
theorem stdNormalVec_succ (n : Nat) (r : Rng) :
    stdNormalVec (α := α) (n + 1) r
      = ((normal_sample_unchecked (α := α) r (0.0 : α) (1.0 : α)).1 ::
          (stdNormalVec (α := α) n (normal_sample_unchecked (α := α) r (0.0 : α) (1.0 : α)).2).1,
         (stdNormalVec (α := α) n (normal_sample_unchecked (α := α) r (0.0 : α) (1.0 : α)).2).2) := rfl

/-- full(∀α): `OVector::from_distribution_generic(n, 1, &Normal(0,1), rng)` is exactly `n` successive
    `normal::sample_unchecked(rng, 0.0, 1.0)` calls, in index order, each from the stream left by the
    previous one; the stream returned is the one after the `n`-th call. -/
theorem stdNormalVec_eq (n : Nat) : ∀ r : Rng,
    stdNormalVec (α := α) n r
      = ((List.range n).map (fun k => normalDraw (α := α) r k), normalState (α := α) r n) := by
  induction n with
  | zero => intro r; rfl
  | succ n ih =>
    intro r
    rw [stdNormalVec_succ, ih, List.range_succ_eq_map, List.map_cons, List.map_map, normalState_succ']
    congr 2
    apply List.map_congr_left
    intro k _
    simp only [Function.comp, normalDraw_succ']

/-- full(∀α): it has `n` entries -/
theorem stdNormalVec_length (n : Nat) (r : Rng) : (stdNormalVec (α := α) n r).1.length = n := by
  rw [stdNormalVec_eq]; simp

/-- full(∀α): entry `i` is the `i`-th draw -/
theorem stdNormalVec_getElem (n : Nat) (r : Rng) (i : Nat) (hi : i < n) :
    (stdNormalVec (α := α) n r).1[i]'(by rw [stdNormalVec_length]; exact hi) = normalDraw (α := α) r i := by
  simp [stdNormalVec_eq]

/-- full(∀α): the words consumed by `stdNormalVec n` are the words of its `n` ziggurat draws, one after the other:
    there are counts `ks` (one per draw, `Consumes (state before draw i) (state after draw i) ks[i]`) and the whole
    call consumes `ks.sum` words. -/
theorem stdNormalVec_consumes (n : Nat) : ∀ r : Rng,
    ∃ ks : List Nat, ks.length = n ∧
      (∀ i (hi : i < ks.length), Consumes (normalState (α := α) r i) (normalState (α := α) r (i + 1)) ks[i]) ∧
      Consumes r (stdNormalVec (α := α) n r).2 ks.sum := by
  induction n with
  | zero => intro r; exact ⟨[], rfl, fun i hi => absurd hi (by simp), Consumes.zero r⟩
  | succ n ih =>
    intro r
    obtain ⟨k, hk⟩ := normal_sample_unchecked_consumes (α := α) r (0.0 : α) (1.0 : α)
    obtain ⟨ks, hlen, hks, hsum⟩ := ih (normal_sample_unchecked (α := α) r (0.0 : α) (1.0 : α)).2
    refine ⟨k :: ks, by simp [hlen], ?_, ?_⟩
    · intro i hi
      cases i with
      | zero => exact hk
      | succ j =>
        have := hks j (by simpa using hi)
        rw [normalState_succ', normalState_succ']
        simpa using this
    · rw [stdNormalVec_succ, List.sum_cons]
      exact hk.trans hsum

/-! ### `LA.matvec`, `vadd`: shapes -/

/-- full(∀α): the accumulated `gemv` columns keep the number of rows -/
theorem gemvCols_length (a : List (List α)) : ∀ (xs : List α) (j : Nat) (y : List α), y.length = a.length →
    (LA.gemvCols a j xs y).length = a.length := by
  intro xs
  induction xs with
  | nil => intro j y hy; simpa [LA.gemvCols] using hy
  | cons x xs ih =>
    intro j y hy
    rw [LA.gemvCols]
    apply ih
    simp [LA.col, hy]

/-- full(∀α): `&a * &x` has one entry per row of `a` -/
theorem matvec_length (a : List (List α)) (x : List α) : (LA.matvec a x).length = a.length := by
  cases x with
  | nil => simp [LA.matvec]
  | cons x0 xs =>
    rw [LA.matvec]
    apply gemvCols_length
    simp [LA.col]

/-- full(∀α): `a + &b` has the length of the shorter vector (nalgebra asserts equal shapes) -/
theorem vadd_length (x y : List α) : (vadd x y).length = min x.length y.length := by
  unfold vadd; simp

/-! ### `MultivariateNormal::sample` -/

/-- full(∀α): `MultivariateNormal::sample` draws `z` = `dim` standard normals in index order, then returns
    `(&cov_chol_decomp * z) + &mu`; the stream afterwards is the one left by the normals. -/
theorem mvn_sample_eq (d : MultivariateNormal α) (rng : Rng) :
    MultivariateNormal.sample d rng
      = (vadd (LA.matvec d.f_cov_chol_decomp (stdNormalVec (α := α) d.f_mu.length rng).1) d.f_mu,
         (stdNormalVec (α := α) d.f_mu.length rng).2) := rfl

/-- full(∀α): the sample has `dim` entries when the stored factor has `dim` rows (true of every constructed
    object: `mvn_new_chol_rows` in `VectorSamplersReal.lean`). -/
theorem mvn_sample_length (d : MultivariateNormal α) (hL : d.f_cov_chol_decomp.length = d.f_mu.length)
    (rng : Rng) : (MultivariateNormal.sample d rng).1.length = d.f_mu.length := by
  rw [mvn_sample_eq]; simp only [vadd_length, matvec_length, hL, min_self]

/-- full(∀α): the words consumed by `MultivariateNormal::sample` are those of its `dim` ziggurat draws. -/
theorem mvn_sample_consumes (d : MultivariateNormal α) (rng : Rng) :
    ∃ ks : List Nat, ks.length = d.f_mu.length ∧
      (∀ i (hi : i < ks.length), Consumes (normalState (α := α) rng i) (normalState (α := α) rng (i + 1)) ks[i]) ∧
      Consumes rng (MultivariateNormal.sample d rng).2 ks.sum :=
  stdNormalVec_consumes d.f_mu.length rng

/-! ### `MultivariateStudent::sample` -/

/-- full(∀α): `ChiSquared::new(ν)` is `Gamma::new(ν / 2.0, 0.5)` wrapped: when it succeeds the object is determined -/
theorem chiSquared_new_ok (ν : α) (s : ChiSquared α) (h : ChiSquared.new (α := α) ν = .ok s) :
    s = { f_freedom := ν, f_g := { f_shape := ν / (2.0 : α), f_rate := (0.5 : α) } } := by
  unfold ChiSquared.new Gamma.new at h
  split_ifs at h <;> simp [exceptMap] at h
  exact h.symm

/-- full(∀α): since 864abd5 — **`freedom = ±inf`** (`self.freedom.is_infinite()`): the mixing weight is the literal `1.0`,
    NO chi-squared variate is drawn (`ChiSquared::new` is not even called, so nothing can panic), the `dim` standard
    normals `z` are drawn from the ORIGINAL stream, and the result is `(1.0 * &scale_chol_decomp) * z + &location`
    (every entry of the factor multiplied by `1.0` on the right). -/
theorem mvt_sample_of_inf (d : MultivariateStudent α) (hinf : RFun.isInf d.f_freedom = true) (rng : Rng) :
    let zs := stdNormalVec (α := α) d.f_location.length rng
    MultivariateStudent.sample d rng
      = some (vadd (LA.matvec (d.f_scale_chol_decomp.map (fun r => r.map (fun e => e * (1.0 : α)))) zs.1) d.f_location,
              zs.2) := by
  intro zs
  unfold MultivariateStudent.sample
  rw [if_pos hinf]

/-- full(∀α): for `freedom = ±inf` the sampler never panics, whatever `ChiSquared::new(freedom)` would return. -/
theorem mvt_sample_of_inf_ne_none (d : MultivariateStudent α) (hinf : RFun.isInf d.f_freedom = true) (rng : Rng) :
    MultivariateStudent.sample d rng ≠ none := by
  have := mvt_sample_of_inf d hinf rng
  simp only at this
  rw [this]; exact Option.some_ne_none _

/-- full(∀α): on a carrier where multiplying the stored entries by the literal `1.0` returns them unchanged
    (`e * 1.0 = e`: `ring` over ℝ, `xr_mul_one_lit` on the exact-value carrier `XR`; for IEEE `Float` only up to `==`
    and for non-NaN `e`, see `mvt_sample_of_inf_sim` below), the `freedom = ±inf` sample is the
    MultivariateNormal-style affine image `(&scale_chol_decomp * z) + &location` of the `dim` standard normals drawn
    from the original stream. -/
theorem mvt_sample_of_inf_eq_affine (d : MultivariateStudent α) (hinf : RFun.isInf d.f_freedom = true)
    (hmul : ∀ r ∈ d.f_scale_chol_decomp, ∀ e ∈ r, e * (1.0 : α) = e) (rng : Rng) :
    let zs := stdNormalVec (α := α) d.f_location.length rng
    MultivariateStudent.sample d rng
      = some (vadd (LA.matvec d.f_scale_chol_decomp zs.1) d.f_location, zs.2) := by
  intro zs
  have hid : d.f_scale_chol_decomp.map (fun r => r.map (fun e => e * (1.0 : α))) = d.f_scale_chol_decomp := by
    conv_rhs => rw [← List.map_id d.f_scale_chol_decomp]
    apply List.map_congr_left
    intro r hr
    conv_rhs => rw [id, ← List.map_id r]
    apply List.map_congr_left
    intro e he
    exact hmul r hr e he
  have := mvt_sample_of_inf d hinf rng
  simp only at this
  rw [this, hid]

/-- full(∀α): … i.e. it IS `MultivariateNormal::sample` (same values, same stream afterwards) of any
    `MultivariateNormal` whose `mu` is the location and whose stored Cholesky factor is the stored scale factor. -/
theorem mvt_sample_of_inf_eq_mvn (d : MultivariateStudent α) (hinf : RFun.isInf d.f_freedom = true)
    (hmul : ∀ r ∈ d.f_scale_chol_decomp, ∀ e ∈ r, e * (1.0 : α) = e)
    (m : MultivariateNormal α) (hmu : m.f_mu = d.f_location) (hch : m.f_cov_chol_decomp = d.f_scale_chol_decomp)
    (rng : Rng) :
    MultivariateStudent.sample d rng = some (MultivariateNormal.sample m rng) := by
  have := mvt_sample_of_inf_eq_affine d hinf hmul rng
  simp only at this
  rw [this, mvn_sample_eq, hmu, hch]

/-- full(∀α): `MultivariateStudent::sample` panics (`ChiSquared::new(freedom).unwrap()`) exactly when `freedom` is NOT
    infinite and `ChiSquared::new(freedom)` returns an error (complete characterisation, no hypothesis). -/
theorem mvt_sample_eq_none_iff_all (d : MultivariateStudent α) (rng : Rng) :
    MultivariateStudent.sample d rng = none ↔
      RFun.isInf d.f_freedom = false ∧ ∃ e, ChiSquared.new (α := α) d.f_freedom = .error e := by
  unfold MultivariateStudent.sample
  cases hinf : RFun.isInf d.f_freedom with
  | true => simp
  | false =>
    cases h : ChiSquared.new (α := α) d.f_freedom with
    | error e => simp
    | ok s => simp

/-- full(∀α): for a non-infinite `freedom`, `MultivariateStudent::sample` panics
    (`ChiSquared::new(freedom).unwrap()`) exactly when `ChiSquared::new(freedom)` returns an error. -/
theorem mvt_sample_eq_none_iff (d : MultivariateStudent α) (hfin : RFun.isInf d.f_freedom = false) (rng : Rng) :
    MultivariateStudent.sample d rng = none ↔ ∃ e, ChiSquared.new (α := α) d.f_freedom = .error e := by
  rw [mvt_sample_eq_none_iff_all, hfin]
  simp

/-- full(∀α): for a non-infinite `freedom` for which `ChiSquared::new(ν)` succeeds, the sampler FIRST draws the
    chi-squared variate `c = gamma::sample_unchecked(rng, ν / 2.0, 0.5)`, sets `w = sqrt(ν / c)`, THEN draws the `dim`
    standard normals `z` from the stream left by the gamma draw, and returns
    `(w * &scale_chol_decomp) * z + &location` (every entry of the factor multiplied by `w` on the right). -/
theorem mvt_sample_of_ok (d : MultivariateStudent α) (hfin : RFun.isInf d.f_freedom = false) (s : ChiSquared α)
    (h : ChiSquared.new (α := α) d.f_freedom = .ok s) (rng : Rng) :
    let g := gamma_sample_unchecked (α := α) rng (d.f_freedom / (2.0 : α)) (0.5 : α)
    let w := RFun.sqrt (d.f_freedom / g.1)
    let zs := stdNormalVec (α := α) d.f_location.length g.2
    MultivariateStudent.sample d rng
      = some (vadd (LA.matvec (d.f_scale_chol_decomp.map (fun r => r.map (fun e => e * w))) zs.1) d.f_location,
              zs.2) := by
  intro g w zs
  have hs := chiSquared_new_ok _ s h
  unfold MultivariateStudent.sample
  rw [if_neg (by rw [hfin]; exact Bool.false_ne_true), h]
  simp only [ChiSquared.sample_f64, Gamma.sample_f64, hs]
  rfl

/-- full(∀α): a successful sample has `dim` entries when the stored factor has `dim` rows (both for infinite and for
    non-infinite `freedom`). -/
theorem mvt_sample_length (d : MultivariateStudent α) (hL : d.f_scale_chol_decomp.length = d.f_location.length)
    (rng : Rng) (v : List α × Rng) (h : MultivariateStudent.sample d rng = some v) :
    v.1.length = d.f_location.length := by
  cases hinf : RFun.isInf d.f_freedom with
  | true =>
    have := mvt_sample_of_inf d hinf rng
    simp only at this
    rw [this] at h
    rw [← Option.some.inj h]
    simp only [vadd_length, matvec_length, List.length_map, hL, min_self]
  | false =>
    unfold MultivariateStudent.sample at h
    rw [if_neg (by rw [hinf]; exact Bool.false_ne_true)] at h
    cases hn : ChiSquared.new (α := α) d.f_freedom with
    | error e => rw [hn] at h; cases h
    | ok s =>
      rw [hn] at h
      rw [← Option.some.inj h]
      simp only [vadd_length, matvec_length, List.length_map, hL, min_self]

/-- full(∀α): words consumed by a successful `MultivariateStudent::sample` with non-infinite `freedom`: those of the
    gamma draw, then those of the `dim` ziggurat draws. -/
theorem mvt_sample_consumes (d : MultivariateStudent α) (hfin : RFun.isInf d.f_freedom = false) (s : ChiSquared α)
    (h : ChiSquared.new (α := α) d.f_freedom = .ok s) (rng : Rng) (v : List α × Rng)
    (hv : MultivariateStudent.sample d rng = some v) :
    let g := gamma_sample_unchecked (α := α) rng (d.f_freedom / (2.0 : α)) (0.5 : α)
    ∃ ks : List Nat, ks.length = d.f_location.length ∧
      (∀ i (hi : i < ks.length), Consumes (normalState (α := α) g.2 i) (normalState (α := α) g.2 (i + 1)) ks[i]) ∧
      Consumes g.2 v.2 ks.sum := by
  intro g
  have := mvt_sample_of_ok d hfin s h rng
  simp only at this
  rw [this] at hv
  obtain ⟨ks, h1, h2, h3⟩ := stdNormalVec_consumes (α := α) d.f_location.length g.2
  refine ⟨ks, h1, h2, ?_⟩
  rw [← Option.some.inj hv]
  exact h3

/-- full(∀α): words consumed by `MultivariateStudent::sample` with `freedom = ±inf`: exactly those of the `dim`
    ziggurat draws, counted from the ORIGINAL stream (no gamma draw) — the same words as `MultivariateNormal::sample`
    (`mvn_sample_consumes`). -/
theorem mvt_sample_consumes_of_inf (d : MultivariateStudent α) (hinf : RFun.isInf d.f_freedom = true) (rng : Rng) :
    ∃ v, MultivariateStudent.sample d rng = some v ∧
    ∃ ks : List Nat, ks.length = d.f_location.length ∧
      (∀ i (hi : i < ks.length), Consumes (normalState (α := α) rng i) (normalState (α := α) rng (i + 1)) ks[i]) ∧
      Consumes rng v.2 ks.sum := by
  have := mvt_sample_of_inf d hinf rng
  simp only at this
  exact ⟨_, this, stdNormalVec_consumes (α := α) d.f_location.length rng⟩

/-! ### `freedom = ±inf` on a floating-point carrier: `(1.0·L)·z + location ≈ L·z + location`

  On IEEE `Float` the law `e * 1.0 = e` holds only up to IEEE equality `==` and only for non-NaN `e`
  (`Statrs.Spec.ExactLaws.mul_one`).  The relation that survives the `gemv` is "IEEE-equal, or both NaN" (`Sim`): it is
  respected by `+` and `*` on every carrier satisfying the order / exactness / NaN laws of `Statrs/Spec/FloatLaws.lean`
  (all proved for `Float`, `Props/Common/FloatLawsFloat_*.lean`). -/

/-- "the same IEEE value": IEEE-equal (`==`: equal non-NaN values, `-0.0 == 0.0`), or both NaN -/
def Sim (a b : α) : Prop := (a == b) = true ∨ (RFun.isNaN a = true ∧ RFun.isNaN b = true)

section laws
open Statrs.Spec
variable (O : OrderLaws α) (E : ExactLaws α) (N : NaNLaws α)
include O

/-- rel(OrderLaws): `Sim` is reflexive -/
theorem Sim.refl (a : α) : Sim a a := by
  cases h : RFun.isNaN a with
  | true => exact Or.inr ⟨h, h⟩
  | false => exact Or.inl ((O.beq_iff a a).2 ⟨O.le_refl a h, O.le_refl a h⟩)

/-- rel(OrderLaws): IEEE equality is symmetric -/
theorem beq_symm_of_laws {a b : α} (h : (a == b) = true) : (b == a) = true :=
  (O.beq_iff b a).2 ((O.beq_iff a b).1 h).symm

/-- rel(OrderLaws): IEEE-equal values are not NaN -/
theorem nn_of_beq {a b : α} (h : (a == b) = true) : NN a ∧ NN b :=
  ⟨O.le_nn_left a b ((O.beq_iff a b).1 h).1, O.le_nn_right a b ((O.beq_iff a b).1 h).1⟩

/-- rel(OrderLaws): `Sim` is symmetric -/
theorem Sim.symm {a b : α} (h : Sim a b) : Sim b a := by
  rcases h with h | ⟨h1, h2⟩
  · exact Or.inl (beq_symm_of_laws O h)
  · exact Or.inr ⟨h2, h1⟩

include E N

/-- rel(OrderLaws, ExactLaws, NaNLaws): `e * 1.0` is the same IEEE value as `e`, for EVERY `e` (NaN included) -/
theorem Sim.mul_one (e : α) : Sim (e * (1.0 : α)) e := by
  cases h : RFun.isNaN e with
  | true => exact Or.inr ⟨N.nan_mul e _ (Or.inl h), h⟩
  | false => exact Or.inl (E.mul_one e h)

/-- rel(OrderLaws, ExactLaws, NaNLaws): multiplication respects `Sim` -/
theorem Sim.mul {a a' b b' : α} (ha : Sim a a') (hb : Sim b b') : Sim (a * b) (a' * b') := by
  rcases ha with ha | ⟨ha, ha'⟩
  · rcases hb with hb | ⟨hb, hb'⟩
    · cases h : RFun.isNaN (a * b) with
      | false => exact Or.inl (E.mul_congr a a' b b' ha hb h)
      | true =>
        refine Or.inr ⟨h, ?_⟩
        cases h' : RFun.isNaN (a' * b') with
        | true => rfl
        | false =>
          have := E.mul_congr a' a b' b (beq_symm_of_laws O ha) (beq_symm_of_laws O hb) h'
          have := (nn_of_beq O this).2
          exact absurd (h.symm.trans this) (by decide)
    · exact Or.inr ⟨N.nan_mul a b (Or.inr hb), N.nan_mul a' b' (Or.inr hb')⟩
  · exact Or.inr ⟨N.nan_mul a b (Or.inl ha), N.nan_mul a' b' (Or.inl ha')⟩

/-- rel(OrderLaws, ExactLaws, NaNLaws): addition respects `Sim` -/
theorem Sim.add {a a' b b' : α} (ha : Sim a a') (hb : Sim b b') : Sim (a + b) (a' + b') := by
  rcases ha with ha | ⟨ha, ha'⟩
  · rcases hb with hb | ⟨hb, hb'⟩
    · cases h : RFun.isNaN (a + b) with
      | false => exact Or.inl (E.add_congr a a' b b' ha hb h)
      | true =>
        refine Or.inr ⟨h, ?_⟩
        cases h' : RFun.isNaN (a' + b') with
        | true => rfl
        | false =>
          have := E.add_congr a' a b' b (beq_symm_of_laws O ha) (beq_symm_of_laws O hb) h'
          have := (nn_of_beq O this).2
          exact absurd (h.symm.trans this) (by decide)
    · exact Or.inr ⟨N.nan_add a b (Or.inr hb), N.nan_add a' b' (Or.inr hb')⟩
  · exact Or.inr ⟨N.nan_add a b (Or.inl ha), N.nan_add a' b' (Or.inl ha')⟩

omit O E N in
/-- full: `zipWith` of related lists by related-preserving functions -/
theorem forall₂_zipWith {β γ δ : Type} {R : β → β → Prop} {S : γ → γ → Prop} {T : δ → δ → Prop} {f g : β → γ → δ}
    (hfg : ∀ a a' b b', R a a' → S b b' → T (f a b) (g a' b')) :
    ∀ {l l' : List β} {m m' : List γ}, List.Forall₂ R l l' → List.Forall₂ S m m' →
      List.Forall₂ T (List.zipWith f l m) (List.zipWith g l' m') := by
  intro l l' m m' h1
  induction h1 generalizing m m' with
  | nil => intro _; simp
  | cons hab _ ih =>
    intro h2
    cases h2 with
    | nil => simp
    | cons hcd h2' => simp only [List.zipWith_cons_cons]; exact List.Forall₂.cons (hfg _ _ _ _ hab hcd) (ih h2')

omit O E N in
/-- full: `map` of related lists by related-preserving functions -/
theorem forall₂_map {β δ : Type} {R : β → β → Prop} {T : δ → δ → Prop} {f g : β → δ}
    (hfg : ∀ a a', R a a' → T (f a) (g a')) :
    ∀ {l l' : List β}, List.Forall₂ R l l' → List.Forall₂ T (l.map f) (l'.map g) := by
  intro l l' h1
  induction h1 with
  | nil => simp
  | cons hab _ ih => simp only [List.map_cons]; exact List.Forall₂.cons (hfg _ _ hab) ih

omit E N in
/-- rel(OrderLaws): entry `j` of related rows (both `default` when `j` is out of range) -/
theorem sim_getD {r r' : List α} (h : List.Forall₂ Sim r r') (j : Nat) : Sim (r.getD j default) (r'.getD j default) := by
  induction h generalizing j with
  | nil => simpa using Sim.refl O (default : α)
  | cons hab _ ih =>
    cases j with
    | zero => simpa using hab
    | succ j => simpa using ih j

omit E N in
/-- rel(OrderLaws): columns of entry-wise related matrices are related -/
theorem sim_col {a a' : List (List α)} (h : List.Forall₂ (List.Forall₂ Sim) a a') (j : Nat) :
    List.Forall₂ Sim (LA.col a j) (LA.col a' j) := by
  unfold LA.col
  exact forall₂_map (R := List.Forall₂ Sim) (T := Sim) (fun r r' hr => sim_getD O hr j) h

/-- rel(OrderLaws, ExactLaws, NaNLaws): the accumulated `gemv` columns of entry-wise related matrices are related -/
theorem sim_gemvCols {a a' : List (List α)} (h : List.Forall₂ (List.Forall₂ Sim) a a') :
    ∀ (xs : List α) (j : Nat) {y y' : List α}, List.Forall₂ Sim y y' →
      List.Forall₂ Sim (LA.gemvCols a j xs y) (LA.gemvCols a' j xs y') := by
  intro xs
  induction xs with
  | nil => intro j y y' hy; simpa [LA.gemvCols] using hy
  | cons x xs ih =>
    intro j y y' hy
    rw [LA.gemvCols, LA.gemvCols]
    apply ih
    refine forall₂_zipWith (R := Sim) (S := Sim) (T := Sim) ?_ (sim_col O h j) hy
    intro e e' u u' he hu
    exact Sim.add O E N (Sim.mul O E N (Sim.mul O E N (Sim.refl O _) he) (Sim.refl O _))
      (Sim.mul O E N (Sim.refl O _) hu)

/-- rel(OrderLaws, ExactLaws, NaNLaws): `&a * &x` of entry-wise related matrices (same `x`) are entry-wise related -/
theorem sim_matvec {a a' : List (List α)} (h : List.Forall₂ (List.Forall₂ Sim) a a') (x : List α) :
    List.Forall₂ Sim (LA.matvec a x) (LA.matvec a' x) := by
  cases x with
  | nil =>
    simp only [LA.matvec]
    exact forall₂_map (R := List.Forall₂ Sim) (fun _ _ _ => Sim.refl O _) h
  | cons x0 xs =>
    simp only [LA.matvec]
    apply sim_gemvCols O E N h
    exact forall₂_map (R := Sim) (fun e e' he => Sim.mul O E N (Sim.mul O E N (Sim.refl O _) he) (Sim.refl O _))
      (sim_col O h 0)

/-- rel(OrderLaws, ExactLaws, NaNLaws): `1.0 * &m` (every entry `e * 1.0`) is entry-wise the same IEEE matrix as `m` -/
theorem sim_scale_one (m : List (List α)) :
    List.Forall₂ (List.Forall₂ Sim) (m.map (fun r => r.map (fun e => e * (1.0 : α)))) m := by
  induction m with
  | nil => simp
  | cons r m ih =>
    simp only [List.map_cons]
    refine List.Forall₂.cons ?_ ih
    induction r with
    | nil => simp
    | cons e r ihr => simp only [List.map_cons]; exact List.Forall₂.cons (Sim.mul_one O E N e) ihr

/-- rel(OrderLaws, ExactLaws, NaNLaws): **`freedom = ±inf` on a floating-point carrier.**  On every carrier satisfying
    the order / exactness / NaN laws of IEEE arithmetic (`Float`: `mvt_sample_of_inf_float`), the sample of a
    `MultivariateStudent` with infinite `freedom` is — entry by entry, up to IEEE equality, NaN entries matching NaN
    entries — the MultivariateNormal-style affine image `(&scale_chol_decomp * z) + &location`, with `z` the `dim`
    standard normals drawn from the ORIGINAL stream; the stream afterwards is the one left by those normals.  No
    hypothesis on the entries (NaN and ±inf entries included). -/
theorem mvt_sample_of_inf_sim (d : MultivariateStudent α) (hinf : RFun.isInf d.f_freedom = true) (rng : Rng) :
    let zs := stdNormalVec (α := α) d.f_location.length rng
    ∃ v, MultivariateStudent.sample d rng = some v ∧ v.2 = zs.2 ∧
      List.Forall₂ Sim v.1 (vadd (LA.matvec d.f_scale_chol_decomp zs.1) d.f_location) := by
  intro zs
  have := mvt_sample_of_inf d hinf rng
  simp only at this
  refine ⟨_, this, rfl, ?_⟩
  unfold vadd
  refine forall₂_zipWith (R := Sim) (S := Sim) (T := Sim) (fun a a' b b' ha hb => Sim.add O E N ha hb)
    (sim_matvec O E N (sim_scale_one O E N _) _) ?_
  exact List.forall₂_same.2 (fun x _ => Sim.refl O x)

/-- rel(OrderLaws, ExactLaws, NaNLaws): … i.e. it is `MultivariateNormal::sample` of any `MultivariateNormal` whose `mu`
    is the location and whose stored Cholesky factor is the stored scale factor: same stream afterwards, entries the
    same IEEE values. -/
theorem mvt_sample_of_inf_sim_mvn (d : MultivariateStudent α) (hinf : RFun.isInf d.f_freedom = true)
    (m : MultivariateNormal α) (hmu : m.f_mu = d.f_location) (hch : m.f_cov_chol_decomp = d.f_scale_chol_decomp)
    (rng : Rng) :
    ∃ v, MultivariateStudent.sample d rng = some v ∧ v.2 = (MultivariateNormal.sample m rng).2 ∧
      List.Forall₂ Sim v.1 (MultivariateNormal.sample m rng).1 := by
  have := mvt_sample_of_inf_sim O E N d hinf rng
  simp only at this
  rw [mvn_sample_eq, hmu, hch]
  exact this

end laws

/-! ### `Empirical::sample` -/

/-- full(∀α): `Empirical::sample` is `__inverse_cdf` of one `Uniform::new(0.0, 1.0).unwrap().sample(rng)` draw. -/
theorem empirical_sample_eq [RngFloat α] (e : Empirical α) (rng : Rng) :
    Empirical.sample e rng
      = (Empirical.inverse_cdf e (Model.Uniform.sample_f64 (α := α) ⟨(0.0 : α), (1.0 : α)⟩ rng).1,
         (Model.Uniform.sample_f64 (α := α) ⟨(0.0 : α), (1.0 : α)⟩ rng).2) := rfl

/-- full(∀α): `Uniform::sample` consumes one word, or none when rand's `Uniform::new_inclusive` panics -/
theorem uniform_sample_consumes_any [RngFloat α] (u : Uniform α) (rng : Rng) :
    Consumes rng (Model.Uniform.sample_f64 (α := α) u rng).2 0 ∨
    Consumes rng (Model.Uniform.sample_f64 (α := α) u rng).2 1 := by
  unfold Model.Uniform.sample_f64
  cases uniformNewInclusive (α := α) u.f_min u.f_max with
  | none => exact Or.inl (Consumes.zero rng)
  | some d => exact Or.inr (nextU64_consumes rng)

/-- full(∀α): `Empirical::sample` consumes the words of that one uniform draw: at most one. -/
theorem empirical_sample_consumes_any [RngFloat α] (e : Empirical α) (rng : Rng) :
    Consumes rng (Empirical.sample e rng).2 0 ∨ Consumes rng (Empirical.sample e rng).2 1 :=
  uniform_sample_consumes_any _ rng

end generic

end Statrs.Props.C06
