/-
  C06 — the vector samplers over ℝ, second part (hand models `Statrs/Model/VecSamplers.lean`):

    * constructed `MultivariateNormal`: `mvn_new_chol_rows` (the stored factor has `dim` rows), `mvn_new_sample_length`,
      `mvn_new_sample_mean_cov` — fed with any mean-0 / identity-covariance `Z`, the sampler's output has mean `μ` and
      covariance `Σ` (the constructor's `cov`): `L Lᵀ = Σ` by `Props/C19/MVNCholesky.mvn_new_chol_decomp`;
    * `MultivariateStudent::sample` over ℝ: `chiSquared_new_real`, `mvt_sample_eq_none_iff_real` (`none ⇔ freedom ≤ 0`),
      `mvt_new_sample_isSome` (never on a constructed object), `mvt_sample_toVec` (`x = location + w·(L z)`,
      `w = √(ν / c)`, `c` the chi-squared draw made first, `z` drawn from the stream after it) — over ℝ no `freedom`
      is infinite, so the `is_infinite()` branch added by 864abd5 is never taken there;
    * that branch (`freedom = ±inf`, weight `1.0`, no chi-squared draw) on the carriers that have infinities:
      `xr_mul_one_lit`, `mvt_sample_of_inf_xr`, `mvt_sample_of_inf_xr_eq_mvn` (exact-value carrier `XR`: the sample IS
      `MultivariateNormal::sample` of the object with the same location and factor), `mvt_sample_of_inf_float`,
      `mvt_sample_of_inf_float_mvn` (IEEE `Float`: same stream, entries IEEE-equal or both NaN);
    * `multinomial_sample_f64_eq` (`Multinomial::sample` as `OVector<f64>` is `ofInt ∘` the `u64` sampler, same
      stream), `multinomial_sample_f64_spec` (one entry per category, every entry a non-negative integer, entries sum
      to `n`, `n` words consumed);
    * `empirical_sample_cons` (`Empirical::sample` = `__inverse_cdf(u)`, `u = ⌊w/4096⌋·2⁻⁵² / (1 − 2⁻⁵²) ∈ [0,1]` from ONE
      word `w`), `empirical_sample_consumes`, `empirical_sample_bound` (the drawn value is within the bisection bound
      of a held value).
-/
import Statrs.Props.C06.VectorSamplersReal
import Statrs.Props.C05.EmpiricalQuantile
import Statrs.Spec.XR
import Statrs.Props.Common.FloatLawsFloat_OfInt
set_option linter.unusedVariables false
set_option linter.unusedSectionVars false
namespace Statrs.Props.C06
open Statrs Statrs.Gen Statrs.Model Statrs.Lemmas.Multivariate Statrs.Lemmas.Sampling
open Statrs.Spec hiding Fin  -- `Statrs.Spec.Fin` ("finite float", Spec/FloatLaws.lean) would shadow `_root_.Fin`
open MeasureTheory ProbabilityTheory Matrix

/-! ### constructed `MultivariateNormal` -/

/-- full(ℝ): `Cholesky::unpack` keeps the number of rows -/
theorem choleskyUnpack_length (l : List (List ℝ)) : (LA.choleskyUnpack l).length = l.length := by
  simp [LA.choleskyUnpack]

/-- full(ℝ): on every constructed object `mu` is the constructor's mean and the stored Cholesky factor has
    `dim` rows. -/
theorem mvn_new_chol_rows (mean : List ℝ) (cov : List (List ℝ)) (d : MultivariateNormal ℝ)
    (h : MultivariateNormal.new_from_nalgebra mean cov = .ok d) :
    d.f_mu = mean ∧ d.f_cov_chol_decomp.length = d.f_mu.length := by
  obtain ⟨h1, _, _, h4, h5, _, _, L, hL, _, hU⟩ := Statrs.Props.C19.mvn_new_fields mean cov d h
  refine ⟨h1, ?_⟩
  have := Statrs.Props.C09.choleskyNew_packed (n := cov.length) rfl (Statrs.Props.C09.rows_of_isSquare h5) hL
  rw [hU, choleskyUnpack_length, this.1, h1, h4]

/-- full(ℝ): every sample of a constructed object has `dim` entries. -/
theorem mvn_new_sample_length (mean : List ℝ) (cov : List (List ℝ)) (d : MultivariateNormal ℝ)
    (h : MultivariateNormal.new_from_nalgebra mean cov = .ok d) (rng : Rng) :
    (MultivariateNormal.sample d rng).1.length = mean.length := by
  obtain ⟨h1, h2⟩ := mvn_new_chol_rows mean cov d h
  rw [mvn_sample_length d h2 rng, h1]

section expectation
variable {Ω : Type*} [MeasurableSpace Ω] (P : Measure Ω) [IsProbabilityMeasure P]

/-- full(ℝ): **the sampler of a constructed `MultivariateNormal(mean, cov)` has mean `mean` and covariance `cov`**
    whenever the vector fed to its deterministic part (`mvnMap`, i.e. `(&cov_chol_decomp * z) + &mu`) has mean `0` and
    identity covariance — in particular for i.i.d. standard normals.  (`L Lᵀ = Σ` from the Cholesky theorems of
    C09/C19; what is NOT proved is that the ziggurat draws are standard normal.) -/
theorem mvn_new_sample_mean_cov (mean : List ℝ) (cov : List (List ℝ)) (d : MultivariateNormal ℝ)
    (h : MultivariateNormal.new_from_nalgebra mean cov = .ok d)
    (Z : Ω → Fin d.f_mu.length → ℝ)
    (hint : ∀ i, Integrable (fun ω => Z ω i) P) (hint2 : ∀ i j, Integrable (fun ω => Z ω i * Z ω j) P)
    (hmean : ∀ i, ∫ ω, Z ω i ∂P = 0)
    (hcov : ∀ i j, ∫ ω, Z ω i * Z ω j ∂P = if i = j then 1 else 0) :
    let X : Ω → Fin d.f_mu.length → ℝ := fun ω => toVec d.f_mu.length (mvnMap d (List.ofFn (Z ω)))
    (∀ i, ∫ ω, X ω i ∂P = mean.getD i 0) ∧
    (∀ i j, cov[fun ω => X ω i, fun ω => X ω j; P] = toMatrix d.f_mu.length cov i j) := by
  intro X
  obtain ⟨h1, h2⟩ := mvn_new_chol_rows mean cov d h
  subst h1
  obtain ⟨_, _, hLL⟩ := Statrs.Props.C19.mvn_new_chol_decomp d.f_mu cov d h
  obtain ⟨m1, m2⟩ := mvn_sample_mean_cov P d h2 Z hint hint2 hmean hcov
  refine ⟨m1, fun i j => ?_⟩
  rw [m2 i j, hLL]

end expectation

/-- non-vacuity: a constructed `MultivariateNormal` (so `mvn_new_*` apply), and the shape hypothesis `hL` of
    `mvn_sample_toVec`/`mvn_sample_mean_cov` holds for it -/
example : ∃ d : MultivariateNormal ℝ, MultivariateNormal.new_from_nalgebra [0] [[1 * 1]] = .ok d ∧
    d.f_cov_chol_decomp.length = d.f_mu.length :=
  ⟨_, Statrs.Props.C19.mvn_one_dim_new 0 1 one_pos,
    (mvn_new_chol_rows _ _ _ (Statrs.Props.C19.mvn_one_dim_new 0 1 one_pos)).2⟩

/-! ### `MultivariateStudent::sample` over ℝ -/

/-- full(ℝ): over ℝ `ChiSquared::new(ν)` fails exactly for `ν ≤ 0` -/
theorem chiSquared_new_real (ν : ℝ) :
    ChiSquared.new (α := ℝ) ν =
      if ν ≤ 0 then .error GammaError.ShapeInvalid
      else .ok { f_freedom := ν, f_g := { f_shape := ν / (2.0 : ℝ), f_rate := (0.5 : ℝ) } } := by
  unfold ChiSquared.new Gamma.new
  simp only [rfun_isNaN, rfun_isInf, Bool.false_eq_true, false_or, false_and, if_false]
  have h1 : ν / (2.0 : ℝ) ≤ (0.0 : ℝ) ↔ ν ≤ 0 := by
    rw [show (2.0 : ℝ) = 2 by norm_num, show (0.0 : ℝ) = 0 by norm_num]
    constructor <;> intro h <;> linarith
  have h2 : ¬ ((0.5 : ℝ) ≤ (0.0 : ℝ)) := by norm_num
  by_cases hν : ν ≤ 0
  · rw [if_pos (h1.2 hν), if_pos hν]; rfl
  · rw [if_neg (fun hc => hν (h1.1 hc)), if_neg h2, if_neg hν]; rfl

/-- full(ℝ): `MultivariateStudent::sample` panics exactly when `freedom ≤ 0`. -/
theorem mvt_sample_eq_none_iff_real (d : MultivariateStudent ℝ) (rng : Rng) :
    MultivariateStudent.sample d rng = none ↔ d.f_freedom ≤ 0 := by
  rw [mvt_sample_eq_none_iff d rfl, chiSquared_new_real]
  split_ifs with h <;> simp [h]

section student
variable [SF ℝ]

/-- full(ℝ): on a constructed `MultivariateStudent` the location is the constructor's, the stored factor has `dim`
    rows, `freedom > 0`; hence `sample` never panics. -/
theorem mvt_new_sample_isSome (loc : List ℝ) (scale : List (List ℝ)) (ν : ℝ) (d : MultivariateStudent ℝ)
    (h : MultivariateStudent.new_from_nalgebra loc scale ν = .ok d) (rng : Rng) :
    d.f_location = loc ∧ d.f_scale_chol_decomp.length = d.f_location.length ∧ 0 < d.f_freedom ∧
    ∃ v, MultivariateStudent.sample d rng = some v ∧ v.1.length = loc.length := by
  obtain ⟨h1, _, h3, h4, h5, _, _, _, hν, _, L, hL, _, hU⟩ := Statrs.Props.C19.mvt_new_fields loc scale ν d h
  have hpos : 0 < d.f_freedom := by
    rw [h3]; rw [show (0.0 : ℝ) = 0 by norm_num] at hν; exact not_le.mp hν
  have hrows : d.f_scale_chol_decomp.length = d.f_location.length := by
    have := Statrs.Props.C09.choleskyNew_packed (n := scale.length) rfl (Statrs.Props.C09.rows_of_isSquare h5) hL
    rw [hU, choleskyUnpack_length, this.1, h1, h4]
  refine ⟨h1, hrows, hpos, ?_⟩
  cases hs : MultivariateStudent.sample d rng with
  | none => exact absurd ((mvt_sample_eq_none_iff_real d rng).1 hs) (not_le.mpr hpos)
  | some v => exact ⟨v, rfl, by rw [mvt_sample_length d hrows rng v hs, h1]⟩

end student

section student
variable [SF ℝ]
/-- non-vacuity: a constructed `MultivariateStudent` -/
example : ∃ d : MultivariateStudent ℝ, MultivariateStudent.new_from_nalgebra [0] [[1 * 1]] 3 = .ok d :=
  ⟨_, Statrs.Props.C19.mvt_one_dim_new 0 1 3 one_pos (by norm_num)⟩
end student

/-- full(ℝ): for `freedom > 0` and a factor with `dim` rows: the sample is `location + w·(L z)` as vectors, where
    `c` is the chi-squared (`Gamma(ν/2, 1/2)`) variate drawn FIRST, `w = √(ν / c)`, and `z` are the `dim`
    standard-normal draws taken from the stream left by the gamma draw. -/
theorem mvt_sample_toVec (d : MultivariateStudent ℝ) (hν : 0 < d.f_freedom)
    (hL : d.f_scale_chol_decomp.length = d.f_location.length) (rng : Rng) :
    let g := gamma_sample_unchecked (α := ℝ) rng (d.f_freedom / 2) (1 / 2)
    let w := Real.sqrt (d.f_freedom / g.1)
    let zs := stdNormalVec (α := ℝ) d.f_location.length g.2
    ∃ v, MultivariateStudent.sample d rng = some v ∧ v.2 = zs.2 ∧
      toVec d.f_location.length v.1
        = toVec d.f_location.length d.f_location +
          w • (toMatrix d.f_location.length d.f_scale_chol_decomp).mulVec (toVec d.f_location.length zs.1) := by
  intro g w zs
  have hnew := chiSquared_new_real d.f_freedom
  rw [if_neg (not_le.mpr hν)] at hnew
  have := mvt_sample_of_ok d rfl _ hnew rng
  simp only [rfun_sqrt] at this
  rw [show (2.0 : ℝ) = 2 by norm_num, show (0.5 : ℝ) = 1 / 2 by norm_num] at this
  refine ⟨_, this, rfl, ?_⟩
  simp only
  rw [toVec_vadd _ _ _ (by rw [matvec_length, List.length_map, hL]),
    toVec_matvec _ _ _ (stdNormalVec_length _ _), toMatrix_scale, Matrix.smul_mulVec, add_comm]

/-! ### `MultivariateStudent::sample` with `freedom = ±inf` (since 864abd5): the multivariate normal limit

  Over ℝ there is no infinite `freedom` (`RFun.isInf = false`: the theorems above are unchanged).  The new branch is
  stated for every carrier in `VectorSamplers.lean` (`mvt_sample_of_inf`, `mvt_sample_of_inf_eq_mvn`,
  `mvt_sample_of_inf_sim`); here it is instantiated at the exact-value carrier `XR` (IEEE special values, no rounding)
  and at IEEE `Float`. -/

/-- full(XR): on the exact-value carrier multiplying by the literal `1.0` changes nothing — NaN, ±∞ included -/
theorem xr_mul_one_lit (e : XR) : e * (1.0 : XR) = e := by
  rw [XR.ofScientific_eq, show (OfScientific.ofScientific 10 true 1 : ℝ) = 1 by norm_num]
  cases e with
  | nan => rfl
  | ninf => show XR.mul XR.ninf (XR.fin 1) = _; simp [XR.mul, XR.scaleInf]
  | fin r => rw [XR.fin_mul_fin, mul_one]
  | pinf => show XR.mul XR.pinf (XR.fin 1) = _; simp [XR.mul, XR.scaleInf]

/-- full(XR): over the exact-value carrier, for `freedom = +∞` or `−∞` (`is_infinite()`): the sampler never panics,
    draws NO chi-squared variate, and its result is exactly the MultivariateNormal-style affine image
    `(&scale_chol_decomp * z) + &location` of the `dim` standard normals `z` drawn from the ORIGINAL stream (the weight
    `1.0` disappears: `xr_mul_one_lit`), with the stream left by those normals. -/
theorem mvt_sample_of_inf_xr (d : MultivariateStudent XR) (hinf : d.f_freedom = XR.pinf ∨ d.f_freedom = XR.ninf)
    (rng : Rng) :
    let zs := stdNormalVec (α := XR) d.f_location.length rng
    MultivariateStudent.sample d rng = some (vadd (LA.matvec d.f_scale_chol_decomp zs.1) d.f_location, zs.2) := by
  have hi : RFun.isInf d.f_freedom = true := by rcases hinf with h | h <;> rw [h] <;> rfl
  exact mvt_sample_of_inf_eq_affine d hi (fun _ _ e _ => xr_mul_one_lit e) rng

/-- full(XR): … i.e. `MultivariateStudent::sample` with infinite `freedom` IS `MultivariateNormal::sample` (values and
    stream) of the `MultivariateNormal` with `mu = location` and the same stored Cholesky factor. -/
theorem mvt_sample_of_inf_xr_eq_mvn (d : MultivariateStudent XR) (hinf : d.f_freedom = XR.pinf ∨ d.f_freedom = XR.ninf)
    (m : MultivariateNormal XR) (hmu : m.f_mu = d.f_location) (hch : m.f_cov_chol_decomp = d.f_scale_chol_decomp)
    (rng : Rng) :
    MultivariateStudent.sample d rng = some (MultivariateNormal.sample m rng) := by
  have hi : RFun.isInf d.f_freedom = true := by rcases hinf with h | h <;> rw [h] <;> rfl
  exact mvt_sample_of_inf_eq_mvn d hi (fun _ _ e _ => xr_mul_one_lit e) m hmu hch rng

/-- non-vacuity: an `XR` object with `freedom = +∞`, and a `MultivariateNormal` with the same location and factor -/
example : ∃ (d : MultivariateStudent XR) (m : MultivariateNormal XR),
    (d.f_freedom = XR.pinf ∨ d.f_freedom = XR.ninf) ∧ m.f_mu = d.f_location ∧
      m.f_cov_chol_decomp = d.f_scale_chol_decomp :=
  ⟨{ f_scale_chol_decomp := [[XR.fin 1]], f_location := [XR.fin 0], f_scale := [[XR.fin 1]], f_freedom := XR.pinf,
     f_precision := [[XR.fin 1]], f_ln_pdf_const := XR.fin 0 },
   { f_cov_chol_decomp := [[XR.fin 1]], f_mu := [XR.fin 0], f_cov := [[XR.fin 1]], f_precision := [[XR.fin 1]],
     f_pdf_const := XR.fin 1 }, Or.inl rfl, rfl, rfl⟩

/-- full(Float): at IEEE `Float` (all laws proved from `Float.Model`: `floatLaws_float`), for every
    `MultivariateStudent` with `freedom = ±inf` — whatever the entries of the factor and of the location, NaN and ±inf
    included — the sampler never panics, draws no chi-squared variate, leaves the stream left by the `dim` normal
    draws made from the ORIGINAL stream, and every entry of the result is the same IEEE value (`==`, or NaN for NaN) as
    the corresponding entry of `(&scale_chol_decomp * z) + &location`. -/
theorem mvt_sample_of_inf_float (d : MultivariateStudent Float) (hinf : RFun.isInf d.f_freedom = true) (rng : Rng) :
    let zs := stdNormalVec (α := Float) d.f_location.length rng
    ∃ v, MultivariateStudent.sample d rng = some v ∧ v.2 = zs.2 ∧
      List.Forall₂ Sim v.1 (vadd (LA.matvec d.f_scale_chol_decomp zs.1) d.f_location) :=
  mvt_sample_of_inf_sim Statrs.Props.Common.floatLaws_float.ord Statrs.Props.Common.floatLaws_float.exact
    Statrs.Props.Common.floatLaws_float.nan d hinf rng

/-- full(Float): … i.e. entry-wise the same IEEE values, and the same stream, as `MultivariateNormal::sample` of the
    `MultivariateNormal` with `mu = location` and the same stored Cholesky factor. -/
theorem mvt_sample_of_inf_float_mvn (d : MultivariateStudent Float) (hinf : RFun.isInf d.f_freedom = true)
    (m : MultivariateNormal Float) (hmu : m.f_mu = d.f_location)
    (hch : m.f_cov_chol_decomp = d.f_scale_chol_decomp) (rng : Rng) :
    ∃ v, MultivariateStudent.sample d rng = some v ∧ v.2 = (MultivariateNormal.sample m rng).2 ∧
      List.Forall₂ Sim v.1 (MultivariateNormal.sample m rng).1 :=
  mvt_sample_of_inf_sim_mvn Statrs.Props.Common.floatLaws_float.ord Statrs.Props.Common.floatLaws_float.exact
    Statrs.Props.Common.floatLaws_float.nan d hinf m hmu hch rng

/-- non-vacuity: a `Float` object with `freedom = f64::INFINITY` -/
example : ∃ d : MultivariateStudent Float, RFun.isInf d.f_freedom = true :=
  ⟨{ f_scale_chol_decomp := [[1.0]], f_location := [0.0], f_scale := [[1.0]], f_freedom := RFun.inf,
     f_precision := [[1.0]], f_ln_pdf_const := 0.0 }, Statrs.Props.Common.floatLaws_float.inf.inf_isInf⟩

/-! ### `Multinomial::sample` as `OVector<f64>` -/

/-- full(ℝ): `res[i] += 1.0` on the cast vector is the cast of `res[i] += 1` -/
theorem listSet_map_cast (is : List Int) (i : Int) :
    listSet (is.map (fun k => ((k : Int) : ℝ))) i (listGet (is.map (fun k => ((k : Int) : ℝ))) i + (1.0 : ℝ))
      = (listSet is i (listGet is i + 1)).map (fun k => ((k : Int) : ℝ)) := by
  unfold listSet listGet
  by_cases hi : i < 0
  · simp [hi]
  · simp only [hi, if_false]
    rw [List.map_set]
    by_cases hk : i.toNat < is.length
    · congr 1
      rw [List.getD_eq_getElem?_getD, List.getD_eq_getElem?_getD, List.getElem?_map,
        List.getElem?_eq_getElem hk]
      simp only [Option.map_some, Option.getD_some]
      push_cast; norm_num
    · rw [List.set_eq_of_length_le (by simpa using hk), List.set_eq_of_length_le (by simpa using hk)]

/-- full(ℝ): one trial of the `f64` sampler is the cast of one trial of the `u64` sampler -/
theorem multinomial_step_f64_eq (cdf : List ℝ) (is : List Int) (r : Rng) :
    multinomial_sample_f64.step (α := ℝ) cdf (is.map (fun k => ((k : Int) : ℝ)), r)
      = ((multinomial_sample.step (α := ℝ) cdf (is, r)).1.map (fun k => ((k : Int) : ℝ)),
         (multinomial_sample.step (α := ℝ) cdf (is, r)).2) := by
  unfold multinomial_sample_f64.step multinomial_sample.step
  simp only
  rw [listSet_map_cast]

/-- full(ℝ): `m` trials of the `f64` sampler are the cast of `m` trials of the `u64` sampler -/
theorem multinomial_fold_f64_eq (cdf : List ℝ) : ∀ (m : Nat) (is : List Int) (r : Rng),
    foldTimes (multinomial_sample_f64.step (α := ℝ) cdf) m (is.map (fun k => ((k : Int) : ℝ)), r)
      = ((foldTimes (multinomial_sample.step (α := ℝ) cdf) m (is, r)).1.map (fun k => ((k : Int) : ℝ)),
         (foldTimes (multinomial_sample.step (α := ℝ) cdf) m (is, r)).2) := by
  intro m
  induction m with
  | zero => intro is r; rfl
  | succ m ih =>
    intro is r
    simp only [foldTimes]
    rw [multinomial_step_f64_eq, ih]

/-- full(ℝ): the `f64` instance of `Multinomial::sample` is the `u64` one cast entry by entry (`n as f64`), and
    leaves the same stream: `multinomial_sample_f64 = (map ofInt × id) ∘ multinomial_sample`, for every weight vector,
    every `n` and every stream. -/
theorem multinomial_sample_f64_eq (p : List ℝ) (n : Int) (rng : Rng) :
    multinomial_sample_f64 (α := ℝ) p n rng
      = ((multinomial_sample (α := ℝ) p n rng).1.map (fun k => (RFun.ofInt k : ℝ)),
         (multinomial_sample (α := ℝ) p n rng).2) := by
  unfold multinomial_sample_f64 multinomial_sample
  have h0 : List.replicate p.length (0.0 : ℝ) = (List.replicate p.length (0 : Int)).map (fun k => ((k : Int) : ℝ)) := by
    rw [List.map_replicate]; norm_num
  simp only [h0, rfun_ofInt]
  exact multinomial_fold_f64_eq _ _ _ _

/-- full(ℝ): for non-negative weights, `n ≥ 0` and a well-formed stream the `f64` count vector has one entry per
    category, every entry is a non-negative integer, the entries sum to `n`, and exactly `n` words are consumed. -/
theorem multinomial_sample_f64_spec (p : List ℝ) (hne : p ≠ []) (hp : ∀ x ∈ p, 0 ≤ x) (n : Int)
    (hn : 0 ≤ n) (r : Rng) (hwf : r.WF) :
    (multinomial_sample_f64 (α := ℝ) p n r).1.length = p.length
      ∧ (multinomial_sample_f64 (α := ℝ) p n r).1.sum = (n : ℝ)
      ∧ (∀ x ∈ (multinomial_sample_f64 (α := ℝ) p n r).1, ∃ k : Int, 0 ≤ k ∧ x = (k : ℝ))
      ∧ Consumes r (multinomial_sample_f64 (α := ℝ) p n r).2 n.toNat := by
  obtain ⟨h1, h2, h3, h4⟩ := multinomial_sample_spec p hne hp n hn r hwf
  rw [multinomial_sample_f64_eq]
  refine ⟨by simpa using h1, ?_, ?_, h4⟩
  · have key : ∀ l : List Int, (l.map (fun k => ((k : Int) : ℝ))).sum = ((l.sum : Int) : ℝ) := by
      intro l
      induction l with
      | nil => simp
      | cons a t ih => rw [List.map_cons, List.sum_cons, List.sum_cons, ih]; push_cast; ring
    simp only [rfun_ofInt]
    rw [key, h2]
  · intro x hx
    simp only [List.mem_map, rfun_ofInt] at hx
    obtain ⟨k, hk, rfl⟩ := hx
    exact ⟨k, h3 k hk, rfl⟩

/-! ### `Empirical::sample` over ℝ -/

/-- full(ℝ): `Empirical::sample` consumes ONE word `w` and returns `__inverse_cdf(u)` for
    `u = unit52(w) / (1 − 2⁻⁵²)` (`Uniform::new_inclusive(0,1)` has scale `1/(1 − 2⁻⁵²)`), where
    `unit52 w = ⌊w / 4096⌋·2⁻⁵²`. -/
theorem empirical_sample_cons (e : Empirical ℝ) (w : Int) (t : List Int) :
    Empirical.sample e ⟨w :: t⟩ = (Empirical.inverse_cdf e (unit52 w / (1 - 1 / 2 ^ 52)), ⟨t⟩) := by
  rw [empirical_sample_eq]
  unfold Model.Uniform.sample_f64
  simp only
  rw [show (0.0 : ℝ) = 0 by norm_num, show (1.0 : ℝ) = 1 by norm_num,
    uniformNewInclusive_real 0 1 (by norm_num)]
  simp only [uniformSample_cons]
  congr 2
  ring

/-- full(ℝ): the uniform variate fed to `__inverse_cdf` lies in `[0, 1]` for a `u64` word (both ends attained:
    `u = 0 ↦ min()`, `u = 1 ↦ max()`). -/
theorem empirical_sample_u_mem {w : Int} (h0 : 0 ≤ w) (h1 : w < 18446744073709551616) :
    0 ≤ unit52 w / (1 - 1 / 2 ^ 52) ∧ unit52 w / (1 - 1 / 2 ^ 52) ≤ 1 := by
  have hm : (0 : ℝ) < 1 - 1 / 2 ^ 52 := by norm_num
  obtain ⟨a, _⟩ := unit52_mem h0 h1
  refine ⟨div_nonneg a hm.le, ?_⟩
  rw [div_le_one hm]
  have hb : w / 4096 ≤ 4503599627370495 := by omega
  have hb' : ((w / 4096 : Int) : ℝ) ≤ 4503599627370495 := by exact_mod_cast hb
  unfold unit52
  rw [div_le_iff₀ (by positivity)]
  norm_num
  linarith

/-- full(ℝ): `Empirical::sample` consumes exactly the one word of its uniform draw. -/
theorem empirical_sample_consumes (e : Empirical ℝ) (rng : Rng) : Consumes rng (Empirical.sample e rng).2 1 := by
  rw [empirical_sample_eq]
  unfold Model.Uniform.sample_f64
  simp only
  rw [show (0.0 : ℝ) = 0 by norm_num, show (1.0 : ℝ) = 1 by norm_num,
    uniformNewInclusive_real 0 1 (by norm_num)]
  exact nextU64_consumes rng

/-- full(ℝ): on an invariant non-empty state (C15) whose held values are finite doubles, a draw whose uniform variate
    falls strictly inside `(0,1)` is within the bisection bound of a HELD value — the order statistic `⌈u·n⌉`. -/
theorem empirical_sample_bound {e : Empirical ℝ} {m : Multiset ℝ} (h : Statrs.Props.C15.Inv e m) (hm : m ≠ 0)
    (w : Int) (t : List Int)
    (hu0 : 0 < unit52 w / (1 - 1 / 2 ^ 52)) (hu1 : unit52 w / (1 - 1 / 2 ^ 52) < 1)
    (hb : ∀ x ∈ m, |x| ≤ 2 ^ 1024) :
    ∃ v Q, Empirical.sample e ⟨w :: t⟩ = (some v, ⟨t⟩) ∧ Q ∈ m ∧ |v - Q| ≤ 2⁻¹ ^ 15 * max 1 |Q| := by
  have hq := Statrs.Lemmas.EmpiricalOrder.quantile_mem hm hu0 hu1.le
  obtain ⟨v, hv, hbd⟩ := Statrs.Props.C05.empirical_inverse_cdf_bound h hm hu0 hu1 (hb _ hq)
  exact ⟨v, _, by rw [empirical_sample_cons, hv], hq, hbd⟩

end Statrs.Props.C06
